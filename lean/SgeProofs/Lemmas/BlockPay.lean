/-
  The balance change of ONE account over a WHOLE end-block, aggregated over all its roles (C03/C04, block level).
  Every `Settle` call moves `c4b_betMove` on the account, every `settleParticipation` call `c4b_partMove`; the
  calls of one end-block are exactly those that turn a record that was unsettled / unpaid at the start of the block
  into a settled / paid one, so the per-call equations fold into a sum over the records of the new state that are
  settled / paid now and were not at the start of the block.

  The proof carries two ledgers through the two phases of the end-block:
    `c4b_BetAcc`   balance = start + Σ_{settled now, open at the start} betMove      (BatchMarketSettlements)
    `c4b_PartAcc`  balance = start + Σ_{paid now, unpaid at the start} partMove      (BatchOrderBookSettlements)
  Nothing here assumes `0 ≤ f.bet` for a backing part.
-/
import SgeProofs.Lemmas.ReturnsEnd
import SgeProofs.Lemmas.BettorPayRun
namespace Sge.Core
open Sge Sge.Genesis

-- ---------------------------------------------------------------------------------------------
-- the moves of one call

/-- what ONE `Settle` call on bet `x` of market `m` moves on account `a`: the pool pays the bettor (winnings of a
    winner, the stake on a refund), the bet-fee collector pays the fee (to the market creator on a declared result,
    back to the bettor on a refund); `a` may play several of the four roles at once -/
def c4b_betMove (a : Nat) (m : Market) (x : Bet) : Int :=
  (if a = x.creator then bpPay m x else 0) + (if a = bpFeeTo m x then x.fee else 0)
  - (if a = ACC_POOL then bpPay m x else 0) - (if a = ACC_BETFEE then x.fee else 0)

/-- what ONE `settleParticipation` call on participation `p` of market `m` moves on account `a`: the pool pays the
    depositor liquidity ± realised profit, the house-fee collector pays the fee to the depositor or the creator -/
def c4b_partMove (a : Nat) (m : Market) (p : Part) : Int :=
  (if a = p.addr then p.payout m else 0) + (if a = feeDest p m then p.fee else 0)
  - (if a = ACC_POOL then p.payout m else 0) - (if a = ACC_HOUSEFEE then p.fee else 0)

/-- the bet stored under key `k` at the start of the block was not settled -/
def c4b_openAt (bets0 : List Bet) (k : List Nat) : Bool :=
  match lookup Bet.key k bets0 with
  | some y => y.status != BS_SETTLED
  | none => false

/-- participation `i` of book `u` was stored unpaid at the start of the block -/
def c4b_unpaidAt (books0 : List Book) (u i : Nat) : Bool :=
  match lookup Book.key [u] books0 with
  | some b => (match b.getPart i with | some p => !p.isSettled | none => false)
  | none => false

/-- the contribution of bet record `x` to the block's balance change of `a`: its move if it is settled now and was
    open at the start of the block (`ref`), nothing otherwise -/
def c4b_betTerm (a : Nat) (mks : List Market) (ref : List Nat → Bool) (x : Bet) : Int :=
  if x.status == BS_SETTLED && ref (Bet.key x) then
    (match lookup Market.key [x.market] mks with | some m => c4b_betMove a m x | none => 0)
  else 0

/-- the contribution of participation record `p`: its move if it is paid now and was unpaid at the start -/
def c4b_partTerm (a : Nat) (om : Option Market) (ref : Nat → Bool) (p : Part) : Int :=
  if p.isSettled && ref p.idx then (match om with | some m => c4b_partMove a m p | none => 0) else 0

/-- the contribution of a book: the sum over its participations -/
def c4b_bookTerm (a : Nat) (mks : List Market) (ref : Nat → Nat → Bool) (b : Book) : Int :=
  sumBy (c4b_partTerm a (lookup Market.key [b.uid] mks) (ref b.uid)) b.parts

-- ---------------------------------------------------------------------------------------------
-- the bet phase

/-- the ledger of the bet phase, for account `a` whose balance was `c` at the start of the block -/
structure c4b_BetAcc (a : Nat) (c : Int) (mks : List Market) (ref : List Nat → Bool) (σ : State) : Prop where
  idx : BetIdx σ
  mkts : σ.markets = mks
  bal : getBal σ.bal a = c + sumBy (c4b_betTerm a mks ref) σ.bets
  op : ∀ x ∈ σ.bets, x.status ≠ BS_SETTLED → ref (Bet.key x) = true

theorem c4b_betTerm_open (a : Nat) (mks : List Market) (ref : List Nat → Bool) (x : Bet) (h : x.status ≠ BS_SETTLED) :
    c4b_betTerm a mks ref x = 0 := by
  unfold c4b_betTerm
  have : (x.status == BS_SETTLED) = false := by simpa using h
  simp [this]

/-- a state that differs only outside bets, markets and the balance of `a` -/
theorem c4b_BetAcc.of_eq {a : Nat} {c : Int} {mks : List Market} {ref : List Nat → Bool} {σ σ' : State}
    (h : c4b_BetAcc a c mks ref σ) (e : SameBets σ σ') (em : σ'.markets = σ.markets) (eb : σ'.bal = σ.bal) :
    c4b_BetAcc a c mks ref σ' :=
  ⟨h.idx.of_same e, em.trans h.mkts, by rw [eb, e.1]; exact h.bal, by rw [e.1]; exact h.op⟩

/-- ONE `Settle` call keeps the ledger: the balance moves by exactly the term of the record that becomes settled -/
theorem c4b_settleBet {a : Nat} {c : Int} {mks : List Market} {ref : List Nat → Bool} {σ σ' : State} {cr u : Nat}
    (hA : c4b_BetAcc a c mks ref σ) (h : settleBet σ cr u = some σ') : c4b_BetAcc a c mks ref σ' := by
  have hI := hA.idx
  obtain ⟨b0, hb0, hu, hc, hns, _⟩ := settleBet_target hI h
  subst hu
  subst hc
  obtain ⟨_, m, hm, _, hbets, hmk, _, hbal⟩ := bp_settleBet_exact hI hb0 h
  have hl : lookup Bet.key (Bet.key (bpSettledRec m b0 σ.height)) σ.bets = some b0 :=
    lookup_of_mem_sorted Bet.key b0 σ.bets hI.sBets hb0
  have hm' : lookup Market.key [b0.market] mks = some m := by rw [← hA.mkts]; exact hm
  have hterm : c4b_betTerm a mks ref (bpSettledRec m b0 σ.height) = c4b_betMove a m b0 := by
    unfold c4b_betTerm
    have e1 : ((bpSettledRec m b0 σ.height).status == BS_SETTLED) = true := rfl
    have e2 : ref (Bet.key (bpSettledRec m b0 σ.height)) = true := hA.op b0 hb0 hns
    have e3 : (bpSettledRec m b0 σ.height).market = b0.market := rfl
    rw [e1, e2, e3, hm']
    rfl
  refine ⟨(settleBet_good hI h).1, hmk.trans hA.mkts, ?_, ?_⟩
  · rw [hbets, sumBy_upsert Bet.key _ _ σ.bets hI.sBets, hl]
    simp only
    rw [c4b_betTerm_open a mks ref b0 hns, hterm, hbal a, hA.bal]
    unfold c4b_betMove
    omega
  · intro x hx hxs
    rw [hbets] at hx
    rcases mem_upsert_or Bet.key _ _ _ hx with e | hold
    · rw [e] at hxs
      exact absurd rfl hxs
    · exact hA.op x hold hxs

theorem c4b_settlePage {a : Nat} {c : Int} {mks : List Market} {ref : List Nat → Bool} :
    ∀ (page : List (Nat × Nat × Nat × Nat)) (σ : State) (r : State × Nat),
    c4b_BetAcc a c mks ref σ → settlePage σ page = some r → c4b_BetAcc a c mks ref r.1 := by
  intro page
  induction page with
  | nil => intro σ r hA h; simp [settlePage] at h; rw [← h]; exact hA
  | cons pb rest ih =>
    intro σ r hA h
    unfold settlePage at h
    simp only [bind, Option.bind_eq_some_iff, pure, Option.some.injEq] at h
    obtain ⟨s1, h1, r1, hr, rfl⟩ := h
    exact ih s1 r1 (c4b_settleBet hA h1) hr

/-- SetOrderBookAsUnsettledResolved touches neither bets, markets nor balances -/
theorem c4b_bookResolved_frame {s s' : State} {u : Nat} (h : bookResolved s u = some s') :
    s'.markets = s.markets ∧ s'.bal = s.bal := by
  unfold bookResolved at h
  simp only [bind, Option.bind_eq_some_iff, pure, Option.some.injEq] at h
  obtain ⟨_, _, _, _, rfl⟩ := h
  exact ⟨rfl, rfl⟩

theorem c4b_betEndBlockStep {a : Nat} {c : Int} {mks : List Market} {ref : List Nat → Bool} {σ : State} {mk n : Nat}
    {r : State × Nat} (hA : c4b_BetAcc a c mks ref σ) (h : betEndBlockStep σ mk n = some r) :
    c4b_BetAcc a c mks ref r.1 := by
  unfold betEndBlockStep at h
  simp only [bind, Option.bind_eq_some_iff] at h
  obtain ⟨r0, h0, h⟩ := h
  have g0 := c4b_settlePage _ _ _ hA h0
  split at h
  · simp only [pure, Option.some.injEq] at h; rw [← h]; exact g0
  · simp only [Option.bind_eq_some_iff, pure, Option.some.injEq] at h
    obtain ⟨q, _, s2, h2, rfl⟩ := h
    have g1 : c4b_BetAcc a c mks ref { r0.1 with mqueue := q } := g0.of_eq ⟨rfl, rfl, rfl, rfl, rfl⟩ rfl rfl
    obtain ⟨f1, f2⟩ := c4b_bookResolved_frame h2
    exact g1.of_eq (bookResolved_same h2) f1 f2

theorem c4b_betEndBlock {a : Nat} {c : Int} {mks : List Market} {ref : List Nat → Bool} :
    ∀ (fuel : Nat) (σ : State) (n : Nat) (σ' : State),
    c4b_BetAcc a c mks ref σ → betEndBlock fuel σ n = some σ' → c4b_BetAcc a c mks ref σ' := by
  intro fuel
  induction fuel with
  | zero => intro σ n σ' hA h; simp [betEndBlock] at h; rw [← h]; exact hA
  | succ fuel ih =>
    intro σ n σ' hA h
    unfold betEndBlock at h
    split at h
    · simp at h; rw [← h]; exact hA
    · split at h
      · simp at h; rw [← h]; exact hA
      · simp only [bind, Option.bind_eq_some_iff] at h
        obtain ⟨r, hr, h⟩ := h
        exact ih _ _ _ (c4b_betEndBlockStep hA hr) h

/-- at the start of the block nothing has been settled by it -/
theorem c4b_BetAcc.init (a : Nat) (s : State) (hI : BetIdx s) :
    c4b_BetAcc a (getBal s.bal a) s.markets (c4b_openAt s.bets) s := by
  have hl : ∀ x ∈ s.bets, c4b_openAt s.bets (Bet.key x) = (x.status != BS_SETTLED) := by
    intro x hx
    unfold c4b_openAt
    rw [lookup_of_mem_sorted Bet.key x s.bets hI.sBets hx]
  refine ⟨hI, rfl, ?_, ?_⟩
  · rw [sumBy_zeroQ]
    · omega
    · intro x hx
      unfold c4b_betTerm
      rw [hl x hx]
      cases hs : (x.status == BS_SETTLED) <;> simp [bne, hs]
  · intro x hx hns
    rw [hl x hx]
    simpa using hns

-- ---------------------------------------------------------------------------------------------
-- the participation phase

/-- ONE `settleParticipation` call: the balance of every account moves by exactly `c4b_partMove` -/
theorem c4b_settlePart_bal {t : State} {bk : Book} {p : Part} {m : Market} {x : State × Book}
    (h : settlePart t bk p m = some x) (a : Nat) : getBal x.1.bal a = getBal t.bal a + c4b_partMove a m p := by
  unfold settlePart at h
  simp only [bind, Option.bind_eq_some_iff] at h
  obtain ⟨_, _, _, _, s1, h1, h⟩ := h
  have b1 := bp_bankSend_bal h1 a
  unfold c4b_partMove feeDest
  split at h
  · rename_i hc
    simp only [bind, Option.bind_eq_some_iff, pure, Option.some.injEq] at h
    obtain ⟨s2, h2, rfl⟩ := h
    have b2 := bp_bankSend_bal h2 a
    rw [if_pos hc]
    show getBal s2.bal a = _
    rw [b2, b1]
    repeat' split
    all_goals omega
  · rename_i hc
    simp only [bind, Option.bind_eq_some_iff, pure, Option.some.injEq] at h
    obtain ⟨s2, h2, rfl⟩ := h
    have b2 := bp_bankSend_bal h2 a
    rw [if_neg hc]
    show getBal s2.bal a = _
    rw [b2, b1]
    repeat' split
    all_goals omega

/-- the paid record moves what the unpaid record moved: the payment reads only liquidity, realised profit, total
    stake, depositor and fee, which `settleParticipation` does not write -/
theorem c4b_partMove_paidRec (a : Nat) (m : Market) (p : Part) :
    c4b_partMove a m (p.paidRec m) = c4b_partMove a m p := by
  unfold Part.paidRec
  split <;> rfl

theorem c4b_partTerm_unpaid (a : Nat) (om : Option Market) (ref : Nat → Bool) (p : Part) (h : p.isSettled = false) :
    c4b_partTerm a om ref p = 0 := by
  unfold c4b_partTerm
  simp [h]

theorem c4b_partTerm_paid (a : Nat) (m : Market) (ref : Nat → Bool) (p : Part) (h : p.isSettled = true)
    (hr : ref p.idx = true) : c4b_partTerm a (some m) ref p = c4b_partMove a m p := by
  unfold c4b_partTerm
  simp [h, hr]

/-- batchSettlementOfParticipation: the balance of `a` minus the terms of the book's participation list is
    constant along the loop, and a record that is still unpaid was unpaid at the start -/
theorem c4b_settleParts_bal (a : Nat) (m : Market) (count : Nat) (ref : Nat → Bool) :
    ∀ (ps : List Part) (t : State) (bk : Book) (sc pr : Nat) (r : State × Book × Nat × Nat),
    settleParts m count ps t bk sc pr = some r →
    ps.Pairwise (fun a c => a.idx ≠ c.idx) → (∀ p ∈ ps, bk.getPart p.idx = some p) →
    Sorted Part.key bk.parts → (∀ p ∈ bk.parts, p.isSettled = false → ref p.idx = true) →
    getBal r.1.bal a - sumBy (c4b_partTerm a (some m) ref) r.2.1.parts
      = getBal t.bal a - sumBy (c4b_partTerm a (some m) ref) bk.parts ∧
    (∀ p ∈ r.2.1.parts, p.isSettled = false → ref p.idx = true) := by
  intro ps
  induction ps with
  | nil =>
    intro t bk sc pr r h _ _ _ hop
    simp [settleParts] at h; rw [← h]
    exact ⟨rfl, hop⟩
  | cons p rest ih =>
    intro t bk sc pr r h hd hg hsp hop
    rw [List.pairwise_cons] at hd
    unfold settleParts at h
    simp only [bind, Option.bind_eq_some_iff] at h
    obtain ⟨r1, h1, h⟩ := h
    have hgp : bk.getPart p.idx = some p := hg p (List.mem_cons_self ..)
    have hstep : getBal r1.1.bal a - sumBy (c4b_partTerm a (some m) ref) r1.2.1.parts
          = getBal t.bal a - sumBy (c4b_partTerm a (some m) ref) bk.parts ∧
        (∀ q ∈ rest, r1.2.1.getPart q.idx = some q) ∧ Sorted Part.key r1.2.1.parts ∧
        (∀ q ∈ r1.2.1.parts, q.isSettled = false → ref q.idx = true) := by
      unfold settleOne at h1
      split at h1
      · simp only [Option.map_eq_some_iff] at h1
        obtain ⟨x, hx, rfl⟩ := h1
        obtain ⟨hun, _, e1⟩ := ret_settlePart_rec hx
        obtain ⟨f1, _, _, _, _, _, f7, _⟩ := p.paidRec_fields m
        have hparts : x.2.parts = upsert Part.key (p.paidRec m) bk.parts := by rw [e1]; rfl
        have hl : lookup Part.key (Part.key (p.paidRec m)) bk.parts = some p := by
          have := hgp
          rw [← f1] at this
          exact this
        have hpm : p ∈ bk.parts := (Book.getPart_mem hgp).1
        refine ⟨?_, ?_, ?_, ?_⟩
        · show getBal x.1.bal a - sumBy _ x.2.parts = _
          rw [hparts, sumBy_upsert Part.key _ _ bk.parts hsp, hl, c4b_settlePart_bal hx a]
          simp only
          rw [c4b_partTerm_unpaid a _ ref p hun,
            c4b_partTerm_paid a m ref _ f7 (by rw [f1]; exact hop p hpm hun), c4b_partMove_paidRec]
          omega
        · intro q hq
          show x.2.getPart q.idx = some q
          rw [e1, Book.getPart_setPart_ne _ _ _ (by rw [f1]; exact hd.1 q hq)]
          exact hg q (List.mem_cons_of_mem _ hq)
        · show Sorted Part.key x.2.parts
          rw [hparts]
          exact upsert_sorted Part.key _ _ hsp
        · intro q hq hqs
          have hq : q ∈ x.2.parts := hq
          rw [hparts] at hq
          rcases mem_upsert_or Part.key _ _ _ hq with e | hold
          · rw [e, f7] at hqs; cases hqs
          · exact hop q hold hqs
      · cases h1
        exact ⟨rfl, fun q hq => hg q (List.mem_cons_of_mem _ hq), hsp, hop⟩
    obtain ⟨S1, S2, S3, S4⟩ := hstep
    split at h
    · simp only [pure, Option.some.injEq] at h
      rw [← h]
      exact ⟨S1, S4⟩
    · obtain ⟨T1, T2⟩ := ih _ _ _ _ _ h hd.2 S2 S3 S4
      exact ⟨T1.trans S1, T2⟩

/-- the ledger of the participation phase, for account `a` whose balance was `c` when the phase began -/
structure c4b_PartAcc (a : Nat) (c : Int) (mks : List Market) (ref : Nat → Nat → Bool) (σ : State) : Prop where
  all : RetAll σ
  mkts : σ.markets = mks
  bal : getBal σ.bal a = c + sumBy (c4b_bookTerm a mks ref) σ.books
  op : ∀ b ∈ σ.books, ∀ p ∈ b.parts, p.isSettled = false → ref b.uid p.idx = true

/-- one iteration of BatchOrderBookSettlements keeps the ledger: the resolved book `b` is replaced by `B`, which
    carries the participation list the loop returned; the balance moved by the terms of the records paid -/
theorem c4b_obIter {a : Nat} {c : Int} {mks : List Market} {ref : Nat → Nat → Bool} {σ σ'' : State} {n : Nat}
    {b B : Book} {m : Market} {r : State × Book × Nat × Nat}
    (hA : c4b_PartAcc a c mks ref σ) (hbm : b ∈ σ.books) (hm : getMarket σ b.uid = some m)
    (hr : settleParts m n b.parts σ b 0 0 = some r) (hBu : B.uid = b.uid) (hBp : B.parts = r.2.1.parts)
    (hbal : σ''.bal = r.1.bal) (hbooks : σ''.books = upsert Book.key B σ.books) (hmk : σ''.markets = σ.markets)
    (hall : RetAll σ'') : c4b_PartAcc a c mks ref σ'' := by
  have hsp := hA.all.sortedParts b hbm
  have hpw := ret_sorted_pairwise_idx hsp
  have hget : ∀ q ∈ b.parts, b.getPart q.idx = some q := fun q hq => Book.mem_getPart hsp hq
  obtain ⟨I1, I2⟩ := c4b_settleParts_bal a m n (ref b.uid) b.parts σ b 0 0 r hr hpw hget hsp (hA.op b hbm)
  have hm' : lookup Market.key [b.uid] mks = some m := by rw [← hA.mkts]; exact hm
  have hl : lookup Book.key (Book.key B) σ.books = some b := by
    have := mem_getBook hA.all.ob.sB hbm
    unfold getBook at this
    show lookup Book.key [B.uid] σ.books = some b
    rw [hBu]; exact this
  have hFB : c4b_bookTerm a mks ref B = sumBy (c4b_partTerm a (some m) (ref b.uid)) r.2.1.parts := by
    unfold c4b_bookTerm
    rw [hBu, hBp, hm']
  have hFb : c4b_bookTerm a mks ref b = sumBy (c4b_partTerm a (some m) (ref b.uid)) b.parts := by
    unfold c4b_bookTerm
    rw [hm']
  refine ⟨hall, hmk.trans hA.mkts, ?_, ?_⟩
  · rw [hbal, hbooks, sumBy_upsert Book.key _ B σ.books hA.all.ob.sB, hl]
    simp only
    rw [hFB, hFb]
    have := hA.bal
    omega
  · intro b' hb' q hq hqs
    rw [hbooks] at hb'
    rcases mem_upsert_or Book.key _ _ _ hb' with e | hold
    · subst e
      rw [hBu]
      rw [hBp] at hq
      exact I2 q hq hqs
    · exact hA.op b' hold q hq hqs

/-- BatchOrderBookSettlements keeps the ledger -/
theorem c4b_obEndBlock {a : Nat} {c : Int} {mks : List Market} {ref : Nat → Nat → Bool} :
    ∀ (fuel : Nat) (σ : State) (n i : Nat) (σ' : State),
    c4b_PartAcc a c mks ref σ → obEndBlock fuel σ n i = some σ' → c4b_PartAcc a c mks ref σ' := by
  intro fuel
  induction fuel with
  | zero => intro σ n i σ' hA h; simp [obEndBlock] at h; rw [← h]; exact hA
  | succ fuel ih =>
    intro σ n i σ' hP h
    have hA := hP.all
    unfold obEndBlock at h
    split at h
    · simp at h; rw [← h]; exact hP
    · split at h
      · simp at h; rw [← h]; exact hP
      · simp only [bind, Option.bind_eq_some_iff] at h
        obtain ⟨b, hb, m, hm, _, hres, r, hr, h⟩ := h
        have hres : b.status = OB_RESOLVED := by simpa using chk_some hres
        obtain ⟨hbm, hbu⟩ := getBook_mem hb
        have hm' : getMarket σ b.uid = some m := by rw [hbu]; exact hm
        have hsP := (hA.ob.qinv b hbm).s.sP
        obtain ⟨⟨bal', hbal⟩, hx0⟩ := settleParts_ext m n b.parts σ b 0 0 r hr (ret_sorted_pairwise_idx hsP)
          (fun p hp => Book.mem_getPart hsP hp)
        have hst1 : r.2.1.status = OB_RESOLVED := by
          obtain ⟨_, _, e, _⟩ := ret_settleParts_trace m n (fun _ _ => True) σ b.parts σ b 0 0 r hr ⟨σ.bal, rfl⟩
            (ret_sorted_pairwise_idx hsP) (fun p hp => Book.mem_getPart hsP hp) (fun _ _ _ _ _ _ _ => trivial)
          rw [e, hres]
        split at h
        · rename_i hall
          simp only [bind, Option.bind_eq_some_iff] at h
          obtain ⟨q, _, h⟩ := h
          have hlen : r.2.2.2 = b.parts.length := by simpa using hall
          obtain ⟨hA1, _⟩ := ret_obIter hA hbm hm' hres hr { r.2.1 with status := OB_SETTLED }
            (setBook { r.1 with obqueue := q } { r.2.1 with status := OB_SETTLED })
            (hx0.trans (Ext.status r.2.1 OB_SETTLED)) rfl (Or.inr ⟨rfl, hlen⟩) rfl (by rw [hbal]; rfl) (by rw [hbal]; rfl)
            (by rw [hbal]; rfl) (by rw [hbal]; rfl) (by rw [hbal]; rfl) (by rw [hbal]; rfl)
          have hP1 := c4b_obIter (σ'' := setBook { r.1 with obqueue := q } { r.2.1 with status := OB_SETTLED })
            (B := { r.2.1 with status := OB_SETTLED }) hP hbm hm' hr hx0.uid rfl rfl (by rw [hbal]; rfl)
            (by rw [hbal]; rfl) hA1
          exact ih _ _ _ _ hP1 h
        · obtain ⟨hA1, _⟩ := ret_obIter hA hbm hm' hres hr r.2.1 (setBook r.1 r.2.1) hx0 rfl (Or.inl hst1)
            rfl (by rw [hbal]; rfl) (by rw [hbal]; rfl) (by rw [hbal]; rfl) (by rw [hbal]; rfl) (by rw [hbal]; rfl)
            (by rw [hbal]; rfl)
          have hP1 := c4b_obIter (σ'' := setBook r.1 r.2.1) (B := r.2.1) hP hbm hm' hr hx0.uid rfl rfl
            (by rw [hbal]; rfl) (by rw [hbal]; rfl) hA1
          exact ih _ _ _ _ hP1 h

/-- when the participation phase begins nothing has been paid by this block: the bet phase only moved realised
    profits in the books -/
theorem c4b_PartAcc.init (a : Nat) {s s1 : State} (hsB : Sorted Book.key s.books) (hA1 : RetAll s1)
    (hP : ProfOnly s s1) (hmk : s1.markets = s.markets) :
    c4b_PartAcc a (getBal s1.bal a) s.markets (c4b_unpaidAt s.books) s1 := by
  have key : ∀ b' ∈ s1.books, ∀ p' ∈ b'.parts, c4b_unpaidAt s.books b'.uid p'.idx = !p'.isSettled := by
    intro b' hb' p' hp'
    obtain ⟨b, hb, hu, g⟩ := hP b' hb'
    obtain ⟨p, hp, e⟩ := g p'.idx p' (Book.mem_getPart (hA1.sortedParts b' hb') hp')
    have hl : lookup Book.key [b'.uid] s.books = some b := by
      have := mem_getBook hsB hb
      unfold getBook at this
      rw [← hu]; exact this
    have hs : p'.isSettled = p.isSettled := by rw [e]
    unfold c4b_unpaidAt
    rw [hl]
    simp only
    rw [hp, hs]
  refine ⟨hA1, hmk, ?_, ?_⟩
  · rw [sumBy_zeroQ]
    · omega
    · intro b' hb'
      unfold c4b_bookTerm
      apply sumBy_zeroQ
      intro p' hp'
      unfold c4b_partTerm
      rw [key b' hb' p' hp']
      cases p'.isSettled <;> rfl
  · intro b' hb' p' hp' hps
    rw [key b' hb' p' hp', hps]
    rfl

-- ---------------------------------------------------------------------------------------------
-- the whole end-block

/-- THE BALANCE CHANGE OF ONE ACCOUNT OVER A WHOLE END-BLOCK. In a state satisfying the whole-history invariants,
    a successful end-block changes the balance of every account `a` by exactly the moves of the bets that are
    settled afterwards and were open before, plus the moves of the participations that are paid afterwards and
    were unpaid before. -/
theorem c4b_endBlockO_bal {s s' : State} (hA : RetAll s) (hI : BetIdx s) (h : endBlockO s = some s') (a : Nat) :
    getBal s'.bal a = getBal s.bal a + sumBy (c4b_betTerm a s.markets (c4b_openAt s.bets)) s'.bets
      + sumBy (c4b_bookTerm a s.markets (c4b_unpaidAt s.books)) s'.books := by
  unfold endBlockO at h
  simp only [bind, Option.bind_eq_some_iff] at h
  obtain ⟨s1, h1, h2⟩ := h
  have hB := c4b_betEndBlock _ _ _ _ (c4b_BetAcc.init a s hI) h1
  obtain ⟨hR1, hP1⟩ := ret_betEndBlock _ _ _ _ hA.ob hA.ret h1
  have hA1 : RetAll s1 := ⟨betEndBlock_inv _ _ _ _ hA.sett h1, betEndBlock_obInv _ _ _ _ hA.ob h1, hR1⟩
  have hP := c4b_obEndBlock _ _ _ _ _ (c4b_PartAcc.init a hA.ob.sB hA1 hP1 (betEndBlock_markets _ _ _ _ h1)) h2
  have e := obEndBlock_same _ _ _ _ _ h2
  rw [hP.bal, hB.bal, e.1]

end Sge.Core

