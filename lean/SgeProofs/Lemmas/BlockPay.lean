/-
  The balance change of ONE account over a WHOLE end-block, aggregated over all its roles (C03/C04, block level).
  Every `Settle` call moves `c4b_betMove` on the account, every `settleParticipation` call `c4b_partMove`; the
  calls of one end-block are exactly those that turn a record that was unsettled / unpaid at the start of the block
  into a settled / paid one, so the per-call equations fold into a sum over the records of the new state that are
  settled / paid now and were not at the start of the block.

  The proof carries two ledgers through the two phases of the end-block:
    `c4b_BetAcc`   balance = start + Σ_{settled now, open at the start} betMove      (BatchMarketSettlements)
    `c4b_PartAcc`  balance = start + Σ_{paid now, unpaid at the start} partMove      (BatchOrderBookSettlements)
  Nothing here assumes `0 ≤ f.bet` for a backing part.
-/
import SgeProofs.Lemmas.ReturnsEnd
import SgeProofs.Lemmas.BettorPayRun
namespace Sge.Core
open Sge Sge.Genesis

-- ---------------------------------------------------------------------------------------------
-- the moves of one call

/-- what ONE `Settle` call on bet `x` of market `m` moves on account `a`: the pool pays the bettor (winnings of a
    winner, the stake on a refund), the bet-fee collector pays the fee (to the market creator on a declared result,
    back to the bettor on a refund); `a` may play several of the four roles at once -/
def c4b_betMove (a : Nat) (m : Market) (x : Bet) : Int :=
  (if a = x.creator then bpPay m x else 0) + (if a = bpFeeTo m x then x.fee else 0)
  - (if a = ACC_POOL then bpPay m x else 0) - (if a = ACC_BETFEE then x.fee else 0)

/-- what ONE `settleParticipation` call on participation `p` of market `m` moves on account `a`: the pool pays the
    depositor liquidity ± realised profit, the house-fee collector pays the fee to the depositor or the creator -/
def c4b_partMove (a : Nat) (m : Market) (p : Part) : Int :=
  (if a = p.addr then p.payout m else 0) + (if a = feeDest p m then p.fee else 0)
  - (if a = ACC_POOL then p.payout m else 0) - (if a = ACC_HOUSEFEE then p.fee else 0)

/-- the bet stored under key `k` at the start of the block was not settled -/
def c4b_openAt (bets0 : List Bet) (k : List Nat) : Bool :=
  match lookup Bet.key k bets0 with
  | some y => y.status != BS_SETTLED
  | none => false

/-- participation `i` of book `u` was stored unpaid at the start of the block -/
def c4b_unpaidAt (books0 : List Book) (u i : Nat) : Bool :=
  match lookup Book.key [u] books0 with
  | some b => (match b.getPart i with | some p => !p.isSettled | none => false)
  | none => false

/-- the contribution of bet record `x` to the block's balance change of `a`: its move if it is settled now and was
    open at the start of the block (`ref`), nothing otherwise -/
def c4b_betTerm (a : Nat) (mks : List Market) (ref : List Nat → Bool) (x : Bet) : Int :=
  if x.status == BS_SETTLED && ref (Bet.key x) then
    (match lookup Market.key [x.market] mks with | some m => c4b_betMove a m x | none => 0)
  else 0

/-- the contribution of participation record `p`: its move if it is paid now and was unpaid at the start -/
def c4b_partTerm (a : Nat) (om : Option Market) (ref : Nat → Bool) (p : Part) : Int :=
  if p.isSettled && ref p.idx then (match om with | some m => c4b_partMove a m p | none => 0) else 0

/-- the contribution of a book: the sum over its participations -/
def c4b_bookTerm (a : Nat) (mks : List Market) (ref : Nat → Nat → Bool) (b : Book) : Int :=
  sumBy (c4b_partTerm a (lookup Market.key [b.uid] mks) (ref b.uid)) b.parts

-- ---------------------------------------------------------------------------------------------
-- the bet phase

/-- the ledger of the bet phase, for account `a` whose balance was `c` at the start of the block -/
structure c4b_BetAcc (a : Nat) (c : Int) (mks : List Market) (ref : List Nat → Bool) (σ : State) : Prop where
  idx : BetIdx σ
  mkts : σ.markets = mks
  bal : getBal σ.bal a = c + sumBy (c4b_betTerm a mks ref) σ.bets
  op : ∀ x ∈ σ.bets, x.status ≠ BS_SETTLED → ref (Bet.key x) = true

theorem c4b_betTerm_open (a : Nat) (mks : List Market) (ref : List Nat → Bool) (x : Bet) (h : x.status ≠ BS_SETTLED) :
    c4b_betTerm a mks ref x = 0 := by
  unfold c4b_betTerm
  have : (x.status == BS_SETTLED) = false := by simpa using h
  simp [this]

/-- a state that differs only outside bets, markets and the balance of `a` -/
theorem c4b_BetAcc.of_eq {a : Nat} {c : Int} {mks : List Market} {ref : List Nat → Bool} {σ σ' : State}
    (h : c4b_BetAcc a c mks ref σ) (e : SameBets σ σ') (em : σ'.markets = σ.markets) (eb : σ'.bal = σ.bal) :
    c4b_BetAcc a c mks ref σ' :=
  ⟨h.idx.of_same e, em.trans h.mkts, by rw [eb, e.1]; exact h.bal, by rw [e.1]; exact h.op⟩

/-- ONE `Settle` call keeps the ledger: the balance moves by exactly the term of the record that becomes settled -/
theorem c4b_settleBet {a : Nat} {c : Int} {mks : List Market} {ref : List Nat → Bool} {σ σ' : State} {cr u : Nat}
    (hA : c4b_BetAcc a c mks ref σ) (h : settleBet σ cr u = some σ') : c4b_BetAcc a c mks ref σ' := by
  have hI := hA.idx
  obtain ⟨b0, hb0, hu, hc, hns, _⟩ := settleBet_target hI h
  subst hu
  subst hc
  obtain ⟨_, m, hm, _, hbets, hmk, _, hbal⟩ := bp_settleBet_exact hI hb0 h
  have hl : lookup Bet.key (Bet.key (bpSettledRec m b0 σ.height)) σ.bets = some b0 :=
    lookup_of_mem_sorted Bet.key b0 σ.bets hI.sBets hb0
  have hm' : lookup Market.key [b0.market] mks = some m := by rw [← hA.mkts]; exact hm
  have hterm : c4b_betTerm a mks ref (bpSettledRec m b0 σ.height) = c4b_betMove a m b0 := by
    unfold c4b_betTerm
    have e1 : ((bpSettledRec m b0 σ.height).status == BS_SETTLED) = true := rfl
    have e2 : ref (Bet.key (bpSettledRec m b0 σ.height)) = true := hA.op b0 hb0 hns
    have e3 : (bpSettledRec m b0 σ.height).market = b0.market := rfl
    rw [e1, e2, e3, hm']
    rfl
  refine ⟨(settleBet_good hI h).1, hmk.trans hA.mkts, ?_, ?_⟩
  · rw [hbets, sumBy_upsert Bet.key _ _ σ.bets hI.sBets, hl]
    simp only
    rw [c4b_betTerm_open a mks ref b0 hns, hterm, hbal a, hA.bal]
    unfold c4b_betMove
    omega
  · intro x hx hxs
    rw [hbets] at hx
    rcases mem_upsert_or Bet.key _ _ _ hx with e | hold
    · rw [e] at hxs
      exact absurd rfl hxs
    · exact hA.op x hold hxs

theorem c4b_settlePage {a : Nat} {c : Int} {mks : List Market} {ref : List Nat → Bool} :
    ∀ (page : List (Nat × Nat × Nat × Nat)) (σ : State) (r : State × Nat),
    c4b_BetAcc a c mks ref σ → settlePage σ page = some r → c4b_BetAcc a c mks ref r.1 := by
  intro page
  induction page with
  | nil => intro σ r hA h; simp [settlePage] at h; rw [← h]; exact hA
  | cons pb rest ih =>
    intro σ r hA h
    unfold settlePage at h
    simp only [bind, Option.bind_eq_some_iff, pure, Option.some.injEq] at h
    obtain ⟨s1, h1, r1, hr, rfl⟩ := h
    exact ih s1 r1 (c4b_settleBet hA h1) hr

/-- SetOrderBookAsUnsettledResolved touches neither bets, markets nor balances -/
theorem c4b_bookResolved_frame {s s' : State} {u : Nat} (h : bookResolved s u = some s') :
    s'.markets = s.markets ∧ s'.bal = s.bal := by
  unfold bookResolved at h
  simp only [bind, Option.bind_eq_some_iff, pure, Option.some.injEq] at h
  obtain ⟨_, _, _, _, rfl⟩ := h
  exact ⟨rfl, rfl⟩

theorem c4b_betEndBlockStep {a : Nat} {c : Int} {mks : List Market} {ref : List Nat → Bool} {σ : State} {mk n : Nat}
    {r : State × Nat} (hA : c4b_BetAcc a c mks ref σ) (h : betEndBlockStep σ mk n = some r) :
    c4b_BetAcc a c mks ref r.1 := by
  unfold betEndBlockStep at h
  simp only [bind, Option.bind_eq_some_iff] at h
  obtain ⟨r0, h0, h⟩ := h
  have g0 := c4b_settlePage _ _ _ hA h0
  split at h
  · simp only [pure, Option.some.injEq] at h; rw [← h]; exact g0
  · simp only [Option.bind_eq_some_iff, pure, Option.some.injEq] at h
    obtain ⟨q, _, s2, h2, rfl⟩ := h
    have g1 : c4b_BetAcc a c mks ref { r0.1 with mqueue := q } := g0.of_eq ⟨rfl, rfl, rfl, rfl, rfl⟩ rfl rfl
    obtain ⟨f1, f2⟩ := c4b_bookResolved_frame h2
    exact g1.of_eq (bookResolved_same h2) f1 f2

theorem c4b_betEndBlock {a : Nat} {c : Int} {mks : List Market} {ref : List Nat → Bool} :
    ∀ (fuel : Nat) (σ : State) (n : Nat) (σ' : State),
    c4b_BetAcc a c mks ref σ → betEndBlock fuel σ n = some σ' → c4b_BetAcc a c mks ref σ' := by
  intro fuel
  induction fuel with
  | zero => intro σ n σ' hA h; simp [betEndBlock] at h; rw [← h]; exact hA
  | succ fuel ih =>
    intro σ n σ' hA h
    unfold betEndBlock at h
    split at h
    · simp at h; rw [← h]; exact hA
    · split at h
      · simp at h; rw [← h]; exact hA
      · simp only [bind, Option.bind_eq_some_iff] at h
        obtain ⟨r, hr, h⟩ := h
        exact ih _ _ _ (c4b_betEndBlockStep hA hr) h

/-- at the start of the block nothing has been settled by it -/
theorem c4b_BetAcc.init (a : Nat) (s : State) (hI : BetIdx s) :
    c4b_BetAcc a (getBal s.bal a) s.markets (c4b_openAt s.bets) s := by
  have hl : ∀ x ∈ s.bets, c4b_openAt s.bets (Bet.key x) = (x.status != BS_SETTLED) := by
    intro x hx
    unfold c4b_openAt
    rw [lookup_of_mem_sorted Bet.key x s.bets hI.sBets hx]
  refine ⟨hI, rfl, ?_, ?_⟩
  · rw [sumBy_zeroQ]
    · omega
    · intro x hx
      unfold c4b_betTerm
      rw [hl x hx]
      cases hs : (x.status == BS_SETTLED) <;> simp [bne, hs]
  · intro x hx hns
    rw [hl x hx]
    simpa using hns

end Sge.Core
