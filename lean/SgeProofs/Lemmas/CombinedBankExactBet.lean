/-
  bank = available on the combined slice, part 1: an account that is neither the bettor of any bet nor the creator of
  any market (`cmb2_NoPay`; true of every address of the subaccount range when all signers are key-holding accounts)
  receives nothing in the bet-settlement phase of the end-block: its balance is exactly what it was.
-/
import SgeProofs.Lemmas.CombinedHooksTotalInv
namespace Sge.Combined
open Sge Sge.Core Sge.Genesis

/-- no bet names `a` as bettor, no market names `a` as creator -/
def cmb2_NoPay (a : Nat) (s : Core.State) : Prop := (∀ b ∈ s.bets, b.creator ≠ a) ∧ (∀ m ∈ s.markets, m.creator ≠ a)

theorem cmb2_NoPay.of_eq {a : Nat} {s s' : Core.State} (h : cmb2_NoPay a s) (e1 : s'.bets = s.bets) (e2 : s'.markets = s.markets) :
    cmb2_NoPay a s' := by
  unfold cmb2_NoPay; rw [e1, e2]; exact h

theorem cmb2_transfer_other {bal bal' : List (Nat × Int)} {src dst : Nat} {x : Int} (h : transfer bal src dst x = some bal')
    (a : Nat) (h1 : a ≠ src) (h2 : a ≠ dst) : getBal bal' a = getBal bal a := by
  have := (cmb_transfer_recv h a h1).2
  rw [if_neg h2] at this
  omega

theorem cmb2_bankSend_other {s s' : Core.State} {src dst : Nat} {x : Int} (h : bankSend s src dst x = some s')
    (a : Nat) (h1 : a ≠ src) (h2 : a ≠ dst) : getBal s'.bal a = getBal s.bal a := by
  obtain ⟨bal', ht, rfl⟩ := bankSend_shape h
  exact cmb2_transfer_other ht a h1 h2

theorem cmb2_bettorWins_other (a : Nat) (ha : isModuleAcc a = false) (bettor : Nat) (hb : a ≠ bettor) :
    ∀ (fs : List Fulf) (bal : List (Nat × Int)) (b : Book) (r : List (Nat × Int) × Book),
    bettorWins bal bettor b fs = some r → getBal r.1 a = getBal bal a := by
  obtain ⟨n1, _, _⟩ := cmb_notModule_ne ha
  intro fs
  induction fs with
  | nil => intro bal b r h; simp only [bettorWins, Option.some.injEq] at h; subst h; rfl
  | cons f rest ih =>
    intro bal b r h
    unfold bettorWins at h
    simp only [bind, Option.bind_eq_some_iff] at h
    obtain ⟨p, _, bal', ht, h⟩ := h
    rw [ih _ _ _ h, cmb2_transfer_other ht a n1 hb]

/-- `Settle` pays the bettor and the market creator only -/
theorem cmb2_settleBet_balX {s s' : Core.State} {c u : Nat} (h : settleBet s c u = some s') (a : Nat)
    (ha : isModuleAcc a = false) (hN : cmb2_NoPay a s) : getBal s'.bal a = getBal s.bal a ∧ cmb2_NoPay a s' := by
  obtain ⟨n1, n2, _⟩ := cmb_notModule_ne ha
  constructor
  · unfold settleBet at h
    simp only [bind, Option.bind_eq_some_iff] at h
    obtain ⟨_, _, bet, hbet, _, _, m, hm, h⟩ := h
    have hbm : bet ∈ s.bets := by unfold lookup at hbet; exact List.mem_of_find?_eq_some hbet
    have hc1 : a ≠ bet.creator := fun e => hN.1 bet hbm e.symm
    have hc2 : a ≠ m.creator := fun e => hN.2 m (getMarket_mem hm) e.symm
    split at h
    · unfold settleRefund at h
      simp only [bind, Option.bind_eq_some_iff, pure, Option.some.injEq] at h
      obtain ⟨s1, h1, s2, h2, rfl⟩ := h
      show getBal s2.bal a = _
      rw [cmb2_bankSend_other h2 a n2 hc1, cmb2_bankSend_other h1 a n1 hc1]
    · simp only [bind, Option.bind_eq_some_iff] at h
      obtain ⟨_, _, h⟩ := h
      unfold settleDeclared at h
      simp only [bind, Option.bind_eq_some_iff, pure, Option.some.injEq] at h
      obtain ⟨bk, _, r, hr, s2, h2, rfl⟩ := h
      show getBal s2.bal a = _
      rw [cmb2_bankSend_other h2 a n2 hc2]
      show getBal r.1 a = _
      unfold settleOutcome at hr
      split at hr
      · exact cmb2_bettorWins_other a ha _ hc1 _ _ _ _ hr
      · simp only [Option.map_eq_some_iff] at hr
        obtain ⟨b', _, rfl⟩ := hr
        rfl
  · obtain ⟨b0, s2, res, hb0, _, e, rfl, _⟩ := settleBet_shape h
    refine ⟨?_, ?_⟩
    · intro x hx
      have hx' : x ∈ upsert Bet.key { ({ b0 with status := BS_SETTLED, result := res } : Bet) with settleHeight := s2.height } s2.bets := hx
      rcases mem_upsert_or Bet.key _ x _ hx' with e1 | e1
      · rw [e1]; exact hN.1 b0 hb0
      · rw [e.1] at e1; exact hN.1 x e1
    · have hm : (markSettled s2 { b0 with status := BS_SETTLED, result := res }).markets = s.markets := settleBet_markets h
      rw [hm]; exact hN.2

theorem cmb2_settlePage_balX (a : Nat) (ha : isModuleAcc a = false) : ∀ (page : List (Nat × Nat × Nat × Nat)) (s : Core.State)
    (r : Core.State × Nat), settlePage s page = some r → cmb2_NoPay a s → getBal r.1.bal a = getBal s.bal a ∧ cmb2_NoPay a r.1 := by
  intro page
  induction page with
  | nil => intro s r h hN; simp [settlePage] at h; rw [← h]; exact ⟨rfl, hN⟩
  | cons pb rest ih =>
    intro s r h hN
    unfold settlePage at h
    simp only [bind, Option.bind_eq_some_iff, pure, Option.some.injEq] at h
    obtain ⟨s1, h1, r1, hr, rfl⟩ := h
    obtain ⟨e1, N1⟩ := cmb2_settleBet_balX h1 a ha hN
    obtain ⟨e2, N2⟩ := ih _ _ hr N1
    exact ⟨e2.trans e1, N2⟩

theorem cmb2_betEndBlockStep_balX {s : Core.State} {mk n : Nat} {r : Core.State × Nat} (h : betEndBlockStep s mk n = some r)
    (a : Nat) (ha : isModuleAcc a = false) (hN : cmb2_NoPay a s) : getBal r.1.bal a = getBal s.bal a ∧ cmb2_NoPay a r.1 := by
  unfold betEndBlockStep at h
  simp only [bind, Option.bind_eq_some_iff] at h
  obtain ⟨r0, h0, h⟩ := h
  obtain ⟨e0, N0⟩ := cmb2_settlePage_balX a ha _ _ _ h0 hN
  split at h
  · simp only [pure, Option.some.injEq] at h; rw [← h]; exact ⟨e0, N0⟩
  · simp only [bind, Option.bind_eq_some_iff, pure, Option.some.injEq] at h
    obtain ⟨q, _, s2, h2, rfl⟩ := h
    unfold bookResolved at h2
    simp only [bind, Option.bind_eq_some_iff, pure, Option.some.injEq] at h2
    obtain ⟨_, _, _, _, rfl⟩ := h2
    exact ⟨e0, N0.of_eq rfl rfl⟩

/-- BatchMarketSettlements leaves the balance of such an account as it was -/
theorem cmb2_betEndBlock_balX (a : Nat) (ha : isModuleAcc a = false) : ∀ (fuel : Nat) (s : Core.State) (n : Nat) (s' : Core.State),
    betEndBlock fuel s n = some s' → cmb2_NoPay a s → getBal s'.bal a = getBal s.bal a ∧ cmb2_NoPay a s' := by
  intro fuel
  induction fuel with
  | zero => intro s n s' h hN; simp [betEndBlock] at h; rw [← h]; exact ⟨rfl, hN⟩
  | succ fuel ih =>
    intro s n s' h hN
    unfold betEndBlock at h
    split at h
    · simp at h; rw [← h]; exact ⟨rfl, hN⟩
    · split at h
      · simp at h; rw [← h]; exact ⟨rfl, hN⟩
      · simp only [bind, Option.bind_eq_some_iff] at h
        obtain ⟨r, hr, h⟩ := h
        obtain ⟨e1, N1⟩ := cmb2_betEndBlockStep_balX hr a ha hN
        obtain ⟨e2, N2⟩ := ih _ _ _ h N1
        exact ⟨e2.trans e1, N2⟩

end Sge.Combined
