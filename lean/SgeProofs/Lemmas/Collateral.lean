/-
  C02, lift to reachable states — definitions and the frame part.

  `ColInv b`: every participation of the book `b`, abstracted to the per-participation `Item` of
  `Properties/C02.lean` (current exposures read from `b.pexps`, ghost-free history term read from `b.hist` and the
  participation's stake counters), satisfies the invariant bundle `IInv`.
  `CExt b b'`: `b'` is `b` after an update that does not touch the arithmetic the bundle reads (flags, queues,
  realised profit, settlement fields, status) — such updates keep `ColInv`.
-/
import SgeProofs.Lemmas.ObSums
import SgeProofs.Properties.C02
namespace Sge.Core
open Sge Sge.Genesis

-- ---------------------------------------------------------------------------------------------
-- the concrete invariant

/-- the exposure record standing for "no current exposure" -/
def zeroExp : PExp := { odds := 0, idx := 0, exposure := 0, bet := 0, fulfilled := false, round := 0 }

/-- the current-round exposure record of participation `i` for outcome `o` (zero amounts when there is none) -/
def Book.curExp (b : Book) (i o : Nat) : PExp :=
  match b.getExp o i with
  | some e => e
  | none => zeroExp

/-- promised winnings + backed stake of participation `i` on outcome `o`, summed over the closed rounds -/
def Book.histLoss (b : Book) (i o : Nat) : Int := sumBy (expAtH o i) b.hist + sumBy (betAtH o i) b.hist

/-- the ghost-free history term of `IInv`: what participation `p` would have lost in its closed rounds had `o`
    been declared = Σ_{closed rounds r} (exposure_{o,r} + stake_{o,r} − total stake of round r). The total stake of
    the closed rounds is `totalBet − crTotalBet`. -/
def Book.colH (b : Book) (p : Part) (o : Nat) : Int := b.histLoss p.idx o - (p.totalBet - p.crTotalBet)

/-- the abstract item of a stored participation -/
def Book.colItem (b : Book) (p : Part) : Item := absItem p (b.curExp p.idx) (b.colH p)

/-- C02 invariant of one order book: the abstract bundle holds for every participation -/
def ColInv (b : Book) : Prop := ∀ i p, b.getPart i = some p → IInv (b.colItem p)

/-- C02 invariant of a state -/
def ColSt (s : State) : Prop := ∀ b ∈ s.books, ColInv b

-- ---------------------------------------------------------------------------------------------
-- what the monitor reads

/-- winnings promised by participation `i` on outcome `o`, over the current and all closed rounds -/
def Book.promised (b : Book) (i o : Nat) : Int :=
  (((b.pexps ++ b.hist).filter (fun e => e.odds == o && e.idx == i)).map (·.exposure)).sum
/-- stake backed by participation `i` on outcome `o`, over the current and all closed rounds -/
def Book.stakeOn (b : Book) (i o : Nat) : Int :=
  (((b.pexps ++ b.hist).filter (fun e => e.odds == o && e.idx == i)).map (·.bet)).sum
/-- stakes received by participation `i` on the outcomes other than `o`, over the current and all closed rounds -/
def Book.otherStakes (b : Book) (i o : Nat) : Int :=
  (((b.pexps ++ b.hist).filter (fun e => e.odds != o && e.idx == i)).map (·.bet)).sum

-- ---------------------------------------------------------------------------------------------
-- congruence of the abstraction

/-- the fields of a participation the bundle reads -/
structure PEq (p p' : Part) : Prop where
  idx : p'.idx = p.idx
  liq : p'.liq = p.liq
  crl : p'.crl = p.crl
  ml : p'.crMaxLoss = p.crMaxLoss
  mo : p'.crMaxLossOdds = p.crMaxLossOdds
  ct : p'.crTotalBet = p.crTotalBet
  tb : p'.totalBet = p.totalBet

theorem PEq.refl (p : Part) : PEq p p := ⟨rfl, rfl, rfl, rfl, rfl, rfl, rfl⟩
theorem PEq.trans {a b c : Part} (h1 : PEq a b) (h2 : PEq b c) : PEq a c :=
  ⟨h2.idx.trans h1.idx, h2.liq.trans h1.liq, h2.crl.trans h1.crl, h2.ml.trans h1.ml, h2.mo.trans h1.mo,
   h2.ct.trans h1.ct, h2.tb.trans h1.tb⟩

theorem curExp_amounts {b b' : Book} {i o : Nat}
    (h : (b'.getExp o i).map (fun x => (x.exposure, x.bet)) = (b.getExp o i).map (fun x => (x.exposure, x.bet))) :
    expoOf (b'.curExp i o) = expoOf (b.curExp i o) := by
  unfold Book.curExp expoOf
  cases h1 : b'.getExp o i with
  | none =>
    rw [h1] at h
    cases h2 : b.getExp o i with
    | none => rfl
    | some y => rw [h2] at h; cases h
  | some x =>
    rw [h1] at h
    cases h2 : b.getExp o i with
    | none => rw [h2] at h; cases h
    | some y =>
      rw [h2] at h
      simp only [Option.map_some, Option.some.injEq, Prod.mk.injEq] at h
      simp only [h.1, h.2]

theorem absItem_congr {p p' : Part} {exps exps' : Nat → PExp} {H H' : Nat → Int} (hp : PEq p p')
    (he : ∀ o, expoOf (exps' o) = expoOf (exps o)) (hH : ∀ o, H' o = H o) :
    absItem p' exps' H' = absItem p exps H := by
  unfold absItem
  have e1 : (fun o => expoOf (exps' o)) = (fun o => expoOf (exps o)) := funext he
  have e2 : H' = H := funext hH
  rw [e1, e2, hp.liq, hp.crl, hp.ml, hp.mo, hp.ct]

theorem colItem_congr {b b' : Book} {p p' : Part} (hp : PEq p p')
    (hc : ∀ o, (b'.getExp o p.idx).map (fun x => (x.exposure, x.bet)) = (b.getExp o p.idx).map (fun x => (x.exposure, x.bet)))
    (hh : ∀ o, b'.histLoss p.idx o = b.histLoss p.idx o) : b'.colItem p' = b.colItem p := by
  unfold Book.colItem
  apply absItem_congr hp
  · intro o; rw [hp.idx]; exact curExp_amounts (hc o)
  · intro o; unfold Book.colH; rw [hp.idx, hh o, hp.tb, hp.ct]

/-- `b'` is `b` after an update that leaves the arithmetic of every participation alone -/
structure CExt (b b' : Book) : Prop where
  gp : ∀ i p', b'.getPart i = some p' → ∃ p, b.getPart i = some p ∧ PEq p p'
  cur : ∀ o i, (b'.getExp o i).map (fun x => (x.exposure, x.bet)) = (b.getExp o i).map (fun x => (x.exposure, x.bet))
  hl : ∀ i o, b'.histLoss i o = b.histLoss i o

theorem CExt.colInv {b b' : Book} (h : CExt b b') (hc : ColInv b) : ColInv b' := by
  intro i p' hp'
  obtain ⟨p, hp, he⟩ := h.gp i p' hp'
  rw [colItem_congr he (fun o => h.cur o p.idx) (fun o => h.hl p.idx o)]
  exact hc i p hp

theorem CExt.refl (b : Book) : CExt b b := ⟨fun _ p' h => ⟨p', h, PEq.refl p'⟩, fun _ _ => rfl, fun _ _ => rfl⟩

theorem CExt.trans {a b c : Book} (h1 : CExt a b) (h2 : CExt b c) : CExt a c := by
  refine ⟨?_, fun o i => (h2.cur o i).trans (h1.cur o i), fun i o => (h2.hl i o).trans (h1.hl i o)⟩
  intro i p'' hp''
  obtain ⟨p', hp', e2⟩ := h2.gp i p'' hp''
  obtain ⟨p, hp, e1⟩ := h1.gp i p' hp'
  exact ⟨p, hp, e1.trans e2⟩

/-- overwriting a participation without changing the fields the bundle reads -/
theorem CExt.setPart (b : Book) (p' p : Part) (hp : b.getPart p'.idx = some p) (he : PEq p p') : CExt b (b.setPart p') := by
  refine ⟨?_, fun _ _ => rfl, fun _ _ => rfl⟩
  intro i q hq
  by_cases hi : p'.idx = i
  · rw [← hi, Book.getPart_setPart_self] at hq
    cases hq
    exact ⟨p, by rw [← hi]; exact hp, he⟩
  · rw [Book.getPart_setPart_ne _ _ _ hi] at hq
    exact ⟨q, hq, PEq.refl q⟩

/-- changes that leave participations, exposures and history alone -/
theorem CExt.of_stores {a b c : Book} (h : CExt a b) (hp : c.parts = b.parts) (he : c.pexps = b.pexps) (hh : c.hist = b.hist) :
    CExt a c := by
  have hgp : ∀ i, c.getPart i = b.getPart i := by intro i; unfold Book.getPart; rw [hp]
  have hge : ∀ o i, c.getExp o i = b.getExp o i := by intro o i; unfold Book.getExp; rw [he]
  refine ⟨?_, ?_, ?_⟩
  · intro i p' hp'
    rw [hgp] at hp'
    exact h.gp i p' hp'
  · intro o i; rw [hge]; exact h.cur o i
  · intro i o
    have : c.histLoss i o = b.histLoss i o := by unfold Book.histLoss; rw [hh]
    rw [this]; exact h.hl i o

theorem ColInv.of_stores {b c : Book} (h : ColInv b) (hp : c.parts = b.parts) (he : c.pexps = b.pexps) (hh : c.hist = b.hist) :
    ColInv c := ((CExt.refl b).of_stores hp he hh).colInv h

-- ---------------------------------------------------------------------------------------------
-- state level

theorem col_mem_upsert {α : Type} (key : α → List Nat) (x z : α) (l : List α) (h : z ∈ upsert key x l) : z = x ∨ z ∈ l := by
  rcases (mem_upsert key x z l).mp h with h | h | h
  · exact Or.inl h
  · exact Or.inr h.1
  · exact Or.inr h.1

theorem ColSt.setBook {s : State} (h : ColSt s) (b' : Book) (hb' : ColInv b') : ColSt (setBook s b') := by
  intro x hx
  rcases col_mem_upsert Book.key b' x s.books hx with rfl | hx
  · exact hb'
  · exact h x hx

theorem ColSt.of_eq {s s' : State} (h : ColSt s) (hk : s'.books = s.books) : ColSt s' := by
  intro b hb; rw [hk] at hb; exact h b hb

end Sge.Core
