/- lemmas for C17 on the mint model: when BeginBlocker divides by zero, when it mints a negative amount -/
import Sge.Params
import SgeProofs.Lemmas.Mint
namespace Sge.Params
open Sge Sge.Mint

/-- the amounts the minter stores are non-negative -/
def MinterOK (m : Minter) : Prop := 0 ≤ m.phaseProvisions.raw ∧ 0 ≤ m.truncated.raw

/-- the initial minter of a new chain (`DefaultInitialMinter`) -/
def initialMinter : Minter := { inflation := ⟨0⟩, phaseStep := 0, phaseProvisions := ⟨0⟩, truncated := ⟨0⟩ }

/-- the condition on parameters under which BeginBlocker never aborts:
    no negative inflation, and the first phase — the only one that can be current without the phase walk
    (height 1) — is at least one block long unless its inflation is zero -/
structure MintLive (p : Mint.Params) : Prop where
  infl_nonneg : ∀ ph ∈ p.phases, 0 ≤ ph.inflation.raw
  first_len : ∀ ph rest, p.phases = ph :: rest → ph.inflation.raw = 0 ∨ 1 ≤ MintParams.phaseLen p ph

theorem chopTrunc_mul_PREC_any (k : Int) : chopTrunc (k * PREC) = k := by
  unfold chopTrunc PREC
  split <;> omega

/-- `getPhaseBlocks` is a whole number of blocks: raw = phaseLen · 10^18, and truncating it again changes nothing -/
theorem phaseBlocks_shape (p : Mint.Params) (ph : Phase) :
    (phaseBlocks p ph).raw = MintParams.phaseLen p ph * PREC ∧
    (phaseBlocks p ph).truncDec.raw = MintParams.phaseLen p ph * PREC := by
  unfold MintParams.phaseLen phaseBlocks Dec.truncInt Dec.truncDec
  simp only
  rw [chopTrunc_mul_PREC_any]
  simp

/-- the phase walk only returns a phase that contains the block: it is at least one block long, and it is one
    of the configured phases -/
theorem findPhase_spec (p : Mint.Params) (block : Int) :
    ∀ (phs : List Phase) (cum : Dec) (step : Int) (ph : Phase) (st : Int),
      cum.raw < (Dec.ofInt block).raw → findPhase p block phs cum step = some (ph, st) →
      ph ∈ phs ∧ 1 ≤ MintParams.phaseLen p ph := by
  intro phs
  induction phs with
  | nil => intro cum step ph st _ h; simp [findPhase] at h
  | cons x rest ih =>
    intro cum step ph st hlt h
    unfold findPhase at h
    simp only at h
    split at h
    · rename_i hle
      simp only [Option.some.injEq, Prod.mk.injEq] at h
      obtain ⟨rfl, _⟩ := h
      refine ⟨List.mem_cons_self .., ?_⟩
      have hs := (phaseBlocks_shape p x).1
      simp only [Dec.add] at hle
      rw [hs] at hle
      unfold PREC at *
      omega
    · rename_i hnle
      have := ih (cum.add (phaseBlocks p x)) (step + 1) ph st (by omega) h
      exact ⟨List.mem_cons_of_mem _ this.1, this.2⟩

theorem endPhase_inflation : endPhase.inflation.raw = 0 := rfl

/-- at any height other than 1 the current phase comes from the phase walk: the end phase (zero inflation)
    or a configured phase at least one block long — whatever the parameters are -/
theorem currentPhase_walk (p : Mint.Params) (h : Int) (h1 : 1 ≤ h) (hne1 : h ≠ 1) :
    (currentPhase p h).1.inflation.raw = 0 ∨
    ((currentPhase p h).1 ∈ p.phases ∧ 1 ≤ MintParams.phaseLen p (currentPhase p h).1) := by
  unfold currentPhase
  rw [if_neg hne1]
  cases hf : findPhase p h p.phases Dec.zero 1 with
  | none => exact Or.inl rfl
  | some r =>
    obtain ⟨ph, st⟩ := r
    have : Dec.zero.raw < (Dec.ofInt h).raw := by
      simp only [Dec.zero, Dec.ofInt]; unfold PREC; omega
    exact Or.inr (findPhase_spec p h p.phases Dec.zero 1 ph st this hf)

theorem currentPhase_one (p : Mint.Params) (ph : Phase) (rest : List Phase) (hp : p.phases = ph :: rest) :
    currentPhase p 1 = (ph, 1) := by
  unfold currentPhase getPhaseAtStep1
  simp [hp]

/-- the current phase at a height ≥ 1: zero inflation, or a configured phase that is long enough
    (under `MintLive` for the first block) -/
theorem currentPhase_spec (p : Mint.Params) (h : Int) (h1 : 1 ≤ h) (hne : p.phases ≠ []) (hl : MintLive p) :
    (currentPhase p h).1.inflation.raw = 0 ∨
    ((currentPhase p h).1 ∈ p.phases ∧ 1 ≤ MintParams.phaseLen p (currentPhase p h).1) := by
  by_cases he : h = 1
  · subst he
    cases hp : p.phases with
    | nil => exact absurd hp hne
    | cons ph rest =>
      rw [currentPhase_one p ph rest hp]
      rcases hl.first_len ph rest hp with h0 | hlen
      · exact Or.inl h0
      · exact Or.inr ⟨List.mem_cons_self .., hlen⟩
  · have := currentPhase_walk p h h1 he
    exact this

theorem tquo_nonneg {a b : Int} (ha : 0 ≤ a) (hb : 0 ≤ b) : 0 ≤ tquo a b := by
  unfold tquo
  exact Int.tdiv_nonneg ha hb

theorem quo_nonneg {a b : Dec} (ha : 0 ≤ a.raw) (hb : 0 ≤ b.raw) : 0 ≤ (a.quo b).raw := by
  unfold Dec.quo
  apply chopRound_nonneg
  apply tquo_nonneg _ hb
  have : 0 ≤ a.raw * PREC := Int.mul_nonneg ha (by unfold PREC; omega)
  exact Int.mul_nonneg this (by unfold PREC; omega)

/-- provisions of a phase with non-negative inflation on a non-negative base are non-negative -/
theorem nextPhaseProvisions_nonneg (infl : Dec) (supply exclude : Int) (ph : Phase)
    (hi : 0 ≤ infl.raw) (hs : exclude ≤ supply) (hc : 0 ≤ ph.yearCoef.raw) :
    0 ≤ (nextPhaseProvisions infl supply exclude ph).raw := by
  unfold nextPhaseProvisions Dec.mul Dec.mulInt
  apply chopRound_nonneg
  exact Int.mul_nonneg (Int.mul_nonneg hi (by omega)) hc

theorem refresh_ok (p : Mint.Params) (m : Minter) (ph : Phase) (step supply : Int)
    (hi : 0 ≤ ph.inflation.raw) (hs : p.exclude ≤ supply) (hc : 0 ≤ ph.yearCoef.raw) (hm : MinterOK m) :
    MinterOK (refresh p m ph step supply) := by
  unfold refresh
  split
  · exact ⟨nextPhaseProvisions_nonneg _ _ _ _ hi hs hc, hm.2⟩
  · exact hm

/-- the minting half of BeginBlocker on a minter with non-negative amounts: no abort as soon as the phase
    is at least one block long (or the inflation is zero) -/
theorem provision_ok (m0 m1 : Minter) (blocks : Dec) (k : Int)
    (hb : blocks.truncDec.raw = k * PREC) (hk : m1.inflation.raw = 0 ∨ 1 ≤ k) (hm : MinterOK m1) :
    ∃ m' n, provision m0 m1 blocks = (m', .ok n) ∧ 0 ≤ n ∧ MinterOK m' := by
  unfold provision
  split
  · exact ⟨m1, 0, rfl, by omega, hm⟩
  · rename_i hne
    have hk1 : 1 ≤ k := by
      rcases hk with h0 | h1
      · exact absurd h0 hne
      · exact h1
    have hb0 : blocks.truncDec.raw ≠ 0 := by rw [hb]; unfold PREC; omega
    have hq : 0 ≤ perBlock m1 blocks + m1.truncated.raw := by
      have : 0 ≤ perBlock m1 blocks := by
        unfold perBlock
        exact quo_nonneg hm.1 (by rw [hb]; unfold PREC; omega)
      have := hm.2
      omega
    rw [blockProvisions_steady m1 blocks hb0 hq]
    simp only
    have hn : 0 ≤ (perBlock m1 blocks + m1.truncated.raw) / PREC := by unfold PREC; omega
    have hnl : ¬ (perBlock m1 blocks + m1.truncated.raw) / PREC < 0 := by omega
    simp only [hnl, if_false]
    refine ⟨_, _, rfl, hn, hm.1, ?_⟩
    show 0 ≤ (perBlock m1 blocks + m1.truncated.raw) % PREC
    unfold PREC; omega

/-- year coefficients accepted by `validatePhases` are positive -/
theorem phasesValid_coef {phs : List Phase} (h : Mint.phasesValid phs = true) :
    phs ≠ [] ∧ ∀ ph ∈ phs, 0 < ph.yearCoef.raw := by
  unfold Mint.phasesValid at h
  simp only [Bool.and_eq_true, Bool.not_eq_true', List.all_eq_true, decide_eq_true_eq] at h
  refine ⟨?_, fun ph hph => (h.2 ph hph).1⟩
  intro he
  rw [he] at h
  simp at h

/-- one block under live parameters: no abort, a non-negative amount is minted, the stored amounts stay non-negative -/
theorem beginBlock_live (p : Mint.Params) (m : Minter) (h supply : Int)
    (hv : Mint.paramsValid p = true) (hl : MintLive p) (h1 : 1 ≤ h) (hs : p.exclude ≤ supply) (hm : MinterOK m) :
    ∃ m' n, beginBlock p m h supply = (m', .ok n) ∧ 0 ≤ n ∧ MinterOK m' := by
  unfold Mint.paramsValid at hv
  simp only [Bool.and_eq_true, decide_eq_true_eq] at hv
  obtain ⟨⟨_, hph⟩, _⟩ := hv
  obtain ⟨hne, hcoef⟩ := phasesValid_coef hph
  unfold beginBlock
  simp only
  have hsh := (phaseBlocks_shape p (currentPhase p h).1).2
  rcases currentPhase_spec p h h1 hne hl with h0 | ⟨hmem, hlen⟩
  · -- zero inflation: nothing is minted
    have hz : (refresh p m (currentPhase p h).1 (currentPhase p h).2 supply).inflation.raw = 0 := by
      rw [refresh_inflation]; exact h0
    rw [provision_zero _ _ _ hz]
    refine ⟨_, 0, rfl, by omega, ?_⟩
    unfold refresh
    split
    · refine ⟨?_, hm.2⟩
      unfold nextPhaseProvisions Dec.mul Dec.mulInt
      rw [h0]
      apply chopRound_nonneg
      simp
    · exact hm
  · have hi := hl.infl_nonneg _ hmem
    have hc := hcoef _ hmem
    exact provision_ok m _ _ _ hsh (Or.inr hlen) (refresh_ok p m _ _ supply hi hs (by omega) hm)

/-- a first phase shorter than one block with non-zero inflation aborts the first block, whatever the state -/
theorem beginBlock_short_first_phase_halts (p : Mint.Params) (m : Minter) (supply : Int) (ph : Phase) (rest : List Phase)
    (hp : p.phases = ph :: rest) (hi : ph.inflation.raw ≠ 0) (hlen : MintParams.phaseLen p ph = 0) :
    (beginBlock p m 1 supply).2 = .halt := by
  have hcp := currentPhase_one p ph rest hp
  unfold beginBlock
  simp only [hcp]
  unfold provision
  have hne : ¬ (refresh p m ph 1 supply).inflation.raw = 0 := by rw [refresh_inflation]; exact hi
  simp only [hne, if_false]
  have hz : (phaseBlocks p ph).truncDec.raw = 0 := by
    rw [(phaseBlocks_shape p ph).2, hlen]; simp
  unfold blockProvisions
  simp [hz]

/-- with no patch selected the configurable chain functions are the ones of `Sge.Mint` -/
theorem mintChainBegin_asis (p : Mint.Params) (c : Chain) (h : Int) : mintChainBegin {} p c h = c.begin p h := by
  have hs : mintBeginBlock {} p c.minter h c.supply = beginBlock p c.minter h c.supply := by
    unfold mintBeginBlock; simp
  unfold mintChainBegin Chain.begin
  rw [hs]
  generalize beginBlock p c.minter h c.supply = r
  obtain ⟨m, br⟩ := r
  cases br <;> rfl

theorem mintRun_asis (p : Mint.Params) : ∀ (n : Nat) (h : Int) (c : Chain), mintRun {} p n h c = runBlocks p n h c := by
  intro n
  induction n with
  | zero => intro h c; rfl
  | succ n ih => intro h c; simp only [mintRun, runBlocks, mintChainBegin_asis, ih]

/-- the run theorem behind C17 for x/mint: live parameters, a non-negative inflation base (by the clamp patch or
    because the excluded amount does not exceed the supply) and non-negative stored amounts: no block aborts -/
theorem mintRun_live (cfg : Cfg) (p : Mint.Params) (hv : Mint.paramsValid p = true) (hl : MintLive p) :
    ∀ (n : Nat) (h : Int) (c : Chain), 1 ≤ h → c.halted = false →
      (cfg.mintClamp = true ∨ p.exclude ≤ c.supply) → MinterOK c.minter →
      (mintRun cfg p n h c).halted = false ∧ MinterOK (mintRun cfg p n h c).minter ∧
      c.supply ≤ (mintRun cfg p n h c).supply ∧
      (mintRun cfg p n h c).supply - c.supply = (mintRun cfg p n h c).collector - c.collector := by
  intro n
  induction n with
  | zero => intro h c _ hh _ hm; exact ⟨hh, hm, Int.le_refl _, by simp [mintRun]⟩
  | succ n ih =>
    intro h c h1 hh hs hm
    have hbase : p.exclude ≤ (if (cfg.mintClamp && decide (c.supply < p.exclude)) = true then p.exclude else c.supply) := by
      split
      · exact Int.le_refl _
      · rename_i hc
        rcases hs with hcl | hle
        · simp only [hcl, Bool.true_and, decide_eq_true_eq] at hc; omega
        · exact hle
    obtain ⟨m', k, hbb, hk, hm'⟩ := beginBlock_live p c.minter h _ hv hl h1 hbase hm
    have hstep : mintChainBegin cfg p c h =
        { supply := c.supply + k, collector := c.collector + k, minter := m', halted := false } := by
      unfold mintChainBegin mintBeginBlock
      simp only [hh, Bool.false_eq_true, if_false, hbb]
    have := ih (h + 1) (mintChainBegin cfg p c h) (by omega) (by rw [hstep])
      (by rw [hstep]; rcases hs with hcl | hle
          · exact Or.inl hcl
          · exact Or.inr (by show p.exclude ≤ c.supply + k; omega))
      (by rw [hstep]; exact hm')
    simp only [mintRun]
    rw [hstep] at this ⊢
    obtain ⟨i1, i2, i3, i4⟩ := this
    simp only at i3 i4
    exact ⟨i1, i2, by omega, by omega⟩

/-- the same with a parameter set per block: parameter updates between blocks cannot break liveness as long as each
    installed set is live -/
theorem mintRunUpd_live (cfg : Cfg) :
    ∀ (ps : List Mint.Params) (h : Int) (c : Chain), 1 ≤ h → c.halted = false → MinterOK c.minter →
      (∀ p ∈ ps, Mint.paramsValid p = true ∧ MintLive p ∧ (cfg.mintClamp = true ∨ p.exclude ≤ c.supply)) →
      (mintRunUpd cfg ps h c).halted = false ∧ MinterOK (mintRunUpd cfg ps h c).minter ∧
      c.supply ≤ (mintRunUpd cfg ps h c).supply := by
  intro ps
  induction ps with
  | nil => intro h c _ hh hm _; exact ⟨hh, hm, Int.le_refl _⟩
  | cons p rest ih =>
    intro h c h1 hh hm hall
    obtain ⟨hv, hl, hs⟩ := hall p (List.mem_cons_self ..)
    have hbase : p.exclude ≤ (if (cfg.mintClamp && decide (c.supply < p.exclude)) = true then p.exclude else c.supply) := by
      split
      · exact Int.le_refl _
      · rename_i hc
        rcases hs with hcl | hle
        · simp only [hcl, Bool.true_and, decide_eq_true_eq] at hc; omega
        · exact hle
    obtain ⟨m', k, hbb, hk, hm'⟩ := beginBlock_live p c.minter h _ hv hl h1 hbase hm
    have hstep : mintChainBegin cfg p c h =
        { supply := c.supply + k, collector := c.collector + k, minter := m', halted := false } := by
      unfold mintChainBegin mintBeginBlock
      simp only [hh, Bool.false_eq_true, if_false, hbb]
    have := ih (h + 1) (mintChainBegin cfg p c h) (by omega) (by rw [hstep]) (by rw [hstep]; exact hm')
      (by
        intro q hq
        obtain ⟨qv, ql, qs⟩ := hall q (List.mem_cons_of_mem _ hq)
        refine ⟨qv, ql, ?_⟩
        rw [hstep]
        rcases qs with hcl | hle
        · exact Or.inl hcl
        · exact Or.inr (by show q.exclude ≤ c.supply + k; omega))
    simp only [mintRunUpd]
    rw [hstep] at this ⊢
    obtain ⟨i1, i2, i3⟩ := this
    simp only at i3
    exact ⟨i1, i2, by omega⟩

/-- parameters accepted by the validators of params_mint_validate.diff are live -/
theorem validate_patched_live (cfg : Cfg) (hc : cfg.mintValidate = true) (m : MintParams)
    (h : MintParams.validate cfg m = true) : Mint.paramsValid m.p = true ∧ MintLive m.p := by
  unfold MintParams.validate MintParams.fields MintParams.phasesValid at h
  simp only [hc, Bool.not_true, Bool.false_or, List.all_cons, List.all_nil, id, Bool.and_true, Bool.and_eq_true,
    decide_eq_true_eq, List.all_eq_true] at h
  obtain ⟨⟨_, hb, ⟨hp, hinf⟩, he⟩, hlong⟩ := h
  refine ⟨?_, ⟨hinf, ?_⟩⟩
  · unfold Mint.paramsValid
    simp [hb, hp, he]
  · intro ph rest hpr
    right
    unfold MintParams.phasesLongEnough at hlong
    simp only [List.all_eq_true, decide_eq_true_eq] at hlong
    exact hlong ph (by rw [hpr]; exact List.mem_cons_self ..)

end Sge.Params
