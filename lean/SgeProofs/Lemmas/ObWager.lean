/-
  The wager loop of the order book, whole-history bookkeeping: queue well-formedness (`QInv`) and the sums that
  tie the participations' totals and exposures to the backing parts handed to the bet.
-/
import SgeProofs.Lemmas.QueueInv
namespace Sge.Core
open Sge Sge.Genesis

-- ---------------------------------------------------------------------------------------------
-- totals reported by the book, totals over backing parts

/-- promised winnings / stake of one historical exposure, if it belongs to (outcome `o`, participation `i`) -/
def expAtH (o i : Nat) (h : PExp) : Int := if h.odds == o && h.idx == i then h.exposure else 0
def betAtH (o i : Nat) (h : PExp) : Int := if h.odds == o && h.idx == i then h.bet else 0

/-- winnings promised by participation `i` on outcome `o`, summed over the current and all past rounds -/
def Book.totE (b : Book) (o i : Nat) : Int :=
  (match b.getExp o i with | some e => e.exposure | none => 0) + sumBy (expAtH o i) b.hist
/-- stake backed by participation `i` on outcome `o`, summed over the current and all past rounds -/
def Book.totB (b : Book) (o i : Nat) : Int :=
  (match b.getExp o i with | some e => e.bet | none => 0) + sumBy (betAtH o i) b.hist

/-- stake / promised winnings of a backing part, if it is backed by participation `i` -/
def fbAt (i : Nat) (f : Fulf) : Int := if f.idx == i then f.bet else 0
def fpAt (i : Nat) (f : Fulf) : Int := if f.idx == i then f.profit else 0

/-- all current exposures of participation `i` are in the same round, all its historical ones in earlier rounds -/
abbrev RndAt (b : Book) (i : Nat) : Prop :=
  ∃ r, (∀ e ∈ b.pexps, e.idx = i → e.round = r) ∧ (∀ h ∈ b.hist, h.idx = i → h.round < r)

/-- the queues as the wager loop sees them: the wagered outcome's queue is the in-memory `uq` -/
def qvOf (b : Book) (o : Nat) (uq : List Nat) : Nat → Option (List Nat) :=
  fun o' => if o' = o then some uq else b.getQueue o'

theorem Book.unf_setExp_ne {b : Book} {e' : PExp} {o j : Nat} (hne : ¬ (e'.odds = o ∧ e'.idx = j)) (h : b.unf o j) :
    (b.setExp e').unf o j := by
  obtain ⟨e, h1, h2⟩ := h
  exact ⟨e, by rw [Book.getExp_setExp_ne _ _ _ _ hne]; exact h1, h2⟩

theorem RndAt.setExp {b : Book} {i : Nat} (h : RndAt b i) (hs : Sorted PExp.key b.pexps) (e' e0 : PExp)
    (h0 : b.getExp e'.odds e'.idx = some e0) (hr : e'.round = e0.round) : RndAt (b.setExp e') i := by
  obtain ⟨k1, k2, k3⟩ := Book.getExp_key h0
  obtain ⟨r, r1, r2⟩ := h
  refine ⟨r, ?_, r2⟩
  intro e he hei
  rcases (mem_upsert_iff PExp.key e' e b.pexps hs).mp he with rfl | he
  · rw [hr]; exact r1 e0 k3 (by rw [k2]; exact hei)
  · exact r1 e he.1 hei

-- ---------------------------------------------------------------------------------------------
-- stage 1: the fulfilment decided on the in-memory item

theorem setMaxLoss_fields (p : Part) (e : PExp) (o : Nat) (b : Int) :
    (setMaxLoss p e o b).idx = p.idx ∧ (setMaxLoss p e o b).addr = p.addr ∧ (setMaxLoss p e o b).notFilled = p.notFilled ∧
    (setMaxLoss p e o b).totalBet = p.totalBet := by
  unfold setMaxLoss
  simp only
  split
  · exact ⟨rfl, rfl, rfl, rfl⟩
  · split <;> exact ⟨rfl, rfl, rfl, rfl⟩

theorem chopTrunc_rest_lt (x : Int) : x - chopTrunc x * PREC < PREC := by
  unfold chopTrunc PREC
  split <;> omega

theorem decide1_open (ov : Dec) (thr avail pp ba : Int) (tr : Dec)
    (h : (decide1 ov thr avail pp ba tr).2.1 = false) : (decide1 ov thr avail pp ba tr).1 = some (ba, pp) := by
  unfold decide1 at h ⊢
  split
  · rename_i h1; simp [h1] at h
  · split
    · rename_i h1 h2; simp [h1, h2] at h
    · rfl

/-- what stage 1 does: a fulfilment `(Δb, Δπ)` (zero when none is decided) is booked on the in-memory
    participation and exposure and handed to the bet as a backing part; the book only gains a pair -/
theorem stage1_spec (o : Nat) (ov mult : Dec) (thr : Int) (f : FInfo) (pe : Part × PExp) :
    ∃ Δb Δπ : Int,
      (stage1 o ov mult thr f pe).1.idx = pe.1.idx ∧ (stage1 o ov mult thr f pe).1.addr = pe.1.addr ∧
      (stage1 o ov mult thr f pe).1.notFilled = pe.1.notFilled ∧
      (stage1 o ov mult thr f pe).1.totalBet = pe.1.totalBet + Δb ∧
      (stage1 o ov mult thr f pe).2.1 = { pe.2 with exposure := pe.2.exposure + Δπ, bet := pe.2.bet + Δb } ∧
      ((stage1 o ov mult thr f pe).2.2.2.fulfs = f.fulfs ∧ Δb = 0 ∧ Δπ = 0 ∨
       (stage1 o ov mult thr f pe).2.2.2.fulfs = f.fulfs ++ [{ addr := pe.1.addr, idx := pe.1.idx, bet := Δb, profit := Δπ }]) ∧
      (stage1 o ov mult thr f pe).2.2.2.book.parts = f.book.parts ∧ (stage1 o ov mult thr f pe).2.2.2.book.pexps = f.book.pexps ∧
      (stage1 o ov mult thr f pe).2.2.2.book.hist = f.book.hist ∧ (stage1 o ov mult thr f pe).2.2.2.book.queues = f.book.queues ∧
      (stage1 o ov mult thr f pe).2.2.2.book.partCount = f.book.partCount ∧
      (stage1 o ov mult thr f pe).2.2.2.book.oddsCount = f.book.oddsCount ∧
      (stage1 o ov mult thr f pe).2.2.2.book.uid = f.book.uid ∧
      (stage1 o ov mult thr f pe).2.2.2.uq = f.uq ∧ (stage1 o ov mult thr f pe).2.2.2.fmap = f.fmap ∧
      (stage1 o ov mult thr f pe).2.2.2.allExp = f.allExp ∧
      ((stage1 o ov mult thr f pe).2.2.1 = false → (stage1 o ov mult thr f pe).2.2.2.payoutProfit.raw < PREC) := by
  unfold stage1
  simp only
  split
  · rename_i bAmt π hd
    have hm := setMaxLoss_fields { pe.1 with totalBet := pe.1.totalBet + bAmt, crTotalBet := pe.1.crTotalBet + bAmt }
      { pe.2 with exposure := pe.2.exposure + π, bet := pe.2.bet + bAmt } o bAmt
    refine ⟨bAmt, π, hm.1, hm.2.1, hm.2.2.1, hm.2.2.2, rfl, Or.inr ?_, rfl, rfl, rfl, rfl, rfl, rfl, rfl, rfl, rfl, rfl, ?_⟩
    · show f.fulfs ++ [_] = f.fulfs ++ [_]
      unfold applyFul
      simp only
      rw [hm.1, hm.2.1]
    · intro hc
      show (f.payoutProfit.sub (Dec.ofInt π)).raw < PREC
      have := decide1_open _ _ _ _ _ _ hc
      rw [hd] at this
      simp only [Option.some.injEq, Prod.mk.injEq] at this
      rw [this.2]
      simp only [Dec.sub, Dec.ofInt, Dec.truncInt]
      exact chopTrunc_rest_lt _
  · rename_i hd
    refine ⟨0, 0, rfl, rfl, rfl, by show pe.1.totalBet = pe.1.totalBet + 0; omega, ?_, Or.inl ⟨rfl, rfl, rfl⟩, rfl, rfl, rfl, rfl, rfl, rfl, rfl, rfl, rfl, rfl, ?_⟩
    · simp
    · intro hc
      have := decide1_open _ _ _ _ _ _ hc
      rw [hd] at this
      cases this

end Sge.Core

namespace Sge.Core
open Sge Sge.Genesis

-- ---------------------------------------------------------------------------------------------
-- stage 2: secondary closing of the other outcomes

/-- removeFromFulfillmentQueue -/
def closeQ (b : Book) (x i : Nat) : Book :=
  match b.getQueue x with
  | some q => b.setQueue x (q.filter (fun j => j != i))
  | none => b

theorem secondaryOne_cases (o : Nat) (thr : Int) (allExp : List PExp) (ms : List (Nat × Dec)) (acc : Part × Book × Bool) (x : Nat) :
    ((secondaryOne o thr allExp ms acc x).1 = acc.1 ∧ (secondaryOne o thr allExp ms acc x).2.1 = acc.2.1) ∨
    (x ≠ o ∧ ∃ xe, allExp.find? (fun y => y.odds == x && y.idx == acc.1.idx) = some xe ∧ xe.fulfilled = false ∧
      (secondaryOne o thr allExp ms acc x).1 = { acc.1 with notFilled := wrapDec acc.1.notFilled } ∧
      (secondaryOne o thr allExp ms acc x).2.1 = closeQ (acc.2.1.setExp { xe with fulfilled := true }) x acc.1.idx) := by
  unfold secondaryOne
  split
  · exact Or.inl ⟨rfl, rfl⟩
  · rename_i hxo
    split
    · exact Or.inl ⟨rfl, rfl⟩
    · rename_i xe hxe
      split
      · exact Or.inl ⟨rfl, rfl⟩
      · rename_i hf
        split
        · exact Or.inl ⟨rfl, rfl⟩
        · split
          · right
            exact ⟨by simpa using hxo, xe, hxe, by simpa using hf, rfl, rfl⟩
          · exact Or.inl ⟨rfl, rfl⟩


/-- invariant of the secondary-closing loop inside the visit of participation `i` (wagered outcome `o`):
    `pa` is the in-memory participation, `ba` the book, `e` the still stored open exposure of `(o, i)`,
    `B` the book when the loop started -/
structure SecInv (o i : Nat) (B : Book) (uq : List Nat) (e : PExp) (p1 : Part) (pa : Part) (ba : Book) : Prop where
  idx : pa.idx = i
  addr : pa.addr = p1.addr
  tb : pa.totalBet = p1.totalBet
  s : BkSInv ba (fun j => j ≠ i)
  q : QV ba (qvOf ba o uq)
  hasQ : (ba.getQueue o).isSome
  rndI : RndAt ba i
  nfI : (pa.notFilled : Int) = sumBy (unfAt i) ba.pexps - 1
  stored : ba.getExp o i = some e
  parts : ba.parts = B.parts
  hist : ba.hist = B.hist
  pc : ba.partCount = B.partCount
  oc : ba.oddsCount = B.oddsCount
  uid : ba.uid = B.uid
  ge : ∀ o' j, j ≠ i → ba.getExp o' j = B.getExp o' j
  cur : ∀ o', (ba.getExp o' i).map (fun x => (x.exposure, x.bet)) = (B.getExp o' i).map (fun x => (x.exposure, x.bet))

theorem wrapDec_pos {n : Nat} (h : 1 ≤ n) : ((wrapDec n : Nat) : Int) = (n : Int) - 1 := by
  unfold wrapDec
  split
  · omega
  · omega

/-- closing the exposure of another outcome `x`: mark it, drop `i` from that outcome's queue, count down -/
theorem SecInv.close {o i : Nat} {B : Book} {uq : List Nat} {e : PExp} {p1 pa : Part} {ba : Book}
    (h : SecInv o i B uq e p1 pa ba) (he : e.fulfilled = false) (x : Nat) (hxo : x ≠ o) (xe : PExp)
    (hx : ba.getExp x i = some xe) (hxf : xe.fulfilled = false) :
    SecInv o i B uq e p1 { pa with notFilled := wrapDec pa.notFilled } (closeQ (ba.setExp { xe with fulfilled := true }) x i) ∧
    (∀ o'', o'' ≠ x → (closeQ (ba.setExp { xe with fulfilled := true }) x i).getExp o'' i = ba.getExp o'' i) := by
  obtain ⟨k1, k2, k3⟩ := Book.getExp_key hx
  have hx' : ba.getExp xe.odds xe.idx = some xe := by rw [k1, k2]; exact hx
  -- the book after the exposure is marked
  have hSE : BkSInv (ba.setExp { xe with fulfilled := true }) (fun j => j ≠ i) :=
    BkSInv.setExp h.s { xe with fulfilled := true } xe hx' rfl (fun j hj => ⟨hj, fun e2 => absurd (e2.trans k2) hj⟩)
  have hgeE : ∀ o'' j, ¬ (x = o'' ∧ i = j) → (ba.setExp { xe with fulfilled := true }).getExp o'' j = ba.getExp o'' j := by
    intro o'' j hne
    apply Book.getExp_setExp_ne
    show ¬ (xe.odds = o'' ∧ xe.idx = j)
    rw [k1, k2]; exact hne
  have hgeX : (ba.setExp { xe with fulfilled := true }).getExp x i = some { xe with fulfilled := true } := by
    rw [← k1, ← k2]
    exact Book.getExp_setExp_self ba { xe with fulfilled := true }
  have hsum : sumBy (unfAt i) (ba.setExp { xe with fulfilled := true }).pexps = sumBy (unfAt i) ba.pexps - 1 := by
    show sumBy (unfAt i) (upsert PExp.key _ ba.pexps) = _
    rw [sumBy_upsert PExp.key _ _ ba.pexps h.s.sE]
    have : lookup PExp.key (PExp.key { xe with fulfilled := true }) ba.pexps = some xe := hx'
    rw [this]
    simp only
    rw [unfAt_eq (show ({ xe with fulfilled := true } : PExp).idx = i from k2), unfAt_eq k2, hxf]
    simp
  have hstoredE : (ba.setExp { xe with fulfilled := true }).getExp o i = some e := by
    rw [hgeE o i (fun c => hxo c.1)]; exact h.stored
  have hge2 : sumBy (unfAt i) (ba.setExp { xe with fulfilled := true }).pexps ≥ 1 := by
    have hm := (Book.getExp_key hstoredE).2.2
    have := sumBy_ge_mem (unfAt i) _ (fun y _ => unfAt_nonneg i y) e hm
    rw [unfAt_eq (Book.getExp_key hstoredE).2.1, he] at this
    simpa using this
  -- fields of the book after the queue update
  have hcq : ∀ bk : Book, (closeQ bk x i).parts = bk.parts ∧ (closeQ bk x i).pexps = bk.pexps ∧ (closeQ bk x i).hist = bk.hist ∧
      (closeQ bk x i).partCount = bk.partCount ∧ (closeQ bk x i).oddsCount = bk.oddsCount ∧ (closeQ bk x i).uid = bk.uid := by
    intro bk
    unfold closeQ
    split <;> exact ⟨rfl, rfl, rfl, rfl, rfl, rfl⟩
  have hcqQ : ∀ bk : Book, Sorted qkeyQ bk.queues → (closeQ bk x i).queues.map (·.1) = bk.queues.map (·.1) ∧ Sorted qkeyQ (closeQ bk x i).queues ∧
      (∀ o'', o'' ≠ x → (closeQ bk x i).getQueue o'' = bk.getQueue o'') ∧
      (closeQ bk x i).getQueue x = (bk.getQueue x).map (fun q => q.filter (fun j => j != i)) := by
    intro bk hs
    unfold closeQ
    split
    · rename_i q hq
      have := Book.setQueue_keys bk x (q.filter (fun j => j != i)) hs (by rw [hq]; rfl)
      refine ⟨this.1, this.2, fun o'' hne => Book.getQueue_setQueue_ne _ _ _ _ (Ne.symm hne), ?_⟩
      rw [Book.getQueue_setQueue_self, hq]; rfl
    · rename_i hq
      exact ⟨rfl, hs, fun _ _ => rfl, by rw [hq]; rfl⟩
  obtain ⟨c1, c2, c3, c4, c5, c6⟩ := hcq (ba.setExp { xe with fulfilled := true })
  obtain ⟨d1, d2, d3, d4⟩ := hcqQ (ba.setExp { xe with fulfilled := true }) hSE.sQ
  have hgeC : ∀ o'' j, (closeQ (ba.setExp { xe with fulfilled := true }) x i).getExp o'' j = (ba.setExp { xe with fulfilled := true }).getExp o'' j := by
    intro o'' j; unfold Book.getExp; rw [c2]
  constructor
  · refine ⟨h.idx, h.addr, h.tb, BkSInv.of_stores hSE c1 c2 c3 c4 c5 d1 d2, ?_, ?_, ?_, ?_, ?_, by rw [c1]; exact h.parts,
      by rw [c3]; exact h.hist, by rw [c4]; exact h.pc, by rw [c5]; exact h.oc, by rw [c6]; exact h.uid, ?_, ?_⟩
    · -- queues
      apply QV.mono h.q (by rw [c4]; rfl)
      intro o'' q' hq'
      unfold qvOf at hq'
      have hunf : ∀ j, ¬ (x = o'' ∧ i = j) → ba.unf o'' j → (closeQ (ba.setExp { xe with fulfilled := true }) x i).unf o'' j := by
        intro j hne ⟨y, hy1, hy2⟩
        exact ⟨y, by rw [hgeC, hgeE o'' j hne]; exact hy1, hy2⟩
      by_cases ho : o'' = o
      · simp only [ho, if_true, Option.some.injEq] at hq'
        subst hq'
        refine ⟨(h.q o uq (by simp [qvOf])).1, fun j hj => Or.inl ⟨uq, by simp [qvOf, ho], hj, ?_⟩⟩
        exact hunf j (fun c => hxo (c.1.trans ho))
      · simp only [ho, if_false] at hq'
        have hqv : ∀ q, ba.getQueue o'' = some q → qvOf ba o uq o'' = some q := by
          intro q hq; simp [qvOf, ho, hq]
        by_cases hx2 : o'' = x
        · rw [hx2, d4] at hq'
          simp only [Option.map_eq_some_iff] at hq'
          obtain ⟨q, hq, rfl⟩ := hq'
          have hq0 : ba.getQueue o'' = some q := by rw [hx2]; exact hq
          refine ⟨(h.q o'' q (hqv q hq0)).1.filter _, fun j hj => Or.inl ⟨q, hqv q hq0, (List.mem_filter.mp hj).1, ?_⟩⟩
          have hji : j ≠ i := by simpa using (List.mem_filter.mp hj).2
          exact hunf j (fun c => hji c.2.symm)
        · rw [d3 o'' hx2] at hq'
          have hq0 : ba.getQueue o'' = some q' := hq'
          refine ⟨(h.q o'' q' (hqv q' hq0)).1, fun j hj => Or.inl ⟨q', hqv q' hq0, hj, ?_⟩⟩
          exact hunf j (fun c => hx2 c.1.symm)
    · rw [d3 o (Ne.symm hxo)]; exact h.hasQ
    · have := RndAt.setExp h.rndI h.s.sE { xe with fulfilled := true } xe hx' rfl
      show ∃ r, (∀ e ∈ (closeQ _ x i).pexps, _) ∧ (∀ y ∈ (closeQ _ x i).hist, _)
      rw [c2, c3]; exact this
    · show ((wrapDec pa.notFilled : Nat) : Int) = _
      rw [c2, hsum]
      have := h.nfI
      rw [wrapDec_pos (by omega)]
      omega
    · rw [hgeC]; exact hstoredE
    · intro o' j hj
      rw [hgeC, hgeE o' j (fun c => hj c.2.symm)]; exact h.ge o' j hj
    · intro o'
      by_cases ho' : o' = x
      · rw [ho', hgeC, hgeX, ← h.cur x, hx]; rfl
      · rw [hgeC, hgeE o' i (fun c => ho' c.1.symm)]; exact h.cur o'
  · intro o'' hne
    rw [hgeC, hgeE o'' i (fun c => hne c.1.symm)]


theorem secondaryFold_SecInv (o i : Nat) (thr : Int) (allExp : List PExp) (ms : List (Nat × Dec)) (B : Book) (uq : List Nat)
    (e : PExp) (p1 : Part) (he : e.fulfilled = false) :
    ∀ (mo : List Nat), mo.Nodup → ∀ acc : Part × Book × Bool, SecInv o i B uq e p1 acc.1 acc.2.1 →
      (∀ x ∈ mo, x ≠ o → acc.2.1.getExp x i = allExp.find? (fun y => y.odds == x && y.idx == i)) →
      SecInv o i B uq e p1 (mo.foldl (secondaryOne o thr allExp ms) acc).1 (mo.foldl (secondaryOne o thr allExp ms) acc).2.1 := by
  intro mo
  induction mo with
  | nil => intro _ acc h _; exact h
  | cons x xs ih =>
    intro hnd acc hinv hsnap
    rw [List.nodup_cons] at hnd
    simp only [List.foldl_cons]
    rcases secondaryOne_cases o thr allExp ms acc x with ⟨a1, a2⟩ | ⟨hxo, xe, hfind, hxf, a1, a2⟩
    · apply ih hnd.2
      · rw [a1, a2]; exact hinv
      · intro x' hx' hne
        rw [a2]; exact hsnap x' (List.mem_cons_of_mem _ hx') hne
    · rw [hinv.idx] at hfind a2
      have hx : acc.2.1.getExp x i = some xe := by
        rw [hsnap x (List.mem_cons_self ..) hxo]; exact hfind
      obtain ⟨c1, c2⟩ := SecInv.close hinv he x hxo xe hx hxf
      apply ih hnd.2
      · rw [a1, a2]; exact c1
      · intro x' hx' hne
        rw [a2, c2 x' (fun c => hnd.1 (c ▸ hx'))]
        exact hsnap x' (List.mem_cons_of_mem _ hx') hne

/-- stage 2 on a closing visit: the exposure `(o, i)` is marked in memory, the queue head is dropped, other
    outcomes of `i` may be closed in the store -/
theorem stage2_closed (o i : Nat) (mo : List Nat) (ms : List (Nat × Dec)) (thr : Int) (p1 : Part) (e1 : PExp) (f1 : FInfo)
    (p : Part) (e : PExp) (t : List Nat) (hmo : mo.Nodup)
    (hS : BkSInv f1.book (fun _ => True)) (hQ : QV f1.book (qvOf f1.book o f1.uq)) (hasQ : (f1.book.getQueue o).isSome)
    (huq : f1.uq = i :: t) (hp : f1.book.getPart i = some p) (hp1 : p1.idx = i ∧ p1.notFilled = p.notFilled)
    (hst : f1.book.getExp o i = some e) (hef : e.fulfilled = false)
    (hmx : ∀ o', f1.allExp.find? (fun y => y.odds == o' && y.idx == i) = f1.book.getExp o' i) :
    SecInv o i f1.book t e p1 (stage2 o mo ms thr (p1, e1, true, f1)).1 (stage2 o mo ms thr (p1, e1, true, f1)).2.2.book ∧
    (stage2 o mo ms thr (p1, e1, true, f1)).2.1 = { e1 with fulfilled := true } ∧
    (stage2 o mo ms thr (p1, e1, true, f1)).2.2.uq = t ∧ (stage2 o mo ms thr (p1, e1, true, f1)).2.2.fmap = f1.fmap ∧
    (stage2 o mo ms thr (p1, e1, true, f1)).2.2.allExp = f1.allExp ∧ (stage2 o mo ms thr (p1, e1, true, f1)).2.2.fulfs = f1.fulfs ∧
    (stage2 o mo ms thr (p1, e1, true, f1)).2.2.payoutProfit = f1.payoutProfit := by
  have hnd := (hQ o f1.uq (by simp [qvOf])).1
  rw [huq, List.nodup_cons] at hnd
  have hsum1 : sumBy (unfAt i) f1.book.pexps ≥ 1 := by
    have hm := (Book.getExp_key hst).2.2
    have := sumBy_ge_mem (unfAt i) _ (fun y _ => unfAt_nonneg i y) e hm
    rw [unfAt_eq (Book.getExp_key hst).2.1, hef] at this
    simpa using this
  have hnf := hS.nf i p trivial hp
  have h0 : SecInv o i f1.book t e p1 { p1 with notFilled := wrapDec p1.notFilled } f1.book := by
    refine ⟨hp1.1, rfl, rfl, hS.weaken (fun _ _ => trivial), ?_, hasQ, hS.rnd i trivial, ?_, hst, rfl, rfl, rfl, rfl, rfl,
      fun _ _ _ => rfl, fun _ => rfl⟩
    · apply QV.mono hQ rfl
      intro o'' q' hq'
      unfold qvOf at hq'
      by_cases ho : o'' = o
      · simp only [ho, if_true, Option.some.injEq] at hq'
        subst hq'
        refine ⟨hnd.2, fun j hj => Or.inl ⟨f1.uq, by simp [qvOf, ho], by rw [huq]; exact List.mem_cons_of_mem _ hj, id⟩⟩
      · simp only [ho, if_false] at hq'
        have hq0 : qvOf f1.book o f1.uq o'' = some q' := by simp [qvOf, ho, hq']
        exact ⟨(hQ o'' q' hq0).1, fun j hj => Or.inl ⟨q', hq0, hj, id⟩⟩
    · show ((wrapDec p1.notFilled : Nat) : Int) = _
      rw [hp1.2, wrapDec_pos (by omega)]
      omega
  unfold stage2
  simp only [if_true]
  split
  · have := secondaryFold_SecInv o i thr f1.allExp ms f1.book t e p1 hef mo hmo
      ({ p1 with notFilled := wrapDec p1.notFilled }, f1.book, f1.err) h0 (fun x _ _ => (hmx x).symm)
    exact ⟨this, rfl, by show f1.uq.drop 1 = t; rw [huq]; rfl, rfl, rfl, rfl, rfl⟩
  · exact ⟨h0, rfl, by show f1.uq.drop 1 = t; rw [huq]; rfl, rfl, rfl, rfl, rfl⟩

end Sge.Core

namespace Sge.Core
open Sge Sge.Genesis

-- ---------------------------------------------------------------------------------------------
-- stage 3: write-back

/-- writing the in-memory participation and exposure of `i` back re-establishes the store invariant -/
theorem writeback_spec (o i : Nat) (B2 : Book) (uq2 : List Nat) (p2 p : Part) (e e2 : PExp)
    (hS : BkSInv B2 (fun j => j ≠ i)) (hR : RndAt B2 i) (hQ : QV B2 (qvOf B2 o uq2))
    (hst : B2.getExp o i = some e) (hp : B2.getPart i = some p)
    (he2 : e2.odds = o ∧ e2.idx = i ∧ e2.round = e.round)
    (hnf : (p2.notFilled : Int) = sumBy (unfAt i) B2.pexps - unfAt i e + unfAt i e2)
    (hcl : e2.fulfilled = true → i ∉ uq2) (hpi : p2.idx = i) :
    BkSInv ((B2.setExp e2).setPart p2) (fun _ => True) ∧
    QV ((B2.setExp e2).setPart p2) (qvOf ((B2.setExp e2).setPart p2) o uq2) := by
  have h0 : B2.getExp e2.odds e2.idx = some e := by rw [he2.1, he2.2.1]; exact hst
  have S1 : BkSInv (B2.setExp e2) (fun j => j ≠ i) :=
    BkSInv.setExp hS e2 e h0 he2.2.2 (fun j hj => ⟨hj, fun c => absurd (c.trans he2.2.1) hj⟩)
  have R1 : RndAt (B2.setExp e2) i := RndAt.setExp hR hS.sE e2 e h0 he2.2.2
  have hsum : sumBy (unfAt i) (B2.setExp e2).pexps = sumBy (unfAt i) B2.pexps - unfAt i e + unfAt i e2 := by
    show sumBy (unfAt i) (upsert PExp.key e2 B2.pexps) = _
    rw [sumBy_upsert PExp.key _ _ B2.pexps hS.sE]
    have : lookup PExp.key (PExp.key e2) B2.pexps = some e := h0
    rw [this]
  constructor
  · apply BkSInv.setPart S1 p2 p (by rw [hpi]; exact hp)
    · intro j _
      refine ⟨fun hj => ?_, fun hj => by rw [hpi] at hj; exact hj⟩
      rw [hj, hpi, hsum]; exact hnf
    · intro j _ hj
      rw [hj, hpi]; exact R1
  · apply QV.mono hQ (show ((B2.setExp e2).setPart p2).partCount = B2.partCount from rfl)
    intro o'' q' hq'
    have hq0 : qvOf B2 o uq2 o'' = some q' := hq'
    refine ⟨(hQ o'' q' hq0).1, fun j hj => Or.inl ⟨q', hq0, hj, ?_⟩⟩
    intro hu
    by_cases hc : e2.odds = o'' ∧ e2.idx = j
    · have ho : o'' = o := hc.1.symm.trans he2.1
      have hji : j = i := hc.2.symm.trans he2.2.1
      have hq2 : q' = uq2 := by
        unfold qvOf at hq0
        simp only [ho, if_true, Option.some.injEq] at hq0
        exact hq0.symm
      have hf : e2.fulfilled = false := by
        cases hh : e2.fulfilled
        · rfl
        · exact absurd (by rw [← hq2, ← hji]; exact hj) (hcl hh)
      refine ⟨e2, ?_, hf⟩
      show (B2.setExp e2).getExp o'' j = some e2
      rw [← hc.1, ← hc.2]; exact Book.getExp_setExp_self _ _
    · exact Book.unf_setExp_ne hc hu

-- ---------------------------------------------------------------------------------------------
-- re-queue: move the exposures of the round to history, open the next round

/-- the exposure of the next round -/
def nextExp (pe : PExp) : PExp :=
  { odds := pe.odds, idx := pe.idx, exposure := 0, bet := 0, fulfilled := false, round := pe.round + 1 }

theorem rollOne_book (o idx : Nat) (acc : Book × PExp × List (Nat × Part × PExp)) (pe : PExp) (hs : Sorted PExp.key acc.1.pexps) :
    (rollOne true o idx acc pe).1.pexps = upsert PExp.key (nextExp pe) acc.1.pexps ∧
    (rollOne true o idx acc pe).1.hist = upsert PExp.hkey pe acc.1.hist ∧
    (rollOne true o idx acc pe).1.parts = acc.1.parts ∧ (rollOne true o idx acc pe).1.queues = acc.1.queues ∧
    (rollOne true o idx acc pe).1.partCount = acc.1.partCount ∧ (rollOne true o idx acc pe).1.oddsCount = acc.1.oddsCount ∧
    (rollOne true o idx acc pe).1.uid = acc.1.uid := by
  have hp : (rollOne true o idx acc pe).1.pexps = upsert PExp.key (nextExp pe) (remove PExp.key [pe.odds, pe.idx] acc.1.pexps) := by
    unfold rollOne
    simp only [if_true]
    split <;> rfl
  have hrest : (rollOne true o idx acc pe).1.hist = upsert PExp.hkey pe acc.1.hist ∧
      (rollOne true o idx acc pe).1.parts = acc.1.parts ∧ (rollOne true o idx acc pe).1.queues = acc.1.queues ∧
      (rollOne true o idx acc pe).1.partCount = acc.1.partCount ∧ (rollOne true o idx acc pe).1.oddsCount = acc.1.oddsCount ∧
      (rollOne true o idx acc pe).1.uid = acc.1.uid := by
    unfold rollOne
    simp only [if_true]
    split <;> exact ⟨rfl, rfl, rfl, rfl, rfl, rfl⟩
  refine ⟨?_, hrest⟩
  rw [hp]
  exact upsert_remove PExp.key (nextExp pe) acc.1.pexps hs


/-- invariant of the loop that rolls the exposures of participation `i` (all in round `r`) into history:
    `L2` are the exposures still to roll, `B` the book when the loop started -/
structure RollInv (i r : Nat) (B : Book) (L2 : List PExp) (b : Book) : Prop where
  parts : b.parts = B.parts
  queues : b.queues = B.queues
  pc : b.partCount = B.partCount
  oc : b.oddsCount = B.oddsCount
  uid : b.uid = B.uid
  sE : Sorted PExp.key b.pexps
  sH : Sorted PExp.hkey b.hist
  pend : ∀ pe ∈ L2, b.getExp pe.odds pe.idx = some pe ∧ pe.idx = i ∧ pe.round = r
  dist : L2.Pairwise (fun a c => a.odds ≠ c.odds)
  hI : ∀ h ∈ b.hist, h.idx = i → h.round < r ∨ (h.round = r ∧ ∀ pe ∈ L2, pe.odds ≠ h.odds)
  eI : ∀ e ∈ b.pexps, e.idx = i → e ∈ L2 ∨ (e.round = r + 1 ∧ e.fulfilled = false)
  eKey : ∀ e ∈ b.pexps, 1 ≤ e.idx ∧ e.idx ≤ b.partCount
  hKey : ∀ h ∈ b.hist, h.idx ≤ b.partCount
  ge : ∀ o' j, j ≠ i → b.getExp o' j = B.getExp o' j
  geI : ∀ o', (b.getExp o' i).isSome = (B.getExp o' i).isSome
  cnt : ∀ j, sumBy (cntAt j) b.pexps = sumBy (cntAt j) B.pexps
  unfJ : ∀ j, j ≠ i → sumBy (unfAt j) b.pexps = sumBy (unfAt j) B.pexps
  rndJ : ∀ j, j ≠ i → RndAt B j → RndAt b j
  tE : ∀ o' j, b.totE o' j = B.totE o' j
  tB : ∀ o' j, b.totB o' j = B.totB o' j

theorem RollInv.step {i r : Nat} {B : Book} {pe : PExp} {L2 : List PExp} {b b' : Book} (h : RollInv i r B (pe :: L2) b)
    (hpe : b'.pexps = upsert PExp.key (nextExp pe) b.pexps) (hh : b'.hist = upsert PExp.hkey pe b.hist)
    (hparts : b'.parts = b.parts) (hq : b'.queues = b.queues) (hpc : b'.partCount = b.partCount)
    (hoc : b'.oddsCount = b.oddsCount) (huid : b'.uid = b.uid) : RollInv i r B L2 b' := by
  obtain ⟨p1, p2, p3⟩ := h.pend pe (List.mem_cons_self ..)
  have hdist := h.dist
  rw [List.pairwise_cons] at hdist
  have hmem := (Book.getExp_key p1).2.2
  have hlk : lookup PExp.key (PExp.key (nextExp pe)) b.pexps = some pe := p1
  -- the history slot of this round is free
  have hfresh : lookup PExp.hkey (PExp.hkey pe) b.hist = none := by
    rw [lookup_eq_none_iff]
    intro y hy hk
    have hk' : y.odds = pe.odds ∧ y.idx = pe.idx ∧ y.round = pe.round := by simpa [PExp.hkey] using hk
    rcases h.hI y hy (hk'.2.1.trans p2) with hlt | ⟨_, hne⟩
    · rw [hk'.2.2, p3] at hlt; omega
    · exact hne pe (List.mem_cons_self ..) hk'.1.symm
  have hge' : ∀ o' j, ¬ (pe.odds = o' ∧ pe.idx = j) → b'.getExp o' j = b.getExp o' j := by
    intro o' j hne
    unfold Book.getExp; rw [hpe]
    apply lookup_upsert_ne
    cases hc : PExp.key (nextExp pe) == [o', j]
    · rfl
    · exfalso; apply hne; simpa [PExp.key, nextExp] using hc
  have hgeS : b'.getExp pe.odds pe.idx = some (nextExp pe) := by
    unfold Book.getExp; rw [hpe]
    exact lookup_upsert_self PExp.key (nextExp pe) b.pexps
  have hmemE : ∀ e, e ∈ b'.pexps ↔ e = nextExp pe ∨ (e ∈ b.pexps ∧ (PExp.key e == PExp.key (nextExp pe)) = false) := by
    intro e; rw [hpe]; exact mem_upsert_iff PExp.key _ e b.pexps h.sE
  have hmemH : ∀ y, y ∈ b'.hist ↔ y = pe ∨ (y ∈ b.hist ∧ (PExp.hkey y == PExp.hkey pe) = false) := by
    intro y; rw [hh]; exact mem_upsert_iff PExp.hkey _ y b.hist h.sH
  have hsumH : ∀ g : PExp → Int, sumBy g b'.hist = sumBy g b.hist + g pe := by
    intro g
    rw [hh, sumBy_upsert PExp.hkey g pe b.hist h.sH, hfresh]; simp
  refine ⟨hparts.trans h.parts, hq.trans h.queues, hpc.trans h.pc, hoc.trans h.oc, huid.trans h.uid,
    by rw [hpe]; exact upsert_sorted _ _ _ h.sE, by rw [hh]; exact upsert_sorted _ _ _ h.sH, ?_, hdist.2, ?_, ?_, ?_, ?_, ?_, ?_, ?_, ?_, ?_, ?_, ?_⟩
  · intro pe' hpe'
    obtain ⟨a1, a2, a3⟩ := h.pend pe' (List.mem_cons_of_mem _ hpe')
    refine ⟨?_, a2, a3⟩
    rw [hge' pe'.odds pe'.idx (fun c => hdist.1 pe' hpe' c.1)]; exact a1
  · intro y hy hyi
    rcases (hmemH y).mp hy with rfl | ⟨hy, _⟩
    · exact Or.inr ⟨p3, fun pe' hpe' => Ne.symm (hdist.1 pe' hpe')⟩
    · rcases h.hI y hy hyi with hlt | ⟨a1, a2⟩
      · exact Or.inl hlt
      · exact Or.inr ⟨a1, fun pe' hpe' => a2 pe' (List.mem_cons_of_mem _ hpe')⟩
  · intro e he hei
    rcases (hmemE e).mp he with rfl | ⟨he, hk⟩
    · exact Or.inr ⟨by show pe.round + 1 = r + 1; rw [p3], rfl⟩
    · rcases h.eI e he hei with hm | hr
      · rcases List.mem_cons.mp hm with rfl | hm
        · simp [PExp.key, nextExp] at hk
        · exact Or.inl hm
      · exact Or.inr hr
  · intro e he
    rw [hpc]
    rcases (hmemE e).mp he with rfl | ⟨he, _⟩
    · exact h.eKey pe hmem
    · exact h.eKey e he
  · intro y hy
    rw [hpc]
    rcases (hmemH y).mp hy with rfl | ⟨hy, _⟩
    · exact (h.eKey y hmem).2
    · exact h.hKey y hy
  · intro o' j hj
    rw [hge' o' j (fun c => hj (c.2.symm.trans p2))]; exact h.ge o' j hj
  · intro o'
    by_cases ho : pe.odds = o'
    · rw [← h.geI o', ← ho, ← p2, hgeS, p1]; rfl
    · rw [hge' o' i (fun c => ho c.1)]; exact h.geI o'
  · intro j
    rw [hpe, sumBy_upsert PExp.key _ _ b.pexps h.sE, hlk]
    simp only
    have : cntAt j (nextExp pe) = cntAt j pe := rfl
    rw [this, ← h.cnt j]; omega
  · intro j hj
    rw [hpe, sumBy_upsert PExp.key _ _ b.pexps h.sE, hlk]
    simp only
    rw [unfAt_ne (show (nextExp pe).idx ≠ j from fun c => hj (c.symm.trans p2)), unfAt_ne (show pe.idx ≠ j from fun c => hj (c.symm.trans p2)),
      ← h.unfJ j hj]; omega
  · intro j hj hB
    obtain ⟨rj, r1, r2⟩ := h.rndJ j hj hB
    refine ⟨rj, ?_, ?_⟩
    · intro e he hei
      rcases (hmemE e).mp he with rfl | ⟨he, _⟩
      · exact absurd (hei.symm.trans p2) hj
      · exact r1 e he hei
    · intro y hy hyi
      rcases (hmemH y).mp hy with rfl | ⟨hy, _⟩
      · exact absurd (hyi.symm.trans p2) hj
      · exact r2 y hy hyi
  · intro o' j
    rw [← h.tE o' j]
    unfold Book.totE
    rw [hsumH]
    by_cases hc : pe.odds = o' ∧ pe.idx = j
    · rw [← hc.1, ← hc.2, hgeS, p1]
      simp [expAtH, nextExp]
      omega
    · rw [hge' o' j hc]
      have : expAtH o' j pe = 0 := by
        unfold expAtH
        have : (pe.odds == o' && pe.idx == j) = false := by
          cases hb : (pe.odds == o' && pe.idx == j)
          · rfl
          · exfalso; apply hc; simpa using hb
        simp [this]
      rw [this]; omega
  · intro o' j
    rw [← h.tB o' j]
    unfold Book.totB
    rw [hsumH]
    by_cases hc : pe.odds = o' ∧ pe.idx = j
    · rw [← hc.1, ← hc.2, hgeS, p1]
      simp [betAtH, nextExp]
      omega
    · rw [hge' o' j hc]
      have : betAtH o' j pe = 0 := by
        unfold betAtH
        have : (pe.odds == o' && pe.idx == j) = false := by
          cases hb : (pe.odds == o' && pe.idx == j)
          · rfl
          · exfalso; apply hc; simpa using hb
        simp [this]
      rw [this]; omega


theorem rollFold_RollInv (o i r : Nat) (B : Book) : ∀ (L : List PExp) (acc : Book × PExp × List (Nat × Part × PExp)),
    RollInv i r B L acc.1 → RollInv i r B [] (L.foldl (rollOne true o i) acc).1 := by
  intro L
  induction L with
  | nil => intro acc h; exact h
  | cons pe L ih =>
    intro acc h
    simp only [List.foldl_cons]
    obtain ⟨a1, a2, a3, a4, a5, a6, a7⟩ := rollOne_book o i acc pe h.sE
    exact ih _ (h.step a1 a2 a3 a4 a5 a6 a7)

theorem find_map_other {β : Type} (fm : List (Nat × β)) (i j : Nat) (g : Nat × β → β) (hj : j ≠ i) :
    (fm.map (fun x => if x.1 == i then (x.1, g x) else x)).find? (fun x => x.1 == j) = fm.find? (fun x => x.1 == j) := by
  induction fm with
  | nil => rfl
  | cons x xs ih =>
    simp only [List.map_cons, List.find?]
    by_cases hx : x.1 = j
    · have h1 : (x.1 == i) = false := by simpa using fun c => hj (hx.symm.trans c)
      have h2 : (x.1 == j) = true := by simpa using hx
      simp only [h1, Bool.false_eq_true, if_false, h2]
    · have hx' : (x.1 == j) = false := by simpa using hx
      have : ((if (x.1 == i) = true then (x.1, g x) else x).1 == j) = false := by
        split <;> exact hx'
      rw [this, hx']
      exact ih

theorem rollFold_items (elig : Bool) (o i : Nat) : ∀ (L : List PExp) (acc : Book × PExp × List (Nat × Part × PExp)) (j : Nat), j ≠ i →
    (L.foldl (rollOne elig o i) acc).2.2.find? (fun x => x.1 == j) = acc.2.2.find? (fun x => x.1 == j) := by
  intro L
  induction L with
  | nil => intro acc j _; rfl
  | cons pe L ih =>
    intro acc j hj
    simp only [List.foldl_cons]
    rw [ih _ j hj]
    unfold rollOne
    simp only
    split
    · split
      · exact find_map_other acc.2.2 i j (fun x => (x.2.1, _)) hj
      · rfl
    · rfl

theorem RollInv.init (B : Book) (i : Nat) (hS : BkSInv B (fun _ => True)) : ∃ r, RollInv i r B (B.expsOfIdx i) B := by
  obtain ⟨r, r1, r2⟩ := hS.rnd i trivial
  have hmemL : ∀ pe, pe ∈ B.expsOfIdx i ↔ pe ∈ B.pexps ∧ pe.idx = i := by
    intro pe
    unfold Book.expsOfIdx
    rw [List.mem_filter]
    simp
  refine ⟨r, rfl, rfl, rfl, rfl, rfl, hS.sE, hS.sH, ?_, ?_, ?_, ?_, hS.eKey, hS.hKey, fun _ _ _ => rfl, fun _ => rfl,
    fun _ => rfl, fun _ _ => rfl, fun _ _ h => h, fun _ _ => rfl, fun _ _ => rfl⟩
  · intro pe hpe
    obtain ⟨h1, h2⟩ := (hmemL pe).mp hpe
    exact ⟨Book.mem_getExp hS.sE h1, h2, r1 pe h1 h2⟩
  · have hs := hS.sE
    unfold Sorted at hs
    have hf : (B.expsOfIdx i).Pairwise (fun a c => ltL (PExp.key a) (PExp.key c) = true) := by
      unfold Book.expsOfIdx
      exact List.Pairwise.filter _ hs
    refine List.Pairwise.imp_of_mem ?_ hf
    intro a c ha hc hlt e
    have ha2 := ((hmemL a).mp ha).2
    have hc2 := ((hmemL c).mp hc).2
    have : PExp.key a = PExp.key c := by simp [PExp.key, e, ha2, hc2]
    rw [this, ltL_irrefl] at hlt
    cases hlt
  · intro y hy hyi
    exact Or.inl (r2 y hy hyi)
  · intro e he hei
    exact Or.inl ((hmemL e).mpr ⟨he, hei⟩)

/-- when the loop is done all exposures of `i` are open and in round `r + 1` -/
theorem RollInv.done {i r : Nat} {B b : Book} (h : RollInv i r B [] b) :
    RndAt b i ∧ sumBy (unfAt i) b.pexps = sumBy (cntAt i) b.pexps ∧ (∀ o', (b.getExp o' i).isSome → b.unf o' i) := by
  have hall : ∀ e ∈ b.pexps, e.idx = i → e.round = r + 1 ∧ e.fulfilled = false := by
    intro e he hei
    rcases h.eI e he hei with hm | hr
    · cases hm
    · exact hr
  refine ⟨⟨r + 1, fun e he hei => (hall e he hei).1, ?_⟩, ?_, ?_⟩
  · intro y hy hyi
    rcases h.hI y hy hyi with hlt | ⟨he, _⟩
    · omega
    · omega
  · apply sumBy_congr
    intro e he
    by_cases hei : e.idx = i
    · rw [unfAt_eq hei, cntAt_eq hei, (hall e he hei).2]; rfl
    · rw [unfAt_ne hei, cntAt_ne hei]
  · intro o' hs
    cases hg : b.getExp o' i with
    | none => rw [hg] at hs; cases hs
    | some e =>
      obtain ⟨_, k2, k3⟩ := Book.getExp_key hg
      exact ⟨e, hg, (hall e k3 k2).2⟩

theorem Book.totE_congr {b b' : Book} (he : b'.pexps = b.pexps) (hh : b'.hist = b.hist) (o i : Nat) :
    b'.totE o i = b.totE o i ∧ b'.totB o i = b.totB o i := by
  unfold Book.totE Book.totB Book.getExp
  rw [he, hh]
  exact ⟨rfl, rfl⟩

end Sge.Core

namespace Sge.Core
open Sge Sge.Genesis

/-- the queue written by `prepareOddsExposuresForNextRound` for one outcome -/
def requeueQ (i : Nat) (oq : Nat × List Nat) : List Nat :=
  (match oq.2 with
    | h :: t => if h == i then t else oq.2
    | [] => oq.2) ++ [i]

theorem requeueQ_not_mem (i o : Nat) (q : List Nat) (h : i ∉ q) : requeueQ i (o, q) = q ++ [i] := by
  unfold requeueQ
  cases q with
  | nil => rfl
  | cons x xs =>
    have : (x == i) = false := by
      simp only [List.mem_cons, not_or] at h
      simpa using fun c => h.1 c.symm
    simp [this]

theorem requeueOdds_eq (i : Nat) : requeueOdds i = fun bk oq => bk.setQueue oq.1 (requeueQ i oq) := by
  funext bk oq
  rfl

/-- the participation written by `refreshQueueAndState`: liquidity trimmed, round counters reset -/
def requeuePart (p : Part) (n : Nat) : Part :=
  { p with crl := p.crl - maxI 0 p.crMaxLoss, notFilled := n, maxLoss := p.maxLoss + p.crMaxLoss, crTotalBet := 0, crMaxLoss := 0 }

/-- the state written by `refreshQueueAndState` -/
def requeueRes (f : FInfo) (p : Part) (_o : Nat) (R : Book × PExp × List (Nat × Part × PExp)) : FInfo :=
  { f with book := (R.1.setPart (requeuePart p R.1.oddsCount)).queues.foldl (requeueOdds p.idx) (R.1.setPart (requeuePart p R.1.oddsCount)),
           uq := f.uq ++ [p.idx],
           fmap := R.2.2.map fun x => if x.1 == p.idx then (x.1, requeuePart p R.1.oddsCount, x.2.2) else x }

theorem requeue_eq (f : FInfo) (p : Part) (e : PExp) (o : Nat) (hel : p.eligiblePre = true) :
    requeue f p e o = requeueRes f p o ((f.book.expsOfIdx p.idx).foldl (rollOne true o p.idx) (f.book, e, f.fmap)) := by
  have helig : decide ((0 : Int) < p.crl - maxI 0 p.crMaxLoss) = true := by
    unfold Part.eligiblePre at hel
    simp only [decide_eq_true_eq] at hel ⊢
    omega
  unfold requeue requeueRes requeuePart
  simp only [helig, if_true]

/-- `refreshQueueAndState` for a participation all of whose exposures are closed -/
theorem requeue_spec (o i : Nat) (f : FInfo) (p : Part) (e : PExp)
    (hS : BkSInv f.book (fun _ => True)) (hQ : QV f.book (qvOf f.book o f.uq)) (hasQ : (f.book.getQueue o).isSome)
    (hp : f.book.getPart i = some p) (hel : p.eligiblePre = true) (hnf0 : p.notFilled = 0) (hiu : i ∉ f.uq) :
    BkSInv (requeue f p e o).book (fun _ => True) ∧
    QV (requeue f p e o).book (qvOf (requeue f p e o).book o (requeue f p e o).uq) ∧
    ((requeue f p e o).book.getQueue o).isSome ∧ (requeue f p e o).uq = f.uq ++ [i] ∧
    (requeue f p e o).book.partCount = f.book.partCount ∧ (requeue f p e o).book.uid = f.book.uid ∧
    (∀ j, j ≠ i → (requeue f p e o).book.getPart j = f.book.getPart j) ∧
    (∀ o' j, j ≠ i → (requeue f p e o).book.getExp o' j = f.book.getExp o' j) ∧
    (∀ o' j, (requeue f p e o).book.totE o' j = f.book.totE o' j) ∧
    (∀ o' j, (requeue f p e o).book.totB o' j = f.book.totB o' j) ∧
    (∃ p4, (requeue f p e o).book.getPart i = some p4 ∧ p4.addr = p.addr ∧ p4.totalBet = p.totalBet) ∧
    (∀ j, j ≠ i → (requeue f p e o).item j = f.item j) ∧ (requeue f p e o).allExp = f.allExp := by
  have hpi : p.idx = i := Book.getPart_idx hp
  have hrange := (hS.inRange_iff i).mp ⟨p, hp⟩
  -- every exposure of `i` is closed, so `i` waits in no queue
  have hsum0 : sumBy (unfAt i) f.book.pexps = 0 := by
    rw [← hS.nf i p trivial hp, hnf0]; rfl
  have hall : ∀ y ∈ f.book.pexps, y.idx = i → y.fulfilled = true := by
    intro y hy hyi
    have := sumBy_ge_mem (unfAt i) _ (fun z _ => unfAt_nonneg i z) y hy
    rw [hsum0, unfAt_eq hyi] at this
    cases hf : y.fulfilled
    · rw [hf] at this; simp at this
    · rfl
  have hnotin : ∀ o' q, qvOf f.book o f.uq o' = some q → i ∉ q := by
    intro o' q hq hi
    obtain ⟨y, hy1, hy2⟩ := ((hQ o' q hq).2 i hi).2.2
    obtain ⟨_, k2, k3⟩ := Book.getExp_key hy1
    rw [hall y k3 k2] at hy2
    cases hy2
  -- the roll
  obtain ⟨r, hR0⟩ := RollInv.init f.book i hS
  have hR := rollFold_RollInv o i r f.book (f.book.expsOfIdx i) (f.book, e, f.fmap) hR0
  have hitems := rollFold_items true o i (f.book.expsOfIdx i) (f.book, e, f.fmap)
  rw [requeue_eq f p e o hel, hpi]
  generalize (f.book.expsOfIdx i).foldl (rollOne true o i) (f.book, e, f.fmap) = R at hR hitems
  obtain ⟨d1, d2, d3⟩ := hR.done
  -- the store after the roll
  have hSR : BkSInv R.1 (fun j => j ≠ i) := by
    have hgp : ∀ j, R.1.getPart j = f.book.getPart j := by intro j; unfold Book.getPart; rw [hR.parts]
    refine ⟨by rw [hR.parts]; exact hS.sP, hR.sE, hR.sH, by rw [hR.queues]; exact hS.sQ, by rw [hR.parts, hR.pc]; exact hS.pIdx,
      by rw [hR.queues, hR.oc]; exact hS.oc, hR.eKey, hR.hKey, ?_, ?_, ?_, ?_⟩
    · intro j h1 h2 o' ho'
      rw [hR.queues] at ho'
      rw [hR.pc] at h2
      by_cases hj : j = i
      · rw [hj, hR.geI o', ← hj]; exact hS.eAll j h1 h2 o' ho'
      · rw [hR.ge o' j hj]; exact hS.eAll j h1 h2 o' ho'
    · intro j q hj hg
      rw [hgp] at hg
      rw [hR.unfJ j hj]; exact hS.nf j q trivial hg
    · intro j h1 h2
      rw [hR.cnt j, hR.oc]; exact hS.ne j h1 (by rw [← hR.pc]; exact h2)
    · intro j hj
      exact hR.rndJ j hj (hS.rnd j trivial)
  -- the participation is written back with fresh counters
  generalize hp4 : requeuePart p R.1.oddsCount = p4
  have hp4i : p4.idx = i := by rw [← hp4]; exact hpi
  have hp4f : p4.addr = p.addr ∧ p4.totalBet = p.totalBet ∧ p4.notFilled = R.1.oddsCount := by
    rw [← hp4]; exact ⟨rfl, rfl, rfl⟩
  have hgpR : R.1.getPart i = some p := by unfold Book.getPart; rw [hR.parts]; exact hp
  have hS4 : BkSInv (R.1.setPart p4) (fun _ => True) := by
    apply BkSInv.setPart hSR p4 p (by rw [hp4i]; exact hgpR)
    · intro j _
      refine ⟨fun hj => ?_, fun hj => by rw [hp4i] at hj; exact hj⟩
      rw [hj, hp4i, hp4f.2.2, d2, hR.cnt i, hR.oc]
      exact (hS.ne i hrange.1 hrange.2).symm
    · intro j _ hj
      rw [hj, hp4i]; exact d1
  -- the queues
  have hstep : ∀ (bk : Book) (oq : Nat × List Nat), (requeueOdds i bk oq).queues = (bk.setQueue oq.1 (requeueQ i oq)).queues :=
    fun _ _ => rfl
  obtain ⟨q1, q2, q3⟩ := foldQueues_self (requeueOdds i) (requeueQ i) hstep (R.1.setPart p4) hS4.sQ
  have hfields := setQueueFold_fields (requeueQ i) (R.1.setPart p4).queues (R.1.setPart p4)
  rw [← requeueOdds_eq i] at hfields
  obtain ⟨f1, f2, f3, f4, f5, f6⟩ := hfields
  have hbook : (requeueRes f p o R).book = (R.1.setPart p4).queues.foldl (requeueOdds i) (R.1.setPart p4) := by
    unfold requeueRes
    simp only [hp4, hpi]
  have huq : (requeueRes f p o R).uq = f.uq ++ [i] := by unfold requeueRes; simp only [hpi]
  rw [hbook, huq]
  generalize hB5 : (R.1.setPart p4).queues.foldl (requeueOdds i) (R.1.setPart p4) = B5 at q1 q2 q3 f1 f2 f3 f4 f5 f6
  have hge5 : ∀ o' j, B5.getExp o' j = R.1.getExp o' j := by
    intro o' j; unfold Book.getExp; rw [f2]; rfl
  have hgq : ∀ o', B5.getQueue o' = (f.book.getQueue o').map (fun q => requeueQ i (o', q)) := by
    intro o'
    rw [q1 o']
    have : (R.1.setPart p4).getQueue o' = f.book.getQueue o' := Book.getQueue_congr hR.queues o'
    rw [this]
  have hunfI : ∀ o', (f.book.getQueue o').isSome → B5.unf o' i := by
    intro o' hs
    have hk := (Book.getQueue_isSome_iff f.book o').mp hs
    have h1 := hS.eAll i hrange.1 hrange.2 o' hk
    rw [← hR.geI o'] at h1
    obtain ⟨y, hy1, hy2⟩ := d3 o' h1
    exact ⟨y, by rw [hge5]; exact hy1, hy2⟩
  have hunfJ : ∀ o' j, j ≠ i → f.book.unf o' j → B5.unf o' j := by
    intro o' j hj ⟨y, hy1, hy2⟩
    exact ⟨y, by rw [hge5, hR.ge o' j hj]; exact hy1, hy2⟩
  refine ⟨BkSInv.of_stores hS4 f1 f2 f3 f4 f5 q2 q3, ?_, ?_, rfl, by rw [f4]; exact hR.pc, by rw [f6]; exact hR.uid, ?_, ?_, ?_, ?_, ?_, ?_, ?_⟩
  · -- queue view
    apply QV.mono hQ (show B5.partCount = f.book.partCount by rw [f4]; exact hR.pc)
    intro o'' q' hq'
    unfold qvOf at hq'
    by_cases ho : o'' = o
    · simp only [ho, if_true, Option.some.injEq] at hq'
      subst hq'
      have hqo : qvOf f.book o f.uq o'' = some f.uq := by simp [qvOf, ho]
      constructor
      · rw [List.nodup_append]
        refine ⟨(hQ o'' f.uq hqo).1, by simp, ?_⟩
        intro a ha c hc hac
        simp only [List.mem_cons, List.not_mem_nil, or_false] at hc
        exact hiu (hc ▸ hac ▸ ha)
      · intro j hj
        simp only [List.mem_append, List.mem_cons, List.not_mem_nil, or_false] at hj
        rcases hj with hj | rfl
        · exact Or.inl ⟨f.uq, hqo, hj, hunfJ o'' j (fun c => hiu (c ▸ hj))⟩
        · exact Or.inr ⟨hrange.1, hrange.2, hunfI o'' (by rw [ho]; exact hasQ)⟩
    · simp only [ho, if_false] at hq'
      rw [hgq o''] at hq'
      simp only [Option.map_eq_some_iff] at hq'
      obtain ⟨q, hq, rfl⟩ := hq'
      have hqo : qvOf f.book o f.uq o'' = some q := by simp [qvOf, ho, hq]
      have hni := hnotin o'' q hqo
      rw [requeueQ_not_mem i o'' q hni]
      constructor
      · rw [List.nodup_append]
        refine ⟨(hQ o'' q hqo).1, by simp, ?_⟩
        intro a ha c hc hac
        simp only [List.mem_cons, List.not_mem_nil, or_false] at hc
        exact hni (hc ▸ hac ▸ ha)
      · intro j hj
        simp only [List.mem_append, List.mem_cons, List.not_mem_nil, or_false] at hj
        rcases hj with hj | rfl
        · exact Or.inl ⟨q, hqo, hj, hunfJ o'' j (fun c => hni (c ▸ hj))⟩
        · exact Or.inr ⟨hrange.1, hrange.2, hunfI o'' (by rw [hq]; rfl)⟩
  · rw [hgq o]
    cases hc : f.book.getQueue o with
    | none => rw [hc] at hasQ; cases hasQ
    | some q => rfl
  · intro j hj
    unfold Book.getPart
    rw [f1]
    show lookup Part.key [j] (upsert Part.key p4 R.1.parts) = _
    rw [lookup_upsert_ne Part.key p4 [j] R.1.parts (by simpa [Part.key, hp4i] using fun c : i = j => hj c.symm), hR.parts]
  · intro o' j hj
    rw [hge5, hR.ge o' j hj]
  · intro o' j
    rw [(Book.totE_congr (b := R.1) f2 f3 o' j).1]; exact hR.tE o' j
  · intro o' j
    rw [(Book.totE_congr (b := R.1) f2 f3 o' j).2]; exact hR.tB o' j
  · refine ⟨p4, ?_, hp4f.1, hp4f.2.1⟩
    unfold Book.getPart
    rw [f1, ← hp4i]
    exact lookup_upsert_self Part.key p4 R.1.parts
  · intro j hj
    unfold FInfo.item requeueRes
    simp only [hpi]
    rw [find_map_other R.2.2 i j (fun x => (requeuePart p R.1.oddsCount, x.2.2)) hj, hitems j hj]
  · rfl

end Sge.Core

namespace Sge.Core
open Sge Sge.Genesis

-- ---------------------------------------------------------------------------------------------
-- the loop invariant of `fulfillBetByParticipationQueue`

/-- `b0` is the book at the start of the wager, `o` the wagered outcome, `rest` the indices still to visit -/
structure LInv (b0 : Book) (o : Nat) (rest : List Nat) (f : FInfo) : Prop where
  s : BkSInv f.book (fun _ => True)
  q : QV f.book (qvOf f.book o f.uq)
  hasQ : (f.book.getQueue o).isSome
  pc : f.book.partCount = b0.partCount
  uid : f.book.uid = b0.uid
  pre : ∃ rq, f.uq = rest ++ rq
  memP : ∀ i ∈ rest, ∀ pe, f.item i = some pe → f.book.getPart i = some pe.1 ∧ f.book.getExp o i = some pe.2
  memX : ∀ i ∈ rest, ∀ o', f.allExp.find? (fun x => x.odds == o' && x.idx == i) = f.book.getExp o' i
  partRel : ∀ i p, f.book.getPart i = some p →
    ∃ p0, b0.getPart i = some p0 ∧ p0.addr = p.addr ∧ p.totalBet = p0.totalBet + sumBy (fbAt i) f.fulfs
  totE : ∀ o' i, f.book.totE o' i = b0.totE o' i + if o' = o then sumBy (fpAt i) f.fulfs else 0
  totB : ∀ o' i, f.book.totB o' i = b0.totB o' i + if o' = o then sumBy (fbAt i) f.fulfs else 0
  fwf : ∀ fl ∈ f.fulfs, ∃ p0, b0.getPart fl.idx = some p0 ∧ p0.addr = fl.addr

theorem LInv.weaken {b0 : Book} {o : Nat} {rest : List Nat} {f : FInfo} (h : LInv b0 o rest f) : LInv b0 o [] f :=
  ⟨h.s, h.q, h.hasQ, h.pc, h.uid, ⟨f.uq, rfl⟩, (fun _ hi => by cases hi), (fun _ hi => by cases hi), h.partRel, h.totE, h.totB, h.fwf⟩

theorem sumBy_snoc {α : Type} (g : α → Int) (l : List α) (x : α) : sumBy g (l ++ [x]) = sumBy g l + g x := by
  rw [sumBy_append]; simp [sumBy]

/-- totals only depend on the amounts of the current exposure and on the history -/
theorem Book.tot_of_cur {b b' : Book} (hh : b'.hist = b.hist) (o i : Nat)
    (hc : (b'.getExp o i).map (fun x => (x.exposure, x.bet)) = (b.getExp o i).map (fun x => (x.exposure, x.bet))) :
    b'.totE o i = b.totE o i ∧ b'.totB o i = b.totB o i := by
  unfold Book.totE Book.totB
  rw [hh]
  cases h1 : b'.getExp o i with
  | none =>
    rw [h1] at hc
    cases h2 : b.getExp o i with
    | none => exact ⟨rfl, rfl⟩
    | some y => rw [h2] at hc; cases hc
  | some x =>
    rw [h1] at hc
    cases h2 : b.getExp o i with
    | none => rw [h2] at hc; cases hc
    | some y =>
      rw [h2] at hc
      simp only [Option.map_some, Option.some.injEq, Prod.mk.injEq] at hc
      obtain ⟨c1, c2⟩ := hc
      exact ⟨by show x.exposure + _ = y.exposure + _; rw [c1], by show x.bet + _ = y.bet + _; rw [c2]⟩

/-- the write-back of a visit: generic in what stage 2 did (`c` = the exposure was closed) -/
theorem LInv.writeback {b0 : Book} {o i : Nat} {rest rest' : List Nat} {f f2 : FInfo} (h : LInv b0 o (i :: rest) f)
    (pe : Part × PExp) (hgp : f.book.getPart i = some pe.1) (hge : f.book.getExp o i = some pe.2)
    (hnot : i ∉ rest) (p2 : Part) (e2 : PExp) (c : Bool) (Δb Δπ : Int)
    (hfm : f2.fmap = f.fmap) (hax : f2.allExp = f.allExp)
    (hparts : f2.book.parts = f.book.parts) (hhist : f2.book.hist = f.book.hist) (hpc : f2.book.partCount = f.book.partCount)
    (huid : f2.book.uid = f.book.uid)
    (hgeJ : ∀ o' j, j ≠ i → f2.book.getExp o' j = f.book.getExp o' j) (hst : f2.book.getExp o i = some pe.2)
    (hcur : ∀ o', (f2.book.getExp o' i).map (fun x => (x.exposure, x.bet)) = (f.book.getExp o' i).map (fun x => (x.exposure, x.bet)))
    (hasQ : (f2.book.getQueue o).isSome)
    (hS : BkSInv f2.book (fun j => j ≠ i)) (hR : RndAt f2.book i) (hQ : QV f2.book (qvOf f2.book o f2.uq))
    (hp2 : p2.idx = i ∧ p2.addr = pe.1.addr ∧ p2.totalBet = pe.1.totalBet + Δb)
    (he2 : e2 = { pe.2 with exposure := pe.2.exposure + Δπ, bet := pe.2.bet + Δb, fulfilled := c })
    (hnf : (p2.notFilled : Int) = sumBy (unfAt i) f2.book.pexps - unfAt i pe.2 + unfAt i e2)
    (hcl : c = true → i ∉ f2.uq)
    (hfl : (f2.fulfs = f.fulfs ∧ Δb = 0 ∧ Δπ = 0) ∨ f2.fulfs = f.fulfs ++ [{ addr := pe.1.addr, idx := i, bet := Δb, profit := Δπ }])
    (hpre : ∃ rq, f2.uq = rest' ++ rq) (hsub : ∀ j ∈ rest', j ∈ rest) :
    LInv b0 o rest' { f2 with book := (f2.book.setExp e2).setPart p2 } := by
  obtain ⟨k1, k2, _⟩ := Book.getExp_key hge
  have he2k : e2.odds = o ∧ e2.idx = i ∧ e2.round = pe.2.round := by rw [he2]; exact ⟨k1, k2, rfl⟩
  obtain ⟨w1, w2⟩ := writeback_spec o i f2.book f2.uq p2 pe.1 pe.2 e2 hS hR hQ hst
    (by unfold Book.getPart; rw [hparts]; exact hgp) he2k hnf (by rw [he2]; exact hcl) hp2.1
  -- sums over the backing parts
  have hfb : ∀ j, sumBy (fbAt j) f2.fulfs = sumBy (fbAt j) f.fulfs + if j = i then Δb else 0 := by
    intro j
    rcases hfl with ⟨h1, h2, _⟩ | h1
    · rw [h1, h2]; split <;> omega
    · rw [h1, sumBy_snoc]
      unfold fbAt
      by_cases hj : j = i
      · simp [hj]
      · have : (i == j) = false := by simpa using fun c => hj c.symm
        simp [hj, this]
  have hfp : ∀ j, sumBy (fpAt j) f2.fulfs = sumBy (fpAt j) f.fulfs + if j = i then Δπ else 0 := by
    intro j
    rcases hfl with ⟨h1, _, h3⟩ | h1
    · rw [h1, h3]; split <;> omega
    · rw [h1, sumBy_snoc]
      unfold fpAt
      by_cases hj : j = i
      · simp [hj]
      · have : (i == j) = false := by simpa using fun c => hj c.symm
        simp [hj, this]
  -- lookups in the written-back book
  have hgp3 : ∀ j, j ≠ i → ((f2.book.setExp e2).setPart p2).getPart j = f.book.getPart j := by
    intro j hj
    rw [Book.getPart_setPart_ne _ _ _ (by rw [hp2.1]; exact fun c => hj c.symm)]
    unfold Book.getPart; show lookup Part.key [j] f2.book.parts = _; rw [hparts]
  have hgp3i : ((f2.book.setExp e2).setPart p2).getPart i = some p2 := by
    rw [← hp2.1]; exact Book.getPart_setPart_self _ _
  have hge3 : ∀ o' j, ¬ (o' = o ∧ j = i) → ((f2.book.setExp e2).setPart p2).getExp o' j = f2.book.getExp o' j := by
    intro o' j hne
    show (f2.book.setExp e2).getExp o' j = _
    apply Book.getExp_setExp_ne
    rw [he2k.1, he2k.2.1]
    exact fun c => hne ⟨c.1.symm, c.2.symm⟩
  have hge3i : ((f2.book.setExp e2).setPart p2).getExp o i = some e2 := by
    show (f2.book.setExp e2).getExp o i = _
    rw [← he2k.1, ← he2k.2.1]; exact Book.getExp_setExp_self _ _
  have hjne : ∀ j ∈ rest', j ≠ i := fun j hj c => hnot (c ▸ hsub j hj)
  refine ⟨w1, w2, hasQ, hpc.trans h.pc, huid.trans h.uid, hpre, ?_, ?_, ?_, ?_, ?_, ?_⟩
  · intro j hj pe' hit
    have hji := hjne j hj
    have hit' : f.item j = some pe' := by
      unfold FInfo.item at hit ⊢
      simp only [hfm] at hit
      exact hit
    obtain ⟨a1, a2⟩ := h.memP j (List.mem_cons_of_mem _ (hsub j hj)) pe' hit'
    exact ⟨by show Book.getPart _ j = _; rw [hgp3 j hji]; exact a1,
      by show Book.getExp _ o j = _; rw [hge3 o j (fun c => hji c.2), hgeJ o j hji]; exact a2⟩
  · intro j hj o'
    have hji := hjne j hj
    show List.find? _ f2.allExp = Book.getExp _ o' j
    rw [hax, hge3 o' j (fun c => hji c.2), hgeJ o' j hji]
    exact h.memX j (List.mem_cons_of_mem _ (hsub j hj)) o'
  · intro j p' hp'
    show ∃ p0, _ ∧ _ ∧ p'.totalBet = _ + sumBy (fbAt j) f2.fulfs
    rw [hfb j]
    by_cases hj : j = i
    · subst hj
      have hp' : Book.getPart _ j = some p' := hp'
      rw [hgp3i] at hp'
      cases hp'
      obtain ⟨p0, a1, a2, a3⟩ := h.partRel j pe.1 hgp
      refine ⟨p0, a1, a2.trans hp2.2.1.symm, ?_⟩
      rw [hp2.2.2, a3]; simp; omega
    · have hp' : Book.getPart _ j = some p' := hp'
      rw [hgp3 j hj] at hp'
      obtain ⟨p0, a1, a2, a3⟩ := h.partRel j p' hp'
      exact ⟨p0, a1, a2, by rw [a3]; simp [hj]⟩
  · intro o' j
    show Book.totE _ o' j = _ + if o' = o then sumBy (fpAt j) f2.fulfs else 0
    rw [hfp j]
    by_cases hc : o' = o ∧ j = i
    · obtain ⟨rfl, rfl⟩ := hc
      have := h.totE o' j
      unfold Book.totE at this ⊢
      rw [hge] at this
      rw [hge3i]
      show e2.exposure + sumBy (expAtH o' j) f2.book.hist = _
      rw [hhist, he2]
      simp only [if_true] at this ⊢
      omega
    · have h1 : ((f2.book.setExp e2).setPart p2).totE o' j = f.book.totE o' j := by
        apply (Book.tot_of_cur (b := f.book) (show ((f2.book.setExp e2).setPart p2).hist = f.book.hist from hhist) o' j _).1
        rw [hge3 o' j hc]
        by_cases hj : j = i
        · rw [hj]; exact hcur o'
        · rw [hgeJ o' j hj]
      rw [h1, h.totE o' j]
      by_cases ho : o' = o
      · have hj : j ≠ i := fun c => hc ⟨ho, c⟩
        simp [ho, hj]
      · simp [ho]
  · intro o' j
    show Book.totB _ o' j = _ + if o' = o then sumBy (fbAt j) f2.fulfs else 0
    rw [hfb j]
    by_cases hc : o' = o ∧ j = i
    · obtain ⟨rfl, rfl⟩ := hc
      have := h.totB o' j
      unfold Book.totB at this ⊢
      rw [hge] at this
      rw [hge3i]
      show e2.bet + sumBy (betAtH o' j) f2.book.hist = _
      rw [hhist, he2]
      simp only [if_true] at this ⊢
      omega
    · have h1 : ((f2.book.setExp e2).setPart p2).totB o' j = f.book.totB o' j := by
        apply (Book.tot_of_cur (b := f.book) (show ((f2.book.setExp e2).setPart p2).hist = f.book.hist from hhist) o' j _).2
        rw [hge3 o' j hc]
        by_cases hj : j = i
        · rw [hj]; exact hcur o'
        · rw [hgeJ o' j hj]
      rw [h1, h.totB o' j]
      by_cases ho : o' = o
      · have hj : j ≠ i := fun c => hc ⟨ho, c⟩
        simp [ho, hj]
      · simp [ho]
  · intro fl hfl'
    have hfl' : fl ∈ f2.fulfs := hfl'
    rcases hfl with ⟨h1, _, _⟩ | h1
    · rw [h1] at hfl'; exact h.fwf fl hfl'
    · rw [h1] at hfl'
      simp only [List.mem_append, List.mem_cons, List.not_mem_nil, or_false] at hfl'
      rcases hfl' with hfl' | rfl
      · exact h.fwf fl hfl'
      · obtain ⟨p0, a1, a2, _⟩ := h.partRel i pe.1 hgp
        exact ⟨p0, a1, a2⟩

end Sge.Core

namespace Sge.Core
open Sge Sge.Genesis

/-- re-queueing a participation that is not waiting any more keeps the loop invariant -/
theorem LInv.requeue {b0 : Book} {o i : Nat} {rest : List Nat} {f : FInfo} (h : LInv b0 o rest f) (p : Part) (e : PExp)
    (hp : f.book.getPart i = some p) (hel : p.eligiblePre = true) (hnf0 : p.notFilled = 0) (hiu : i ∉ f.uq) :
    LInv b0 o rest (requeue f p e o) := by
  obtain ⟨r1, r2, r3, r4, r5, r6, r7, r8, r9, r10, ⟨p4, r11, r12, r13⟩, r14, r15⟩ := requeue_spec o i f p e h.s h.q h.hasQ hp hel hnf0 hiu
  have hcore := requeue_core f p e o
  obtain ⟨rq, hrq⟩ := h.pre
  have hne : ∀ j ∈ rest, j ≠ i := by
    intro j hj c
    apply hiu
    rw [hrq, ← c]
    exact List.mem_append_left _ hj
  refine ⟨r1, r2, r3, r5.trans h.pc, r6.trans h.uid, ⟨rq ++ [i], by rw [r4, hrq, List.append_assoc]⟩, ?_, ?_, ?_, ?_, ?_, ?_⟩
  · intro j hj pe hit
    rw [r14 j (hne j hj)] at hit
    obtain ⟨a1, a2⟩ := h.memP j hj pe hit
    exact ⟨by rw [r7 j (hne j hj)]; exact a1, by rw [r8 o j (hne j hj)]; exact a2⟩
  · intro j hj o'
    rw [r15, r8 o' j (hne j hj)]
    exact h.memX j hj o'
  · intro j p' hp'
    rw [hcore.2.1]
    by_cases hj : j = i
    · rw [hj] at hp' ⊢
      rw [r11] at hp'
      cases hp'
      obtain ⟨p0, a1, a2, a3⟩ := h.partRel i p hp
      exact ⟨p0, a1, a2.trans r12.symm, by rw [r13]; exact a3⟩
    · rw [r7 j hj] at hp'
      exact h.partRel j p' hp'
  · intro o' j
    rw [r9 o' j, hcore.2.1]; exact h.totE o' j
  · intro o' j
    rw [r10 o' j, hcore.2.1]; exact h.totB o' j
  · intro fl hfl
    rw [hcore.2.1] at hfl
    exact h.fwf fl hfl

theorem FInfo.item_congr {f f' : FInfo} (h : f'.fmap = f.fmap) (i : Nat) : f'.item i = f.item i := by
  unfold FInfo.item; rw [h]

/-- one visit of the wager loop -/
theorem visit_LInv (b0 : Book) (o : Nat) (ov mult : Dec) (mo : List Nat) (ms : List (Nat × Dec)) (thr : Int)
    (f : FInfo) (i : Nat) (rest : List Nat) (hmo : mo.Nodup) (h : LInv b0 o (i :: rest) f) :
    (visit o ov mult mo ms thr f i).err = true ∨ LInv b0 o rest (visit o ov mult mo ms thr f i) ∨
    ((visit o ov mult mo ms thr f i).payoutProfit.raw < PREC ∧ LInv b0 o [] (visit o ov mult mo ms thr f i)) := by
  unfold visit
  cases hitem : f.item i with
  | none => exact Or.inl rfl
  | some pe =>
    right
    simp only
    obtain ⟨rq, huq⟩ := h.pre
    have huq : f.uq = i :: (rest ++ rq) := huq
    obtain ⟨hgp, hge⟩ := h.memP i (List.mem_cons_self ..) pe hitem
    obtain ⟨hnd, hmem⟩ := h.q o f.uq (by simp [qvOf])
    have hnd' := hnd
    rw [huq, List.nodup_cons] at hnd'
    have hnotR : i ∉ rest := fun c => hnd'.1 (List.mem_append_left _ c)
    obtain ⟨_, _, e', he', hunf⟩ := hmem i (by rw [huq]; exact List.mem_cons_self ..)
    rw [hge] at he'
    cases he'
    obtain ⟨k1, k2, k3⟩ := Book.getExp_key hge
    have hpi := Book.getPart_idx hgp
    -- stage 1
    obtain ⟨Δb, Δπ, s1, s2, s3, s4, s5, s6, s7, s8, s9, s10, s11, s12, s13, s14, s15, s16, s17⟩ := stage1_spec o ov mult thr f pe
    generalize stage1 o ov mult thr f pe = x1 at s1 s2 s3 s4 s5 s6 s7 s8 s9 s10 s11 s12 s13 s14 s15 s16 s17 ⊢
    obtain ⟨p1, e1, cl, f1⟩ := x1
    simp only at s1 s2 s3 s4 s5 s6 s7 s8 s9 s10 s11 s12 s13 s14 s15 s16 s17
    have hS1 : BkSInv f1.book (fun _ => True) := BkSInv.of_stores h.s s7 s8 s9 s11 s12 (by rw [s10]) (by rw [s10]; exact h.s.sQ)
    have hgq1 : ∀ o', f1.book.getQueue o' = f.book.getQueue o' := fun o' => Book.getQueue_congr s10 o'
    have hge1 : ∀ o' j, f1.book.getExp o' j = f.book.getExp o' j := by intro o' j; unfold Book.getExp; rw [s8]
    have hgp1 : ∀ j, f1.book.getPart j = f.book.getPart j := by intro j; unfold Book.getPart; rw [s7]
    have hQ1 : QV f1.book (qvOf f1.book o f1.uq) := by
      apply QV.mono h.q s11
      intro o'' q' hq'
      have hq0 : qvOf f.book o f.uq o'' = some q' := by
        unfold qvOf at hq' ⊢
        rw [s14, hgq1] at hq'; exact hq'
      refine ⟨(h.q o'' q' hq0).1, fun j hj => Or.inl ⟨q', hq0, hj, ?_⟩⟩
      intro ⟨y, hy1, hy2⟩
      exact ⟨y, by rw [hge1]; exact hy1, hy2⟩
    have hfl : (f1.fulfs = f.fulfs ∧ Δb = 0 ∧ Δπ = 0) ∨ f1.fulfs = f.fulfs ++ [{ addr := pe.1.addr, idx := i, bet := Δb, profit := Δπ }] := by
      rw [← hpi]; exact s6
    have hsumI : sumBy (unfAt i) f.book.pexps ≥ 1 := by
      have := sumBy_ge_mem (unfAt i) _ (fun y _ => unfAt_nonneg i y) pe.2 k3
      rw [unfAt_eq k2, hunf] at this
      simpa using this
    have hnfP := h.s.nf i pe.1 trivial hgp
    cases cl with
    | true =>
      left
      -- stage 2
      obtain ⟨t1, t2, t3, t4, t5, t6, t7⟩ := stage2_closed o i mo ms thr p1 e1 f1 pe.1 pe.2 (rest ++ rq) hmo hS1 hQ1
        (by rw [hgq1]; exact h.hasQ) (by rw [s14]; exact huq) (by rw [hgp1]; exact hgp) ⟨s1.trans hpi, s3⟩
        (by rw [hge1]; exact hge) hunf (by
          intro o'
          rw [s16, hge1]
          exact h.memX i (List.mem_cons_self ..) o')
      generalize stage2 o mo ms thr (p1, e1, true, f1) = x2 at t1 t2 t3 t4 t5 t6 t7 ⊢
      obtain ⟨p2, e2, f2⟩ := x2
      simp only at t1 t2 t3 t4 t5 t6 t7
      have hL3 : LInv b0 o rest { f2 with book := (f2.book.setExp e2).setPart p2 } := by
        apply LInv.writeback h pe hgp hge hnotR p2 e2 true Δb Δπ (t4.trans s15) (t5.trans s16)
          (t1.parts.trans s7) (t1.hist.trans s9) (t1.pc.trans s11) (t1.uid.trans s13)
        · intro o' j hj; rw [t1.ge o' j hj, hge1]
        · exact t1.stored
        · intro o'; rw [t1.cur o', hge1]
        · exact t1.hasQ
        · exact t1.s
        · exact t1.rndI
        · rw [t3]; exact t1.q
        · exact ⟨t1.idx, t1.addr.trans s2, t1.tb.trans s4⟩
        · rw [t2, s5]
        · rw [t1.nfI, unfAt_eq k2, hunf, unfAt_eq (by rw [t2, s5]; exact k2), t2]
          simp
        · intro _; rw [t3]; exact hnd'.1
        · rw [t6]; exact hfl
        · exact ⟨rq, t3⟩
        · exact fun j hj => hj
      unfold stage3
      simp only
      split
      · rename_i hc
        simp only [Bool.and_eq_true, beq_iff_eq] at hc
        exact LInv.requeue (i := i) hL3 p2 e2 (by show Book.getPart _ i = some p2; rw [← t1.idx]; exact Book.getPart_setPart_self _ _) hc.2 hc.1
          (by show i ∉ f2.uq; rw [t3]; exact hnd'.1)
      · exact hL3
    | false =>
      right
      have hpp : f1.payoutProfit.raw < PREC := s17 rfl
      have hx2 : stage2 o mo ms thr (p1, e1, false, f1) = (p1, e1, f1) := by
        unfold stage2; simp
      rw [hx2]
      have hL3 : LInv b0 o [] { f1 with book := (f1.book.setExp e1).setPart p1 } := by
        apply LInv.writeback h pe hgp hge hnotR p1 e1 false Δb Δπ s15 s16 s7 s9 s11 s13
        · intro o' j _; exact hge1 o' j
        · rw [hge1]; exact hge
        · intro o'; rw [hge1]
        · rw [hgq1]; exact h.hasQ
        · exact hS1.weaken (fun _ _ => trivial)
        · exact hS1.rnd i trivial
        · exact hQ1
        · exact ⟨s1.trans hpi, s2, s4⟩
        · rw [s5, hunf]
        · rw [s8, ← hnfP, s3, unfAt_eq k2, hunf, unfAt_eq (by rw [s5]; exact k2), s5, hunf]
          simp
        · intro c; cases c
        · exact hfl
        · exact ⟨f1.uq, rfl⟩
        · intro j hj; cases hj
      unfold stage3
      simp only
      have hne0 : (p1.notFilled == 0) = false := by
        rw [s3]
        have : pe.1.notFilled ≠ 0 := by omega
        simpa using this
      simp only [hne0, Bool.false_and, Bool.false_eq_true, if_false]
      exact ⟨hpp, hL3⟩

end Sge.Core

namespace Sge.Core
open Sge Sge.Genesis

theorem loop_LInv (b0 : Book) (o : Nat) (ov mult : Dec) (mo : List Nat) (ms : List (Nat × Dec)) (thr : Int) (hmo : mo.Nodup) :
    ∀ (q : List Nat) (f : FInfo), LInv b0 o q f →
      (loop o ov mult mo ms thr q f).err = true ∨ LInv b0 o [] (loop o ov mult mo ms thr q f) := by
  intro q
  induction q with
  | nil => intro f h; exact Or.inr h
  | cons i rest ih =>
    intro f h
    unfold loop
    simp only
    have hv := visit_LInv b0 o ov mult mo ms thr f i rest hmo h
    split
    · rename_i he; exact Or.inl he
    · rename_i he
      split
      · rcases hv with hv | hv | hv
        · exact Or.inl hv
        · exact Or.inr hv.weaken
        · exact Or.inr hv.2
      · rename_i hc
        simp only [Bool.or_eq_true, decide_eq_true_eq, not_or] at hc
        rcases hv with hv | hv | hv
        · exact absurd hv he
        · exact ih _ hv
        · exact absurd hv.1 hc.1

theorem Book.find_exp (b : Book) (o i : Nat) : b.pexps.find? (fun x => x.odds == o && x.idx == i) = b.getExp o i := by
  unfold Book.getExp lookup
  have : (fun x : PExp => x.odds == o && x.idx == i) = (fun y => PExp.key y == [o, i]) := by
    funext x
    simp [PExp.key]
  rw [this]


/-- the loop invariant holds when the loop starts -/
theorem initFInfo_LInv (b : Book) (o betId : Nat) (A : Int) (P : Dec) (q : List Nat) (f0 : FInfo) (hI : QInv b)
    (hq : b.getQueue o = some q) (h0 : initFInfo b o betId A P q = some f0) : LInv b o q f0 := by
  unfold initFInfo at h0
  simp only [bind, Option.bind_eq_some_iff, pure, Option.some.injEq] at h0
  obtain ⟨_, _, _, _, _, _, _, _, rfl⟩ := h0
  obtain ⟨hS, hQ⟩ := hI
  refine ⟨hS, ?_, by show (b.getQueue o).isSome; rw [hq]; rfl, rfl, rfl, ⟨[], by simp⟩, ?_, ?_, ?_, ?_, ?_, ?_⟩
  · intro o' q' hq'
    unfold qvOf at hq'
    by_cases ho : o' = o
    · simp only [ho, if_true, Option.some.injEq] at hq'
      subst hq'
      rw [ho]; exact hQ o q hq
    · simp only [ho, if_false] at hq'
      exact hQ o' q' hq'
  · intro i hi pe hit
    unfold FInfo.item at hit
    simp only [Option.map_eq_some_iff] at hit
    obtain ⟨x, hx, rfl⟩ := hit
    rw [List.find?_map] at hx
    simp only [Option.map_eq_some_iff] at hx
    obtain ⟨p, hp, rfl⟩ := hx
    have hpm := List.mem_of_find?_eq_some hp
    have hpi : p.idx = i := by simpa using List.find?_some hp
    obtain ⟨_, _, e0, he0, _⟩ := (hQ o q hq).2 i hi
    constructor
    · show b.getPart i = some p
      rw [← hpi]; exact Book.mem_getPart hS.sP hpm
    · show b.getExp o i = some _
      have : (b.expsOfOdds o).find? (fun e => e.idx == p.idx) = some e0 := by
        unfold Book.expsOfOdds
        rw [List.find?_filter, hpi, ← he0, ← Book.find_exp]
        apply congrArg (fun pr => List.find? pr b.pexps)
        funext a
        by_cases h1 : a.odds = o <;> by_cases h2 : a.idx = i <;> simp [h1, h2]
      rw [this]; exact he0
  · intro i _ o'
    exact Book.find_exp b o' i
  · intro i p hp
    exact ⟨p, hp, rfl, by simp [sumBy]⟩
  · intro o' i
    show b.totE o' i = b.totE o' i + if o' = o then sumBy (fpAt i) [] else 0
    simp [sumBy]
  · intro o' i
    show b.totB o' i = b.totB o' i + if o' = o then sumBy (fbAt i) [] else 0
    simp [sumBy]
  · intro fl hfl
    cases hfl

/-- ProcessWager: the queue invariant is kept; every participation's total stake grows by the stakes of the
    backing parts that name it, its promised winnings / stake on the wagered outcome (current + past rounds) by
    the winnings / stakes of those parts; every backing part names a participation of the book and its depositor -/
theorem processWager_sums (b b' : Book) (o betId : Nat) (ov mult : Dec) (mo : List Nat) (ms : List (Nat × Dec))
    (thr A : Int) (P : Dec) (fulfs : List Fulf) (taken : Int) (hI : QInv b) (hmo : mo.Nodup)
    (h : processWager b o betId ov mult mo ms thr A P = some (b', fulfs, taken)) :
    QInv b' ∧ b'.partCount = b.partCount ∧ b'.uid = b.uid ∧
    (∀ i p', b'.getPart i = some p' →
      ∃ p0, b.getPart i = some p0 ∧ p0.addr = p'.addr ∧ p'.totalBet = p0.totalBet + sumBy (fbAt i) fulfs) ∧
    (∀ o' i, b'.totE o' i = b.totE o' i + if o' = o then sumBy (fpAt i) fulfs else 0) ∧
    (∀ o' i, b'.totB o' i = b.totB o' i + if o' = o then sumBy (fbAt i) fulfs else 0) ∧
    (∀ fl ∈ fulfs, ∃ p0, b.getPart fl.idx = some p0 ∧ p0.addr = fl.addr) := by
  unfold processWager at h
  simp only [bind, Option.bind_eq_some_iff] at h
  obtain ⟨q, hq, f0, hf0, h⟩ := h
  have hL0 := initFInfo_LInv b o betId A P q f0 hI hq hf0
  have hL := loop_LInv b o ov mult mo ms thr hmo q f0 hL0
  generalize loop o ov mult mo ms thr q f0 = fL at hL h
  unfold finishWager at h
  split at h
  · cases h
  · rename_i herr
    split at h
    · cases h
    · simp only [Option.some.injEq, Prod.mk.injEq] at h
      obtain ⟨rfl, rfl, _⟩ := h
      rcases hL with hL | hL
      · exact absurd hL herr
      · obtain ⟨k1, k2⟩ := Book.setQueue_keys fL.book o fL.uq hL.s.sQ hL.hasQ
        refine ⟨⟨BkSInv.of_stores hL.s rfl rfl rfl rfl rfl k1 k2, ?_⟩, hL.pc, hL.uid, hL.partRel, ?_, ?_, hL.fwf⟩
        · apply QV.mono hL.q (show (fL.book.setQueue o fL.uq).partCount = fL.book.partCount from rfl)
          intro o' q' hq'
          have hq0 : qvOf fL.book o fL.uq o' = some q' := by
            unfold qvOf
            by_cases ho : o' = o
            · rw [ho, Book.getQueue_setQueue_self] at hq'
              simp [ho, hq']
            · rw [Book.getQueue_setQueue_ne _ _ _ _ (Ne.symm ho)] at hq'
              simp [ho, hq']
          exact ⟨(hL.q o' q' hq0).1, fun j hj => Or.inl ⟨q', hq0, hj, id⟩⟩
        · intro o' i
          rw [(Book.totE_congr (b := fL.book) (b' := fL.book.setQueue o fL.uq) rfl rfl o' i).1]; exact hL.totE o' i
        · intro o' i
          rw [(Book.totE_congr (b := fL.book) (b' := fL.book.setQueue o fL.uq) rfl rfl o' i).2]; exact hL.totB o' i

end Sge.Core
