/-
  The store invariant `StI` behind `marketInv`, `houseInv` and `obInv` (Sge/Genesis.lean), and its preservation by the
  messages of x/market, x/house and x/bet.  (The end-blockers are in GenesisReachEnd.lean.)
-/
import SgeProofs.Lemmas.GenesisReachWager
import SgeProofs.Lemmas.CustodySettleDefs
namespace Sge.Core
open Sge Sge.Genesis

/-- the withdrawal was made from a stored deposit of the same depositor, market and participation -/
def HasDep (ds : List Deposit) (w : Withdrawal) : Prop :=
  ∃ d ∈ ds, d.depositor = w.addr ∧ d.market = w.market ∧ d.idx = w.idx

theorem HasDep.upsert {ds : List Deposit} {w : Withdrawal} (h : HasDep ds w) (x : Deposit) :
    HasDep (upsert Deposit.key x ds) w := by
  obtain ⟨d, hd, h1, h2, h3⟩ := h
  obtain ⟨d', hd', hk⟩ := upsert_keeps_key Deposit.key x d ds hd
  have : d'.depositor = d.depositor ∧ d'.market = d.market ∧ d'.idx = d.idx := by simpa [Deposit.key] using hk
  exact ⟨d', hd', this.1.trans h1, this.2.1.trans h2, this.2.2.trans h3⟩

/-- the store invariant of the four core modules -/
structure StI (s : State) : Prop where
  sm : Sorted Market.key s.markets
  sd : Sorted Deposit.key s.deposits
  sw : Sorted Withdrawal.key s.withdrawals
  wd : ∀ w ∈ s.withdrawals, HasDep s.deposits w
  sb : Sorted Book.key s.books
  bk : ∀ b ∈ s.books, BkI s.betCount b

/-- markets, deposits, withdrawals, books and the bet counter are the same -/
def Fr (s s' : State) : Prop :=
  s'.markets = s.markets ∧ s'.deposits = s.deposits ∧ s'.withdrawals = s.withdrawals ∧ s'.books = s.books ∧
  s'.betCount = s.betCount

theorem Fr.refl (s : State) : Fr s s := ⟨rfl, rfl, rfl, rfl, rfl⟩

theorem Fr.trans {a b c : State} (h1 : Fr a b) (h2 : Fr b c) : Fr a c :=
  ⟨h2.1.trans h1.1, h2.2.1.trans h1.2.1, h2.2.2.1.trans h1.2.2.1, h2.2.2.2.1.trans h1.2.2.2.1, h2.2.2.2.2.trans h1.2.2.2.2⟩

theorem StI.of_fr {s s' : State} (h : StI s) (e : Fr s s') : StI s' := by
  obtain ⟨a1, a2, a3, a4, a5, a6⟩ := h
  obtain ⟨e1, e2, e3, e4, e5⟩ := e
  exact ⟨by rw [e1]; exact a1, by rw [e2]; exact a2, by rw [e3]; exact a3, by rw [e2, e3]; exact a4, by rw [e4]; exact a5,
    by rw [e4, e5]; exact a6⟩

theorem bankSend_fr {s s' : State} {a b : Nat} {x : Int} (h : bankSend s a b x = some s') : Fr s s' := by
  obtain ⟨_, _, rfl⟩ := bankSend_shape h
  exact Fr.refl _

theorem grantStep_fr {s s' : State} {d : Bool} {g e k : Nat} {x : Int} (h : grantStep s d g e k x = some s') : Fr s s' := by
  obtain ⟨_, rfl⟩ := grantStep_shape h
  exact Fr.refl _

/-- one book is written (under its uid); the bet counter does not decrease -/
theorem StI.withBook {s s' : State} (h : StI s) (b' : Book) (hb : BkI s'.betCount b') (hn : s.betCount ≤ s'.betCount)
    (e1 : Sorted Market.key s'.markets) (e2 : Sorted Deposit.key s'.deposits) (e3 : Sorted Withdrawal.key s'.withdrawals)
    (e4 : ∀ w ∈ s'.withdrawals, HasDep s'.deposits w) (e5 : s'.books = upsert Book.key b' s.books) : StI s' := by
  refine ⟨e1, e2, e3, e4, by rw [e5]; exact upsert_sorted Book.key b' s.books h.sb, ?_⟩
  intro x hx
  rw [e5] at hx
  rcases upsert_mem_or Book.key b' x s.books hx with e | e
  · rw [e]; exact hb
  · exact (h.bk x e).mono hn

theorem StI.setBook {s : State} (h : StI s) (b' : Book) (hb : BkI s.betCount b') : StI (setBook s b') :=
  h.withBook b' hb (Nat.le_refl _) h.sm h.sd h.sw h.wd rfl

theorem StI.setMarket {s : State} (h : StI s) (m : Market) : StI (setMarket s m) := by
  obtain ⟨a1, a2, a3, a4, a5, a6⟩ := h
  exact ⟨upsert_sorted Market.key m s.markets a1, a2, a3, a4, a5, a6⟩

theorem StI.getBook {s : State} (h : StI s) {u : Nat} {b : Book} (hb : getBook s u = some b) : BkI s.betCount b :=
  h.bk b (getBook_mem hb).1

-- ---------------------------------------------------------------------------------------------
-- x/market

theorem allDistinct_pairwise : ∀ (l : List Nat), allDistinct l = true → l.Pairwise (· ≠ ·)
  | [], _ => List.Pairwise.nil
  | x :: xs, h => by
    simp only [allDistinct, Bool.and_eq_true, Bool.not_eq_true', List.contains_eq_mem, decide_eq_false_iff_not] at h
    rw [List.pairwise_cons]
    exact ⟨fun y hy e => h.1 (e ▸ hy), allDistinct_pairwise xs h.2⟩

theorem setAll_length {α : Type} (key : α → List Nat) (l store : List α)
    (hd : l.Pairwise (fun a b => (key a == key b) = false))
    (hn : ∀ a ∈ l, ∀ b ∈ store, (key b == key a) = false) : (setAll key l store).length = store.length + l.length := by
  induction l generalizing store with
  | nil => rfl
  | cons x xs ih =>
    rw [List.pairwise_cons] at hd
    unfold setAll
    simp only [List.foldl_cons]
    have := ih (upsert key x store) hd.2 (by
      intro a ha b hb
      rcases upsert_mem_or key x b store hb with e | e
      · rw [e]; exact hd.1 a ha
      · exact hn a (List.mem_cons_of_mem _ ha) b e)
    unfold setAll at this
    rw [this, upsert_length_new key x store (fun y hy => hn x (List.mem_cons_self ..) y hy), List.length_cons]
    omega

/-- the book of a new market: one empty fulfilment queue per outcome, nothing else -/
theorem newBook_BkI (n uid : Nat) (odds : List Nat) (hd : allDistinct odds = true) : BkI n (newBook uid odds) := by
  have hq : (newBook uid odds).queues = setAll qkey (odds.map fun o => (o, ([] : List Nat))) [] := rfl
  refine ⟨?_, List.Pairwise.nil, List.Pairwise.nil, List.Pairwise.nil, List.Pairwise.nil, ?_, Or.inl rfl,
    fun p hp => (by cases hp), fun h hh => (by cases hh), fun x hx => (by cases hx)⟩
  · rw [hq]
    exact setAll_sortedRes qkey _ [] List.Pairwise.nil
  · rw [hq, setAll_length qkey _ [] ?_ (fun a _ b hb => by cases hb)]
    · simp [newBook]
    · rw [List.pairwise_map]
      exact (allDistinct_pairwise odds hd).imp (fun {a b} hab => by simpa [qkey] using hab)

theorem marketAddO_stI {s s' : State} {c : Nat} {tk : Tk} {u st en : Nat} {o : List Nat} {stt : Nat}
    (hI : StI s) (h : marketAddO s c tk u st en o stt = some s') : StI s' := by
  unfold marketAddO at h
  simp only [bind, Option.bind_eq_some_iff, pure, Option.some.injEq] at h
  obtain ⟨_, _, _, _, _, _, _, _, _, h5, _, _, _, _, rfl⟩ := h
  exact (hI.setBook _ (newBook_BkI _ u o (chk_some h5))).setMarket _

theorem marketUpdateO_stI {s s' : State} {tk : Tk} {u st en stt : Nat}
    (hI : StI s) (h : marketUpdateO s tk u st en stt = some s') : StI s' := by
  unfold marketUpdateO at h
  simp only [bind, Option.bind_eq_some_iff, pure, Option.some.injEq] at h
  obtain ⟨_, _, _, _, _, _, _, _, _, _, rfl⟩ := h
  exact hI.setMarket _

theorem marketResolveO_stI {s s' : State} {tk : Tk} {u ts stt : Nat} {w : List Nat}
    (hI : StI s) (h : marketResolveO s tk u ts stt w = some s') : StI s' := by
  unfold marketResolveO at h
  simp only [bind, Option.bind_eq_some_iff, pure, Option.some.injEq] at h
  obtain ⟨_, _, _, _, _, _, _, _, _, _, rfl⟩ := h
  exact (hI.of_fr (s' := { s with mqueue := s.mqueue ++ [u] }) (Fr.refl _)).setMarket _

-- ---------------------------------------------------------------------------------------------
-- x/house: deposit

theorem WB.withE {ks E E' : List Nat} {oc pc n : Nat} {b : Book} (h : WB ks E oc pc n b)
    (hex : ∀ o ∈ E', ∃ e ∈ b.pexps, e.odds = o) : WB ks E' oc pc n b := by
  obtain ⟨a1, a2, a3, a4, a5, a6, a7, _, a9, a10⟩ := h
  exact ⟨a1, a2, a3, a4, a5, a6, a7, hex, a9, a10⟩

theorem WB.setPartCount {ks E : List Nat} {oc pc n : Nat} {b : Book} (h : WB ks E oc pc n b) (k : Nat) :
    WB ks E oc k n { b with partCount := k } := by
  obtain ⟨a1, a2, a3, a4, a5, a6, _, a8, a9, a10⟩ := h
  exact ⟨a1, a2, a3, a4, a5, a6, rfl, a8, a9, a10⟩

theorem initExposuresFold_WB {ks E : List Nat} {oc pc n : Nat} (idx : Nat) : ∀ (l : List (Nat × List Nat)) (b : Book),
    (∀ oq ∈ l, oq.1 ∈ ks) → WB ks E oc pc n b → WB ks E oc pc n (l.foldl (initExposures idx) b) := by
  intro l
  induction l with
  | nil => intro b _ h; exact h
  | cons x xs ih =>
    intro b hl h
    simp only [List.foldl_cons]
    apply ih _ (fun oq hoq => hl oq (List.mem_cons_of_mem _ hoq))
    unfold initExposures
    exact (h.setQueue _ _ (hl x (List.mem_cons_self ..))).setExp _

/-- after `initParticipationExposures` every outcome of the list has an exposure -/
theorem initExposuresFold_cover (idx : Nat) : ∀ (l : List (Nat × List Nat)) (b : Book) (o : Nat),
    (o ∈ l.map (·.1) ∨ ∃ e ∈ b.pexps, e.odds = o) → ∃ e ∈ (l.foldl (initExposures idx) b).pexps, e.odds = o := by
  intro l
  induction l with
  | nil =>
    intro b o h
    rcases h with h | h
    · cases h
    · exact h
  | cons x xs ih =>
    intro b o h
    simp only [List.foldl_cons]
    apply ih
    by_cases hx : x.1 = o
    · right
      exact ⟨_, upsert_mem_self PExp.key _ _, hx⟩
    · rcases h with h | ⟨e, he, heo⟩
      · left
        rcases List.mem_cons.mp h with e | e
        · exact absurd e.symm hx
        · exact e
      · right
        obtain ⟨e', h1, h2⟩ := setExp_keeps (b.setQueue x.1 (x.2 ++ [idx])) _ e he
        exact ⟨e', h1, h2.1.trans heo⟩

theorem addParticipation_BkI {n : Nat} {b : Book} (h : BkI n b) (addr : Nat) (liq fee : Int) :
    BkI n (b.addParticipation addr liq fee).1 := by
  have hw := h.toWB
  have hsh := addParticipation_shape b addr liq fee
  have hkeys : ∀ oq ∈ (b.setPart (b.newPart addr liq fee)).queues, oq.1 ∈ b.queues.map (·.1) :=
    fun oq hoq => List.mem_map.mpr ⟨oq, hoq, rfl⟩
  have h1 := initExposuresFold_WB (b.partCount + 1) (b.setPart (b.newPart addr liq fee)).queues
    (b.setPart (b.newPart addr liq fee)) hkeys (hw.setPart _)
  have h2 : ∀ o ∈ b.queues.map (·.1), ∃ e ∈ ((b.setPart (b.newPart addr liq fee)).queues.foldl
      (initExposures (b.partCount + 1)) (b.setPart (b.newPart addr liq fee))).pexps, e.odds = o :=
    fun o ho => initExposuresFold_cover _ _ _ o (Or.inl ho)
  have h3 := (h1.withE h2).setPartCount (b.partCount + 1)
  have hparts : (b.addParticipation addr liq fee).1.parts = upsert Part.key (b.newPart addr liq fee) b.parts := hsh.2.2
  refine BkI.ofWB (b := (b.addParticipation addr liq fee).1) h3 ?_ (Or.inr (fun o ho => ho)) ?_ ?_
  · rw [List.length_map]; exact h.ql
  · rw [hparts]; exact upsert_sorted Part.key _ b.parts h.sp
  · intro p hp
    rw [hparts] at hp
    rcases upsert_mem_or Part.key _ p b.parts hp with e | e
    · rw [e]
      show 1 ≤ b.partCount + 1 ∧ b.partCount + 1 ≤ b.partCount + 1
      omega
    · have := h.pi p e
      omega

theorem houseDepositO_stI {s : State} {r : State × Nat} {c : Nat} {tk : Tk} {m : Nat} {a : Int} {pd : Nat}
    (hI : StI s) (h : houseDepositO s c tk m a pd = some r) : StI r.1 := by
  unfold houseDepositO at h
  simp only [bind, Option.bind_eq_some_iff, pure, Option.some.injEq] at h
  obtain ⟨_, _, _, _, _, _, s1, h1, _, _, mk, _, b, hb, _, _, _, _, _, _, _, _, s2, h2, s3, h3, rfl⟩ := h
  obtain ⟨_, rfl⟩ := grantStep_shape h1
  obtain ⟨_, _, rfl⟩ := bankSend_shape h2
  obtain ⟨_, _, rfl⟩ := bankSend_shape h3
  have hbk : BkI s.betCount b := hI.bk b (getBook_mem hb).1
  refine hI.withBook _ (addParticipation_BkI hbk _ _ _) (Nat.le_refl _) hI.sm ?_ hI.sw ?_ rfl
  · exact upsert_sorted Deposit.key _ s.deposits hI.sd
  · intro w hw
    exact (hI.wd w hw).upsert _

-- ---------------------------------------------------------------------------------------------
-- x/house: withdrawal

theorem removeFromQueues_WB {ks E : List Nat} {oc pc n : Nat} (idx : Nat) : ∀ (l : List (Nat × List Nat)) (b b' : Book),
    (∀ oq ∈ l, oq.1 ∈ ks) → WB ks E oc pc n b → removeFromQueues idx l b = some b' → WB ks E oc pc n b' := by
  intro l
  induction l with
  | nil => intro b b' _ h hr; simp [removeFromQueues] at hr; rw [← hr]; exact h
  | cons x xs ih =>
    intro b b' hl h hr
    unfold removeFromQueues at hr
    split at hr
    · cases hr
    · exact ih _ _ (fun oq hoq => hl oq (List.mem_cons_of_mem _ hoq)) (h.setQueue _ _ (hl x (List.mem_cons_self ..))) hr

/-- back from `WB` to the book invariant when participations and counters are those of a book that has it -/
theorem BkI.ofWB_same {n n' : Nat} {b b' : Book} (h : BkI n b)
    (hw : WB (b.queues.map (·.1)) (needExp b.partCount (b.queues.map (·.1))) b.oddsCount b.partCount n' b')
    (sp : Sorted Part.key b'.parts) (pi : ∀ p ∈ b'.parts, 1 ≤ p.idx ∧ p.idx ≤ b.partCount) : BkI n' b' := by
  refine BkI.ofWB hw ?_ ?_ sp pi
  · rw [List.length_map]; exact h.ql
  · by_cases h0 : b.partCount = 0
    · exact Or.inl h0
    · right
      intro o ho
      unfold needExp
      rw [if_neg h0]
      exact ho

theorem withdraw_BkI {n : Nat} {b b' : Book} {idx : Nat} {w : Int} (h : BkI n b) (hw : b.withdraw idx w = some b') :
    BkI n b' := by
  unfold Book.withdraw at hw
  split at hw
  · cases hw
  · rename_i p hp
    have hb1 : BkI n (b.setPart { p with crl := p.crl - w, liq := p.liq - w }) := h.setPart _ (getPart_bound (p := p) h hp)
    simp only at hw
    split at hw
    · cases hw; exact hb1
    · have hparts := removeFromQueues_parts _ _ _ _ hw
      have hwb := removeFromQueues_WB idx _ _ _ (fun oq hoq => List.mem_map.mpr ⟨oq, hoq, rfl⟩) hb1.toWB hw
      refine BkI.ofWB_same hb1 hwb ?_ ?_
      · rw [hparts.1]; exact hb1.sp
      · rw [hparts.1]; exact hb1.pi

theorem houseWithdrawO_stI {s s' : State} {c : Nat} {tk : Tk} {m i md : Nat} {a : Int} {pd : Nat}
    (hI : StI s) (h : houseWithdrawO s c tk m i md a pd = some s') : StI s' := by
  unfold houseWithdrawO at h
  simp only [bind, Option.bind_eq_some_iff, pure, Option.some.injEq] at h
  obtain ⟨_, _, _, _, _, _, _, _, _, _, d, hd, b, hb, _, _, w, _, s1, hs1, p, _, s2, hs2, b', hb', rfl⟩ := h
  obtain ⟨_, rfl⟩ := grantStep_shape hs1
  obtain ⟨_, _, rfl⟩ := bankSend_shape hs2
  have hbk : BkI s.betCount b := hI.bk b (getBook_mem hb).1
  have hdk := lookup_mem hd
  have hdf : d.depositor = (if (pd != 0) = true then pd else c) ∧ d.market = m ∧ d.idx = i := by
    simpa [Deposit.key] using hdk.2
  refine hI.withBook b' (withdraw_BkI hbk hb') (Nat.le_refl _) hI.sm ?_ ?_ ?_ rfl
  · exact upsert_sorted Deposit.key _ s.deposits hI.sd
  · exact upsert_sorted Withdrawal.key _ s.withdrawals hI.sw
  · intro x hx
    rcases upsert_mem_or Withdrawal.key _ x s.withdrawals hx with e | e
    · rw [e]
      exact ⟨_, upsert_mem_self Deposit.key _ _, hdf.1, hdf.2.1, hdf.2.2⟩
    · exact (hI.wd x e).upsert _

-- ---------------------------------------------------------------------------------------------
-- x/bet: wager

theorem wagerO_stI {s s' : State} {c : Nat} {tk : Tk} {u : Nat} {a : Int} {pl : WagerPayload}
    (hI : StI s) (h : wagerO s c tk u a pl = some s') : StI s' := by
  unfold wagerO at h
  simp only [bind, Option.bind_eq_some_iff, pure, Option.some.injEq] at h
  obtain ⟨_, _, _, _, _, _, _, _, _, _, _, _, _, _, mk, _, _, _, _, _, _, _, _, _, _, _, _, _, ov, _, _, _, b, hb, r, hr, s1, hs1, s2, hs2, rfl⟩ := h
  obtain ⟨_, _, rfl⟩ := bankSend_shape hs1
  obtain ⟨_, _, rfl⟩ := bankSend_shape hs2
  obtain ⟨b', fulfs, taken⟩ := r
  have hbk : BkI s.betCount b := hI.bk b (getBook_mem hb).1
  have hwb := processWager_WB b b' _ _ _ _ _ _ _ _ _ fulfs taken (hbk.toWB.mono (Nat.le_succ _)) (Nat.le_add_left 1 _)
    (Nat.le_refl _) hr
  have hcu := processWager_custody b b' _ _ _ _ _ _ _ _ _ fulfs taken hbk.sp hr
  have hb' : BkI (s.betCount + 1) b' := by
    refine BkI.ofWB_same hbk hwb hcu.2.2.1 ?_
    intro q hq
    obtain ⟨q0, hq0, hc⟩ := hcu.2.2.2.2 q hq
    rw [hc.1]
    exact hbk.pi q0 hq0
  exact hI.withBook b' hb' (Nat.le_succ _) hI.sm hI.sd hI.sw hI.wd rfl

end Sge.Core
