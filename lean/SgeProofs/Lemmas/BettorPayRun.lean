/-
  Histories (C03, whole-history part): every bet record of a reachable state was stored by ONE accepted wager of the
  history and has since changed at most in status, result and settlement height.
-/
import SgeProofs.Lemmas.BettorPayStep
namespace Sge.Core
open Sge Sge.Genesis

theorem BpSame.fields {b0 b : Bet} (h : BpSame b0 b) :
    b.uid = b0.uid ∧ b.id = b0.id ∧ b.creator = b0.creator ∧ b.market = b0.market ∧ b.odds = b0.odds ∧
    b.oddsVal = b0.oddsVal ∧ b.amount = b0.amount ∧ b.fee = b0.fee ∧ b.fulfs = b0.fulfs := by
  unfold BpSame at h
  refine ⟨?_, ?_, ?_, ?_, ?_, ?_, ?_, ?_, ?_⟩ <;> rw [h]

/-- a bet record of a later state is a record of the start state up to the settlement fields, or was stored by one
    accepted wager of the history -/
theorem bp_bet_origin (s : State) (hI : BetIdx s) (ops : List Op) (b : Bet) (hb : b ∈ (run s ops).bets) :
    (∃ b0 ∈ s.bets, BpSame b0 b) ∨
    ∃ (pre post : List Op) (c : Nat) (tk : Tk) (u : Nat) (a : Int) (pl : WagerPayload) (nb : Bet),
      ops = pre ++ Op.wager c tk u a pl :: post ∧
      wagerO (run s pre) c tk u a pl = some (run s (pre ++ [Op.wager c tk u a pl])) ∧
      BpPlaced (run s pre) c u a pl (run s (pre ++ [Op.wager c tk u a pl])) nb ∧ BpSame nb b := by
  induction ops generalizing s with
  | nil => exact Or.inl ⟨b, hb, BpSame.refl b⟩
  | cons op rest ih =>
    have g := step_good s op hI
    rcases ih _ g.1 hb with ⟨b1, hb1, e1⟩ | ⟨pre, post, c, tk, u, a, pl, nb, e, hw, hp, hs⟩
    · rcases bp_step_bets s op hI b1 hb1 with ⟨b0, hb0, e0⟩ | ⟨c, tk, u, a, pl, rfl, hw, hp⟩
      · exact Or.inl ⟨b0, hb0, e0.trans e1⟩
      · exact Or.inr ⟨[], rest, c, tk, u, a, pl, b1, rfl, hw, hp, e1⟩
    · exact Or.inr ⟨op :: pre, post, c, tk, u, a, pl, nb, by rw [e]; rfl, hw, hp, hs⟩

/-- in every state reachable from a chain without bets the recorded stake of a bet is the sum of its backing parts -/
theorem bp_reach_stake (s : State) (hI : BetIdx s) (h0 : s.bets = []) (ops : List Op) (b : Bet)
    (hb : b ∈ (run s ops).bets) : b.amount = sumBet b.fulfs := by
  rcases bp_bet_origin s hI ops b hb with ⟨b0, hb0, _⟩ | ⟨_, _, _, _, _, _, _, nb, _, _, hp, hs⟩
  · rw [h0] at hb0; cases hb0
  · obtain ⟨_, _, _, _, _, _, e7, _, e9⟩ := hs.fields
    obtain ⟨_, _, _, _, _, _, _, _, _, _, hst, _⟩ := hp
    rw [e7, e9, hst]

end Sge.Core
