/-
  Reachability of the genesis invariant of x/reward (`rewardInv`, Sge/Genesis.lean), part 1: the genesis-level stores
  as a projection of the state of the x/reward model (`Sge.Reward.State`, lean/Sge/Reward.lean).
-/
import SgeProofs.Lemmas.Genesis
import SgeProofs.Lemmas.RewardStep
namespace Sge.Genesis
open Sge Sge.Core

/-- the opaque digests of the genesis-level records: any functions of the full records -/
structure grm_Digests where
  promoter : Sge.Reward.Promoter → Nat
  campaign : Sge.Reward.Campaign → Nat
  reward : Sge.Reward.Reward → Nat

def grm_campRec (d : grm_Digests) (c : Sge.Reward.Campaign) : Campaign :=
  { uid := c.uid, promoter := c.promoter, capCount := c.capCount, digest := d.campaign c }

def grm_rewRec (d : grm_Digests) (r : Sge.Reward.Reward) : Reward :=
  { uid := r.uid, campaign := r.campaign, receiver := r.receiver, digest := d.reward r }

def grm_catRec (x : Sge.Reward.CatIdx) : ByCat :=
  { promoterUid := x.promoter, receiver := x.addr, category := x.category, uid := x.uid }

def grm_statRec (x : Sge.Reward.Stat) : Nat × Nat × Nat := (x.campaign, x.addr, x.n)

/-- The seven KV stores of x/reward in a state of the model, each as its prefix scan (records in key order — the model
    keeps its collections in insertion order, `setAll … []` sorts them by store key).  This is what the harness sends
    as `L r…` lines at an export point (Driver/Genesis.lean). -/
def grm_stores (d : grm_Digests) (s : Sge.Reward.State) : RewardStores :=
  { promoters := setAll (fun (x : Nat × Nat) => [x.1]) (s.promoters.map (fun p => (p.uid, d.promoter p))) [],
    byAddress := setAll (fun (x : Nat × Nat) => [x.1]) s.byAddr [],
    campaigns := setAll (fun (c : Campaign) => [c.uid]) (s.campaigns.map (grm_campRec d)) [],
    rewards := setAll (fun (r : Reward) => [r.uid]) (s.rewards.map (grm_rewRec d)) [],
    byCategory := setAll ByCat.key (s.byCat.map grm_catRec) [],
    byCampaign := setAll (fun (x : Nat × Nat) => [x.1, x.2]) s.byCamp [],
    grantStats := setAll statKey (s.stats.map grm_statRec) [] }


-- =============================================================================================
-- keyed stores: writing a list of records with pairwise different keys is a permutation

theorem grm_mem_upsert_sub {α : Type} (key : α → List Nat) (x z : α) (l : List α) (h : z ∈ upsert key x l) :
    z = x ∨ z ∈ l := by
  rcases (mem_upsert key x z l).mp h with h | h | h
  · exact Or.inl h
  · exact Or.inr h.1
  · exact Or.inr h.1

theorem grm_mem_setAll_sub {α : Type} (key : α → List Nat) (l store : List α) (z : α) (h : z ∈ setAll key l store) :
    z ∈ l ∨ z ∈ store := by
  induction l generalizing store with
  | nil => exact Or.inr h
  | cons x xs ih =>
    have h' : z ∈ setAll key xs (upsert key x store) := h
    rcases ih (upsert key x store) h' with h1 | h1
    · exact Or.inl (List.mem_cons_of_mem _ h1)
    · rcases grm_mem_upsert_sub key x z store h1 with h2 | h2
      · exact Or.inl (h2 ▸ List.mem_cons_self)
      · exact Or.inr h2

theorem grm_upsert_perm {α : Type} (key : α → List Nat) (x : α) (l : List α)
    (h : ∀ y ∈ l, (key y == key x) = false) : (upsert key x l).Perm (x :: l) := by
  induction l with
  | nil => exact List.Perm.refl _
  | cons y ys ih =>
    unfold upsert
    rw [h y List.mem_cons_self]
    simp only [Bool.false_eq_true, ↓reduceIte]
    split
    · exact List.Perm.refl _
    · exact ((ih (fun z hz => h z (List.mem_cons_of_mem _ hz))).cons y).trans (List.Perm.swap x y ys)

theorem grm_setAll_perm {α : Type} (key : α → List Nat) (l store : List α)
    (hd : l.Pairwise (fun a b => (key a == key b) = false))
    (hn : ∀ a ∈ l, ∀ b ∈ store, (key b == key a) = false) : (setAll key l store).Perm (l ++ store) := by
  induction l generalizing store with
  | nil => exact List.Perm.refl _
  | cons x xs ih =>
    rw [List.pairwise_cons] at hd
    have hx := grm_upsert_perm key x store (hn x List.mem_cons_self)
    have h1 := ih (upsert key x store) hd.2 (by
      intro a ha b hb
      rcases grm_mem_upsert_sub key x b store hb with e | hb
      · rw [e]; exact hd.1 a ha
      · exact hn a (List.mem_cons_of_mem _ ha) b hb)
    have e : setAll key (x :: xs) store = setAll key xs (upsert key x store) := rfl
    rw [e]
    exact h1.trans ((List.Perm.append_left xs hx).trans List.perm_middle)

/-- sorting a list with pairwise different keys -/
theorem grm_sort_perm {α : Type} (key : α → List Nat) (l : List α)
    (hd : l.Pairwise (fun a b => (key a == key b) = false)) : (setAll key l []).Perm l := by
  have := grm_setAll_perm key l [] hd (by intro a _ b hb; cases hb)
  simpa using this

theorem grm_sort_sorted {α : Type} (key : α → List Nat) (l : List α) : Sorted key (setAll key l []) :=
  setAll_sortedRes key l [] (by simp [Sorted])

theorem grm_hasDup_false {α : Type} (f : α → Nat) (l : List α) (h : l.Pairwise (fun a b => f a ≠ f b)) :
    hasDup (l.map f) = false := by
  induction l with
  | nil => rfl
  | cons x xs ih =>
    rw [List.pairwise_cons] at h
    simp only [List.map_cons, hasDup, Bool.or_eq_false_iff]
    refine ⟨?_, ih h.2⟩
    cases hc : (xs.map f).contains (f x)
    · rfl
    · rw [List.contains_iff_mem] at hc
      obtain ⟨y, hy, hfy⟩ := List.mem_map.mp hc
      exact absurd hfy.symm (h.1 y hy)

/-- in a sorted store, a field that determines the record is duplicate free -/
theorem grm_sorted_pairwise_ne {α : Type} (key : α → List Nat) (f : α → Nat) (L : List α) (hs : Sorted key L)
    (hinj : ∀ a ∈ L, ∀ b ∈ L, f a = f b → a = b) : L.Pairwise (fun a b => f a ≠ f b) := by
  unfold Sorted at hs
  apply hs.imp_of_mem
  intro a b ha hb hlt e
  have := hinj a ha b hb e
  rw [this, ltL_irrefl] at hlt
  cases hlt

-- ---------------------------------------------------------------------------------------------
-- lookups (`find?`) in a store keyed by one number

theorem grm_find_of_mem {α : Type} (f : α → Nat) (L : List α) (hs : Sorted (fun x => [f x]) L) (a : α) (ha : a ∈ L) :
    L.find? (fun x => f x == f a) = some a := by
  cases hf : L.find? (fun x => f x == f a) with
  | none =>
    have := List.find?_eq_none.mp hf a ha
    simp at this
  | some b =>
    have hb := List.mem_of_find?_eq_some hf
    have hp := List.find?_some hf
    have e : f b = f a := by simpa using hp
    rw [sorted_mem_key_inj _ L hs b a hb ha (by simp [e])]

theorem grm_find_none {α : Type} (f : α → Nat) (L : List α) (k : Nat) (h : ∀ x ∈ L, f x ≠ k) :
    L.find? (fun x => f x == k) = none := by
  rw [List.find?_eq_none]
  intro x hx
  simpa using h x hx

end Sge.Genesis

namespace Sge.Reward
open Sge

-- ---------------------------------------------------------------------------------------------
-- the invariant of the model state behind `rewardInv`

/-- every grant counter belongs to a campaign with a cap count -/
def grm_StatCap (cs : List Sge.Reward.Campaign) (st : List Sge.Reward.Stat) : Prop :=
  ∀ x ∈ st, ∃ c, Sge.Reward.getC cs x.campaign = some c ∧ 0 < c.capCount

/-- `Inv` of C12 (reward uids unique, both indexes list exactly the rewards, counters = number of rewards for capped
    campaigns) plus: campaign uids, promoter addresses and counter keys are unique (they are store keys), counters are
    positive and exist only for campaigns with a cap count -/
structure grm_RwI (s : Sge.Reward.State) : Prop where
  base : Sge.Reward.Inv s
  campKeys : s.campaigns.Pairwise (fun a b => a.uid ≠ b.uid)
  addrKeys : s.byAddr.Pairwise (fun a b => a.1 ≠ b.1)
  statKeys : s.stats.Pairwise (fun a b => ¬ (a.campaign = b.campaign ∧ a.addr = b.addr))
  statPos : ∀ x ∈ s.stats, 0 < x.n
  statCap : grm_StatCap s.campaigns s.stats

/-- every by-category index entry belongs to a stored reward whose campaign is stored and whose campaign's promoter
    address has a promoter-by-address record; `P` relates the promoter uid of that record to the uid the entry is filed
    under -/
def grm_CatOKL (P : Nat → Nat → Prop) (cs : List Sge.Reward.Campaign) (ba : List (Nat × Nat)) (rs : List Sge.Reward.Reward)
    (bc : List Sge.Reward.CatIdx) : Prop :=
  ∀ y ∈ bc, ∃ r ∈ rs, r.uid = y.uid ∧ ∃ c, Sge.Reward.getC cs r.campaign = some c ∧
    ∃ pa, Sge.Reward.getA ba c.promoter = some pa ∧ P pa.2 y.promoter

/-- the by-category index entry of a reward is filed under the promoter uid that the promoter-by-address store has
    for the promoter address of the reward's campaign (conjunct 7 of `rewardInv` on the model state) -/
def grm_CatOK (s : Sge.Reward.State) : Prop := grm_CatOKL Eq s.campaigns s.byAddr s.rewards s.byCat

/-- … under some promoter uid (the lookups of the genesis import succeed) -/
def grm_CatSome (s : Sge.Reward.State) : Prop := grm_CatOKL (fun _ _ => True) s.campaigns s.byAddr s.rewards s.byCat

theorem grm_setBy_keys {α : Type} (key : α → Nat) (xs : List α) (v : α) (h : xs.Pairwise (fun a b => key a ≠ key b)) :
    (setBy key xs v).Pairwise (fun a b => key a ≠ key b) := by
  induction xs with
  | nil => simp [setBy]
  | cons y ys ih =>
    rw [List.pairwise_cons] at h
    unfold setBy
    split
    · rename_i hy
      rw [List.pairwise_cons]
      exact ⟨fun z hz => by rw [← hy]; exact h.1 z hz, h.2⟩
    · rename_i hy
      rw [List.pairwise_cons]
      refine ⟨fun z hz => ?_, ih h.2⟩
      rcases mem_setBy key ys v z hz with e | hz
      · rw [e]; exact hy
      · exact h.1 z hz

theorem grm_mem_setStat (xs : List Stat) (c a n : Nat) (x : Stat) (h : x ∈ setStat xs c a n) : x = ⟨c, a, n⟩ ∨ x ∈ xs := by
  induction xs with
  | nil => simp [setStat] at h; exact Or.inl h
  | cons y ys ih =>
    unfold setStat at h
    split at h
    · rcases List.mem_cons.mp h with e | hm
      · exact Or.inl e
      · exact Or.inr (List.mem_cons_of_mem _ hm)
    · rcases List.mem_cons.mp h with e | hm
      · exact Or.inr (e ▸ List.mem_cons_self)
      · rcases ih hm with e | m
        · exact Or.inl e
        · exact Or.inr (List.mem_cons_of_mem _ m)

theorem grm_setStat_keys (xs : List Stat) (c a n : Nat)
    (h : xs.Pairwise (fun x y => ¬ (x.campaign = y.campaign ∧ x.addr = y.addr))) :
    (setStat xs c a n).Pairwise (fun x y => ¬ (x.campaign = y.campaign ∧ x.addr = y.addr)) := by
  induction xs with
  | nil => simp [setStat]
  | cons y ys ih =>
    rw [List.pairwise_cons] at h
    unfold setStat
    split
    · rename_i hy
      rw [List.pairwise_cons]
      refine ⟨fun z hz => ?_, h.2⟩
      have := h.1 z hz
      rw [hy.1, hy.2] at this
      exact this
    · rename_i hy
      rw [List.pairwise_cons]
      refine ⟨fun z hz => ?_, ih h.2⟩
      rcases grm_mem_setStat ys c a n z hz with e | hz
      · rw [e]; exact hy
      · exact h.1 z hz

theorem grm_statCap_setC_same {cs : List Campaign} {st : List Stat} {c c' : Campaign} (h : grm_StatCap cs st)
    (hget : getC cs c.uid = some c) (hu : c'.uid = c.uid) (hc : c'.capCount = c.capCount) : grm_StatCap (setC cs c') st := by
  intro x hx
  obtain ⟨c0, h0, hp⟩ := h x hx
  rw [getC_setC]
  split
  · rename_i e
    refine ⟨c', rfl, ?_⟩
    rw [e, hu, hget] at h0
    cases h0
    rw [hc]; exact hp
  · exact ⟨c0, h0, hp⟩

theorem grm_statCap_setC_new {cs : List Campaign} {st : List Stat} {c' : Campaign} (h : grm_StatCap cs st)
    (hget : getC cs c'.uid = none) : grm_StatCap (setC cs c') st := by
  intro x hx
  obtain ⟨c0, h0, hp⟩ := h x hx
  rw [getC_setC]
  split
  · rename_i e
    rw [e, hget] at h0
    cases h0
  · exact ⟨c0, h0, hp⟩

theorem grm_rwI_exec {s s' : State} {op : Op} (hI : grm_RwI s) (h : exec s op = .ok s') : grm_RwI s' := by
  have hb := inv_exec hI.base h
  cases op with
  | time t =>
    simp only [exec, Except.ok.injEq] at h; subst h
    exact ⟨hb, hI.campKeys, hI.addrKeys, hI.statKeys, hI.statPos, hI.statCap⟩
  | createPromoter m =>
    obtain ⟨_, _, rfl⟩ := createPromoter_ok h
    exact ⟨hb, hI.campKeys, grm_setBy_keys _ _ _ hI.addrKeys, hI.statKeys, hI.statPos, hI.statCap⟩
  | setConf m =>
    obtain ⟨p, _, _, _, rfl⟩ := setPromoterConf_ok h
    exact ⟨hb, hI.campKeys, hI.addrKeys, hI.statKeys, hI.statPos, hI.statCap⟩
  | createCampaign m =>
    obtain ⟨funds, gs, bank, _, _, hnone, _, _, _, _, _, rfl⟩ := createCampaign_ok h
    exact ⟨hb, grm_setBy_keys _ _ _ hI.campKeys, hI.addrKeys, hI.statKeys, hI.statPos,
      grm_statCap_setC_new hI.statCap hnone⟩
  | updateCampaign m =>
    obtain ⟨c, gs, hget, _, _, _, _, hcase⟩ := updateCampaign_ok h
    have hu := getC_uid _ _ _ hget
    rw [← hu] at hget
    rcases hcase with ⟨t, bank, _, _, _, rfl⟩ | ⟨_, rfl⟩
    · exact ⟨hb, grm_setBy_keys _ _ _ hI.campKeys, hI.addrKeys, hI.statKeys, hI.statPos,
        grm_statCap_setC_same hI.statCap hget rfl rfl⟩
    · exact ⟨hb, grm_setBy_keys _ _ _ hI.campKeys, hI.addrKeys, hI.statKeys, hI.statPos,
        grm_statCap_setC_same hI.statCap hget rfl rfl⟩
  | withdraw m =>
    obtain ⟨c, gs, amount, bank, hget, _, _, _, _, _, _, _, rfl⟩ := withdrawFunds_ok h
    have hu := getC_uid _ _ _ hget
    rw [← hu] at hget
    exact ⟨hb, grm_setBy_keys _ _ _ hI.campKeys, hI.addrKeys, hI.statKeys, hI.statPos,
      grm_statCap_setC_same hI.statCap hget rfl rfl⟩
  | grant m =>
    obtain ⟨c, r, caps, d, _, hget, _, _, _, _, hcaps, _, _, rfl⟩ := grantReward_ok h
    obtain ⟨_, hst, _⟩ := grantCaps_ok hcaps
    have hu := getC_uid _ _ _ hget
    rw [← hu] at hget
    have hsc : grm_StatCap s.campaigns (capStats s c m.receiver) := by
      unfold capStats
      split
      · rename_i hpos
        intro x hx
        rcases grm_mem_setStat _ _ _ _ x hx with e | hx
        · rw [e]; exact ⟨c, hget, hpos⟩
        · exact hI.statCap x hx
      · exact hI.statCap
    refine ⟨hb, grm_setBy_keys _ _ _ hI.campKeys, hI.addrKeys, ?_, ?_, ?_⟩
    · show caps.1.Pairwise _
      rw [hst]
      unfold capStats
      split
      · exact grm_setStat_keys _ _ _ _ hI.statKeys
      · exact hI.statKeys
    · show ∀ x ∈ caps.1, 0 < x.n
      rw [hst]
      unfold capStats
      split
      · intro x hx
        rcases grm_mem_setStat _ _ _ _ x hx with e | hx
        · rw [e]; exact Nat.succ_pos _
        · exact hI.statPos x hx
      · exact hI.statPos
    · show grm_StatCap (setC s.campaigns _) caps.1
      rw [hst]
      exact grm_statCap_setC_same hsc hget rfl rfl
  | authzGrant a b k l e =>
    obtain ⟨_, _, rfl⟩ := authzGrant_ok h
    exact ⟨hb, hI.campKeys, hI.addrKeys, hI.statKeys, hI.statPos, hI.statCap⟩
  | authzRevoke a b k =>
    have := authzRevoke_ok h; subst this
    exact ⟨hb, hI.campKeys, hI.addrKeys, hI.statKeys, hI.statPos, hI.statCap⟩
  | putBet b =>
    obtain ⟨_, rfl⟩ := putBet_ok h
    exact ⟨hb, hI.campKeys, hI.addrKeys, hI.statKeys, hI.statPos, hI.statCap⟩
  | createSub o =>
    have := createSub_ok h; subst this
    exact ⟨hb, hI.campKeys, hI.addrKeys, hI.statKeys, hI.statPos, hI.statCap⟩
  | bankSend f t a =>
    obtain ⟨b, _, _, _, rfl⟩ := bankSend_ok h
    exact ⟨hb, hI.campKeys, hI.addrKeys, hI.statKeys, hI.statPos, hI.statCap⟩

theorem grm_rwI_step {s : State} (op : Op) (hI : grm_RwI s) : grm_RwI (step s op) := by
  rcases step_eq s op with ⟨s', h, e⟩ | e
  · rw [e]; exact grm_rwI_exec hI h
  · rw [e]; exact hI

theorem grm_rwI_run {s : State} (ops : List Op) (hI : grm_RwI s) : grm_RwI (run s ops) := by
  induction ops generalizing s with
  | nil => exact hI
  | cons op rest ih => exact ih (grm_rwI_step op hI)

theorem grm_rwI_init (fixed cf : Bool) (bal : Nat → Int) : grm_RwI { init fixed bal with codecFixed := cf } := by
  have h := inv_init fixed bal
  refine ⟨⟨h.addrOk, h.promOk, h.avail, h.once, h.idxCat, h.idxCamp, h.cap⟩, ?_, ?_, ?_, ?_, ?_⟩
  · exact List.Pairwise.nil
  · exact List.Pairwise.nil
  · exact List.Pairwise.nil
  · intro x hx; cases hx
  · intro x hx; cases hx

-- ---------------------------------------------------------------------------------------------
-- the by-category index and the promoter-by-address store

/-- `createPromoter` is sent by an address that is not a promoter address yet -/
def grm_freshOp (s : State) : Op → Bool
  | .createPromoter m => (getA s.byAddr m.creator).isNone
  | _ => true

/-- no address of the history creates a promoter while it already is the address of one -/
def grm_freshRun : State → List Op → Bool
  | _, [] => true
  | s, op :: rest => grm_freshOp s op && grm_freshRun (step s op) rest

theorem grm_catOKL_setC {P : Nat → Nat → Prop} {cs : List Campaign} {ba : List (Nat × Nat)} {rs : List Reward} {bc : List CatIdx} {c c' : Campaign}
    (h : grm_CatOKL P cs ba rs bc) (hget : getC cs c.uid = some c) (hu : c'.uid = c.uid) (hp : c'.promoter = c.promoter) :
    grm_CatOKL P (setC cs c') ba rs bc := by
  intro y hy
  obtain ⟨r, hr, hru, c0, hc0, pa, hpa, hpp⟩ := h y hy
  refine ⟨r, hr, hru, ?_⟩
  rw [getC_setC]
  split
  · rename_i e
    rw [e, hu, hget] at hc0
    cases hc0
    exact ⟨c', rfl, pa, by rw [hp]; exact hpa, hpp⟩
  · exact ⟨c0, hc0, pa, hpa, hpp⟩

theorem grm_catOKL_setC_new {P : Nat → Nat → Prop} {cs : List Campaign} {ba : List (Nat × Nat)} {rs : List Reward} {bc : List CatIdx} {c' : Campaign}
    (h : grm_CatOKL P cs ba rs bc) (hget : getC cs c'.uid = none) : grm_CatOKL P (setC cs c') ba rs bc := by
  intro y hy
  obtain ⟨r, hr, hru, c0, hc0, pa, hpa, hpp⟩ := h y hy
  refine ⟨r, hr, hru, ?_⟩
  rw [getC_setC]
  split
  · rename_i e
    rw [e, hget] at hc0
    cases hc0
  · exact ⟨c0, hc0, pa, hpa, hpp⟩

theorem grm_catOKL_setA {P : Nat → Nat → Prop} {cs : List Campaign} {ba : List (Nat × Nat)} {rs : List Reward} {bc : List CatIdx} {v : Nat × Nat}
    (h : grm_CatOKL P cs ba rs bc) (hfresh : getA ba v.1 = none ∨ ∀ a b, P a b) : grm_CatOKL P cs (setA ba v) rs bc := by
  intro y hy
  obtain ⟨r, hr, hru, c0, hc0, pa, hpa, hpp⟩ := h y hy
  refine ⟨r, hr, hru, c0, hc0, ?_⟩
  unfold getA setA at *
  rw [getBy_setBy]
  split
  · rename_i e
    rcases hfresh with hfresh | hall
    · rw [e, hfresh] at hpa
      cases hpa
    · exact ⟨v, rfl, hall _ _⟩
  · exact ⟨pa, hpa, hpp⟩

theorem grm_catOKL_exec {P : Nat → Nat → Prop} (hrefl : ∀ a, P a a) {s s' : State} {op : Op}
    (hC : grm_CatOKL P s.campaigns s.byAddr s.rewards s.byCat) (hf : grm_freshOp s op = true ∨ ∀ a b, P a b)
    (h : exec s op = .ok s') : grm_CatOKL P s'.campaigns s'.byAddr s'.rewards s'.byCat := by
  cases op with
  | time t =>
    simp only [exec, Except.ok.injEq] at h; subst h
    exact hC
  | createPromoter m =>
    obtain ⟨_, _, rfl⟩ := createPromoter_ok h
    refine grm_catOKL_setA hC ?_
    rcases hf with hf | hall
    · left
      simp only [grm_freshOp, Option.isNone_iff_eq_none] at hf
      exact hf
    · exact Or.inr hall
  | setConf m =>
    obtain ⟨p, _, _, _, rfl⟩ := setPromoterConf_ok h
    exact hC
  | createCampaign m =>
    obtain ⟨funds, gs, bank, _, _, hnone, _, _, _, _, _, rfl⟩ := createCampaign_ok h
    exact grm_catOKL_setC_new hC hnone
  | updateCampaign m =>
    obtain ⟨c, gs, hget, _, _, _, _, hcase⟩ := updateCampaign_ok h
    have hu := getC_uid _ _ _ hget
    rw [← hu] at hget
    rcases hcase with ⟨t, bank, _, _, _, rfl⟩ | ⟨_, rfl⟩
    · exact grm_catOKL_setC hC hget rfl rfl
    · exact grm_catOKL_setC hC hget rfl rfl
  | withdraw m =>
    obtain ⟨c, gs, amount, bank, hget, _, _, _, _, _, _, _, rfl⟩ := withdrawFunds_ok h
    have hu := getC_uid _ _ _ hget
    rw [← hu] at hget
    exact grm_catOKL_setC hC hget rfl rfl
  | grant m =>
    obtain ⟨c, r, caps, d, _, hget, _, _, _, _, hcaps, _, _, rfl⟩ := grantReward_ok h
    obtain ⟨_, _, pa, p, hpa, hp, hc2, _⟩ := grantCaps_ok hcaps
    have hu := getC_uid _ _ _ hget
    have hget' : getC s.campaigns c.uid = some c := by rw [hu]; exact hget
    have hpu : p.uid = pa.2 := getBy_key _ _ _ _ hp
    -- the old entries: the reward list grows, the campaign keeps its promoter
    have h1 : grm_CatOKL P s.campaigns s.byAddr
        (s.rewards ++ [{ uid := m.uid, creator := m.creator, receiver := m.receiver, campaign := m.campaign, amt := r.2 }])
        (s.byCat ++ [{ promoter := caps.2, addr := m.receiver, category := c.category, uid := m.uid }]) := by
      intro y hy
      rcases List.mem_append.mp hy with hy | hy
      · obtain ⟨r0, hr0, hru, c0, hc0, pa0, hpa0, hpp⟩ := hC y hy
        exact ⟨r0, List.mem_append_left _ hr0, hru, c0, hc0, pa0, hpa0, hpp⟩
      · simp only [List.mem_singleton] at hy
        subst hy
        refine ⟨_, List.mem_append_right _ List.mem_cons_self, rfl, c, hget, pa, hpa, ?_⟩
        show P pa.2 caps.2
        rw [hc2, hpu]
        exact hrefl _
    exact grm_catOKL_setC h1 hget' rfl rfl
  | authzGrant a b k l e =>
    obtain ⟨_, _, rfl⟩ := authzGrant_ok h
    exact hC
  | authzRevoke a b k =>
    have := authzRevoke_ok h; subst this
    exact hC
  | putBet b =>
    obtain ⟨_, rfl⟩ := putBet_ok h
    exact hC
  | createSub o =>
    have := createSub_ok h; subst this
    exact hC
  | bankSend f t a =>
    obtain ⟨b, _, _, _, rfl⟩ := bankSend_ok h
    exact hC

theorem grm_catOK_exec {s s' : State} {op : Op} (hC : grm_CatOK s) (hf : grm_freshOp s op = true)
    (h : exec s op = .ok s') : grm_CatOK s' :=
  grm_catOKL_exec (fun _ => rfl) hC (Or.inl hf) h

theorem grm_catSome_exec {s s' : State} {op : Op} (hC : grm_CatSome s) (h : exec s op = .ok s') : grm_CatSome s' :=
  grm_catOKL_exec (fun _ => trivial) hC (Or.inr (fun _ _ => trivial)) h

theorem grm_catSome_step {s : State} (op : Op) (hC : grm_CatSome s) : grm_CatSome (step s op) := by
  rcases step_eq s op with ⟨s', h, e⟩ | e
  · rw [e]; exact grm_catSome_exec hC h
  · rw [e]; exact hC

theorem grm_catSome_run {s : State} (ops : List Op) (hC : grm_CatSome s) : grm_CatSome (run s ops) := by
  induction ops generalizing s with
  | nil => exact hC
  | cons op rest ih => exact ih (grm_catSome_step op hC)

theorem grm_catOK_step {s : State} (op : Op) (hC : grm_CatOK s) (hf : grm_freshOp s op = true) : grm_CatOK (step s op) := by
  rcases step_eq s op with ⟨s', h, e⟩ | e
  · rw [e]; exact grm_catOK_exec hC hf h
  · rw [e]; exact hC

theorem grm_catOK_run {s : State} (ops : List Op) (hC : grm_CatOK s) (hf : grm_freshRun s ops = true) :
    grm_CatOK (run s ops) := by
  induction ops generalizing s with
  | nil => exact hC
  | cons op rest ih =>
    unfold grm_freshRun at hf
    rw [Bool.and_eq_true] at hf
    exact ih (grm_catOK_step op hC hf.1) hf.2

/-- the senders of the `createPromoter` messages of a history -/
def grm_promoterCreators : List Op → List Nat
  | [] => []
  | .createPromoter m :: rest => m.creator :: grm_promoterCreators rest
  | _ :: rest => grm_promoterCreators rest

/-- the promoter-by-address store is written by `createPromoter` only, under the sender's address -/
theorem grm_exec_byAddr {s s' : State} {op : Op} (h : exec s op = .ok s') :
    s'.byAddr = s.byAddr ∨ ∃ m, op = .createPromoter m ∧ s'.byAddr = setA s.byAddr (m.creator, m.uid) := by
  cases op with
  | time t => simp only [exec, Except.ok.injEq] at h; subst h; exact Or.inl rfl
  | createPromoter m => obtain ⟨_, _, rfl⟩ := createPromoter_ok h; exact Or.inr ⟨m, rfl, rfl⟩
  | setConf m => obtain ⟨p, _, _, _, rfl⟩ := setPromoterConf_ok h; exact Or.inl rfl
  | createCampaign m => obtain ⟨funds, gs, bank, _, _, _, _, _, _, _, _, rfl⟩ := createCampaign_ok h; exact Or.inl rfl
  | updateCampaign m =>
    obtain ⟨c, gs, _, _, _, _, _, hcase⟩ := updateCampaign_ok h
    rcases hcase with ⟨t, bank, _, _, _, rfl⟩ | ⟨_, rfl⟩ <;> exact Or.inl rfl
  | withdraw m => obtain ⟨c, gs, amount, bank, _, _, _, _, _, _, _, _, rfl⟩ := withdrawFunds_ok h; exact Or.inl rfl
  | grant m => obtain ⟨c, r, caps, d, _, _, _, _, _, _, _, _, _, rfl⟩ := grantReward_ok h; exact Or.inl rfl
  | authzGrant a b k l e => obtain ⟨_, _, rfl⟩ := authzGrant_ok h; exact Or.inl rfl
  | authzRevoke a b k => have := authzRevoke_ok h; subst this; exact Or.inl rfl
  | putBet b => obtain ⟨_, rfl⟩ := putBet_ok h; exact Or.inl rfl
  | createSub o => have := createSub_ok h; subst this; exact Or.inl rfl
  | bankSend f t a => obtain ⟨b, _, _, _, rfl⟩ := bankSend_ok h; exact Or.inl rfl

theorem grm_freshRun_of_nodup (ops : List Op) (s : State)
    (h0 : ∀ x ∈ s.byAddr, x.1 ∉ grm_promoterCreators ops) (hn : (grm_promoterCreators ops).Nodup) :
    grm_freshRun s ops = true := by
  induction ops generalizing s with
  | nil => rfl
  | cons op rest ih =>
    unfold grm_freshRun
    rw [Bool.and_eq_true]
    constructor
    · cases op with
      | createPromoter m =>
        show (getA s.byAddr m.creator).isNone = true
        cases hg : getA s.byAddr m.creator with
        | none => rfl
        | some x =>
          exfalso
          have hm : x ∈ s.byAddr := getBy_mem _ _ _ _ hg
          have hk : x.1 = m.creator := getBy_key _ _ _ _ hg
          apply h0 x hm
          rw [hk]
          exact List.mem_cons_self
      | _ => rfl
    · -- the rest of the history
      have hrest : (grm_promoterCreators rest).Nodup ∧
          (∀ a ∈ grm_promoterCreators rest, a ∈ grm_promoterCreators (op :: rest)) ∧
          (∀ m, op = .createPromoter m → m.creator ∉ grm_promoterCreators rest) := by
        cases op with
        | createPromoter m =>
          have hn' : (m.creator :: grm_promoterCreators rest).Nodup := hn
          rw [List.nodup_cons] at hn'
          exact ⟨hn'.2, fun a ha => List.mem_cons_of_mem _ ha, fun m' e => by cases e; exact hn'.1⟩
        | _ => exact ⟨hn, fun a ha => ha, fun m' e => by cases e⟩
      apply ih _ _ hrest.1
      intro x hx hmem
      rcases step_eq s op with ⟨s', he, e⟩ | e
      · rw [e] at hx
        rcases grm_exec_byAddr he with hb | ⟨m, hop, hb⟩
        · rw [hb] at hx
          exact h0 x hx (hrest.2.1 _ hmem)
        · rw [hb] at hx
          rcases mem_setBy _ _ _ _ hx with e1 | hx
          · rw [e1] at hmem
            exact hrest.2.2 m hop hmem
          · exact h0 x hx (hrest.2.1 _ hmem)
      · rw [e] at hx
        exact h0 x hx (hrest.2.1 _ hmem)

-- ---------------------------------------------------------------------------------------------
-- the repaired variant (`promoterFixed`): `CreatePromoter` refuses an address that already belongs to a promoter

theorem grm_exec_promoterFixed {s s' : State} {op : Op} (h : exec s op = .ok s') : s'.promoterFixed = s.promoterFixed := by
  cases op with
  | time t => simp only [exec, Except.ok.injEq] at h; subst h; rfl
  | createPromoter m => obtain ⟨_, _, rfl⟩ := createPromoter_ok h; rfl
  | setConf m => obtain ⟨p, _, _, _, rfl⟩ := setPromoterConf_ok h; rfl
  | createCampaign m => obtain ⟨_, _, _, _, _, _, _, _, _, _, _, rfl⟩ := createCampaign_ok h; rfl
  | updateCampaign m =>
    obtain ⟨c, gs, _, _, _, _, _, hcase⟩ := updateCampaign_ok h
    rcases hcase with ⟨_, _, _, _, _, rfl⟩ | ⟨_, rfl⟩ <;> rfl
  | withdraw m => obtain ⟨_, _, _, _, _, _, _, _, _, _, _, _, rfl⟩ := withdrawFunds_ok h; rfl
  | grant m => obtain ⟨_, _, _, _, _, _, _, _, _, _, _, _, _, rfl⟩ := grantReward_ok h; rfl
  | authzGrant a b k l e => obtain ⟨_, _, rfl⟩ := authzGrant_ok h; rfl
  | authzRevoke a b k => have := authzRevoke_ok h; subst this; rfl
  | putBet b => obtain ⟨_, rfl⟩ := putBet_ok h; rfl
  | createSub o => have := createSub_ok h; subst this; rfl
  | bankSend f t a => obtain ⟨b, _, _, _, rfl⟩ := bankSend_ok h; rfl

theorem grm_step_promoterFixed (s : State) (op : Op) : (step s op).promoterFixed = s.promoterFixed := by
  rcases step_eq s op with ⟨s', h, e⟩ | e
  · rw [e]; exact grm_exec_promoterFixed h
  · rw [e]

theorem grm_run_promoterFixed (s : State) (ops : List Op) : (run s ops).promoterFixed = s.promoterFixed := by
  induction ops generalizing s with
  | nil => rfl
  | cons op rest ih =>
    show (run (step s op) rest).promoterFixed = s.promoterFixed
    rw [ih, grm_step_promoterFixed]

/-- the three variant flags are constants of a history (`fixed`, `codecFixed`: RewardStep.lean) -/
theorem grm_run_flags (s : State) (ops : List Op) :
    (run s ops).fixed = s.fixed ∧ (run s ops).codecFixed = s.codecFixed ∧ (run s ops).promoterFixed = s.promoterFixed :=
  ⟨run_fixed s ops, run_codecFixed s ops, grm_run_promoterFixed s ops⟩

/-- repaired `CreatePromoter`: success implies that the sender had no promoter-by-address record -/
theorem grm_createPromoter_fresh {s s' : State} {m : PromoterMsg} (h : createPromoter s m = .ok s')
    (hp : s.promoterFixed = true) : getA s.byAddr m.creator = none := by
  unfold createPromoter at h
  invert h
  cases hg : getA s.byAddr m.creator with
  | none => rfl
  | some x => simp_all

theorem grm_freshOp_of_fixed {s s' : State} {op : Op} (hp : s.promoterFixed = true) (h : exec s op = .ok s') :
    grm_freshOp s op = true := by
  cases op with
  | createPromoter m =>
    show (getA s.byAddr m.creator).isNone = true
    rw [grm_createPromoter_fresh h hp]
    rfl
  | _ => rfl

theorem grm_catOK_step_fixed {s : State} (op : Op) (hC : grm_CatOK s) (hp : s.promoterFixed = true) :
    grm_CatOK (step s op) := by
  rcases step_eq s op with ⟨s', h, e⟩ | e
  · rw [e]; exact grm_catOK_exec hC (grm_freshOp_of_fixed hp h) h
  · rw [e]; exact hC

/-- on the repaired variant the by-category index stays filed under the right promoter in EVERY history -/
theorem grm_catOK_run_fixed {s : State} (ops : List Op) (hC : grm_CatOK s) (hp : s.promoterFixed = true) :
    grm_CatOK (run s ops) := by
  induction ops generalizing s with
  | nil => exact hC
  | cons op rest ih =>
    exact ih (grm_catOK_step_fixed op hC hp) (by rw [grm_step_promoterFixed]; exact hp)

theorem grm_rwI_init' (fixed cf pf : Bool) (bal : Nat → Int) :
    grm_RwI { init fixed bal with codecFixed := cf, promoterFixed := pf } := by
  have h := inv_init fixed bal
  refine ⟨⟨h.addrOk, h.promOk, h.avail, h.once, h.idxCat, h.idxCamp, h.cap⟩, ?_, ?_, ?_, ?_, ?_⟩
  · exact List.Pairwise.nil
  · exact List.Pairwise.nil
  · exact List.Pairwise.nil
  · intro x hx; cases hx
  · intro x hx; cases hx

end Sge.Reward
