/-
  The payout of one `settleParticipation` call in a state that satisfies the whole-history invariants: the amounts,
  expressed over the bets of the market (all of which are settled at that moment), and the exact balance changes.
-/
import SgeProofs.Lemmas.ReturnsSettle
import SgeProofs.Properties.C04
namespace Sge.Core
open Sge Sge.Genesis

-- ---------------------------------------------------------------------------------------------
-- sums

theorem ret_sumBy_sub {α : Type} (f g : α → Int) (l : List α) : sumBy (fun x => f x - g x) l = sumBy f l - sumBy g l := by
  induction l with
  | nil => rfl
  | cons x xs ih => rw [sumBy_cons, sumBy_cons, sumBy_cons, ih]; omega

/-- stakes of the backing parts naming participation `i` in the bets of market `u` whose result is LOST -/
def lostStakes (bets : List Bet) (u i : Nat) : Int :=
  sumBy (fun t => if t.market == u && t.result == BR_LOST then sumBy (fbAt i) t.fulfs else 0) bets
/-- winnings promised by the backing parts naming participation `i` to the bets of market `u` whose result is WON -/
def wonProfits (bets : List Bet) (u i : Nat) : Int :=
  sumBy (fun t => if t.market == u && t.result == BR_WON then sumBy (fpAt i) t.fulfs else 0) bets

/-- once every bet of the market is settled, what the settled bets have realised is: stakes of the lost bets'
    parts minus winnings of the won bets' parts, over ALL bets of the market -/
theorem ret_real_all_settled (bets : List Bet) (u i : Nat) (h : ∀ t ∈ bets, t.market = u → t.status = BS_SETTLED) :
    sumBy (betRealAt u i) bets = lostStakes bets u i - wonProfits bets u i := by
  unfold lostStakes wonProfits
  rw [← ret_sumBy_sub]
  apply sumBy_congr
  intro t ht
  unfold betRealAt
  by_cases hm : t.market = u
  · have hs := h t ht hm
    by_cases hl : t.result = BR_LOST
    · simp [hm, hs, hl, BR_LOST, BR_WON]
    · by_cases hw : t.result = BR_WON
      · simp [hm, hs, hw, BR_LOST, BR_WON]
      · simp [hm, hs, hl, hw]
  · simp [hm]

-- ---------------------------------------------------------------------------------------------
-- the bank

theorem ret_transfer_bal {bal bal' : List (Nat × Int)} {a b : Nat} {x : Int} (h : transfer bal a b x = some bal')
    (hab : a ≠ b) (c : Nat) :
    getBal bal' c = getBal bal c - (if c = a then x else 0) + (if c = b then x else 0) := by
  obtain ⟨_, t1, t2, t3⟩ := transfer_spec h hab
  by_cases hca : c = a
  · subst hca
    simp only [if_true, if_neg hab]
    rw [t1]; omega
  · by_cases hcb : c = b
    · subst hcb
      simp only [if_true, if_neg hca]
      rw [t2]; omega
    · simp only [if_neg hca, if_neg hcb]
      rw [t3 c hca hcb]; omega

-- ---------------------------------------------------------------------------------------------
-- the facts the payout theorem needs of a state; they only read books, bets, the pending index, markets and the
-- market queue, so they also hold in the middle of the participation loop, where only balances have moved

structure PayInv (s : State) : Prop where
  ret : RetInv s
  ob : ObInv s
  sinv : SInv s
  partsUser : ∀ b ∈ s.books, ∀ p ∈ b.parts, isModuleAcc p.addr = false

theorem PayInv.of_eq {s s' : State} (h : PayInv s) (hk : s'.books = s.books) (ht : s'.bets = s.bets)
    (hc : s'.betCount = s.betCount) (hp : s'.pending = s.pending) (hm : s'.markets = s.markets)
    (hq : s'.mqueue = s.mqueue) : PayInv s' :=
  ⟨h.ret.of_eq hk ht, h.ob.of_eq hk ht hc (by rw [hm]; exact h.ob.mkt), h.sinv.of_eq hk ht hp hm hq,
    by rw [hk]; exact h.partsUser⟩

theorem PayInv.of_invs {s : State} (hS : SettleInv s) (hO : ObInv s) (hR : RetInv s) : PayInv s :=
  ⟨hR, hO, hS.toSInv, hS.partsUser⟩

/-- who receives the participation fee -/
def feeDest (p : Part) (m : Market) : Nat := if p.feeToDepositor m then p.addr else m.creator

/-- the amount the pool pays for participation `p` of market `u`, over the bets of the market -/
def payAmount (bets : List Bet) (u : Nat) (m : Market) (p : Part) : Int :=
  if m.status = MS_DECLARED then p.liq + lostStakes bets u p.idx - wonProfits bets u p.idx else p.liq

/-- total stake of the backing parts naming participation `i` over the bets of market `u` -/
def backedStake (bets : List Bet) (u i : Nat) : Int := sumBy (betStakeAt u i) bets

/-- ONE PAYMENT. `settleParticipation` is called, in a state that satisfies the whole-history invariants, on a
    participation `p` of a book that left the active state. Then every bet of the market is settled; the pool pays
    the depositor exactly liquidity + stakes of the lost bets' parts naming `p` − winnings of the won bets' parts
    naming `p` (declared result) or exactly the liquidity (cancelled / aborted); the house-fee collector pays the
    fee to the depositor iff the market was cancelled / aborted or the parts naming `p` carry no stake in total,
    else to the market creator; no other balance moves; the book gets the paid record. -/
theorem ret_pay_exact {s : State} {b0 bk : Book} {p : Part} {m : Market} {r : State × Book}
    (hI : PayInv s) (hb0 : b0 ∈ s.books) (hst : b0.status ≠ OB_ACTIVE) (hp : p ∈ b0.parts)
    (hm : getMarket s b0.uid = some m) (h : settlePart s bk p m = some r) :
    (∀ t ∈ s.bets, t.market = b0.uid → t.status = BS_SETTLED) ∧
    isResolvedStatus m.status = true ∧
    p.payout m = payAmount s.bets b0.uid m p ∧
    (p.feeToDepositor m = true ↔ (m.status ≠ MS_DECLARED ∨ backedStake s.bets b0.uid p.idx = 0)) ∧
    (∀ a, getBal r.1.bal a = getBal s.bal a
        + (if a = p.addr then payAmount s.bets b0.uid m p else 0) + (if a = feeDest p m then p.fee else 0)
        - (if a = ACC_POOL then payAmount s.bets b0.uid m p else 0) - (if a = ACC_HOUSEFEE then p.fee else 0)) ∧
    p.isSettled = false ∧ r.2 = bk.setPart (p.paidRec m) := by
  have hsP := (hI.ob.qinv b0 hb0).s.sP
  have hgp : b0.getPart p.idx = some p := Book.mem_getPart hsP hp
  have hall : ∀ t ∈ s.bets, t.market = b0.uid → t.status = BS_SETTLED := by
    intro t ht htm
    have := hI.sinv.closedNoOpen b0 hb0 hst t ht htm
    unfold Bet.isOpen at this
    simpa using this
  have hpay : p.payout m = payAmount s.bets b0.uid m p := by
    unfold Part.payout payAmount
    by_cases hd : m.status = MS_DECLARED
    · simp only [hd, beq_self_eq_true, if_true]
      rw [hI.ret.prof b0 hb0 p.idx p hgp, ret_real_all_settled s.bets b0.uid p.idx hall]
      omega
    · have : (m.status == MS_DECLARED) = false := by simpa using hd
      simp [this, hd]
  have hfee : p.feeToDepositor m = true ↔ (m.status ≠ MS_DECLARED ∨ backedStake s.bets b0.uid p.idx = 0) := by
    unfold Part.feeToDepositor backedStake
    rw [← hI.ob.tb b0 hb0 p.idx p hgp]
    by_cases hd : m.status = MS_DECLARED
    · simp [hd]
    · have : (m.status == MS_DECLARED) = false := by simpa using hd
      simp [this, hd]
  obtain ⟨hun, _, hrec⟩ := ret_settlePart_rec h
  have hpu := hI.partsUser b0 hb0 p hp
  have hmu := hI.sinv.creatorsUser m (getMarket_mem hm)
  obtain ⟨n1, _, n3⟩ := isModuleAcc_false_ne hpu
  obtain ⟨_, _, c3⟩ := isModuleAcc_false_ne hmu
  refine ⟨hall, ?_, hpay, hfee, ?_, hun, hrec⟩
  · exact (c04_settle_participation h).2.1
  · intro a
    rw [← hpay]
    unfold settlePart at h
    simp only [bind, Option.bind_eq_some_iff] at h
    obtain ⟨_, _, _, _, s1, h1, h⟩ := h
    obtain ⟨bal1, ht1, rfl⟩ := bankSend_shape h1
    have e1 := ret_transfer_bal ht1 (Ne.symm n1) a
    unfold feeDest
    split at h
    · rename_i hc
      simp only [bind, Option.bind_eq_some_iff, pure, Option.some.injEq] at h
      obtain ⟨s2, h2, rfl⟩ := h
      obtain ⟨bal2, ht2, rfl⟩ := bankSend_shape h2
      have e2 := ret_transfer_bal ht2 (Ne.symm n3) a
      rw [if_pos hc]
      show getBal bal2 a = _
      rw [e2, e1]
      omega
    · rename_i hc
      simp only [bind, Option.bind_eq_some_iff, pure, Option.some.injEq] at h
      obtain ⟨s2, h2, rfl⟩ := h
      obtain ⟨bal2, ht2, rfl⟩ := bankSend_shape h2
      have e2 := ret_transfer_bal ht2 (Ne.symm c3) a
      rw [if_neg hc]
      show getBal bal2 a = _
      rw [e2, e1]
      omega

end Sge.Core
