/-
  Whole-history bookkeeping of the order book against the bets (property C10): the state invariant `ObInv`
  (queue well-formedness of every book + the sums that tie participations and exposures to the backing parts of
  the bets + well-formed backing parts) and its preservation by every operation of the core slice.
-/
import SgeProofs.Lemmas.ObWager
import SgeProofs.Lemmas.PermSets
namespace Sge.Core
open Sge Sge.Genesis

-- ---------------------------------------------------------------------------------------------
-- what the bets say

/-- stake of the backing parts of bet `t` that name participation `i` of market `u` -/
def betStakeAt (u i : Nat) (t : Bet) : Int := if t.market == u then sumBy (fbAt i) t.fulfs else 0
/-- winnings promised by participation `i` of market `u` to bet `t`, if the bet is on outcome `o` -/
def betProfitAt (u o i : Nat) (t : Bet) : Int := if t.market == u && t.odds == o then sumBy (fpAt i) t.fulfs else 0
/-- stake backed by participation `i` of market `u` for bet `t`, if the bet is on outcome `o` -/
def betStakeOAt (u o i : Nat) (t : Bet) : Int := if t.market == u && t.odds == o then sumBy (fbAt i) t.fulfs else 0

/-- the whole-history invariant of the order-book / bet records -/
structure ObInv (s : State) : Prop where
  sB : Sorted Book.key s.books
  sT : Sorted Bet.key s.bets
  ids : ∀ t ∈ s.bets, t.id ≤ s.betCount
  mkt : ∀ m ∈ s.markets, allDistinct m.odds = true
  qinv : ∀ b ∈ s.books, QInv b
  tb : ∀ b ∈ s.books, ∀ i p, b.getPart i = some p → p.totalBet = sumBy (betStakeAt b.uid i) s.bets
  tE : ∀ b ∈ s.books, ∀ o i, b.totE o i = sumBy (betProfitAt b.uid o i) s.bets
  tB : ∀ b ∈ s.books, ∀ o i, b.totB o i = sumBy (betStakeOAt b.uid o i) s.bets
  wf : ∀ t ∈ s.bets, ∃ b, getBook s t.market = some b ∧ ∀ fl ∈ t.fulfs, ∃ p, b.getPart fl.idx = some p ∧ p.addr = fl.addr

/-- `b'` is `b` after an update that does not touch the bookkeeping against the bets: participations keep
    their total stake and depositor (new ones start at zero), exposure totals are unchanged -/
structure Ext (b b' : Book) : Prop where
  uid : b'.uid = b.uid
  qinv : QInv b → QInv b'
  gp : ∀ i p', b'.getPart i = some p' →
    (∃ p, b.getPart i = some p ∧ p'.totalBet = p.totalBet ∧ p'.addr = p.addr) ∨ (b.getPart i = none ∧ p'.totalBet = 0)
  gp' : ∀ i p, b.getPart i = some p → ∃ p', b'.getPart i = some p' ∧ p'.addr = p.addr
  tot : ∀ o i, b'.totE o i = b.totE o i ∧ b'.totB o i = b.totB o i

theorem Ext.refl (b : Book) : Ext b b :=
  ⟨rfl, id, fun _ p' h => Or.inl ⟨p', h, rfl, rfl⟩, fun _ p h => ⟨p, h, rfl⟩, fun _ _ => ⟨rfl, rfl⟩⟩

theorem Ext.trans {a b c : Book} (h1 : Ext a b) (h2 : Ext b c) : Ext a c := by
  refine ⟨h2.uid.trans h1.uid, fun h => h2.qinv (h1.qinv h), ?_, ?_, fun o i => ⟨(h2.tot o i).1.trans (h1.tot o i).1, (h2.tot o i).2.trans (h1.tot o i).2⟩⟩
  · intro i p'' hp''
    rcases h2.gp i p'' hp'' with ⟨p', hp', e1, e2⟩ | ⟨hn, hz⟩
    · rcases h1.gp i p' hp' with ⟨p, hp, e3, e4⟩ | ⟨hn, hz⟩
      · exact Or.inl ⟨p, hp, e1.trans e3, e2.trans e4⟩
      · exact Or.inr ⟨hn, e1.trans hz⟩
    · right
      refine ⟨?_, hz⟩
      cases ha : a.getPart i with
      | none => rfl
      | some p =>
        obtain ⟨p', hp', _⟩ := h1.gp' i p ha
        rw [hn] at hp'; cases hp'
  · intro i p hp
    obtain ⟨p', hp', e1⟩ := h1.gp' i p hp
    obtain ⟨p'', hp'', e2⟩ := h2.gp' i p' hp'
    exact ⟨p'', hp'', e2.trans e1⟩

/-- overwriting a participation without changing its counters, total stake and depositor -/
theorem Ext.setPart (b : Book) (p' p : Part) (hp : b.getPart p'.idx = some p) (hn : p'.notFilled = p.notFilled)
    (ht : p'.totalBet = p.totalBet) (ha : p'.addr = p.addr) : Ext b (b.setPart p') := by
  refine ⟨rfl, ?_, ?_, ?_, fun _ _ => ⟨rfl, rfl⟩⟩
  · intro hq
    refine ⟨?_, hq.q⟩
    apply BkSInv.setPart hq.s p' p hp
    · intro j _
      refine ⟨fun hj => ?_, fun _ => trivial⟩
      rw [hn, hj]
      exact hq.s.nf p'.idx p trivial hp
    · intro j _ _
      exact hq.s.rnd j trivial
  · intro i q hq
    by_cases hi : p'.idx = i
    · rw [← hi, Book.getPart_setPart_self] at hq
      cases hq
      exact Or.inl ⟨p, by rw [← hi]; exact hp, ht, ha⟩
    · rw [Book.getPart_setPart_ne _ _ _ hi] at hq
      exact Or.inl ⟨q, hq, rfl, rfl⟩
  · intro i q hq
    by_cases hi : p'.idx = i
    · rw [← hi] at hq ⊢
      rw [hp] at hq
      cases hq
      exact ⟨p', Book.getPart_setPart_self _ _, ha⟩
    · exact ⟨q, by rw [Book.getPart_setPart_ne _ _ _ hi]; exact hq, rfl⟩

/-- a change of the book status -/
theorem Ext.status (b : Book) (st : Nat) : Ext b { b with status := st } := by
  refine ⟨rfl, ?_, fun _ p' h => Or.inl ⟨p', h, rfl, rfl⟩, fun _ p h => ⟨p, h, rfl⟩, fun _ _ => ⟨rfl, rfl⟩⟩
  intro hq
  exact ⟨BkSInv.of_stores hq.s rfl rfl rfl rfl rfl rfl hq.s.sQ, hq.q⟩

theorem getBook_setBook_self (s : State) (b : Book) : getBook (setBook s b) b.uid = some b :=
  lookup_upsert_self Book.key b s.books

theorem getBook_setBook_ne (s : State) (b : Book) (u : Nat) (h : b.uid ≠ u) : getBook (setBook s b) u = getBook s u :=
  lookup_upsert_ne Book.key b [u] s.books (by simp [Book.key, h])

theorem mem_getBook {s : State} (hs : Sorted Book.key s.books) {b : Book} (h : b ∈ s.books) : getBook s b.uid = some b :=
  mem_lookup Book.key b s.books hs h

/-- no backing part names an index that is not a participation of the book -/
theorem ObInv.stake_zero {s : State} (h : ObInv s) (b : Book) (hb : b ∈ s.books) (i : Nat) (hi : b.getPart i = none) :
    sumBy (betStakeAt b.uid i) s.bets = 0 := by
  apply sumBy_zeroQ
  intro t ht
  unfold betStakeAt
  split
  · rename_i hm
    have hm : t.market = b.uid := by simpa using hm
    obtain ⟨bk, hbk, hfl⟩ := h.wf t ht
    rw [hm, mem_getBook h.sB hb] at hbk
    cases hbk
    apply sumBy_zeroQ
    intro fl hflm
    obtain ⟨p, hp, _⟩ := hfl fl hflm
    unfold fbAt
    have : fl.idx ≠ i := fun c => by rw [c, hi] at hp; cases hp
    simp [this]
  · rfl

/-- replacing a stored book by an extension of it keeps the invariant -/
theorem ObInv.setBook {s : State} (h : ObInv s) (b b' : Book) (hb : getBook s b'.uid = some b) (hx : Ext b b') :
    ObInv (setBook s b') := by
  obtain ⟨hbm, hbu⟩ := getBook_eq_some s _ b hb
  have hmem : ∀ x ∈ (Sge.Core.setBook s b').books, x = b' ∨ (x ∈ s.books ∧ x.uid ≠ b'.uid) := by
    intro x hx'
    rcases (mem_upsert_iff Book.key b' x s.books h.sB).mp hx' with e | ⟨e1, e2⟩
    · exact Or.inl e
    · exact Or.inr ⟨e1, by simpa [Book.key] using e2⟩
  refine ⟨upsert_sorted Book.key b' s.books h.sB, h.sT, h.ids, h.mkt, ?_, ?_, ?_, ?_, ?_⟩
  · intro x hx'
    rcases hmem x hx' with rfl | ⟨e, _⟩
    · exact hx.qinv (h.qinv b hbm)
    · exact h.qinv x e
  · intro x hx' i p' hp'
    show _ = sumBy _ s.bets
    rcases hmem x hx' with rfl | ⟨e, _⟩
    · rw [hx.uid]
      rcases hx.gp i p' hp' with ⟨p, hp, e1, _⟩ | ⟨hn, hz⟩
      · rw [e1]; exact h.tb b hbm i p hp
      · rw [hz, h.stake_zero b hbm i hn]
    · exact h.tb x e i p' hp'
  · intro x hx' o i
    show _ = sumBy _ s.bets
    rcases hmem x hx' with rfl | ⟨e, _⟩
    · rw [hx.uid, (hx.tot o i).1]; exact h.tE b hbm o i
    · exact h.tE x e o i
  · intro x hx' o i
    show _ = sumBy _ s.bets
    rcases hmem x hx' with rfl | ⟨e, _⟩
    · rw [hx.uid, (hx.tot o i).2]; exact h.tB b hbm o i
    · exact h.tB x e o i
  · intro t ht
    obtain ⟨bk, hbk, hfl⟩ := h.wf t ht
    by_cases hm : b'.uid = t.market
    · refine ⟨b', by rw [← hm]; exact getBook_setBook_self s b', ?_⟩
      rw [← hm, hb] at hbk
      cases hbk
      intro fl hflm
      obtain ⟨p, hp, ha⟩ := hfl fl hflm
      obtain ⟨p', hp', ha'⟩ := hx.gp' fl.idx p hp
      exact ⟨p', hp', ha'.trans ha⟩
    · exact ⟨bk, by rw [getBook_setBook_ne s b' t.market hm]; exact hbk, hfl⟩

/-- the invariant only reads books, bets, the bet counter and the outcome lists of the markets -/
theorem ObInv.of_eq {s s' : State} (h : ObInv s) (hk : s'.books = s.books) (ht : s'.bets = s.bets)
    (hc : s'.betCount = s.betCount) (hm : ∀ m ∈ s'.markets, allDistinct m.odds = true) : ObInv s' := by
  have hg : ∀ u, getBook s' u = getBook s u := fun u => getBook_congr hk u
  exact ⟨by rw [hk]; exact h.sB, by rw [ht]; exact h.sT, by rw [ht, hc]; exact h.ids, hm, by rw [hk]; exact h.qinv,
    by rw [hk, ht]; exact h.tb, by rw [hk, ht]; exact h.tE, by rw [hk, ht]; exact h.tB,
    by rw [ht]; intro t htm; obtain ⟨b, hb, hfl⟩ := h.wf t htm; exact ⟨b, by rw [hg]; exact hb, hfl⟩⟩

end Sge.Core

namespace Sge.Core
open Sge Sge.Genesis

/-- rewriting a stored bet without touching market, outcome and backing parts (settlement) -/
theorem ObInv.setBet {s s' : State} (h : ObInv s) (t t' : Bet) (hl : lookup Bet.key (Bet.key t') s.bets = some t)
    (hm : t'.market = t.market) (ho : t'.odds = t.odds) (hf : t'.fulfs = t.fulfs) (hid : t'.id = t.id)
    (hk : s'.books = s.books) (ht : s'.bets = upsert Bet.key t' s.bets) (hc : s'.betCount = s.betCount)
    (hmk : s'.markets = s.markets) : ObInv s' := by
  have hg : ∀ u, getBook s' u = getBook s u := fun u => getBook_congr hk u
  have htm := (lookup_memQ hl).1
  have hsum : ∀ g : Bet → Int, g t' = g t → sumBy g s'.bets = sumBy g s.bets := by
    intro g hg'
    rw [ht, sumBy_upsert Bet.key g t' s.bets h.sT, hl]
    simp only
    omega
  have e1 : ∀ u i, betStakeAt u i t' = betStakeAt u i t := by intro u i; unfold betStakeAt; rw [hm, hf]
  have e2 : ∀ u o i, betProfitAt u o i t' = betProfitAt u o i t := by intro u o i; unfold betProfitAt; rw [hm, ho, hf]
  have e3 : ∀ u o i, betStakeOAt u o i t' = betStakeOAt u o i t := by intro u o i; unfold betStakeOAt; rw [hm, ho, hf]
  refine ⟨by rw [hk]; exact h.sB, by rw [ht]; exact upsert_sorted Bet.key t' s.bets h.sT, ?_, by rw [hmk]; exact h.mkt,
    by rw [hk]; exact h.qinv, ?_, ?_, ?_, ?_⟩
  · intro x hx
    rw [ht] at hx
    rw [hc]
    rcases (mem_upsert_iff Bet.key t' x s.bets h.sT).mp hx with rfl | ⟨hx, _⟩
    · rw [hid]; exact h.ids t htm
    · exact h.ids x hx
  · intro b hb i p hp
    rw [hk] at hb
    rw [hsum _ (e1 b.uid i)]; exact h.tb b hb i p hp
  · intro b hb o i
    rw [hk] at hb
    rw [hsum _ (e2 b.uid o i)]; exact h.tE b hb o i
  · intro b hb o i
    rw [hk] at hb
    rw [hsum _ (e3 b.uid o i)]; exact h.tB b hb o i
  · intro x hx
    rw [ht] at hx
    rcases (mem_upsert_iff Bet.key t' x s.bets h.sT).mp hx with rfl | ⟨hx, _⟩
    · obtain ⟨b, hb, hfl⟩ := h.wf t htm
      exact ⟨b, by rw [hg, hm]; exact hb, by rw [hf]; exact hfl⟩
    · obtain ⟨b, hb, hfl⟩ := h.wf x hx
      exact ⟨b, by rw [hg]; exact hb, hfl⟩

-- ---------------------------------------------------------------------------------------------
-- a new market

theorem upsert_length_fresh {α : Type} (key : α → List Nat) (x : α) (l : List α) (h : ∀ y ∈ l, key y ≠ key x) :
    (upsert key x l).length = l.length + 1 := by
  induction l with
  | nil => rfl
  | cons y ys ih =>
    unfold upsert
    have h1 : (key y == key x) = false := by
      have := h y (List.mem_cons_self ..); simpa using this
    simp only [h1, Bool.false_eq_true, if_false]
    split
    · rfl
    · simp only [List.length_cons]
      rw [ih (fun z hz => h z (List.mem_cons_of_mem _ hz))]

theorem setAll_length_new {α : Type} (key : α → List Nat) : ∀ (l store : List α), Sorted key store →
    l.Pairwise (fun a b => (key a == key b) = false) → (∀ a ∈ l, ∀ b ∈ store, (key b == key a) = false) →
    (setAll key l store).length = store.length + l.length := by
  intro l
  induction l with
  | nil => intro store _ _ _; rfl
  | cons x xs ih =>
    intro store hs hd hn
    rw [List.pairwise_cons] at hd
    unfold setAll
    simp only [List.foldl_cons]
    have hlen : (upsert key x store).length = store.length + 1 := by
      apply upsert_length_fresh
      intro y hy hk
      have := hn x (List.mem_cons_self ..) y hy
      rw [hk] at this; simp at this
    have := ih (upsert key x store) (upsert_sorted key x store hs) hd.2 (by
      intro a ha b hb
      rcases (mem_upsert_iff key x b store hs).mp hb with rfl | hb
      · have := hd.1 a ha
        cases hc : key b == key a
        · rfl
        · have e : key b = key a := by simpa using hc
          rw [e] at this; simp at this
      · exact hn a (List.mem_cons_of_mem _ ha) b hb.1)
    unfold setAll at this
    rw [this, hlen]
    simp only [List.length_cons]
    omega


/-- the book created by MsgAdd satisfies the queue invariant -/
theorem newBook_QInv (uid : Nat) (odds : List Nat) (hd : allDistinct odds = true) : QInv (newBook uid odds) := by
  have hnd := (allDistinct_iff_nodup odds).mp hd
  have hq : (newBook uid odds).queues = setAll qkeyQ (odds.map fun o => (o, ([] : List Nat))) [] := rfl
  have hpw : (odds.map fun o => (o, ([] : List Nat))).Pairwise (fun a b => (qkeyQ a == qkeyQ b) = false) := by
    rw [List.pairwise_map]
    refine List.Pairwise.imp ?_ hnd
    intro a b hab
    simpa [qkeyQ] using hab
  have hsorted : Sorted qkeyQ (newBook uid odds).queues := by
    rw [hq]; exact setAll_sortedRes qkeyQ _ [] (by simp [Sorted])
  have hmem : ∀ z, z ∈ (newBook uid odds).queues → z.2 = [] := by
    intro z hz
    rw [hq, mem_setAll qkeyQ _ [] (by simp [Sorted]) hpw (by intro a _ b hb; cases hb) z] at hz
    rcases hz with hz | hz
    · obtain ⟨o, _, rfl⟩ := List.mem_map.mp hz; rfl
    · cases hz
  have hlen : (newBook uid odds).queues.length = odds.length := by
    rw [hq, setAll_length_new qkeyQ _ [] (by simp [Sorted]) hpw (by intro a _ b hb; cases hb)]
    simp
  constructor
  · refine ⟨by show Sorted Part.key []; simp [Sorted], by show Sorted PExp.key []; simp [Sorted],
      by show Sorted PExp.hkey []; simp [Sorted], hsorted, rfl, hlen, (fun e he => by cases he), (fun e he => by cases he), ?_, ?_, ?_, ?_⟩
    · intro i h1 h2
      have : (newBook uid odds).partCount = 0 := rfl
      omega
    · intro i p _ hp
      cases hp
    · intro i h1 h2
      have : (newBook uid odds).partCount = 0 := rfl
      omega
    · intro i _
      exact ⟨0, (fun e he => by cases he), (fun e he => by cases he)⟩
  · intro o q hq'
    have := hmem (o, q) (Book.getQueue_mem hq')
    simp only at this
    subst this
    exact ⟨List.nodup_nil, fun i hi => by cases hi⟩

end Sge.Core

namespace Sge.Core
open Sge Sge.Genesis

/-- adding the (empty) book of a new market -/
theorem ObInv.addBook {s : State} (h : ObInv s) (nb : Book) (hn : getBook s nb.uid = none) (hq : QInv nb)
    (hp : nb.parts = []) (he : nb.pexps = []) (hh : nb.hist = []) : ObInv (Sge.Core.setBook s nb) := by
  have hne := getBook_eq_none s nb.uid hn
  have hmem : ∀ x ∈ (Sge.Core.setBook s nb).books, x = nb ∨ x ∈ s.books := by
    intro x hx'
    rcases (mem_upsert_iff Book.key nb x s.books h.sB).mp hx' with e | ⟨e1, _⟩
    · exact Or.inl e
    · exact Or.inr e1
  have hnobet : ∀ t ∈ s.bets, t.market ≠ nb.uid := by
    intro t ht c
    obtain ⟨b, hb, _⟩ := h.wf t ht
    rw [c, hn] at hb; cases hb
  have htot : ∀ o i, nb.totE o i = 0 ∧ nb.totB o i = 0 := by
    intro o i
    unfold Book.totE Book.totB Book.getExp
    rw [he, hh]
    exact ⟨rfl, rfl⟩
  refine ⟨upsert_sorted Book.key nb s.books h.sB, h.sT, h.ids, h.mkt, ?_, ?_, ?_, ?_, ?_⟩
  · intro x hx
    rcases hmem x hx with rfl | e
    · exact hq
    · exact h.qinv x e
  · intro x hx i p hpx
    show _ = sumBy _ s.bets
    rcases hmem x hx with rfl | e
    · unfold Book.getPart at hpx; rw [hp] at hpx; cases hpx
    · exact h.tb x e i p hpx
  · intro x hx o i
    show _ = sumBy _ s.bets
    rcases hmem x hx with rfl | e
    · rw [(htot o i).1]
      symm
      apply sumBy_zeroQ
      intro t ht
      unfold betProfitAt
      have : (t.market == x.uid) = false := by simpa using hnobet t ht
      simp [this]
    · exact h.tE x e o i
  · intro x hx o i
    show _ = sumBy _ s.bets
    rcases hmem x hx with rfl | e
    · rw [(htot o i).2]
      symm
      apply sumBy_zeroQ
      intro t ht
      unfold betStakeOAt
      have : (t.market == x.uid) = false := by simpa using hnobet t ht
      simp [this]
    · exact h.tB x e o i
  · intro t ht
    obtain ⟨b, hb, hfl⟩ := h.wf t ht
    exact ⟨b, by rw [getBook_setBook_ne s nb t.market (Ne.symm (hnobet t ht))]; exact hb, hfl⟩

theorem mem_setMarket {s : State} {m x : Market} (h : x ∈ (setMarket s m).markets) : x = m ∨ x ∈ s.markets := by
  unfold setMarket at h
  rcases (mem_upsert Market.key m x s.markets).mp h with e | e | e
  · exact Or.inl e
  · exact Or.inr e.1
  · exact Or.inr e.1

theorem getMarket_memQ {s : State} {u : Nat} {m : Market} (h : getMarket s u = some m) : m ∈ s.markets :=
  (lookup_memQ h).1

theorem marketAddO_obInv {s s' : State} {c : Nat} {tk : Tk} {u st en : Nat} {o : List Nat} {stt : Nat}
    (hI : ObInv s) (h : marketAddO s c tk u st en o stt = some s') : ObInv s' := by
  unfold marketAddO at h
  simp only [bind, Option.bind_eq_some_iff, pure, Option.some.injEq] at h
  obtain ⟨_, _, _, _, _, _, _, _, _, h5, _, _, _, h7, rfl⟩ := h
  have h5 : allDistinct o = true := chk_some h5
  have h7 : getBook s u = none := by simpa using chk_some h7
  have h1 := hI.addBook (newBook u o) h7 (newBook_QInv u o h5) rfl rfl rfl
  apply h1.of_eq (by rfl) (by rfl) (by rfl)
  intro m hm
  rcases mem_setMarket hm with rfl | hm
  · exact h5
  · exact hI.mkt m hm

theorem marketUpdateO_obInv {s s' : State} {tk : Tk} {u st en stt : Nat}
    (hI : ObInv s) (h : marketUpdateO s tk u st en stt = some s') : ObInv s' := by
  unfold marketUpdateO at h
  simp only [bind, Option.bind_eq_some_iff, pure, Option.some.injEq] at h
  obtain ⟨_, _, m, hm, _, _, _, _, _, _, rfl⟩ := h
  apply hI.of_eq (by rfl) (by rfl) (by rfl)
  intro x hx
  rcases mem_setMarket hx with rfl | hx
  · exact hI.mkt m (getMarket_memQ hm)
  · exact hI.mkt x hx

theorem marketResolveO_obInv {s s' : State} {tk : Tk} {u ts stt : Nat} {w : List Nat}
    (hI : ObInv s) (h : marketResolveO s tk u ts stt w = some s') : ObInv s' := by
  unfold marketResolveO at h
  simp only [bind, Option.bind_eq_some_iff, pure, Option.some.injEq] at h
  obtain ⟨_, _, _, _, m, hm, _, _, _, _, rfl⟩ := h
  apply hI.of_eq (by rfl) (by rfl) (by rfl)
  intro x hx
  rcases mem_setMarket hx with rfl | hx
  · exact hI.mkt m (getMarket_memQ hm)
  · exact hI.mkt x hx

end Sge.Core

namespace Sge.Core
open Sge Sge.Genesis

/-- a deposit extends the book: one new participation with no stake, all totals unchanged -/
theorem addParticipation_ext (b : Book) (addr : Nat) (liq fee : Int) (hq : QInv b) :
    Ext b (b.addParticipation addr liq fee).1 := by
  have hS := hq.s
  have hnoN : ∀ e ∈ b.pexps, e.idx ≠ b.partCount + 1 := by
    intro e he
    have := (hS.eKey e he).2
    omega
  have hnone : b.getPart (b.partCount + 1) = none := by
    cases hc : b.getPart (b.partCount + 1) with
    | none => rfl
    | some p =>
      have := ((hS.inRange_iff (b.partCount + 1)).mp ⟨p, hc⟩).2
      omega
  obtain ⟨f1, f2, f3, f4, f5⟩ := initFold_fields (b.partCount + 1) (b.setPart (b.newPart addr liq fee)).queues (b.setPart (b.newPart addr liq fee))
  obtain ⟨g1, g2, g3, g4, g5, g6⟩ := freshFold (b.partCount + 1) (b.setPart (b.newPart addr liq fee)).queues b.pexps hS.sE
    (sorted_qkey_pairwise hS.sQ) (fun e he hen => absurd hen (hnoN e he))
  generalize hB : (b.addParticipation addr liq fee).1 = B
  have eParts : B.parts = upsert Part.key (b.newPart addr liq fee) b.parts := by rw [← hB]; exact f1
  have eHist : B.hist = b.hist := by rw [← hB]; exact f2
  have eExps : B.pexps = (b.setPart (b.newPart addr liq fee)).queues.foldl
      (fun ps oq => upsert PExp.key (freshExp oq.1 (b.partCount + 1)) ps) b.pexps := by rw [← hB]; exact f5
  have hgp : ∀ i, i ≠ b.partCount + 1 → B.getPart i = b.getPart i := by
    intro i hi
    unfold Book.getPart; rw [eParts]
    exact lookup_upsert_ne Part.key _ [i] b.parts (by
      simpa [Part.key] using fun e : (b.newPart addr liq fee).idx = i => hi (e.symm.trans rfl))
  have hgpN : B.getPart (b.partCount + 1) = some (b.newPart addr liq fee) := by
    unfold Book.getPart; rw [eParts]
    exact lookup_upsert_self Part.key (b.newPart addr liq fee) b.parts
  refine ⟨by rw [← hB]; exact addParticipation_uid b addr liq fee, fun _ => by rw [← hB]; exact addParticipation_QInv b addr liq fee hq, ?_, ?_, ?_⟩
  · intro i p' hp'
    by_cases hi : i = b.partCount + 1
    · rw [hi, hgpN] at hp'
      cases hp'
      exact Or.inr ⟨by rw [hi]; exact hnone, rfl⟩
    · rw [hgp i hi] at hp'
      exact Or.inl ⟨p', hp', rfl, rfl⟩
  · intro i p hp
    have hi : i ≠ b.partCount + 1 := by
      have := ((hS.inRange_iff i).mp ⟨p, hp⟩).2
      omega
    exact ⟨p, by rw [hgp i hi]; exact hp, rfl⟩
  · intro o i
    by_cases hi : i = b.partCount + 1
    · have hb0 : b.getExp o i = none := by
        cases hc : b.getExp o i with
        | none => rfl
        | some e =>
          obtain ⟨_, k2, k3⟩ := Book.getExp_key hc
          exact absurd (k2.trans hi) (hnoN e k3)
      unfold Book.totE Book.totB
      rw [hb0, eHist]
      cases hc : B.getExp o i with
      | none => exact ⟨rfl, rfl⟩
      | some e =>
        obtain ⟨_, k2, k3⟩ := Book.getExp_key hc
        rw [eExps, g2] at k3
        rcases k3 with k3 | ⟨oq, _, rfl⟩
        · exact absurd (k2.trans hi) (hnoN e k3)
        · exact ⟨rfl, rfl⟩
    · apply Book.tot_of_cur eHist o i
      unfold Book.getExp
      rw [eExps, g5 o i (Or.inl hi)]


theorem Ext.of_stores {a b c : Book} (h : Ext a b) (hp : c.parts = b.parts) (he : c.pexps = b.pexps) (hh : c.hist = b.hist)
    (hu : c.uid = b.uid) (hq : QInv a → QInv c) : Ext a c := by
  have hgp : ∀ i, c.getPart i = b.getPart i := by intro i; unfold Book.getPart; rw [hp]
  refine ⟨hu.trans h.uid, hq, ?_, ?_, ?_⟩
  · intro i p' hp'
    rw [hgp] at hp'
    exact h.gp i p' hp'
  · intro i p hp'
    obtain ⟨p', a1, a2⟩ := h.gp' i p hp'
    exact ⟨p', by rw [hgp]; exact a1, a2⟩
  · intro o i
    have := Book.totE_congr he hh o i
    exact ⟨this.1.trans (h.tot o i).1, this.2.trans (h.tot o i).2⟩

/-- a withdrawal only changes liquidity fields and queues -/
theorem withdraw_ext (b b' : Book) (idx : Nat) (w : Int) (hq : QInv b) (hw : b.withdraw idx w = some b') : Ext b b' := by
  have hqi := withdraw_QInv b b' idx w hq hw
  unfold Book.withdraw at hw
  cases hp : b.getPart idx with
  | none => rw [hp] at hw; cases hw
  | some p =>
    rw [hp] at hw
    simp only at hw
    have hpi := Book.getPart_idx hp
    have hx := Ext.setPart b { p with crl := p.crl - w, liq := p.liq - w } p (by show b.getPart p.idx = some p; rw [hpi]; exact hp) rfl rfl rfl
    split at hw
    · cases hw; exact hx
    · have hq1 := hx.qinv hq
      have hnd : ∀ oq ∈ (b.setPart { p with crl := p.crl - w, liq := p.liq - w }).queues, oq.2.Nodup := by
        intro oq hoq
        exact (hq1.q oq.1 oq.2 (Book.mem_getQueue hq1.s.sQ hoq)).1
      rw [removeFromQueues_eq idx _ _ hnd] at hw
      cases hw
      obtain ⟨f1, f2, f3, _, _, f6⟩ := setQueueFold_fields (fun oq => oq.2.filter (fun j => j != idx))
        (b.setPart { p with crl := p.crl - w, liq := p.liq - w }).queues (b.setPart { p with crl := p.crl - w, liq := p.liq - w })
      exact hx.of_stores f1 f2 f3 f6 (fun _ => hqi)

end Sge.Core

namespace Sge.Core
open Sge Sge.Genesis

/-- a successful wager: the book is replaced by the one ProcessWager returns and the bet is stored -/
theorem ObInv.wager {s s' : State} (h : ObInv s) (b b' : Book) (bet : Bet) (o : Nat) (fulfs : List Fulf)
    (hb : getBook s b.uid = some b) (hu : b'.uid = b.uid) (hq' : QInv b')
    (hrel : ∀ i p', b'.getPart i = some p' →
      ∃ p0, b.getPart i = some p0 ∧ p0.addr = p'.addr ∧ p'.totalBet = p0.totalBet + sumBy (fbAt i) fulfs)
    (htE : ∀ o' i, b'.totE o' i = b.totE o' i + if o' = o then sumBy (fpAt i) fulfs else 0)
    (htB : ∀ o' i, b'.totB o' i = b.totB o' i + if o' = o then sumBy (fbAt i) fulfs else 0)
    (hfw : ∀ fl ∈ fulfs, ∃ p0, b.getPart fl.idx = some p0 ∧ p0.addr = fl.addr)
    (hkeep : ∀ i p0, b.getPart i = some p0 → ∃ p', b'.getPart i = some p' ∧ p'.addr = p0.addr)
    (hbm : bet.market = b.uid) (hbo : bet.odds = o) (hbf : bet.fulfs = fulfs) (hbid : bet.id = s.betCount + 1)
    (hfresh : lookup Bet.key (Bet.key bet) s.bets = none)
    (hk : s'.books = upsert Book.key b' s.books) (ht : s'.bets = upsert Bet.key bet s.bets)
    (hc : s'.betCount = s.betCount + 1) (hm : s'.markets = s.markets) : ObInv s' := by
  obtain ⟨hbmem, _⟩ := getBook_eq_some s _ b hb
  have hmem : ∀ x ∈ s'.books, x = b' ∨ (x ∈ s.books ∧ x.uid ≠ b.uid) := by
    intro x hx
    rw [hk] at hx
    rcases (mem_upsert_iff Book.key b' x s.books h.sB).mp hx with e | ⟨e1, e2⟩
    · exact Or.inl e
    · exact Or.inr ⟨e1, by rw [← hu]; simpa [Book.key] using e2⟩
  have hsum : ∀ g : Bet → Int, sumBy g s'.bets = sumBy g s.bets + g bet := by
    intro g
    rw [ht, sumBy_upsert Bet.key g bet s.bets h.sT, hfresh]
    simp
  have hgb : ∀ u, getBook s' u = if u = b.uid then some b' else getBook s u := by
    intro u
    unfold getBook
    rw [hk]
    by_cases hu' : u = b.uid
    · simp only [hu', if_true]
      rw [← hu]
      exact lookup_upsert_self Book.key b' s.books
    · simp only [hu', if_false]
      exact lookup_upsert_ne Book.key b' [u] s.books (by simp [Book.key, hu]; exact fun c => hu' c.symm)
  have hbs : ∀ u i, betStakeAt u i bet = if b.uid = u then sumBy (fbAt i) fulfs else 0 := by
    intro u i; unfold betStakeAt; rw [hbm, hbf]
    by_cases hc' : b.uid = u <;> simp [hc']
  have hbp : ∀ u o' i, betProfitAt u o' i bet = if b.uid = u ∧ o = o' then sumBy (fpAt i) fulfs else 0 := by
    intro u o' i; unfold betProfitAt; rw [hbm, hbo, hbf]
    by_cases hc' : b.uid = u <;> by_cases hc2 : o = o' <;> simp [hc', hc2]
  have hbso : ∀ u o' i, betStakeOAt u o' i bet = if b.uid = u ∧ o = o' then sumBy (fbAt i) fulfs else 0 := by
    intro u o' i; unfold betStakeOAt; rw [hbm, hbo, hbf]
    by_cases hc' : b.uid = u <;> by_cases hc2 : o = o' <;> simp [hc', hc2]
  refine ⟨by rw [hk]; exact upsert_sorted Book.key b' s.books h.sB, by rw [ht]; exact upsert_sorted Bet.key bet s.bets h.sT,
    ?_, by rw [hm]; exact h.mkt, ?_, ?_, ?_, ?_, ?_⟩
  · intro t htm
    rw [ht] at htm
    rw [hc]
    rcases (mem_upsert_iff Bet.key bet t s.bets h.sT).mp htm with rfl | ⟨htm, _⟩
    · omega
    · have := h.ids t htm; omega
  · intro x hx
    rcases hmem x hx with rfl | ⟨e, _⟩
    · exact hq'
    · exact h.qinv x e
  · intro x hx i p' hp'
    rw [hsum, hbs]
    rcases hmem x hx with rfl | ⟨e, hne⟩
    · obtain ⟨p0, a1, _, a3⟩ := hrel i p' hp'
      rw [a3, h.tb b hbmem i p0 a1, hu, if_pos rfl]
    · rw [h.tb x e i p' hp', if_neg (fun c => hne c.symm)]; omega
  · intro x hx o' i
    rw [hsum, hbp]
    rcases hmem x hx with rfl | ⟨e, hne⟩
    · rw [htE o' i, h.tE b hbmem o' i, hu]
      by_cases ho : o' = o
      · rw [if_pos ho, if_pos ⟨rfl, ho.symm⟩]
      · rw [if_neg ho, if_neg (fun c => ho c.2.symm)]
    · rw [h.tE x e o' i, if_neg (fun c => hne c.1.symm)]; omega
  · intro x hx o' i
    rw [hsum, hbso]
    rcases hmem x hx with rfl | ⟨e, hne⟩
    · rw [htB o' i, h.tB b hbmem o' i, hu]
      by_cases ho : o' = o
      · rw [if_pos ho, if_pos ⟨rfl, ho.symm⟩]
      · rw [if_neg ho, if_neg (fun c => ho c.2.symm)]
    · rw [h.tB x e o' i, if_neg (fun c => hne c.1.symm)]; omega
  · intro t htm
    rw [ht] at htm
    rcases (mem_upsert_iff Bet.key bet t s.bets h.sT).mp htm with rfl | ⟨htm, _⟩
    · refine ⟨b', by rw [hgb, hbm]; simp, ?_⟩
      intro fl hfl
      rw [hbf] at hfl
      obtain ⟨p0, a1, a2⟩ := hfw fl hfl
      obtain ⟨p', c1, c2⟩ := hkeep fl.idx p0 a1
      exact ⟨p', c1, c2.trans a2⟩
    · obtain ⟨bk, hbk, hfl⟩ := h.wf t htm
      by_cases hmk : t.market = b.uid
      · rw [hmk, hb] at hbk
        cases hbk
        refine ⟨b', by rw [hgb, hmk]; simp, ?_⟩
        intro fl hflm
        obtain ⟨p0, a1, a2⟩ := hfl fl hflm
        obtain ⟨p', c1, c2⟩ := hkeep fl.idx p0 a1
        exact ⟨p', c1, c2.trans a2⟩
      · exact ⟨bk, by rw [hgb]; simp [hmk, hbk], hfl⟩

end Sge.Core

namespace Sge.Core
open Sge Sge.Genesis

theorem houseDepositO_obInv {s : State} {r : State × Nat} {c : Nat} {tk : Tk} {m : Nat} {a : Int} {pd : Nat}
    (hI : ObInv s) (h : houseDepositO s c tk m a pd = some r) : ObInv r.1 := by
  unfold houseDepositO at h
  simp only [bind, Option.bind_eq_some_iff, pure, Option.some.injEq] at h
  obtain ⟨_, _, _, _, _, _, s1, hs1, _, _, mk, _, b, hb, _, _, _, _, _, _, _, _, s2, hs2, s3, hs3, rfl⟩ := h
  obtain ⟨gs, rfl⟩ := grantStep_shape hs1
  obtain ⟨bal2, _, rfl⟩ := bankSend_shape hs2
  obtain ⟨bal3, _, rfl⟩ := bankSend_shape hs3
  have hb' : getBook s m = some b := hb
  obtain ⟨hbm, hbu⟩ := getBook_mem hb'
  have hx := addParticipation_ext b (depositFor c pd) (a - (s.params.houseFee.mulInt a).roundInt)
    (s.params.houseFee.mulInt a).roundInt (hI.qinv b hbm)
  have h1 := hI.setBook b _ (by rw [hx.uid, hbu]; exact hb') hx
  exact h1.of_eq (by rfl) (by rfl) (by rfl) h1.mkt

theorem houseWithdrawO_obInv {s s' : State} {c : Nat} {tk : Tk} {m i md : Nat} {a : Int} {pd : Nat}
    (hI : ObInv s) (h : houseWithdrawO s c tk m i md a pd = some s') : ObInv s' := by
  unfold houseWithdrawO at h
  simp only [bind, Option.bind_eq_some_iff, pure, Option.some.injEq] at h
  obtain ⟨_, _, _, _, _, _, _, _, _, _, d, _, b, hb, _, _, w, _, s1, hs1, p, _, s2, hs2, b', hb', rfl⟩ := h
  obtain ⟨gs, rfl⟩ := grantStep_shape hs1
  obtain ⟨bal2, _, rfl⟩ := bankSend_shape hs2
  obtain ⟨hbm, hbu⟩ := getBook_mem hb
  have hx := withdraw_ext b b' i w (hI.qinv b hbm) hb'
  have h1 := hI.setBook b b' (by rw [hx.uid, hbu]; exact hb) hx
  exact h1.of_eq (by rfl) (by rfl) (by rfl) h1.mkt

theorem wagerO_obInv {s s' : State} {c : Nat} {tk : Tk} {u : Nat} {a : Int} {pl : WagerPayload}
    (hI : ObInv s) (h : wagerO s c tk u a pl = some s') : ObInv s' := by
  unfold wagerO at h
  simp only [bind, Option.bind_eq_some_iff, pure, Option.some.injEq] at h
  obtain ⟨_, _, _, _, _, _, _, _, _, _, _, _, _, _, m, hm, _, _, _, _, _, _, _, _, _, _, _, _, ov, _, _, _, b, hb, r, hr, s1, hs1, s2, hs2, rfl⟩ := h
  obtain ⟨b', fulfs, taken⟩ := r
  obtain ⟨bal1, _, rfl⟩ := bankSend_shape hs1
  obtain ⟨bal2, _, rfl⟩ := bankSend_shape hs2
  obtain ⟨hbm, hbu⟩ := getBook_mem hb
  have hmo : m.odds.Nodup := (allDistinct_iff_nodup m.odds).mp (hI.mkt m (getMarket_memQ hm))
  have hq := hI.qinv b hbm
  obtain ⟨w1, w2, w3, w4, w5, w6, w7⟩ := processWager_sums b b' pl.odds (s.betCount + 1) ov pl.mult m.odds pl.allOdds _ _ _ fulfs taken hq hmo hr
  have hkeep : ∀ i p0, b.getPart i = some p0 → ∃ p', b'.getPart i = some p' ∧ p'.addr = p0.addr := by
    intro i p0 hp0
    have hr0 := (hq.s.inRange_iff i).mp ⟨p0, hp0⟩
    rw [← w2] at hr0
    obtain ⟨p', hp'⟩ := (w1.s.inRange_iff i).mpr hr0
    obtain ⟨p0', a1, a2, _⟩ := w4 i p' hp'
    rw [hp0] at a1
    cases a1
    exact ⟨p', hp', a2.symm⟩
  have hfresh : lookup Bet.key (Bet.key (newBet s c u pl ov fulfs)) s.bets = none := by
    apply lookup_none_of_forall
    intro y hy hk
    have := hI.ids y hy
    simp only [Bet.key, newBet, List.cons.injEq, and_true] at hk
    omega
  exact hI.wager b b' (newBet s c u pl ov fulfs) pl.odds fulfs (by rw [hbu]; exact hb) w3 w1 w4 w5 w6 w7 hkeep
    hbu.symm rfl rfl rfl hfresh (by rfl) (by rfl) (by rfl) (by rfl)

end Sge.Core

namespace Sge.Core
open Sge Sge.Genesis

-- ---------------------------------------------------------------------------------------------
-- settlement (end-blockers): only realised profit, settlement flags and statuses change

theorem bettorLoses_ext : ∀ (fulfs : List Fulf) (b b' : Book), bettorLoses b fulfs = some b' → Ext b b' := by
  intro fulfs
  induction fulfs with
  | nil => intro b b' h; simp [bettorLoses] at h; rw [← h]; exact Ext.refl b
  | cons f rest ih =>
    intro b b' h
    unfold bettorLoses at h
    simp only [bind, Option.bind_eq_some_iff] at h
    obtain ⟨p, hp, h⟩ := h
    have hpi := Book.getPart_idx hp
    have h1 := Ext.setPart b { p with actualProfit := p.actualProfit + f.bet } p (by show b.getPart p.idx = some p; rw [hpi]; exact hp) rfl rfl rfl
    exact h1.trans (ih _ _ h)

theorem bettorWins_ext : ∀ (fulfs : List Fulf) (bal : List (Nat × Int)) (bettor : Nat) (b : Book) (r : List (Nat × Int) × Book),
    bettorWins bal bettor b fulfs = some r → Ext b r.2 := by
  intro fulfs
  induction fulfs with
  | nil => intro bal bettor b r h; simp [bettorWins] at h; rw [← h]; exact Ext.refl b
  | cons f rest ih =>
    intro bal bettor b r h
    unfold bettorWins at h
    simp only [bind, Option.bind_eq_some_iff] at h
    obtain ⟨p, hp, bal', _, h⟩ := h
    have hpi := Book.getPart_idx hp
    have h1 := Ext.setPart b { p with actualProfit := p.actualProfit - f.profit } p (by show b.getPart p.idx = some p; rw [hpi]; exact hp) rfl rfl rfl
    exact h1.trans (ih _ _ _ _ h)

theorem settleOutcome_ext {bal : List (Nat × Int)} {won : Bool} {bettor : Nat} {b : Book} {fulfs : List Fulf}
    {r : List (Nat × Int) × Book} (h : settleOutcome bal won bettor b fulfs = some r) : Ext b r.2 := by
  unfold settleOutcome at h
  split at h
  · exact bettorWins_ext _ _ _ _ _ h
  · simp only [Option.map_eq_some_iff] at h
    obtain ⟨b', hb', rfl⟩ := h
    exact bettorLoses_ext _ _ _ hb'

theorem markSettled_obInv {s : State} (hI : ObInv s) (bet t : Bet) (hl : lookup Bet.key (Bet.key bet) s.bets = some t)
    (hm : bet.market = t.market) (ho : bet.odds = t.odds) (hf : bet.fulfs = t.fulfs) (hid : bet.id = t.id) :
    ObInv (markSettled s bet) :=
  hI.setBet t { bet with settleHeight := s.height } hl hm ho hf hid (by rfl) (by rfl) (by rfl) (by rfl)

theorem settleBet_obInv {s s' : State} {c u : Nat} (hI : ObInv s) (h : settleBet s c u = some s') : ObInv s' := by
  unfold settleBet at h
  simp only [bind, Option.bind_eq_some_iff] at h
  obtain ⟨bet0, _, bet, hbet, _, _, m, _, h⟩ := h
  have hkey : Bet.key bet = [c, bet0.id] := (lookup_memQ hbet).2
  have hl : lookup Bet.key (Bet.key bet) s.bets = some bet := by rw [hkey]; exact hbet
  split at h
  · unfold settleRefund at h
    simp only [bind, Option.bind_eq_some_iff, pure, Option.some.injEq] at h
    obtain ⟨s1, h1, s2, h2, rfl⟩ := h
    obtain ⟨_, _, rfl⟩ := bankSend_shape h1
    obtain ⟨_, _, rfl⟩ := bankSend_shape h2
    refine markSettled_obInv ?_ _ bet ?_ rfl rfl rfl rfl
    · exact hI.of_eq (by rfl) (by rfl) (by rfl) hI.mkt
    · exact hl
  · simp only [Option.bind_eq_some_iff] at h
    obtain ⟨_, _, h⟩ := h
    unfold settleDeclared at h
    simp only [bind, Option.bind_eq_some_iff, pure, Option.some.injEq] at h
    obtain ⟨bk, hbk, r, hr, s2, h2, rfl⟩ := h
    obtain ⟨_, _, rfl⟩ := bankSend_shape h2
    have hx := settleOutcome_ext hr
    obtain ⟨_, hbu⟩ := getBook_mem hbk
    have hI1 : ObInv { s with bal := r.1 } := hI.of_eq (by rfl) (by rfl) (by rfl) hI.mkt
    have hI2 := hI1.setBook bk r.2 (by rw [hx.uid, hbu]; exact hbk) hx
    refine markSettled_obInv ?_ _ bet ?_ rfl rfl rfl rfl
    · exact hI2.of_eq (by rfl) (by rfl) (by rfl) hI2.mkt
    · exact hl

theorem settlePage_obInv : ∀ (page : List (Nat × Nat × Nat × Nat)) (s : State) (r : State × Nat),
    ObInv s → settlePage s page = some r → ObInv r.1 := by
  intro page
  induction page with
  | nil => intro s r hI h; simp [settlePage] at h; rw [← h]; exact hI
  | cons pb rest ih =>
    intro s r hI h
    unfold settlePage at h
    simp only [bind, Option.bind_eq_some_iff, pure, Option.some.injEq] at h
    obtain ⟨s1, h1, r1, hr, rfl⟩ := h
    exact ih _ r1 (settleBet_obInv hI h1) hr

theorem bookResolved_obInv {s s' : State} {u : Nat} (hI : ObInv s) (h : bookResolved s u = some s') : ObInv s' := by
  unfold bookResolved at h
  simp only [bind, Option.bind_eq_some_iff, pure, Option.some.injEq] at h
  obtain ⟨b, hb, _, _, rfl⟩ := h
  obtain ⟨_, hbu⟩ := getBook_mem hb
  have h1 := hI.setBook b { b with status := OB_RESOLVED } (by show getBook s b.uid = some b; rw [hbu]; exact hb) (Ext.status b OB_RESOLVED)
  exact h1.of_eq (by rfl) (by rfl) (by rfl) h1.mkt

theorem betEndBlockStep_obInv {s : State} {mk n : Nat} {r : State × Nat} (hI : ObInv s) (h : betEndBlockStep s mk n = some r) :
    ObInv r.1 := by
  unfold betEndBlockStep at h
  simp only [bind, Option.bind_eq_some_iff] at h
  obtain ⟨r0, h0, h⟩ := h
  have e0 := settlePage_obInv _ _ _ hI h0
  split at h
  · simp only [pure, Option.some.injEq] at h; rw [← h]; exact e0
  · simp only [bind, Option.bind_eq_some_iff, pure, Option.some.injEq] at h
    obtain ⟨q, _, s2, h2, rfl⟩ := h
    have e1 : ObInv { r0.1 with mqueue := q } := e0.of_eq (by rfl) (by rfl) (by rfl) e0.mkt
    exact bookResolved_obInv e1 h2

theorem betEndBlock_obInv : ∀ (fuel : Nat) (s : State) (n : Nat) (s' : State),
    ObInv s → betEndBlock fuel s n = some s' → ObInv s' := by
  intro fuel
  induction fuel with
  | zero => intro s n s' hI h; simp [betEndBlock] at h; rw [← h]; exact hI
  | succ fuel ih =>
    intro s n s' hI h
    unfold betEndBlock at h
    split at h
    · simp at h; rw [← h]; exact hI
    · split at h
      · simp at h; rw [← h]; exact hI
      · simp only [bind, Option.bind_eq_some_iff] at h
        obtain ⟨r, hr, h⟩ := h
        exact ih _ _ _ (betEndBlockStep_obInv hI hr) h


theorem settlePart_shape {s : State} {b : Book} {p : Part} {m : Market} {r : State × Book} (h : settlePart s b p m = some r) :
    (∃ bal', r.1 = { s with bal := bal' }) ∧
    ∃ p', r.2 = b.setPart p' ∧ p'.idx = p.idx ∧ p'.notFilled = p.notFilled ∧ p'.totalBet = p.totalBet ∧ p'.addr = p.addr := by
  unfold settlePart at h
  simp only [bind, Option.bind_eq_some_iff] at h
  obtain ⟨_, _, _, _, s1, h1, h⟩ := h
  obtain ⟨_, _, rfl⟩ := bankSend_shape h1
  split at h
  · simp only [bind, Option.bind_eq_some_iff, pure, Option.some.injEq] at h
    obtain ⟨s2, h2, rfl⟩ := h
    obtain ⟨_, _, rfl⟩ := bankSend_shape h2
    exact ⟨⟨_, rfl⟩, _, rfl, rfl, rfl, rfl, rfl⟩
  · simp only [bind, Option.bind_eq_some_iff, pure, Option.some.injEq] at h
    obtain ⟨s2, h2, rfl⟩ := h
    obtain ⟨_, _, rfl⟩ := bankSend_shape h2
    exact ⟨⟨_, rfl⟩, _, rfl, rfl, rfl, rfl, rfl⟩

theorem settleParts_ext (m : Market) (count : Nat) : ∀ (ps : List Part) (s : State) (b : Book) (sc pr : Nat)
    (r : State × Book × Nat × Nat), settleParts m count ps s b sc pr = some r →
    ps.Pairwise (fun a c => a.idx ≠ c.idx) → (∀ p ∈ ps, b.getPart p.idx = some p) →
    (∃ bal', r.1 = { s with bal := bal' }) ∧ Ext b r.2.1 := by
  intro ps
  induction ps with
  | nil => intro s b sc pr r h _ _; simp [settleParts] at h; rw [← h]; exact ⟨⟨s.bal, rfl⟩, Ext.refl b⟩
  | cons p rest ih =>
    intro s b sc pr r h hd hg
    rw [List.pairwise_cons] at hd
    unfold settleParts at h
    simp only [bind, Option.bind_eq_some_iff] at h
    obtain ⟨r1, h1, h⟩ := h
    have hstep : (∃ bal', r1.1 = { s with bal := bal' }) ∧ Ext b r1.2.1 ∧ (∀ q ∈ rest, r1.2.1.getPart q.idx = some q) := by
      unfold settleOne at h1
      split at h1
      · simp only [Option.map_eq_some_iff] at h1
        obtain ⟨x, hx, rfl⟩ := h1
        obtain ⟨hb, p', e1, e2, e3, e4, e5⟩ := settlePart_shape hx
        refine ⟨hb, ?_, ?_⟩
        · show Ext b x.2
          rw [e1]
          exact Ext.setPart b p' p (by rw [e2]; exact hg p (List.mem_cons_self ..)) e3 e4 e5
        · intro q hq
          show x.2.getPart q.idx = some q
          rw [e1, Book.getPart_setPart_ne _ _ _ (by rw [e2]; exact hd.1 q hq)]
          exact hg q (List.mem_cons_of_mem _ hq)
      · cases h1
        exact ⟨⟨s.bal, rfl⟩, Ext.refl b, fun q hq => hg q (List.mem_cons_of_mem _ hq)⟩
    obtain ⟨⟨bal1, hb1⟩, hx1, hg1⟩ := hstep
    split at h
    · simp only [pure, Option.some.injEq] at h
      rw [← h]
      exact ⟨⟨bal1, hb1⟩, hx1⟩
    · obtain ⟨⟨bal2, hb2⟩, hx2⟩ := ih _ _ _ _ _ h hd.2 hg1
      exact ⟨⟨bal2, by rw [hb2, hb1]⟩, hx1.trans hx2⟩

theorem obEndBlock_obInv : ∀ (fuel : Nat) (s : State) (n i : Nat) (s' : State),
    ObInv s → obEndBlock fuel s n i = some s' → ObInv s' := by
  intro fuel
  induction fuel with
  | zero => intro s n i s' hI h; simp [obEndBlock] at h; rw [← h]; exact hI
  | succ fuel ih =>
    intro s n i s' hI h
    unfold obEndBlock at h
    split at h
    · simp at h; rw [← h]; exact hI
    · split at h
      · simp at h; rw [← h]; exact hI
      · simp only [bind, Option.bind_eq_some_iff] at h
        obtain ⟨b, hb, m, _, _, _, r, hr, h⟩ := h
        obtain ⟨hbm, hbu⟩ := getBook_mem hb
        have hsP := (hI.qinv b hbm).s.sP
        have hpw : b.parts.Pairwise (fun a c => a.idx ≠ c.idx) := by
          unfold Sorted at hsP
          refine List.Pairwise.imp ?_ hsP
          intro a c hac e
          simp only [Part.key, e] at hac
          rw [ltL_irrefl] at hac
          cases hac
        obtain ⟨⟨bal', hbal⟩, hx⟩ := settleParts_ext m n b.parts s b 0 0 r hr hpw (fun p hp => Book.mem_getPart hsP hp)
        have hI1 : ObInv r.1 := by rw [hbal]; exact hI.of_eq (by rfl) (by rfl) (by rfl) hI.mkt
        have hb1 : getBook r.1 b.uid = some b := by rw [hbal, hbu]; exact hb
        split at h
        · simp only [bind, Option.bind_eq_some_iff] at h
          obtain ⟨q, _, h⟩ := h
          apply ih _ _ _ _ _ h
          have hx2 : Ext b { r.2.1 with status := OB_SETTLED } := hx.trans (Ext.status r.2.1 OB_SETTLED)
          have hI2 : ObInv { r.1 with obqueue := q } := hI1.of_eq (by rfl) (by rfl) (by rfl) hI1.mkt
          exact hI2.setBook b _ (by rw [hx2.uid]; exact hb1) hx2
        · apply ih _ _ _ _ _ h
          exact hI1.setBook b _ (by rw [hx.uid]; exact hb1) hx

theorem endBlockO_obInv {s s' : State} (hI : ObInv s) (h : endBlockO s = some s') : ObInv s' := by
  unfold endBlockO at h
  simp only [bind, Option.bind_eq_some_iff] at h
  obtain ⟨s1, h1, h2⟩ := h
  exact obEndBlock_obInv _ _ _ _ _ (betEndBlock_obInv _ _ _ _ hI h1) h2


-- ---------------------------------------------------------------------------------------------
-- every operation, every history

theorem step_obInv (s : State) (op : Op) (hI : ObInv s) : ObInv (step s op).1 := by
  cases op with
  | marketAdd c tk u st en o stt =>
    simp only [step, marketAdd, commit]
    cases h : marketAddO s c tk u st en o stt with
    | none => exact hI
    | some s' => exact marketAddO_obInv hI h
  | marketUpdate tk u st en stt =>
    simp only [step, marketUpdate, commit]
    cases h : marketUpdateO s tk u st en stt with
    | none => exact hI
    | some s' => exact marketUpdateO_obInv hI h
  | marketResolve tk u ts stt w =>
    simp only [step, marketResolve, commit]
    cases h : marketResolveO s tk u ts stt w with
    | none => exact hI
    | some s' => exact marketResolveO_obInv hI h
  | deposit c tk m a pd =>
    simp only [step, houseDeposit]
    cases h : houseDepositO s c tk m a pd with
    | none => exact hI
    | some r => exact houseDepositO_obInv hI h
  | withdraw c tk m i md a pd =>
    simp only [step, houseWithdraw, commit]
    cases h : houseWithdrawO s c tk m i md a pd with
    | none => exact hI
    | some s' => exact houseWithdrawO_obInv hI h
  | wager c tk u a pl =>
    simp only [step, wager, commit]
    cases h : wagerO s c tk u a pl with
    | none => exact hI
    | some s' => exact wagerO_obInv hI h
  | grant g e k l x => exact hI.of_eq (by rfl) (by rfl) (by rfl) hI.mkt
  | revoke g e k => exact hI.of_eq (by rfl) (by rfl) (by rfl) hI.mkt
  | send a b x =>
    simp only [step]
    split
    · exact hI
    · unfold commit
      cases h : bankSend s a b x with
      | none => exact hI
      | some s' =>
        obtain ⟨_, _, rfl⟩ := bankSend_shape h
        exact hI.of_eq (by rfl) (by rfl) (by rfl) hI.mkt
  | setParams p =>
    simp only [step]
    split
    · exact hI.of_eq (by rfl) (by rfl) (by rfl) hI.mkt
    · exact hI
  | endBlock =>
    simp only [step, endBlock]
    cases h : endBlockO s with
    | none => exact hI
    | some s' => exact endBlockO_obInv hI h
  | newBlock h t => exact hI.of_eq (by rfl) (by rfl) (by rfl) hI.mkt

theorem run_obInv (s : State) (ops : List Op) (hI : ObInv s) : ObInv (run s ops) := by
  induction ops generalizing s with
  | nil => exact hI
  | cons op rest ih => exact ih _ (step_obInv s op hI)

/-- the empty chain (no markets, books, bets) satisfies the invariant -/
theorem obInv_init (p : Params) (bal : List (Nat × Int)) (h t : Nat) :
    ObInv { bal := bal, params := p, height := h, time := t } := by
  refine ⟨by show Sorted Book.key []; simp [Sorted], by show Sorted Bet.key []; simp [Sorted],
    (fun t ht => by cases ht), (fun m hm => by cases hm), (fun b hb => by cases hb), (fun b hb => by cases hb),
    (fun b hb => by cases hb), (fun b hb => by cases hb), (fun t ht => by cases ht)⟩

end Sge.Core
