/-
  Whole-history bookkeeping of the order book against the bets (property C10): the state invariant `ObInv`
  (queue well-formedness of every book + the sums that tie participations and exposures to the backing parts of
  the bets + well-formed backing parts) and its preservation by every operation of the core slice.
-/
import SgeProofs.Lemmas.ObWager
import SgeProofs.Lemmas.PermSets
namespace Sge.Core
open Sge Sge.Genesis

-- ---------------------------------------------------------------------------------------------
-- what the bets say

/-- stake of the backing parts of bet `t` that name participation `i` of market `u` -/
def betStakeAt (u i : Nat) (t : Bet) : Int := if t.market == u then sumBy (fbAt i) t.fulfs else 0
/-- winnings promised by participation `i` of market `u` to bet `t`, if the bet is on outcome `o` -/
def betProfitAt (u o i : Nat) (t : Bet) : Int := if t.market == u && t.odds == o then sumBy (fpAt i) t.fulfs else 0
/-- stake backed by participation `i` of market `u` for bet `t`, if the bet is on outcome `o` -/
def betStakeOAt (u o i : Nat) (t : Bet) : Int := if t.market == u && t.odds == o then sumBy (fbAt i) t.fulfs else 0

/-- the whole-history invariant of the order-book / bet records -/
structure ObInv (s : State) : Prop where
  sB : Sorted Book.key s.books
  sT : Sorted Bet.key s.bets
  ids : ∀ t ∈ s.bets, t.id ≤ s.betCount
  mkt : ∀ m ∈ s.markets, allDistinct m.odds = true
  qinv : ∀ b ∈ s.books, QInv b
  tb : ∀ b ∈ s.books, ∀ i p, b.getPart i = some p → p.totalBet = sumBy (betStakeAt b.uid i) s.bets
  tE : ∀ b ∈ s.books, ∀ o i, b.totE o i = sumBy (betProfitAt b.uid o i) s.bets
  tB : ∀ b ∈ s.books, ∀ o i, b.totB o i = sumBy (betStakeOAt b.uid o i) s.bets
  wf : ∀ t ∈ s.bets, ∃ b, getBook s t.market = some b ∧ ∀ fl ∈ t.fulfs, ∃ p, b.getPart fl.idx = some p ∧ p.addr = fl.addr

/-- `b'` is `b` after an update that does not touch the bookkeeping against the bets: participations keep
    their total stake and depositor (new ones start at zero), exposure totals are unchanged -/
structure Ext (b b' : Book) : Prop where
  uid : b'.uid = b.uid
  qinv : QInv b → QInv b'
  gp : ∀ i p', b'.getPart i = some p' →
    (∃ p, b.getPart i = some p ∧ p'.totalBet = p.totalBet ∧ p'.addr = p.addr) ∨ (b.getPart i = none ∧ p'.totalBet = 0)
  gp' : ∀ i p, b.getPart i = some p → ∃ p', b'.getPart i = some p' ∧ p'.addr = p.addr
  tot : ∀ o i, b'.totE o i = b.totE o i ∧ b'.totB o i = b.totB o i

theorem Ext.refl (b : Book) : Ext b b :=
  ⟨rfl, id, fun _ p' h => Or.inl ⟨p', h, rfl, rfl⟩, fun _ p h => ⟨p, h, rfl⟩, fun _ _ => ⟨rfl, rfl⟩⟩

theorem Ext.trans {a b c : Book} (h1 : Ext a b) (h2 : Ext b c) : Ext a c := by
  refine ⟨h2.uid.trans h1.uid, fun h => h2.qinv (h1.qinv h), ?_, ?_, fun o i => ⟨(h2.tot o i).1.trans (h1.tot o i).1, (h2.tot o i).2.trans (h1.tot o i).2⟩⟩
  · intro i p'' hp''
    rcases h2.gp i p'' hp'' with ⟨p', hp', e1, e2⟩ | ⟨hn, hz⟩
    · rcases h1.gp i p' hp' with ⟨p, hp, e3, e4⟩ | ⟨hn, hz⟩
      · exact Or.inl ⟨p, hp, e1.trans e3, e2.trans e4⟩
      · exact Or.inr ⟨hn, e1.trans hz⟩
    · right
      refine ⟨?_, hz⟩
      cases ha : a.getPart i with
      | none => rfl
      | some p =>
        obtain ⟨p', hp', _⟩ := h1.gp' i p ha
        rw [hn] at hp'; cases hp'
  · intro i p hp
    obtain ⟨p', hp', e1⟩ := h1.gp' i p hp
    obtain ⟨p'', hp'', e2⟩ := h2.gp' i p' hp'
    exact ⟨p'', hp'', e2.trans e1⟩

/-- overwriting a participation without changing its counters, total stake and depositor -/
theorem Ext.setPart (b : Book) (p' p : Part) (hp : b.getPart p'.idx = some p) (hn : p'.notFilled = p.notFilled)
    (ht : p'.totalBet = p.totalBet) (ha : p'.addr = p.addr) : Ext b (b.setPart p') := by
  refine ⟨rfl, ?_, ?_, ?_, fun _ _ => ⟨rfl, rfl⟩⟩
  · intro hq
    refine ⟨?_, hq.q⟩
    apply SInv.setPart hq.s p' p hp
    · intro j _
      refine ⟨fun hj => ?_, fun _ => trivial⟩
      rw [hn, hj]
      exact hq.s.nf p'.idx p trivial hp
    · intro j _ _
      exact hq.s.rnd j trivial
  · intro i q hq
    by_cases hi : p'.idx = i
    · rw [← hi, Book.getPart_setPart_self] at hq
      cases hq
      exact Or.inl ⟨p, by rw [← hi]; exact hp, ht, ha⟩
    · rw [Book.getPart_setPart_ne _ _ _ hi] at hq
      exact Or.inl ⟨q, hq, rfl, rfl⟩
  · intro i q hq
    by_cases hi : p'.idx = i
    · rw [← hi] at hq ⊢
      rw [hp] at hq
      cases hq
      exact ⟨p', Book.getPart_setPart_self _ _, ha⟩
    · exact ⟨q, by rw [Book.getPart_setPart_ne _ _ _ hi]; exact hq, rfl⟩

/-- a change of the book status -/
theorem Ext.status (b : Book) (st : Nat) : Ext b { b with status := st } := by
  refine ⟨rfl, ?_, fun _ p' h => Or.inl ⟨p', h, rfl, rfl⟩, fun _ p h => ⟨p, h, rfl⟩, fun _ _ => ⟨rfl, rfl⟩⟩
  intro hq
  exact ⟨SInv.of_stores hq.s rfl rfl rfl rfl rfl rfl hq.s.sQ, hq.q⟩

theorem getBook_setBook_self (s : State) (b : Book) : getBook (setBook s b) b.uid = some b :=
  lookup_upsert_self Book.key b s.books

theorem getBook_setBook_ne (s : State) (b : Book) (u : Nat) (h : b.uid ≠ u) : getBook (setBook s b) u = getBook s u :=
  lookup_upsert_ne Book.key b [u] s.books (by simp [Book.key, h])

theorem mem_getBook {s : State} (hs : Sorted Book.key s.books) {b : Book} (h : b ∈ s.books) : getBook s b.uid = some b :=
  mem_lookup Book.key b s.books hs h

/-- no backing part names an index that is not a participation of the book -/
theorem ObInv.stake_zero {s : State} (h : ObInv s) (b : Book) (hb : b ∈ s.books) (i : Nat) (hi : b.getPart i = none) :
    sumBy (betStakeAt b.uid i) s.bets = 0 := by
  apply sumBy_zero
  intro t ht
  unfold betStakeAt
  split
  · rename_i hm
    have hm : t.market = b.uid := by simpa using hm
    obtain ⟨bk, hbk, hfl⟩ := h.wf t ht
    rw [hm, mem_getBook h.sB hb] at hbk
    cases hbk
    apply sumBy_zero
    intro fl hflm
    obtain ⟨p, hp, _⟩ := hfl fl hflm
    unfold fbAt
    have : fl.idx ≠ i := fun c => by rw [c, hi] at hp; cases hp
    simp [this]
  · rfl

/-- replacing a stored book by an extension of it keeps the invariant -/
theorem ObInv.setBook {s : State} (h : ObInv s) (b b' : Book) (hb : getBook s b'.uid = some b) (hx : Ext b b') :
    ObInv (setBook s b') := by
  obtain ⟨hbm, hbu⟩ := getBook_eq_some s _ b hb
  have hmem : ∀ x ∈ (Sge.Core.setBook s b').books, x = b' ∨ (x ∈ s.books ∧ x.uid ≠ b'.uid) := by
    intro x hx'
    rcases (mem_upsert_iff Book.key b' x s.books h.sB).mp hx' with e | ⟨e1, e2⟩
    · exact Or.inl e
    · exact Or.inr ⟨e1, by simpa [Book.key] using e2⟩
  refine ⟨upsert_sorted Book.key b' s.books h.sB, h.sT, h.ids, h.mkt, ?_, ?_, ?_, ?_, ?_⟩
  · intro x hx'
    rcases hmem x hx' with rfl | ⟨e, _⟩
    · exact hx.qinv (h.qinv b hbm)
    · exact h.qinv x e
  · intro x hx' i p' hp'
    show _ = sumBy _ s.bets
    rcases hmem x hx' with rfl | ⟨e, _⟩
    · rw [hx.uid]
      rcases hx.gp i p' hp' with ⟨p, hp, e1, _⟩ | ⟨hn, hz⟩
      · rw [e1]; exact h.tb b hbm i p hp
      · rw [hz, h.stake_zero b hbm i hn]
    · exact h.tb x e i p' hp'
  · intro x hx' o i
    show _ = sumBy _ s.bets
    rcases hmem x hx' with rfl | ⟨e, _⟩
    · rw [hx.uid, (hx.tot o i).1]; exact h.tE b hbm o i
    · exact h.tE x e o i
  · intro x hx' o i
    show _ = sumBy _ s.bets
    rcases hmem x hx' with rfl | ⟨e, _⟩
    · rw [hx.uid, (hx.tot o i).2]; exact h.tB b hbm o i
    · exact h.tB x e o i
  · intro t ht
    obtain ⟨bk, hbk, hfl⟩ := h.wf t ht
    by_cases hm : b'.uid = t.market
    · refine ⟨b', by rw [← hm]; exact getBook_setBook_self s b', ?_⟩
      rw [← hm, hb] at hbk
      cases hbk
      intro fl hflm
      obtain ⟨p, hp, ha⟩ := hfl fl hflm
      obtain ⟨p', hp', ha'⟩ := hx.gp' fl.idx p hp
      exact ⟨p', hp', ha'.trans ha⟩
    · exact ⟨bk, by rw [getBook_setBook_ne s b' t.market hm]; exact hbk, hfl⟩

/-- the invariant only reads books, bets, the bet counter and the outcome lists of the markets -/
theorem ObInv.of_eq {s s' : State} (h : ObInv s) (hk : s'.books = s.books) (ht : s'.bets = s.bets)
    (hc : s'.betCount = s.betCount) (hm : ∀ m ∈ s'.markets, allDistinct m.odds = true) : ObInv s' := by
  have hg : ∀ u, getBook s' u = getBook s u := fun u => getBook_congr hk u
  exact ⟨by rw [hk]; exact h.sB, by rw [ht]; exact h.sT, by rw [ht, hc]; exact h.ids, hm, by rw [hk]; exact h.qinv,
    by rw [hk, ht]; exact h.tb, by rw [hk, ht]; exact h.tE, by rw [hk, ht]; exact h.tB,
    by rw [ht]; intro t htm; obtain ⟨b, hb, hfl⟩ := h.wf t htm; exact ⟨b, by rw [hg]; exact hb, hfl⟩⟩

end Sge.Core

namespace Sge.Core
open Sge Sge.Genesis

/-- rewriting a stored bet without touching market, outcome and backing parts (settlement) -/
theorem ObInv.setBet {s s' : State} (h : ObInv s) (t t' : Bet) (hl : lookup Bet.key (Bet.key t') s.bets = some t)
    (hm : t'.market = t.market) (ho : t'.odds = t.odds) (hf : t'.fulfs = t.fulfs) (hid : t'.id = t.id)
    (hk : s'.books = s.books) (ht : s'.bets = upsert Bet.key t' s.bets) (hc : s'.betCount = s.betCount)
    (hmk : s'.markets = s.markets) : ObInv s' := by
  have hg : ∀ u, getBook s' u = getBook s u := fun u => getBook_congr hk u
  have htm := (lookup_mem hl).1
  have hsum : ∀ g : Bet → Int, g t' = g t → sumBy g s'.bets = sumBy g s.bets := by
    intro g hg'
    rw [ht, sumBy_upsert Bet.key g t' s.bets h.sT, hl]
    simp only
    omega
  have e1 : ∀ u i, betStakeAt u i t' = betStakeAt u i t := by intro u i; unfold betStakeAt; rw [hm, hf]
  have e2 : ∀ u o i, betProfitAt u o i t' = betProfitAt u o i t := by intro u o i; unfold betProfitAt; rw [hm, ho, hf]
  have e3 : ∀ u o i, betStakeOAt u o i t' = betStakeOAt u o i t := by intro u o i; unfold betStakeOAt; rw [hm, ho, hf]
  refine ⟨by rw [hk]; exact h.sB, by rw [ht]; exact upsert_sorted Bet.key t' s.bets h.sT, ?_, by rw [hmk]; exact h.mkt,
    by rw [hk]; exact h.qinv, ?_, ?_, ?_, ?_⟩
  · intro x hx
    rw [ht] at hx
    rw [hc]
    rcases (mem_upsert_iff Bet.key t' x s.bets h.sT).mp hx with rfl | ⟨hx, _⟩
    · rw [hid]; exact h.ids t htm
    · exact h.ids x hx
  · intro b hb i p hp
    rw [hk] at hb
    rw [hsum _ (e1 b.uid i)]; exact h.tb b hb i p hp
  · intro b hb o i
    rw [hk] at hb
    rw [hsum _ (e2 b.uid o i)]; exact h.tE b hb o i
  · intro b hb o i
    rw [hk] at hb
    rw [hsum _ (e3 b.uid o i)]; exact h.tB b hb o i
  · intro x hx
    rw [ht] at hx
    rcases (mem_upsert_iff Bet.key t' x s.bets h.sT).mp hx with rfl | ⟨hx, _⟩
    · obtain ⟨b, hb, hfl⟩ := h.wf t htm
      exact ⟨b, by rw [hg, hm]; exact hb, by rw [hf]; exact hfl⟩
    · obtain ⟨b, hb, hfl⟩ := h.wf x hx
      exact ⟨b, by rw [hg]; exact hb, hfl⟩

-- ---------------------------------------------------------------------------------------------
-- a new market

theorem upsert_length_fresh {α : Type} (key : α → List Nat) (x : α) (l : List α) (h : ∀ y ∈ l, key y ≠ key x) :
    (upsert key x l).length = l.length + 1 := by
  induction l with
  | nil => rfl
  | cons y ys ih =>
    unfold upsert
    have h1 : (key y == key x) = false := by
      have := h y (List.mem_cons_self ..); simpa using this
    simp only [h1, Bool.false_eq_true, if_false]
    split
    · rfl
    · simp only [List.length_cons]
      rw [ih (fun z hz => h z (List.mem_cons_of_mem _ hz))]

theorem setAll_length_new {α : Type} (key : α → List Nat) : ∀ (l store : List α), Sorted key store →
    l.Pairwise (fun a b => (key a == key b) = false) → (∀ a ∈ l, ∀ b ∈ store, (key b == key a) = false) →
    (setAll key l store).length = store.length + l.length := by
  intro l
  induction l with
  | nil => intro store _ _ _; rfl
  | cons x xs ih =>
    intro store hs hd hn
    rw [List.pairwise_cons] at hd
    unfold setAll
    simp only [List.foldl_cons]
    have hlen : (upsert key x store).length = store.length + 1 := by
      apply upsert_length_fresh
      intro y hy hk
      have := hn x (List.mem_cons_self ..) y hy
      rw [hk] at this; simp at this
    have := ih (upsert key x store) (upsert_sorted key x store hs) hd.2 (by
      intro a ha b hb
      rcases (mem_upsert_iff key x b store hs).mp hb with rfl | hb
      · have := hd.1 a ha
        cases hc : key b == key a
        · rfl
        · have e : key b = key a := by simpa using hc
          rw [e] at this; simp at this
      · exact hn a (List.mem_cons_of_mem _ ha) b hb.1)
    unfold setAll at this
    rw [this, hlen]
    simp only [List.length_cons]
    omega


/-- the book created by MsgAdd satisfies the queue invariant -/
theorem newBook_QInv (uid : Nat) (odds : List Nat) (hd : allDistinct odds = true) : QInv (newBook uid odds) := by
  have hnd := (allDistinct_iff_nodup odds).mp hd
  have hq : (newBook uid odds).queues = setAll qkey (odds.map fun o => (o, ([] : List Nat))) [] := rfl
  have hpw : (odds.map fun o => (o, ([] : List Nat))).Pairwise (fun a b => (qkey a == qkey b) = false) := by
    rw [List.pairwise_map]
    refine List.Pairwise.imp ?_ hnd
    intro a b hab
    simpa [qkey] using hab
  have hsorted : Sorted qkey (newBook uid odds).queues := by
    rw [hq]; exact setAll_sortedRes qkey _ [] (by simp [Sorted])
  have hmem : ∀ z, z ∈ (newBook uid odds).queues → z.2 = [] := by
    intro z hz
    rw [hq, mem_setAll qkey _ [] (by simp [Sorted]) hpw (by intro a _ b hb; cases hb) z] at hz
    rcases hz with hz | hz
    · obtain ⟨o, _, rfl⟩ := List.mem_map.mp hz; rfl
    · cases hz
  have hlen : (newBook uid odds).queues.length = odds.length := by
    rw [hq, setAll_length_new qkey _ [] (by simp [Sorted]) hpw (by intro a _ b hb; cases hb)]
    simp
  constructor
  · refine ⟨by show Sorted Part.key []; simp [Sorted], by show Sorted PExp.key []; simp [Sorted],
      by show Sorted PExp.hkey []; simp [Sorted], hsorted, rfl, hlen, (fun e he => by cases he), (fun e he => by cases he), ?_, ?_, ?_, ?_⟩
    · intro i h1 h2
      have : (newBook uid odds).partCount = 0 := rfl
      omega
    · intro i p _ hp
      cases hp
    · intro i h1 h2
      have : (newBook uid odds).partCount = 0 := rfl
      omega
    · intro i _
      exact ⟨0, (fun e he => by cases he), (fun e he => by cases he)⟩
  · intro o q hq'
    have := hmem (o, q) (Book.getQueue_mem hq')
    simp only at this
    subst this
    exact ⟨List.nodup_nil, fun i hi => by cases hi⟩

end Sge.Core

namespace Sge.Core
open Sge Sge.Genesis

/-- adding the (empty) book of a new market -/
theorem ObInv.addBook {s : State} (h : ObInv s) (nb : Book) (hn : getBook s nb.uid = none) (hq : QInv nb)
    (hp : nb.parts = []) (he : nb.pexps = []) (hh : nb.hist = []) : ObInv (Sge.Core.setBook s nb) := by
  have hne := getBook_eq_none s nb.uid hn
  have hmem : ∀ x ∈ (Sge.Core.setBook s nb).books, x = nb ∨ x ∈ s.books := by
    intro x hx'
    rcases (mem_upsert_iff Book.key nb x s.books h.sB).mp hx' with e | ⟨e1, _⟩
    · exact Or.inl e
    · exact Or.inr e1
  have hnobet : ∀ t ∈ s.bets, t.market ≠ nb.uid := by
    intro t ht c
    obtain ⟨b, hb, _⟩ := h.wf t ht
    rw [c, hn] at hb; cases hb
  have htot : ∀ o i, nb.totE o i = 0 ∧ nb.totB o i = 0 := by
    intro o i
    unfold Book.totE Book.totB Book.getExp
    rw [he, hh]
    exact ⟨rfl, rfl⟩
  refine ⟨upsert_sorted Book.key nb s.books h.sB, h.sT, h.ids, h.mkt, ?_, ?_, ?_, ?_, ?_⟩
  · intro x hx
    rcases hmem x hx with rfl | e
    · exact hq
    · exact h.qinv x e
  · intro x hx i p hpx
    show _ = sumBy _ s.bets
    rcases hmem x hx with rfl | e
    · unfold Book.getPart at hpx; rw [hp] at hpx; cases hpx
    · exact h.tb x e i p hpx
  · intro x hx o i
    show _ = sumBy _ s.bets
    rcases hmem x hx with rfl | e
    · rw [(htot o i).1]
      symm
      apply sumBy_zero
      intro t ht
      unfold betProfitAt
      have : (t.market == x.uid) = false := by simpa using hnobet t ht
      simp [this]
    · exact h.tE x e o i
  · intro x hx o i
    show _ = sumBy _ s.bets
    rcases hmem x hx with rfl | e
    · rw [(htot o i).2]
      symm
      apply sumBy_zero
      intro t ht
      unfold betStakeOAt
      have : (t.market == x.uid) = false := by simpa using hnobet t ht
      simp [this]
    · exact h.tB x e o i
  · intro t ht
    obtain ⟨b, hb, hfl⟩ := h.wf t ht
    exact ⟨b, by rw [getBook_setBook_ne s nb t.market (Ne.symm (hnobet t ht))]; exact hb, hfl⟩

theorem mem_setMarket {s : State} {m x : Market} (h : x ∈ (setMarket s m).markets) : x = m ∨ x ∈ s.markets := by
  unfold setMarket at h
  rcases (mem_upsert Market.key m x s.markets).mp h with e | e | e
  · exact Or.inl e
  · exact Or.inr e.1
  · exact Or.inr e.1

theorem getMarket_mem {s : State} {u : Nat} {m : Market} (h : getMarket s u = some m) : m ∈ s.markets :=
  (lookup_mem h).1

theorem marketAddO_obInv {s s' : State} {c : Nat} {tk : Tk} {u st en : Nat} {o : List Nat} {stt : Nat}
    (hI : ObInv s) (h : marketAddO s c tk u st en o stt = some s') : ObInv s' := by
  unfold marketAddO at h
  simp only [bind, Option.bind_eq_some_iff, pure, Option.some.injEq] at h
  obtain ⟨_, _, _, _, _, _, _, _, _, h5, _, _, _, h7, rfl⟩ := h
  have h5 : allDistinct o = true := chk_some h5
  have h7 : getBook s u = none := by simpa using chk_some h7
  have h1 := hI.addBook (newBook u o) h7 (newBook_QInv u o h5) rfl rfl rfl
  apply h1.of_eq (by rfl) (by rfl) (by rfl)
  intro m hm
  rcases mem_setMarket hm with rfl | hm
  · exact h5
  · exact hI.mkt m hm

theorem marketUpdateO_obInv {s s' : State} {tk : Tk} {u st en stt : Nat}
    (hI : ObInv s) (h : marketUpdateO s tk u st en stt = some s') : ObInv s' := by
  unfold marketUpdateO at h
  simp only [bind, Option.bind_eq_some_iff, pure, Option.some.injEq] at h
  obtain ⟨_, _, m, hm, _, _, _, _, _, _, rfl⟩ := h
  apply hI.of_eq (by rfl) (by rfl) (by rfl)
  intro x hx
  rcases mem_setMarket hx with rfl | hx
  · exact hI.mkt m (getMarket_mem hm)
  · exact hI.mkt x hx

theorem marketResolveO_obInv {s s' : State} {tk : Tk} {u ts stt : Nat} {w : List Nat}
    (hI : ObInv s) (h : marketResolveO s tk u ts stt w = some s') : ObInv s' := by
  unfold marketResolveO at h
  simp only [bind, Option.bind_eq_some_iff, pure, Option.some.injEq] at h
  obtain ⟨_, _, _, _, m, hm, _, _, _, _, rfl⟩ := h
  apply hI.of_eq (by rfl) (by rfl) (by rfl)
  intro x hx
  rcases mem_setMarket hx with rfl | hx
  · exact hI.mkt m (getMarket_mem hm)
  · exact hI.mkt x hx

end Sge.Core
