/-
  STEP-WISE simulation of the combined slice by the core slice (refines Lemmas/CombinedSim.lean, which only says
  "some list of user-signed core operations").

  A core operation is PLAIN if it is a bank send, an authz grant, a wager, a house deposit or a house withdrawal.
    * a combined `.core cop` (cop ≠ endBlock) is the one core operation `cop`;
    * a halting combined end-block is the empty list (state unchanged);
    * a successful combined end-block is the SUCCESSFUL core end-block followed by plain operations (the bank sends of
      AfterHouseWin);
    * every x/subaccount message is a list of plain operations (empty if it fails).
  Consequently (`cml_run_trace`): for every combined history there is a core history with the same core result in
  which no end-block halts, whose number of end-blocks is the number of successful combined end-blocks, whose
  parameter updates are those of the combined history, and whose `newBlock`s are those of the combined history.
-/
import SgeProofs.Lemmas.CombinedSim
import SgeProofs.Lemmas.SettleBound
import SgeProofs.Lemmas.SettleNoHaltInv
import SgeProofs.Lemmas.GenesisReachBet
namespace Sge.Combined
open Sge Sge.Core

def cml_plain : Core.Op → Bool
  | .send _ _ _ => true
  | .grant _ _ _ _ _ => true
  | .wager _ _ _ _ _ => true
  | .deposit _ _ _ _ _ => true
  | .withdraw _ _ _ _ _ _ _ => true
  | _ => false

/-- the core projection of `s'` is reached from that of `s` by user-signed PLAIN core operations -/
def cml_PSim (s s' : State) : Prop :=
  ∃ ops : List Core.Op, (∀ o ∈ ops, o.userSigned' ∧ cml_plain o = true) ∧ s'.core = Core.run s.core ops

theorem cml_PSim.refl (s : State) : cml_PSim s s := ⟨[], fun o ho => (by cases ho), rfl⟩

theorem cml_PSim.trans {s1 s2 s3 : State} (h1 : cml_PSim s1 s2) (h2 : cml_PSim s2 s3) : cml_PSim s1 s3 := by
  obtain ⟨o1, w1, e1⟩ := h1
  obtain ⟨o2, w2, e2⟩ := h2
  refine ⟨o1 ++ o2, ?_, ?_⟩
  · intro o ho
    rcases List.mem_append.mp ho with h | h
    · exact w1 o h
    · exact w2 o h
  · rw [cmb_run_append, ← e1, e2]

theorem cml_PSim.ofEq {s s1 s2 : State} (h : cml_PSim s s1) (e : s2.core = s1.core) : cml_PSim s s2 := by
  obtain ⟨o, w, e1⟩ := h
  exact ⟨o, w, e.trans e1⟩

theorem cml_PSim.ofCore {s : State} {c : Core.State} (op : Core.Op) (hwf : op.userSigned') (hp : cml_plain op = true)
    (h : (Core.step s.core op).1 = c) : cml_PSim s { s with core := c } :=
  ⟨[op], by intro o ho; simp only [List.mem_singleton] at ho; subst ho; exact ⟨hwf, hp⟩, by subst h; rfl⟩

theorem cml_send_sim {s s' : State} {a b : Nat} {x : Int} (h : send s a b x = some s')
    (ha : isModuleAcc a = false) (hb : isModuleAcc b = false) : cml_PSim s s' := by
  unfold send at h
  cases hc : bankSend s.core a b x with
  | none => simp [hc] at h
  | some c =>
    simp only [hc, Option.map_some, Option.some.injEq] at h
    subst h
    apply cml_PSim.ofCore (.send a b x) trivial rfl
    simp only [Core.step, ha, hb, Bool.or_self, Bool.false_eq_true, if_false, Core.commit, hc]

theorem cml_create_spec {s s' : State} {creator owner : Nat} {ls : List Sge.Subaccount.Lock}
    (hc : isModuleAcc creator = false) (h : createO s creator owner ls = some s') : cml_PSim s s' := by
  unfold createO at h
  simp only [bind, Option.bind_eq_some_iff, pure, Option.some.injEq] at h
  obtain ⟨_, _, total, _, _, _, s1, hs1, rfl⟩ := h
  exact (cml_send_sim hs1 hc (cmb_subAddr_notModule s.nextId)).ofEq rfl

theorem cml_topUp_spec {s s' : State} {creator owner : Nat} {ls : List Sge.Subaccount.Lock} (hI : OwnInv s)
    (hc : isModuleAcc creator = false) (h : topUpO s creator owner ls = some s') : cml_PSim s s' := by
  unfold topUpO at h
  simp only [bind, Option.bind_eq_some_iff, pure, Option.some.injEq] at h
  obtain ⟨_, _, total, _, a, ha, r, _, _, _, s1, hs1, rfl⟩ := h
  exact (cml_send_sim hs1 hc (hI.own owner a ha).2).ofEq rfl

theorem cml_withdrawUnlocked_spec {s s' : State} {owner : Nat} (hI : OwnInv s)
    (h : withdrawUnlockedO s owner = some s') : cml_PSim s s' := by
  unfold withdrawUnlockedO at h
  simp only [bind, Option.bind_eq_some_iff, pure, Option.some.injEq] at h
  obtain ⟨a, ha, r, _, _, _, sum', _, s1, hs1, rfl⟩ := h
  have := hI.own owner a ha
  exact (cml_send_sim hs1 this.2 this.1).ofEq rfl

theorem cml_withdrawLocked_spec {s s' : State} {a owner : Nat} {d : Int} (ha : isModuleAcc a = false)
    (ho : isModuleAcc owner = false) (h : withdrawLockedO s a owner d = some s') : cml_PSim s s' := by
  unfold withdrawLockedO at h
  simp only [bind, Option.bind_eq_some_iff, pure, Option.some.injEq] at h
  obtain ⟨r, _, _, _, s1, hs1, sum', _, rfl⟩ := h
  exact (cml_send_sim hs1 ha ho).ofEq rfl

theorem cml_returnToSub_spec {s s' : State} {a owner : Nat} {x : Int} (ha : isModuleAcc a = false)
    (ho : isModuleAcc owner = false) (h : returnToSubO s a owner x = some s') : cml_PSim s s' := by
  unfold returnToSubO at h
  split at h
  · cases h; exact cml_PSim.refl _
  · simp only [bind, Option.bind_eq_some_iff, pure, Option.some.injEq] at h
    obtain ⟨r, _, _, _, s1, hs1, rfl⟩ := h
    exact (cml_send_sim hs1 ho ha).ofEq rfl

theorem cml_subWagerBet_spec {s s' : State} {owner : Nat} {tk : Tk} {uid : Nat} {amount : Int} {pl : WagerPayload}
    (ho : isModuleAcc owner = false) (h : subWagerBet s owner tk uid amount pl = some s') : cml_PSim s s' := by
  unfold subWagerBet at h
  cases hc : wagerO s.core owner tk uid amount pl with
  | none => simp [hc] at h
  | some c =>
    simp only [hc, Option.map_some, Option.some.injEq] at h
    subst h
    refine cml_PSim.ofCore (.wager owner tk uid amount pl) ho rfl ?_
    simp only [Core.step, Core.wager, Core.commit, hc]

theorem cml_subWager_spec {s s' : State} {owner : Nat} {outerOk : Bool} {ic : Nat} {main sub : Int} {tk : Tk} {uid : Nat}
    {amount : Int} {pl : WagerPayload} (hI : OwnInv s)
    (h : subWagerO s owner outerOk ic main sub tk uid amount pl = some s') : cml_PSim s s' := by
  unfold subWagerO at h
  simp only [bind, Option.bind_eq_some_iff, pure, Option.some.injEq] at h
  obtain ⟨_, _, a, ha, _, _, _, _, _, _, _, _, _, _, s1, hs1, s2, hs2, h3⟩ := h
  obtain ⟨ho, haa⟩ := hI.own owner a ha
  exact ((cml_withdrawLocked_spec haa ho hs1).trans (cml_subWagerBet_spec ho hs2)).trans (cml_returnToSub_spec haa ho h3)

theorem cml_subDeposit_spec {s s' : State} {owner : Nat} {tk : Tk} {market : Nat} {amount : Int} {pd : Nat} (hI : OwnInv s)
    (h : subDepositO s owner tk market amount pd = some s') : cml_PSim s s' := by
  unfold subDepositO at h
  simp only [bind, Option.bind_eq_some_iff, pure, Option.some.injEq] at h
  obtain ⟨_, _, a, ha, r, _, _, _, sum', _, c, hc, rfl⟩ := h
  obtain ⟨ho, haa⟩ := hI.own owner a ha
  unfold subDepositCore putGrant at hc
  have hdep : isModuleAcc (depositFor owner a) = false := by
    unfold depositFor; split <;> assumption
  have h1 : cml_PSim s { s with core := (Core.step s.core (.grant a owner 0 amount none)).1 } :=
    cml_PSim.ofCore (.grant a owner 0 amount none) trivial rfl rfl
  generalize (Core.step s.core (.grant a owner 0 amount none)).1 = cg at hc h1
  cases hd : houseDepositO cg owner (tkWith tk (tk.kycOk owner)) market amount a with
  | none => simp [hd] at hc
  | some res =>
    simp only [hd, Option.map_some, Option.some.injEq] at hc
    have h2 : cml_PSim { s with core := cg } { s with core := c } := by
      apply cml_PSim.ofCore (s := { s with core := cg }) (.deposit owner (tkWith tk (tk.kycOk owner)) market amount a) hdep rfl
      simp only [Core.step, Core.houseDeposit, hd, hc]
    exact (h1.trans h2).ofEq rfl

theorem cml_subWithdraw_spec {s s' : State} {owner : Nat} {tk : Tk} {market idx mode : Nat} {amount : Int} {pd : Nat}
    (h : subWithdrawO s owner tk market idx mode amount pd = some s') : cml_PSim s s' := by
  unfold subWithdrawO at h
  simp only [bind, Option.bind_eq_some_iff, pure, Option.some.injEq] at h
  obtain ⟨a, ha, r, _, w, _, c, hc, sum', _, rfl⟩ := h
  unfold subWithdrawCore putGrant at hc
  have h1 : cml_PSim s { s with core := (Core.step s.core (.grant a owner 1 w none)).1 } :=
    cml_PSim.ofCore (.grant a owner 1 w none) trivial rfl rfl
  generalize (Core.step s.core (.grant a owner 1 w none)).1 = cg at hc h1
  have h2 : cml_PSim { s with core := cg } { s with core := c } := by
    apply cml_PSim.ofCore (s := { s with core := cg })
      (.withdraw owner (tkWith tk (tk.kycOk (if pd != 0 then pd else owner))) market idx mode amount a) trivial rfl
    simp only [Core.step, Core.houseWithdraw, Core.commit, hc]
  exact (h1.trans h2).ofEq rfl

theorem cml_applyHook_spec {s s' : State} {hc : HookCall} (hI : OwnInv s) (h : applyHook s hc = some s') :
    cml_PSim s s' := by
  cases hc with
  | win hs orig profit =>
    simp only [applyHook] at h
    split at h
    · cases h; exact cml_PSim.refl _
    · simp only [bind, Option.bind_eq_some_iff, pure, Option.some.injEq] at h
      obtain ⟨sum', _, owner, ho, s1, hs1, rfl⟩ := h
      obtain ⟨h1, h2⟩ := hI.rev hs owner ho
      exact (cml_send_sim hs1 h1 h2).ofEq rfl
  | loss hs orig lost =>
    simp only [applyHook] at h
    split at h
    · cases h; exact cml_PSim.refl _
    · simp only [bind, Option.bind_eq_some_iff, pure, Option.some.injEq] at h
      obtain ⟨sum1, _, sum', _, rfl⟩ := h
      exact (cml_PSim.refl s).ofEq rfl
  | refund hs orig =>
    simp only [applyHook] at h
    split at h
    · cases h; exact cml_PSim.refl _
    · simp only [bind, Option.bind_eq_some_iff, pure, Option.some.injEq] at h
      obtain ⟨sum', _, rfl⟩ := h
      exact (cml_PSim.refl s).ofEq rfl

theorem cml_applyHooks_spec : ∀ (l : List HookCall) {s s' : State}, OwnInv s → applyHooks s l = some s' →
    cml_PSim s s' := by
  intro l
  induction l with
  | nil => intro s s' _ h; simp only [applyHooks, Option.some.injEq] at h; subst h; exact cml_PSim.refl _
  | cons x xs ih =>
    intro s s' hI h
    simp only [applyHooks, bind, Option.bind_eq_some_iff] at h
    obtain ⟨s1, h1, h2⟩ := h
    exact (cml_applyHook_spec hI h1).trans (ih (hI.ofMaps (cmb_applyHook_spec hI h1).2) h2)

-- ---------------------------------------------------------------------------------------------
-- lists of plain operations

theorem cml_plain_ne_end {o : Core.Op} (h : cml_plain o = true) : o ≠ .endBlock := by
  intro e; subst e; cases h

theorem cml_plain_noHalt : ∀ (l : List Core.Op) (c : Core.State), (∀ o ∈ l, cml_plain o = true) → noHalt c l = true := by
  intro l
  induction l with
  | nil => intro _ _; rfl
  | cons o rest ih =>
    intro c h
    have h1 := step_msg_not_halt c o (cml_plain_ne_end (h o (List.mem_cons_self ..)))
    have h2 := ih (Core.step c o).1 (fun x hx => h x (List.mem_cons_of_mem _ hx))
    simp only [noHalt, Bool.and_eq_true, bne_iff_ne, ne_eq]
    exact ⟨h1, h2⟩

theorem cml_plain_endBlocks (l : List Core.Op) (h : ∀ o ∈ l, cml_plain o = true) : endBlocks l = 0 := by
  unfold endBlocks
  rw [List.countP_eq_zero]
  intro o ho
  have := h o ho
  cases o <;> first | exact Bool.false_ne_true | cases this

theorem cml_plain_batch (N M : Nat) (l : List Core.Op) (h : ∀ o ∈ l, cml_plain o = true) : batchAtLeast N M l = true := by
  induction l with
  | nil => rfl
  | cons o rest ih =>
    have h1 := h o (List.mem_cons_self ..)
    have h2 := ih (fun x hx => h x (List.mem_cons_of_mem _ hx))
    cases o <;> first | exact h2 | cases h1

theorem cml_plain_posHeight {o : Core.Op} (h : cml_plain o = true) : o.posHeight := by
  cases o <;> first | trivial | cases h

theorem cml_batch_append (N M : Nat) : ∀ (a b : List Core.Op),
    batchAtLeast N M (a ++ b) = (batchAtLeast N M a && batchAtLeast N M b) := by
  intro a
  induction a with
  | nil => intro b; rfl
  | cons o rest ih =>
    intro b
    cases o <;> simp only [List.cons_append, batchAtLeast, ih, Bool.and_assoc]

theorem cml_noHalt_append : ∀ (a : List Core.Op) (s : Core.State) (b : List Core.Op),
    noHalt s (a ++ b) = (noHalt s a && noHalt (Core.run s a) b) := by
  intro a
  induction a with
  | nil => intro s b; rfl
  | cons op rest ih =>
    intro s b
    show ((Core.step s op).2 != .halt && noHalt (Core.step s op).1 (rest ++ b)) = _
    rw [ih]
    show _ = (((Core.step s op).2 != .halt && noHalt (Core.step s op).1 rest) && noHalt (Core.run (Core.step s op).1 rest) b)
    rw [Bool.and_assoc]

-- ---------------------------------------------------------------------------------------------
-- measures of a combined history

def cml_isEnd : Op → Bool
  | .core .endBlock => true
  | _ => false

/-- number of combined end-blocks of the history that do NOT halt -/
def cml_okEnds : State → List Op → Nat
  | _, [] => 0
  | s, op :: rest => (if cml_isEnd op && (step s op).2 != .halt then 1 else 0) + cml_okEnds (step s op).1 rest

/-- no combined end-block of the history halts -/
def cml_noHalt : State → List Op → Bool
  | _, [] => true
  | s, op :: rest => (step s op).2 != .halt && cml_noHalt (step s op).1 rest

/-- number of end-blocks of a combined history -/
def cml_endBlocks (ops : List Op) : Nat := ops.countP cml_isEnd

/-- every parameter update of the bet / house / order-book modules keeps the batch sizes at least `N`, `M` -/
def cml_batchAtLeast (N M : Nat) : List Op → Bool
  | [] => true
  | .core (.setParams p) :: rest => decide (N ≤ p.betBatch) && decide (M ≤ p.obBatch) && cml_batchAtLeast N M rest
  | _ :: rest => cml_batchAtLeast N M rest

/-- block heights are positive -/
def cml_posHeight : Op → Prop
  | .core op => op.posHeight
  | _ => True

theorem cml_okEnds_of_noHalt : ∀ (ops : List Op) (s : State), cml_noHalt s ops = true → cml_okEnds s ops = cml_endBlocks ops := by
  intro ops
  induction ops with
  | nil => intro _ _; rfl
  | cons op rest ih =>
    intro s h
    simp only [cml_noHalt, Bool.and_eq_true] at h
    unfold cml_okEnds cml_endBlocks
    rw [ih _ h.2, List.countP_cons, h.1, Bool.and_true]
    unfold cml_endBlocks
    omega

-- ---------------------------------------------------------------------------------------------
-- one step

/-- the facts about the core trace of one combined step -/
structure cml_StepTrace (s : State) (op : Op) (cops : List Core.Op) : Prop where
  signed : ∀ o ∈ cops, o.userSigned'
  eq : (step s op).1.core = Core.run s.core cops
  noHalt : noHalt s.core cops = true
  ends : endBlocks cops = (if cml_isEnd op && (step s op).2 != .halt then 1 else 0)
  batch : ∀ N M, cml_batchAtLeast N M [op] = true → batchAtLeast N M cops = true
  pos : cml_posHeight op → ∀ o ∈ cops, o.posHeight

theorem cml_trace_plain {s : State} {op : Op} {s' : State} (he : (step s op).1 = s') (hend : cml_isEnd op = false)
    (h : cml_PSim s s') : ∃ cops, cml_StepTrace s op cops := by
  obtain ⟨cops, hw, e⟩ := h
  have hp : ∀ o ∈ cops, cml_plain o = true := fun o ho => (hw o ho).2
  refine ⟨cops, fun o ho => (hw o ho).1, by rw [he]; exact e, cml_plain_noHalt cops _ hp, ?_,
    fun N M _ => cml_plain_batch N M cops hp, fun _ o ho => cml_plain_posHeight (hp o ho)⟩
  rw [cml_plain_endBlocks cops hp, hend]
  rfl

theorem cml_trace_commit {s : State} {op : Op} {r : Option State} (he : step s op = commit s r) (hend : cml_isEnd op = false)
    (h : ∀ s', r = some s' → cml_PSim s s') : ∃ cops, cml_StepTrace s op cops := by
  cases r with
  | none => exact cml_trace_plain (s' := s) (by rw [he]; rfl) hend (cml_PSim.refl s)
  | some s' => exact cml_trace_plain (s' := s') (by rw [he]; rfl) hend (h s' rfl)

theorem cml_step_trace (s : State) (op : Op) (hI : OwnInv s) (hwf : op.wf) : ∃ cops, cml_StepTrace s op cops := by
  cases op with
  | core cop =>
    by_cases he : cop = .endBlock
    · subst he
      cases h : endBlockO s with
      | none =>
        have hs : step s (.core .endBlock) = (s, .halt) := by
          show endBlock s = _
          unfold endBlock; rw [h]
        refine ⟨[], fun o ho => (by cases ho), by rw [hs]; rfl, rfl, ?_, fun _ _ _ => rfl, fun _ o ho => (by cases ho)⟩
        rw [hs]; rfl
      | some s' =>
        have hs : step s (.core .endBlock) = (s', .ok) := by
          show endBlock s = _
          unfold endBlock; rw [h]
        unfold endBlockO at h
        simp only [bind, Option.bind_eq_some_iff] at h
        obtain ⟨c, hc, h2⟩ := h
        obtain ⟨rest, hw, e⟩ := cml_applyHooks_spec _ (s := { s with core := c }) (hI.ofMaps (Maps.refl _)) h2
        have hp : ∀ o ∈ rest, cml_plain o = true := fun o ho => (hw o ho).2
        have hcs : Core.step s.core .endBlock = (c, .ok) := by
          show Core.endBlock s.core = _
          unfold Core.endBlock; rw [hc]
        refine ⟨.endBlock :: rest, ?_, ?_, ?_, ?_, ?_, ?_⟩
        · intro o ho
          rcases List.mem_cons.mp ho with rfl | ho
          · trivial
          · exact (hw o ho).1
        · rw [hs]
          show s'.core = Core.run (Core.step s.core .endBlock).1 rest
          rw [hcs]; exact e
        · show ((Core.step s.core .endBlock).2 != .halt && noHalt (Core.step s.core .endBlock).1 rest) = true
          rw [hcs, cml_plain_noHalt rest _ hp]; rfl
        · rw [hs]
          show endBlocks ([.endBlock] ++ rest) = 1
          unfold endBlocks
          rw [List.countP_append]
          have := cml_plain_endBlocks rest hp
          unfold endBlocks at this
          rw [this]; rfl
        · intro N M _
          show batchAtLeast N M rest = true
          exact cml_plain_batch N M rest hp
        · intro _ o ho
          rcases List.mem_cons.mp ho with rfl | ho
          · trivial
          · exact cml_plain_posHeight (hp o ho)
    · have e : step s (.core cop) = coreStep s cop := by
        cases cop <;> first | rfl | exact absurd rfl he
      have hend : cml_isEnd (Op.core cop) = false := by
        cases cop <;> first | rfl | exact absurd rfl he
      refine ⟨[cop], ?_, by rw [e]; rfl, ?_, ?_, ?_, ?_⟩
      · intro o ho; simp only [List.mem_singleton] at ho; subst ho; exact hwf
      · have := step_msg_not_halt s.core cop he
        simp only [noHalt, Bool.and_true, bne_iff_ne, ne_eq]
        exact this
      · rw [hend]
        show endBlocks [cop] = 0
        unfold endBlocks
        rw [List.countP_eq_zero]
        intro o ho
        simp only [List.mem_singleton] at ho; subst ho
        cases o <;> first | exact absurd rfl he | simp [Core.Op.isEnd]
      · intro N M hb
        cases cop <;> first | exact hb | rfl
      · intro hp o ho
        simp only [List.mem_singleton] at ho; subst ho; exact hp
  | subParams w d =>
    exact cml_trace_plain (s' := { s with wagerEnabled := w, depositEnabled := d }) rfl rfl ((cml_PSim.refl s).ofEq rfl)
  | create c o ls => exact cml_trace_commit (r := createO s c o ls) rfl rfl (fun s' e => cml_create_spec hwf.1 e)
  | topUp c o ls => exact cml_trace_commit (r := topUpO s c o ls) rfl rfl (fun s' e => cml_topUp_spec hI hwf e)
  | withdrawUnlocked o =>
    exact cml_trace_commit (r := withdrawUnlockedO s o) rfl rfl (fun s' e => cml_withdrawUnlocked_spec hI e)
  | subWager o ok ic m sb tk u a pl =>
    exact cml_trace_commit (r := subWagerO s o ok ic m sb tk u a pl) rfl rfl (fun s' e => cml_subWager_spec hI e)
  | subDeposit o tk m a pd =>
    exact cml_trace_commit (r := subDepositO s o tk m a pd) rfl rfl (fun s' e => cml_subDeposit_spec hI e)
  | subWithdraw o tk m i md a pd =>
    exact cml_trace_commit (r := subWithdrawO s o tk m i md a pd) rfl rfl (fun s' e => cml_subWithdraw_spec e)

-- ---------------------------------------------------------------------------------------------
-- histories

/-- the facts about the core trace of a combined history -/
structure cml_RunTrace (s : State) (ops : List Op) (cops : List Core.Op) : Prop where
  signed : ∀ o ∈ cops, o.userSigned'
  eq : (run s ops).core = Core.run s.core cops
  noHalt : noHalt s.core cops = true
  ends : endBlocks cops = cml_okEnds s ops
  batch : ∀ N M, cml_batchAtLeast N M ops = true → batchAtLeast N M cops = true
  pos : (∀ op ∈ ops, cml_posHeight op) → ∀ o ∈ cops, o.posHeight

theorem cml_batch_cons (N M : Nat) (op : Op) (rest : List Op) :
    cml_batchAtLeast N M (op :: rest) = (cml_batchAtLeast N M [op] && cml_batchAtLeast N M rest) := by
  cases op with
  | core cop => cases cop <;> simp [cml_batchAtLeast]
  | _ => simp [cml_batchAtLeast]

/-- STEP-WISE SIMULATION over histories -/
theorem cml_run_trace : ∀ (ops : List Op) (s : State), OwnInv s → (∀ op ∈ ops, op.wf) →
    ∃ cops, cml_RunTrace s ops cops := by
  intro ops
  induction ops with
  | nil =>
    intro s _ _
    exact ⟨[], fun o ho => (by cases ho), rfl, rfl, rfl, fun _ _ _ => rfl, fun _ o ho => (by cases ho)⟩
  | cons op rest ih =>
    intro s hI hwf
    have hwf1 := hwf op (List.mem_cons_self ..)
    obtain ⟨c1, t1⟩ := cml_step_trace s op hI hwf1
    obtain ⟨c2, t2⟩ := ih (step s op).1 (cmb_step_sim s op hI hwf1).2 (fun o ho => hwf o (List.mem_cons_of_mem _ ho))
    refine ⟨c1 ++ c2, ?_, ?_, ?_, ?_, ?_, ?_⟩
    · intro o ho
      rcases List.mem_append.mp ho with h | h
      · exact t1.signed o h
      · exact t2.signed o h
    · show (run (step s op).1 rest).core = _
      rw [t2.eq, t1.eq, cmb_run_append]
    · rw [cml_noHalt_append, t1.noHalt, ← t1.eq, t2.noHalt]; rfl
    · show endBlocks (c1 ++ c2) = _
      unfold endBlocks
      rw [List.countP_append]
      have e1 := t1.ends
      have e2 := t2.ends
      unfold endBlocks at e1 e2
      rw [e1, e2]
      rfl
    · intro N M hb
      rw [cml_batch_cons, Bool.and_eq_true] at hb
      rw [cml_batch_append, t1.batch N M hb.1, t2.batch N M hb.2]; rfl
    · intro hp o ho
      rcases List.mem_append.mp ho with h | h
      · exact t1.pos (hp op (List.mem_cons_self ..)) o h
      · exact t2.pos (fun x hx => hp x (List.mem_cons_of_mem _ hx)) o h

end Sge.Combined
