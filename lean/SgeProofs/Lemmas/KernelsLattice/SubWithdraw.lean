/- Lattice evaluation for the kernel tie `SubWithdraw` (see SgeProofs/Lemmas/KernelsLattice.lean, bin/kernelstie). -/
import SgeProofs.Lemmas.KernelsLattice
import Sge.Gen.Kernels
import Sge.Subaccount
namespace Sge.KernelsTie
open Sge Sge.Gen.Kernels Sge.Subaccount

def krn_pts_SubWithdraw : Nat := krn_intsS.length ^ 5

/-- first lattice point on which the translated Go kernel and the model differ -/
def krn_lat_SubWithdraw : Option (String × String × String) :=
  krn_intsS.findSome? fun d => krn_intsS.findSome? fun sp => krn_intsS.findSome? fun w => krn_intsS.findSome? fun l =>
  krn_intsS.findSome? fun amt =>
    krn_cmp (d, sp, w, l, amt) (subaccount_AccountSummary_Withdraw d sp w l amt)
      ((({ deposited := d, spent := sp, withdrawn := w, lost := l } : Summary).withdraw amt).map (·.withdrawn))

end Sge.KernelsTie
