/- Lattice evaluation for the kernel tie `SetMaxLoss` (see SgeProofs/Lemmas/KernelsLattice.lean, bin/kernelstie). -/
import SgeProofs.Lemmas.KernelsLattice
import Sge.Gen.Kernels
import Sge.Core.Orderbook
namespace Sge.KernelsTie
open Sge Sge.Gen.Kernels Sge.Core

def krn_pts_SetMaxLoss : Nat := krn_intsS.length ^ 5 * krn_ids.length ^ 2

/-- first lattice point on which the translated Go kernel and the model differ -/
def krn_lat_SetMaxLoss : Option (String × String × String) :=
  krn_intsS.findSome? fun tb => krn_intsS.findSome? fun ml => krn_ids.findSome? fun oo =>
  krn_intsS.findSome? fun ex => krn_intsS.findSome? fun bet => krn_ids.findSome? fun o => krn_intsS.findSome? fun b =>
    let p : Part := { (default : Part) with crTotalBet := tb, crMaxLoss := ml, crMaxLossOdds := oo }
    let e : PExp := { (default : PExp) with exposure := ex, bet := bet }
    let m := setMaxLoss p e o b
    krn_cmp (tb, ml, oo, ex, bet, o, b) (orderbook_OrderBookParticipation_setMaxLoss tb ml false oo ex bet o b)
      (m.crMaxLoss, m.crMaxLossOdds)

end Sge.KernelsTie
