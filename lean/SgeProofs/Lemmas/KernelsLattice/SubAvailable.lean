/- Lattice evaluation for the kernel tie `SubAvailable` (see SgeProofs/Lemmas/KernelsLattice.lean, bin/kernelstie). -/
import SgeProofs.Lemmas.KernelsLattice
import Sge.Gen.Kernels
import Sge.Subaccount
namespace Sge.KernelsTie
open Sge Sge.Gen.Kernels Sge.Subaccount

def krn_pts_SubAvailable : Nat := krn_intsM.length ^ 4

/-- first lattice point on which the translated Go kernel and the model differ -/
def krn_lat_SubAvailable : Option (String × String × String) :=
  krn_intsM.findSome? fun d => krn_intsM.findSome? fun sp => krn_intsM.findSome? fun w => krn_intsM.findSome? fun l =>
    krn_cmp (d, sp, w, l) (subaccount_AccountSummary_Available d sp w l)
      ({ deposited := d, spent := sp, withdrawn := w, lost := l } : Summary).available

end Sge.KernelsTie
