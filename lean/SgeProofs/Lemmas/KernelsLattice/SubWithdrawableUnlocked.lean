/- Lattice evaluation for the kernel tie `SubWithdrawableUnlocked` (see SgeProofs/Lemmas/KernelsLattice.lean, bin/kernelstie). -/
import SgeProofs.Lemmas.KernelsLattice
import Sge.Gen.Kernels
import Sge.Subaccount
namespace Sge.KernelsTie
open Sge Sge.Gen.Kernels Sge.Subaccount

def krn_pts_SubWithdrawableUnlocked : Nat := krn_intsS.length ^ 6

/-- first lattice point on which the translated Go kernel and the model differ -/
def krn_lat_SubWithdrawableUnlocked : Option (String × String × String) :=
  krn_intsS.findSome? fun d => krn_intsS.findSome? fun sp => krn_intsS.findSome? fun w => krn_intsS.findSome? fun l =>
  krn_intsS.findSome? fun u => krn_intsS.findSome? fun bank =>
    krn_cmp (d, sp, w, l, u, bank) (subaccount_AccountSummary_WithdrawableUnlockedBalance d sp w l u bank)
      (({ deposited := d, spent := sp, withdrawn := w, lost := l } : Summary).withdrawableUnlocked true u bank)

end Sge.KernelsTie
