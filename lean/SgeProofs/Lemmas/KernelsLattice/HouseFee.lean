/- Lattice evaluation for the kernel tie `HouseFee` (see SgeProofs/Lemmas/KernelsLattice.lean, bin/kernelstie). -/
import SgeProofs.Lemmas.KernelsLattice
import Sge.Gen.Kernels
import Sge.Core.Chain
namespace Sge.KernelsTie
open Sge Sge.Gen.Kernels Sge.Core

def krn_pts_HouseFee : Nat := krn_ints.length * krn_decs.length

/-- first lattice point on which the translated Go kernel and the model differ -/
def krn_lat_HouseFee : Option (String × String × String) :=
  krn_ints.findSome? fun a => krn_decs.findSome? fun f =>
    krn_cmp (a, f) (house_Deposit_CalcHouseParticipationFeeAmount a f) (f.mulInt a).roundInt

end Sge.KernelsTie
