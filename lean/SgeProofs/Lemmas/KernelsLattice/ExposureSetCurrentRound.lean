/- Lattice evaluation for the kernel tie `ExposureSetCurrentRound` (see SgeProofs/Lemmas/KernelsLattice.lean, bin/kernelstie). -/
import SgeProofs.Lemmas.KernelsLattice
import Sge.Gen.Kernels
import Sge.Core.Orderbook
namespace Sge.KernelsTie
open Sge Sge.Gen.Kernels Sge.Core

def krn_pts_ExposureSetCurrentRound : Nat := krn_intsM.length ^ 4

/-- first lattice point on which the translated Go kernel and the model differ -/
def krn_lat_ExposureSetCurrentRound : Option (String × String × String) :=
  krn_intsM.findSome? fun ex => krn_intsM.findSome? fun bet => krn_intsM.findSome? fun b => krn_intsM.findSome? fun pi =>
    let e : PExp := { (default : PExp) with exposure := ex, bet := bet }
    let m := (applyFul 1 default e b pi).2
    krn_cmp (ex, bet, b, pi) (orderbook_ParticipationExposure_SetCurrentRound ex bet b pi) (m.exposure, m.bet)

end Sge.KernelsTie
