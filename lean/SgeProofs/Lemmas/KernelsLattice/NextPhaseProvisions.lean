/- Lattice evaluation for the kernel tie `NextPhaseProvisions` (see SgeProofs/Lemmas/KernelsLattice.lean, bin/kernelstie). -/
import SgeProofs.Lemmas.KernelsLattice
import Sge.Gen.Kernels
import Sge.Mint
namespace Sge.KernelsTie
open Sge Sge.Gen.Kernels Sge.Mint

def krn_pts_NextPhaseProvisions : Nat := krn_decsM.length * krn_intsM.length * krn_intsM.length * krn_decsM.length

/-- first lattice point on which the translated Go kernel and the model differ -/
def krn_lat_NextPhaseProvisions : Option (String × String × String) :=
  krn_decsM.findSome? fun infl => krn_intsM.findSome? fun supply => krn_intsM.findSome? fun excl => krn_decsM.findSome? fun yc =>
    krn_cmp (infl, supply, excl, yc) (mint_Minter_NextPhaseProvisions infl supply excl yc)
      (nextPhaseProvisions infl (if supply < excl then excl else supply) excl { inflation := infl, yearCoef := yc })

end Sge.KernelsTie
