/- Lattice evaluation for the kernel tie `PoolCheckBalance` (see SgeProofs/Lemmas/KernelsLattice.lean, bin/kernelstie). -/
import SgeProofs.Lemmas.KernelsLattice
import Sge.Gen.Kernels
import Sge.Reward
namespace Sge.KernelsTie
open Sge Sge.Gen.Kernels Sge.Reward

def krn_pts_PoolCheckBalance : Nat := krn_intsM.length ^ 4

/-- first lattice point on which the translated Go kernel and the model differ -/
def krn_lat_PoolCheckBalance : Option (String × String × String) :=
  krn_intsM.findSome? fun t => krn_intsM.findSome? fun sp => krn_intsM.findSome? fun w => krn_intsM.findSome? fun x =>
    krn_cmp (t, sp, w, x) (reward_Pool_CheckBalance t sp w x)
      (if ({ total := t, spent := sp, withdrawn := w } : Pool).avail < x then none else some ())

end Sge.KernelsTie
