/- Lattice evaluation for the kernel tie `BetAmountInt` (see SgeProofs/Lemmas/KernelsLattice.lean, bin/kernelstie). -/
import SgeProofs.Lemmas.KernelsLattice
import Sge.Gen.Kernels
import Sge.Core.Orderbook
namespace Sge.KernelsTie
open Sge Sge.Gen.Kernels Sge.Core

def krn_pts_BetAmountInt : Nat := krn_odds.length * krn_ints.length * krn_decs.length

/-- first lattice point on which the translated Go kernel and the model differ -/
def krn_lat_BetAmountInt : Option (String × String × String) :=
  krn_odds.findSome? fun ov => krn_ints.findSome? fun avail => krn_decs.findSome? fun tr =>
    krn_cmp (ov, avail, tr) (bet_CalculateBetAmountInt ov (Dec.ofInt avail) tr)
      (match ov with
       | none => none
       | some o => if PREC < o.raw then some (calcBetAmountInt o avail tr) else none)

end Sge.KernelsTie
