/- Lattice evaluation for the kernel tie `PoolAvail` (see SgeProofs/Lemmas/KernelsLattice.lean, bin/kernelstie). -/
import SgeProofs.Lemmas.KernelsLattice
import Sge.Gen.Kernels
import Sge.Reward
namespace Sge.KernelsTie
open Sge Sge.Gen.Kernels Sge.Reward

def krn_pts_PoolAvail : Nat := krn_intsM.length ^ 3

/-- first lattice point on which the translated Go kernel and the model differ -/
def krn_lat_PoolAvail : Option (String × String × String) :=
  krn_intsM.findSome? fun t => krn_intsM.findSome? fun sp => krn_intsM.findSome? fun w =>
    krn_cmp (t, sp, w) (reward_Pool_AvailableAmount t sp w) ({ total := t, spent := sp, withdrawn := w } : Pool).avail

end Sge.KernelsTie
