/- Lattice evaluation for the kernel tie `AvailLiq` (see SgeProofs/Lemmas/KernelsLattice.lean, bin/kernelstie). -/
import SgeProofs.Lemmas.KernelsLattice
import Sge.Gen.Kernels
import Sge.Core.Orderbook
namespace Sge.KernelsTie
open Sge Sge.Gen.Kernels Sge.Core

def krn_pts_AvailLiq : Nat := krn_ints.length * krn_ints.length * krn_decs.length

/-- first lattice point on which the translated Go kernel and the model differ -/
def krn_lat_AvailLiq : Option (String × String × String) :=
  krn_ints.findSome? fun crl => krn_ints.findSome? fun ex => krn_decs.findSome? fun mult =>
    krn_cmp (crl, ex, mult) (orderbook_fulfillmentItem_calcAvailableLiquidity crl ex mult)
      (availLiq mult { (default : Part) with crl := crl } { (default : PExp) with exposure := ex })

end Sge.KernelsTie
