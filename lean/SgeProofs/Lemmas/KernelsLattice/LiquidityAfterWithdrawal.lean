/- Lattice evaluation for the kernel tie `LiquidityAfterWithdrawal` (see SgeProofs/Lemmas/KernelsLattice.lean, bin/kernelstie). -/
import SgeProofs.Lemmas.KernelsLattice
import Sge.Gen.Kernels
import Sge.Core.Orderbook
namespace Sge.KernelsTie
open Sge Sge.Gen.Kernels Sge.Core

def krn_pts_LiquidityAfterWithdrawal : Nat := krn_intsM.length * krn_intsM.length * krn_intsM.length

/-- first lattice point on which the translated Go kernel and the model differ -/
def krn_lat_LiquidityAfterWithdrawal : Option (String × String × String) :=
  krn_intsM.findSome? fun liq => krn_intsM.findSome? fun crl => krn_intsM.findSome? fun w =>
    krn_cmp (liq, crl, w) (orderbook_OrderBookParticipation_SetLiquidityAfterWithdrawal liq crl w) (liq - w, crl - w)

end Sge.KernelsTie
