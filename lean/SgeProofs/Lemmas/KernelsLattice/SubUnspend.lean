/- Lattice evaluation for the kernel tie `SubUnspend` (see SgeProofs/Lemmas/KernelsLattice.lean, bin/kernelstie). -/
import SgeProofs.Lemmas.KernelsLattice
import Sge.Gen.Kernels
import Sge.Subaccount
namespace Sge.KernelsTie
open Sge Sge.Gen.Kernels Sge.Subaccount

def krn_pts_SubUnspend : Nat := krn_ints.length ^ 2

/-- first lattice point on which the translated Go kernel and the model differ -/
def krn_lat_SubUnspend : Option (String × String × String) :=
  krn_ints.findSome? fun sp => krn_ints.findSome? fun amt =>
    krn_cmp (sp, amt) (subaccount_AccountSummary_Unspend sp amt)
      ((({ spent := sp } : Summary).unspend amt).map (·.spent))

end Sge.KernelsTie
