/- Lattice evaluation for the kernel tie `TrimLiquidity` (see SgeProofs/Lemmas/KernelsLattice.lean, bin/kernelstie). -/
import SgeProofs.Lemmas.KernelsLattice
import Sge.Gen.Kernels
import Sge.Core.Orderbook
namespace Sge.KernelsTie
open Sge Sge.Gen.Kernels Sge.Core

def krn_pts_TrimLiquidity : Nat := krn_ints.length * krn_ints.length

/-- first lattice point on which the translated Go kernel and the model differ -/
def krn_lat_TrimLiquidity : Option (String × String × String) :=
  krn_ints.findSome? fun crl => krn_ints.findSome? fun ml =>
    krn_cmp (crl, ml) (orderbook_OrderBookParticipation_TrimCurrentRoundLiquidity crl ml) (crl - maxI 0 ml)

end Sge.KernelsTie
