/- Lattice evaluation for the kernel tie `PayoutProfit` (see SgeProofs/Lemmas/KernelsLattice.lean, bin/kernelstie). -/
import SgeProofs.Lemmas.KernelsLattice
import Sge.Gen.Kernels
import Sge.Core.Chain
namespace Sge.KernelsTie
open Sge Sge.Gen.Kernels Sge.Core

def krn_pts_PayoutProfit : Nat := krn_odds.length * krn_ints.length

/-- first lattice point on which the translated Go kernel and the model differ -/
def krn_lat_PayoutProfit : Option (String × String × String) :=
  krn_odds.findSome? fun ov => krn_ints.findSome? fun amt =>
    krn_cmp (ov, amt) (bet_CalculatePayoutProfit ov amt)
      (match ov with
       | none => none
       | some o => if PREC < o.raw then some ((o.mulInt amt).sub (Dec.ofInt amt)) else none)

end Sge.KernelsTie
