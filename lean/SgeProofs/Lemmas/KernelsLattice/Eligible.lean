/- Lattice evaluation for the kernel tie `Eligible` (see SgeProofs/Lemmas/KernelsLattice.lean, bin/kernelstie). -/
import SgeProofs.Lemmas.KernelsLattice
import Sge.Gen.Kernels
import Sge.Core.Orderbook
namespace Sge.KernelsTie
open Sge Sge.Gen.Kernels Sge.Core

def krn_pts_Eligible : Nat := krn_ints.length

/-- first lattice point on which the translated Go kernel and the model differ -/
def krn_lat_Eligible : Option (String × String × String) :=
  krn_ints.findSome? fun crl =>
    krn_cmp crl (orderbook_OrderBookParticipation_IsEligibleForNextRound crl) (decide ((0 : Int) < crl))

end Sge.KernelsTie
