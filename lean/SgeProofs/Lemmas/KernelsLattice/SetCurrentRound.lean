/- Lattice evaluation for the kernel tie `SetCurrentRound` (see SgeProofs/Lemmas/KernelsLattice.lean, bin/kernelstie). -/
import SgeProofs.Lemmas.KernelsLattice
import Sge.Gen.Kernels
import Sge.Core.Orderbook
namespace Sge.KernelsTie
open Sge Sge.Gen.Kernels Sge.Core

def krn_pts_SetCurrentRound : Nat := krn_intsS.length ^ 6 * krn_ids.length ^ 2

/-- first lattice point on which the translated Go kernel and the model differ -/
def krn_lat_SetCurrentRound : Option (String × String × String) :=
  krn_intsS.findSome? fun t => krn_intsS.findSome? fun tb => krn_intsS.findSome? fun ml => krn_ids.findSome? fun oo =>
  krn_intsS.findSome? fun ex => krn_intsS.findSome? fun bet => krn_ids.findSome? fun o => krn_intsS.findSome? fun b =>
    let p : Part := { (default : Part) with totalBet := t, crTotalBet := tb, crMaxLoss := ml, crMaxLossOdds := oo }
    -- the exposure as applyFul hands it to setMaxLoss is already updated (here: profit 0, bet amount b)
    let e : PExp := { (default : PExp) with exposure := ex, bet := bet - b }
    let m := (applyFul o p e b 0).1
    krn_cmp (t, tb, ml, oo, ex, bet, o, b) (orderbook_OrderBookParticipation_SetCurrentRound t tb ml false oo ex bet o b)
      (m.totalBet, m.crTotalBet, m.crMaxLoss, m.crMaxLossOdds)

end Sge.KernelsTie
