/- Lattice evaluation for the kernel tie `SubAddLoss` (see SgeProofs/Lemmas/KernelsLattice.lean, bin/kernelstie). -/
import SgeProofs.Lemmas.KernelsLattice
import Sge.Gen.Kernels
import Sge.Subaccount
namespace Sge.KernelsTie
open Sge Sge.Gen.Kernels Sge.Subaccount

def krn_pts_SubAddLoss : Nat := krn_ints.length ^ 2

/-- first lattice point on which the translated Go kernel and the model differ -/
def krn_lat_SubAddLoss : Option (String × String × String) :=
  krn_ints.findSome? fun l => krn_ints.findSome? fun amt =>
    krn_cmp (l, amt) (subaccount_AccountSummary_AddLoss l amt)
      ((({ lost := l } : Summary).addLoss amt).map (·.lost))

end Sge.KernelsTie
