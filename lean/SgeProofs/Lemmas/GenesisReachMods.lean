/-
  Reachability of the genesis invariants of the non-core modules, part 1: x/ovm and x/subaccount.

  x/ovm         `grm_OvI`   both proposal stores are sorted by id (the Prop behind `ovmInv`), kept by every operation
                            of `Sge.Ovm.step` (submit, vote, end-block — aborting and halting ones included).
  x/subaccount  `grm_SubI`  the five fields of `SubInv` (SgeProofs/Properties/C16.lean), kept by every operation of
                            `Sge.Subaccount.step`, whatever the other modules do (no assumption on the `…Ext`
                            parameters, on the bank balances or on the patch flags).
-/
import SgeProofs.Lemmas.GenesisSub
import SgeProofs.Lemmas.OvmInv
import SgeProofs.Lemmas.Subaccount
namespace Sge.Genesis
open Sge

-- =============================================================================================
-- x/ovm

/-- both proposal stores are in KV iteration order -/
def grm_OvI (s : Ovm.State) : Prop := SortedIds s.active ∧ SortedIds s.finished

theorem grm_setP_sorted : ∀ (l : List Ovm.Proposal) (p : Ovm.Proposal), SortedIds l → SortedIds (Ovm.setP l p)
  | [], p, _ => by simp [Ovm.setP, SortedIds]
  | q :: rest, p, h => by
    unfold SortedIds at h ⊢
    rw [List.pairwise_cons] at h
    unfold Ovm.setP
    split
    · rename_i hlt
      rw [List.pairwise_cons, List.pairwise_cons]
      refine ⟨?_, h.1, h.2⟩
      intro r hr
      rcases List.mem_cons.mp hr with e | hr
      · rw [e]; exact hlt
      · have := h.1 r hr; omega
    · split
      · rename_i heq
        rw [List.pairwise_cons]
        refine ⟨fun r hr => ?_, h.2⟩
        have := h.1 r hr; omega
      · rename_i hnlt hne
        rw [List.pairwise_cons]
        refine ⟨fun r hr => ?_, grm_setP_sorted rest p h.2⟩
        rcases Ovm.mem_setP rest p r hr with e | hr
        · rw [e]; omega
        · exact h.1 r hr

theorem grm_delP_sorted (l : List Ovm.Proposal) (id : Nat) (h : SortedIds l) : SortedIds (Ovm.delP l id) := by
  unfold Ovm.delP SortedIds
  exact List.Pairwise.filter _ h

theorem grm_finish_inv (s s' : Ovm.State) (id : Nat) (r : Ovm.Result) (now : Int) (hi : grm_OvI s)
    (h : Ovm.finish s id r now = some s') : grm_OvI s' := by
  unfold Ovm.finish at h
  split at h
  · cases h
  · simp only [Option.some.injEq] at h
    subst h
    exact ⟨grm_delP_sorted _ _ hi.1, grm_setP_sorted _ _ hi.2⟩

theorem grm_finishStep_inv (s s' : Ovm.State) (id : Nat) (r : Ovm.Result) (now : Int) (hi : grm_OvI s)
    (h : Ovm.finishStep s id r now = .cont s' ∨ Ovm.finishStep s id r now = .abort s') : grm_OvI s' := by
  unfold Ovm.finishStep at h
  cases hf : Ovm.finish s id r now with
  | none =>
    rw [hf] at h
    rcases h with h | h
    · cases h
    · injection h with h; subst h; exact hi
  | some s1 =>
    rw [hf] at h
    rcases h with h | h
    · injection h with h; subst h; exact grm_finish_inv s s1 id r now hi hf
    · cases h

theorem grm_processOne_inv (fixed : Bool) (now : Int) (v0 : List Ovm.Pem) (s s' : Ovm.State) (p : Ovm.Proposal)
    (hi : grm_OvI s)
    (h : Ovm.processOne fixed now v0 s p = .cont s' ∨ Ovm.processOne fixed now v0 s p = .abort s') : grm_OvI s' := by
  unfold Ovm.processOne at h
  split at h
  · exact grm_finishStep_inv _ _ _ _ _ hi h
  · split at h
    · exact grm_finishStep_inv _ _ _ _ _ hi h
    · split at h
      · rcases h with h | h <;> cases h
      · split at h
        · rcases h with h | h
          · cases h
          · injection h with h; subst h; exact hi
        · rename_i s1 hf
          have h1 := grm_finish_inv _ _ _ _ _ hi hf
          rcases h with h | h
          · injection h with h; subst h; exact h1
          · cases h
    · rcases h with h | h
      · injection h with h; subst h; exact hi
      · cases h

theorem grm_finishLoop_inv (fixed : Bool) (now : Int) (v0 : List Ovm.Pem) : ∀ (l : List Ovm.Proposal) (s s' : Ovm.State),
    grm_OvI s → (Ovm.finishLoop fixed now v0 l s = .cont s' ∨ Ovm.finishLoop fixed now v0 l s = .abort s') → grm_OvI s'
  | [], s, s', hi, h => by
    simp only [Ovm.finishLoop] at h
    rcases h with h | h
    · injection h with h; subst h; exact hi
    · cases h
  | p :: rest, s, s', hi, h => by
    cases h1 : Ovm.processOne fixed now v0 s p with
    | cont s1 =>
      rw [Ovm.finishLoop_cons_cont fixed now v0 p rest s s1 h1] at h
      exact grm_finishLoop_inv fixed now v0 rest s1 s' (grm_processOne_inv fixed now v0 s s1 p hi (Or.inl h1)) h
    | abort s1 =>
      simp only [Ovm.finishLoop, h1] at h
      rcases h with h | h
      · cases h
      · injection h with h; subst h
        exact grm_processOne_inv fixed now v0 s s1 p hi (Or.inr h1)
    | halt =>
      simp only [Ovm.finishLoop, h1] at h
      rcases h with h | h <;> cases h

theorem grm_endBlock_inv (fixed : Bool) (s : Ovm.State) (now : Int) (hi : grm_OvI s) :
    grm_OvI (Ovm.endBlock fixed s now).1 := by
  unfold Ovm.endBlock
  cases h : Ovm.finishLoop fixed now s.vault s.active s with
  | cont s' => exact grm_finishLoop_inv fixed now s.vault s.active s s' hi (Or.inl h)
  | abort s' => exact grm_finishLoop_inv fixed now s.vault s.active s s' hi (Or.inr h)
  | halt => exact hi

theorem grm_submitMsg_inv (fixed : Bool) (s : Ovm.State) (now : Int) (c : Nat) (t : Ovm.Ticket Ovm.ProposalPayload)
    (hi : grm_OvI s) : grm_OvI (Ovm.submitMsg fixed s now c t).1 := by
  cases hr : (Ovm.submitMsg fixed s now c t).2 with
  | false => rw [Ovm.submitMsg_err fixed s now c t hr]; exact hi
  | true =>
    obtain ⟨pl, _, _, hs⟩ := Ovm.submitMsg_ok fixed s now c t hr
    rw [hs]
    exact ⟨grm_setP_sorted _ _ hi.1, hi.2⟩

theorem grm_voteMsg_inv (fixed : Bool) (s : Ovm.State) (now : Int) (i : Nat) (t : Ovm.Ticket Ovm.VotePayload)
    (hi : grm_OvI s) : grm_OvI (Ovm.voteMsg fixed s now i t).1 := by
  cases hr : (Ovm.voteMsg fixed s now i t).2 with
  | false => rw [Ovm.voteMsg_err fixed s now i t hr]; exact hi
  | true =>
    obtain ⟨pk, pl, v, p, _, _, _, _, _, hs⟩ := Ovm.voteMsg_ok fixed s now i t hr
    rw [hs]
    exact ⟨grm_setP_sorted _ _ hi.1, hi.2⟩

theorem grm_ovm_step_inv (fixed : Bool) (s : Ovm.State) (now : Int) (op : Ovm.Op) (hi : grm_OvI s) :
    grm_OvI (Ovm.step fixed s now op) := by
  cases op with
  | submit c t => exact grm_submitMsg_inv fixed s now c t hi
  | vote i t => exact grm_voteMsg_inv fixed s now i t hi
  | endBlock => exact grm_endBlock_inv fixed s now hi

theorem grm_ovm_run_inv (fixed : Bool) : ∀ (ops : List (Int × Ovm.Op)) (s : Ovm.State), grm_OvI s → grm_OvI (Ovm.run fixed s ops)
  | [], _, hi => hi
  | (now, op) :: rest, s, hi => grm_ovm_run_inv fixed rest _ (grm_ovm_step_inv fixed s now op hi)

theorem grm_ovmInv_of (s : Ovm.State) (h : grm_OvI s) : ovmInv s = true := by
  unfold ovmInv
  rw [Bool.and_eq_true, sortedIds_iff, sortedIds_iff]
  exact h

/-- a list of parsing, pairwise different strings denoting pairwise different keys passes the patched duplicate check -/
theorem grm_distinctKeys_of_nodup : ∀ (l : List Ovm.Pem), l.Nodup → (l.map Ovm.decode).Nodup → Ovm.distinctKeys l = true
  | [], _, _ => rfl
  | x :: xs, h1, h2 => by
    rw [List.nodup_cons] at h1
    rw [List.map_cons, List.nodup_cons] at h2
    unfold Ovm.distinctKeys
    rw [Bool.and_eq_true]
    refine ⟨?_, grm_distinctKeys_of_nodup xs h1.2 h2.2⟩
    rw [Bool.not_eq_true', List.any_eq_false]
    intro y hy hs
    rcases Ovm.sameKey_true x y hs with e | ⟨_, e⟩
    · exact h1.1 (e ▸ hy)
    · exact h2.1 (e ▸ List.mem_map_of_mem hy)

-- =============================================================================================
-- x/subaccount

section sub
open Sge.Subaccount

/-- the fields of `SubInv` -/
structure grm_SubI (s : State) : Prop where
  idpos : s.nextId ≠ 0
  dom : ∀ a o, s.subMap a = some o → ∃ id, id < s.nextId ∧ a = addrOf id
  subs : ∀ a, s.subMap a ≠ none ↔ s.subs a ≠ none
  own : ∀ o a, s.ownerMap o = some a ↔ s.subMap a = some o
  locks : ∀ a sub, s.subs a = some sub → DistinctTs sub.locks

theorem grm_setLock_distinct (ls : List Lock) (l : Lock) (h : DistinctTs ls) : DistinctTs (setLock ls l) := by
  unfold setLock DistinctTs
  rw [List.pairwise_cons]
  refine ⟨?_, List.Pairwise.filter _ h⟩
  intro x hx
  have := (List.mem_filter.mp hx).2
  simp only [ne_eq, decide_not, Bool.not_eq_eq_eq_not, Bool.not_true, decide_eq_false_iff_not] at this
  exact fun e => this e.symm

theorem grm_setLocks_distinct (new ls : List Lock) (h : DistinctTs ls) : DistinctTs (setLocks ls new) := by
  unfold setLocks
  induction new generalizing ls with
  | nil => exact h
  | cons l rest ih => exact ih _ (grm_setLock_distinct ls l h)

/-- the four stores of the module are untouched -/
theorem grm_SubI.congr {s s' : State} (h : grm_SubI s) (h1 : s'.nextId = s.nextId) (h2 : s'.ownerMap = s.ownerMap)
    (h3 : s'.subMap = s.subMap) (h4 : s'.subs = s.subs) : grm_SubI s' := by
  refine ⟨?_, ?_, ?_, ?_, ?_⟩
  · rw [h1]; exact h.idpos
  · rw [h1, h3]; exact h.dom
  · rw [h3, h4]; exact h.subs
  · rw [h2, h3]; exact h.own
  · rw [h4]; exact h.locks

/-- bank and one existing subaccount record change -/
theorem grm_SubI.update {s : State} (hinv : grm_SubI s) {a : Nat} {sub sub' : Sub} {bank' : Nat → Int} {clean' : Bool}
    (hs : s.subs a = some sub) (hok : DistinctTs sub'.locks) :
    grm_SubI { s with bank := bank', subs := upd s.subs a (some sub'), clean := clean' } := by
  refine ⟨hinv.idpos, hinv.dom, ?_, hinv.own, ?_⟩
  · intro a'
    show s.subMap a' ≠ none ↔ upd s.subs a (some sub') a' ≠ none
    by_cases e : a' = a
    · subst e
      rw [upd_same]
      have := (hinv.subs a').mpr (by rw [hs]; simp)
      exact ⟨fun _ => by simp, fun _ => this⟩
    · rw [upd_other _ _ _ _ e]; exact hinv.subs a'
  · intro a' sub'' h
    have h : upd s.subs a (some sub') a' = some sub'' := h
    by_cases e : a' = a
    · subst e
      rw [upd_same] at h
      cases h
      exact hok
    · rw [upd_other _ _ _ _ e] at h
      exact hinv.locks a' sub'' h

theorem grm_createKeeper_inv {s : State} (hinv : grm_SubI s) (creator owner : Nat) (ls : List Lock) :
    grm_SubI (createKeeper s creator owner ls).1 := by
  unfold createKeeper
  split
  · exact hinv
  · split
    · exact hinv
    · rename_i hown
      dsimp only
      split
      · exact hinv
      · have hfreshMap : s.subMap (addrOf s.nextId) = none := by
          cases h : s.subMap (addrOf s.nextId) with
          | none => rfl
          | some x =>
            obtain ⟨id, hid, e⟩ := hinv.dom _ _ h
            simp only [addrOf] at e
            omega
        have hfreshSub : s.subs (addrOf s.nextId) = none := by
          cases h : s.subs (addrOf s.nextId) with
          | none => rfl
          | some x =>
            have := (hinv.subs (addrOf s.nextId)).mpr (by rw [h]; simp)
            exact absurd hfreshMap this
        refine ⟨?_, ?_, ?_, ?_, ?_⟩
        · show s.nextId + 1 ≠ 0
          omega
        · intro a o h
          have h : upd s.subMap (addrOf s.nextId) (some owner) a = some o := h
          show ∃ id, id < s.nextId + 1 ∧ a = addrOf id
          by_cases e : a = addrOf s.nextId
          · exact ⟨s.nextId, by omega, e⟩
          · rw [upd_other _ _ _ _ e] at h
            obtain ⟨id, hid, e'⟩ := hinv.dom a o h
            exact ⟨id, by omega, e'⟩
        · intro a
          show upd s.subMap (addrOf s.nextId) (some owner) a ≠ none ↔ upd s.subs (addrOf s.nextId) _ a ≠ none
          by_cases e : a = addrOf s.nextId
          · subst e
            rw [upd_same, upd_same]
            simp
          · rw [upd_other _ _ _ _ e, upd_other _ _ _ _ e]
            exact hinv.subs a
        · intro o a
          show upd s.ownerMap owner (some (addrOf s.nextId)) o = some a ↔ upd s.subMap (addrOf s.nextId) (some owner) a = some o
          simp only [upd_apply]
          by_cases e1 : o = owner <;> by_cases e2 : a = addrOf s.nextId
          · simp [e1, e2]
          · subst e1
            simp only [if_true, if_neg e2, Option.some.injEq]
            constructor
            · intro h; exact absurd h.symm e2
            · intro h
              have := (hinv.own o a).mpr h
              rw [hown] at this; cases this
          · subst e2
            simp only [if_neg e1, if_true, Option.some.injEq]
            constructor
            · intro h
              have := (hinv.own o _).mp h
              rw [hfreshMap] at this; cases this
            · intro h; exact absurd h.symm e1
          · simp only [if_neg e1, if_neg e2]
            exact hinv.own o a
        · intro a sub h
          have h : upd s.subs (addrOf s.nextId) _ a = some sub := h
          by_cases e : a = addrOf s.nextId
          · subst e
            rw [upd_same] at h
            cases h
            exact grm_setLocks_distinct ls [] (by simp [DistinctTs])
          · rw [upd_other _ _ _ _ e] at h
            exact hinv.locks a sub h

theorem grm_topUpKeeper_inv {s : State} (hinv : grm_SubI s) (creator owner : Nat) (ls : List Lock) :
    grm_SubI (topUpKeeper s creator owner ls).1 := by
  unfold topUpKeeper
  split
  · exact hinv
  · split
    · exact hinv
    · split
      · exact hinv
      · rename_i a _ _ sub hs
        split
        · exact hinv
        · split
          · exact hinv
          · exact hinv.update (clean' := s.clean) hs (grm_setLocks_distinct ls sub.locks (hinv.locks a sub hs))

theorem grm_withdrawUnlockedAt_inv {s : State} (hinv : grm_SubI s) (a owner : Nat) :
    grm_SubI (withdrawUnlockedAt s a owner).1 := by
  unfold withdrawUnlockedAt
  split
  · exact hinv
  · rename_i sub hs
    simp only
    split
    · exact hinv
    · split
      · exact hinv
      · split
        · exact hinv
        · exact hinv.update (clean' := s.clean) hs (hinv.locks a sub hs)

theorem grm_withdrawLockedAt_inv {s : State} (hinv : grm_SubI s) (a owner : Nat) (d : Int) :
    grm_SubI (withdrawLockedAt s a owner d).1 := by
  unfold withdrawLockedAt
  split
  · exact hinv
  · rename_i sub hs
    simp only
    split
    · exact hinv
    · split
      · exact hinv
      · split
        · exact hinv
        · split
          · exact hinv
          · exact hinv.update (clean' := s.clean) hs (hinv.locks a sub hs)

theorem grm_wagerBet_inv {s0 s1 : State} (h0 : grm_SubI s0) (h1 : grm_SubI s1) (owner a : Nat) (x : WagerExt) :
    grm_SubI (wagerBet s0 s1 owner a x).1 := by
  unfold wagerBet
  split
  · exact h0
  · split
    · exact h0
    · split
      · exact h0
      · rename_i sub hs
        exact h1.update (clean' := s1.clean) hs (h1.locks a sub hs)

theorem grm_wagerReturn_inv {s0 s2 : State} (h0 : grm_SubI s0) (h2 : grm_SubI s2) (owner a : Nat) (main sub : Int) :
    grm_SubI (wagerReturn s0 s2 owner a main sub).1 := by
  unfold wagerReturn
  split
  · exact h2
  · dsimp only
    split
    · exact h2
    · split
      · exact h0
      · rename_i sb hs
        split
        · exact h0
        · split
          · exact h0
          · exact h2.update (clean' := s2.clean) hs (h2.locks a sb hs)

theorem grm_wagerTail_inv {s : State} (hinv : grm_SubI s) (owner a : Nat) (main sub : Int) (x : WagerExt) :
    grm_SubI (wagerTail s owner a main sub x).1 := by
  unfold wagerTail
  cases h1 : withdrawLockedAt s a owner sub with
  | mk s1 r1 =>
    cases r1 with
    | ok =>
      dsimp only
      have hi1 : grm_SubI s1 := by
        have := grm_withdrawLockedAt_inv hinv a owner sub
        rw [h1] at this; exact this
      cases h2 : wagerBet s s1 owner a x with
      | mk s2 r2 =>
        cases r2 with
        | ok =>
          dsimp only
          have hi2 : grm_SubI s2 := by
            have := grm_wagerBet_inv hinv hi1 owner a x
            rw [h2] at this; exact this
          exact grm_wagerReturn_inv hinv hi2 owner a main sub
        | err e => exact hinv
        | panic => exact hinv
    | err e => exact hinv
    | panic => exact hinv

theorem grm_wager_inv {s : State} (hinv : grm_SubI s) (owner : Nat) (main sub : Int) (x : WagerExt) :
    grm_SubI (wager s owner main sub x).1 := by
  unfold wager
  repeat' split
  all_goals first
    | exact hinv
    | exact grm_wagerTail_inv hinv _ _ _ _ _

theorem grm_houseDeposit_inv {s : State} (hinv : grm_SubI s) (owner : Nat) (amount : Int) (x : HouseDepExt) :
    grm_SubI (houseDeposit s owner amount x).1 := by
  unfold houseDeposit
  split
  · exact hinv
  · split
    · exact hinv
    · split
      · exact hinv
      · rename_i a _ _ sub hs
        split
        · exact hinv
        · split
          · exact hinv
          · split
            · exact hinv
            · split
              · exact hinv
              · exact hinv.update (clean' := s.clean) hs (hinv.locks a sub hs)

theorem grm_houseWithdraw_inv {s : State} (hinv : grm_SubI s) (owner : Nat) (x : HouseWdExt) :
    grm_SubI (houseWithdraw s owner x).1 := by
  unfold houseWithdraw
  split
  · exact hinv
  · split
    · exact hinv
    · rename_i a _ _ sub hs
      split
      · exact hinv
      · split
        · exact hinv
        · split
          · exact hinv
          · split
            · exact hinv
            · exact hinv.update (clean' := s.clean) hs (hinv.locks a sub hs)

theorem grm_hookWin_inv {s : State} (hinv : grm_SubI s) (house : Nat) (orig profit : Int) :
    grm_SubI (hookWin s house orig profit).1 := by
  unfold hookWin
  split
  · exact hinv
  · rename_i sub hs
    split
    · exact hinv
    · split
      · exact hinv
      · split
        · exact hinv
        · exact hinv.update (clean' := s.clean) hs (hinv.locks house sub hs)

theorem grm_hookLoss_inv {s : State} (hinv : grm_SubI s) (house : Nat) (orig lost : Int) :
    grm_SubI (hookLoss s house orig lost).1 := by
  unfold hookLoss
  split
  · exact hinv
  · rename_i sub hs
    split
    · exact hinv
    · split
      · exact hinv
      · exact hinv.update (clean' := s.clean) (bank' := s.bank) hs (hinv.locks house sub hs)

theorem grm_hookRefund_inv {s : State} (hinv : grm_SubI s) (house : Nat) (orig : Int) :
    grm_SubI (hookRefund s house orig).1 := by
  unfold hookRefund
  split
  · exact hinv
  · rename_i sub hs
    split
    · exact hinv
    · exact hinv.update (clean' := s.clean) (bank' := s.bank) hs (hinv.locks house sub hs)

theorem grm_hook_inv {s : State} (hinv : grm_SubI s) (k : HookKind) (house : Nat) (x y : Int) :
    grm_SubI (hook s k house x y).1 := by
  unfold hook
  cases k
  · exact grm_hookWin_inv hinv ..
  · exact grm_hookLoss_inv hinv ..
  · exact grm_hookRefund_inv hinv ..
  · exact grm_hookRefund_inv hinv ..

theorem grm_settle_inv {s : State} (hinv : grm_SubI s) (k : HookKind) (house : Nat) (refund x y : Int) :
    grm_SubI (settle s k house refund x y).1 := by
  unfold settle
  split
  · exact hinv
  · rename_i bank1 hsend
    simp only
    have h1 : grm_SubI { s with bank := bank1, clean := s.clean && (decide (house < subBase) || (s.subs house).isSome) } :=
      hinv.congr rfl rfl rfl rfl
    have h2 := grm_hook_inv h1 k house x y
    split
    · rename_i s2 heq
      rw [heq] at h2; exact h2
    · exact hinv

theorem grm_grantCreate_inv {s : State} (hinv : grm_SubI s) (creator receiver : Nat) :
    grm_SubI (grantCreate s creator receiver).1 := by
  unfold grantCreate
  split
  · exact hinv
  · exact grm_createKeeper_inv hinv _ _ _

theorem grm_grant_inv {s : State} (hinv : grm_SubI s) (creator receiver : Nat) (amt : Int) (period : Nat) :
    grm_SubI (grant s creator receiver amt period).1 := by
  unfold grant
  split
  · rename_i s1 heq
    have hc : grm_SubI s1 := by
      have h := congrArg Prod.fst heq
      simp only at h
      rw [← h]; exact grm_grantCreate_inv hinv _ _
    split
    · have h2 := grm_topUpKeeper_inv hc poolAcct receiver [(s.now + period, amt)]
      split
      · rename_i s2 heq2
        rw [heq2] at h2; exact h2
      · exact hinv
    · exact hc
  · exact hinv

theorem grm_sub_step_inv {s : State} (hinv : grm_SubI s) (op : Op) : grm_SubI (step s op).1 := by
  cases op with
  | advance dt => exact hinv.congr rfl rfl rfl rfl
  | params w d => exact hinv.congr rfl rfl rfl rfl
  | fund a v =>
    show grm_SubI (fund s a v).1
    unfold fund
    split
    · exact hinv
    · exact hinv.congr rfl rfl rfl rfl
  | send f t v =>
    show grm_SubI (bankSend s f t v).1
    unfold bankSend
    split
    · exact hinv
    · exact hinv.congr rfl rfl rfl rfl
  | create c o ls =>
    show grm_SubI (create s c o ls).1
    unfold create
    split
    · exact hinv
    · exact grm_createKeeper_inv hinv c o ls
  | topUp c o ls =>
    show grm_SubI (topUp s c o ls).1
    unfold topUp
    split
    · exact hinv
    · exact grm_topUpKeeper_inv hinv c o ls
  | withdrawUnlocked o =>
    show grm_SubI (withdrawUnlocked s o).1
    unfold withdrawUnlocked
    split
    · exact hinv
    · exact grm_withdrawUnlockedAt_inv hinv _ _
  | grant c r amt p => exact grm_grant_inv hinv c r amt p
  | wager o m sb x => exact grm_wager_inv hinv o m sb x
  | houseDeposit o amt x => exact grm_houseDeposit_inv hinv o amt x
  | houseWithdraw o x => exact grm_houseWithdraw_inv hinv o x
  | settle k h r x y => exact grm_settle_inv hinv k h r x y

theorem grm_sub_run_inv {s : State} (hinv : grm_SubI s) (ops : List Op) : grm_SubI (run s ops) := by
  unfold run
  induction ops generalizing s with
  | nil => exact hinv
  | cons op rest ih =>
    simp only [List.foldl_cons]
    exact ih (grm_sub_step_inv hinv op)

theorem grm_sub_init_inv (fixed fixedNeg fixedRet : Bool) (bank : Nat → Int) :
    grm_SubI (initCfg fixed fixedNeg fixedRet bank) := by
  refine ⟨?_, ?_, ?_, ?_, ?_⟩ <;> simp [initCfg]

end sub

end Sge.Genesis
