/-
  L3: the pool equation  bank(reward pool) = Σ_campaigns (total − spent − withdrawn).
  It needs every stored campaign to have non-negative reward components (`AmtNonneg`): true of the patched
  validation (`fixed = true`), an input assumption (`OpNonneg`) for the code as it is.
-/
import SgeProofs.Lemmas.RewardInv
namespace Sge.Reward
open Sge

def AmtNonneg (a : Amt) : Prop := 0 ≤ a.main ∧ 0 ≤ a.sub ∧ 0 ≤ a.mainPct.raw ∧ 0 ≤ a.subPct.raw

/-- no component of the ticket's reward amount is negative (absent components count as zero) -/
def PayloadNonneg (ra : AmtP) : Prop :=
  negI ra.main = false ∧ negI ra.sub = false ∧ negD ra.mainPct = false ∧ negD ra.subPct = false

/-- the inputs the partial theorems keep: campaign-creation tickets without negative reward components -/
def OpNonneg : Op → Prop
  | .createCampaign m => ∀ ra, m.ra = some ra → PayloadNonneg ra
  | _ => True

structure PoolEq (s : State) : Prop where
  nonneg : ∀ c ∈ s.campaigns, AmtNonneg c.amt
  bets : ∀ b ∈ s.bets, 0 ≤ b.amount
  eq : s.bank POOL = booked s.campaigns

theorem poolEq_init (fixed : Bool) (bal : Nat → Int) : PoolEq (init fixed bal) := by
  refine ⟨?_, ?_, ?_⟩
  · intro x hx; cases hx
  · intro x hx; cases hx
  · simp [init, booked]

theorem storeAmt_nonneg {ra : AmtP} (h : PayloadNonneg ra) : AmtNonneg (storeAmt ra) := by
  obtain ⟨h1, h2, h3, h4⟩ := h
  unfold storeAmt AmtNonneg
  refine ⟨?_, ?_, ?_, ?_⟩
  · cases hm : ra.main <;> simp_all [negI]
  · cases hm : ra.sub <;> simp_all [negI]
  · cases hm : ra.mainPct <;> simp_all [negD, Dec.zero]
  · cases hm : ra.subPct <;> simp_all [negD, Dec.zero]

theorem validateAmounts_fixed {amtType : Nat} {ra : AmtP} (h : validateAmounts true amtType ra = none) :
    PayloadNonneg ra := by
  unfold validateAmounts at h
  invert h
  rename_i hneg _
  simp only [anyNeg, Bool.true_and, Bool.or_eq_true, not_or, Bool.not_eq_true] at hneg
  exact ⟨hneg.1.1.1, hneg.1.1.2, hneg.1.2, hneg.2⟩

theorem createChecks_ra {fixed : Bool} {time : Nat} {m : CreateMsg} {funds : Int}
    (h : createChecks fixed time m funds = none) :
    ∃ ra, m.ra = some ra ∧ validateAmounts fixed m.amtType ra = none := by
  unfold createChecks at h
  split at h
  · cases h
  · rename_i hv
    split at h
    · cases h
    · rename_i ra hra
      refine ⟨ra, hra, ?_⟩
      unfold validateCreate at hv
      invert hv
      rename_i ra' hra' 
      rw [hra] at hra'; cases hra'
      exact hv

theorem newCampaign_nonneg {fixed : Bool} {time : Nat} {m : CreateMsg} {funds : Int}
    (h : createChecks fixed time m funds = none)
    (hok : fixed = true ∨ ∀ ra, m.ra = some ra → PayloadNonneg ra) : AmtNonneg (newCampaign m funds).amt := by
  obtain ⟨ra, hra, hv⟩ := createChecks_ra h
  have hp : PayloadNonneg ra := by
    cases hok with
    | inl hf => subst hf; exact validateAmounts_fixed hv
    | inr hn => exact hn ra hra
  show AmtNonneg (storeAmt (m.ra.getD default))
  rw [hra]
  exact storeAmt_nonneg hp

/-! ### amounts of a grant -/

theorem minI_nonneg {a b : Int} (ha : 0 ≤ a) (hb : 0 ≤ b) : 0 ≤ minI a b := by
  unfold minI; split <;> omega

theorem effBet_nonneg (c : Campaign) {x : Int} (h : 0 ≤ x) : 0 ≤ effBet c x := by
  unfold effBet
  split
  · split
    · exact minI_nonneg (by omega) h
    · exact h
  · exact h

theorem pctAmount_nonneg {eff : Int} {p : Dec} (he : 0 ≤ eff) (hp : 0 ≤ p.raw) : 0 ≤ ((Dec.ofInt eff).mul p).truncInt := by
  unfold Dec.truncInt Dec.mul Dec.ofInt
  apply chopTrunc_ge_zero
  apply chopRound_nonneg
  have : 0 ≤ eff * PREC := Int.mul_nonneg he (by unfold PREC; omega)
  exact Int.mul_nonneg this hp

theorem betAmt_nonneg {c : Campaign} {b : Bet} (hc : AmtNonneg c.amt) (hb : 0 ≤ b.amount) : AmtNonneg (betAmt c b) := by
  obtain ⟨_, _, h3, h4⟩ := hc
  have he := effBet_nonneg c hb
  exact ⟨pctAmount_nonneg he h3, pctAmount_nonneg he h4, h3, h4⟩

theorem fixedAmt_nonneg {c : Campaign} (hc : AmtNonneg c.amt) : AmtNonneg (fixedAmt c) := by
  obtain ⟨h1, h2, _, _⟩ := hc
  exact ⟨h1, h2, by simp [fixedAmt, Dec.zero], by simp [fixedAmt, Dec.zero]⟩

theorem betLookup_mem {bets : List Bet} {uid receiver : Nat} {b : Bet} (h : betLookup bets uid receiver = some b) :
    b ∈ bets ∧ b.owner = receiver ∧ b.isMain = true ∧ (b.result = 3 ∨ b.result = 2) := by
  unfold betLookup at h
  invert h
  injection h with h; subst h
  rename_i hb _ _ _
  refine ⟨getBy_mem _ _ _ _ hb, by simp_all, by simp_all, by omega⟩

/-- what `DistributeRewards` takes out of the pool: the positive components, nothing else -/
theorem distribute_pool {time : Nat} {bank : Bank} {subs : List Sub} {receiver : Nat} {a : Amt} {d : Bank × List Sub}
    (h : distribute time bank subs receiver a = .ok d) :
    d.1 POOL = bank POOL - (if 0 < a.sub then a.sub else 0) - (if 0 < a.main then a.main else 0) := by
  obtain ⟨r, hs, hm, _⟩ := distribute_ok h
  have h1 : r.1 POOL = bank POOL - (if 0 < a.sub then a.sub else 0) := by
    rcases distSub_ok hs with ⟨hpos, hsend, _⟩ | ⟨hle, rfl⟩
    · rw [if_pos hpos]
      exact send_from_pool hsend (by unfold SUBBASE POOL; omega)
    · rw [if_neg (by omega)]; simp
  have h2 : d.1 POOL = r.1 POOL - (if 0 < a.main then a.main else 0) := by
    rcases distMain_ok hm with ⟨hpos, hne, hsend⟩ | ⟨hle, he⟩
    · rw [if_pos hpos]
      exact send_from_pool hsend hne
    · rw [if_neg (by omega), he]; simp
  omega

/-! ### preservation -/

theorem poolEq_createCampaign {s s' : State} {m : CreateMsg} (hI : Inv s) (hP : PoolEq s)
    (hok : s.fixed = true ∨ ∀ ra, m.ra = some ra → PayloadNonneg ra)
    (h : createCampaign s m = .ok s') : PoolEq s' := by
  obtain ⟨funds, gs, bank, _, hpos, hnone, _, hprom, _, hchk, hsend, rfl⟩ := createCampaign_ok h
  obtain ⟨x, hx, hxa⟩ := getA_some_mem hprom
  have hne : m.promoter ≠ POOL := by rw [← hxa]; exact hI.addrOk x hx
  refine ⟨?_, hP.bets, ?_⟩
  · intro c hc
    cases mem_setC _ _ _ hc with
    | inl e => rw [e]; exact newCampaign_nonneg hchk hok
    | inr hm => exact hP.nonneg c hm
  · show bank POOL = booked (setC s.campaigns (newCampaign m funds))
    rw [send_to_pool hsend hne, booked_setC_none _ _ hnone, hP.eq]
    simp [newCampaign, Pool.avail]

theorem poolEq_updateCampaign {s s' : State} {m : UpdateMsg} (hI : Inv s) (hP : PoolEq s)
    (h : updateCampaign s m = .ok s') : PoolEq s' := by
  obtain ⟨c, gs, hget, _, _, _, _, hcase⟩ := updateCampaign_ok h
  have hu := getC_uid _ _ _ hget
  have hmem := getC_mem _ _ _ hget
  have hne := hI.promOk c hmem
  rw [← hu] at hget
  rcases hcase with ⟨t, bank, _, htpos, hsend, rfl⟩ | ⟨_, rfl⟩
  · refine ⟨?_, hP.bets, ?_⟩
    · intro x hx
      cases mem_setC _ _ _ hx with
      | inl e => rw [e]; exact hP.nonneg c hmem
      | inr hm => exact hP.nonneg x hm
    · show bank POOL = booked (setC s.campaigns _)
      rw [send_to_pool hsend hne, booked_setC_same _ c _ hget, hP.eq]
      · simp only [Pool.avail]; omega
      · rfl
  · refine ⟨?_, hP.bets, ?_⟩
    · intro x hx
      cases mem_setC _ _ _ hx with
      | inl e => rw [e]; exact hP.nonneg c hmem
      | inr hm => exact hP.nonneg x hm
    · show s.bank POOL = booked (setC s.campaigns _)
      rw [booked_setC_same _ c _ hget, hP.eq]
      · simp only [Pool.avail]; omega
      · rfl

theorem poolEq_withdrawFunds {s s' : State} {m : WithdrawMsg} (hI : Inv s) (hP : PoolEq s)
    (h : withdrawFunds s m = .ok s') : PoolEq s' := by
  obtain ⟨c, gs, amount, bank, hget, _, hprom, _, _, _, _, hsend, rfl⟩ := withdrawFunds_ok h
  have hu := getC_uid _ _ _ hget
  have hmem := getC_mem _ _ _ hget
  have hne : m.promoter ≠ POOL := by rw [hprom]; exact hI.promOk c hmem
  rw [← hu] at hget
  refine ⟨?_, hP.bets, ?_⟩
  · intro x hx
    cases mem_setC _ _ _ hx with
    | inl e => rw [e]; exact hP.nonneg c hmem
    | inr hm => exact hP.nonneg x hm
  · show bank POOL = booked (setC s.campaigns _)
    rw [send_from_pool hsend hne, booked_setC_same _ c _ hget, hP.eq]
    · simp only [Pool.avail]; omega
    · rfl

theorem grant_amt_nonneg {s : State} {c : Campaign} {m : GrantMsg} {r : List Sub × Amt} (hP : PoolEq s)
    (hc : AmtNonneg c.amt) (h : calculate s c m = .ok r) : AmtNonneg r.2 := by
  obtain ⟨_, _, hcase⟩ := calculate_ok h
  rcases hcase with ⟨_, he⟩ | ⟨_, b, hb, he⟩
  · rw [he]; exact fixedAmt_nonneg hc
  · rw [he]; exact betAmt_nonneg hc (hP.bets b (betLookup_mem hb).1)

theorem poolEq_grantReward {s s' : State} {m : GrantMsg} (hP : PoolEq s)
    (h : grantReward s m = .ok s') : PoolEq s' := by
  obtain ⟨c, r, caps, d, _, hget, _, _, _, hcalc, _, _, hdist, rfl⟩ := grantReward_ok h
  have hu := getC_uid _ _ _ hget
  have hmem := getC_mem _ _ _ hget
  have hnn := grant_amt_nonneg hP (hP.nonneg c hmem) hcalc
  rw [← hu] at hget
  refine ⟨?_, hP.bets, ?_⟩
  · intro x hx
    cases mem_setC _ _ _ hx with
    | inl e => rw [e]; exact hP.nonneg c hmem
    | inr hm => exact hP.nonneg x hm
  · show d.1 POOL = booked (setC s.campaigns _)
    rw [distribute_pool hdist, booked_setC_same _ c _ hget, hP.eq]
    · obtain ⟨h1, h2, _, _⟩ := hnn
      simp only [Pool.avail]
      split <;> split <;> omega
    · rfl

end Sge.Reward
