/- C01 per market: a message changes the ledgers of no market but the one it names -/
import SgeProofs.Lemmas.C01Market
namespace Sge.Core
open Sge Sge.Genesis

theorem c1m_markets_nodup {s : State} (hsB : Sorted Book.key s.books) : (c1m_markets s).Nodup := by
  unfold c1m_markets
  have : ∀ (l : List Book), Sorted Book.key l → (l.map (·.uid)).Nodup := by
    intro l
    induction l with
    | nil => intro _; exact List.nodup_nil
    | cons q qs ih =>
      intro hs
      have hs' := hs
      unfold Sorted at hs'
      rw [List.pairwise_cons] at hs'
      rw [List.map_cons, List.nodup_cons]
      refine ⟨?_, ih hs'.2⟩
      intro hin
      obtain ⟨x, hx, e⟩ := List.mem_map.mp hin
      have hne := ltL_ne _ _ (hs'.1 x hx)
      simp [Book.key, e] at hne
  exact this s.books hsB

/-- writing a record on which `F` vanishes over a record (if any) on which `F` vanishes keeps the sum -/
theorem c1m_sum_upsert_other {α : Type} (key : α → List Nat) (F : α → Int) (x : α) (l : List α) (hs : Sorted key l)
    (hx : F x = 0) (hy : ∀ y ∈ l, key y = key x → F y = 0) : sumBy F (upsert key x l) = sumBy F l := by
  rw [sumBy_upsert key F x l hs]
  cases hl : lookup key (key x) l with
  | none => simp only; omega
  | some y =>
    simp only
    obtain ⟨hym, hyk⟩ := lookup_mem hl
    rw [hy y hym hyk]; omega

/-- the three ledgers of market `m` are the same in `s` and `s'` -/
structure c1m_Same (s s' : State) (m : Nat) : Prop where
  same : c1m_owed s' m = c1m_owed s m ∧ c1m_owedBetFee s' m = c1m_owedBetFee s m ∧
    c1m_owedHouseFee s' m = c1m_owedHouseFee s m

theorem c1m_Same.of_eq {s s' : State} {m : Nat} (hk : s'.books = s.books) (ht : s'.bets = s.bets) : c1m_Same s s' m := by
  refine ⟨?_, ?_, ?_⟩
  · unfold c1m_owed; rw [hk, ht]
  · unfold c1m_owedBetFee; rw [ht]
  · unfold c1m_owedHouseFee; rw [hk]

/-- books: unchanged or one book of another market written; bets: unchanged or one bet on another market written
    over no bet of market `m` -/
theorem c1m_Same.of_writes {s s' : State} {m : Nat} (hsB : Sorted Book.key s.books) (hsT : Sorted Bet.key s.bets)
    (hk : s'.books = s.books ∨ ∃ b', s'.books = upsert Book.key b' s.books ∧ b'.uid ≠ m)
    (ht : s'.bets = s.bets ∨ ∃ x, s'.bets = upsert Bet.key x s.bets ∧ x.market ≠ m ∧
      ∀ y ∈ s.bets, Bet.key y = Bet.key x → y.market ≠ m) : c1m_Same s s' m := by
  have hbooks : ∀ f : Book → Int, sumBy (fun b : Book => if b.uid == m then f b else 0) s'.books =
      sumBy (fun b : Book => if b.uid == m then f b else 0) s.books := by
    intro f
    rcases hk with e | ⟨b', e, hne⟩
    · rw [e]
    · rw [e]
      apply c1m_sum_upsert_other Book.key _ b' s.books hsB
      · simp [hne]
      · intro y _ hyk
        have : y.uid = b'.uid := by simpa [Book.key] using hyk
        simp [this, hne]
  have hbets : ∀ f : Bet → Int, sumBy (fun y : Bet => if y.market == m then f y else 0) s'.bets =
      sumBy (fun y : Bet => if y.market == m then f y else 0) s.bets := by
    intro f
    rcases ht with e | ⟨x, e, hne, hold⟩
    · rw [e]
    · rw [e]
      apply c1m_sum_upsert_other Bet.key _ x s.bets hsT
      · simp [hne]
      · intro y hy hyk
        simp [hold y hy hyk]
  refine ⟨?_, ?_, ?_⟩
  · unfold c1m_owed; rw [hbooks, hbets]
  · unfold c1m_owedBetFee; rw [hbets]
  · unfold c1m_owedHouseFee; rw [hbooks]

/-- the market a message names: the wager's, the deposit's, the withdrawal's market, the uid of the add / update /
    resolve ticket; authz, bank, parameter and block operations name none -/
def c1m_named : Op → Option Nat
  | .marketAdd _ _ u _ _ _ _ => some u
  | .marketUpdate _ u _ _ _ => some u
  | .marketResolve _ u _ _ _ => some u
  | .deposit _ _ m _ _ => some m
  | .withdraw _ _ m _ _ _ _ => some m
  | .wager _ _ _ _ pl => some pl.market
  | _ => none

/-- every operation but the end-block keeps the ledgers of every market it does not name -/
theorem c1m_step_frame (s : State) (hI : CustI s) (op : Op) (hne : op ≠ .endBlock) (m : Nat)
    (hm : c1m_named op ≠ some m) : c1m_Same s (step s op).1 m := by
  have hsB := hI.sortedBooks
  have hsT := hI.sortedBets
  cases op with
  | endBlock => exact absurd rfl hne
  | marketAdd c tk u st en o stt =>
    have hu : u ≠ m := fun e => hm (by rw [e]; rfl)
    simp only [step, marketAdd, commit]
    cases h : marketAddO s c tk u st en o stt with
    | none => exact c1m_Same.of_eq rfl rfl
    | some s' =>
      unfold marketAddO at h
      simp only [bind, Option.bind_eq_some_iff, pure, Option.some.injEq] at h
      obtain ⟨_, _, _, _, _, _, _, _, _, _, _, _, _, _, rfl⟩ := h
      exact c1m_Same.of_writes hsB hsT (Or.inr ⟨newBook u o, rfl, hu⟩) (Or.inl rfl)
  | marketUpdate tk u st en stt =>
    simp only [step, marketUpdate, commit]
    cases h : marketUpdateO s tk u st en stt with
    | none => exact c1m_Same.of_eq rfl rfl
    | some s' =>
      unfold marketUpdateO at h
      simp only [bind, Option.bind_eq_some_iff, pure, Option.some.injEq] at h
      obtain ⟨_, _, _, _, _, _, _, _, _, _, rfl⟩ := h
      exact c1m_Same.of_eq rfl rfl
  | marketResolve tk u ts stt w =>
    simp only [step, marketResolve, commit]
    cases h : marketResolveO s tk u ts stt w with
    | none => exact c1m_Same.of_eq rfl rfl
    | some s' =>
      unfold marketResolveO at h
      simp only [bind, Option.bind_eq_some_iff, pure, Option.some.injEq] at h
      obtain ⟨_, _, _, _, _, _, _, _, _, _, rfl⟩ := h
      exact c1m_Same.of_eq rfl rfl
  | deposit c tk mk a pd =>
    have hu : mk ≠ m := fun e => hm (by rw [e]; rfl)
    simp only [step, houseDeposit]
    cases h : houseDepositO s c tk mk a pd with
    | none => exact c1m_Same.of_eq rfl rfl
    | some r =>
      unfold houseDepositO at h
      simp only [bind, Option.bind_eq_some_iff, pure, Option.some.injEq] at h
      obtain ⟨_, _, _, _, _, _, s1, hs1, _, _, mkt, _, b, hb, _, _, _, _, _, _, _, _, s2, hs2, s3, hs3, rfl⟩ := h
      obtain ⟨gs, rfl⟩ := grantStep_shape hs1
      obtain ⟨_, _, rfl⟩ := bankSend_shape hs2
      obtain ⟨_, _, rfl⟩ := bankSend_shape hs3
      have hbu := (getBook_mem hb).2
      refine c1m_Same.of_writes hsB hsT (Or.inr ⟨_, rfl, ?_⟩) (Or.inl rfl)
      rw [addParticipation_uid, hbu]; exact hu
  | withdraw c tk mk i md a pd =>
    have hu : mk ≠ m := fun e => hm (by rw [e]; rfl)
    simp only [step, houseWithdraw, commit]
    cases h : houseWithdrawO s c tk mk i md a pd with
    | none => exact c1m_Same.of_eq rfl rfl
    | some s' =>
      unfold houseWithdrawO at h
      simp only [bind, Option.bind_eq_some_iff, pure, Option.some.injEq] at h
      obtain ⟨_, _, _, _, _, _, _, _, _, _, d, _, b, hb, _, _, w, _, s1, hs1, p, hpp, s2, hs2, b', hb', rfl⟩ := h
      obtain ⟨gs, rfl⟩ := grantStep_shape hs1
      obtain ⟨_, _, rfl⟩ := bankSend_shape hs2
      have hbu := (getBook_mem hb).2
      have hbw := (withdraw_shape hpp hb').1
      refine c1m_Same.of_writes hsB hsT (Or.inr ⟨b', rfl, ?_⟩) (Or.inl rfl)
      rw [hbw, hbu]; exact hu
  | wager c tk uid a pl =>
    have hu : pl.market ≠ m := fun e => hm (by show some pl.market = some m; rw [e])
    simp only [step, wager, commit]
    cases h : wagerO s c tk uid a pl with
    | none => exact c1m_Same.of_eq rfl rfl
    | some s' =>
      unfold wagerO at h
      simp only [bind, Option.bind_eq_some_iff, pure, Option.some.injEq] at h
      obtain ⟨_, _, _, _, _, _, _, _, _, _, _, _, _, _, mkt, _, _, _, _, _, _, _, _, _, _, _, _, _, ov, _, _, _, b, hb, r, hr, s1, hs1, s2, hs2, rfl⟩ := h
      obtain ⟨_, _, rfl⟩ := bankSend_shape hs1
      obtain ⟨_, _, rfl⟩ := bankSend_shape hs2
      have hbu := (getBook_mem hb).2
      obtain ⟨b', fulfs, taken⟩ := r
      have hbw := processWager_uid _ _ _ _ _ _ _ _ _ _ _ _ _ hr
      refine c1m_Same.of_writes hsB hsT (Or.inr ⟨b', rfl, ?_⟩) (Or.inr ⟨newBet s c uid pl ov fulfs, rfl, hu, ?_⟩)
      · rw [hbw, hbu]; exact hu
      · intro y hy hk
        exfalso
        have := hI.betIds y hy
        simp only [Bet.key, newBet, List.cons.injEq, and_true] at hk
        omega
  | grant g e k l x => exact c1m_Same.of_eq rfl rfl
  | revoke g e k => exact c1m_Same.of_eq rfl rfl
  | send a b x =>
    simp only [step]
    split
    · exact c1m_Same.of_eq rfl rfl
    · simp only [commit]
      cases h : bankSend s a b x with
      | none => exact c1m_Same.of_eq rfl rfl
      | some s' =>
        obtain ⟨_, _, rfl⟩ := bankSend_shape h
        exact c1m_Same.of_eq rfl rfl
  | setParams q =>
    simp only [step]
    split <;> exact c1m_Same.of_eq rfl rfl
  | newBlock hh tt => exact c1m_Same.of_eq rfl rfl

end Sge.Core
