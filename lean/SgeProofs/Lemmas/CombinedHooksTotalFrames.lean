/-
  Hooks never fail (C11 on the combined slice), part 2: how each core operation may change the participation records,
  seen key by key (book uid, participation index): a QUIET operation keeps liquidity, fee, depositor and the paid flag of
  every record (a record may become paid); a house DEPOSIT adds one fresh record; a house WITHDRAWAL lowers the liquidity
  of one unpaid record by the amount paid out. The record-level facts `cmb2_PartsOK` (fee ≥ 0, liquidity ≥ 0,
  current-round liquidity ≤ liquidity) are kept by all of them.
-/
import SgeProofs.Lemmas.CombinedHooksTotalParts
namespace Sge.Core
open Sge Sge.Genesis

/-- what holds of every participation record of a reachable state -/
structure cmb2_PartOK (p : Part) : Prop where
  fee : 0 ≤ p.fee
  liq : 0 ≤ p.liq
  crl : p.crl ≤ p.liq

def cmb2_PartsOK (c : State) : Prop := ∀ b ∈ c.books, ∀ p ∈ b.parts, cmb2_PartOK p

/-- both store levels are sorted by key -/
def cmb2_Srt (c : State) : Prop := Sorted Book.key c.books ∧ ∀ b ∈ c.books, Sorted Part.key b.parts

theorem SettleInv.cmb2_srt {c : State} (h : SettleInv c) : cmb2_Srt c := ⟨h.sortedBooks, h.sortedParts⟩

theorem cmb2_partsOK_get {c : State} (h : cmb2_PartsOK c) {u i : Nat} {b : Book} {p : Part}
    (hb : getBook c u = some b) (hp : b.getPart i = some p) : cmb2_PartOK p :=
  h b (getBook_mem hb).1 p (Book.getPart_mem hp).1

theorem cmb2_partsOK_of_get {c : State} (hs : cmb2_Srt c)
    (h : ∀ u b i p, getBook c u = some b → b.getPart i = some p → cmb2_PartOK p) : cmb2_PartsOK c :=
  fun b hb p hp => h b.uid b p.idx p (mem_getBook hs.1 hb) (Book.mem_getPart (hs.2 b hb) hp)

-- ---------------------------------------------------------------------------------------------
-- quiet operations

/-- every record of `c'` is a record of `c` under the same key with the same liquidity, fee and depositor; it is unpaid
    only if it was unpaid; and it satisfies the current-round bound -/
def cmb2_Quiet (c c' : State) : Prop :=
  ∀ u b' i p', getBook c' u = some b' → b'.getPart i = some p' →
    cmb2_crlOK p' ∧ ∃ b p, getBook c u = some b ∧ b.getPart i = some p ∧ p'.liq = p.liq ∧ p'.fee = p.fee ∧ p'.addr = p.addr ∧
      (p'.isSettled = false → p.isSettled = false)

theorem cmb2_Quiet.of_books {c c' : State} (h : c'.books = c.books) (hP : cmb2_PartsOK c) : cmb2_Quiet c c' := by
  intro u b' i p' hb' hp'
  have hb : getBook c u = some b' := by rw [← getBook_congr h u]; exact hb'
  exact ⟨(cmb2_partsOK_get hP hb hp').crl, b', p', hb, hp', rfl, rfl, rfl, id⟩

theorem cmb2_Quiet.refl {c : State} (hP : cmb2_PartsOK c) : cmb2_Quiet c c := cmb2_Quiet.of_books rfl hP

theorem cmb2_Quiet.trans {a b c : State} (h1 : cmb2_Quiet a b) (h2 : cmb2_Quiet b c) : cmb2_Quiet a c := by
  intro u b3 i p3 hb3 hp3
  obtain ⟨c3, b2, p2, hb2, hp2, e1, e2, e3, e4⟩ := h2 u b3 i p3 hb3 hp3
  obtain ⟨_, b1, p1, hb1, hp1, f1, f2, f3, f4⟩ := h1 u b2 i p2 hb2 hp2
  exact ⟨c3, b1, p1, hb1, hp1, e1.trans f1, e2.trans f2, e3.trans f3, fun h => f4 (e4 h)⟩

theorem cmb2_Quiet.partsOK {c c' : State} (h : cmb2_Quiet c c') (hP : cmb2_PartsOK c) (hs : cmb2_Srt c') : cmb2_PartsOK c' := by
  apply cmb2_partsOK_of_get hs
  intro u b' i p' hb' hp'
  obtain ⟨hc, b, p, hb, hp, e1, e2, _, _⟩ := h u b' i p' hb' hp'
  have h0 := cmb2_partsOK_get hP hb hp
  exact ⟨by rw [e2]; exact h0.fee, by rw [e1]; exact h0.liq, hc⟩

theorem cmb2_marketAddO_quiet {s s' : State} {c : Nat} {tk : Tk} {u st en : Nat} {o : List Nat} {stt : Nat}
    (hP : cmb2_PartsOK s) (h : marketAddO s c tk u st en o stt = some s') : cmb2_Quiet s s' := by
  unfold marketAddO at h
  simp only [bind, Option.bind_eq_some_iff, pure, Option.some.injEq] at h
  obtain ⟨_, _, _, _, _, _, _, _, _, _, _, _, _, _, rfl⟩ := h
  intro v b' i p' hb' hp'
  have hb'' : getBook (setBook s (newBook u o)) v = some b' := hb'
  by_cases hv : u = v
  · subst hv
    have e : (newBook u o).uid = u := rfl
    have := getBook_setBook_self s (newBook u o)
    rw [e, hb''] at this
    cases this
    cases hp'
  · rw [getBook_setBook_ne s (newBook u o) v hv] at hb''
    exact ⟨(cmb2_partsOK_get hP hb'' hp').crl, b', p', hb'', hp', rfl, rfl, rfl, id⟩

theorem cmb2_wagerO_quiet {s s' : State} {c : Nat} {tk : Tk} {u : Nat} {a : Int} {pl : WagerPayload}
    (hs : cmb2_Srt s) (hP : cmb2_PartsOK s) (h : wagerO s c tk u a pl = some s') : cmb2_Quiet s s' := by
  unfold wagerO at h
  simp only [bind, Option.bind_eq_some_iff, pure, Option.some.injEq] at h
  obtain ⟨_, _, _, _, _, _, _, _, _, _, _, _, _, _, m, _, _, _, _, _, _, _, _, _, _, _, _, _, ov, _, _, _, b, hb, r, hr, s1, hs1, s2, hs2, rfl⟩ := h
  obtain ⟨b', fulfs, taken⟩ := r
  obtain ⟨bal1, _, rfl⟩ := bankSend_shape hs1
  obtain ⟨bal2, _, rfl⟩ := bankSend_shape hs2
  obtain ⟨hbm, hbu⟩ := getBook_mem hb
  have hsparts := hs.2 b hbm
  obtain ⟨_, _, hsrt, hbu', hfrom⟩ := processWager_custody _ _ _ _ _ _ _ _ _ _ _ _ _ hsparts hr
  have hcrl := cmb2_processWager_crl _ _ _ _ _ _ _ _ _ _ _ _ _ (fun q hq => (hP b hbm q hq).crl) hr
  intro v bx i p' hbx hp'
  have hbx' : getBook (setBook s b') v = some bx := hbx
  by_cases hv : b'.uid = v
  · have := getBook_setBook_self s b'
    rw [hv, hbx'] at this
    cases this
    obtain ⟨hpm, hpi⟩ := Book.getPart_mem hp'
    obtain ⟨q0, hq0, hc0⟩ := hfrom p' hpm
    refine ⟨hcrl p' hpm, b, q0, by rw [← hv, hbu', hbu]; exact hb, ?_, hc0.2.1, hc0.2.2.2.1, hc0.2.2.2.2.2, ?_⟩
    · have := Book.mem_getPart hsparts hq0
      rw [← hc0.1, hpi] at this
      exact this
    · intro hu; rw [← hc0.2.2.2.2.1]; exact hu
  · rw [getBook_setBook_ne s b' v hv] at hbx'
    exact ⟨(cmb2_partsOK_get hP hbx' hp').crl, bx, p', hbx', hp', rfl, rfl, rfl, id⟩

theorem cmb2_paidRec_crl (p : Part) (m : Market) : (p.paidRec m).crl = p.crl := by
  unfold Part.paidRec
  split <;> rfl

/-- the whole core end-block is quiet -/
theorem cmb2_endBlockO_quiet {s s' : State} (hA : RetAll s) (hP : cmb2_PartsOK s) (h : endBlockO s = some s') :
    cmb2_Quiet s s' := by
  obtain ⟨hA', s1, hA1, _, hPO, _, hOS⟩ := ret_endBlockO_trace hA h
  intro u b' i p' hb' hp'
  obtain ⟨hb'm, hb'u⟩ := getBook_mem hb'
  obtain ⟨b1, hb1m, hx⟩ := hOS.bwd b' hb'm
  obtain ⟨p1, hp1, hor⟩ := hx.gp i p' hp'
  obtain ⟨b0, hb0m, hu0, hg0⟩ := hPO b1 hb1m
  obtain ⟨p0, hp0, e0⟩ := hg0 i p1 hp1
  have hb0 : getBook s u = some b0 := by
    have := mem_getBook hA.sett.sortedBooks hb0m
    rw [hu0, ← hx.uid, hb'u] at this
    exact this
  have h0 := cmb2_partsOK_get hP hb0 hp0
  have f1 : p1.liq = p0.liq ∧ p1.fee = p0.fee ∧ p1.addr = p0.addr ∧ p1.crl = p0.crl ∧ p1.isSettled = p0.isSettled := by
    rw [e0]; exact ⟨rfl, rfl, rfl, rfl, rfl⟩
  rcases hor with e | ⟨_, hs', t, c0, bk, m, r, _, _, _, _, _, _, _, _, _, e⟩
  · subst e
    refine ⟨?_, b0, p0, hb0, hp0, f1.1, f1.2.1, f1.2.2.1, fun hu => by rw [← f1.2.2.2.2]; exact hu⟩
    unfold cmb2_crlOK
    rw [f1.1, f1.2.2.2.1]; exact h0.crl
  · obtain ⟨_, g2, g3, g4, _⟩ := p1.paidRec_fields m
    refine ⟨?_, b0, p0, hb0, hp0, by rw [e, g3]; exact f1.1, by rw [e, g4]; exact f1.2.1, by rw [e, g2]; exact f1.2.2.1, ?_⟩
    · unfold cmb2_crlOK
      rw [e, cmb2_paidRec_crl, g3, f1.1, f1.2.2.2.1]; exact h0.crl
    · intro hu; rw [hs'] at hu; cases hu

-- ---------------------------------------------------------------------------------------------
-- house deposit

/-- MsgDeposit, key by key: every record of the new state is an old record, or it is the one fresh record, which
    belongs to the depositor, is unpaid, and whose liquidity and fee (both non-negative) add up to the deposit -/
def cmb2_DepFrame (c c' : State) (dep : Nat) (amount : Int) (k0 : Nat × Nat) : Prop :=
  0 ≤ amount ∧ (∀ b, getBook c k0.1 = some b → b.getPart k0.2 = none) ∧
  ∀ u b' i p', getBook c' u = some b' → b'.getPart i = some p' →
    (∃ b, getBook c u = some b ∧ b.getPart i = some p') ∨
    ((u, i) = k0 ∧ p'.addr = dep ∧ p'.liq + p'.fee = amount ∧ 0 ≤ p'.liq ∧ 0 ≤ p'.fee ∧ p'.crl = p'.liq ∧ p'.isSettled = false)

theorem cmb2_addParticipation_parts (b : Book) (addr : Nat) (liq fee : Int) :
    (b.addParticipation addr liq fee).1.parts = (b.setPart (b.newPart addr liq fee)).parts ∧
    (b.addParticipation addr liq fee).1.uid = b.uid := by
  unfold Book.addParticipation
  simp only
  have hf := initExposuresFold_parts (b.partCount + 1) (b.setPart (b.newPart addr liq fee)).queues (b.setPart (b.newPart addr liq fee))
  exact ⟨hf.1, hf.2⟩

theorem cmb2_houseDepositO_frame {s : State} {r : State × Nat} {c : Nat} {tk : Tk} {m : Nat} {a : Int} {pd : Nat}
    (h : houseDepositO s c tk m a pd = some r) :
    ∃ k0, cmb2_DepFrame s r.1 (depositFor c pd) a k0 := by
  unfold houseDepositO at h
  simp only [bind, Option.bind_eq_some_iff, pure, Option.some.injEq] at h
  obtain ⟨_, hpos, _, _, _, _, s1, hs1, _, _, mk, _, b, hb, _, _, _, _, _, _, _, hnew, s2, hs2, s3, hs3, rfl⟩ := h
  have hnew := chk_some hnew
  have hpos : 0 < a := of_decide_eq_true (chk_some hpos)
  obtain ⟨gs, rfl⟩ := grantStep_shape hs1
  obtain ⟨bal2, ht2, rfl⟩ := bankSend_shape hs2
  obtain ⟨bal3, ht3, rfl⟩ := bankSend_shape hs3
  have hliq : 0 ≤ a - (s.params.houseFee.mulInt a).roundInt := by
    unfold transfer at ht2
    split at ht2
    · cases ht2
    · omega
  have hfee : 0 ≤ (s.params.houseFee.mulInt a).roundInt := by
    unfold transfer at ht3
    split at ht3
    · cases ht3
    · omega
  have hb0 : getBook s m = some b := hb
  obtain ⟨hbm, hbu⟩ := getBook_mem hb0
  have hnone : b.getPart (b.partCount + 1) = none := by simpa using hnew
  obtain ⟨ap, au⟩ := cmb2_addParticipation_parts b (depositFor c pd) (a - (s.params.houseFee.mulInt a).roundInt)
    (s.params.houseFee.mulInt a).roundInt
  refine ⟨(m, b.partCount + 1), by omega, ?_, ?_⟩
  · intro bx hbx
    have hbx' : getBook s m = some bx := hbx
    rw [hb0] at hbx'
    cases hbx'
    exact hnone
  · intro v bx i p' hbx hp'
    generalize hB : (b.addParticipation (depositFor c pd) (a - (s.params.houseFee.mulInt a).roundInt)
      (s.params.houseFee.mulInt a).roundInt).1 = B at ap au hbx
    have hbx' : getBook (setBook s B) v = some bx := hbx
    by_cases hv : B.uid = v
    · have := getBook_setBook_self s B
      rw [hv, hbx'] at this
      cases this
      have hvm : v = m := by rw [← hv, au, hbu]
      have hg : bx.getPart i = (b.setPart (b.newPart (depositFor c pd) (a - (s.params.houseFee.mulInt a).roundInt)
          (s.params.houseFee.mulInt a).roundInt)).getPart i := by
        unfold Book.getPart; rw [ap]
      rw [hg] at hp'
      by_cases hi : b.partCount + 1 = i
      · right
        have hidx : (b.newPart (depositFor c pd) (a - (s.params.houseFee.mulInt a).roundInt)
          (s.params.houseFee.mulInt a).roundInt).idx = b.partCount + 1 := rfl
        rw [← hi, ← hidx, Book.getPart_setPart_self] at hp'
        cases hp'
        refine ⟨by rw [hvm, ← hi], rfl, ?_, hliq, hfee, rfl, rfl⟩
        show a - (s.params.houseFee.mulInt a).roundInt + (s.params.houseFee.mulInt a).roundInt = a
        omega
      · left
        rw [Book.getPart_setPart_ne _ _ _ (by show b.partCount + 1 ≠ i; exact hi)] at hp'
        exact ⟨b, by rw [hvm]; exact hb0, hp'⟩
    · left
      rw [getBook_setBook_ne s B v hv] at hbx'
      exact ⟨bx, hbx', hp'⟩

theorem cmb2_DepFrame.partsOK {c c' : State} {dep : Nat} {amount : Int} {k0 : Nat × Nat}
    (h : cmb2_DepFrame c c' dep amount k0) (hP : cmb2_PartsOK c) (hs : cmb2_Srt c') : cmb2_PartsOK c' := by
  apply cmb2_partsOK_of_get hs
  intro u b' i p' hb' hp'
  rcases h.2.2 u b' i p' hb' hp' with ⟨b, hb, hp⟩ | ⟨_, _, _, h1, h2, h3, _⟩
  · exact cmb2_partsOK_get hP hb hp
  · exact ⟨h2, h1, by rw [h3]; exact Int.le_refl _⟩

-- ---------------------------------------------------------------------------------------------
-- house withdrawal

/-- MsgWithdraw, key by key: the record `p0` under `k0` is unpaid, belongs to the depositor, and is rewritten with
    liquidity and current-round liquidity lowered by the amount paid out `w` (0 ≤ w ≤ current-round liquidity); every
    other record is an old one -/
def cmb2_WdFrame (c c' : State) (dep : Nat) (w : Int) (k0 : Nat × Nat) (p0 : Part) : Prop :=
  (∃ b0, getBook c k0.1 = some b0 ∧ b0.getPart k0.2 = some p0) ∧ p0.isSettled = false ∧ p0.addr = dep ∧ 0 ≤ w ∧ w ≤ p0.crl ∧
  ∀ u b' i p', getBook c' u = some b' → b'.getPart i = some p' →
    ((u, i) ≠ k0 ∧ ∃ b, getBook c u = some b ∧ b.getPart i = some p') ∨
    ((u, i) = k0 ∧ p' = { p0 with crl := p0.crl - w, liq := p0.liq - w })

theorem cmb2_withdrawable_le {mode : Nat} {mx amount w : Int} (h : withdrawable mode mx amount = some w) : w ≤ mx := by
  unfold withdrawable at h
  split at h
  · split at h
    · cases h
    · cases h; exact Int.le_refl _
  · split at h
    · split at h
      · cases h
      · cases h; omega
    · cases h

theorem cmb2_maxWithdraw_le (p : Part) : p.maxWithdraw ≤ p.crl := by
  unfold Part.maxWithdraw
  split <;> omega

theorem cmb2_houseWithdrawO_frame {s s' : State} {c : Nat} {tk : Tk} {m i md : Nat} {a : Int} {pd : Nat}
    (h : houseWithdrawO s c tk m i md a pd = some s') :
    ∃ w p0, Sge.Combined.subWithdrawAmount s (if pd != 0 then pd else c) m i md a = some w ∧
      cmb2_WdFrame s s' (if pd != 0 then pd else c) w (m, i) p0 := by
  unfold houseWithdrawO at h
  simp only [bind, Option.bind_eq_some_iff, pure, Option.some.injEq] at h
  obtain ⟨_, _, _, _, _, _, _, _, _, _, d, hd, b, hb, _, _, w, hw, s1, hs1, p, hpp, s2, hs2, b', hb', rfl⟩ := h
  obtain ⟨gs, rfl⟩ := grantStep_shape hs1
  obtain ⟨bal2, ht2, rfl⟩ := bankSend_shape hs2
  have hw0 : 0 ≤ w := by
    unfold transfer at ht2
    split at ht2
    · cases ht2
    · omega
  have hcw := hw
  unfold calcWithdrawal at hcw
  simp only [bind, Option.bind_eq_some_iff] at hcw
  obtain ⟨p1, hp1, _, c1, _, c2, _, _, _, _, _, _, hwd⟩ := hcw
  rw [hpp] at hp1
  cases hp1
  have hunset : p.isSettled = false := by simpa using chk_some c1
  have haddr : p.addr = (if pd != 0 then pd else c) := by simpa using chk_some c2
  have hle : w ≤ p.crl := Int.le_trans (cmb2_withdrawable_le hwd) (cmb2_maxWithdraw_le p)
  have hbw : b'.parts = (b.setPart { p with crl := p.crl - w, liq := p.liq - w }).parts ∧ b'.uid = b.uid := by
    unfold Book.withdraw at hb'
    rw [hpp] at hb'
    simp only at hb'
    split at hb'
    · cases hb'; exact ⟨rfl, rfl⟩
    · have := removeFromQueues_parts _ _ _ _ hb'
      exact ⟨this.1, this.2⟩
  obtain ⟨hbm, hbu⟩ := getBook_mem hb
  refine ⟨w, p, ?_, ⟨b, hb, hpp⟩, hunset, haddr, hw0, hle, ?_⟩
  · unfold Sge.Combined.subWithdrawAmount
    simp only [bind, Option.bind_eq_some_iff]
    exact ⟨d, hd, b, hb, hw⟩
  · intro v bx j p' hbx hp'
    have hbx' : getBook (setBook s b') v = some bx := hbx
    by_cases hv : b'.uid = v
    · have := getBook_setBook_self s b'
      rw [hv, hbx'] at this
      cases this
      have hvm : v = m := by rw [← hv, hbw.2, hbu]
      have hg : b'.getPart j = (b.setPart { p with crl := p.crl - w, liq := p.liq - w }).getPart j := by
        unfold Book.getPart; rw [hbw.1]
      rw [hg] at hp'
      have hpi : p.idx = i := Book.getPart_idx hpp
      by_cases hj : i = j
      · right
        have hidx : ({ p with crl := p.crl - w, liq := p.liq - w } : Part).idx = i := hpi
        rw [← hj, ← hidx, Book.getPart_setPart_self] at hp'
        cases hp'
        exact ⟨by rw [hvm, ← hj], rfl⟩
      · left
        rw [Book.getPart_setPart_ne _ _ _ (by show p.idx ≠ j; rw [hpi]; exact hj)] at hp'
        refine ⟨?_, b, by rw [hvm]; exact hb, hp'⟩
        intro e
        simp only [Prod.mk.injEq] at e
        exact hj e.2.symm
    · left
      rw [getBook_setBook_ne s b' v hv] at hbx'
      refine ⟨?_, bx, hbx', hp'⟩
      intro e
      simp only [Prod.mk.injEq] at e
      apply hv
      rw [hbw.2, hbu]; exact e.1.symm

theorem cmb2_WdFrame.partsOK {c c' : State} {dep : Nat} {w : Int} {k0 : Nat × Nat} {p0 : Part}
    (h : cmb2_WdFrame c c' dep w k0 p0) (hP : cmb2_PartsOK c) (hs : cmb2_Srt c') : cmb2_PartsOK c' := by
  obtain ⟨⟨b0, hb0, hp0⟩, _, _, hw0, hle, hall⟩ := h
  have h0 := cmb2_partsOK_get hP hb0 hp0
  apply cmb2_partsOK_of_get hs
  intro u b' i p' hb' hp'
  rcases hall u b' i p' hb' hp' with ⟨_, b, hb, hp⟩ | ⟨_, e⟩
  · exact cmb2_partsOK_get hP hb hp
  · rw [e]
    have := h0.crl
    exact ⟨h0.fee, by show 0 ≤ p0.liq - w; omega, by show p0.crl - w ≤ p0.liq - w; omega⟩

end Sge.Core

namespace Sge.Core
open Sge Sge.Genesis

-- ---------------------------------------------------------------------------------------------
-- every core operation

/-- every core operation other than a house deposit / withdrawal is quiet -/
theorem cmb2_step_quiet (s : State) (op : Op) (hA : RetAll s) (hP : cmb2_PartsOK s)
    (hnd : ∀ c tk m a pd, op ≠ .deposit c tk m a pd) (hnw : ∀ c tk m i md a pd, op ≠ .withdraw c tk m i md a pd) :
    cmb2_Quiet s (step s op).1 := by
  cases op with
  | marketAdd cr tk u st en o stt =>
    simp only [step, marketAdd, commit]
    cases h : marketAddO s cr tk u st en o stt with
    | none => exact cmb2_Quiet.refl hP
    | some c' => exact cmb2_marketAddO_quiet hP h
  | marketUpdate tk u st en stt =>
    simp only [step, marketUpdate, commit]
    cases h : marketUpdateO s tk u st en stt with
    | none => exact cmb2_Quiet.refl hP
    | some c' =>
      unfold marketUpdateO at h
      simp only [bind, Option.bind_eq_some_iff, pure, Option.some.injEq] at h
      obtain ⟨_, _, _, _, _, _, _, _, _, _, rfl⟩ := h
      exact cmb2_Quiet.of_books rfl hP
  | marketResolve tk u ts stt w =>
    simp only [step, marketResolve, commit]
    cases h : marketResolveO s tk u ts stt w with
    | none => exact cmb2_Quiet.refl hP
    | some c' =>
      unfold marketResolveO at h
      simp only [bind, Option.bind_eq_some_iff, pure, Option.some.injEq] at h
      obtain ⟨_, _, _, _, _, _, _, _, _, _, rfl⟩ := h
      exact cmb2_Quiet.of_books rfl hP
  | deposit cr tk m a pd => exact absurd rfl (hnd cr tk m a pd)
  | withdraw cr tk m i md a pd => exact absurd rfl (hnw cr tk m i md a pd)
  | wager cr tk u a pl =>
    simp only [step, wager, commit]
    cases h : wagerO s cr tk u a pl with
    | none => exact cmb2_Quiet.refl hP
    | some c' => exact cmb2_wagerO_quiet hA.sett.cmb2_srt hP h
  | grant g e k l ex => exact cmb2_Quiet.of_books rfl hP
  | revoke g e k => exact cmb2_Quiet.of_books rfl hP
  | send a b v =>
    simp only [step]
    split
    · exact cmb2_Quiet.refl hP
    · simp only [commit]
      cases h : bankSend s a b v with
      | none => exact cmb2_Quiet.refl hP
      | some c' =>
        obtain ⟨bal', _, rfl⟩ := bankSend_shape h
        exact cmb2_Quiet.of_books rfl hP
  | setParams p =>
    simp only [step]
    split
    · exact cmb2_Quiet.of_books rfl hP
    · exact cmb2_Quiet.refl hP
  | endBlock =>
    simp only [step, endBlock]
    cases h : endBlockO s with
    | none => exact cmb2_Quiet.refl hP
    | some s' => exact cmb2_endBlockO_quiet hA hP h
  | newBlock h t => exact cmb2_Quiet.of_books rfl hP

/-- the record-level facts are kept by every core operation -/
theorem cmb2_step_partsOK (s : State) (op : Op) (hA : RetAll s) (hP : cmb2_PartsOK s) (hwf : op.userSigned') :
    cmb2_PartsOK (step s op).1 := by
  have hsrt : cmb2_Srt (step s op).1 := (step_settleInv s op hA.sett hwf).cmb2_srt
  cases op with
  | deposit cr tk m a pd =>
    simp only [step, houseDeposit] at hsrt ⊢
    cases h : houseDepositO s cr tk m a pd with
    | none => exact hP
    | some r =>
      rw [h] at hsrt
      obtain ⟨k0, hf⟩ := cmb2_houseDepositO_frame h
      exact hf.partsOK hP hsrt
  | withdraw cr tk m i md a pd =>
    simp only [step, houseWithdraw, commit] at hsrt ⊢
    cases h : houseWithdrawO s cr tk m i md a pd with
    | none => exact hP
    | some c' =>
      rw [h] at hsrt
      obtain ⟨w, p0, _, hf⟩ := cmb2_houseWithdrawO_frame h
      exact hf.partsOK hP hsrt
  | marketAdd cr tk u st en o stt => exact (cmb2_step_quiet s _ hA hP (by intros; simp) (by intros; simp)).partsOK hP hsrt
  | marketUpdate tk u st en stt => exact (cmb2_step_quiet s _ hA hP (by intros; simp) (by intros; simp)).partsOK hP hsrt
  | marketResolve tk u ts stt w => exact (cmb2_step_quiet s _ hA hP (by intros; simp) (by intros; simp)).partsOK hP hsrt
  | wager cr tk u a pl => exact (cmb2_step_quiet s _ hA hP (by intros; simp) (by intros; simp)).partsOK hP hsrt
  | grant g e k l ex => exact (cmb2_step_quiet s _ hA hP (by intros; simp) (by intros; simp)).partsOK hP hsrt
  | revoke g e k => exact (cmb2_step_quiet s _ hA hP (by intros; simp) (by intros; simp)).partsOK hP hsrt
  | send a b v => exact (cmb2_step_quiet s _ hA hP (by intros; simp) (by intros; simp)).partsOK hP hsrt
  | setParams p => exact (cmb2_step_quiet s _ hA hP (by intros; simp) (by intros; simp)).partsOK hP hsrt
  | endBlock => exact (cmb2_step_quiet s _ hA hP (by intros; simp) (by intros; simp)).partsOK hP hsrt
  | newBlock h t => exact (cmb2_step_quiet s _ hA hP (by intros; simp) (by intros; simp)).partsOK hP hsrt

theorem cmb2_run_partsOK (s : State) (ops : List Op) (hA : RetAll s) (hP : cmb2_PartsOK s) (hwf : ∀ op ∈ ops, op.userSigned') :
    cmb2_PartsOK (run s ops) := by
  induction ops generalizing s with
  | nil => exact hP
  | cons op rest ih =>
    have h1 := hwf op (List.mem_cons_self ..)
    exact ih _ (step_retAll s op hA h1) (cmb2_step_partsOK s op hA hP h1) (fun o ho => hwf o (List.mem_cons_of_mem _ ho))

end Sge.Core
