/-
  The contract that `Sge.Subaccount` assumes of its x/bet and x/house parameters (`WagerExt.charged`,
  `HouseDepExt.taken`, `HouseWdExt.amount / paid`; hypotheses `ExtOK` / `ExtExact` of
  SgeProofs/Lemmas/SubaccountBank.lean), proved of the REAL core handlers: what a successful `wagerO`,
  `houseDepositO`, `houseWithdrawO` debits / credits on the bank, account by account.
-/
import SgeProofs.Lemmas.CombinedSim
namespace Sge.Core
open Sge Sge.Genesis

theorem cmb_notModule_ne {a : Nat} (h : isModuleAcc a = false) : a ≠ ACC_POOL ∧ a ≠ ACC_BETFEE ∧ a ≠ ACC_HOUSEFEE := by
  unfold isModuleAcc at h
  simp only [Bool.or_eq_false_iff, beq_eq_false_iff_ne, ne_eq] at h
  exact ⟨h.1.1, h.1.2, h.2⟩

theorem cmb_transfer_bal {bal bal' : List (Nat × Int)} {a b : Nat} {x : Int} (h : transfer bal a b x = some bal')
    (hab : a ≠ b) (c : Nat) :
    getBal bal' c = getBal bal c - (if c = a then x else 0) + (if c = b then x else 0) := by
  obtain ⟨_, t1, t2, t3⟩ := transfer_spec h hab
  by_cases hca : c = a
  · subst hca
    simp only [if_true, if_neg hab]
    rw [t1]; omega
  · by_cases hcb : c = b
    · subst hcb
      simp only [if_true, if_neg hca]
      rw [t2]; omega
    · simp only [if_neg hca, if_neg hcb]
      rw [t3 c hca hcb]; omega

theorem cmb_chk_true {c : Bool} {u : Unit} (h : chk c = some u) : c = true := by
  cases c
  · simp [chk] at h
  · rfl

/-- a bank transfer, account by account -/
theorem cmb_bankSend_bal {s s' : State} {a b : Nat} {x : Int} (h : bankSend s a b x = some s') (hab : a ≠ b) (c : Nat) :
    0 ≤ x ∧ getBal s'.bal c = getBal s.bal c - (if c = a then x else 0) + (if c = b then x else 0) := by
  obtain ⟨bal', ht, rfl⟩ := bankSend_shape h
  exact ⟨(transfer_spec ht hab).1, cmb_transfer_bal ht hab c⟩

/-- `ExtExact` for the house deposit (`taken = amount`): a successful `houseDepositO` debits the depositor by exactly
    the deposit amount (liquidity to the pool, fee to the house-fee collector) and changes no other non-custody account -/
theorem cmb_houseDepositO_bal {s : State} {creator : Nat} {tk : Tk} {market : Nat} {amount : Int} {pd : Nat} {r : State × Nat}
    (h : houseDepositO s creator tk market amount pd = some r) (hd : isModuleAcc (depositFor creator pd) = false) :
    getBal r.1.bal (depositFor creator pd) = getBal s.bal (depositFor creator pd) - amount ∧
    (∀ x, x ≠ depositFor creator pd → isModuleAcc x = false → getBal r.1.bal x = getBal s.bal x) := by
  unfold houseDepositO at h
  simp only [bind, Option.bind_eq_some_iff, pure, Option.some.injEq] at h
  obtain ⟨_, _, _, _, _, _, s1, hs1, _, _, mk, _, b, hb, _, _, _, _, _, _, _, _, s2, hs2, s3, hs3, rfl⟩ := h
  obtain ⟨gs, rfl⟩ := grantStep_shape hs1
  obtain ⟨n1, n2, n3⟩ := cmb_notModule_ne hd
  constructor
  · have e2 := (cmb_bankSend_bal hs2 n1 (depositFor creator pd)).2
    have e3 := (cmb_bankSend_bal hs3 n3 (depositFor creator pd)).2
    simp only [if_true, if_neg n1, if_neg n3] at e2 e3
    show getBal s3.bal _ = _
    rw [e3, e2]
    show getBal s.bal _ - _ + 0 - _ + 0 = _
    omega
  · intro x hx hm
    obtain ⟨m1, m2, m3⟩ := cmb_notModule_ne hm
    have e2 := (cmb_bankSend_bal hs2 n1 x).2
    have e3 := (cmb_bankSend_bal hs3 n3 x).2
    simp only [if_neg hx, if_neg m1, if_neg m3] at e2 e3
    show getBal s3.bal _ = _
    rw [e3, e2]
    show getBal s.bal _ - 0 + 0 - 0 + 0 = _
    omega

/-- `ExtExact` for the house withdrawal (`amount = paid`): a successful `houseWithdrawO` computes the amount `w` with
    `calcWithdrawal` from the depositor's deposit record and book, credits exactly `w` to the depositor and changes no
    other non-custody account -/
theorem cmb_houseWithdrawO_bal {s s' : State} {creator : Nat} {tk : Tk} {market idx mode : Nat} {amount : Int} {pd : Nat}
    (h : houseWithdrawO s creator tk market idx mode amount pd = some s')
    (hd : isModuleAcc (if pd != 0 then pd else creator) = false) :
    ∃ d b w, lookup Deposit.key [if pd != 0 then pd else creator, market, idx] s.deposits = some d ∧ getBook s market = some b ∧
      calcWithdrawal b idx (if pd != 0 then pd else creator) mode amount d.wtotal = some w ∧ 0 ≤ w ∧
      getBal s'.bal (if pd != 0 then pd else creator) = getBal s.bal (if pd != 0 then pd else creator) + w ∧
      (∀ x, x ≠ (if pd != 0 then pd else creator) → isModuleAcc x = false → getBal s'.bal x = getBal s.bal x) := by
  unfold houseWithdrawO at h
  simp only [bind, Option.bind_eq_some_iff, pure, Option.some.injEq] at h
  obtain ⟨_, _, _, _, _, _, _, _, _, _, d, hdep, b, hb, _, _, w, hw, s1, hs1, p, hpp, s2, hs2, b', hb', rfl⟩ := h
  obtain ⟨gs, rfl⟩ := grantStep_shape hs1
  -- the participation belongs to the depositor
  have hpa : p.addr = (if pd != 0 then pd else creator) := by
    unfold calcWithdrawal at hw
    simp only [bind, Option.bind_eq_some_iff] at hw
    obtain ⟨p0, hp0, _, _, _, hadr, _⟩ := hw
    rw [hpp] at hp0
    cases hp0
    exact beq_iff_eq.mp (cmb_chk_true hadr)
  obtain ⟨n1, _, _⟩ := cmb_notModule_ne hd
  refine ⟨d, b, w, hdep, hb, hw, ?_, ?_, ?_⟩
  · exact (cmb_bankSend_bal hs2 (by rw [hpa]; exact Ne.symm n1) 0).1
  · have e2 := (cmb_bankSend_bal hs2 (by rw [hpa]; exact Ne.symm n1) (if pd != 0 then pd else creator)).2
    rw [hpa] at e2
    simp only [if_true, if_neg n1] at e2
    show getBal s2.bal _ = _
    rw [e2]
    show getBal s.bal _ - 0 + w = _
    omega
  · intro x hx hm
    obtain ⟨m1, _, _⟩ := cmb_notModule_ne hm
    have e2 := (cmb_bankSend_bal hs2 (by rw [hpa]; exact Ne.symm n1) x).2
    rw [hpa] at e2
    simp only [if_neg hx, if_neg m1] at e2
    show getBal s2.bal _ = _
    rw [e2]
    show getBal s.bal _ - 0 + 0 = _
    omega

/-- the contract for the wager (`WagerExt.charged`, `0 ≤ charged`): a successful `wagerO` debits the bettor by the bet
    fee plus the stake the order book matched (both non-negative) and changes no other non-custody account -/
theorem cmb_wagerO_bal {s s' : State} {creator : Nat} {tk : Tk} {uid : Nat} {amount : Int} {pl : WagerPayload}
    (h : wagerO s creator tk uid amount pl = some s') (hc : isModuleAcc creator = false) :
    ∃ charged, 0 ≤ charged ∧ getBal s'.bal creator = getBal s.bal creator - charged ∧
      (∀ x, x ≠ creator → isModuleAcc x = false → getBal s'.bal x = getBal s.bal x) := by
  unfold wagerO at h
  simp only [bind, Option.bind_eq_some_iff, pure, Option.some.injEq] at h
  obtain ⟨_, _, _, _, _, _, _, _, _, _, _, _, _, _, mk, _, _, _, _, _, _, _, _, _, _, _, _, _, ov, _, _, _, b, hb, r, hr, s1, hs1, s2, hs2, rfl⟩ := h
  obtain ⟨n1, n2, _⟩ := cmb_notModule_ne hc
  have a1 := cmb_bankSend_bal hs1 n2
  have a2 := cmb_bankSend_bal hs2 n1
  refine ⟨s.params.betFee + r.2.2, ?_, ?_, ?_⟩
  · have := (a1 0).1
    have := (a2 0).1
    omega
  · have e1 := (a1 creator).2
    have e2 := (a2 creator).2
    simp only [if_true, if_neg n1, if_neg n2] at e1 e2
    show getBal s2.bal _ = _
    rw [e2, e1]
    omega
  · intro x hx hm
    obtain ⟨m1, m2, _⟩ := cmb_notModule_ne hm
    have e1 := (a1 x).2
    have e2 := (a2 x).2
    simp only [if_neg hx, if_neg m1, if_neg m2] at e1 e2
    show getBal s2.bal _ = _
    rw [e2, e1]
    omega

end Sge.Core
