/-
  Where bet records come from (C03, whole-history part): one operation keeps every bet record up to the three
  settlement fields (status, result, settlement height), except that an accepted wager stores one new record,
  `newBet`, and charges the bettor exactly the fee and the sum of the backing parts.
-/
import SgeProofs.Lemmas.BettorPayTrace
namespace Sge.Core
open Sge Sge.Genesis

-- ---------------------------------------------------------------------------------------------
-- the accepted wager

theorem bp_wagerO_shape {s s' : State} {c : Nat} {tk : Tk} {u : Nat} {a : Int} {pl : WagerPayload}
    (h : wagerO s c tk u a pl = some s') :
    ∃ (m : Market) (ov : Dec) (b : Book) (r : Book × List Fulf × Int) (s1 s2 : State),
      getMarket s pl.market = some m ∧ pl.oddsVal = some ov ∧ PREC < ov.raw ∧ getBook s pl.market = some b ∧
      processWager b pl.odds (s.betCount + 1) ov pl.mult m.odds pl.allOdds (s.params.obThreshold : Nat)
        (a - s.params.betFee) ((ov.mulInt (a - s.params.betFee)).sub (Dec.ofInt (a - s.params.betFee))) = some r ∧
      bankSend s c ACC_BETFEE s.params.betFee = some s1 ∧ bankSend s1 c ACC_POOL r.2.2 = some s2 ∧
      s'.bets = upsert Bet.key (newBet s c u pl ov r.2.1) s.bets ∧ s'.bal = s2.bal := by
  unfold wagerO at h
  simp only [bind, Option.bind_eq_some_iff, pure, Option.some.injEq] at h
  obtain ⟨_, _, _, _, _, _, _, _, _, _, _, _, _, _, m, hm, _, _, _, _, _, _, _, _, _, _, _, _, ov, hov, _, h14, b, hb, r, hr, s1, hs1, s2, hs2, rfl⟩ := h
  have h14 : PREC < ov.raw := by simpa using chk_some h14
  have e1 := (bp_bankSend_frame hs1).1
  have e2 := (bp_bankSend_frame hs2).1
  refine ⟨m, ov, b, r, s1, s2, hm, hov, h14, hb, hr, hs1, hs2, ?_, rfl⟩
  show upsert Bet.key _ s2.bets = _
  rw [e2, e1]

/-- the promised profits of a ticket: the integer part of (requested stake − fee) × (odds − 1) -/
def bpPromised (ov : Dec) (a fee : Int) : Int := ((ov.mulInt (a - fee)).sub (Dec.ofInt (a - fee))).truncInt

/-- the record `nb` was stored by the accepted wager of `c` with uid `u`, requested stake `a` and payload `pl`, in
    state `s`, leading to `s1`: the record, the charge for every account, and what the parts promise -/
def BpPlaced (s : State) (c u : Nat) (a : Int) (pl : WagerPayload) (s1 : State) (nb : Bet) : Prop :=
  nb ∈ s1.bets ∧ nb.uid = u ∧ nb.id = s.betCount + 1 ∧ nb.creator = c ∧ nb.market = pl.market ∧ nb.odds = pl.odds ∧
  pl.oddsVal = some nb.oddsVal ∧ nb.fee = s.params.betFee ∧ nb.status = BS_PLACED ∧ nb.result = BR_PENDING ∧
  nb.amount = sumBet nb.fulfs ∧
  (∀ acct, getBal s1.bal acct = getBal s.bal acct - (if acct = c then nb.fee + sumBet nb.fulfs else 0)
      + (if acct = ACC_POOL then sumBet nb.fulfs else 0) + (if acct = ACC_BETFEE then nb.fee else 0)) ∧
  (nb.fee ≤ a → sumProfit nb.fulfs = bpPromised nb.oddsVal a nb.fee ∧ ∀ f ∈ nb.fulfs, 0 ≤ f.profit)

theorem bp_wagerO_placed {s s' : State} {c : Nat} {tk : Tk} {u : Nat} {a : Int} {pl : WagerPayload}
    (h : wagerO s c tk u a pl = some s') :
    ∃ nb, BpPlaced s c u a pl s' nb ∧ ∀ z ∈ s'.bets, z = nb ∨ z ∈ s.bets := by
  obtain ⟨m, ov, b, r, s1, s2, _, hov, hgt, _, hr, hs1, hs2, hbets, hbal⟩ := bp_wagerO_shape h
  obtain ⟨b', fulfs, taken⟩ := r
  have htk : taken = sumBet fulfs := processWager_charged _ _ _ _ _ _ _ _ _ _ _ _ _ hr
  refine ⟨newBet s c u pl ov fulfs, ⟨?_, rfl, rfl, rfl, rfl, rfl, hov, rfl, rfl, rfl, rfl, ?_, ?_⟩, ?_⟩
  · rw [hbets]; exact mem_upsert_self Bet.key _ _
  · intro acct
    have b1 := bp_bankSend_bal hs1 acct
    have b2 := bp_bankSend_bal hs2 acct
    rw [hbal, b2, b1]
    show _ = getBal s.bal acct - (if acct = c then s.params.betFee + sumBet fulfs else 0)
      + (if acct = ACC_POOL then sumBet fulfs else 0) + (if acct = ACC_BETFEE then s.params.betFee else 0)
    simp only at htk ⊢
    rw [htk]
    repeat' split
    all_goals omega
  · intro hfee
    have hfee : s.params.betFee ≤ a := hfee
    have hP : 0 ≤ ((ov.mulInt (a - s.params.betFee)).sub (Dec.ofInt (a - s.params.betFee))).raw := by
      simp only [Dec.sub, Dec.mulInt, Dec.ofInt]
      have h2 : 0 ≤ a - s.params.betFee := by omega
      have : (a - s.params.betFee) * PREC ≤ ov.raw * (a - s.params.betFee) := by
        rw [Int.mul_comm ov.raw]
        exact Int.mul_le_mul_of_nonneg_left (by omega) h2
      omega
    have hacc := c03_wager_accounting _ _ _ _ _ _ _ _ _ _ _ _ _ hP hr
    exact ⟨hacc.2.1, hacc.2.2⟩
  · intro z hz
    rw [hbets] at hz
    exact mem_upsert_or Bet.key _ _ _ hz

-- ---------------------------------------------------------------------------------------------
-- every operation

/-- the same ticket: the records differ at most in status, result and settlement height -/
def BpSame (b0 b : Bet) : Prop :=
  b = { b0 with status := b.status, result := b.result, settleHeight := b.settleHeight }

theorem BpSame.refl (b : Bet) : BpSame b b := rfl

theorem BpSame.trans {a b c : Bet} (h1 : BpSame a b) (h2 : BpSame b c) : BpSame a c := by
  unfold BpSame at *
  rw [h2, h1]

/-- how one operation may change the bet store: every record of the new state is a record of the old state up to the
    settlement fields, or the operation is an accepted wager and the record is the one it stored -/
def BpStepBets (s : State) (op : Op) (s' : State) : Prop :=
  ∀ b' ∈ s'.bets, (∃ b0 ∈ s.bets, BpSame b0 b') ∨
    ∃ c tk u a pl, op = .wager c tk u a pl ∧ wagerO s c tk u a pl = some s' ∧ BpPlaced s c u a pl s' b'

theorem BpStepBets.of_eq {s s' : State} {op : Op} (e : s'.bets = s.bets) : BpStepBets s op s' :=
  fun b hb => Or.inl ⟨b, by rw [← e]; exact hb, BpSame.refl b⟩

theorem bp_commit_bets {s : State} {r : Option State} (op : Op) (h : ∀ s', r = some s' → SameBets s s') :
    BpStepBets s op (commit s r).1 := by
  unfold commit
  cases r with
  | none => exact BpStepBets.of_eq rfl
  | some s' => exact BpStepBets.of_eq (h s' rfl).1

theorem bp_step_bets (s : State) (op : Op) (hI : BetIdx s) : BpStepBets s op (step s op).1 := by
  cases op with
  | marketAdd c tk u st en o stt => exact bp_commit_bets _ (fun _ h => marketAddO_same h)
  | marketUpdate tk u st en stt => exact bp_commit_bets _ (fun _ h => marketUpdateO_same h)
  | marketResolve tk u ts stt w => exact bp_commit_bets _ (fun _ h => marketResolveO_same h)
  | deposit c tk m a pd =>
    simp only [step, houseDeposit]
    cases h : houseDepositO s c tk m a pd with
    | none => exact BpStepBets.of_eq rfl
    | some r => exact BpStepBets.of_eq (houseDepositO_same h).1
  | withdraw c tk m i md a pd => exact bp_commit_bets _ (fun _ h => houseWithdrawO_same h)
  | wager c tk u a pl =>
    simp only [step, wager, commit]
    cases h : wagerO s c tk u a pl with
    | none => exact BpStepBets.of_eq rfl
    | some s' =>
      obtain ⟨nb, hp, hmem⟩ := bp_wagerO_placed h
      intro b' hb'
      rcases hmem b' hb' with e | hin
      · exact Or.inr ⟨c, tk, u, a, pl, rfl, h, by rw [e]; exact hp⟩
      · exact Or.inl ⟨b', hin, BpSame.refl b'⟩
  | grant g e k l x => exact BpStepBets.of_eq rfl
  | revoke g e k => exact BpStepBets.of_eq rfl
  | send a b x =>
    simp only [step]
    split
    · exact BpStepBets.of_eq rfl
    · exact bp_commit_bets _ (fun _ h => bankSend_same h)
  | setParams p =>
    simp only [step]
    split
    · exact BpStepBets.of_eq rfl
    · exact BpStepBets.of_eq rfl
  | endBlock =>
    simp only [step, endBlock]
    cases h : endBlockO s with
    | none => exact BpStepBets.of_eq rfl
    | some s' =>
      obtain ⟨_, g⟩ := endBlockO_good hI h
      intro b' hb'
      rcases g.origin b' hb' with hin | ⟨b0, hb0, _, res, e⟩
      · exact Or.inl ⟨b', hin, BpSame.refl b'⟩
      · exact Or.inl ⟨b0, hb0, by rw [e]; rfl⟩
  | newBlock h t => exact BpStepBets.of_eq rfl

/-- a step that makes the bet store longer is an accepted wager -/
theorem bp_step_grows (s : State) (op : Op) (hI : BetIdx s) (hlen : s.bets.length < (step s op).1.bets.length) :
    ∃ c tk u a pl, op = .wager c tk u a pl ∧ wagerO s c tk u a pl = some (step s op).1 := by
  have hne : (step s op).1.bets ≠ s.bets := by
    intro e; rw [e] at hlen; omega
  cases op with
  | marketAdd c tk u st en o stt =>
    exfalso; apply hne
    simp only [step, marketAdd, commit]
    cases h : marketAddO s c tk u st en o stt with
    | none => rfl
    | some s' => exact (marketAddO_same h).1
  | marketUpdate tk u st en stt =>
    exfalso; apply hne
    simp only [step, marketUpdate, commit]
    cases h : marketUpdateO s tk u st en stt with
    | none => rfl
    | some s' => exact (marketUpdateO_same h).1
  | marketResolve tk u ts stt w =>
    exfalso; apply hne
    simp only [step, marketResolve, commit]
    cases h : marketResolveO s tk u ts stt w with
    | none => rfl
    | some s' => exact (marketResolveO_same h).1
  | deposit c tk m a pd =>
    exfalso; apply hne
    simp only [step, houseDeposit]
    cases h : houseDepositO s c tk m a pd with
    | none => rfl
    | some r => exact (houseDepositO_same h).1
  | withdraw c tk m i md a pd =>
    exfalso; apply hne
    simp only [step, houseWithdraw, commit]
    cases h : houseWithdrawO s c tk m i md a pd with
    | none => rfl
    | some s' => exact (houseWithdrawO_same h).1
  | wager c tk u a pl =>
    refine ⟨c, tk, u, a, pl, rfl, ?_⟩
    simp only [step, wager, commit] at hne ⊢
    cases h : wagerO s c tk u a pl with
    | none => rw [h] at hne; exact absurd rfl hne
    | some s' => rfl
  | grant g e k l x => exact absurd rfl hne
  | revoke g e k => exact absurd rfl hne
  | send a b x =>
    exfalso; apply hne
    simp only [step]
    split
    · rfl
    · unfold commit
      cases h : bankSend s a b x with
      | none => rfl
      | some s' => exact (bankSend_same h).1
  | setParams p =>
    exfalso; apply hne
    simp only [step]
    split <;> rfl
  | endBlock =>
    exfalso
    simp only [step, endBlock] at hlen
    cases h : endBlockO s with
    | none => rw [h] at hlen; simp at hlen
    | some s' =>
      rw [h] at hlen
      obtain ⟨hI', g⟩ := endBlockO_good hI h
      have c1 := hI'.count
      have c2 := hI.count
      have c3 := g.count
      simp only at hlen
      omega
  | newBlock h t => exact absurd rfl hne

end Sge.Core
