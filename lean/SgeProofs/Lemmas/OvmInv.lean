/-
  Invariants of the x/ovm model over all histories: shape of the vault and of every active proposal,
  one vote per key, and their preservation by the three operations (both variants of the model).
-/
import SgeProofs.Lemmas.Ovm
namespace Sge.Ovm

/-! ### decoded keys -/

theorem sameKey_self (a : Pem) : sameKey a a = true := by simp [sameKey]

theorem sameKey_false_ne (a b : Pem) (h : sameKey a b = false) (ha : (decode a).isSome = true) :
    decode a ≠ decode b := by
  intro hab
  unfold sameKey at h
  simp only [Bool.or_eq_false_iff] at h
  have h2 := h.2
  rw [← hab] at h2
  cases hd : decode a with
  | none => simp [hd] at ha
  | some x => simp [hd] at h2

theorem sameKey_true (a b : Pem) (h : sameKey a b = true) :
    a = b ∨ ((decode a).isSome = true ∧ decode a = decode b) := by
  unfold sameKey at h
  simp only [Bool.or_eq_true] at h
  rcases h with h | h
  · exact Or.inl (by simpa using h)
  · right
    split at h
    · rename_i x y hx hy
      simp at h; subst h
      exact ⟨by simp [hx], by rw [hx, hy]⟩
    · simp at h

theorem distinctKeys_nodup : ∀ (l : List Pem), distinctKeys l = true →
    (∀ k ∈ l, (decode k).isSome = true) → (l.map decode).Nodup
  | [], _, _ => by simp
  | x :: xs, h, hd => by
    unfold distinctKeys at h
    simp only [Bool.and_eq_true, Bool.not_eq_true', List.any_eq_false] at h
    simp only [List.map_cons, List.nodup_cons, List.mem_map, not_exists, not_and]
    refine ⟨?_, distinctKeys_nodup xs h.2 (fun k hk => hd k (List.mem_cons_of_mem _ hk))⟩
    intro y hy hxy
    have := h.1 y hy
    exact sameKey_false_ne x y (by simpa using this) (hd x List.mem_cons_self) hxy.symm

/-! ### the invariant -/

/-- a key list as the module wants it: 4 to 5 strings, all parse, pairwise different strings; in the
    patched code also pairwise different keys -/
def KeysOK (fixed : Bool) (l : List Pem) : Prop :=
  minKeys ≤ l.length ∧ l.length ≤ maxKeys ∧ (∀ k ∈ l, (decode k).isSome = true) ∧ l.Nodup ∧
  (fixed = true → (l.map decode).Nodup)

instance (fixed : Bool) (l : List Pem) : Decidable (KeysOK fixed l) := by
  unfold KeysOK; infer_instance

/-- the votes of a proposal: one per key string; in the patched code one per key -/
def VotesOK (fixed : Bool) (votes : List (Pem × Vote)) : Prop :=
  (votes.map (fun w => w.1)).Nodup ∧
  (fixed = true → (∀ w ∈ votes, (decode w.1).isSome = true) ∧ (votes.map (fun w => decode w.1)).Nodup)

def ProposalOK (fixed : Bool) (p : Proposal) : Prop :=
  KeysOK fixed p.keys ∧ p.leader < p.keys.length ∧ VotesOK fixed p.votes

def Inv (fixed : Bool) (s : State) : Prop :=
  KeysOK fixed s.vault ∧ ∀ p ∈ s.active, ProposalOK fixed p

theorem KeysOK.weaken {l : List Pem} (h : KeysOK true l) (fixed : Bool) : KeysOK fixed l :=
  ⟨h.1, h.2.1, h.2.2.1, h.2.2.2.1, fun _ => h.2.2.2.2 rfl⟩

theorem KeysOK.perm {fixed : Bool} {l l' : List Pem} (h : KeysOK fixed l) (hp : l'.Perm l) : KeysOK fixed l' := by
  refine ⟨?_, ?_, ?_, ?_, ?_⟩
  · rw [hp.length_eq]; exact h.1
  · rw [hp.length_eq]; exact h.2.1
  · intro k hk; exact h.2.2.1 k (hp.mem_iff.mp hk)
  · exact hp.nodup_iff.mpr h.2.2.2.1
  · intro hf; exact (hp.map decode).nodup_iff.mpr (h.2.2.2.2 hf)

theorem KeysOK.newVault {fixed : Bool} {p : Proposal} {nv : List Pem} (h : KeysOK fixed p.keys)
    (hn : newVault p = some nv) : KeysOK fixed nv ∧ nv.head? = p.keys[p.leader]? := by
  unfold Sge.Ovm.newVault at hn
  split at hn
  · simp at hn
  · rename_i l hl
    simp at hn; subst hn
    exact ⟨h.perm (perm_cons_eraseIdx _ _ _ hl), by simp [hl]⟩

theorem newVault_isSome {p : Proposal} (h : p.leader < p.keys.length) : ∃ nv, newVault p = some nv := by
  unfold newVault
  have : p.keys[p.leader]? = some p.keys[p.leader] := List.getElem?_eq_getElem h
  rw [this]; exact ⟨_, rfl⟩

/-! ### preservation -/

theorem validPayload_spec (fixed : Bool) (keys : List Pem) (leader : Nat) (hn : keys.Nodup)
    (h : validPayload fixed keys leader = true) : KeysOK fixed keys ∧ leader < keys.length := by
  unfold validPayload at h
  simp only [Bool.and_eq_true, decide_eq_true_eq, Bool.or_eq_true, Bool.not_eq_true', List.all_eq_true] at h
  obtain ⟨⟨⟨⟨h1, h2⟩, h3⟩, h4⟩, h5⟩ := h
  refine ⟨⟨h1, h2, h3, hn, ?_⟩, h5⟩
  intro hf
  rcases h4 with h4 | h4
  · rw [hf] at h4; cases h4
  · exact distinctKeys_nodup keys h4 h3

theorem submitMsg_inv (fixed : Bool) (s : State) (now : Int) (c : Nat) (t : Ticket ProposalPayload)
    (hi : Inv fixed s) : Inv fixed (submitMsg fixed s now c t).1 := by
  cases hr : (submitMsg fixed s now c t).2 with
  | false => rw [submitMsg_err fixed s now c t hr]; exact hi
  | true =>
    obtain ⟨pl, _, hp, hs⟩ := submitMsg_ok fixed s now c t hr
    rw [hs]
    refine ⟨hi.1, ?_⟩
    intro q hq
    rcases mem_setP _ _ _ hq with rfl | hq
    · have := validPayload_spec fixed _ _ (dedup_nodup pl.keys) hp
      exact ⟨this.1, this.2, by simp [newProposal, VotesOK]⟩
    · exact hi.2 q hq

theorem alreadyVoted_false (fixed : Bool) (votes : List (Pem × Vote)) (pk : Pem)
    (h : alreadyVoted fixed votes pk = false) :
    (∀ w ∈ votes, w.1 ≠ pk) ∧ (fixed = true → ∀ w ∈ votes, sameKey w.1 pk = false) := by
  unfold alreadyVoted at h
  simp only [List.any_eq_false] at h
  constructor
  · intro w hw hwp
    have := h w hw
    cases fixed with
    | false => simp [hwp] at this
    | true => simp [hwp, sameKey_self] at this
  · intro hf w hw
    have := h w hw
    simpa [hf] using this

theorem addVote_ok (fixed : Bool) (vault : List Pem) (p : Proposal) (pk : Pem) (v : Vote)
    (hv : KeysOK fixed vault) (hpk : pk ∈ vault) (hp : ProposalOK fixed p)
    (ha : alreadyVoted fixed p.votes pk = false) : ProposalOK fixed (addVote p pk v) := by
  obtain ⟨h1, h2⟩ := alreadyVoted_false fixed p.votes pk ha
  refine ⟨hp.1, hp.2.1, ?_, ?_⟩
  · simp only [addVote, List.map_append, List.map_cons, List.map_nil]
    rw [List.nodup_append]
    refine ⟨hp.2.2.1, by simp, ?_⟩
    intro a ha b hb
    simp only [List.mem_map] at ha
    obtain ⟨w, hw, rfl⟩ := ha
    simp only [List.mem_singleton] at hb
    subst hb
    exact h1 w hw
  · intro hf
    obtain ⟨hd, hn⟩ := hp.2.2.2 hf
    constructor
    · intro w hw
      simp only [addVote, List.mem_append, List.mem_singleton] at hw
      rcases hw with hw | rfl
      · exact hd w hw
      · exact hv.2.2.1 pk hpk
    · simp only [addVote, List.map_append, List.map_cons, List.map_nil]
      rw [List.nodup_append]
      refine ⟨hn, by simp, ?_⟩
      intro a ha b hb
      simp only [List.mem_map] at ha
      obtain ⟨w, hw, rfl⟩ := ha
      simp only [List.mem_singleton] at hb
      subst hb
      exact sameKey_false_ne w.1 pk (h2 hf w hw) (hd w hw)

theorem voteMsg_inv (fixed : Bool) (s : State) (now : Int) (i : Nat) (t : Ticket VotePayload)
    (hi : Inv fixed s) : Inv fixed (voteMsg fixed s now i t).1 := by
  cases hr : (voteMsg fixed s now i t).2 with
  | false => rw [voteMsg_err fixed s now i t hr]; exact hi
  | true =>
    obtain ⟨pk, pl, v, p, h1, _, _, h4, h5, hs⟩ := voteMsg_ok fixed s now i t hr
    rw [hs]
    refine ⟨hi.1, ?_⟩
    intro q hq
    rcases mem_setP _ _ _ hq with rfl | hq
    · exact addVote_ok fixed s.vault p pk v hi.1 (List.mem_of_getElem? h1) (hi.2 p (mem_of_getP _ _ _ h4).1) h5
    · exact hi.2 q hq

theorem processOne_inv (fixed : Bool) (now : Int) (v0 : List Pem) (s s' : State) (p : Proposal)
    (hi : Inv fixed s) (hp : ProposalOK fixed p) (h : processOne fixed now v0 s p = .cont s') : Inv fixed s' := by
  rcases processOne_spec fixed now v0 s p with h1 | h1 | ⟨s1, h1, ha, hv⟩
  · rw [h1] at h; cases h
  · rw [h1] at h; cases h
  · rw [h1] at h; injection h with h; subst h
    constructor
    · rcases hv with hv | ⟨_, hn⟩
      · rw [hv]; exact hi.1
      · exact (hp.1.newVault hn).1
    · intro q hq
      rcases ha with ha | ha
      · rw [ha] at hq; exact hi.2 q hq
      · rw [ha] at hq; exact hi.2 q (mem_delP _ _ _ hq)

theorem finishLoop_inv (fixed : Bool) (now : Int) (v0 : List Pem) : ∀ (l : List Proposal) (s s' : State),
    Inv fixed s → (∀ p ∈ l, ProposalOK fixed p) →
    (finishLoop fixed now v0 l s = .cont s' ∨ finishLoop fixed now v0 l s = .abort s') → Inv fixed s'
  | [], s, s', hi, _, h => by
    simp only [finishLoop] at h
    rcases h with h | h
    · injection h with h; subst h; exact hi
    · cases h
  | p :: rest, s, s', hi, hl, h => by
    rcases processOne_spec fixed now v0 s p with h1 | h1 | ⟨s1, h1, _, _⟩
    · simp only [finishLoop, h1] at h
      rcases h with h | h <;> cases h
    · simp only [finishLoop, h1] at h
      rcases h with h | h
      · cases h
      · injection h with h; subst h; exact hi
    · rw [finishLoop_cons_cont fixed now v0 p rest s s1 h1] at h
      exact finishLoop_inv fixed now v0 rest s1 s'
        (processOne_inv fixed now v0 s s1 p hi (hl p List.mem_cons_self) h1)
        (fun q hq => hl q (List.mem_cons_of_mem _ hq)) h

/-- under the invariant the loop never panics -/
theorem finishLoop_no_halt (fixed : Bool) (now : Int) (v0 : List Pem) : ∀ (l : List Proposal) (s : State),
    Inv fixed s → (∀ p ∈ l, ProposalOK fixed p) → finishLoop fixed now v0 l s ≠ .halt
  | [], s, _, _ => by simp [finishLoop]
  | p :: rest, s, hi, hl => by
    cases h1 : processOne fixed now v0 s p with
    | halt =>
      exfalso
      obtain ⟨nv, hnv⟩ := newVault_isSome (hl p List.mem_cons_self).2.1
      unfold processOne at h1
      split at h1
      · unfold finishStep at h1; split at h1 <;> cases h1
      · split at h1
        · unfold finishStep at h1; split at h1 <;> cases h1
        · rw [hnv] at h1
          simp only at h1
          split at h1 <;> cases h1
        · cases h1
    | abort s1 => simp [finishLoop, h1]
    | cont s1 =>
      rw [finishLoop_cons_cont fixed now v0 p rest s s1 h1]
      exact finishLoop_no_halt fixed now v0 rest s1
        (processOne_inv fixed now v0 s s1 p hi (hl p List.mem_cons_self) h1)
        (fun q hq => hl q (List.mem_cons_of_mem _ hq))

theorem endBlock_inv (fixed : Bool) (s : State) (now : Int) (hi : Inv fixed s) :
    Inv fixed (endBlock fixed s now).1 := by
  unfold endBlock
  cases h : finishLoop fixed now s.vault s.active s with
  | cont s' => exact finishLoop_inv fixed now s.vault s.active s s' hi hi.2 (Or.inl h)
  | abort s' => exact finishLoop_inv fixed now s.vault s.active s s' hi hi.2 (Or.inr h)
  | halt => exact hi

theorem endBlock_no_halt (fixed : Bool) (s : State) (now : Int) (hi : Inv fixed s) :
    (endBlock fixed s now).2 = .ok := by
  unfold endBlock
  cases h : finishLoop fixed now s.vault s.active s with
  | cont s' => rfl
  | abort s' => rfl
  | halt => exact absurd h (finishLoop_no_halt fixed now s.vault s.active s hi hi.2)

theorem step_inv (fixed : Bool) (s : State) (now : Int) (op : Op) (hi : Inv fixed s) :
    Inv fixed (step fixed s now op) := by
  cases op with
  | submit c t => exact submitMsg_inv fixed s now c t hi
  | vote i t => exact voteMsg_inv fixed s now i t hi
  | endBlock => exact endBlock_inv fixed s now hi

theorem run_inv (fixed : Bool) : ∀ (ops : List (Int × Op)) (s : State), Inv fixed s → Inv fixed (run fixed s ops)
  | [], _, hi => hi
  | (now, op) :: rest, s, hi => run_inv fixed rest _ (step_inv fixed s now op hi)

/-- genesis as the design assumes it: 4 to 5 valid, pairwise different keys, nothing else in the stores -/
def GenesisOK (v : List Pem) : Prop := KeysOK true v

instance (v : List Pem) : Decidable (GenesisOK v) := by
  unfold GenesisOK; infer_instance

theorem genesis_inv (fixed : Bool) (v : List Pem) (h : GenesisOK v) : Inv fixed (genesis v) :=
  ⟨h.weaken fixed, by simp [genesis]⟩

/-- states reachable from an admissible genesis by any history of proposals, votes and end-blocks at any
    block times -/
def Reachable (fixed : Bool) (s : State) : Prop :=
  ∃ v ops, GenesisOK v ∧ s = run fixed (genesis v) ops

theorem Reachable.inv {fixed : Bool} {s : State} (h : Reachable fixed s) : Inv fixed s := by
  obtain ⟨v, ops, hg, rfl⟩ := h
  exact run_inv fixed ops _ (genesis_inv fixed v hg)

end Sge.Ovm
