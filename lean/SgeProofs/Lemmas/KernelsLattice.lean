/-
  Input lattices for the arithmetic-kernel tie (bin/kernelstie, extract/KERNELS.md).
  When a tie theorem of SgeProofs/Properties/KernelsTie/<K>.lean no longer builds, bin/kernelstie evaluates the
  generated definition and the model function on the lattice of SgeProofs/Lemmas/KernelsLattice/<K>.lean and
  prints the first input on which they differ (`KERNEL-DIFF …`) or, when there is none, `KERNEL-NODIFF …`.
  Boundary values: 0, ±1, small numbers, multiples and halves of 10^18 (banker's rounding), big numbers.
-/
import Sge.Dec
namespace Sge.KernelsTie
open Sge

/-- compact rendering of lattice points and results (no spaces: one token per field of the report line) -/
class krn_Fmt (α : Type) where
  fmt : α → String

instance : krn_Fmt Int := ⟨fun i => toString i⟩
instance : krn_Fmt Nat := ⟨fun i => toString i⟩
instance : krn_Fmt Bool := ⟨fun b => toString b⟩
instance : krn_Fmt Unit := ⟨fun _ => "()"⟩
instance : krn_Fmt Dec := ⟨fun d => toString d.raw ++ "e-18"⟩
instance {α : Type} [krn_Fmt α] : krn_Fmt (Option α) :=
  ⟨fun o => match o with | none => "none" | some a => "some:" ++ krn_Fmt.fmt a⟩
instance {α β : Type} [krn_Fmt α] [krn_Fmt β] : krn_Fmt (α × β) :=
  ⟨fun p => "(" ++ krn_Fmt.fmt p.1 ++ "," ++ krn_Fmt.fmt p.2 ++ ")"⟩

/-- one lattice point: `none` when the generated definition and the model agree, else (input, gen, model) -/
def krn_cmp {ι α : Type} [krn_Fmt ι] [krn_Fmt α] [DecidableEq α] (i : ι) (g m : α) : Option (String × String × String) :=
  if g = m then none else some (krn_Fmt.fmt i, krn_Fmt.fmt g, krn_Fmt.fmt m)

/-- the report line printed by bin/kernelstie -/
def krn_report (kernel : String) (points : Nat) (r : Option (String × String × String)) : String :=
  match r with
  | none => s!"KERNEL-NODIFF kernel={kernel} points={points}"
  | some (i, g, m) => s!"KERNEL-DIFF kernel={kernel} input={i} gen={g} model={m}"

def krn_half : Int := 500000000000000000

/-- integers (amounts): full lattice for kernels of one or two integer arguments -/
def krn_ints : List Int :=
  [0, 1, -1, 2, -2, 3, 7, 10, -10, 999, 1000000, -1000000, krn_half, krn_half + 1, PREC - 1, PREC, PREC + 1, -PREC,
   3 * krn_half, 2 * PREC, 5 * krn_half, 1000000000000000000000000000000, -1000000000000000000000000000000]
/-- 11 integers, for three or four integer arguments -/
def krn_intsM : List Int := [0, 1, -1, 2, -3, 10, 1000, -1000, PREC, -PREC, 1000000000000000000000000000000]
/-- 6 integers, for five and more arguments -/
def krn_intsS : List Int := [0, 1, -1, 3, -7, 1000]

/-- decimals by raw value: 0, ±10^-18, halves (ties of banker's rounding to even and to odd), one, fractions, big -/
def krn_decs : List Dec :=
  ([0, 1, -1, krn_half - 1, krn_half, krn_half + 1, -krn_half, PREC - 1, PREC, PREC + 1, -PREC, 3 * krn_half - 1, 3 * krn_half,
    3 * krn_half + 1, -3 * krn_half, 2 * PREC, 5 * krn_half, -5 * krn_half, 7 * krn_half, 100000000000000000, 50000000000000000,
    1100000000000000000, 333333333333333333, 10750000000000000000, 1000000000000000000000000000000 + krn_half,
    1000000000000000000000000000000000000] : List Int).map Dec.mk
/-- 10 decimals, for kernels of several arguments -/
def krn_decsM : List Dec :=
  ([0, 1, -1, krn_half, PREC, -PREC, 3 * krn_half, 5 * krn_half, 100000000000000000, 333333333333333333] : List Int).map Dec.mk
/-- decimal odds as parsed from the ticket: unparsable, non-positive, ≤ 1, and ordinary odds -/
def krn_odds : List (Option Dec) :=
  none :: ([0, -PREC, krn_half, PREC, PREC + 1, 1010000000000000000, 3 * krn_half, 2 * PREC, 5 * krn_half, 3 * PREC,
            10750000000000000000, 1333333333333333333] : List Int).map (fun r => some (Dec.mk r))
def krn_bools : List Bool := [false, true]
def krn_ids : List Nat := [0, 1, 2]

end Sge.KernelsTie
