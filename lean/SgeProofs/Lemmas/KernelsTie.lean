/-
  The closing tactic of the kernel-tie theorems (SgeProofs/Properties/KernelsTie/*.lean).
  The ties are meant to survive harmless rewrites of the Go source (a flipped if/else, `LT` against the swapped
  operands, re-associated sums): after both sides are unfolded, `krn_close` splits every `if` of either side and closes
  each path by `rfl`, linear arithmetic, or component-wise linear arithmetic under the constructors of the result.
-/
import Sge.Dec
namespace Sge.KernelsTie
open Sge

syntax "krn_close" (" [" Lean.Parser.Tactic.simpLemma,* "]")? : tactic

macro_rules
  | `(tactic| krn_close) => `(tactic| krn_close [Prod.mk.injEq])
  | `(tactic| krn_close [$ls,*]) => `(tactic|
      ((try unfold Sge.maxI)
       (try unfold Sge.minI)
       (try simp only [Int.min_def, Int.max_def, decide_eq_decide, gt_iff_lt, ge_iff_le, Bool.false_eq_true,
          if_false, if_true, beq_iff_eq, Dec.one, Dec.zero, false_or, or_false, true_or, or_true, false_and, and_false,
          true_and, and_true, not_true_eq_false, not_false_eq_true, Int.not_lt, Int.not_le])
       all_goals (repeat' split) <;>
       first
         | rfl
         | omega
         | (exfalso; omega)
         | (simp only [Prod.mk.injEq, Option.some.injEq, Option.map, Dec.mk.injEq, true_and, and_true, $ls,*] <;>
              (repeat' constructor) <;> omega)
         | (congr 1 <;> omega)
         | (congr 2 <;> omega)
         | (simp only [Dec.add, Dec.sub, Dec.neg, Dec.ofInt, Dec.mulInt, Dec.truncInt, Dec.roundInt, Dec.mk.injEq,
              Prod.mk.injEq, Option.some.injEq] <;> (repeat' constructor) <;>
              first | omega | (congr 1 <;> omega) | (congr 2 <;> omega))))

end Sge.KernelsTie
