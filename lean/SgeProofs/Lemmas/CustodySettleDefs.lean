/- the invariant bundle that carries the custody equations through the settling end-blocks, and the small
   store / frame facts it needs -/
import SgeProofs.Lemmas.CustodyOps
import SgeProofs.Properties.C07
namespace Sge.Core
open Sge Sge.Genesis

-- ---------------------------------------------------------------------------------------------
-- membership in a store after a `Set`, without any sortedness assumption

theorem mem_upsert_or {α : Type} (key : α → List Nat) (x z : α) (l : List α) (h : z ∈ upsert key x l) : z = x ∨ z ∈ l := by
  rcases (mem_upsert key x z l).mp h with h | h | h
  · exact Or.inl h
  · exact Or.inr h.1
  · exact Or.inr h.1

theorem mem_upsert_self {α : Type} (key : α → List Nat) (x : α) (l : List α) : x ∈ upsert key x l :=
  (mem_upsert key x x l).mpr (Or.inl rfl)

theorem mem_upsert_of_ne {α : Type} (key : α → List Nat) (x z : α) (l : List α) (hz : z ∈ l)
    (hk : (key z == key x) = false) : z ∈ upsert key x l :=
  (mem_upsert key x z l).mpr (Or.inr (Or.inl ⟨hz, hk, trivial⟩))

theorem lookup_mem {α : Type} {key : α → List Nat} {k : List Nat} {l : List α} {y : α} (h : lookup key k l = some y) :
    y ∈ l ∧ key y = k := by
  unfold lookup at h
  refine ⟨List.mem_of_find?_eq_some h, ?_⟩
  have := List.find?_some h
  simpa using this

/-- a member of a sorted store is what `lookup` finds under its key -/
theorem lookup_of_mem_sorted {α : Type} (key : α → List Nat) (x : α) (l : List α) (hs : Sorted key l) (hx : x ∈ l) :
    lookup key (key x) l = some x := by
  have := upsert_mem key x l hs hx
  have h2 := lookup_upsert_self key x l
  rw [this] at h2
  exact h2

theorem sumBy_zero {α : Type} (f : α → Int) (l : List α) (h : ∀ x ∈ l, f x = 0) : sumBy f l = 0 := by
  induction l with
  | nil => rfl
  | cons x xs ih =>
    rw [sumBy_cons, h x (List.mem_cons_self ..), ih (fun y hy => h y (List.mem_cons_of_mem _ hy))]
    rfl

theorem getPart_mem {b : Book} {i : Nat} {p : Part} (h : b.getPart i = some p) : p ∈ b.parts := by
  unfold Book.getPart at h
  exact (lookup_mem h).1

theorem getMarket_mem {s : State} {u : Nat} {m : Market} (h : getMarket s u = some m) : m ∈ s.markets :=
  (lookup_mem h).1

-- ---------------------------------------------------------------------------------------------
-- the Go slice removal only ever drops elements

theorem goRemoveAux_sub (idx : Nat) : ∀ (n i : Nat) (arr : List Nat) (len : Nat) (r : List Nat × Nat),
    goRemoveAux idx n i arr len = some r → ∀ x ∈ r.1, x ∈ arr := by
  intro n
  induction n with
  | zero =>
    intro i arr len r h x hx
    simp only [goRemoveAux, Option.some.injEq] at h
    rw [← h] at hx; exact hx
  | succ n ih =>
    intro i arr len r h x hx
    unfold goRemoveAux at h
    split at h
    · split at h
      · have := ih _ _ _ _ h x hx
        simp only [List.mem_append] at this
        rcases this with (h1 | h1) | h1
        · exact List.mem_of_mem_take h1
        · exact List.mem_of_mem_drop (List.mem_of_mem_take h1)
        · exact List.mem_of_mem_drop h1
      · cases h
    · exact ih _ _ _ _ h x hx

theorem goRemove_sub {q q' : List Nat} {idx : Nat} (h : goRemove q idx = some q') : ∀ x ∈ q', x ∈ q := by
  unfold goRemove at h
  simp only [Option.map_eq_some_iff] at h
  obtain ⟨r, hr, rfl⟩ := h
  intro x hx
  exact goRemoveAux_sub idx _ _ _ _ _ hr x (List.mem_of_mem_take hx)

-- ---------------------------------------------------------------------------------------------
-- the status of a book is changed by the end-blockers only

theorem rollOne_status (elig : Bool) (o idx : Nat) (acc : Book × PExp × List (Nat × Part × PExp)) (pe : PExp) :
    (rollOne elig o idx acc pe).1.status = acc.1.status := by
  unfold rollOne
  simp only
  split
  · split <;> rfl
  · rfl

theorem rollFold_status (elig : Bool) (o idx : Nat) : ∀ (l : List PExp) (acc : Book × PExp × List (Nat × Part × PExp)),
    (l.foldl (rollOne elig o idx) acc).1.status = acc.1.status := by
  intro l
  induction l with
  | nil => intro acc; rfl
  | cons e es ih =>
    intro acc
    simp only [List.foldl_cons]
    rw [ih, rollOne_status]

theorem requeueOddsFold_status (idx : Nat) : ∀ (l : List (Nat × List Nat)) (b : Book),
    (l.foldl (requeueOdds idx) b).status = b.status := by
  intro l
  induction l with
  | nil => intro b; rfl
  | cons x xs ih =>
    intro b
    simp only [List.foldl_cons]
    rw [ih]; rfl

theorem requeue_status (f : FInfo) (p : Part) (e : PExp) (o : Nat) : (requeue f p e o).book.status = f.book.status := by
  unfold requeue
  simp only
  have hr := rollFold_status (decide ((0 : Int) < p.crl - maxI 0 p.crMaxLoss)) o p.idx (f.book.expsOfIdx p.idx) (f.book, e, f.fmap)
  split
  · show (List.foldl _ _ _ : Book).status = _
    rw [requeueOddsFold_status]
    exact hr
  · exact hr

theorem stage1_status (o : Nat) (ov mult : Dec) (thr : Int) (f : FInfo) (pe : Part × PExp) :
    (stage1 o ov mult thr f pe).2.2.2.book.status = f.book.status := by
  unfold stage1
  simp only
  split <;> rfl

theorem secondaryOne_status (o : Nat) (thr : Int) (allExp : List PExp) (ms : List (Nat × Dec))
    (acc : Part × Book × Bool) (x : Nat) : (secondaryOne o thr allExp ms acc x).2.1.status = acc.2.1.status := by
  unfold secondaryOne
  split
  · rfl
  · split
    · rfl
    · split
      · rfl
      · split
        · rfl
        · split
          · simp only
            split <;> rfl
          · rfl

theorem secondaryFold_status (o : Nat) (thr : Int) (allExp : List PExp) (ms : List (Nat × Dec)) :
    ∀ (l : List Nat) (acc : Part × Book × Bool),
    (l.foldl (secondaryOne o thr allExp ms) acc).2.1.status = acc.2.1.status := by
  intro l
  induction l with
  | nil => intro acc; rfl
  | cons x xs ih =>
    intro acc
    simp only [List.foldl_cons]
    rw [ih, secondaryOne_status]

theorem stage2_status (o : Nat) (mo : List Nat) (ms : List (Nat × Dec)) (thr : Int) (x : Part × PExp × Bool × FInfo) :
    (stage2 o mo ms thr x).2.2.book.status = x.2.2.2.book.status := by
  unfold stage2
  split
  · simp only
    split
    · exact secondaryFold_status o thr x.2.2.2.allExp ms mo
        ({ x.1 with notFilled := wrapDec x.1.notFilled }, x.2.2.2.book, x.2.2.2.err)
    · rfl
  · rfl

theorem visit_status (o : Nat) (ov mult : Dec) (mo : List Nat) (ms : List (Nat × Dec)) (thr : Int) (f : FInfo) (i : Nat) :
    (visit o ov mult mo ms thr f i).book.status = f.book.status := by
  unfold visit
  split
  · rfl
  · rename_i pe _
    have s1 := stage1_status o ov mult thr f pe
    have s2 := stage2_status o mo ms thr (stage1 o ov mult thr f pe)
    unfold stage3
    simp only
    split
    · rw [requeue_status]
      show (stage2 o mo ms thr (stage1 o ov mult thr f pe)).2.2.book.status = _
      rw [s2, s1]
    · show (stage2 o mo ms thr (stage1 o ov mult thr f pe)).2.2.book.status = _
      rw [s2, s1]

theorem loop_status (o : Nat) (ov mult : Dec) (mo : List Nat) (ms : List (Nat × Dec)) (thr : Int) :
    ∀ (q : List Nat) (f : FInfo), (loop o ov mult mo ms thr q f).book.status = f.book.status := by
  intro q
  induction q with
  | nil => intro f; rfl
  | cons i rest ih =>
    intro f
    unfold loop
    simp only
    split
    · exact visit_status ..
    · split
      · exact visit_status ..
      · rw [ih]; exact visit_status ..

/-- ProcessWager never changes the status of the book -/
theorem processWager_status (b b' : Book) (o betId : Nat) (ov mult : Dec) (mo : List Nat) (ms : List (Nat × Dec))
    (thr A : Int) (P : Dec) (fulfs : List Fulf) (taken : Int)
    (h : processWager b o betId ov mult mo ms thr A P = some (b', fulfs, taken)) : b'.status = b.status := by
  unfold processWager at h
  simp only [bind, Option.bind_eq_some_iff] at h
  obtain ⟨q, _, f0, hf0, h⟩ := h
  have h0 : f0.book = b := by
    unfold initFInfo at hf0
    simp only [bind, Option.bind_eq_some_iff, pure, Option.some.injEq] at hf0
    obtain ⟨_, _, _, _, _, _, _, _, rfl⟩ := hf0
    rfl
  unfold finishWager at h
  split at h
  · cases h
  · split at h
    · cases h
    · simp only [Option.some.injEq, Prod.mk.injEq] at h
      obtain ⟨h1, _, _⟩ := h
      rw [← h1]
      show (loop o ov mult mo ms thr q f0).book.status = _
      rw [loop_status, h0]

theorem initExposuresFold_status (idx : Nat) : ∀ (l : List (Nat × List Nat)) (b : Book),
    (l.foldl (initExposures idx) b).status = b.status := by
  intro l
  induction l with
  | nil => intro b; rfl
  | cons x xs ih =>
    intro b
    simp only [List.foldl_cons]
    rw [ih]; rfl

/-- a deposit writes one fresh participation and leaves uid and status of the book alone -/
theorem addParticipation_shape (b : Book) (addr : Nat) (liq fee : Int) :
    (b.addParticipation addr liq fee).1.uid = b.uid ∧ (b.addParticipation addr liq fee).1.status = b.status ∧
    (b.addParticipation addr liq fee).1.parts = upsert Part.key (b.newPart addr liq fee) b.parts := by
  unfold Book.addParticipation
  simp only
  have hf := initExposuresFold_parts (b.partCount + 1) (b.setPart (b.newPart addr liq fee)).queues (b.setPart (b.newPart addr liq fee))
  have hs := initExposuresFold_status (b.partCount + 1) (b.setPart (b.newPart addr liq fee)).queues (b.setPart (b.newPart addr liq fee))
  exact ⟨hf.2, hs, hf.1⟩

theorem removeFromQueues_status (idx : Nat) : ∀ (l : List (Nat × List Nat)) (b b' : Book),
    removeFromQueues idx l b = some b' → b'.status = b.status := by
  intro l
  induction l with
  | nil => intro b b' h; simp [removeFromQueues] at h; rw [← h]
  | cons x xs ih =>
    intro b b' h
    unfold removeFromQueues at h
    split at h
    · cases h
    · have := ih _ _ h
      exact this

/-- a withdrawal rewrites one participation (liquidity only) and leaves uid and status of the book alone -/
theorem withdraw_shape {b b' : Book} {idx : Nat} {w : Int} {p : Part} (hp : b.getPart idx = some p)
    (h : b.withdraw idx w = some b') :
    b'.uid = b.uid ∧ b'.status = b.status ∧ b'.parts = upsert Part.key { p with crl := p.crl - w, liq := p.liq - w } b.parts := by
  unfold Book.withdraw at h
  rw [hp] at h
  simp only at h
  split at h
  · cases h; exact ⟨rfl, rfl, rfl⟩
  · have h1 := removeFromQueues_parts _ _ _ _ h
    have h2 := removeFromQueues_status _ _ _ _ h
    exact ⟨h1.2, h2, h1.1⟩

-- ---------------------------------------------------------------------------------------------
-- the invariant bundle

/-- a market that can no longer change: cancelled, aborted or result declared -/
def Market.resolved (m : Market) : Prop := isOpenStatus m.status = false

/-- what the settling end-blocks rely on, beyond the custody equations -/
structure SInv (s : State) : Prop where
  /-- K1  the pending index is complete: every open bet has its entry -/
  pendingAll : ∀ b ∈ s.bets, b.isOpen = true → (b.market, b.id, b.uid, b.creator) ∈ s.pending
  /-- bet ids are unique (they come from the bet counter) -/
  betIdInj : ∀ b1 ∈ s.bets, ∀ b2 ∈ s.bets, b1.id = b2.id → b1 = b2
  /-- K3  a book that left the active state has no open bet on its market -/
  closedNoOpen : ∀ b ∈ s.books, b.status ≠ OB_ACTIVE → ∀ x ∈ s.bets, x.market = b.uid → x.isOpen = false
  /-- K4  a paid participation lives in a book that left the active state -/
  settledClosed : ∀ b ∈ s.books, ∀ p ∈ b.parts, p.isSettled = true → b.status ≠ OB_ACTIVE
  /-- K5  the market of a book that left the active state is resolved -/
  closedResolved : ∀ b ∈ s.books, b.status ≠ OB_ACTIVE → ∃ m, getMarket s b.uid = some m ∧ m.resolved
  /-- K9  every market waiting for bet settlement is resolved -/
  queueResolved : ∀ u ∈ s.mqueue, ∃ m, getMarket s u = some m ∧ m.resolved
  /-- K6  the recorded stake of a bet is the sum of its backing parts -/
  stake : ∀ b ∈ s.bets, b.amount = sumBet b.fulfs
  /-- K7  bettors are user accounts -/
  bettorsUser : ∀ b ∈ s.bets, isModuleAcc b.creator = false
  /-- K7  market creators are user accounts -/
  creatorsUser : ∀ m ∈ s.markets, isModuleAcc m.creator = false
  /-- K10  profit or loss is realised only on a declared result -/
  profitDeclared : ∀ b ∈ s.books, ∀ p ∈ b.parts, p.actualProfit ≠ 0 → ∃ m, getMarket s b.uid = some m ∧ m.status = MS_DECLARED

/-- the invariant of every reachable state: custody equations, store shape, and the settlement facts -/
structure SettleInv (s : State) : Prop extends CustI s, SInv s

theorem declared_resolved {m : Market} (h : m.status = MS_DECLARED) : m.resolved := by
  unfold Market.resolved isOpenStatus; rw [h]; decide

/-- `SInv` only reads books, bets, the pending index, markets and the market queue -/
theorem SInv.of_eq {s s' : State} (h : SInv s) (hk : s'.books = s.books) (ht : s'.bets = s.bets)
    (hp : s'.pending = s.pending) (hm : s'.markets = s.markets) (hq : s'.mqueue = s.mqueue) : SInv s' := by
  obtain ⟨h1, h2, h3, h4, h5, h6, h7, h8, h9, h10⟩ := h
  have hg : ∀ u, getMarket s' u = getMarket s u := getMarket_congr hm
  refine ⟨?_, ?_, ?_, ?_, ?_, ?_, ?_, ?_, ?_, ?_⟩
  · rw [ht, hp]; exact h1
  · rw [ht]; exact h2
  · rw [hk, ht]; exact h3
  · rw [hk]; exact h4
  · rw [hk]; intro b hb hst; rw [hg]; exact h5 b hb hst
  · rw [hq]; intro u hu; rw [hg]; exact h6 u hu
  · rw [ht]; exact h7
  · rw [ht]; exact h8
  · rw [hm]; exact h9
  · rw [hk]; intro b hb p hp hne; rw [hg]; exact h10 b hb p hp hne

theorem SettleInv.of_eq {s s' : State} (h : SettleInv s) (hb : s'.bal = s.bal) (hk : s'.books = s.books) (ht : s'.bets = s.bets)
    (hc : s'.betCount = s.betCount) (hp : s'.pending = s.pending) (hm : s'.markets = s.markets) (hq : s'.mqueue = s.mqueue) :
    SettleInv s' :=
  { toCustI := h.toCustI.of_eq hb hk ht hc, toSInv := h.toSInv.of_eq hk ht hp hm hq }

end Sge.Core
