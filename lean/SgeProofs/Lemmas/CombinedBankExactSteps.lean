/-
  bank = available on the combined slice, part 3: the surplus `bank − Available()` of every address of the subaccount
  range is left EXACTLY as it was by the x/subaccount handlers, by the hook phase together with an end-block, and by
  every core operation that neither sends tokens to the subaccount range nor acts for a depositor / market creator in it.
-/
import SgeProofs.Lemmas.CombinedBankExactOb
namespace Sge.Combined
open Sge Sge.Core Sge.Genesis
open Sge.Subaccount (Summary SumNonneg spend_some unspend_some addLoss_some withdraw_some)

/-- the surplus of every address of the subaccount range is unchanged -/
def cmb2_Exact (s s' : State) : Prop := ∀ x, SUB_BASE ≤ x → surplus s' x = surplus s x

theorem cmb2_Exact.refl (s : State) : cmb2_Exact s s := fun _ _ => rfl
theorem cmb2_Exact.trans {s1 s2 s3 : State} (h1 : cmb2_Exact s1 s2) (h2 : cmb2_Exact s2 s3) : cmb2_Exact s1 s3 :=
  fun x hx => (h2 x hx).trans (h1 x hx)

/-- updating the record at `a` (which exists) after a change of the balances -/
theorem cmb2_exact_update {s s1 : State} {a : Nat} {r : SubRec} {sum' : Summary}
    (hr : aget s.subs a = some r) (hsubs : s1.subs = s.subs)
    (hother : ∀ x, SUB_BASE ≤ x → x ≠ a → s1.bal x = s.bal x)
    (hself : s1.bal a - sum'.available = s.bal a - r.sum.available) (r' : SubRec) (hr' : r'.sum = sum') :
    cmb2_Exact s (s1.setSub a r') := by
  intro x hx
  unfold surplus
  rw [cmb_led_setSub, cmb_bal_setSub]
  by_cases e : a = x
  · subst e
    simp only [if_true, led, hr, hr']
    exact hself
  · simp only [if_neg e]
    have : led s1 x = led s x := by unfold led; rw [hsubs]
    rw [this, hother x hx (fun h => e h.symm)]

theorem cmb2_topUp_exact {s s' : State} {creator owner : Nat} {ls : List Sge.Subaccount.Lock} (hR : InRange s)
    (hc : creator < SUB_BASE) (h : topUpO s creator owner ls = some s') : cmb2_Exact s s' := by
  unfold topUpO at h
  simp only [bind, Option.bind_eq_some_iff, pure, Option.some.injEq] at h
  obtain ⟨_, _, total, _, a, ha, r, hr, _, _, s1, hs1, rfl⟩ := h
  obtain ⟨v0, hrecv, hsubs, hmaps, hnid, _⟩ := cmb_send_recv hs1
  have hra := hR.of hr
  apply cmb2_exact_update hr hsubs (sum' := { r.sum with deposited := r.sum.deposited + total }) _ _ _ rfl
  · intro x hx hxa
    rw [hrecv x (by omega), if_neg hxa]
    omega
  · rw [hrecv a (by omega)]
    simp only [if_true, Summary.available]
    omega

theorem cmb2_withdrawUnlocked_exact {s s' : State} {owner : Nat} (hR : InRange s) (ho : owner < SUB_BASE)
    (h : withdrawUnlockedO s owner = some s') : cmb2_Exact s s' := by
  unfold withdrawUnlockedO at h
  simp only [bind, Option.bind_eq_some_iff, pure, Option.some.injEq] at h
  obtain ⟨a, ha, r, hr, _, _, sum', hw, s1, hs1, rfl⟩ := h
  obtain ⟨v0, hrecv, hsubs, hmaps, hnid, hsrc⟩ := cmb_send_recv hs1
  have hra := hR.of hr
  obtain ⟨w0, w1, rfl⟩ := withdraw_some hw
  apply cmb2_exact_update hr hsubs _ _ _ rfl
  · intro x hx hxa
    rw [hrecv x hxa, if_neg (by omega)]
    omega
  · rw [hsrc (by omega)]
    simp only [Summary.available]
    omega

theorem cmb2_withdrawLocked_exact {s s' : State} {a owner : Nat} {d : Int} (hR : InRange s) (ho : owner < SUB_BASE)
    (h : withdrawLockedO s a owner d = some s') : cmb2_Exact s s' := by
  unfold withdrawLockedO at h
  simp only [bind, Option.bind_eq_some_iff, pure, Option.some.injEq] at h
  obtain ⟨r, hr, _, _, s1, hs1, sum', hw, rfl⟩ := h
  obtain ⟨v0, hrecv, hsubs, hmaps, hnid, hsrc⟩ := cmb_send_recv hs1
  have hra := hR.of hr
  obtain ⟨w0, w1, rfl⟩ := withdraw_some hw
  apply cmb2_exact_update hr hsubs _ _ _ rfl
  · intro x hx hxa
    rw [hrecv x hxa, if_neg (by omega)]
    omega
  · rw [hsrc (by omega)]
    simp only [Summary.available]
    omega

theorem cmb2_returnToSub_exact {s s' : State} {a owner : Nat} {v : Int} (hR : InRange s) (ho : owner < SUB_BASE)
    (h : returnToSubO s a owner v = some s') : cmb2_Exact s s' := by
  unfold returnToSubO at h
  split at h
  · cases h; exact cmb2_Exact.refl _
  · rename_i hv
    simp only [bind, Option.bind_eq_some_iff, pure, Option.some.injEq] at h
    obtain ⟨r, hr, _, _, s1, hs1, rfl⟩ := h
    obtain ⟨v0, hrecv, hsubs, hmaps, hnid, _⟩ := cmb_send_recv hs1
    have hra := hR.of hr
    apply cmb2_exact_update hr hsubs (sum' := { r.sum with withdrawn := r.sum.withdrawn - v }) _ _ _ rfl
    · intro x hx hxa
      rw [hrecv x (by omega), if_neg hxa]
      omega
    · rw [hrecv a (by omega)]
      simp only [if_true, Summary.available]
      omega

/-- a change of the core component that leaves every balance of the subaccount range as it was -/
theorem cmb2_exact_core {s : State} {c : Core.State}
    (h : ∀ x, SUB_BASE ≤ x → getBal c.bal x = getBal s.core.bal x) : cmb2_Exact s { s with core := c } := by
  intro x hx
  unfold surplus
  have : led { s with core := c } x = led s x := rfl
  rw [this]
  show getBal c.bal x - _ = getBal s.core.bal x - _
  rw [h x hx]

theorem cmb2_subWagerBet_exact {s s' : State} {owner : Nat} {tk : Tk} {uid : Nat} {amount : Int} {pl : WagerPayload}
    (ho : isUser owner) (h : subWagerBet s owner tk uid amount pl = some s') : cmb2_Exact s s' := by
  unfold subWagerBet at h
  cases hc : wagerO s.core owner tk uid amount pl with
  | none => simp [hc] at h
  | some c =>
    simp only [hc, Option.map_some, Option.some.injEq] at h
    subst h
    obtain ⟨ch, _, _, hoth⟩ := cmb_wagerO_bal hc ho.2
    apply cmb2_exact_core
    intro x hx
    exact hoth x (by have := ho.1; omega) (cmb_range_notModule hx)

theorem cmb2_subWager_exact {s s' : State} {owner : Nat} {outerOk : Bool} {ic : Nat} {main sub : Int} {tk : Tk} {uid : Nat}
    {amount : Int} {pl : WagerPayload} (hR : InRange s) (hU : ∀ o a, aget s.owners o = some a → isUser o)
    (h : subWagerO s owner outerOk ic main sub tk uid amount pl = some s') : cmb2_Exact s s' := by
  have hk := cmb_subWager_keeps hR hU h
  unfold subWagerO at h
  simp only [bind, Option.bind_eq_some_iff, pure, Option.some.injEq] at h
  obtain ⟨_, _, a, ha, _, _, _, _, _, _, _, _, _, _, s1, hs1, s2, hs2, h3⟩ := h
  have ho := hU owner a ha
  have k1 := cmb_withdrawLocked_keeps hR ho.1 hs1
  have k2 := cmb_subWagerBet_keeps ho hs2
  have x1 := cmb2_withdrawLocked_exact hR ho.1 hs1
  have x2 := cmb2_subWagerBet_exact ho hs2
  have x3 := cmb2_returnToSub_exact (cmb_keeps_inRange (k1.trans k2) hR) ho.1 h3
  exact (x1.trans x2).trans x3

theorem cmb2_subDeposit_exact {s s' : State} {owner : Nat} {tk : Tk} {market : Nat} {amount : Int} {pd : Nat}
    (hR : InRange s) (hU : ∀ o a, aget s.owners o = some a → isUser o)
    (h : subDepositO s owner tk market amount pd = some s') : cmb2_Exact s s' := by
  unfold subDepositO at h
  simp only [bind, Option.bind_eq_some_iff, pure, Option.some.injEq] at h
  obtain ⟨_, _, a, ha, r, hr, _, _, sum', hsp, c, hc, rfl⟩ := h
  have ho := hU owner a ha
  have hra := hR.of hr
  obtain ⟨p0, p1, rfl⟩ := spend_some hsp
  unfold subDepositCore at hc
  cases hd : houseDepositO (putGrant s.core a owner 0 amount) owner (tkWith tk (tk.kycOk owner)) market amount a with
  | none => simp [hd] at hc
  | some res =>
    simp only [hd, Option.map_some, Option.some.injEq] at hc
    have hdf := cmb2_subAddr_ne hra ho.1
    obtain ⟨hself, hoth⟩ := cmb_houseDepositO_bal hd (by rw [hdf]; exact cmb_range_notModule hra)
    rw [hdf, hc] at hself
    rw [hc] at hoth
    apply cmb2_exact_update (s1 := { s with core := c }) hr rfl _ _ _ rfl
    · intro x hx hxa
      show getBal c.bal x = getBal s.core.bal x
      rw [hoth x (by rw [hdf]; exact hxa) (cmb_range_notModule hx)]
      rfl
    · show getBal c.bal a - _ = getBal s.core.bal a - _
      rw [hself]
      simp only [Summary.available]
      have : getBal (putGrant s.core a owner 0 amount).bal a = getBal s.core.bal a := rfl
      omega

theorem cmb2_subWithdraw_exact {s s' : State} {owner : Nat} {tk : Tk} {market idx mode : Nat} {amount : Int} {pd : Nat}
    (hR : InRange s) (h : subWithdrawO s owner tk market idx mode amount pd = some s') : cmb2_Exact s s' := by
  unfold subWithdrawO at h
  simp only [bind, Option.bind_eq_some_iff, pure, Option.some.injEq] at h
  obtain ⟨a, ha, r, hr, w, hw, c, hc, sum', hus, rfl⟩ := h
  have hra := hR.of hr
  obtain ⟨u0, u1, rfl⟩ := unspend_some hus
  unfold subWithdrawCore at hc
  have hane : (a != 0) = true := by have := cmb_SUB_BASE_pos; simp; omega
  obtain ⟨d, b, w', hd, hb, hw', w0, hself, hoth⟩ :=
    cmb_houseWithdrawO_bal hc (by simp only [hane, if_true]; exact cmb_range_notModule hra)
  simp only [hane, if_true] at hd hw' hself hoth
  have hww : w' = w := by
    unfold subWithdrawAmount at hw
    simp only [bind, Option.bind_eq_some_iff] at hw
    obtain ⟨d1, hd1, b1, hb1, hw1⟩ := hw
    have e1 : lookup Deposit.key [a, market, idx] (putGrant s.core a owner 1 w).deposits = lookup Deposit.key [a, market, idx] s.core.deposits := rfl
    have e2 : getBook (putGrant s.core a owner 1 w) market = getBook s.core market := rfl
    rw [e1, hd1] at hd
    rw [e2, hb1] at hb
    cases hd; cases hb
    rw [hw1] at hw'
    exact (Option.some.inj hw').symm
  subst hww
  apply cmb2_exact_update (s1 := { s with core := c }) hr rfl _ _ _ rfl
  · intro x hx hxa
    show getBal c.bal x = getBal s.core.bal x
    rw [hoth x hxa (cmb_range_notModule hx)]
    rfl
  · show getBal c.bal a - _ = getBal s.core.bal a - _
    rw [hself]
    simp only [Summary.available]
    have : getBal (putGrant s.core a owner 1 w').bal a = getBal s.core.bal a := rfl
    omega

/-- MsgCreate: the fresh address had no record; what it receives is what its new record shows as deposited -/
theorem cmb2_create_exact {s s' : State} {creator owner : Nat} {ls : List Sge.Subaccount.Lock}
    (hfresh : aget s.subs (subAddr s.nextId) = none) (hc : creator < SUB_BASE)
    (h : createO s creator owner ls = some s') : cmb2_Exact s s' := by
  unfold createO at h
  simp only [bind, Option.bind_eq_some_iff, pure, Option.some.injEq] at h
  obtain ⟨_, _, total, _, _, _, s1, hs1, rfl⟩ := h
  obtain ⟨v0, hrecv, hsubs, hmaps, hnid, _⟩ := cmb_send_recv hs1
  intro x hx
  have hb : s1.bal x = s.bal x + (if x = subAddr s.nextId then total else 0) := hrecv x (by omega)
  unfold surplus led
  show s1.bal x - _ = _
  simp only [cmb_aget_aset]
  rw [hb]
  by_cases e : subAddr s.nextId = x
  · subst e
    simp only [if_true, Summary.available, hfresh]
    omega
  · have e' : ¬ x = subAddr s.nextId := fun h => e h.symm
    simp only [e, e', if_false]
    omega

-- ---------------------------------------------------------------------------------------------
-- core operations

/-- the additional conditions on a history under which bank = available holds with equality: no bank send goes to an
    address of the subaccount range ("nobody sent it tokens directly"), and markets are created and direct house
    withdrawals are made by / for key-holding accounts (an address of the subaccount range has no key, cannot sign and
    cannot grant an authorization; a market creator receives the fees of its market at settlement) -/
def Op.clean : Op → Bool
  | .core (.send _ b _) => decide (b < SUB_BASE)
  | .core (.marketAdd c _ _ _ _ _ _) => decide (c < SUB_BASE)
  | .core (.withdraw c _ _ _ _ _ pd) => decide ((if pd != 0 then pd else c) < SUB_BASE)
  | _ => true

theorem cmb2_coreStep_exact (c : Core.State) (op : Core.Op) (hne : op ≠ .endBlock) (hwf : (Op.core op).wfU)
    (hcl : (Op.core op).clean = true) : ∀ x, SUB_BASE ≤ x → getBal (Core.step c op).1.bal x = getBal c.bal x := by
  intro x hx
  have hxm := cmb_range_notModule hx
  cases op with
  | marketAdd cr tk u st en o stt =>
    simp only [Core.step, Core.marketAdd, Core.commit]
    cases h : marketAddO c cr tk u st en o stt with
    | none => rfl
    | some c' =>
      unfold marketAddO at h
      simp only [bind, Option.bind_eq_some_iff, pure, Option.some.injEq] at h
      obtain ⟨_, _, _, _, _, _, _, _, _, _, _, _, _, _, rfl⟩ := h
      rfl
  | marketUpdate tk u st en stt =>
    simp only [Core.step, Core.marketUpdate, Core.commit]
    cases h : marketUpdateO c tk u st en stt with
    | none => rfl
    | some c' =>
      unfold marketUpdateO at h
      simp only [bind, Option.bind_eq_some_iff, pure, Option.some.injEq] at h
      obtain ⟨_, _, _, _, _, _, _, _, _, _, rfl⟩ := h
      rfl
  | marketResolve tk u ts stt w =>
    simp only [Core.step, Core.marketResolve, Core.commit]
    cases h : marketResolveO c tk u ts stt w with
    | none => rfl
    | some c' =>
      unfold marketResolveO at h
      simp only [bind, Option.bind_eq_some_iff, pure, Option.some.injEq] at h
      obtain ⟨_, _, _, _, _, _, _, _, _, _, rfl⟩ := h
      rfl
  | deposit cr tk m a pd =>
    simp only [Core.step, Core.houseDeposit]
    cases h : houseDepositO c cr tk m a pd with
    | none => rfl
    | some r =>
      have hu : isUser (depositFor cr pd) := hwf
      obtain ⟨_, hoth⟩ := cmb_houseDepositO_bal h hu.2
      show getBal r.1.bal x = _
      exact hoth x (by have := hu.1; omega) hxm
  | withdraw cr tk m i md a pd =>
    simp only [Core.step, Core.houseWithdraw, Core.commit]
    cases h : houseWithdrawO c cr tk m i md a pd with
    | none => rfl
    | some c' =>
      have hlt : (if pd != 0 then pd else cr) < SUB_BASE := of_decide_eq_true hcl
      obtain ⟨_, _, w, _, _, _, w0, hself, hoth⟩ := cmb_houseWithdrawO_bal h hwf
      show getBal c'.bal x = _
      exact hoth x (by omega) hxm
  | wager cr tk u a pl =>
    simp only [Core.step, Core.wager, Core.commit]
    cases h : wagerO c cr tk u a pl with
    | none => rfl
    | some c' =>
      have hu : isUser cr := hwf
      obtain ⟨_, _, _, hoth⟩ := cmb_wagerO_bal h hu.2
      show getBal c'.bal x = _
      exact hoth x (by have := hu.1; omega) hxm
  | grant g e k l ex => rfl
  | revoke g e k => rfl
  | send a b v =>
    simp only [Core.step]
    split
    · rfl
    · simp only [Core.commit]
      cases h : bankSend c a b v with
      | none => rfl
      | some c' =>
        have ha : a < SUB_BASE := hwf
        have hb : b < SUB_BASE := of_decide_eq_true hcl
        show getBal c'.bal x = _
        exact cmb2_bankSend_other h x (by omega) (by omega)
  | setParams p =>
    simp only [Core.step]
    split <;> rfl
  | endBlock => exact absurd rfl hne
  | newBlock h t => rfl

-- ---------------------------------------------------------------------------------------------
-- the end-block

/-- every participation of an address of the subaccount range belongs to an address with an account summary -/
def cmb2_Owned (s : State) : Prop :=
  ∀ u b i p, getBook s.core u = some b → b.getPart i = some p → SUB_BASE ≤ p.addr → (aget s.subs p.addr).isSome

theorem cmb2_partHooks_house {m : Market} {p : Part} {h : HookCall} (hh : h ∈ partHooks m p) : h.house = p.addr := by
  unfold partHooks at hh
  rw [List.mem_append] at hh
  rcases hh with hh | hh
  · split at hh
    · split at hh <;> (simp only [List.mem_singleton] at hh; subst hh; rfl)
    · simp only [List.mem_singleton] at hh; subst hh; rfl
  · split at hh
    · simp only [List.mem_singleton] at hh; subst hh; rfl
    · cases hh

/-- an address of the subaccount range without account summary is named by no derived hook call -/
theorem cmb2_hooksFor_unowned {s : State} {c' : Core.State} (hA : RetAll s.core) (hO : cmb2_Owned s)
    (h : Core.endBlockO s.core = some c') (x : Nat) (hx : SUB_BASE ≤ x) (hr : aget s.subs x = none) :
    hooksFor x (endBlockHooks s.core c') = 0 := by
  apply sumBy_zero
  intro hk hhk
  unfold endBlockHooks at hhk
  simp only [List.mem_flatMap] at hhk
  obtain ⟨uid, _, hhk⟩ := hhk
  obtain ⟨m, p, hm, hp, hxp⟩ := cmb2_mem_bookHooks hhk
  obtain ⟨_, _, ⟨b, p0, hb, hp0, _, ea, _, _⟩, _⟩ := cmb2_newlyPaid_paid hA h hm hp
  have hh := cmb2_partHooks_house hxp
  split
  · rename_i e
    exfalso
    have := hO uid b p.idx p0 hb hp0 (by rw [ea, ← hh, e]; exact hx)
    rw [ea, ← hh, e, hr] at this
    cases this
  · rfl

theorem cmb2_endBlock_exact {s s' : State} (hI : LInv s) (hA : RetAll s.core) (hO : cmb2_Owned s)
    (hN : ∀ x, SUB_BASE ≤ x → cmb2_NoPay x s.core) (h : endBlockO s = some s') : cmb2_Exact s s' := by
  unfold endBlockO at h
  simp only [bind, Option.bind_eq_some_iff] at h
  obtain ⟨c, hc, h2⟩ := h
  have hP := cmb_obRef_sorted hI.sett
  have hC : HookCtx { s with core := c } := by
    refine ⟨hI.inRange, ?_⟩
    intro a o hao
    have := (hI.mapsInv o a).mpr hao
    exact (hI.users o a this).1
  have k := cmb_applyHooks_step _ hC h2
  intro x hx
  have hxm := cmb_range_notModule hx
  have e2 := cmb2_endBlockO_exact hc hP x hxm (hN x hx)
  rw [k.sur x hx]
  have hmid : surplus { s with core := c } x = getBal c.bal x - led s x := rfl
  have hs0 : surplus s x = getBal s.core.bal x - led s x := rfl
  rw [hmid, hs0]
  have hsub : aget ({ s with core := c } : State).subs x = aget s.subs x := rfl
  rw [hsub]
  cases hr : aget s.subs x with
  | some r =>
    simp only [Option.isSome_some, if_true]
    omega
  | none =>
    simp only [Option.isSome_none, Bool.false_eq_true, if_false]
    have := cmb2_hooksFor_unowned hA hO hc x hx hr
    omega

end Sge.Combined
