/-
  C05 "block processing never aborts" under WEAK solvency, part 3: from one bet / one participation to the whole
  end-block. The analogue of SettleNoHaltBlock.lean with `nh_Sol` in place of `Solvent`: every stage of the two
  end-blockers succeeds in a state that is reachable, well formed and weakly solvent, and ends in such a state.
-/
import SgeProofs.Lemmas.NoHaltSolventPool
namespace Sge.Core
open Sge Sge.Genesis

/-- C05: in a well-formed, solvent reachable state, `Settle` called for an entry of the pending index whose market
    waits in the market queue SUCCEEDS: the bet is found under both keys and is not settled, its market is resolved,
    its book and every backing participation exist, and every transfer (refund of stake and fee; or stake + profit
    of every part to the winner and the fee to the market creator) is a non-negative amount the paying account holds -/
theorem nh_settleBet_succeeds {s : State} (hI : BetIdx s) (hS : SettleInv s) (hQ : SbQInv s) (hH : HInv s) (hV : nh_Sol s)
    (x : Nat × Nat × Nat × Nat) (hx : x ∈ s.pending) (hq : x.1 ∈ s.mqueue) :
    ∃ s', settleBet s x.2.2.2 x.2.2.1 = some s' := by
  obtain ⟨b, hb, hns, rfl⟩ := hI.ofPend x hx
  have hopen : b.isOpen = true := by
    unfold Bet.isOpen
    simpa using hns
  have hpl : b.status = BS_PLACED := by
    rcases hH.betStatus b hb with h | h
    · exact h
    · exact absurd h hns
  -- the two look-ups
  have hfind : s.bets.find? (fun y => y.uid == b.uid) = some b := by
    cases hf : s.bets.find? (fun y => y.uid == b.uid) with
    | none =>
      rw [List.find?_eq_none] at hf
      have := hf b hb
      simp at this
    | some b0 =>
      have h1 := List.mem_of_find?_eq_some hf
      have h2 : b0.uid = b.uid := by simpa using List.find?_some hf
      rw [hI.uidInj b0 h1 b hb h2]
  have hlook : lookup Bet.key [b.creator, b.id] s.bets = some b := lookup_of_mem_sorted Bet.key b s.bets hI.sBets hb
  -- market and custody
  obtain ⟨m, hm, hres⟩ := hS.queueResolved b.market hq
  have hst := resolved_status hH hm hres
  obtain ⟨n1, n2, n3⟩ := isModuleAcc_false_ne (hS.bettorsUser b hb)
  have hfee : 0 ≤ b.fee ∧ b.fee ≤ getBal s.bal ACC_BETFEE := by
    refine ⟨(hV.betNonneg b hb hopen).1, ?_⟩
    rw [hS.betFee]
    have := sumBy_mem_le Bet.owedFee s.bets (fun y hy => (hV.stake_nonneg y hy).2) b hb
    have e : b.owedFee = b.fee := by unfold Bet.owedFee; rw [hopen]; rfl
    rw [e] at this
    exact this
  show ∃ s', settleBet s b.creator b.uid = some s'
  suffices hbody : ∃ s', (if (m.status == MS_ABORTED || m.status == MS_CANCELED) = true then settleRefund s b
      else (chk (m.status == MS_DECLARED)).bind fun _ => settleDeclared s b m) = some s' by
    obtain ⟨s', hs'⟩ := hbody
    refine ⟨s', ?_⟩
    unfold settleBet
    simp only [bind, Option.bind_eq_some_iff]
    exact ⟨b, hfind, b, hlook, (), chk_true (by rw [hpl]; decide), m, hm, hs'⟩
  by_cases hrf : (m.status == MS_ABORTED || m.status == MS_CANCELED) = true
  · -- refund of stake and fee
    have hamt : 0 ≤ b.amount ∧ b.amount ≤ getBal s.bal ACC_POOL := by
      rw [hS.stake b hb]
      refine ⟨sumBet_nonneg _ (fun f hf => ((hV.betNonneg b hb hopen).2 f hf).1), ?_⟩
      obtain ⟨bk, hbk, _⟩ := statusOf_some (hQ.mActive b.market hq)
      obtain ⟨hbkm, hbku⟩ := getBook_mem hbk
      have hc := nh_pool_covers_claim hS hH hV bk hbkm b hb
      have hnd : nh_declared s b.market = false := by
        unfold nh_declared; rw [hm]
        simp only [Bool.or_eq_true, beq_iff_eq] at hrf
        show (m.status == MS_DECLARED) = false
        rcases hrf with e | e <;> rw [e] <;> rfl
      have e : nh_claim s bk.uid b = sumBet b.fulfs := by
        unfold nh_claim winsOn nh_losesOn
        rw [hbku, nh_declared_false_won hnd, hnd, hopen]
        simp
      rw [e] at hc
      exact hc
    obtain ⟨s1, h1⟩ := bankSend_okSB s ACC_POOL b.creator b.amount hamt.1 hamt.2
    obtain ⟨bal1, rfl, _, _, _, o1⟩ := bankSend_spec h1 (Ne.symm n1)
    obtain ⟨s2, h2⟩ := bankSend_okSB { s with bal := bal1 } ACC_BETFEE b.creator b.fee hfee.1
      (by rw [o1 ACC_BETFEE (by decide) (Ne.symm n2)]; exact hfee.2)
    rw [if_pos hrf]
    unfold settleRefund
    simp only [bind, Option.bind_eq_some_iff, pure, Option.some.injEq]
    exact ⟨_, _, h1, s2, h2, rfl⟩
  · -- declared result
    have hd : m.status = MS_DECLARED := by
      rcases hst with h | h | h
      · rw [h] at hrf; exact absurd rfl hrf
      · rw [h] at hrf; exact absurd rfl hrf
      · exact h
    obtain ⟨bk, hbk, _⟩ := statusOf_some (hQ.mActive b.market hq)
    obtain ⟨hbkm, hbku⟩ := getBook_mem hbk
    have hparts : ∀ f ∈ b.fulfs, (bk.getPart f.idx).isSome = true := by
      intro f hf
      obtain ⟨b0, p, h1, h2⟩ := hH.fulfParts b hb hopen f hf
      rw [hbk] at h1; cases h1
      rw [h2]; rfl
    have hnn := (hV.betNonneg b hb hopen).2
    have hmu := isModuleAcc_false_ne (hS.creatorsUser m (getMarket_mem hm))
    have hout : ∃ r, settleOutcome s.bal (m.winners.contains b.odds) b.creator bk b.fulfs = some r ∧
        getBal r.1 ACC_BETFEE = getBal s.bal ACC_BETFEE := by
      unfold settleOutcome
      cases hw : m.winners.contains b.odds
      · obtain ⟨b', hb'⟩ := bettorLoses_ok b.fulfs bk hparts
        exact ⟨(s.bal, b'), by simp [hb'], rfl⟩
      · have hwon : wonOutcome s b.market b.odds = true := by
          unfold wonOutcome; rw [hm]
          simp only [hd, hw]
          simp
        obtain ⟨r, hr⟩ := bettorWins_ok b.creator (Ne.symm n1) b.fulfs s.bal bk hparts
          (fun f hf => by have := hnn f hf; omega)
          (by
            have hc := nh_pool_covers_claim hS hH hV bk hbkm b hb
            have e : nh_claim s bk.uid b = sumProfit b.fulfs + sumBet b.fulfs := by
              unfold nh_claim winsOn nh_losesOn
              rw [hbku, hwon, hopen]
              simp
            rw [e] at hc
            rw [payout_split]
            exact hc)
        obtain ⟨_, _, _, _, _, _, _, _, a9, _⟩ := bettorWins_spec b.creator (hS.bettorsUser b hb) _ _ _ _ hr
          (hS.sortedParts bk hbkm) (open_bet_book hS hb hopen hbk).2
        exact ⟨r, by simp [hr], a9⟩
    obtain ⟨r, hr, hbf⟩ := hout
    obtain ⟨s2, h2⟩ := bankSend_okSB (setBook { s with bal := r.1 } r.2) ACC_BETFEE m.creator b.fee hfee.1
      (by show b.fee ≤ getBal r.1 ACC_BETFEE; rw [hbf]; exact hfee.2)
    have hdecl : ∃ s', settleDeclared s b m = some s' := by
      unfold settleDeclared
      simp only [bind, Option.bind_eq_some_iff, pure, Option.some.injEq]
      exact ⟨_, bk, hbk, r, hr, s2, h2, rfl⟩
    obtain ⟨s', hs'⟩ := hdecl
    rw [if_neg hrf]
    refine ⟨s', ?_⟩
    simp only [Option.bind_eq_some_iff]
    exact ⟨(), chk_true (by rw [hd]; rfl), hs'⟩

/-- the invariants of reachable states, well-formedness and solvency -/
structure nh_Safe (s : State) : Prop where
  reach : Reach s
  wf : HInv s
  solv : nh_Sol s

theorem nh_settleBet_safe {s s' : State} {c u : Nat} (hS : nh_Safe s) (h : settleBet s c u = some s') : nh_Safe s' := by
  obtain ⟨f1, f2, f3, _⟩ := settleBet_frame hS.reach.inv.sortedParts h
  obtain ⟨k1, k2⟩ := nh_settleBet_keeps hS.reach.inv hS.wf hS.solv h
  exact ⟨⟨(settleBet_good hS.reach.idx h).1, settleBet_inv hS.reach.inv h,
    hS.reach.q.of_frame f2 f3 (fun u => (f1 u).1) (settleBet_markets h)⟩, k1, k2⟩

/-- a page of pending entries of queued markets is settled without error -/
theorem nh_settlePage_ok : ∀ (page : List (Nat × Nat × Nat × Nat)) (s : State), nh_Safe s →
    (∀ x ∈ page, x ∈ s.pending ∧ x.1 ∈ s.mqueue) → page.Pairwise (fun a b => (ikey a == ikey b) = false) →
    ∃ r, settlePage s page = some r ∧ nh_Safe r.1 ∧ r.1.mqueue = s.mqueue := by
  intro page
  induction page with
  | nil => intro s hS _ _; exact ⟨(s, 0), rfl, hS, rfl⟩
  | cons x rest ih =>
    intro s hS hin hpw
    rw [List.pairwise_cons] at hpw
    obtain ⟨hx, hxq⟩ := hin x (List.mem_cons_self ..)
    obtain ⟨s1, h1⟩ := nh_settleBet_succeeds hS.reach.idx hS.reach.inv hS.reach.q hS.wf hS.solv x hx hxq
    have hS1 := nh_settleBet_safe hS h1
    have hmq := settleBet_mqueue h1
    have hp1 := settleBet_pending hS.reach.idx x hx h1
    have hin1 : ∀ y ∈ rest, y ∈ s1.pending ∧ y.1 ∈ s1.mqueue := by
      intro y hy
      obtain ⟨a, b⟩ := hin y (List.mem_cons_of_mem _ hy)
      refine ⟨?_, by rw [hmq]; exact b⟩
      rw [hp1]
      refine (mem_remove_iff ikey (ikey x) y s.pending).mpr ⟨a, ?_⟩
      have := hpw.1 y hy
      cases hc : ikey y == ikey x
      · rfl
      · have e : ikey y = ikey x := by simpa using hc
        rw [e] at this; simp at this
    obtain ⟨r1, hr1, hS2, hmq2⟩ := ih s1 hS1 hin1 hpw.2
    refine ⟨(r1.1, r1.2 + 1), ?_, hS2, hmq2.trans hmq⟩
    unfold settlePage
    simp only [bind, Option.bind_eq_some_iff, pure, Option.some.injEq]
    exact ⟨s1, h1, r1, hr1, rfl⟩

/-- one iteration of BatchMarketSettlements on the head of the market queue succeeds -/
theorem nh_betEndBlockStep_ok {s : State} {mk n : Nat} {R : List Nat} (hS : nh_Safe s) (hq : s.mqueue = mk :: R) :
    ∃ r, betEndBlockStep s mk n = some r ∧ nh_Safe r.1 := by
  have hsub : ((s.pending.filter (fun x => x.1 == mk)).take n).Sublist s.pending :=
    (List.take_sublist _ _).trans List.filter_sublist
  have hpw : ((s.pending.filter (fun x => x.1 == mk)).take n).Pairwise (fun a b => (ikey a == ikey b) = false) := by
    have := hS.reach.idx.sPend
    unfold Sorted at this
    exact (List.Pairwise.sublist hsub this).imp (fun {a b} hab => ltL_ne _ _ hab)
  have hin : ∀ x ∈ (s.pending.filter (fun x => x.1 == mk)).take n, x ∈ s.pending ∧ x.1 ∈ s.mqueue := by
    intro x hx
    have h1 := List.mem_filter.mp (List.mem_of_mem_take hx)
    have e : x.1 = mk := by simpa using h1.2
    exact ⟨h1.1, by rw [e, hq]; exact List.mem_cons_self ..⟩
  obtain ⟨r0, h0, hS0, hmq0⟩ := nh_settlePage_ok _ s hS hin hpw
  have hnd := hS.reach.q.nodupM
  rw [hq, List.nodup_cons] at hnd
  by_cases hany : r0.1.pending.any (fun x => x.1 == mk) = true
  · refine ⟨r0, ?_, hS0⟩
    unfold betEndBlockStep
    simp only [bind, Option.bind_eq_some_iff]
    exact ⟨r0, h0, by rw [if_pos hany]; rfl⟩
  · -- the market is finished: it leaves the queue and its book is marked RESOLVED
    have hmk0 : mk ∈ r0.1.mqueue := by rw [hmq0, hq]; exact List.mem_cons_self ..
    obtain ⟨b, hb, hact⟩ := statusOf_some (hS0.reach.q.mActive mk hmk0)
    have hgo : goRemove r0.1.mqueue mk = some R := by rw [hmq0, hq]; exact goRemove_head mk R hnd.1
    have hbr : bookResolved { r0.1 with mqueue := R } mk =
        some { (setBook { r0.1 with mqueue := R } { b with status := OB_RESOLVED }) with obqueue := r0.1.obqueue ++ [mk] } := by
      unfold bookResolved
      simp only [bind, Option.bind_eq_some_iff, pure, Option.some.injEq]
      exact ⟨b, hb, (), chk_true (by rw [hact]; rfl), rfl⟩
    have hstep : betEndBlockStep s mk n =
        some ({ (setBook { r0.1 with mqueue := R } { b with status := OB_RESOLVED }) with obqueue := r0.1.obqueue ++ [mk] }, r0.2) := by
      unfold betEndBlockStep
      simp only [bind, Option.bind_eq_some_iff]
      refine ⟨r0, h0, ?_⟩
      rw [if_neg hany]
      simp only [Option.bind_eq_some_iff, pure, Option.some.injEq]
      exact ⟨R, hgo, _, hbr, rfl⟩
    refine ⟨_, hstep, ?_⟩
    obtain ⟨_, hbu⟩ := getBook_mem hb
    have hI' := (betEndBlockStep_good hS.reach.idx hstep).1
    have hS' := betEndBlockStep_inv hS.reach.inv (by rw [hq]; exact List.mem_cons_self ..) hstep
    have hst : ∀ u, statusOf ({ (setBook { r0.1 with mqueue := R } { b with status := OB_RESOLVED }) with obqueue := r0.1.obqueue ++ [mk] } : State) u =
        if u = mk then some OB_RESOLVED else statusOf r0.1 u := by
      intro u
      have := statusOf_setBook { r0.1 with mqueue := R } { b with status := OB_RESOLVED } u
      refine Eq.trans this ?_
      show (if u = b.uid then _ else _) = _
      rw [hbu]
      rfl
    have hQ' : SbQInv ({ (setBook { r0.1 with mqueue := R } { b with status := OB_RESOLVED }) with obqueue := r0.1.obqueue ++ [mk] } : State) := by
      refine qinv_after_bet (D1 := [mk]) hS0.reach.inv hS0.reach.q (by rw [hmq0, hq]; rfl) rfl ?_ ?_ rfl
      · intro u hu
        rw [hst]
        have : u ≠ mk := fun e => hu (List.mem_singleton.mpr e)
        simp [this]
      · intro u hu
        rw [hst, List.mem_singleton.mp hu]
        simp
    obtain ⟨k1, k2⟩ := nh_replaceBook_keeps (s := r0.1)
      (s' := { (setBook { r0.1 with mqueue := R } { b with status := OB_RESOLVED }) with obqueue := r0.1.obqueue ++ [mk] })
      (B := { b with status := OB_RESOLVED }) hS0.wf hS0.solv
      (by show getBook r0.1 b.uid = some b; rw [hbu]; exact hb) rfl rfl rfl (KeepsParts.refl b) (fun p hp => Or.inl hp)
    exact ⟨⟨hI', hS', hQ'⟩, k1, k2⟩

/-- BatchMarketSettlements succeeds -/
theorem nh_betEndBlock_ok : ∀ (fuel : Nat) (s : State) (n : Nat), nh_Safe s → ∃ s', betEndBlock fuel s n = some s' ∧ nh_Safe s' := by
  intro fuel
  induction fuel with
  | zero => intro s n hS; exact ⟨s, rfl, hS⟩
  | succ fuel ih =>
    intro s n hS
    unfold betEndBlock
    by_cases hn : n = 0
    · exact ⟨s, by rw [if_pos hn], hS⟩
    · rw [if_neg hn]
      cases hq : s.mqueue with
      | nil => exact ⟨s, rfl, hS⟩
      | cons mk R =>
        obtain ⟨r, hr, hSr⟩ := nh_betEndBlockStep_ok (n := n) hS hq
        obtain ⟨s', hs', hS'⟩ := ih r.1 (n - r.2) hSr
        refine ⟨s', ?_, hS'⟩
        simp only [bind, Option.bind_eq_some_iff]
        exact ⟨r, hr, hs'⟩

/-- BatchOrderBookSettlements succeeds -/
theorem nh_obEndBlock_ok : ∀ (fuel : Nat) (s : State) (n : Nat), nh_Safe s → ∃ s', obEndBlock fuel s n 0 = some s' ∧ nh_Safe s' := by
  intro fuel
  induction fuel with
  | zero => intro s n hS; exact ⟨s, rfl, hS⟩
  | succ fuel ih =>
    intro s n hS
    by_cases hn : n = 0
    · exact ⟨s, by rw [hn, obEndBlock_zero], hS⟩
    · cases hq : s.obqueue[0]? with
      | none => exact ⟨s, by rw [obEndBlock]; simp only [hn, if_false, hq], hS⟩
      | some uid =>
        obtain ⟨R, hqR⟩ := getElem?_zero_some hq
        have hI := hS.reach.inv
        have huq : uid ∈ s.obqueue := by rw [hqR]; exact List.mem_cons_self ..
        obtain ⟨b, hb, hres⟩ := statusOf_some (hS.reach.q.oResolved uid huq)
        obtain ⟨hbm, hbu⟩ := getBook_mem hb
        have hna : b.status ≠ OB_ACTIVE := by rw [hres]; decide
        obtain ⟨m, hm, hmr⟩ := hI.closedResolved b hbm hna
        rw [hbu] at hm
        have hst := resolved_status hS.wf hm hmr
        have hsb := hI.sortedParts b hbm
        have hnd := hS.reach.q.nodupO
        rw [hqR, List.nodup_cons] at hnd
        -- what the book owes is in the pool / the house-fee collector
        obtain ⟨e1, hown⟩ := nh_closed_book hI hS.wf hS.solv b hbm hna
        have e2 : b.owedFee ≤ getBal s.bal ACC_HOUSEFEE := by
          rw [hI.houseFee]
          exact sumBy_mem_le Book.owedFee s.books
            (fun x hx => sumBy_nonnegSB _ _ (fun q hq => hS.solv.fee_nonneg x hx q hq)) b hbm
        obtain ⟨r, hr⟩ := settleParts_ok m n (hI.creatorsUser m (getMarket_mem hm)) hst b.parts s b 0 0 hsb hsb
          (fun q hq => lookup_of_mem_sorted Part.key q b.parts hsb hq) (hI.partsUser b hbm)
          (by
            intro q hq hnd'
            by_cases e : q.actualProfit = 0
            · exact e
            · obtain ⟨m', hm', hd⟩ := hI.profitDeclared b hbm q hq e
              rw [hbu, hm] at hm'
              cases hm'
              exact absurd hd hnd')
          (fun q hq => ⟨hown q hq, hS.solv.fee_nonneg b hbm q hq⟩) e1 e2
        obtain ⟨s1, b1, sc, pr⟩ := r
        have hc := settleParts_count m n b.parts s b 0 0 (s1, b1, sc, pr) hr hsb hsb
          (fun q hq => lookup_of_mem_sorted Part.key q b.parts hsb hq) (by omega)
        obtain ⟨hparts, hkeep⟩ := settleParts_parts m n b.parts s b 0 0 (s1, b1, sc, pr) hr
        dsimp only at hc hparts hkeep
        obtain ⟨⟨bal, a1⟩, a2, a3, a4, _, _, _, a8⟩ := hc
        subst a1
        by_cases hfin : (pr == b.parts.length) = true
        · -- the book is finished
          have hgo : goRemove ({ s with bal := bal } : State).obqueue uid = some R := by
            show goRemove s.obqueue uid = some R
            rw [hqR]; exact goRemove_head uid R hnd.1
          have hunf := fun f => obEndBlock_unfold_fin f hn hq hb hm hres hr hfin hgo
          generalize hS1 : setBook { ({ s with bal := bal } : State) with obqueue := R } { b1 with status := OB_SETTLED } = S1 at hunf
          have hone : obEndBlock 1 s n 0 = some S1 := by rw [hunf 0]; rfl
          have hst1 : ∀ u, statusOf S1 u = if u = uid then some OB_SETTLED else statusOf s u := by
            intro u
            rw [← hS1]
            have := statusOf_setBook { ({ s with bal := bal } : State) with obqueue := R } { b1 with status := OB_SETTLED } u
            rw [this]
            show (if u = b1.uid then _ else _) = _
            rw [a2, hbu]
            rfl
          have hSafe : nh_Safe S1 := by
            have hIdx : BetIdx S1 := hS.reach.idx.of_eq (by rw [← hS1]; rfl) (by rw [← hS1]; rfl) (by rw [← hS1]; rfl) (by rw [← hS1]; rfl)
            have hInv : SettleInv S1 := obEndBlock_inv 1 s n 0 S1 hI hone
            have hQ : SbQInv S1 := by
              refine qinv_after_ob (D2 := [uid]) hS.reach.q (by rw [← hS1]; exact hqR) (by rw [← hS1]; rfl) ?_ ?_ (by rw [← hS1]; rfl)
              · intro u hu
                rw [hst1]
                have : u ≠ uid := fun e => hu (List.mem_singleton.mpr e)
                simp [this]
              · intro u hu
                rw [List.mem_singleton.mp hu]
                exact hS.reach.q.oResolved uid huq
            obtain ⟨k1, k2⟩ := nh_replaceBook_keeps (s := s) (s' := S1) (B := { b1 with status := OB_SETTLED }) hS.wf hS.solv
              (by show getBook s b1.uid = some b; rw [a2, hbu]; exact hb) (by rw [← hS1]; rfl) (by rw [← hS1]; rfl)
              (by rw [← hS1]; rfl) hkeep hparts
            exact ⟨⟨hIdx, hInv, hQ⟩, k1, k2⟩
          obtain ⟨s', hs', hS'⟩ := ih S1 (n - sc) hSafe
          exact ⟨s', by rw [hunf fuel]; exact hs', hS'⟩
        · -- the budget is used up inside the book
          have hunf := fun f => obEndBlock_unfold_rest f hn hq hb hm hres hr hfin
          have hsc : sc = n := by
            rcases a8 with ⟨c, _⟩ | ⟨_, c⟩
            · exfalso; apply hfin; simp [c]
            · exact c
          generalize hS1 : setBook ({ s with bal := bal } : State) b1 = S1 at hunf
          have hone : obEndBlock 1 s n 0 = some S1 := by rw [hunf 0]; rfl
          have hSafe : nh_Safe S1 := by
            have hIdx : BetIdx S1 := hS.reach.idx.of_eq (by rw [← hS1]; rfl) (by rw [← hS1]; rfl) (by rw [← hS1]; rfl) (by rw [← hS1]; rfl)
            have hInv : SettleInv S1 := obEndBlock_inv 1 s n 0 S1 hI hone
            have hQ : SbQInv S1 := by
              refine hS.reach.q.of_frame (by rw [← hS1]; rfl) (by rw [← hS1]; rfl) ?_ (by rw [← hS1]; rfl)
              intro u
              rw [← hS1, statusOf_setBook, a2, hbu]
              by_cases e : u = uid
              · subst e
                simp only [if_true]
                unfold statusOf
                rw [hb, a3]; rfl
              · simp only [e, if_false]; rfl
            obtain ⟨k1, k2⟩ := nh_replaceBook_keeps (s := s) (s' := S1) (B := b1) hS.wf hS.solv
              (by rw [a2, hbu]; exact hb) (by rw [← hS1]; rfl) (by rw [← hS1]; rfl) (by rw [← hS1]; rfl) hkeep hparts
            exact ⟨⟨hIdx, hInv, hQ⟩, k1, k2⟩
          refine ⟨S1, ?_, hSafe⟩
          rw [hunf fuel, hsc, Nat.sub_self, obEndBlock_zero]

/-- C05: in a safe state — reachable, well formed, solvent — the end-block does not halt, and it ends in a safe state -/
theorem nh_endBlockO_ok {s : State} (hS : nh_Safe s) : ∃ s', endBlockO s = some s' ∧ nh_Safe s' := by
  obtain ⟨s1, h1, hS1⟩ := nh_betEndBlock_ok (s.mqueue.length + 1) s s.params.betBatch hS
  obtain ⟨s', h2, hS'⟩ := nh_obEndBlock_ok (s1.obqueue.length + 1) s1 s.params.obBatch hS1
  refine ⟨s', ?_, hS'⟩
  unfold endBlockO
  simp only [bind, h1, Option.bind_some]
  exact h2

end Sge.Core
