/-
  C09 over histories, part 2: the withdrawal ledger. The successful withdrawals of a history are collected as a trace
  (`c9h_wdTrace`); the invariant `c9h_Led` ties every stored house deposit to its participation record and to the
  withdrawals of the trace on its (market, index); it is kept by all twelve operations.
-/
import SgeProofs.Lemmas.C09HistFrame
import SgeProofs.Lemmas.CombinedHooksTotalFrames
import SgeProofs.Lemmas.GenesisReachEnd
import SgeProofs.Lemmas.BettorPay
import SgeProofs.Properties.C09
namespace Sge.Core
open Sge Sge.Genesis

/-- a successful withdrawal of a history -/
structure c9h_Wd where
  signer : Nat
  depositor : Nat
  market : Nat
  idx : Nat
  amount : Int
  delegated : Bool
deriving Repr, DecidableEq

/-- the account a MsgWithdraw acts for: the ticket's depositor when it names one, else the signer -/
def c9h_wdDepositor (c pd : Nat) : Nat := if pd != 0 then pd else c

/-- `CalcWithdrawalAmount` for the deposit of `dep` on participation `i` of market `m` in state `s` -/
def c9h_calc (s : State) (dep m i md : Nat) (a : Int) : Option Int := do
  let d ← lookup Deposit.key [dep, m, i] s.deposits
  let b ← getBook s m
  calcWithdrawal b i dep md a d.wtotal

/-- the record of a MsgWithdraw signed by `c` with ticket depositor `pd` (0 = none) that paid `w` -/
def c9h_mkWd (c pd m i : Nat) (w : Int) : c9h_Wd :=
  { signer := c, depositor := c9h_wdDepositor c pd, market := m, idx := i, amount := w, delegated := pd != 0 }

/-- the withdrawal an operation performs in state `s`: a MsgWithdraw that succeeds, with the computed amount -/
def c9h_wdEvent (s : State) : Op → Option c9h_Wd
  | .withdraw c tk m i md a pd =>
    if (houseWithdraw s c tk m i md a pd).2 = .ok then
      some (c9h_mkWd c pd m i ((c9h_calc s (c9h_wdDepositor c pd) m i md a).getD 0))
    else none
  | _ => none

theorem c9h_wdEvent_none {s : State} {c : Nat} {tk : Tk} {m i md : Nat} {a : Int} {pd : Nat}
    (h : houseWithdrawO s c tk m i md a pd = none) :
    (step s (.withdraw c tk m i md a pd)).1 = s ∧ c9h_wdEvent s (.withdraw c tk m i md a pd) = none := by
  simp [step, houseWithdraw, commit, c9h_wdEvent, h]

theorem c9h_wdEvent_some {s s' : State} {c : Nat} {tk : Tk} {m i md : Nat} {a : Int} {pd : Nat}
    (h : houseWithdrawO s c tk m i md a pd = some s') :
    (step s (.withdraw c tk m i md a pd)).1 = s' ∧ (step s (.withdraw c tk m i md a pd)).2 = .ok ∧
    c9h_wdEvent s (.withdraw c tk m i md a pd)
      = some (c9h_mkWd c pd m i ((c9h_calc s (c9h_wdDepositor c pd) m i md a).getD 0)) := by
  simp [step, houseWithdraw, commit, c9h_wdEvent, h]

/-- the successful withdrawals of the history `ops` run from `s`, in order -/
def c9h_wdTrace : State → List Op → List c9h_Wd
  | _, [] => []
  | s, op :: ops => (c9h_wdEvent s op).toList ++ c9h_wdTrace (step s op).1 ops

/-- the withdrawals of a trace on participation `i` of market `m` -/
def c9h_on (m i : Nat) (L : List c9h_Wd) : List c9h_Wd := L.filter (fun e => e.market == m && e.idx == i)
/-- the sum of their amounts -/
def c9h_wdSum (L : List c9h_Wd) (m i : Nat) : Int := ((c9h_on m i L).map (·.amount)).sum
/-- their number -/
def c9h_wdCnt (L : List c9h_Wd) (m i : Nat) : Nat := (c9h_on m i L).length

theorem c9h_on_append (m i : Nat) (L1 L2 : List c9h_Wd) : c9h_on m i (L1 ++ L2) = c9h_on m i L1 ++ c9h_on m i L2 := by
  unfold c9h_on; rw [List.filter_append]

theorem c9h_wdSum_snoc (L : List c9h_Wd) (e : c9h_Wd) (m i : Nat) :
    c9h_wdSum (L ++ [e]) m i = c9h_wdSum L m i + (if e.market = m ∧ e.idx = i then e.amount else 0) ∧
    c9h_wdCnt (L ++ [e]) m i = c9h_wdCnt L m i + (if e.market = m ∧ e.idx = i then 1 else 0) := by
  unfold c9h_wdSum c9h_wdCnt
  rw [c9h_on_append]
  by_cases h : e.market = m ∧ e.idx = i
  · have : c9h_on m i [e] = [e] := by
      unfold c9h_on
      simp [List.filter, h.1, h.2]
    rw [this, if_pos h, if_pos h]
    simp
  · have : c9h_on m i [e] = [] := by
      unfold c9h_on
      have : (e.market == m && e.idx == i) = false := by
        cases hb : (e.market == m && e.idx == i)
        · rfl
        · exfalso; apply h; simpa using hb
      simp [List.filter, this]
    rw [this, if_neg h, if_neg h]
    simp

theorem c9h_sum_pos_nonneg (L : List c9h_Wd) (h : ∀ e ∈ L, 0 < e.amount) : 0 ≤ (L.map (·.amount)).sum := by
  induction L with
  | nil => simp
  | cons x xs ih =>
    rw [List.map_cons, List.sum_cons]
    have h1 := h x (List.mem_cons_self ..)
    have h2 := ih (fun e he => h e (List.mem_cons_of_mem _ he))
    omega

theorem c9h_wdSum_nonneg (L : List c9h_Wd) (h : ∀ e ∈ L, 0 < e.amount) (m i : Nat) : 0 ≤ c9h_wdSum L m i := by
  unfold c9h_wdSum
  apply c9h_sum_pos_nonneg
  intro e he
  unfold c9h_on at he
  exact h e (List.mem_filter.mp he).1

/-- no withdrawal of the trace names (m, i): sum and count are zero -/
theorem c9h_on_none (L : List c9h_Wd) (m i : Nat) (h : ∀ e ∈ L, ¬ (e.market = m ∧ e.idx = i)) :
    c9h_wdSum L m i = 0 ∧ c9h_wdCnt L m i = 0 := by
  have : c9h_on m i L = [] := by
    unfold c9h_on
    rw [List.filter_eq_nil_iff]
    intro e he hc
    apply h e he
    simpa using hc
  unfold c9h_wdSum c9h_wdCnt
  rw [this]
  exact ⟨rfl, rfl⟩

-- ---------------------------------------------------------------------------------------------
-- what a successful MsgWithdraw / MsgDeposit does to the house stores, the grants and the bank

/-- MsgWithdraw: the deposit of the account the message acts for is looked up, the amount is the one
    `CalcWithdrawalAmount` computes (positive), the count is below the maximum, the participation belongs to that
    account, the deposit record is rewritten with count + 1 and total + amount, the pool pays that account -/
theorem c9h_withdraw_shape {s s' : State} {c : Nat} {tk : Tk} {m i md : Nat} {a : Int} {pd : Nat}
    (h : houseWithdrawO s c tk m i md a pd = some s') :
    ∃ (d : Deposit) (w : Int) (b : Book) (p : Part) (s1 : State),
      lookup Deposit.key [c9h_wdDepositor c pd, m, i] s.deposits = some d ∧
      c9h_calc s (c9h_wdDepositor c pd) m i md a = some w ∧ 0 < w ∧ d.wcount < s.params.houseMaxW ∧
      getBook s m = some b ∧ b.getPart i = some p ∧ p.addr = c9h_wdDepositor c pd ∧ p.isSettled = false ∧
      w ≤ p.crl - maxI 0 p.crMaxLoss ∧
      grantStep s (pd != 0) (c9h_wdDepositor c pd) c 1 w = some s1 ∧ s'.grants = s1.grants ∧
      s'.deposits = upsert Deposit.key { d with wcount := d.wcount + 1, wtotal := d.wtotal + w } s.deposits ∧
      s'.params = s.params ∧ s'.time = s.time ∧
      (∀ acc, getBal s'.bal acc = getBal s.bal acc - (if acc = ACC_POOL then w else 0)
                                    + (if acc = c9h_wdDepositor c pd then w else 0)) := by
  have hreq := c09_withdraw_requires h
  unfold houseWithdrawO at h
  simp only [bind, Option.bind_eq_some_iff, pure, Option.some.injEq] at h
  obtain ⟨_, _, _, _, _, h2, _, _, _, _, d, hd, b, hb, _, h5, w, hw, s1, h1, p, hp, s2, h2s, b', _, rfl⟩ := h
  have h2 := chk_some h2
  have h5 := chk_some h5
  have hcw : p.addr = c9h_wdDepositor c pd ∧ p.isSettled = false ∧ 0 < w ∧ w ≤ p.crl - maxI 0 p.crMaxLoss := by
    have hw' := hw
    unfold calcWithdrawal at hw'
    simp only [bind, Option.bind_eq_some_iff] at hw'
    obtain ⟨p', hp', _, c1, _, c2, e0, _, _, _, _, _, hwd⟩ := hw'
    rw [hp] at hp'; cases hp'
    have c1 := chk_some c1; have c2 := chk_some c2
    have haddr : p.addr = c9h_wdDepositor c pd := by
      unfold c9h_wdDepositor
      simpa using c2
    have hset : p.isSettled = false := by simpa using c1
    rw [maxWithdraw_eq] at hwd
    rcases withdrawable_spec hwd with ⟨hm, hw1, hw2⟩ | ⟨hm, hw1, hw2⟩
    · exact ⟨haddr, hset, by omega, by omega⟩
    · refine ⟨haddr, hset, ?_, by omega⟩
      simp [hm] at h2; omega
  obtain ⟨gs, hgs⟩ := grantStep_shape h1
  obtain ⟨bal', ht, hs2⟩ := bankSend_shape h2s
  subst hs2
  refine ⟨d, w, b, p, s1, hd, ?_, hcw.2.2.1, by simpa using h5, hb, hp, hcw.1, hcw.2.1, hcw.2.2.2, h1, rfl, ?_, ?_, ?_, ?_⟩
  · unfold c9h_calc
    simp only [bind, Option.bind_eq_some_iff]
    exact ⟨d, hd, b, hb, hw⟩
  · show upsert Deposit.key _ s1.deposits = _
    rw [hgs]
  · show s1.params = _
    rw [hgs]
  · show s1.time = _
    rw [hgs]
  · intro acc
    have := bp_transfer_bal ht acc
    show getBal bal' acc = _
    rw [this, hgs, hcw.1]

/-- MsgDeposit: a fresh participation index of the market's book, a participation record of the depositor whose
    liquidity and fee add up to the amount, a deposit record with no withdrawals under a key not used before -/
theorem c9h_deposit_shape {s : State} {r : State × Nat} {c : Nat} {tk : Tk} {m : Nat} {a : Int} {pd : Nat}
    (h : houseDepositO s c tk m a pd = some r) :
    ∃ (b B : Book) (np : Part) (s1 : State),
      getBook s m = some b ∧ b.getPart (b.partCount + 1) = none ∧ r.2 = b.partCount + 1 ∧
      getBook r.1 m = some B ∧ B.getPart (b.partCount + 1) = some np ∧ np.addr = depositFor c pd ∧
      np.liq + np.fee = a ∧ np.fee = (s.params.houseFee.mulInt a).roundInt ∧ 0 < a ∧
      grantStep s (depositFor c pd != c) (depositFor c pd) c 0 a = some s1 ∧ r.1.grants = s1.grants ∧
      r.1.deposits = upsert Deposit.key
        { creator := c, depositor := depositFor c pd, market := m, idx := b.partCount + 1, amount := a } s.deposits ∧
      r.1.params = s.params ∧ r.1.time = s.time := by
  unfold houseDepositO at h
  simp only [bind, Option.bind_eq_some_iff, pure, Option.some.injEq] at h
  obtain ⟨_, hpos, _, _, _, _, s1, hs1, _, _, mk, _, b, hb, _, _, _, _, _, _, _, hnew, s2, hs2, s3, hs3, rfl⟩ := h
  have hnew := chk_some hnew
  have hpos : 0 < a := of_decide_eq_true (chk_some hpos)
  obtain ⟨gs, hgs⟩ := grantStep_shape hs1
  obtain ⟨bal2, ht2, hs2e⟩ := bankSend_shape hs2
  obtain ⟨bal3, ht3, hs3e⟩ := bankSend_shape hs3
  have hb0 : getBook s m = some b := by rw [hgs] at hb; exact hb
  obtain ⟨hbm, hbu⟩ := getBook_mem hb0
  have hnone : b.getPart (b.partCount + 1) = none := by simpa using hnew
  obtain ⟨ap, au⟩ := cmb2_addParticipation_parts b (depositFor c pd) (a - (s.params.houseFee.mulInt a).roundInt)
    (s.params.houseFee.mulInt a).roundInt
  generalize hB : (b.addParticipation (depositFor c pd) (a - (s.params.houseFee.mulInt a).roundInt)
      (s.params.houseFee.mulInt a).roundInt) = R at ap au
  refine ⟨b, R.1, b.newPart (depositFor c pd) (a - (s.params.houseFee.mulInt a).roundInt)
    (s.params.houseFee.mulInt a).roundInt, s1, hb0, hnone, ?_, ?_, ?_, rfl, ?_, rfl, hpos, hs1, ?_, ?_, ?_, ?_⟩
  · show R.2 = b.partCount + 1
    rw [← hB]; rfl
  · have := getBook_setBook_self s3 R.1
    rw [au, hbu] at this
    exact this
  · have hg : R.1.getPart (b.partCount + 1) = (b.setPart (b.newPart (depositFor c pd) (a - (s.params.houseFee.mulInt a).roundInt)
          (s.params.houseFee.mulInt a).roundInt)).getPart (b.partCount + 1) := by
      unfold Book.getPart; rw [ap]
    rw [hg]
    exact Book.getPart_setPart_self b _
  · show a - (s.params.houseFee.mulInt a).roundInt + (s.params.houseFee.mulInt a).roundInt = a
    omega
  · show s3.grants = s1.grants
    rw [hs3e, hs2e]
  · show upsert Deposit.key _ s3.deposits = _
    rw [hs3e, hs2e, hgs, ← hB]
    rfl
  · show s3.params = s.params
    rw [hs3e, hs2e, hgs]
  · show s3.time = s.time
    rw [hs3e, hs2e, hgs]

-- ---------------------------------------------------------------------------------------------
-- participation records never disappear

/-- every participation record of `s` still has a record under its key in `s'` -/
def c9h_Fwd (s s' : State) : Prop :=
  ∀ u b i p, getBook s u = some b → b.getPart i = some p → ∃ b' p', getBook s' u = some b' ∧ b'.getPart i = some p'

theorem c9h_Fwd.refl (s : State) : c9h_Fwd s s := fun _ b _ p hb hp => ⟨b, p, hb, hp⟩

theorem c9h_Fwd.trans {a b c : State} (h1 : c9h_Fwd a b) (h2 : c9h_Fwd b c) : c9h_Fwd a c := by
  intro u x i p hx hp
  obtain ⟨y, q, hy, hq⟩ := h1 u x i p hx hp
  exact h2 u y i q hy hq

theorem c9h_fwd_of_stStep {s s' : State} (h : StStep s s') (hs' : Sorted Book.key s'.books) : c9h_Fwd s s' := by
  intro u b i p hb hp
  obtain ⟨hbm, hbu⟩ := getBook_mem hb
  obtain ⟨b', hb', hx⟩ := h.fwd b hbm
  obtain ⟨p', hp'⟩ := hx.gp' i p hp
  have := mem_getBook hs' hb'
  rw [hx.uid, hbu] at this
  exact ⟨b', p', this, hp'⟩

theorem c9h_fwd_of_obStep {s s' : State} (h : ObStep s s') (hs' : Sorted Book.key s'.books) : c9h_Fwd s s' := by
  intro u b i p hb hp
  obtain ⟨hbm, hbu⟩ := getBook_mem hb
  obtain ⟨b', hb', hx⟩ := h.fwd b hbm
  obtain ⟨p', hp'⟩ := hx.gp' i p hp
  have := mem_getBook hs' hb'
  rw [hx.uid, hbu] at this
  exact ⟨b', p', this, hp'⟩

/-- no operation removes a participation record -/
theorem c9h_step_fwd (s : State) (op : Op) (hA : RetAll s) (hwf : op.userSigned') : c9h_Fwd s (step s op).1 := by
  by_cases hne : op = .endBlock
  · subst hne
    simp only [step, endBlock]
    cases h : endBlockO s with
    | none => exact c9h_Fwd.refl s
    | some s' =>
      obtain ⟨hA', s1, hA1, hS, _, _, hO⟩ := ret_endBlockO_trace hA h
      exact (c9h_fwd_of_stStep hS hA1.sett.sortedBooks).trans (c9h_fwd_of_obStep hO hA'.sett.sortedBooks)
  · exact c9h_fwd_of_stStep (step_stStep s op hA hne) (step_retAll s op hA hwf).sett.sortedBooks

-- ---------------------------------------------------------------------------------------------
-- the ledger invariant

/-- `L` is the list of the successful withdrawals so far:
    * `link`: every deposit record has its participation record, which belongs to the depositor, and
      liquidity left + total withdrawn = amount deposited − fee;
    * `tot`: total withdrawn / withdrawal count of the record = sum / number of the withdrawals on its (market, index);
    * `pos`: every withdrawal paid a positive amount;
    * `dep`: every withdrawal was made from a stored deposit of the account it paid. -/
structure c9h_Led (s : State) (L : List c9h_Wd) : Prop where
  link : ∀ d ∈ s.deposits, ∃ b p, getBook s d.market = some b ∧ b.getPart d.idx = some p ∧ p.addr = d.depositor ∧
    p.liq + d.wtotal = d.amount - p.fee
  tot : ∀ d ∈ s.deposits, d.wtotal = c9h_wdSum L d.market d.idx ∧ d.wcount = c9h_wdCnt L d.market d.idx
  pos : ∀ e ∈ L, 0 < e.amount
  dep : ∀ e ∈ L, ∃ d ∈ s.deposits, d.depositor = e.depositor ∧ d.market = e.market ∧ d.idx = e.idx

theorem c9h_dkey_eq {x y : Deposit} : Deposit.key x = Deposit.key y ↔
    x.depositor = y.depositor ∧ x.market = y.market ∧ x.idx = y.idx := by
  simp [Deposit.key]

/-- at most one deposit record per (market, index) -/
theorem c9h_Led.unique {s : State} {L : List c9h_Wd} (h : c9h_Led s L) (hs : Sorted Deposit.key s.deposits)
    {x y : Deposit} (hx : x ∈ s.deposits) (hy : y ∈ s.deposits) (hm : x.market = y.market) (hi : x.idx = y.idx) : x = y := by
  obtain ⟨b1, p1, hb1, hp1, ha1, _⟩ := h.link x hx
  obtain ⟨b2, p2, hb2, hp2, ha2, _⟩ := h.link y hy
  rw [hm, hb2] at hb1; cases hb1
  rw [hi, hp2] at hp1; cases hp1
  exact sorted_mem_key_inj Deposit.key s.deposits hs x y hx hy (c9h_dkey_eq.mpr ⟨ha1.symm.trans ha2, hm, hi⟩)

/-- an operation that leaves the deposit records alone and is quiet on the participation records -/
theorem c9h_led_quiet {s s' : State} {L : List c9h_Wd} (hL : c9h_Led s L) (hQ : cmb2_Quiet s s') (hF : c9h_Fwd s s')
    (hd : s'.deposits = s.deposits) : c9h_Led s' L := by
  refine ⟨?_, ?_, hL.pos, ?_⟩
  · intro d hdm
    rw [hd] at hdm
    obtain ⟨b, p, hb, hp, ha, he⟩ := hL.link d hdm
    obtain ⟨b', p', hb', hp'⟩ := hF _ b _ p hb hp
    obtain ⟨_, b0, p0, hb0, hp0, e1, e2, e3, _⟩ := hQ _ b' _ p' hb' hp'
    rw [hb] at hb0; cases hb0
    rw [hp] at hp0; cases hp0
    exact ⟨b', p', hb', hp', e3.trans ha, by rw [e1, e2]; exact he⟩
  · intro d hdm
    rw [hd] at hdm
    exact hL.tot d hdm
  · intro e he
    rw [hd]
    exact hL.dep e he

theorem c9h_led_deposit {s : State} {r : State × Nat} {c : Nat} {tk : Tk} {m : Nat} {a : Int} {pd : Nat} {L : List c9h_Wd}
    (hL : c9h_Led s L) (hs : Sorted Deposit.key s.deposits) (hF : c9h_Fwd s r.1)
    (h : houseDepositO s c tk m a pd = some r) : c9h_Led r.1 L := by
  obtain ⟨b, B, np, s1, hb, hnone, _, hB, hnp, hna, hsum, _, _, _, _, hdep, _, _⟩ := c9h_deposit_shape h
  obtain ⟨k0, hfr⟩ := cmb2_houseDepositO_frame h
  -- an old deposit never sits on the fresh key
  have hfresh : ∀ y ∈ s.deposits, ¬ (y.market = m ∧ y.idx = b.partCount + 1) := by
    intro y hy hc
    obtain ⟨b0, p0, hb0, hp0, _, _⟩ := hL.link y hy
    rw [hc.1, hb] at hb0; cases hb0
    rw [hc.2, hnone] at hp0; cases hp0
  refine ⟨?_, ?_, hL.pos, ?_⟩
  · intro y hy
    rw [hdep] at hy
    rcases (mem_upsert_iff Deposit.key _ y s.deposits hs).mp hy with rfl | ⟨hy0, _⟩
    · exact ⟨B, np, hB, hnp, hna, by show np.liq + 0 = a - np.fee; omega⟩
    · obtain ⟨b0, p0, hb0, hp0, ha0, he0⟩ := hL.link y hy0
      obtain ⟨b', p', hb', hp'⟩ := hF _ b0 _ p0 hb0 hp0
      rcases hfr.2.2 _ b' _ p' hb' hp' with ⟨bx, hbx, hpx⟩ | ⟨hk, _⟩
      · rw [hb0] at hbx; cases hbx
        rw [hp0] at hpx; cases hpx
        exact ⟨b', p0, hb', hp', ha0, he0⟩
      · exfalso
        have h1 := hfr.2.1 b0 (by rw [← hk]; exact hb0)
        rw [← hk] at h1
        rw [hp0] at h1; cases h1
  · intro y hy
    rw [hdep] at hy
    rcases (mem_upsert_iff Deposit.key _ y s.deposits hs).mp hy with rfl | ⟨hy0, _⟩
    · have := c9h_on_none L m (b.partCount + 1) (by
        intro e he hc
        obtain ⟨d0, hd0, _, e2, e3⟩ := hL.dep e he
        exact hfresh d0 hd0 ⟨e2.trans hc.1, e3.trans hc.2⟩)
      exact ⟨this.1.symm, this.2.symm⟩
    · exact hL.tot y hy0
  · intro e he
    obtain ⟨d0, hd0, e1, e2, e3⟩ := hL.dep e he
    rw [hdep]
    obtain ⟨d', hd', hk⟩ := upsert_keeps_key Deposit.key _ d0 s.deposits hd0
    have hk' := c9h_dkey_eq.mp hk
    exact ⟨d', hd', hk'.1.trans e1, hk'.2.1.trans e2, hk'.2.2.trans e3⟩

theorem c9h_led_withdraw {s s' : State} {c : Nat} {tk : Tk} {m i md : Nat} {a : Int} {pd : Nat} {L : List c9h_Wd}
    (hL : c9h_Led s L) (hs : Sorted Deposit.key s.deposits) (hF : c9h_Fwd s s')
    (h : houseWithdrawO s c tk m i md a pd = some s') :
    c9h_Led s' (L ++ [c9h_mkWd c pd m i ((c9h_calc s (c9h_wdDepositor c pd) m i md a).getD 0)]) := by
  obtain ⟨d, w, b, p, s1, hd, hcalc, hwpos, _, hb, hp, hpa, _, _, _, _, hdep, _, _, _⟩ := c9h_withdraw_shape h
  obtain ⟨w', p0, hw', hfr⟩ := cmb2_houseWithdrawO_frame h
  have hww : w = w' := by
    have e : Sge.Combined.subWithdrawAmount s (if pd != 0 then pd else c) m i md a
        = c9h_calc s (c9h_wdDepositor c pd) m i md a := rfl
    rw [e, hcalc] at hw'
    cases hw'; rfl
  subst hww
  obtain ⟨⟨bq, hbq, hpq⟩, _, _, _, _, hall⟩ := hfr
  have hbq' : getBook s m = some bq := hbq
  rw [hb] at hbq'; cases hbq'
  have hpq' : b.getPart i = some p0 := hpq
  rw [hp] at hpq'; cases hpq'
  obtain ⟨hdm, hdk⟩ := lookup_mem hd
  have hdk' : d.depositor = c9h_wdDepositor c pd ∧ d.market = m ∧ d.idx = i := by simpa [Deposit.key] using hdk
  rw [hcalc]
  simp only [Option.getD_some]
  -- the other deposit records do not sit on (m, i)
  have hother : ∀ y ∈ s.deposits,
      (Deposit.key y == Deposit.key ({ d with wcount := d.wcount + 1, wtotal := d.wtotal + w } : Deposit)) = false →
      ¬ (y.market = m ∧ y.idx = i) := by
    intro y hy hk hc
    have := hL.unique hs hy hdm (hc.1.trans hdk'.2.1.symm) (hc.2.trans hdk'.2.2.symm)
    subst this
    simp [Deposit.key] at hk
  refine ⟨?_, ?_, ?_, ?_⟩
  · intro y hy
    rw [hdep] at hy
    rcases (mem_upsert_iff Deposit.key _ y s.deposits hs).mp hy with rfl | ⟨hy0, hk⟩
    · obtain ⟨bd, pd', hbd, hpd, _, hed⟩ := hL.link d hdm
      rw [hdk'.2.1, hb] at hbd; cases hbd
      rw [hdk'.2.2, hp] at hpd; cases hpd
      obtain ⟨b', p', hb', hp'⟩ := hF _ b _ p hb hp
      rcases hall _ b' _ p' hb' hp' with ⟨hne, _⟩ | ⟨_, hpe⟩
      · exact absurd rfl hne
      · refine ⟨b', p', by show getBook s' d.market = _; rw [hdk'.2.1]; exact hb',
          by show b'.getPart d.idx = _; rw [hdk'.2.2]; exact hp', ?_, ?_⟩
        · rw [hpe]; show p.addr = d.depositor; rw [hpa, hdk'.1]
        · rw [hpe]
          show p.liq - w + (d.wtotal + w) = d.amount - p.fee
          omega
    · have hne := hother y hy0 hk
      obtain ⟨b0, q0, hb0, hq0, ha0, he0⟩ := hL.link y hy0
      obtain ⟨b', p', hb', hp'⟩ := hF _ b0 _ q0 hb0 hq0
      rcases hall _ b' _ p' hb' hp' with ⟨_, bx, hbx, hpx⟩ | ⟨hk0, _⟩
      · rw [hb0] at hbx; cases hbx
        rw [hq0] at hpx; cases hpx
        exact ⟨b', q0, hb', hp', ha0, he0⟩
      · exfalso
        simp only [Prod.mk.injEq] at hk0
        exact hne hk0
  · intro y hy
    rw [hdep] at hy
    obtain ⟨e1, e2⟩ := c9h_wdSum_snoc L (c9h_mkWd c pd m i w) y.market y.idx
    rw [e1, e2]
    rcases (mem_upsert_iff Deposit.key _ y s.deposits hs).mp hy with rfl | ⟨hy0, hk⟩
    · have hc : (c9h_mkWd c pd m i w).market = d.market ∧ (c9h_mkWd c pd m i w).idx = d.idx :=
        ⟨hdk'.2.1.symm, hdk'.2.2.symm⟩
      obtain ⟨t1, t2⟩ := hL.tot d hdm
      show d.wtotal + w = _ ∧ d.wcount + 1 = _
      rw [if_pos hc, if_pos hc]
      show d.wtotal + w = c9h_wdSum L d.market d.idx + w ∧ d.wcount + 1 = c9h_wdCnt L d.market d.idx + 1
      omega
    · have hne := hother y hy0 hk
      have hne' : ¬ ((c9h_mkWd c pd m i w).market = y.market ∧ (c9h_mkWd c pd m i w).idx = y.idx) :=
        fun hc => hne ⟨hc.1.symm, hc.2.symm⟩
      obtain ⟨t1, t2⟩ := hL.tot y hy0
      rw [if_neg hne', if_neg hne']
      exact ⟨by omega, by omega⟩
  · intro e he
    rcases List.mem_append.mp he with he | he
    · exact hL.pos e he
    · simp only [List.mem_singleton] at he
      rw [he]; exact hwpos
  · intro e he
    rw [hdep]
    rcases List.mem_append.mp he with he | he
    · obtain ⟨d0, hd0, e1, e2, e3⟩ := hL.dep e he
      obtain ⟨d', hd', hk⟩ := upsert_keeps_key Deposit.key _ d0 s.deposits hd0
      have hk' := c9h_dkey_eq.mp hk
      exact ⟨d', hd', hk'.1.trans e1, hk'.2.1.trans e2, hk'.2.2.trans e3⟩
    · simp only [List.mem_singleton] at he
      rw [he]
      exact ⟨_, mem_upsert_self Deposit.key _ s.deposits, hdk'.1, hdk'.2.1, hdk'.2.2⟩

/-- every operation keeps the ledger invariant, the trace being extended by the withdrawal it performs (if any) -/
theorem c9h_step_led (s : State) (op : Op) (L : List c9h_Wd) (hA : RetAll s) (hP : cmb2_PartsOK s)
    (hs : Sorted Deposit.key s.deposits) (hwf : op.userSigned') (hL : c9h_Led s L) :
    c9h_Led (step s op).1 (L ++ (c9h_wdEvent s op).toList) := by
  have hF := c9h_step_fwd s op hA hwf
  have quiet : ∀ (hnd : ∀ c tk m a pd, op ≠ .deposit c tk m a pd) (hnw : ∀ c tk m i md a pd, op ≠ .withdraw c tk m i md a pd),
      (step s op).1.deposits = s.deposits → c9h_Led (step s op).1 L :=
    fun hnd hnw hd => c9h_led_quiet hL (cmb2_step_quiet s op hA hP hnd hnw) hF hd
  cases op with
  | deposit c tk m a pd =>
    simp only [c9h_wdEvent, Option.toList, List.append_nil]
    simp only [step, houseDeposit] at hF ⊢
    cases h : houseDepositO s c tk m a pd with
    | none => exact hL
    | some r =>
      rw [h] at hF
      exact c9h_led_deposit hL hs hF h
  | withdraw c tk m i md a pd =>
    cases h : houseWithdrawO s c tk m i md a pd with
    | none =>
      obtain ⟨e1, e2⟩ := c9h_wdEvent_none h
      rw [e1, e2]
      simpa using hL
    | some s' =>
      obtain ⟨e1, _, e2⟩ := c9h_wdEvent_some h
      rw [e1] at hF
      rw [e1, e2]
      exact c9h_led_withdraw hL hs hF h
  | marketAdd c tk u st en o stt =>
    simp only [c9h_wdEvent, Option.toList, List.append_nil]
    exact quiet (by intros; simp) (by intros; simp)
      (c9h_step_hk s _ (by intros; simp) (by intros; simp) (by intros; simp) (by intros; simp) (by intros; simp) (by intros; simp)).1
  | marketUpdate tk u st en stt =>
    simp only [c9h_wdEvent, Option.toList, List.append_nil]
    exact quiet (by intros; simp) (by intros; simp)
      (c9h_step_hk s _ (by intros; simp) (by intros; simp) (by intros; simp) (by intros; simp) (by intros; simp) (by intros; simp)).1
  | marketResolve tk u ts stt w =>
    simp only [c9h_wdEvent, Option.toList, List.append_nil]
    exact quiet (by intros; simp) (by intros; simp)
      (c9h_step_hk s _ (by intros; simp) (by intros; simp) (by intros; simp) (by intros; simp) (by intros; simp) (by intros; simp)).1
  | wager c tk u a pl =>
    simp only [c9h_wdEvent, Option.toList, List.append_nil]
    exact quiet (by intros; simp) (by intros; simp)
      (c9h_step_hk s _ (by intros; simp) (by intros; simp) (by intros; simp) (by intros; simp) (by intros; simp) (by intros; simp)).1
  | send x y v =>
    simp only [c9h_wdEvent, Option.toList, List.append_nil]
    exact quiet (by intros; simp) (by intros; simp)
      (c9h_step_hk s _ (by intros; simp) (by intros; simp) (by intros; simp) (by intros; simp) (by intros; simp) (by intros; simp)).1
  | endBlock =>
    simp only [c9h_wdEvent, Option.toList, List.append_nil]
    exact quiet (by intros; simp) (by intros; simp)
      (c9h_step_hk s _ (by intros; simp) (by intros; simp) (by intros; simp) (by intros; simp) (by intros; simp) (by intros; simp)).1
  | grant g e k l x =>
    simp only [c9h_wdEvent, Option.toList, List.append_nil]
    exact quiet (by intros; simp) (by intros; simp) rfl
  | revoke g e k =>
    simp only [c9h_wdEvent, Option.toList, List.append_nil]
    exact quiet (by intros; simp) (by intros; simp) rfl
  | setParams p =>
    simp only [c9h_wdEvent, Option.toList, List.append_nil]
    refine quiet (by intros; simp) (by intros; simp) ?_
    simp only [step]
    split <;> rfl
  | newBlock h t =>
    simp only [c9h_wdEvent, Option.toList, List.append_nil]
    exact quiet (by intros; simp) (by intros; simp) rfl

/-- the ledger invariant over a history -/
theorem c9h_run_led (s : State) (ops : List Op) (L : List c9h_Wd) (hA : RetAll s) (hP : cmb2_PartsOK s) (hI : StI s)
    (hwf : ∀ op ∈ ops, op.userSigned') (hL : c9h_Led s L) : c9h_Led (run s ops) (L ++ c9h_wdTrace s ops) := by
  induction ops generalizing s L with
  | nil => simpa [c9h_wdTrace, run] using hL
  | cons op rest ih =>
    have h1 := hwf op (List.mem_cons_self ..)
    have := ih (step s op).1 (L ++ (c9h_wdEvent s op).toList) (step_retAll s op hA h1) (cmb2_step_partsOK s op hA hP h1)
      (step_stI s op hI) (fun o ho => hwf o (List.mem_cons_of_mem _ ho)) (c9h_step_led s op L hA hP hI.sd h1 hL)
    rw [List.append_assoc] at this
    exact this

end Sge.Core
