/-
  The end-block as a whole: the order-book phase (BatchOrderBookSettlements) keeps all whole-history invariants at
  the start of every iteration and is an `ObStep`; the bet phase before it is an `StStep`.
-/
import SgeProofs.Lemmas.ReturnsTrace
namespace Sge.Core
open Sge Sge.Genesis

/-- the whole-history invariants of a reachable state -/
structure RetAll (s : State) : Prop where
  sett : SettleInv s
  ob : ObInv s
  ret : RetInv s

theorem RetAll.pay {s : State} (h : RetAll s) : PayInv s := PayInv.of_invs h.sett h.ob h.ret

/-- one iteration of BatchOrderBookSettlements: the resolved book `b` is replaced by `B`, which carries the
    participation list the participation loop returned -/
theorem ret_obIter {s : State} {n : Nat} {b : Book} {m : Market} {r : State × Book × Nat × Nat}
    (hA : RetAll s) (hbm : b ∈ s.books) (hm : getMarket s b.uid = some m) (hres : b.status = OB_RESOLVED)
    (hr : settleParts m n b.parts s b 0 0 = some r)
    (B : Book) (s'' : State) (hBx : Ext b B) (hBp : B.parts = r.2.1.parts)
    (hBs : B.status = OB_RESOLVED ∨ (B.status = OB_SETTLED ∧ r.2.2.2 = b.parts.length))
    (hbal : s''.bal = r.1.bal) (hbooks : s''.books = upsert Book.key B s.books) (hbets : s''.bets = s.bets)
    (hpend : s''.pending = s.pending) (hmk : s''.markets = s.markets) (hmq : s''.mqueue = s.mqueue)
    (hc : s''.betCount = s.betCount) : RetAll s'' ∧ ObStep s s'' := by
  obtain ⟨hI, hO, hR⟩ := hA
  have hBu : B.uid = b.uid := hBx.uid
  have hb : getBook s b.uid = some b := mem_getBook hO.sB hbm
  have hb' : getBook s B.uid = some b := by rw [hBu]; exact hb
  have hna : b.status ≠ OB_ACTIVE := by rw [hres]; decide
  have hsp := hI.sortedParts b hbm
  have hpw := ret_sorted_pairwise_idx hsp
  have hget : ∀ q ∈ b.parts, b.getPart q.idx = some q := fun q hq => Book.mem_getPart hsp hq
  have hBg : ∀ i, B.getPart i = r.2.1.getPart i := by intro i; unfold Book.getPart; rw [hBp]
  -- custody
  have hst := settleParts_spec m n (hI.creatorsUser m (getMarket_mem hm)) b.parts s b 0 0 r hr hsp hsp
    (fun q hq => lookup_of_mem_sorted Part.key q b.parts hsp hq) (hI.partsUser b hbm)
    (by
      intro q hq hnd
      by_cases e : q.actualProfit = 0
      · exact e
      · obtain ⟨m', hm', hd⟩ := hI.profitDeclared b hbm q hq e
        rw [hm] at hm'
        cases hm'
        exact absurd hd hnd)
  obtain ⟨⟨bal, hs1, e1, e2, e3⟩, u1, u2, u3, u4⟩ := hst
  have hbal' : s''.bal = bal := by rw [hbal, hs1]
  have hBna : B.status ≠ OB_ACTIVE := by
    rcases hBs with e | ⟨e, _⟩ <;> rw [e] <;> decide
  have hS'' : SettleInv s'' := by
    have ho : B.owed = r.2.1.owed := by unfold Book.owed; rw [hBp]
    have hof : B.owedFee = r.2.1.owedFee := by unfold Book.owedFee; rw [hBp]
    refine SettleInv.replaceBook (s := s) (b := b) (B := B) hI hb' hbooks hbets hpend hmk
      (by rw [hmq]; exact fun _ hu => hu) hc (by rw [hBp]; exact u3) (by rw [hBp]; exact u4) hBna ?_ ?_ ?_ ?_ ?_
    · rw [hBu]; exact hI.closedNoOpen b hbm hna
    · rw [hBu]; exact hI.closedResolved b hbm hna
    · rw [hbal', ho]; exact e1
    · rw [hbal', hof]; exact e2
    · rw [hbal']; exact e3
  -- realised profit
  obtain ⟨_, hPx, _⟩ := ret_settleParts_pext m n b.parts s b 0 0 r hr hpw hget
  have hBPx : PExt b B := ⟨hBu, fun i p' hp' => hPx.gp i p' (by rw [← hBg]; exact hp')⟩
  have hO'' : ObInv s'' := by
    have h1 := hO.setBook b B hb' hBx
    exact h1.of_eq hbooks hbets hc (by rw [hmk]; exact hO.mkt)
  have hR'' : RetInv s'' := (hR.setBook hO b B hb' hBPx).of_eq hbooks hbets
  -- the trace
  have hP : PayInv s := PayInv.of_invs hI hO hR
  have hw : ∀ p ∈ b.parts, ∀ (t : State) (bk1 : Book) (r1 : State × Book), (∃ bal, t = { s with bal := bal }) →
      settlePart t bk1 p m = some r1 → PaidAt s.bets s.markets b.uid p (p.paidRec m) := by
    intro p hp t bk1 r1 ht hcall
    obtain ⟨bal0, rfl⟩ := ht
    exact ⟨{ s with bal := bal0 }, b, bk1, m, r1, hP.of_eq rfl rfl rfl rfl rfl rfl, rfl, rfl, hbm, rfl, hres, hp, hm, hcall, rfl⟩
  obtain ⟨_, _, _, T3, T4, _, T6⟩ := ret_settleParts_trace m n (PaidAt s.bets s.markets b.uid) s b.parts s b 0 0 r hr
    ⟨s.bal, rfl⟩ hpw hget hw
  have hOb : ObBk s.bets s.markets b B := by
    refine ⟨hBu, ?_, ?_, ?_⟩
    · rcases hBs with e | ⟨e, hlen⟩
      · exact Or.inl (by rw [e, hres])
      · refine Or.inr ⟨hres, e, fun i p' hp' => ?_⟩
        rw [hBg] at hp'
        obtain ⟨q, hq, _⟩ := T3 i p' hp'
        obtain ⟨hqm, hqi⟩ := Book.getPart_mem hq
        obtain ⟨q', hq', hs'⟩ := T6 (by rw [hlen]; omega) q hqm
        rw [hqi, hp'] at hq'
        cases hq'
        exact hs'
    · intro i p' hp'
      rw [hBg] at hp'
      obtain ⟨q, hq, hor⟩ := T3 i p' hp'
      refine ⟨q, hq, ?_⟩
      rcases hor with e | ⟨_, a1, a2, a3⟩
      · exact Or.inl e
      · exact Or.inr ⟨a1, a2, a3⟩
    · intro i p hp
      obtain ⟨p', hp'⟩ := T4 i p hp
      exact ⟨p', by rw [hBg]; exact hp'⟩
  exact ⟨⟨hS'', hO'', hR''⟩, ObStep.replace hO.sB b B hb' hOb hbooks hbets hmk⟩

/-- BatchOrderBookSettlements: all invariants are kept, and every participation record of the resulting state is an
    old record or was written by one witnessed `settleParticipation` call -/
theorem ret_obEndBlock_trace : ∀ (fuel : Nat) (s : State) (n i : Nat) (s' : State),
    RetAll s → obEndBlock fuel s n i = some s' → RetAll s' ∧ ObStep s s' := by
  intro fuel
  induction fuel with
  | zero => intro s n i s' hA h; simp [obEndBlock] at h; rw [← h]; exact ⟨hA, ObStep.refl s⟩
  | succ fuel ih =>
    intro s n i s' hA h
    unfold obEndBlock at h
    split at h
    · simp at h; rw [← h]; exact ⟨hA, ObStep.refl s⟩
    · split at h
      · simp at h; rw [← h]; exact ⟨hA, ObStep.refl s⟩
      · simp only [bind, Option.bind_eq_some_iff] at h
        obtain ⟨b, hb, m, hm, _, hres, r, hr, h⟩ := h
        have hres : b.status = OB_RESOLVED := by simpa using chk_some hres
        obtain ⟨hbm, hbu⟩ := getBook_mem hb
        have hm' : getMarket s b.uid = some m := by rw [hbu]; exact hm
        have hsP := (hA.ob.qinv b hbm).s.sP
        obtain ⟨⟨bal', hbal⟩, hx0⟩ := settleParts_ext m n b.parts s b 0 0 r hr (ret_sorted_pairwise_idx hsP)
          (fun p hp => Book.mem_getPart hsP hp)
        have hst1 : r.2.1.status = OB_RESOLVED := by
          obtain ⟨_, _, e, _⟩ := ret_settleParts_trace m n (fun _ _ => True) s b.parts s b 0 0 r hr ⟨s.bal, rfl⟩
            (ret_sorted_pairwise_idx hsP) (fun p hp => Book.mem_getPart hsP hp) (fun _ _ _ _ _ _ _ => trivial)
          rw [e, hres]
        split at h
        · rename_i hall
          simp only [bind, Option.bind_eq_some_iff] at h
          obtain ⟨q, _, h⟩ := h
          have hlen : r.2.2.2 = b.parts.length := by simpa using hall
          obtain ⟨hA1, hS1⟩ := ret_obIter hA hbm hm' hres hr { r.2.1 with status := OB_SETTLED }
            (setBook { r.1 with obqueue := q } { r.2.1 with status := OB_SETTLED })
            (hx0.trans (Ext.status r.2.1 OB_SETTLED)) rfl (Or.inr ⟨rfl, hlen⟩) rfl (by rw [hbal]; rfl) (by rw [hbal]; rfl)
            (by rw [hbal]; rfl) (by rw [hbal]; rfl) (by rw [hbal]; rfl) (by rw [hbal]; rfl)
          obtain ⟨hA2, hS2⟩ := ih _ _ _ _ hA1 h
          exact ⟨hA2, hS1.trans hS2⟩
        · obtain ⟨hA1, hS1⟩ := ret_obIter hA hbm hm' hres hr r.2.1 (setBook r.1 r.2.1) hx0 rfl (Or.inl hst1)
            rfl (by rw [hbal]; rfl) (by rw [hbal]; rfl) (by rw [hbal]; rfl) (by rw [hbal]; rfl) (by rw [hbal]; rfl)
            (by rw [hbal]; rfl)
          obtain ⟨hA2, hS2⟩ := ih _ _ _ _ hA1 h
          exact ⟨hA2, hS1.trans hS2⟩

-- ---------------------------------------------------------------------------------------------
-- the whole end-block

/-- a successful end-block: the bet phase leads to `s1` (only realised profits move in the books, no paid record is
    touched), the order-book phase from `s1` to `s'` is traced -/
theorem ret_endBlockO_trace {s s' : State} (hA : RetAll s) (h : endBlockO s = some s') :
    RetAll s' ∧ ∃ s1, RetAll s1 ∧ StStep s s1 ∧ ProfOnly s s1 ∧ s1.markets = s.markets ∧ ObStep s1 s' := by
  unfold endBlockO at h
  simp only [bind, Option.bind_eq_some_iff] at h
  obtain ⟨s1, h1, h2⟩ := h
  obtain ⟨hR1, hP1⟩ := ret_betEndBlock _ _ _ _ hA.ob hA.ret h1
  have hA1 : RetAll s1 := ⟨betEndBlock_inv _ _ _ _ hA.sett h1, betEndBlock_obInv _ _ _ _ hA.ob h1, hR1⟩
  obtain ⟨hA', hS⟩ := ret_obEndBlock_trace _ _ _ _ _ hA1 h2
  exact ⟨hA', s1, hA1, stp_betEndBlock _ _ _ _ hA.ob hA.sett h1, hP1, betEndBlock_markets _ _ _ _ h1, hS⟩

theorem RetAll.sortedParts {s : State} (h : RetAll s) : ∀ b ∈ s.books, Sorted Part.key b.parts := h.sett.sortedParts

theorem ObStep.keeps {s s' : State} (h : ObStep s s') (hsP : ∀ b ∈ s.books, Sorted Part.key b.parts) : KeepsPaid s s' := by
  intro b hb p hp hs
  obtain ⟨b', hb', hx⟩ := h.fwd b hb
  have hg := Book.mem_getPart (hsP b hb) hp
  obtain ⟨p', hp'⟩ := hx.gp' p.idx p hg
  obtain ⟨p0, hp0, hor⟩ := hx.gp p.idx p' hp'
  rw [hg] at hp0
  cases hp0
  rcases hor with e | ⟨a1, _, _⟩
  · rw [e] at hp'
    exact ⟨b', hb', hx.uid, (Book.getPart_mem hp').1⟩
  · rw [hs] at a1; cases a1

theorem ObStep.paidInv {s s' : State} (h : ObStep s s') (hP : PaidInv s) (hsP : ∀ b ∈ s'.books, Sorted Part.key b.parts) :
    PaidInv s' := by
  intro b' hb' hst p' hp'
  have hg := Book.mem_getPart (hsP b' hb') hp'
  obtain ⟨b, hb, hx⟩ := h.bwd b' hb'
  rcases hx.st with e | ⟨_, _, hall⟩
  · obtain ⟨p, hp, hor⟩ := hx.gp p'.idx p' hg
    rcases hor with e2 | ⟨_, a2, _⟩
    · rw [e2]; exact hP b hb (by rw [← e]; exact hst) p (Book.getPart_mem hp).1
    · exact a2
  · exact hall _ _ hg

-- ---------------------------------------------------------------------------------------------
-- every operation

theorem step_retAll (s : State) (op : Op) (hA : RetAll s) (hwf : op.userSigned') : RetAll (step s op).1 :=
  ⟨step_settleInv s op hA.sett hwf, step_obInv s op hA.ob, step_retInv s op hA.ob hA.ret⟩

theorem run_retAll (s : State) (ops : List Op) (hA : RetAll s) (hwf : ∀ op ∈ ops, op.userSigned') : RetAll (run s ops) := by
  induction ops generalizing s with
  | nil => exact hA
  | cons op rest ih =>
    exact ih _ (step_retAll s op hA (hwf op (List.mem_cons_self ..))) (fun o ho => hwf o (List.mem_cons_of_mem _ ho))

/-- every operation except the end-block is an `StStep` -/
theorem step_stStep (s : State) (op : Op) (hA : RetAll s) (hne : op ≠ .endBlock) : StStep s (step s op).1 := by
  cases op with
  | marketAdd c tk u st en o stt =>
    simp only [step, marketAdd, commit]
    cases h : marketAddO s c tk u st en o stt with
    | none => exact StStep.refl s
    | some s' => exact stp_marketAddO hA.ob h
  | marketUpdate tk u st en stt =>
    simp only [step, marketUpdate, commit]
    cases h : marketUpdateO s tk u st en stt with
    | none => exact StStep.refl s
    | some s' => exact stp_marketUpdateO h
  | marketResolve tk u ts stt w =>
    simp only [step, marketResolve, commit]
    cases h : marketResolveO s tk u ts stt w with
    | none => exact StStep.refl s
    | some s' => exact stp_marketResolveO h
  | deposit c tk m a pd =>
    simp only [step, houseDeposit]
    cases h : houseDepositO s c tk m a pd with
    | none => exact StStep.refl s
    | some r => exact stp_houseDepositO hA.ob h
  | withdraw c tk m i md a pd =>
    simp only [step, houseWithdraw, commit]
    cases h : houseWithdrawO s c tk m i md a pd with
    | none => exact StStep.refl s
    | some s' => exact stp_houseWithdrawO hA.ob h
  | wager c tk u a pl =>
    simp only [step, wager, commit]
    cases h : wagerO s c tk u a pl with
    | none => exact StStep.refl s
    | some s' => exact stp_wagerO hA.ob hA.sett.toSInv h
  | grant g e k l x => exact StStep.of_eq (by rfl)
  | revoke g e k => exact StStep.of_eq (by rfl)
  | send a b x =>
    simp only [step]
    split
    · exact StStep.refl s
    · unfold commit
      cases h : bankSend s a b x with
      | none => exact StStep.refl s
      | some s' =>
        obtain ⟨_, _, rfl⟩ := bankSend_shape h
        exact StStep.of_eq (by rfl)
  | setParams p =>
    simp only [step]
    split
    · exact StStep.of_eq (by rfl)
    · exact StStep.refl s
  | endBlock => exact absurd rfl hne
  | newBlock h t => exact StStep.of_eq (by rfl)

/-- a paid participation record is still there, unchanged, after any operation -/
theorem step_keepsPaid (s : State) (op : Op) (hA : RetAll s) : KeepsPaid s (step s op).1 := by
  by_cases hne : op = .endBlock
  · subst hne
    simp only [step, endBlock]
    cases h : endBlockO s with
    | none => exact KeepsPaid.refl s
    | some s' =>
      obtain ⟨_, s1, hA1, hS1, _, _, hS2⟩ := ret_endBlockO_trace hA h
      exact (hS1.keeps hA.sortedParts).trans (hS2.keeps hA1.sortedParts)
  · exact (step_stStep s op hA hne).keeps hA.sortedParts

/-- "every participation of a SETTLED book is paid" is kept by any operation -/
theorem step_paidInv (s : State) (op : Op) (hA : RetAll s) (hwf : op.userSigned') (hP : PaidInv s) :
    PaidInv (step s op).1 := by
  have hA' := step_retAll s op hA hwf
  by_cases hne : op = .endBlock
  · subst hne
    simp only [step, endBlock] at hA' ⊢
    cases h : endBlockO s with
    | none => exact hP
    | some s' =>
      rw [h] at hA'
      obtain ⟨_, s1, hA1, hS1, _, _, hS2⟩ := ret_endBlockO_trace hA h
      exact hS2.paidInv (hS1.paidInv hP hA1.sortedParts) hA'.sortedParts
  · exact (step_stStep s op hA hne).paidInv hP hA'.sortedParts

theorem ret_book_unique {s : State} (hsB : Sorted Book.key s.books) {b b0 : Book} (hb : b ∈ s.books) (hb0 : b0 ∈ s.books)
    (hu : b0.uid = b.uid) : b0 = b := by
  have h1 := mem_getBook hsB hb
  have h2 := mem_getBook hsB hb0
  rw [hu, h1] at h2
  cases h2; rfl

/-- THE PAYMENT OF A PARTICIPATION. If an operation turns the unpaid participation `p` of book `b` into a paid
    record `p'`, the operation is an end-block, and `p'` was written by one witnessed `settleParticipation` call on
    the record `p0` — `p` with the realised profit as updated by the bets settled earlier in that end-block — made
    in a state with the bets of the new state and the markets of the old one. -/
theorem step_paid (s : State) (op : Op) (hA : RetAll s) (hwf : op.userSigned')
    (b : Book) (hb : b ∈ s.books) (p : Part) (hp : p ∈ b.parts) (hun : p.isSettled = false)
    (b' : Book) (hb' : b' ∈ (step s op).1.books) (hu : b'.uid = b.uid) (p' : Part) (hp' : p' ∈ b'.parts)
    (hi : p'.idx = p.idx) (hs' : p'.isSettled = true) :
    op = .endBlock ∧ ∃ p0 : Part, p0 = { p with actualProfit := p0.actualProfit } ∧
      PaidAt (step s op).1.bets s.markets b.uid p0 p' := by
  have hA' := step_retAll s op hA hwf
  have hgp : b.getPart p.idx = some p := Book.mem_getPart (hA.sortedParts b hb) hp
  have hgp' : b'.getPart p.idx = some p' := by rw [← hi]; exact Book.mem_getPart (hA'.sortedParts b' hb') hp'
  by_cases hne : op = .endBlock
  · subst hne
    refine ⟨rfl, ?_⟩
    simp only [step, endBlock] at hb' ⊢
    cases h : endBlockO s with
    | none =>
      exfalso
      rw [h] at hb'
      have := ret_book_unique hA.ob.sB hb hb' hu
      subst this
      rw [hgp] at hgp'
      cases hgp'
      rw [hun] at hs'; cases hs'
    | some s' =>
      rw [h] at hb'
      have hb' : b' ∈ s'.books := hb'
      obtain ⟨_, s1, hA1, _, hP1, hmk1, hS2⟩ := ret_endBlockO_trace hA h
      obtain ⟨b1, hb1, hx⟩ := hS2.bwd b' hb'
      obtain ⟨b0, hb0, hu0, hg0⟩ := hP1 b1 hb1
      have : b0 = b := ret_book_unique hA.ob.sB hb hb0 (hu0.trans (hx.uid.symm.trans hu))
      subst this
      obtain ⟨p1, hp1, hor⟩ := hx.gp p.idx p' hgp'
      obtain ⟨p0, hp0, e0⟩ := hg0 p.idx p1 hp1
      rw [hgp] at hp0
      cases hp0
      rcases hor with e | ⟨_, _, a3⟩
      · exfalso
        rw [e, e0] at hs'
        rw [hun] at hs'; cases hs'
      · refine ⟨p1, e0, ?_⟩
        show PaidAt s'.bets s.markets b0.uid p1 p'
        rw [hS2.bets, ← hmk1, hu0]
        exact a3
  · exfalso
    obtain ⟨b0, hb0, hu0, hp0⟩ := (step_stStep s op hA hne).noNew hA'.sortedParts b' hb' p' hp' hs'
    have := ret_book_unique hA.ob.sB hb hb0 (hu0.trans hu)
    subst this
    have hgp0 := Book.mem_getPart (hA.sortedParts b0 hb) hp0
    rw [hi, hgp] at hgp0
    cases hgp0
    rw [hun] at hs'; cases hs'

/-- what a witnessed payment says, over the bets `bets` of the market `u` -/
theorem ret_paidAt_exact {bets : List Bet} {mks : List Market} {u : Nat} {p p' : Part} (h : PaidAt bets mks u p p') :
    ∃ (t : State) (bk : Book) (m : Market) (r : State × Book),
      t.bets = bets ∧ t.markets = mks ∧ getMarket t u = some m ∧ settlePart t bk p m = some r ∧ p' = p.paidRec m ∧
      (∀ x ∈ bets, x.market = u → x.status = BS_SETTLED) ∧ isResolvedStatus m.status = true ∧
      p.actualProfit = lostStakes bets u p.idx - wonProfits bets u p.idx ∧
      p.payout m = payAmount bets u m p ∧
      (p.feeToDepositor m = true ↔ (m.status ≠ MS_DECLARED ∨ backedStake bets u p.idx = 0)) ∧
      (∀ a, getBal r.1.bal a = getBal t.bal a
        + (if a = p.addr then payAmount bets u m p else 0) + (if a = feeDest p m then p.fee else 0)
        - (if a = ACC_POOL then payAmount bets u m p else 0) - (if a = ACC_HOUSEFEE then p.fee else 0)) ∧
      p.isSettled = false ∧ (m.status ≠ MS_DECLARED → p.actualProfit = 0) := by
  obtain ⟨t, b0, bk, m, r, hP, hbets, hmks, hb0, hu, hres, hp, hm, hcall, hrec⟩ := h
  subst hu
  have hna : b0.status ≠ OB_ACTIVE := by rw [hres]; decide
  obtain ⟨c1, c2, c3, c4, c5, c6, _⟩ := ret_pay_exact hP hb0 hna hp hm hcall
  have hgp : b0.getPart p.idx = some p := Book.mem_getPart (hP.ob.qinv b0 hb0).s.sP hp
  have hprof : p.actualProfit = lostStakes t.bets b0.uid p.idx - wonProfits t.bets b0.uid p.idx := by
    rw [hP.ret.prof b0 hb0 p.idx p hgp, ret_real_all_settled t.bets b0.uid p.idx c1]
  have hz : m.status ≠ MS_DECLARED → p.actualProfit = 0 := by
    intro hnd
    by_cases e : p.actualProfit = 0
    · exact e
    · obtain ⟨m', hm', hd⟩ := hP.sinv.profitDeclared b0 hb0 p hp e
      rw [hm] at hm'
      cases hm'
      exact absurd hd hnd
  rw [hbets] at c1 c3 c4 c5 hprof
  exact ⟨t, bk, m, r, hbets, hmks, hm, hcall, hrec, c1, c2, hprof, c3, c4, c5, c6, hz⟩

-- ---------------------------------------------------------------------------------------------
-- histories

theorem run_keepsPaid (s : State) (ops : List Op) (hA : RetAll s) (hwf : ∀ op ∈ ops, op.userSigned') :
    KeepsPaid s (run s ops) := by
  induction ops generalizing s with
  | nil => exact KeepsPaid.refl s
  | cons op rest ih =>
    have h1 := step_keepsPaid s op hA
    have hA1 := step_retAll s op hA (hwf op (List.mem_cons_self ..))
    exact h1.trans (ih _ hA1 (fun o ho => hwf o (List.mem_cons_of_mem _ ho)))

theorem run_paidInv (s : State) (ops : List Op) (hA : RetAll s) (hP : PaidInv s) (hwf : ∀ op ∈ ops, op.userSigned') :
    PaidInv (run s ops) := by
  induction ops generalizing s with
  | nil => exact hP
  | cons op rest ih =>
    have hw := hwf op (List.mem_cons_self ..)
    exact ih _ (step_retAll s op hA hw) (step_paidInv s op hA hw hP) (fun o ho => hwf o (List.mem_cons_of_mem _ ho))

end Sge.Core
