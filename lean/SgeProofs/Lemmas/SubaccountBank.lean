/-
  Bank side of C11: the tokens held at a subaccount address versus `Available = Deposited − Withdrawn − Spent − Lost`.

  These facts depend on what the other modules do at the modelling boundary, so they are proved under an explicit
  contract on every operation of the history:
    `ExtOK op`    (enough for  bank ≥ available):  signers / reward creator are key-holding accounts (`< subBase`),
                   the house deposit takes at most the deposited amount, the house withdrawal pays at least the amount
                   it reports, every settlement payout covers what the hook books;
    `ExtExact op` (needed for  bank = available):  the same with equalities.
  The correspondence suite checks these contracts on the real modules (monitor `ext_contract`).

  Technique: `surplus s x = bank x − available x` (0 available where there is no subaccount). Every handler is shown
  to be a `SurplusStep`: no address in the subaccount range loses surplus, and under the exact contract (and while
  the ghost flag `clean` stays set) the surplus is unchanged.
-/
import SgeProofs.Lemmas.SubaccountInv
namespace Sge.Subaccount

def availOf (s : State) (x : Nat) : Int :=
  match s.subs x with
  | some sub => sub.sum.available
  | none => 0

def surplus (s : State) (x : Nat) : Int := s.bank x - availOf s x

/-- every owner is a key-holding account -/
def OwnersPlain (s : State) : Prop := ∀ a o, s.subMap a = some o → o < subBase

structure SurplusStep (s s' : State) (exact : Prop) : Prop where
  ge : ∀ x, subBase ≤ x → surplus s x ≤ surplus s' x
  eq : exact → s'.clean = true → ∀ x, subBase ≤ x → surplus s' x = surplus s x
  clean : s'.clean = true → s.clean = true

theorem SurplusStep.refl (s : State) (exact : Prop) : SurplusStep s s exact :=
  ⟨fun _ _ => Int.le_refl _, fun _ _ _ _ => rfl, id⟩

theorem SurplusStep.trans {s s1 s2 : State} {e1 e2 e : Prop} (h1 : SurplusStep s s1 e1) (h2 : SurplusStep s1 s2 e2)
    (he1 : e → e1) (he2 : e → e2) : SurplusStep s s2 e := by
  refine ⟨?_, ?_, fun h => h1.clean (h2.clean h)⟩
  · intro x hx
    have := h1.ge x hx
    have := h2.ge x hx
    omega
  · intro he hc x hx
    rw [h2.eq (he2 he) hc x hx, h1.eq (he1 he) (h2.clean hc) x hx]

theorem SurplusStep.weaken {s s' : State} {e e' : Prop} (h : SurplusStep s s' e) (he : e' → e) : SurplusStep s s' e' :=
  ⟨h.ge, fun h' => h.eq (he h'), h.clean⟩

/-- bank and one existing record change; all other addresses of the subaccount range keep their balance -/
theorem SurplusStep.of_update {s : State} {a : Nat} {sub sub' : Sub} {bank' : Nat → Int} {clean' : Bool} {exact : Prop}
    (hs : s.subs a = some sub)
    (hother : ∀ x, subBase ≤ x → x ≠ a → bank' x = s.bank x)
    (hge : s.bank a - sub.sum.available ≤ bank' a - sub'.sum.available)
    (heq : exact → bank' a - sub'.sum.available = s.bank a - sub.sum.available)
    (hclean : clean' = true → s.clean = true) :
    SurplusStep s { s with bank := bank', subs := upd s.subs a (some sub'), clean := clean' } exact := by
  refine ⟨?_, ?_, hclean⟩
  · intro x hx
    by_cases e : x = a
    · subst e
      simp only [surplus, availOf, upd_same, hs]
      exact hge
    · simp only [surplus, availOf, upd_other _ _ _ _ e, hother x hx e]
      exact Int.le_refl _
  · intro he _ x hx
    by_cases e : x = a
    · subst e
      simp only [surplus, availOf, upd_same, hs]
      exact heq he
    · simp only [surplus, availOf, upd_other _ _ _ _ e, hother x hx e]

/-- only the bank (and the ghost flag) change -/
theorem SurplusStep.of_bank {s : State} {bank' : Nat → Int} {clean' : Bool} {exact : Prop}
    (hge : ∀ x, subBase ≤ x → s.bank x ≤ bank' x)
    (heq : exact → clean' = true → ∀ x, subBase ≤ x → bank' x = s.bank x)
    (hclean : clean' = true → s.clean = true) :
    SurplusStep s { s with bank := bank', clean := clean' } exact := by
  refine ⟨?_, ?_, hclean⟩
  · intro x hx
    have := hge x hx
    simp only [surplus, availOf]
    omega
  · intro he hc x hx
    simp only [surplus, availOf, heq he hc x hx]

/-! ## handlers -/

theorem owner_plain {s : State} (hinv : Inv s) (hop : OwnersPlain s) {owner a : Nat} (h : s.ownerMap owner = some a) :
    owner < subBase ∧ subBase ≤ a ∧ (s.subMap a = some owner) := by
  have h1 := (hinv.mapsInv owner a).mp h
  have h2 := hop a owner h1
  have h3 := (hinv.subsDom a).mpr (by simp [h1])
  exact ⟨h2, (hinv.range a h3).1, h1⟩

theorem createKeeper_sstep {s : State} (hinv : Inv s) (creator owner : Nat) (ls : List Lock) (hc : creator < subBase) :
    SurplusStep s (createKeeper s creator owner ls).1 True := by
  unfold createKeeper
  split
  · exact .refl _ _
  · rename_i total hsum
    split
    · exact .refl _ _
    · dsimp only
      split
      · exact .refl _ _
      · rename_i bank' hsend
        have hfresh : s.subs (addrOf s.nextId) = none := by
          cases h : s.subs (addrOf s.nextId) with
          | none => rfl
          | some x =>
            have := (hinv.range (addrOf s.nextId) (by simp [h])).2
            omega
        have hb := send_apply hsend
        have ha : subBase ≤ addrOf s.nextId := by simp [addrOf]
        refine ⟨?_, ?_, id⟩
        · intro x hx
          by_cases e : x = addrOf s.nextId
          · subst e
            simp only [surplus, availOf, upd_same, hfresh, hb, Summary.available]
            have : addrOf s.nextId ≠ creator := by omega
            simp only [if_neg this, if_true]
            omega
          · simp only [surplus, availOf, upd_other _ _ _ _ e, hb]
            have : x ≠ creator := by omega
            simp only [if_neg this, if_neg e]
            omega
        · intro _ _ x hx
          by_cases e : x = addrOf s.nextId
          · subst e
            simp only [surplus, availOf, upd_same, hfresh, hb, Summary.available]
            have : addrOf s.nextId ≠ creator := by omega
            simp only [if_neg this, if_true]
            omega
          · simp only [surplus, availOf, upd_other _ _ _ _ e, hb]
            have : x ≠ creator := by omega
            simp only [if_neg this, if_neg e]
            omega

theorem topUpKeeper_sstep {s : State} (hinv : Inv s) (creator owner : Nat) (ls : List Lock) (hc : creator < subBase) :
    SurplusStep s (topUpKeeper s creator owner ls).1 True := by
  unfold topUpKeeper
  split
  · exact .refl _ _
  · split
    · exact .refl _ _
    · split
      · exact .refl _ _
      · rename_i a hown _ sub hs
        split
        · exact .refl _ _
        · split
          · exact .refl _ _
          · rename_i bank' hsend
            have hb := send_apply hsend
            have ha : subBase ≤ a := (hinv.range a (by simp [hs])).1
            have hne : a ≠ creator := by omega
            apply SurplusStep.of_update hs
            · intro x hx hxa
              have : x ≠ creator := by omega
              rw [hb, if_neg this, if_neg hxa]; omega
            · rw [hb, if_neg hne, if_pos rfl]
              simp only [Summary.available]; omega
            · intro _
              rw [hb, if_neg hne, if_pos rfl]
              simp only [Summary.available]; omega
            · exact id

theorem withdrawUnlockedAt_sstep {s : State} (hinv : Inv s) (a owner : Nat) (ho : owner < subBase) :
    SurplusStep s (withdrawUnlockedAt s a owner).1 True := by
  unfold withdrawUnlockedAt
  split
  · exact .refl _ _
  · rename_i sub hs
    simp only
    split
    · exact .refl _ _
    · split
      · exact .refl _ _
      · rename_i sum' hwd
        split
        · exact .refl _ _
        · rename_i bank' hsend
          obtain ⟨_, _, rfl⟩ := withdraw_some hwd
          have hb := send_apply hsend
          have ha : subBase ≤ a := (hinv.range a (by simp [hs])).1
          have hne : a ≠ owner := by omega
          apply SurplusStep.of_update hs
          · intro x hx hxa
            have : x ≠ owner := by omega
            rw [hb, if_neg this, if_neg hxa]; omega
          · rw [hb, if_neg hne, if_pos rfl]
            simp only [Summary.available]; omega
          · intro _
            rw [hb, if_neg hne, if_pos rfl]
            simp only [Summary.available]; omega
          · exact id

theorem withdrawLockedAt_sstep {s : State} (hinv : Inv s) (a owner : Nat) (d : Int) (ho : owner < subBase) :
    SurplusStep s (withdrawLockedAt s a owner d).1 True := by
  unfold withdrawLockedAt
  split
  · exact .refl _ _
  · rename_i sub hs
    simp only
    split
    · exact .refl _ _
    · split
      · exact .refl _ _
      · split
        · exact .refl _ _
        · rename_i bank' hsend
          split
          · exact .refl _ _
          · rename_i sum' hwd
            obtain ⟨_, _, rfl⟩ := withdraw_some hwd
            have hb := send_apply hsend
            have ha : subBase ≤ a := (hinv.range a (by simp [hs])).1
            have hne : a ≠ owner := by omega
            apply SurplusStep.of_update hs
            · intro x hx hxa
              have : x ≠ owner := by omega
              rw [hb, if_neg this, if_neg hxa]; omega
            · rw [hb, if_neg hne, if_pos rfl]
              simp only [Summary.available]; omega
            · intro _
              rw [hb, if_neg hne, if_pos rfl]
              simp only [Summary.available]; omega
            · exact id

theorem wagerBet_sstep {s0 s1 : State} (h01 : SurplusStep s0 s1 True) (owner a : Nat) (x : WagerExt) (ho : owner < subBase)
    (ha : subBase ≤ a) : SurplusStep s0 (wagerBet s0 s1 owner a x).1 True := by
  unfold wagerBet
  split
  · exact .refl _ _
  · split
    · exact .refl _ _
    · rename_i bank' hsend
      split
      · exact .refl _ _
      · rename_i sub hs
        have hb := send_apply hsend
        have hplain : ∀ y, subBase ≤ y → bank' y = s1.bank y := by
          intro y hy
          have h1 : y ≠ owner := by omega
          have h2 : y ≠ extAcct := by simp only [extAcct]; simp only [subBase] at hy; omega
          rw [hb, if_neg h1, if_neg h2]; omega
        refine h01.trans (e2 := True) ?_ id id
        apply SurplusStep.of_update hs
        · intro y hy _
          exact hplain y hy
        · rw [hplain a ha]; exact Int.le_refl _
        · intro _
          rw [hplain a ha]
        · exact id

theorem wagerReturn_sstep {s0 s2 : State} (h2inv : Inv s2) (h02 : SurplusStep s0 s2 True) (owner a : Nat) (main sub : Int)
    (ho : owner < subBase) : SurplusStep s0 (wagerReturn s0 s2 owner a main sub).1 True := by
  unfold wagerReturn
  split
  · exact h02
  · dsimp only
    split
    · exact h02
    · split
      · exact .refl _ _
      · rename_i sb hs
        split
        · exact .refl _ _
        · split
          · exact .refl _ _
          · rename_i bank' hsend
            have hb := send_apply hsend
            have ha : subBase ≤ a := (h2inv.range a (by simp [hs])).1
            have hne : a ≠ owner := by omega
            refine h02.trans (e2 := True) ?_ id id
            apply SurplusStep.of_update hs
            · intro y hy hya
              have : y ≠ owner := by omega
              rw [hb, if_neg this, if_neg hya]; omega
            · rw [hb, if_neg hne, if_pos rfl]
              simp only [Summary.available]; omega
            · intro _
              rw [hb, if_neg hne, if_pos rfl]
              simp only [Summary.available]; omega
            · exact id

theorem wagerTail_sstep {s : State} (hinv : Inv s) (owner a : Nat) (main sub : Int) (x : WagerExt)
    (ho : owner < subBase) (ha : subBase ≤ a) : SurplusStep s (wagerTail s owner a main sub x).1 True := by
  unfold wagerTail
  cases h1 : withdrawLockedAt s a owner sub with
  | mk s1 r1 =>
    cases r1 with
    | ok =>
      dsimp only
      have hi1 : Inv s1 := by
        have := withdrawLockedAt_inv hinv a owner sub
        rw [h1] at this; exact this
      have hs1 : SurplusStep s s1 True := by
        have := withdrawLockedAt_sstep hinv a owner sub ho
        rw [h1] at this; exact this
      cases h2 : wagerBet s s1 owner a x with
      | mk s2 r2 =>
        cases r2 with
        | ok =>
          dsimp only
          have hi2 : Inv s2 := by
            have := wagerBet_inv hinv hi1 owner a x
            rw [h2] at this; exact this
          have hs2 : SurplusStep s s2 True := by
            have := wagerBet_sstep hs1 owner a x ho ha
            rw [h2] at this; exact this
          exact wagerReturn_sstep hi2 hs2 owner a main sub ho
        | err e => exact .refl _ _
        | panic => exact .refl _ _
    | err e => exact .refl _ _
    | panic => exact .refl _ _

theorem wager_sstep {s : State} (hinv : Inv s) (hop : OwnersPlain s) (owner : Nat) (main sub : Int) (x : WagerExt) :
    SurplusStep s (wager s owner main sub x).1 True := by
  unfold wager
  split
  · exact .refl _ _
  · split
    · exact .refl _ _
    · rename_i a hown
      obtain ⟨ho, ha, _⟩ := owner_plain hinv hop hown
      repeat' split
      all_goals first
        | exact .refl _ _
        | exact wagerTail_sstep hinv _ _ _ _ _ ho ha

theorem houseDeposit_sstep {s : State} (hinv : Inv s) (owner : Nat) (amount : Int) (x : HouseDepExt) (hok : x.taken ≤ amount) :
    SurplusStep s (houseDeposit s owner amount x).1 (x.taken = amount) := by
  unfold houseDeposit
  split
  · exact .refl _ _
  · split
    · exact .refl _ _
    · split
      · exact .refl _ _
      · rename_i a _ _ sub hs
        split
        · exact .refl _ _
        · split
          · exact .refl _ _
          · rename_i sum' hsp
            split
            · exact .refl _ _
            · split
              · exact .refl _ _
              · rename_i bank' hsend
                obtain ⟨_, _, rfl⟩ := spend_some hsp
                have hb := send_apply hsend
                have ha : subBase ≤ a := (hinv.range a (by simp [hs])).1
                have hne : a ≠ extAcct := by simp only [extAcct]; simp only [subBase] at ha; omega
                apply SurplusStep.of_update hs
                · intro y hy hya
                  have : y ≠ extAcct := by simp only [extAcct]; simp only [subBase] at hy; omega
                  rw [hb, if_neg hya, if_neg this]; omega
                · rw [hb, if_pos rfl, if_neg hne]
                  simp only [Summary.available]; omega
                · intro he
                  rw [hb, if_pos rfl, if_neg hne]
                  simp only [Summary.available]; omega
                · exact id

theorem houseWithdraw_sstep {s : State} (hinv : Inv s) (owner : Nat) (x : HouseWdExt) (hok : x.amount ≤ x.paid) :
    SurplusStep s (houseWithdraw s owner x).1 (x.amount = x.paid) := by
  unfold houseWithdraw
  split
  · exact .refl _ _
  · split
    · exact .refl _ _
    · rename_i a _ _ sub hs
      split
      · exact .refl _ _
      · split
        · exact .refl _ _
        · split
          · exact .refl _ _
          · rename_i bank' hsend
            split
            · exact .refl _ _
            · rename_i sum' hun
              obtain ⟨_, _, rfl⟩ := unspend_some hun
              have hb := send_apply hsend
              have ha : subBase ≤ a := (hinv.range a (by simp [hs])).1
              have hne : a ≠ extAcct := by simp only [extAcct]; simp only [subBase] at ha; omega
              apply SurplusStep.of_update hs
              · intro y hy hya
                have : y ≠ extAcct := by simp only [extAcct]; simp only [subBase] at hy; omega
                rw [hb, if_neg this, if_neg hya]; omega
              · rw [hb, if_neg hne, if_pos rfl]
                simp only [Summary.available]; omega
              · intro he
                rw [hb, if_neg hne, if_pos rfl]
                simp only [Summary.available]; omega
              · exact id

/-- what the hook adds to `available` plus what it forwards to the owner -/
def hookBooks (k : HookKind) (x y : Int) : Int :=
  match k with
  | .win => x + y
  | .loss => x - y
  | .refund => x
  | .feeRefund => x

/-- exact effect of a successful hook on the surplus: only the record at `house` moves, by what the hook books -/
theorem hook_surplus {s1 s2 : State} {k : HookKind} {house : Nat} {x y : Int}
    (hrange : (s1.subs house).isSome → subBase ≤ house) (hop : OwnersPlain s1)
    (hh : hook s1 k house x y = (s2, .ok)) :
    s2.clean = s1.clean ∧ (∀ z, subBase ≤ z → z ≠ house → surplus s2 z = surplus s1 z) ∧
    surplus s2 house = surplus s1 house - (if (s1.subs house).isSome then hookBooks k x y else 0) := by
  cases hs : s1.subs house with
  | none =>
    have : hook s1 k house x y = (s1, .ok) := by
      unfold hook
      cases k <;> simp [hookWin, hookLoss, hookRefund, hs]
    rw [this] at hh
    simp only [Prod.mk.injEq, and_true] at hh
    subst hh
    simp
  | some sub =>
    have ha : subBase ≤ house := hrange (by simp [hs])
    simp only [Option.isSome_some, if_true]
    cases k with
    | win =>
      simp only [hook, hookWin, hs] at hh
      split at hh
      · simp at hh
      · rename_i sum' hun
        obtain ⟨_, _, rfl⟩ := unspend_some hun
        split at hh
        · simp at hh
        · rename_i owner hsm
          have ho : owner < subBase := hop house owner hsm
          split at hh
          · simp at hh
          · rename_i bank2 hsend2
            have hb2 := send_apply hsend2
            have hne : house ≠ owner := by omega
            simp only [Prod.mk.injEq, and_true] at hh
            subst hh
            refine ⟨rfl, ?_, ?_⟩
            · intro z hz hzh
              have : z ≠ owner := by omega
              simp only [surplus, availOf, upd_other _ _ _ _ hzh, hb2, if_neg hzh, if_neg this]
              omega
            · simp only [surplus, availOf, upd_same, hs, hb2, if_neg hne, if_true, Summary.available, hookBooks]
              omega
    | loss =>
      simp only [hook, hookLoss, hs] at hh
      split at hh
      · simp at hh
      · rename_i sum1 hun
        obtain ⟨_, _, rfl⟩ := unspend_some hun
        split at hh
        · simp at hh
        · rename_i sum' hl
          obtain ⟨_, rfl⟩ := addLoss_some hl
          simp only [Prod.mk.injEq, and_true] at hh
          subst hh
          refine ⟨rfl, ?_, ?_⟩
          · intro z hz hzh
            simp only [surplus, availOf, upd_other _ _ _ _ hzh]
          · simp only [surplus, availOf, upd_same, hs, Summary.available, hookBooks]
            omega
    | refund =>
      simp only [hook, hookRefund, hs] at hh
      split at hh
      · simp at hh
      · rename_i sum' hun
        obtain ⟨_, _, rfl⟩ := unspend_some hun
        simp only [Prod.mk.injEq, and_true] at hh
        subst hh
        refine ⟨rfl, ?_, ?_⟩
        · intro z hz hzh
          simp only [surplus, availOf, upd_other _ _ _ _ hzh]
        · simp only [surplus, availOf, upd_same, hs, Summary.available, hookBooks]
          omega
    | feeRefund =>
      simp only [hook, hookRefund, hs] at hh
      split at hh
      · simp at hh
      · rename_i sum' hun
        obtain ⟨_, _, rfl⟩ := unspend_some hun
        simp only [Prod.mk.injEq, and_true] at hh
        subst hh
        refine ⟨rfl, ?_, ?_⟩
        · intro z hz hzh
          simp only [surplus, availOf, upd_other _ _ _ _ hzh]
        · simp only [surplus, availOf, upd_same, hs, Summary.available, hookBooks]
          omega

/-- the custody payout of `refund` followed by the hook, as one surplus step -/
theorem settle_sstep {s : State} (hinv : Inv s) (hop : OwnersPlain s) (k : HookKind) (house : Nat) (refund x y : Int)
    (hok : hookBooks k x y ≤ refund) :
    SurplusStep s (settle s k house refund x y).1 (refund = hookBooks k x y) := by
  unfold settle
  split
  · exact .refl _ _
  · rename_i bank1 hsend
    dsimp only
    have hb1 := send_apply hsend
    have h0 := (send_nonneg_amt hsend).1
    have hext : ∀ z, subBase ≤ z → z ≠ extAcct := by
      intro z hz; simp only [extAcct]; simp only [subBase] at hz; omega
    split
    · rename_i s2 heq
      have hk := hook_surplus (s1 := { s with bank := bank1, clean := s.clean && (decide (house < subBase) || (s.subs house).isSome) })
        (fun h => (hinv.range house h).1) hop heq
      obtain ⟨hc, hoth, hhouse⟩ := hk
      simp only at hc hoth hhouse
      have hs1 : ∀ z, subBase ≤ z → surplus { s with bank := bank1, clean := s.clean && (decide (house < subBase) || (s.subs house).isSome) } z
          = surplus s z + (if z = house then refund else 0) := by
        intro z hz
        simp only [surplus, availOf, hb1, if_neg (hext z hz)]
        omega
      refine ⟨?_, ?_, ?_⟩
      · intro z hz
        by_cases e : z = house
        · subst e
          rw [hhouse, hs1 z hz, if_pos rfl]
          split <;> omega
        · rw [hoth z hz e, hs1 z hz, if_neg e]; omega
      · intro he hcl z hz
        simp only at hcl
        rw [hc] at hcl
        simp only [Bool.and_eq_true, Bool.or_eq_true, decide_eq_true_eq] at hcl
        by_cases e : z = house
        · subst e
          rw [hhouse, hs1 z hz, if_pos rfl]
          have : (s.subs z).isSome = true := by
            rcases hcl.2 with h | h
            · omega
            · exact h
          rw [if_pos this]; omega
        · rw [hoth z hz e, hs1 z hz, if_neg e]; omega
      · intro hcl
        simp only at hcl
        rw [hc] at hcl
        simp only [Bool.and_eq_true] at hcl
        exact hcl.1
    · exact .refl _ _

theorem grant_sstep {s : State} (hinv : Inv s) (creator receiver : Nat) (amt : Int) (period : Nat) (hc : creator < subBase) :
    SurplusStep s (grant s creator receiver amt period).1 True := by
  unfold grant
  split
  · rename_i s1 heq
    have h := congrArg Prod.fst heq
    simp only at h
    have hinv1 : Inv s1 := by rw [← h]; exact grantCreate_inv hinv _ _
    have h1 : SurplusStep s s1 True := by
      rw [← h]
      unfold grantCreate
      split
      · exact .refl _ _
      · exact createKeeper_sstep hinv _ _ _ hc
    split
    · have h2 := topUpKeeper_sstep hinv1 poolAcct receiver [(s.now + period, amt)] (by simp [poolAcct, subBase])
      split
      · rename_i s2 heq2
        rw [heq2] at h2
        exact h1.trans h2 id id
      · exact .refl _ _
    · exact h1
  · exact .refl _ _

/-! ## the contract at the modelling boundary -/

/-- what `bank ≥ available` needs from the environment and the other modules, per operation -/
def ExtOK : Op → Prop
  | .send f _ _ => f < subBase
  | .create c o _ => c < subBase ∧ o < subBase
  | .topUp c _ _ => c < subBase
  | .grant c r _ _ => c < subBase ∧ r < subBase
  | .houseDeposit _ amt x => x.taken ≤ amt
  | .houseWithdraw _ x => x.amount ≤ x.paid
  | .settle k _ r x y => hookBooks k x y ≤ r
  | _ => True

/-- what `bank = available` needs in addition -/
def ExtExact : Op → Prop
  | .houseDeposit _ amt x => x.taken = amt
  | .houseWithdraw _ x => x.amount = x.paid
  | .settle k _ r x y => r = hookBooks k x y
  | _ => True

theorem step_sstep {s : State} (hinv : Inv s) (hop : OwnersPlain s) (op : Op) (hok : ExtOK op) :
    SurplusStep s (step s op).1 (ExtExact op) := by
  cases op with
  | advance dt => exact ⟨fun _ _ => Int.le_refl _, fun _ _ _ _ => rfl, id⟩
  | params w d => exact ⟨fun _ _ => Int.le_refl _, fun _ _ _ _ => rfl, id⟩
  | fund a v =>
    show SurplusStep s (fund s a v).1 True
    unfold fund
    split
    · exact .refl _ _
    · apply SurplusStep.of_bank
      · intro z _
        by_cases e : z = a
        · subst e; simp only [upd_same]; omega
        · simp only [upd_other _ _ _ _ e]; exact Int.le_refl _
      · intro _ hc z hz
        simp only [Bool.and_eq_true, decide_eq_true_eq] at hc
        have : z ≠ a := by omega
        simp only [upd_apply, if_neg this]
      · intro hc
        simp only [Bool.and_eq_true] at hc
        exact hc.1
  | send f t v =>
    show SurplusStep s (bankSend s f t v).1 True
    unfold bankSend
    split
    · exact .refl _ _
    · rename_i bank' hsend
      have hb := send_apply hsend
      have h0 := (send_nonneg_amt hsend).1
      have hf : f < subBase := hok
      apply SurplusStep.of_bank
      · intro z hz
        have : z ≠ f := by omega
        rw [hb, if_neg this]
        split <;> omega
      · intro _ hc z hz
        simp only [Bool.and_eq_true, decide_eq_true_eq] at hc
        have h1 : z ≠ f := by omega
        have h2 : z ≠ t := by omega
        rw [hb, if_neg h1, if_neg h2]; omega
      · intro hc
        simp only [Bool.and_eq_true] at hc
        exact hc.1
  | create c o ls =>
    show SurplusStep s (create s c o ls).1 True
    unfold create
    split
    · exact .refl _ _
    · exact createKeeper_sstep hinv c o ls hok.1
  | topUp c o ls =>
    show SurplusStep s (topUp s c o ls).1 True
    unfold topUp
    split
    · exact .refl _ _
    · exact topUpKeeper_sstep hinv c o ls hok
  | withdrawUnlocked o =>
    show SurplusStep s (withdrawUnlocked s o).1 True
    unfold withdrawUnlocked
    split
    · exact .refl _ _
    · rename_i a hown
      exact withdrawUnlockedAt_sstep hinv a o (owner_plain hinv hop hown).1
  | grant c r amt p => exact grant_sstep hinv c r amt p hok.1
  | wager o m sb x => exact wager_sstep hinv hop o m sb x
  | houseDeposit o amt x => exact houseDeposit_sstep hinv o amt x hok
  | houseWithdraw o x => exact houseWithdraw_sstep hinv o x hok
  | settle k h r x y =>
    exact settle_sstep hinv hop k h r x y hok

/-! ## owners stay key-holding accounts -/

theorem createKeeper_ownersPlain {s : State} (hop : OwnersPlain s) (creator owner : Nat) (ls : List Lock) (ho : owner < subBase) :
    OwnersPlain (createKeeper s creator owner ls).1 := by
  unfold createKeeper
  split
  · exact hop
  · split
    · exact hop
    · dsimp only
      split
      · exact hop
      · intro a o h
        simp only [upd_apply] at h
        split at h
        · simp only [Option.some.injEq] at h; omega
        · exact hop a o h

theorem topUpKeeper_subMap (s : State) (creator owner : Nat) (ls : List Lock) :
    (topUpKeeper s creator owner ls).1.subMap = s.subMap := by
  unfold topUpKeeper
  repeat' split
  all_goals rfl

theorem withdrawUnlockedAt_subMap (s : State) (a owner : Nat) : (withdrawUnlockedAt s a owner).1.subMap = s.subMap := by
  unfold withdrawUnlockedAt
  split
  · rfl
  · dsimp only
    repeat' split
    all_goals rfl

theorem withdrawLockedAt_subMap (s : State) (a owner : Nat) (d : Int) : (withdrawLockedAt s a owner d).1.subMap = s.subMap := by
  unfold withdrawLockedAt
  split
  · rfl
  · dsimp only
    repeat' split
    all_goals rfl

theorem wagerBet_subMap (s0 s1 : State) (owner a : Nat) (x : WagerExt) (h : s1.subMap = s0.subMap) :
    (wagerBet s0 s1 owner a x).1.subMap = s0.subMap := by
  unfold wagerBet
  repeat' split
  all_goals first | rfl | exact h

theorem wagerReturn_subMap (s0 s2 : State) (owner a : Nat) (main sub : Int) (h : s2.subMap = s0.subMap) :
    (wagerReturn s0 s2 owner a main sub).1.subMap = s0.subMap := by
  unfold wagerReturn
  split
  · exact h
  · dsimp only
    repeat' split
    all_goals first | rfl | exact h

theorem wagerTail_subMap (s : State) (owner a : Nat) (main sub : Int) (x : WagerExt) :
    (wagerTail s owner a main sub x).1.subMap = s.subMap := by
  unfold wagerTail
  cases h1 : withdrawLockedAt s a owner sub with
  | mk s1 r1 =>
    cases r1 with
    | ok =>
      dsimp only
      have e1 : s1.subMap = s.subMap := by
        have := withdrawLockedAt_subMap s a owner sub
        rw [h1] at this; exact this
      cases h2 : wagerBet s s1 owner a x with
      | mk s2 r2 =>
        cases r2 with
        | ok =>
          dsimp only
          have e2 : s2.subMap = s.subMap := by
            have := wagerBet_subMap s s1 owner a x e1
            rw [h2] at this; exact this
          exact wagerReturn_subMap _ _ _ _ _ _ e2
        | err e => rfl
        | panic => rfl
    | err e => rfl
    | panic => rfl

theorem wager_subMap (s : State) (owner : Nat) (main sub : Int) (x : WagerExt) :
    (wager s owner main sub x).1.subMap = s.subMap := by
  unfold wager
  repeat' split
  all_goals first
    | rfl
    | exact wagerTail_subMap ..

theorem houseDeposit_subMap (s : State) (owner : Nat) (amount : Int) (x : HouseDepExt) :
    (houseDeposit s owner amount x).1.subMap = s.subMap := by
  unfold houseDeposit
  repeat' split
  all_goals rfl

theorem houseWithdraw_subMap (s : State) (owner : Nat) (x : HouseWdExt) :
    (houseWithdraw s owner x).1.subMap = s.subMap := by
  unfold houseWithdraw
  repeat' split
  all_goals rfl

theorem hook_subMap (s : State) (k : HookKind) (house : Nat) (x y : Int) : (hook s k house x y).1.subMap = s.subMap := by
  unfold hook
  cases k
  · simp only [hookWin]
    repeat' split
    all_goals rfl
  · simp only [hookLoss]
    repeat' split
    all_goals rfl
  · simp only [hookRefund]
    repeat' split
    all_goals rfl
  · simp only [hookRefund]
    repeat' split
    all_goals rfl

theorem settle_subMap (s : State) (k : HookKind) (house : Nat) (refund x y : Int) :
    (settle s k house refund x y).1.subMap = s.subMap := by
  unfold settle
  split
  · rfl
  · dsimp only
    split
    · rename_i s2 heq
      have h := congrArg Prod.fst heq
      simp only at h
      rw [← h, hook_subMap]
    · rfl

theorem ownersPlain_of_subMap {s s' : State} (hop : OwnersPlain s) (h : s'.subMap = s.subMap) : OwnersPlain s' := by
  intro a o ha
  rw [h] at ha
  exact hop a o ha

theorem grant_ownersPlain {s : State} (hop : OwnersPlain s) (creator receiver : Nat) (amt : Int) (period : Nat)
    (hr : receiver < subBase) : OwnersPlain (grant s creator receiver amt period).1 := by
  unfold grant
  split
  · rename_i s1 heq
    have h := congrArg Prod.fst heq
    simp only at h
    have h1 : OwnersPlain s1 := by
      rw [← h]
      unfold grantCreate
      split
      · exact hop
      · exact createKeeper_ownersPlain hop _ _ _ hr
    split
    · split
      · rename_i s2 heq2
        have h2 := congrArg Prod.fst heq2
        simp only at h2
        exact ownersPlain_of_subMap h1 (by rw [← h2]; exact topUpKeeper_subMap ..)
      · exact hop
    · exact h1
  · exact hop

theorem step_ownersPlain {s : State} (hop : OwnersPlain s) (op : Op) (hok : ExtOK op) : OwnersPlain (step s op).1 := by
  cases op with
  | advance dt => exact hop
  | params w d => exact hop
  | fund a v =>
    apply ownersPlain_of_subMap hop
    show (fund s a v).1.subMap = _
    unfold fund; split <;> rfl
  | send f t v =>
    apply ownersPlain_of_subMap hop
    show (bankSend s f t v).1.subMap = _
    unfold bankSend; split <;> rfl
  | create c o ls =>
    show OwnersPlain (create s c o ls).1
    unfold create
    split
    · exact hop
    · exact createKeeper_ownersPlain hop c o ls hok.2
  | topUp c o ls =>
    apply ownersPlain_of_subMap hop
    show (topUp s c o ls).1.subMap = _
    unfold topUp
    split
    · rfl
    · exact topUpKeeper_subMap ..
  | withdrawUnlocked o =>
    apply ownersPlain_of_subMap hop
    show (withdrawUnlocked s o).1.subMap = _
    unfold withdrawUnlocked
    split
    · rfl
    · exact withdrawUnlockedAt_subMap ..
  | grant c r amt p => exact grant_ownersPlain hop c r amt p hok.2
  | wager o m sb x => exact ownersPlain_of_subMap hop (wager_subMap ..)
  | houseDeposit o amt x => exact ownersPlain_of_subMap hop (houseDeposit_subMap ..)
  | houseWithdraw o x => exact ownersPlain_of_subMap hop (houseWithdraw_subMap ..)
  | settle k h r x y => exact ownersPlain_of_subMap hop (settle_subMap ..)

/-! ## lifted over operation sequences -/

/-- bank side of the invariant -/
structure InvBank (s : State) : Prop where
  ownersPlain : OwnersPlain s
  ge : ∀ x, subBase ≤ x → 0 ≤ surplus s x
  eq : s.clean = true → ∀ x, subBase ≤ x → surplus s x = 0

theorem step_invBank {s : State} (hinv : Inv s) (hb : InvBank s) (op : Op) (hok : ExtOK op) :
    (∀ x, subBase ≤ x → 0 ≤ surplus (step s op).1 x) ∧ OwnersPlain (step s op).1 ∧
    (ExtExact op → (step s op).1.clean = true → ∀ x, subBase ≤ x → surplus (step s op).1 x = 0) := by
  have hs := step_sstep hinv hb.ownersPlain op hok
  refine ⟨?_, step_ownersPlain hb.ownersPlain op hok, ?_⟩
  · intro x hx
    have := hs.ge x hx
    have := hb.ge x hx
    omega
  · intro he hc x hx
    rw [hs.eq he hc x hx]
    exact hb.eq (hs.clean hc) x hx

theorem run_invBank {s : State} (hinv : Inv s) (hb : InvBank s) (ops : List Op)
    (hok : ∀ op ∈ ops, ExtOK op ∧ ExtExact op) : InvBank (run s ops) := by
  unfold run
  induction ops generalizing s with
  | nil => exact hb
  | cons op rest ih =>
    simp only [List.foldl_cons]
    have h1 := hok op (List.mem_cons_self ..)
    have h := step_invBank hinv hb op h1.1
    exact ih (step_inv hinv op) ⟨h.2.1, h.1, h.2.2 h1.2⟩ (fun o ho => hok o (List.mem_cons_of_mem _ ho))

/-- `bank ≥ available` alone needs only `ExtOK` -/
theorem run_surplus_nonneg {s : State} (hinv : Inv s) (hop : OwnersPlain s) (hge : ∀ x, subBase ≤ x → 0 ≤ surplus s x)
    (ops : List Op) (hok : ∀ op ∈ ops, ExtOK op) :
    OwnersPlain (run s ops) ∧ ∀ x, subBase ≤ x → 0 ≤ surplus (run s ops) x := by
  unfold run
  induction ops generalizing s with
  | nil => exact ⟨hop, hge⟩
  | cons op rest ih =>
    simp only [List.foldl_cons]
    have h1 := hok op (List.mem_cons_self ..)
    have hs := step_sstep hinv hop op h1
    refine ih (step_inv hinv op) (step_ownersPlain hop op h1) ?_ (fun o ho => hok o (List.mem_cons_of_mem _ ho))
    intro x hx
    have := hs.ge x hx
    have := hge x hx
    omega

/-! ## the configuration flag never changes -/

theorem createKeeper_fixed (s : State) (creator owner : Nat) (ls : List Lock) :
    (createKeeper s creator owner ls).1.fixed = s.fixed := by
  unfold createKeeper
  split
  · rfl
  · split
    · rfl
    · dsimp only
      split <;> rfl

theorem topUpKeeper_fixed (s : State) (creator owner : Nat) (ls : List Lock) :
    (topUpKeeper s creator owner ls).1.fixed = s.fixed := by
  unfold topUpKeeper
  repeat' split
  all_goals rfl

theorem withdrawUnlockedAt_fixed (s : State) (a owner : Nat) : (withdrawUnlockedAt s a owner).1.fixed = s.fixed := by
  unfold withdrawUnlockedAt
  split
  · rfl
  · dsimp only
    repeat' split
    all_goals rfl

theorem withdrawLockedAt_fixed (s : State) (a owner : Nat) (d : Int) : (withdrawLockedAt s a owner d).1.fixed = s.fixed := by
  unfold withdrawLockedAt
  split
  · rfl
  · dsimp only
    repeat' split
    all_goals rfl

theorem wagerBet_fixed (s0 s1 : State) (owner a : Nat) (x : WagerExt) (h : s1.fixed = s0.fixed) :
    (wagerBet s0 s1 owner a x).1.fixed = s0.fixed := by
  unfold wagerBet
  repeat' split
  all_goals first | rfl | exact h

theorem wagerReturn_fixed (s0 s2 : State) (owner a : Nat) (main sub : Int) (h : s2.fixed = s0.fixed) :
    (wagerReturn s0 s2 owner a main sub).1.fixed = s0.fixed := by
  unfold wagerReturn
  split
  · exact h
  · dsimp only
    repeat' split
    all_goals first | rfl | exact h

theorem wagerTail_fixed (s : State) (owner a : Nat) (main sub : Int) (x : WagerExt) :
    (wagerTail s owner a main sub x).1.fixed = s.fixed := by
  unfold wagerTail
  cases h1 : withdrawLockedAt s a owner sub with
  | mk s1 r1 =>
    cases r1 with
    | ok =>
      dsimp only
      have e1 : s1.fixed = s.fixed := by
        have := withdrawLockedAt_fixed s a owner sub
        rw [h1] at this; exact this
      cases h2 : wagerBet s s1 owner a x with
      | mk s2 r2 =>
        cases r2 with
        | ok =>
          dsimp only
          have e2 : s2.fixed = s.fixed := by
            have := wagerBet_fixed s s1 owner a x e1
            rw [h2] at this; exact this
          exact wagerReturn_fixed _ _ _ _ _ _ e2
        | err e => rfl
        | panic => rfl
    | err e => rfl
    | panic => rfl

theorem wager_fixed (s : State) (owner : Nat) (main sub : Int) (x : WagerExt) :
    (wager s owner main sub x).1.fixed = s.fixed := by
  unfold wager
  repeat' split
  all_goals first
    | rfl
    | exact wagerTail_fixed ..

theorem houseDeposit_fixed (s : State) (owner : Nat) (amount : Int) (x : HouseDepExt) :
    (houseDeposit s owner amount x).1.fixed = s.fixed := by
  unfold houseDeposit
  repeat' split
  all_goals rfl

theorem houseWithdraw_fixed (s : State) (owner : Nat) (x : HouseWdExt) :
    (houseWithdraw s owner x).1.fixed = s.fixed := by
  unfold houseWithdraw
  repeat' split
  all_goals rfl

theorem hook_fixed (s : State) (k : HookKind) (house : Nat) (x y : Int) : (hook s k house x y).1.fixed = s.fixed := by
  unfold hook
  cases k
  · simp only [hookWin]
    repeat' split
    all_goals rfl
  · simp only [hookLoss]
    repeat' split
    all_goals rfl
  · simp only [hookRefund]
    repeat' split
    all_goals rfl
  · simp only [hookRefund]
    repeat' split
    all_goals rfl

theorem settle_fixed (s : State) (k : HookKind) (house : Nat) (refund x y : Int) :
    (settle s k house refund x y).1.fixed = s.fixed := by
  unfold settle
  split
  · rfl
  · dsimp only
    split
    · rename_i s2 heq
      have h := congrArg Prod.fst heq
      simp only at h
      rw [← h, hook_fixed]
    · rfl

theorem grant_fixed (s : State) (creator receiver : Nat) (amt : Int) (period : Nat) :
    (grant s creator receiver amt period).1.fixed = s.fixed := by
  unfold grant
  split
  · rename_i s1 heq
    have h := congrArg Prod.fst heq
    simp only at h
    have h1 : s1.fixed = s.fixed := by
      rw [← h]
      unfold grantCreate
      split
      · rfl
      · exact createKeeper_fixed ..
    split
    · split
      · rename_i s2 heq2
        have h2 := congrArg Prod.fst heq2
        simp only at h2
        rw [← h2, topUpKeeper_fixed, h1]
      · rfl
    · exact h1
  · rfl

theorem step_fixed (s : State) (op : Op) : (step s op).1.fixed = s.fixed := by
  cases op with
  | advance dt => rfl
  | params w d => rfl
  | fund a v => show (fund s a v).1.fixed = _; unfold fund; split <;> rfl
  | send f t v => show (bankSend s f t v).1.fixed = _; unfold bankSend; split <;> rfl
  | create c o ls =>
    show (create s c o ls).1.fixed = _
    unfold create
    split
    · rfl
    · exact createKeeper_fixed ..
  | topUp c o ls =>
    show (topUp s c o ls).1.fixed = _
    unfold topUp
    split
    · rfl
    · exact topUpKeeper_fixed ..
  | withdrawUnlocked o =>
    show (withdrawUnlocked s o).1.fixed = _
    unfold withdrawUnlocked
    split
    · rfl
    · exact withdrawUnlockedAt_fixed ..
  | grant c r amt p => exact grant_fixed ..
  | wager o m sb x => exact wager_fixed ..
  | houseDeposit o amt x => exact houseDeposit_fixed ..
  | houseWithdraw o x => exact houseWithdraw_fixed ..
  | settle k h r x y => exact settle_fixed ..

end Sge.Subaccount
