/- L0 (non-linear): facts that need `nlinarith`; the only files importing Mathlib are proof files -/
import Mathlib.Tactic.Linarith
import SgeProofs.Lemmas.Dec

namespace Sge
theorem quo_close (P N : Int) (hN : 0 < N) (hP : 0 ≤ P) :
    let q := chopRound (tquo (P * PREC * PREC) (N * PREC))
    2 * (N * q) ≤ 2 * P + N ∧ 2 * P - 3 * N ≤ 2 * (N * q) := by
  intro q
  have hd : 0 < N * PREC := by unfold PREC; omega
  have hX : 0 ≤ P * PREC * PREC := by unfold PREC; positivity
  set y := tquo (P * PREC * PREC) (N * PREC) with hy
  have hy0 : y = (P * PREC * PREC) / (N * PREC) := by
    rw [hy]; unfold tquo; exact Int.tdiv_eq_ediv_of_nonneg hX
  have h1 : (N * PREC) * y ≤ P * PREC * PREC := by rw [hy0]; exact Int.mul_ediv_self_le (by omega)
  have h2 : P * PREC * PREC < (N * PREC) * y + N * PREC := by rw [hy0]; exact Int.lt_mul_ediv_self_add hd
  obtain ⟨h3, h4⟩ := chopRound_bounds y
  have hq : q = chopRound y := rfl
  rw [← hq] at h3 h4
  have hPp : (0:Int) < PREC := by unfold PREC; omega
  -- N*y ≤ P*PREC < N*y + N
  have h1' : N * y ≤ P * PREC := by
    by_contra hc; push Not at hc
    nlinarith
  have h2' : P * PREC < N * y + N := by
    by_contra hc; push Not at hc
    nlinarith
  have h3' : N * (2 * y - PREC) ≤ N * (2 * (q * PREC)) := Int.mul_le_mul_of_nonneg_left h3 (by omega)
  have h4' : N * (2 * (q * PREC)) ≤ N * (2 * y + PREC) := Int.mul_le_mul_of_nonneg_left h4 (by omega)
  constructor
  · by_contra hc; push Not at hc
    nlinarith
  · by_contra hc; push Not at hc
    nlinarith

end Sge
