/- helper lemmas of the C16 theorems about the core modules (bet, orderbook) and the reward collections -/
import SgeProofs.Lemmas.Genesis
import SgeProofs.Lemmas.GenesisSub
namespace Sge.Genesis
open Sge Sge.Core

/-- what `betInv` says, as propositions -/
theorem betInv_unpack (σ : State) (h : betInv σ = true) :
    Sorted Bet.key σ.bets ∧ hasDup (σ.bets.map (·.uid)) = false ∧ (∀ b ∈ σ.bets, b.id ≠ 0) ∧ σ.betCount = σ.bets.length ∧
    (∀ b ∈ σ.bets, ¬ (b.settleHeight = 0 ∧ b.status = BS_SETTLED)) ∧
    σ.pending = setAll pendKey ((σ.bets.filter (fun b => b.settleHeight == 0)).map pendEntry) [] ∧
    σ.settled = setAll pendKey ((σ.bets.filter (fun b => b.settleHeight != 0)).map settEntry) [] ∧
    (∀ b ∈ σ.bets, σ.pending.filter (fun x => x.2.2.1 == b.uid) = (if b.settleHeight == 0 then [pendEntry b] else [])) ∧
    (∀ b ∈ σ.bets, σ.settled.filter (fun x => x.2.2.1 == b.uid) = (if b.settleHeight != 0 then [settEntry b] else [])) ∧
    σ.pending.length + σ.settled.length = σ.bets.length := by
  unfold betInv at h
  simp only [Bool.and_eq_true] at h
  obtain ⟨⟨⟨⟨⟨⟨⟨⟨⟨h1, h2⟩, h3⟩, h4⟩, h5⟩, h6⟩, h7⟩, h8⟩, h9⟩, h10⟩ := h
  rw [sortedB_iff] at h1
  refine ⟨h1, by simpa using h2, ?_, by simpa using h4, ?_, by simpa using h6, by simpa using h7, ?_, ?_, by simpa using h10⟩
  · intro b hb
    have := List.all_eq_true.mp h3 b hb
    simpa using this
  · intro b hb hc
    have := List.all_eq_true.mp h5 b hb
    simp [hc.1, hc.2] at this
  · intro b hb
    have := List.all_eq_true.mp h8 b hb
    exact eq_of_beq this
  · intro b hb
    have := List.all_eq_true.mp h9 b hb
    exact eq_of_beq this

theorem flatMap_congr' {α β : Type} (l : List α) (f g : α → List β) (h : ∀ a ∈ l, f a = g a) : l.flatMap f = l.flatMap g := by
  induction l with
  | nil => rfl
  | cons x xs ih =>
    simp only [List.flatMap_cons]
    rw [h x (List.mem_cons_self ..), ih (fun a ha => h a (List.mem_cons_of_mem _ ha))]

theorem export_pending_filter (σ : State) (u : Nat) :
    (exportBet σ).pending.filter (fun p => p.1 == u) = (σ.pending.filter (fun x => x.2.2.1 == u)).map (fun x => (x.2.2.1, x.2.2.2)) := by
  simp only [exportBet, List.filter_map]
  rfl

theorem export_settled_filter (σ : State) (u : Nat) :
    (exportBet σ).settled.filter (fun p => p.1 == u) = (σ.settled.filter (fun x => x.2.2.1 == u)).map (fun x => (x.2.2.1, x.2.2.2)) := by
  simp only [exportBet, List.filter_map]
  rfl

theorem any_eq_filter {α : Type} (l : List α) (p : α → Bool) : l.any p = !(l.filter p).isEmpty := by
  induction l with
  | nil => rfl
  | cons x xs ih =>
    simp only [List.any_cons, List.filter_cons]
    cases p x <;> simp [ih]

theorem exportOb_scans (σ : State) :
    (exportOb σ).parts = scan σ.books (·.parts) ∧ (exportOb σ).queues = scan σ.books (·.queues) ∧
    (exportOb σ).pexps = scan σ.books (·.pexps) ∧ (exportOb σ).pexpsByIdx = scan σ.books (·.pexps) ∧
    (exportOb σ).hist = scan σ.books (·.hist) ∧ (exportOb σ).books = σ.books.map Book.header :=
  ⟨rfl, rfl, rfl, rfl, rfl, rfl⟩

theorem any_self_sameExp (l : List (Nat × PExp)) : l.all (fun x => l.any (sameExp x)) = true := by
  rw [List.all_eq_true]
  intro x hx
  rw [List.any_eq_true]
  exact ⟨x, hx, by simp [sameExp]⟩

theorem validateBook_export (σ : State) (hsb : Sorted Book.key σ.books) (B : Book) (hB : B ∈ σ.books) (hi : bookInv B = true) :
    validateBook true (exportOb σ) (Book.header B) = 0 := by
  unfold bookInv at hi
  simp only [Bool.and_eq_true, Bool.or_eq_true, beq_iff_eq, bne_iff_ne, ne_eq] at hi
  obtain ⟨⟨⟨⟨⟨⟨⟨⟨_, _⟩, _⟩, _⟩, _⟩, hlen⟩, hexp⟩, _⟩, _⟩ := hi
  obtain ⟨_, hq, hpe, _, _, _⟩ := exportOb_scans σ
  unfold validateBook
  simp only [↓reduceIte, Bool.not_true, Bool.false_or]
  have hrel : (exportOb σ).queues.filter (fun q => q.1 == (Book.header B).uid) = B.queues.map (fun y => (B.uid, y)) := by
    rw [hq]
    exact filter_scan σ.books hsb (·.queues) B hB
  rw [hrel]
  have hcount : ((B.queues.map (fun y => (B.uid, y))).length != (Book.header B).oddsCount) = false := by
    simp only [List.length_map, Book.header, bne_eq_false_iff_eq]
    exact hlen
  rw [hcount]
  have hcond : ((Book.header B).partCount != 0 && !((B.queues.map (fun y => (B.uid, y))).all
      (fun q => (exportOb σ).pexps.any (fun e => e.1 == (Book.header B).uid && e.2.odds == q.2.1)))) = false := by
    rcases hexp with h0 | hall
    · simp [Book.header, h0]
    · have : (B.queues.map (fun y => (B.uid, y))).all
          (fun q => (exportOb σ).pexps.any (fun e => e.1 == (Book.header B).uid && e.2.odds == q.2.1)) = true := by
        rw [List.all_eq_true]
        intro q hq'
        obtain ⟨y, hy, rfl⟩ := List.mem_map.mp hq'
        have := List.all_eq_true.mp hall y hy
        rw [List.any_eq_true] at this ⊢
        obtain ⟨e, he, hodds⟩ := this
        refine ⟨(B.uid, e), ?_, ?_⟩
        · rw [hpe]
          exact (mem_scan σ.books (·.pexps) _).mpr ⟨B, hB, rfl, he⟩
        · simpa [Book.header] using hodds
      simp [this]
  rw [hcond]
  rfl

theorem export_pairs_scan (σ : State) :
    (exportOb σ).pairs = (scan σ.books (·.pairs)).map (fun y => (y.1, y.2.1, betUidOf σ y.2.2)) := by
  simp [exportOb, scan, List.map_flatten, List.map_map, Function.comp_def]

def opParts (B : List Book) : List (Nat × (Book → Book)) := (scan B (·.parts)).map (fun x => (x.1, fun bk => bk.setPart x.2))

def opQueues (B : List Book) : List (Nat × (Book → Book)) := (scan B (·.queues)).map (fun x => (x.1, fun bk => bk.setQueue x.2.1 x.2.2))

def opExps (B : List Book) : List (Nat × (Book → Book)) := (scan B (·.pexps)).map (fun x => (x.1, fun bk => bk.setExp x.2))

def opHist (B : List Book) : List (Nat × (Book → Book)) := (scan B (·.hist)).map (fun x => (x.1, fun bk => bk.setHist x.2))

def opPairs (B : List Book) : List (Nat × (Book → Book)) := (scan B (·.pairs)).map (fun x => (x.1, fun bk => bk.addPair x.2.1 x.2.2))

theorem ops_keep_uid :
    (∀ B, ∀ o ∈ opParts B, ∀ b, (o.2 b).uid = b.uid) ∧ (∀ B, ∀ o ∈ opQueues B, ∀ b, (o.2 b).uid = b.uid) ∧
    (∀ B, ∀ o ∈ opExps B, ∀ b, (o.2 b).uid = b.uid) ∧ (∀ B, ∀ o ∈ opHist B, ∀ b, (o.2 b).uid = b.uid) ∧
    (∀ B, ∀ o ∈ opPairs B, ∀ b, (o.2 b).uid = b.uid) := by
  refine ⟨?_, ?_, ?_, ?_, ?_⟩ <;> intro B o ho b
  all_goals
    first
    | (unfold opParts at ho; obtain ⟨x, _, rfl⟩ := List.mem_map.mp ho; rfl)
    | (unfold opQueues at ho; obtain ⟨x, _, rfl⟩ := List.mem_map.mp ho; rfl)
    | (unfold opExps at ho; obtain ⟨x, _, rfl⟩ := List.mem_map.mp ho; rfl)
    | (unfold opHist at ho; obtain ⟨x, _, rfl⟩ := List.mem_map.mp ho; rfl)
    | (unfold opPairs at ho; obtain ⟨x, _, rfl⟩ := List.mem_map.mp ho; rfl)

/-- one book: the record written by `SetOrderBook`, then all nested records of the book written back -/
theorem rebuild_book (B : List Book) (hs : Sorted Book.key B) (b : Book) (hb : b ∈ B) (hi : bookInv b = true) :
    applyOps (opPairs B) (applyOps (opHist B) (applyOps (opExps B) (applyOps (opExps B) (applyOps (opQueues B)
      (applyOps (opParts B) (skelOf (Book.header b))))))) = b := by
  unfold bookInv at hi
  simp only [Bool.and_eq_true] at hi
  obtain ⟨⟨⟨⟨⟨⟨⟨⟨hq, hp⟩, he⟩, hh⟩, hx⟩, _⟩, _⟩, _⟩, _⟩ := hi
  rw [sortedB_iff] at hq hp he hh hx
  have t1 : applyOps (opParts B) (skelOf (Book.header b)) =
      { skelOf (Book.header b) with parts := setAll Part.key b.parts [] } := by
    unfold opParts
    rw [applyOps_scan B hs (·.parts) (fun p bk => bk.setPart p) b hb (skelOf (Book.header b)) rfl, foldl_setPart]
    rfl
  have t2 : ∀ bk : Book, bk.uid = b.uid → applyOps (opQueues B) bk =
      { bk with queues := setAll (fun (x : Nat × List Nat) => [x.1]) b.queues bk.queues } := by
    intro bk hu
    unfold opQueues
    rw [applyOps_scan B hs (·.queues) (fun q bk => bk.setQueue q.1 q.2) b hb bk hu, foldl_setQueue]
  have t3 : ∀ bk : Book, bk.uid = b.uid → applyOps (opExps B) bk = { bk with pexps := setAll PExp.key b.pexps bk.pexps } := by
    intro bk hu
    unfold opExps
    rw [applyOps_scan B hs (·.pexps) (fun e bk => bk.setExp e) b hb bk hu, foldl_setExp]
  have t4 : ∀ bk : Book, bk.uid = b.uid → applyOps (opHist B) bk = { bk with hist := setAll PExp.hkey b.hist bk.hist } := by
    intro bk hu
    unfold opHist
    rw [applyOps_scan B hs (·.hist) (fun e bk => bk.setHist e) b hb bk hu, foldl_setHist]
  have t5 : ∀ bk : Book, bk.uid = b.uid → applyOps (opPairs B) bk =
      { bk with pairs := setAll (fun (x : Nat × Nat) => [x.1, x.2]) b.pairs bk.pairs } := by
    intro bk hu
    unfold opPairs
    rw [applyOps_scan B hs (·.pairs) (fun x bk => bk.addPair x.1 x.2) b hb bk hu, foldl_addPair]
  obtain ⟨kp, kq, ke, kh, _⟩ := ops_keep_uid
  have v1 : (applyOps (opParts B) (skelOf (Book.header b))).uid = b.uid := by rw [applyOps_uid _ (kp B)]; rfl
  have v2 : (applyOps (opQueues B) (applyOps (opParts B) (skelOf (Book.header b)))).uid = b.uid := by
    rw [applyOps_uid _ (kq B)]; exact v1
  have v3 : (applyOps (opExps B) (applyOps (opQueues B) (applyOps (opParts B) (skelOf (Book.header b))))).uid = b.uid := by
    rw [applyOps_uid _ (ke B)]; exact v2
  have v4 : (applyOps (opExps B) (applyOps (opExps B) (applyOps (opQueues B) (applyOps (opParts B) (skelOf (Book.header b)))))).uid = b.uid := by
    rw [applyOps_uid _ (ke B)]; exact v3
  have v5 : (applyOps (opHist B) (applyOps (opExps B) (applyOps (opExps B) (applyOps (opQueues B) (applyOps (opParts B)
      (skelOf (Book.header b))))))).uid = b.uid := by
    rw [applyOps_uid _ (kh B)]; exact v4
  rw [t5 _ v5, t4 _ v4, t3 _ v3, t3 _ v2, t2 _ v1, t1]
  simp only [skelOf, Book.header]
  rw [setAll_sorted _ _ hp, setAll_sorted _ _ hq, setAll_sorted _ _ he, setAll_self _ _ he, setAll_sorted _ _ hh,
    setAll_sorted _ _ hx]

theorem State.ext' (a b : State) (h1 : a.bal = b.bal) (h2 : a.markets = b.markets) (h3 : a.mqueue = b.mqueue)
    (h4 : a.books = b.books) (h5 : a.obqueue = b.obqueue) (h6 : a.bets = b.bets) (h7 : a.pending = b.pending)
    (h8 : a.settled = b.settled) (h9 : a.betCount = b.betCount) (h10 : a.deposits = b.deposits)
    (h11 : a.withdrawals = b.withdrawals) (h12 : a.grants = b.grants) (h13 : a.params = b.params)
    (h14 : a.height = b.height) (h15 : a.time = b.time) : a = b := by
  cases a; cases b; simp_all

theorem Params.ext' (a b : Params) (h1 : a.betBatch = b.betBatch) (h2 : a.betMin = b.betMin) (h3 : a.betFee = b.betFee)
    (h4 : a.houseMin = b.houseMin) (h5 : a.houseFee = b.houseFee) (h6 : a.houseMaxW = b.houseMaxW)
    (h7 : a.obMaxPart = b.obMaxPart) (h8 : a.obBatch = b.obBatch) (h9 : a.obThreshold = b.obThreshold) : a = b := by
  cases a; cases b; simp_all

theorem validateBook_asis_eq (g : ObGen) (b : BookRec) (hq : g.queues.filter (fun q => q.1 == b.uid) = g.queues)
    (hp : b.partCount ≠ 0) : validateBook false g b = validateBook true g b := by
  unfold validateBook
  have hp' : (b.partCount != 0) = true := by simpa using hp
  simp only [Bool.false_eq_true, ↓reduceIte, Bool.not_false, Bool.true_or, Bool.not_true, Bool.false_or, hp', hq]

theorem subAddrs_pairwise (s : Subaccount.State) : (subAddrs s).Pairwise (· ≠ ·) := by
  unfold subAddrs
  rw [List.pairwise_map]
  exact (List.pairwise_lt_range).imp (fun {a b} h => by unfold Subaccount.addrOf; omega)

theorem promoterOfReward_congr (a b : RewardStores) (hr : a.rewards = b.rewards) (hc : a.campaigns = b.campaigns)
    (ha : a.byAddress = b.byAddress) (u : Nat) : promoterOfReward a u = promoterOfReward b u := by
  unfold promoterOfReward
  rw [hr, hc, ha]

end Sge.Genesis
