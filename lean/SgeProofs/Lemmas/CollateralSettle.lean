/-
  C02, lift to reachable states — settlement (end-blockers) and the market messages keep `ColInv`: they only change
  realised profit, settlement fields and statuses, never liquidity, exposures or stake counters.
-/
import SgeProofs.Lemmas.CollateralOps
namespace Sge.Core
open Sge Sge.Genesis

theorem bettorLoses_cext : ∀ (fulfs : List Fulf) (b b' : Book), bettorLoses b fulfs = some b' → CExt b b' := by
  intro fulfs
  induction fulfs with
  | nil => intro b b' h; simp [bettorLoses] at h; rw [← h]; exact CExt.refl b
  | cons f rest ih =>
    intro b b' h
    unfold bettorLoses at h
    simp only [bind, Option.bind_eq_some_iff] at h
    obtain ⟨p, hp, h⟩ := h
    have hpi := Book.getPart_idx hp
    have h1 := CExt.setPart b { p with actualProfit := p.actualProfit + f.bet } p (by show b.getPart p.idx = some p; rw [hpi]; exact hp)
      ⟨rfl, rfl, rfl, rfl, rfl, rfl, rfl⟩
    exact h1.trans (ih _ _ h)

theorem bettorWins_cext : ∀ (fulfs : List Fulf) (bal : List (Nat × Int)) (bettor : Nat) (b : Book) (r : List (Nat × Int) × Book),
    bettorWins bal bettor b fulfs = some r → CExt b r.2 := by
  intro fulfs
  induction fulfs with
  | nil => intro bal bettor b r h; simp [bettorWins] at h; rw [← h]; exact CExt.refl b
  | cons f rest ih =>
    intro bal bettor b r h
    unfold bettorWins at h
    simp only [bind, Option.bind_eq_some_iff] at h
    obtain ⟨p, hp, bal', _, h⟩ := h
    have hpi := Book.getPart_idx hp
    have h1 := CExt.setPart b { p with actualProfit := p.actualProfit - f.profit } p (by show b.getPart p.idx = some p; rw [hpi]; exact hp)
      ⟨rfl, rfl, rfl, rfl, rfl, rfl, rfl⟩
    exact h1.trans (ih _ _ _ _ h)

theorem settleOutcome_cext {bal : List (Nat × Int)} {won : Bool} {bettor : Nat} {b : Book} {fulfs : List Fulf}
    {r : List (Nat × Int) × Book} (h : settleOutcome bal won bettor b fulfs = some r) : CExt b r.2 := by
  unfold settleOutcome at h
  split at h
  · exact bettorWins_cext _ _ _ _ _ h
  · simp only [Option.map_eq_some_iff] at h
    obtain ⟨b', hb', rfl⟩ := h
    exact bettorLoses_cext _ _ _ hb'

theorem settleBet_col {s s' : State} {c u : Nat} (hC : ColSt s) (h : settleBet s c u = some s') : ColSt s' := by
  unfold settleBet at h
  simp only [bind, Option.bind_eq_some_iff] at h
  obtain ⟨bet0, _, bet, hbet, _, _, m, _, h⟩ := h
  split at h
  · unfold settleRefund at h
    simp only [bind, Option.bind_eq_some_iff, pure, Option.some.injEq] at h
    obtain ⟨s1, h1, s2, h2, rfl⟩ := h
    obtain ⟨_, _, rfl⟩ := bankSend_shape h1
    obtain ⟨_, _, rfl⟩ := bankSend_shape h2
    exact hC.of_eq (by rfl)
  · simp only [Option.bind_eq_some_iff] at h
    obtain ⟨_, _, h⟩ := h
    unfold settleDeclared at h
    simp only [bind, Option.bind_eq_some_iff, pure, Option.some.injEq] at h
    obtain ⟨bk, hbk, r, hr, s2, h2, rfl⟩ := h
    obtain ⟨_, _, rfl⟩ := bankSend_shape h2
    have hx := settleOutcome_cext hr
    obtain ⟨hbm, _⟩ := getBook_mem hbk
    have hC1 : ColSt { s with bal := r.1 } := hC.of_eq (by rfl)
    have hC2 := hC1.setBook r.2 (hx.colInv (hC bk hbm))
    exact hC2.of_eq (by rfl)

theorem settlePage_col : ∀ (page : List (Nat × Nat × Nat × Nat)) (s : State) (r : State × Nat),
    ColSt s → settlePage s page = some r → ColSt r.1 := by
  intro page
  induction page with
  | nil => intro s r hI h; simp [settlePage] at h; rw [← h]; exact hI
  | cons pb rest ih =>
    intro s r hI h
    unfold settlePage at h
    simp only [bind, Option.bind_eq_some_iff, pure, Option.some.injEq] at h
    obtain ⟨s1, h1, r1, hr, rfl⟩ := h
    exact ih _ r1 (settleBet_col hI h1) hr

theorem bookResolved_col {s s' : State} {u : Nat} (hC : ColSt s) (h : bookResolved s u = some s') : ColSt s' := by
  unfold bookResolved at h
  simp only [bind, Option.bind_eq_some_iff, pure, Option.some.injEq] at h
  obtain ⟨b, hb, _, _, rfl⟩ := h
  obtain ⟨hbm, _⟩ := getBook_mem hb
  have h1 := hC.setBook { b with status := OB_RESOLVED } ((hC b hbm).of_stores rfl rfl rfl)
  exact h1.of_eq (by rfl)

theorem betEndBlockStep_col {s : State} {mk n : Nat} {r : State × Nat} (hC : ColSt s) (h : betEndBlockStep s mk n = some r) :
    ColSt r.1 := by
  unfold betEndBlockStep at h
  simp only [bind, Option.bind_eq_some_iff] at h
  obtain ⟨r0, h0, h⟩ := h
  have e0 := settlePage_col _ _ _ hC h0
  split at h
  · simp only [pure, Option.some.injEq] at h; rw [← h]; exact e0
  · simp only [Option.bind_eq_some_iff, pure, Option.some.injEq] at h
    obtain ⟨q, _, s2, h2, rfl⟩ := h
    have e1 : ColSt { r0.1 with mqueue := q } := e0.of_eq (by rfl)
    exact bookResolved_col e1 h2

theorem betEndBlock_col : ∀ (fuel : Nat) (s : State) (n : Nat) (s' : State),
    ColSt s → betEndBlock fuel s n = some s' → ColSt s' := by
  intro fuel
  induction fuel with
  | zero => intro s n s' hI h; simp [betEndBlock] at h; rw [← h]; exact hI
  | succ fuel ih =>
    intro s n s' hI h
    unfold betEndBlock at h
    split at h
    · simp at h; rw [← h]; exact hI
    · split at h
      · simp at h; rw [← h]; exact hI
      · simp only [bind, Option.bind_eq_some_iff] at h
        obtain ⟨r, hr, h⟩ := h
        exact ih _ _ _ (betEndBlockStep_col hI hr) h

theorem settlePart_cshape {s : State} {b : Book} {p : Part} {m : Market} {r : State × Book} (h : settlePart s b p m = some r) :
    (∃ bal', r.1 = { s with bal := bal' }) ∧ ∃ p', r.2 = b.setPart p' ∧ PEq p p' := by
  unfold settlePart at h
  simp only [bind, Option.bind_eq_some_iff] at h
  obtain ⟨_, _, _, _, s1, h1, h⟩ := h
  obtain ⟨_, _, rfl⟩ := bankSend_shape h1
  split at h
  · simp only [Option.bind_eq_some_iff, pure, Option.some.injEq] at h
    obtain ⟨s2, h2, rfl⟩ := h
    obtain ⟨_, _, rfl⟩ := bankSend_shape h2
    exact ⟨⟨_, rfl⟩, _, rfl, ⟨rfl, rfl, rfl, rfl, rfl, rfl, rfl⟩⟩
  · simp only [Option.bind_eq_some_iff, pure, Option.some.injEq] at h
    obtain ⟨s2, h2, rfl⟩ := h
    obtain ⟨_, _, rfl⟩ := bankSend_shape h2
    exact ⟨⟨_, rfl⟩, _, rfl, ⟨rfl, rfl, rfl, rfl, rfl, rfl, rfl⟩⟩

theorem settleParts_cext (m : Market) (count : Nat) : ∀ (ps : List Part) (s : State) (b : Book) (sc pr : Nat)
    (r : State × Book × Nat × Nat), settleParts m count ps s b sc pr = some r →
    ps.Pairwise (fun a c => a.idx ≠ c.idx) → (∀ p ∈ ps, b.getPart p.idx = some p) → CExt b r.2.1 := by
  intro ps
  induction ps with
  | nil => intro s b sc pr r h _ _; simp [settleParts] at h; rw [← h]; exact CExt.refl b
  | cons p rest ih =>
    intro s b sc pr r h hd hg
    rw [List.pairwise_cons] at hd
    unfold settleParts at h
    simp only [bind, Option.bind_eq_some_iff] at h
    obtain ⟨r1, h1, h⟩ := h
    have hstep : CExt b r1.2.1 ∧ (∀ q ∈ rest, r1.2.1.getPart q.idx = some q) := by
      unfold settleOne at h1
      split at h1
      · simp only [Option.map_eq_some_iff] at h1
        obtain ⟨x, hx, rfl⟩ := h1
        obtain ⟨_, p', e1, e2⟩ := settlePart_cshape hx
        refine ⟨?_, ?_⟩
        · show CExt b x.2
          rw [e1]
          exact CExt.setPart b p' p (by rw [e2.idx]; exact hg p (List.mem_cons_self ..)) e2
        · intro q hq
          show x.2.getPart q.idx = some q
          rw [e1, Book.getPart_setPart_ne _ _ _ (by rw [e2.idx]; exact hd.1 q hq)]
          exact hg q (List.mem_cons_of_mem _ hq)
      · cases h1
        exact ⟨CExt.refl b, fun q hq => hg q (List.mem_cons_of_mem _ hq)⟩
    obtain ⟨hx1, hg1⟩ := hstep
    split at h
    · simp only [pure, Option.some.injEq] at h
      rw [← h]
      exact hx1
    · exact hx1.trans (ih _ _ _ _ _ h hd.2 hg1)

theorem obEndBlock_col : ∀ (fuel : Nat) (s : State) (n i : Nat) (s' : State),
    ObInv s → ColSt s → obEndBlock fuel s n i = some s' → ColSt s' := by
  intro fuel
  induction fuel with
  | zero => intro s n i s' _ hC h; simp [obEndBlock] at h; rw [← h]; exact hC
  | succ fuel ih =>
    intro s n i s' hI hC h
    have hstepI := obEndBlock_obInv (fuel + 1) s n i
    unfold obEndBlock at h
    split at h
    · simp at h; rw [← h]; exact hC
    · split at h
      · simp at h; rw [← h]; exact hC
      · simp only [bind, Option.bind_eq_some_iff] at h
        obtain ⟨b, hb, m, _, _, _, r, hr, h⟩ := h
        obtain ⟨hbm, hbu⟩ := getBook_mem hb
        have hsP := (hI.qinv b hbm).s.sP
        have hpw : b.parts.Pairwise (fun a c => a.idx ≠ c.idx) := by
          unfold Sorted at hsP
          refine List.Pairwise.imp ?_ hsP
          intro a c hac e
          simp only [Part.key, e] at hac
          rw [ltL_irrefl] at hac
          cases hac
        obtain ⟨⟨bal', hbal⟩, hx⟩ := settleParts_ext m n b.parts s b 0 0 r hr hpw (fun p hp => Book.mem_getPart hsP hp)
        have hcx := settleParts_cext m n b.parts s b 0 0 r hr hpw (fun p hp => Book.mem_getPart hsP hp)
        have hI1 : ObInv r.1 := by rw [hbal]; exact hI.of_eq (by rfl) (by rfl) (by rfl) hI.mkt
        have hC1 : ColSt r.1 := by rw [hbal]; exact hC.of_eq (by rfl)
        have hb1 : getBook r.1 b.uid = some b := by rw [hbal, hbu]; exact hb
        have hcb : ColInv r.2.1 := hcx.colInv (hC b hbm)
        split at h
        · simp only [Option.bind_eq_some_iff] at h
          obtain ⟨q, _, h⟩ := h
          have hx2 : Ext b { r.2.1 with status := OB_SETTLED } := hx.trans (Ext.status r.2.1 OB_SETTLED)
          have hI2 : ObInv { r.1 with obqueue := q } := hI1.of_eq (by rfl) (by rfl) (by rfl) hI1.mkt
          have hC2 : ColSt { r.1 with obqueue := q } := hC1.of_eq (by rfl)
          apply ih _ _ _ _ (hI2.setBook b _ (by rw [hx2.uid]; exact hb1) hx2) _ h
          exact hC2.setBook _ (hcb.of_stores rfl rfl rfl)
        · apply ih _ _ _ _ (hI1.setBook b _ (by rw [hx.uid]; exact hb1) hx) _ h
          exact hC1.setBook _ hcb

theorem endBlockO_col {s s' : State} (hI : ObInv s) (hC : ColSt s) (h : endBlockO s = some s') : ColSt s' := by
  unfold endBlockO at h
  simp only [bind, Option.bind_eq_some_iff] at h
  obtain ⟨s1, h1, h2⟩ := h
  exact obEndBlock_col _ _ _ _ _ (betEndBlock_obInv _ _ _ _ hI h1) (betEndBlock_col _ _ _ _ hC h1) h2

-- ---------------------------------------------------------------------------------------------
-- x/market

theorem newBook_col (uid : Nat) (odds : List Nat) : ColInv (newBook uid odds) := by
  intro i p hp
  unfold Book.getPart lookup newBook at hp
  simp at hp

theorem marketAddO_col {s s' : State} {c : Nat} {tk : Tk} {u st en : Nat} {o : List Nat} {stt : Nat}
    (hC : ColSt s) (h : marketAddO s c tk u st en o stt = some s') : ColSt s' := by
  unfold marketAddO at h
  simp only [bind, Option.bind_eq_some_iff, pure, Option.some.injEq] at h
  obtain ⟨_, _, _, _, _, _, _, _, _, _, _, _, _, _, rfl⟩ := h
  have h1 := hC.setBook (newBook u o) (newBook_col u o)
  exact h1.of_eq (by rfl)

theorem marketUpdateO_col {s s' : State} {tk : Tk} {u st en stt : Nat}
    (hC : ColSt s) (h : marketUpdateO s tk u st en stt = some s') : ColSt s' := by
  unfold marketUpdateO at h
  simp only [bind, Option.bind_eq_some_iff, pure, Option.some.injEq] at h
  obtain ⟨_, _, m, _, _, _, _, _, _, _, rfl⟩ := h
  exact hC.of_eq (by rfl)

theorem marketResolveO_col {s s' : State} {tk : Tk} {u ts stt : Nat} {w : List Nat}
    (hC : ColSt s) (h : marketResolveO s tk u ts stt w = some s') : ColSt s' := by
  unfold marketResolveO at h
  simp only [bind, Option.bind_eq_some_iff, pure, Option.some.injEq] at h
  obtain ⟨_, _, _, _, m, _, _, _, _, _, rfl⟩ := h
  exact hC.of_eq (by rfl)

end Sge.Core
