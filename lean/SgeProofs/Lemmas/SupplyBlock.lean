/-
  The mint begin-blocker and the core slice side by side, at the level of totals (used by Properties/C13Mods.lean).
-/
import SgeProofs.Properties.C13
import SgeProofs.Properties.C13Core
namespace Sge
open Sge

/-- Supply ledger of a chain that runs x/mint and the core slice side by side.  `mint.supply` is the bank's supply
    record, `mint.collector` the fee-collector balance (auth module account `fee_collector`; it is NOT one of the
    accounts of the core slice, whose custody accounts are the order-book pool and the bet / house fee collectors),
    `core.bal` the accounts of the core slice, `rest` the balances of all other accounts (nothing modelled here
    touches them).  This pairing lives in the proof files only: neither executable model is changed. -/
structure sup_Chain where
  mint : Mint.Chain
  core : Core.State
  rest : Int

/-- the sum of all balances -/
def sup_Chain.balances (c : sup_Chain) : Int := c.mint.collector + c.core.total + c.rest

/-- one block: BeginBlock of x/mint at height `h`; unless that halts the chain, the block's core traffic (`ops`:
    any messages, parameter updates, end-blocker, …) -/
def sup_Chain.block (p : Mint.Params) (c : sup_Chain) (h : Int) (ops : List Core.Op) : sup_Chain :=
  if (c.mint.begin p h).halted then { c with mint := c.mint.begin p h }
  else { c with mint := c.mint.begin p h, core := Core.run c.core ops }

/-- consecutive blocks, each with its height and traffic -/
def sup_Chain.blocks (p : Mint.Params) (c : sup_Chain) (bs : List (Int × List Core.Op)) : sup_Chain :=
  bs.foldl (fun c b => c.block p b.1 b.2) c

/-- the supply record equals the sum of all balances -/
def sup_Chain.Ledger (c : sup_Chain) : Prop := c.mint.supply = c.balances

instance sup_Chain.decLedger (c : sup_Chain) : Decidable c.Ledger := by
  unfold sup_Chain.Ledger; infer_instance

theorem sup_block_core_total (p : Mint.Params) (c : sup_Chain) (h : Int) (ops : List Core.Op) :
    (c.block p h ops).core.total = c.core.total := by
  unfold sup_Chain.block
  split
  · rfl
  · exact Core.c13_core_supply_constant c.core ops

theorem sup_block_mint (p : Mint.Params) (c : sup_Chain) (h : Int) (ops : List Core.Op) :
    (c.block p h ops).mint = c.mint.begin p h ∧ (c.block p h ops).rest = c.rest := by
  unfold sup_Chain.block
  split <;> exact ⟨rfl, rfl⟩

end Sge
