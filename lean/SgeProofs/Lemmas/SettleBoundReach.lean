/-
  C05 bounded progress, part 5: the queue invariant `SbQInv`, the invariant bundle `Reach` of every reachable state,
  and the decomposition of one successful end-block into its two FIFO batches.
-/
import SgeProofs.Lemmas.SettleBoundInv
import SgeProofs.Properties.C01
namespace Sge.Core
open Sge Sge.Genesis

/-- the two work queues in every reachable state: no duplicates; a market waiting for bet settlement still has an
    ACTIVE book, a book waiting for the pay-out of its participations is RESOLVED; and an open market has an ACTIVE
    book -/
structure SbQInv (s : State) : Prop where
  nodupM : s.mqueue.Nodup
  nodupO : s.obqueue.Nodup
  mActive : ∀ u ∈ s.mqueue, statusOf s u = some OB_ACTIVE
  oResolved : ∀ u ∈ s.obqueue, statusOf s u = some OB_RESOLVED
  openActive : ∀ u m, getMarket s u = some m → isOpenStatus m.status = true → statusOf s u = some OB_ACTIVE

theorem qinv_init (p : Params) (bal : List (Nat × Int)) (h t : Nat) :
    SbQInv { bal := bal, params := p, height := h, time := t } :=
  ⟨List.nodup_nil, List.nodup_nil, (fun _ hu => nomatch hu), (fun _ hu => nomatch hu), fun _ _ hm => by cases hm⟩

/-- messages keep the queue invariant -/
theorem MsgFrame.qinv {s s' : State} (hF : MsgFrame s s') (hS : SettleInv s) (hQ : SbQInv s) : SbQInv s' := by
  have hst : ∀ u, statusOf s u = some OB_ACTIVE → statusOf s' u = some OB_ACTIVE := by
    intro u h
    rw [hF.status u (by rw [h]; exact fun e => nomatch e), h]
  refine ⟨?_, by rw [hF.obq]; exact hQ.nodupO, ?_, ?_, ?_⟩
  · rcases hF.mq with e | ⟨u, m, e, hm, ho⟩
    · rw [e]; exact hQ.nodupM
    · rw [e]
      refine List.nodup_append.mpr ⟨hQ.nodupM, (by simp), ?_⟩
      intro a ha b hb e'
      have : b = u := List.mem_singleton.mp hb
      subst this; subst e'
      obtain ⟨m', hm', hr⟩ := hS.queueResolved a ha
      rw [hm] at hm'; cases hm'
      exact open_not_resolved ho hr
  · intro u hu
    rcases hF.mq with e | ⟨v, m, e, hm, ho⟩
    · rw [e] at hu; exact hst u (hQ.mActive u hu)
    · rw [e] at hu
      rcases List.mem_append.mp hu with hu | hu
      · exact hst u (hQ.mActive u hu)
      · have : u = v := List.mem_singleton.mp hu
        subst this
        exact hst u (hQ.openActive u m hm ho)
  · intro u hu
    rw [hF.obq] at hu
    have := hQ.oResolved u hu
    rw [hF.status u (by rw [this]; exact fun e => nomatch e), this]
  · intro u m' hm' ho
    rcases hF.opens u m' hm' ho with ⟨m, hm, ho'⟩ | h
    · exact hst u (hQ.openActive u m hm ho')
    · exact h

/-- the queue invariant after the markets `D1` at the head of the market queue finished bet settlement: they moved to
    the end of the order-book queue and their books went from ACTIVE to RESOLVED -/
theorem qinv_after_bet {s s1 : State} {D1 : List Nat} (hS : SettleInv s) (hQ : SbQInv s)
    (hsplit : s.mqueue = D1 ++ s1.mqueue) (hob1 : s1.obqueue = s.obqueue ++ D1)
    (hst : ∀ u, u ∉ D1 → statusOf s1 u = statusOf s u) (hD1 : ∀ u ∈ D1, statusOf s1 u = some OB_RESOLVED)
    (hm1 : s1.markets = s.markets) : SbQInv s1 := by
  have hndM : (D1 ++ s1.mqueue).Nodup := by rw [← hsplit]; exact hQ.nodupM
  have hD1q : ∀ u ∈ D1, u ∈ s.mqueue := fun u hu => by rw [hsplit]; exact List.mem_append_left _ hu
  refine ⟨(List.nodup_append.mp hndM).2.1, ?_, ?_, ?_, ?_⟩
  · rw [hob1]
    refine List.nodup_append.mpr ⟨hQ.nodupO, (List.nodup_append.mp hndM).1, ?_⟩
    intro a ha b hb e
    subst e
    have h1 := hQ.oResolved a ha
    have h2 := hQ.mActive a (hD1q a hb)
    rw [h1] at h2; cases h2
  · intro u hu
    have hnD : u ∉ D1 := fun hin => (List.nodup_append.mp hndM).2.2 u hin u hu rfl
    rw [hst u hnD]
    exact hQ.mActive u (by rw [hsplit]; exact List.mem_append_right _ hu)
  · intro u hu
    rw [hob1] at hu
    rcases List.mem_append.mp hu with hu | hu
    · have hnD : u ∉ D1 := by
        intro hin
        have h1 := hQ.oResolved u hu
        have h2 := hQ.mActive u (hD1q u hin)
        rw [h1] at h2; cases h2
      rw [hst u hnD]; exact hQ.oResolved u hu
    · exact hD1 u hu
  · intro u m hm ho
    rw [getMarket_congr hm1] at hm
    have hnD : u ∉ D1 := by
      intro hin
      obtain ⟨m', hm', hr⟩ := hS.queueResolved u (hD1q u hin)
      rw [hm] at hm'; cases hm'
      exact open_not_resolved ho hr
    rw [hst u hnD]
    exact hQ.openActive u m hm ho

/-- the queue invariant after the books `D2` at the head of the order-book queue were finished -/
theorem qinv_after_ob {s1 s' : State} {D2 : List Nat} (hQ1 : SbQInv s1)
    (hsplit : s1.obqueue = D2 ++ s'.obqueue) (hmq2 : s'.mqueue = s1.mqueue)
    (hst : ∀ u, u ∉ D2 → statusOf s' u = statusOf s1 u) (hD2st : ∀ u ∈ D2, statusOf s1 u = some OB_RESOLVED)
    (hm2 : s'.markets = s1.markets) : SbQInv s' := by
  have hndO : (D2 ++ s'.obqueue).Nodup := by rw [← hsplit]; exact hQ1.nodupO
  refine ⟨by rw [hmq2]; exact hQ1.nodupM, (List.nodup_append.mp hndO).2.1, ?_, ?_, ?_⟩
  · intro u hu
    rw [hmq2] at hu
    have ha := hQ1.mActive u hu
    have hnD : u ∉ D2 := by
      intro hin
      rw [hD2st u hin] at ha; cases ha
    rw [hst u hnD]; exact ha
  · intro u hu
    have hnD : u ∉ D2 := fun hin => (List.nodup_append.mp hndO).2.2 u hin u hu rfl
    rw [hst u hnD]
    exact hQ1.oResolved u (by rw [hsplit]; exact List.mem_append_right _ hu)
  · intro u m hm ho
    rw [getMarket_congr hm2] at hm
    have ha := hQ1.openActive u m hm ho
    have hnD : u ∉ D2 := by
      intro hin
      rw [hD2st u hin] at ha; cases ha
    rw [hst u hnD]; exact ha

/-- One successful end-block, taken apart: the bet end-blocker is a FIFO batch with budget `betBatch` on the market
    queue (measure: pending bets), the markets `D1` it finishes are appended to the order-book queue; then the
    order-book end-blocker is a FIFO batch with budget `obBatch` on that queue (measure: unpaid participations),
    finishing the books `D2`. All invariants hold in between and afterwards. -/
structure Phases (s s1 s' : State) (D1 D2 : List Nat) : Prop where
  bet : Batch s.mqueue s1.mqueue (pendCount s) (pendCount s1) s.params.betBatch D1
  obq1 : s1.obqueue = s.obqueue ++ D1
  books1 : BetBooks s s1 D1
  ob : Batch s1.obqueue s'.obqueue (unpaidOf s1) (unpaidOf s') s.params.obBatch D2
  books2 : ObBooks s1 s' D2
  mq2 : s'.mqueue = s1.mqueue
  pend2 : s'.pending = s1.pending
  params : s'.params = s.params
  markets1 : s1.markets = s.markets
  markets2 : s'.markets = s.markets
  idx1 : BetIdx s1
  inv1 : SettleInv s1
  q1 : SbQInv s1
  idx2 : BetIdx s'
  inv2 : SettleInv s'
  q2 : SbQInv s'

theorem endBlockO_phases {s s' : State} (hI : BetIdx s) (hS : SettleInv s) (hQ : SbQInv s) (h : endBlockO s = some s') :
    ∃ s1 D1 D2, Phases s s1 s' D1 D2 := by
  have h0 := h
  unfold endBlockO at h
  simp only [bind, Option.bind_eq_some_iff] at h
  obtain ⟨s1, h1, h2⟩ := h
  obtain ⟨D1, hB1, hob1, hbk1, hpar1⟩ := betEndBlock_batch _ s _ s1 hI hS hQ.nodupM (Nat.lt_succ_self _) h1
  have hI1 := (betEndBlock_good _ _ _ _ hI h1).1
  have hS1 := betEndBlock_inv _ _ _ _ hS h1
  have hm1 := betEndBlock_markets _ _ _ _ h1
  have hQ1 : SbQInv s1 := qinv_after_bet hS hQ hB1.split hob1 hbk1.status (fun u hu => (hbk1.resolved u hu).2) hm1
  have hpar : s1.params = s.params := hpar1
  obtain ⟨D2, hB2, hbk2, hmq2, hpe2, hpar2⟩ := obEndBlock_batch _ s1 _ s' hS1.sortedParts hQ1.nodupO (Nat.lt_succ_self _) h2
  have hm2 := obEndBlock_markets _ _ _ _ _ h2
  have hQ2 : SbQInv s' := qinv_after_ob hQ1 hB2.split hmq2 hbk2.status (fun u hu => (hbk2.settled u hu).1) hm2
  exact ⟨s1, D1, D2, hB1, hob1, hbk1, hB2, hbk2, hmq2, hpe2, hpar2.trans hpar, hm1, hm2.trans hm1, hI1, hS1, hQ1,
    (endBlockO_good hI h0).1, endBlockO_inv hS h0, hQ2⟩

-- ---------------------------------------------------------------------------------------------
-- the invariant bundle of reachable states

/-- everything the bounded-progress argument needs to know about a reachable state -/
structure Reach (s : State) : Prop where
  idx : BetIdx s
  inv : SettleInv s
  q : SbQInv s

theorem reach_init (p : Params) (bal : List (Nat × Int)) (h t : Nat)
    (h0 : getBal bal ACC_POOL = 0 ∧ getBal bal ACC_BETFEE = 0 ∧ getBal bal ACC_HOUSEFEE = 0) :
    Reach { bal := bal, params := p, height := h, time := t } :=
  ⟨betIdx_init p bal h t, settleInv_init p bal h t h0, qinv_init p bal h t⟩

theorem step_reach (s : State) (op : Op) (hR : Reach s) (hwf : op.userSigned') : Reach (step s op).1 := by
  refine ⟨step_betIdx s op hR.idx, step_settleInv s op hR.inv hwf, ?_⟩
  by_cases hne : op = .endBlock
  · subst hne
    simp only [step, endBlock]
    cases h : endBlockO s with
    | none => exact hR.q
    | some s' =>
      obtain ⟨s1, D1, D2, hP⟩ := endBlockO_phases hR.idx hR.inv hR.q h
      exact hP.q2
  · exact (step_msgFrame s op hR.inv.sortedParts hne).qinv hR.inv hR.q

theorem run_reach (s : State) (ops : List Op) (hR : Reach s) (hwf : ∀ op ∈ ops, op.userSigned') : Reach (run s ops) := by
  induction ops generalizing s with
  | nil => exact hR
  | cons op rest ih =>
    exact ih _ (step_reach s op hR (hwf op (List.mem_cons_self ..))) (fun o ho => hwf o (List.mem_cons_of_mem _ ho))

end Sge.Core
