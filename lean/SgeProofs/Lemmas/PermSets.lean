/-
  C15 (c), (d): duplicate detection of market add (`oddsSet`, a Go map used as a set) and
  `utils.RemoveDuplicateStrs` (a Go map used as a `seen` set while the slice is traversed in order).
-/
import SgeProofs.Lemmas.PermList
import SgeProofs.Lemmas.Ovm
namespace Sge.Core
open Sge

theorem allDistinct_iff_nodup : ∀ (l : List Nat), allDistinct l = true ↔ l.Nodup
  | [] => by simp [allDistinct]
  | x :: xs => by
    unfold allDistinct
    rw [List.nodup_cons, Bool.and_eq_true, allDistinct_iff_nodup xs]
    simp

end Sge.Core

namespace Sge.Ovm
open Sge

theorem dedupAux_mem_iff : ∀ (l seen : List Pem) (x : Pem), x ∈ dedupAux seen l ↔ x ∈ l ∧ x ∉ seen
  | [], _, x => by simp [dedupAux]
  | a :: t, seen, x => by
    unfold dedupAux
    by_cases hc : seen.contains a = true
    · simp only [hc, if_true]
      rw [dedupAux_mem_iff t seen x]
      have ha : a ∈ seen := by simpa using hc
      constructor
      · rintro ⟨h1, h2⟩; exact ⟨List.mem_cons_of_mem _ h1, h2⟩
      · rintro ⟨h1, h2⟩
        rcases List.mem_cons.1 h1 with rfl | h1
        · exact absurd ha h2
        · exact ⟨h1, h2⟩
    · simp only [hc, Bool.false_eq_true, if_false, List.mem_cons]
      rw [dedupAux_mem_iff t (a :: seen) x]
      have ha : a ∉ seen := by simpa using hc
      constructor
      · rintro (rfl | ⟨h1, h2⟩)
        · exact ⟨Or.inl rfl, ha⟩
        · exact ⟨Or.inr h1, fun h => h2 (List.mem_cons_of_mem _ h)⟩
      · rintro ⟨h1 | h1, h2⟩
        · exact Or.inl h1
        · by_cases hxa : x = a
          · exact Or.inl hxa
          · refine Or.inr ⟨h1, ?_⟩
            intro h
            rcases List.mem_cons.1 h with h | h
            · exact hxa h
            · exact h2 h

/-- the set of keys is kept -/
theorem dedup_mem_iff (l : List Pem) (x : Pem) : x ∈ dedup l ↔ x ∈ l := by
  unfold dedup
  rw [dedupAux_mem_iff]
  simp

theorem dedupAux_sublist : ∀ (l seen : List Pem), (dedupAux seen l).Sublist l
  | [], _ => by simp [dedupAux]
  | a :: t, seen => by
    unfold dedupAux
    split
    · exact List.Sublist.cons _ (dedupAux_sublist t seen)
    · exact List.Sublist.cons_cons _ (dedupAux_sublist t (a :: seen))

/-- the relative order of the input is kept -/
theorem dedup_sublist (l : List Pem) : (dedup l).Sublist l := dedupAux_sublist l []

theorem dedupAux_append_singleton : ∀ (l seen : List Pem) (x : Pem),
    dedupAux seen (l ++ [x]) = if x ∈ seen ∨ x ∈ l then dedupAux seen l else dedupAux seen l ++ [x]
  | [], seen, x => by
    simp only [List.nil_append, dedupAux, List.not_mem_nil, or_false, List.contains_iff_mem]
  | a :: t, seen, x => by
    simp only [List.cons_append]
    unfold dedupAux
    by_cases hc : seen.contains a = true
    · simp only [hc, if_true]
      rw [dedupAux_append_singleton t seen x]
      have ha : a ∈ seen := by simpa using hc
      have : (x ∈ seen ∨ x ∈ a :: t) ↔ (x ∈ seen ∨ x ∈ t) := by
        simp only [List.mem_cons]
        constructor
        · rintro (h | rfl | h)
          · exact Or.inl h
          · exact Or.inl ha
          · exact Or.inr h
        · rintro (h | h)
          · exact Or.inl h
          · exact Or.inr (Or.inr h)
      simp only [this]
    · simp only [hc, Bool.false_eq_true, if_false]
      rw [dedupAux_append_singleton t (a :: seen) x]
      have : (x ∈ a :: seen ∨ x ∈ t) ↔ (x ∈ seen ∨ x ∈ a :: t) := by
        simp only [List.mem_cons]
        constructor
        · rintro ((h | h) | h)
          · exact Or.inr (Or.inl h)
          · exact Or.inl h
          · exact Or.inr (Or.inr h)
        · rintro (h | h | h)
          · exact Or.inl (Or.inr h)
          · exact Or.inl (Or.inl h)
          · exact Or.inr h
      simp only [this]
      split <;> rfl

/-- first occurrences, in order: an entry appended at the end is kept iff it did not occur before -/
theorem dedup_append_singleton (l : List Pem) (x : Pem) :
    dedup (l ++ [x]) = if x ∈ l then dedup l else dedup l ++ [x] := by
  unfold dedup
  rw [dedupAux_append_singleton]
  simp

end Sge.Ovm
