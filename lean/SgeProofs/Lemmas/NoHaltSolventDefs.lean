/-
  C05 "block processing never aborts" for whole histories: definitions.

  `Solvent` of SettleNoHalt.lean asks every unpaid participation to cover the profit it still owes to unsettled bets
  on the declared winner by `liquidity + realised profit` ALONE. That is stronger than what the order book guarantees:
  the collateral inequality (C02) covers the promised winnings by the liquidity PLUS the stakes received on the other
  outcomes, and the stakes of losing bets that are not settled yet are not part of the realised profit. `nh_Sol` is the
  weaker condition that does follow from the whole-history invariants: the stakes of the unsettled LOSING bets of a
  declared market count as cover.
-/
import SgeProofs.Lemmas.SettleNoHaltBlock
namespace Sge.Core
open Sge Sge.Genesis

/-- the market `u` has a declared result -/
def nh_declared (s : State) (u : Nat) : Bool :=
  match getMarket s u with
  | some m => m.status == MS_DECLARED
  | none => false

/-- bet `x` is unsettled, on the declared market `u`, and its outcome is not the winner: its stake will be booked as
    profit of the participations that back it -/
def nh_losesOn (s : State) (u : Nat) (x : Bet) : Bool :=
  x.isOpen && x.market == u && nh_declared s u && !wonOutcome s u x.odds

/-- the stakes participation `i` of the book of market `u` will still receive from unsettled losing bets -/
def nh_openLoss (s : State) (u i : Nat) : Int := sumBy (fun x => if nh_losesOn s u x then cBet x.fulfs i else 0) s.bets

/-- WEAK SOLVENCY: as `Solvent`, but the stakes of the unsettled losing bets of a declared market count as cover -/
structure nh_Sol (s : State) : Prop where
  betNonneg : ∀ x ∈ s.bets, x.isOpen = true → 0 ≤ x.fee ∧ ∀ f ∈ x.fulfs, 0 ≤ f.bet ∧ 0 ≤ f.profit
  partCover : ∀ b ∈ s.books, ∀ p ∈ b.parts, p.isSettled = false →
    0 ≤ p.fee ∧ promisedW s b.uid p.idx ≤ p.liq + p.actualProfit + nh_openLoss s b.uid p.idx

/-- `Solvent` implies the weak form -/
theorem nh_sol_of_solvent {s : State} (hV : Solvent s) : nh_Sol s := by
  refine ⟨hV.betNonneg, ?_⟩
  intro b hb p hp hun
  obtain ⟨c1, c2⟩ := hV.partCover b hb p hp hun
  refine ⟨c1, ?_⟩
  have : 0 ≤ nh_openLoss s b.uid p.idx := by
    unfold nh_openLoss
    apply sumBy_nonnegSB
    intro x hx
    split
    · rename_i hl
      unfold nh_losesOn at hl
      simp only [Bool.and_eq_true] at hl
      exact cBet_nonneg _ _ (fun f hf => ((hV.betNonneg x hx hl.1.1.1).2 f hf).1)
    · exact Int.le_refl _
  omega

end Sge.Core
