/-
  L1 lemmas of the reward slice: keyed lists (`getBy` / `setBy`), the booked sum, counters, the bank contract.
-/
import Sge.Reward
import SgeProofs.Lemmas.Dec
namespace Sge.Reward
open Sge

/-! ### keyed lists -/

theorem getBy_key {α : Type} (key : α → Nat) (xs : List α) (k : Nat) (x : α)
    (h : getBy key xs k = some x) : key x = k := by
  induction xs with
  | nil => simp [getBy] at h
  | cons y ys ih =>
    unfold getBy at h
    split at h
    · cases h; assumption
    · exact ih h

theorem getBy_mem {α : Type} (key : α → Nat) (xs : List α) (k : Nat) (x : α)
    (h : getBy key xs k = some x) : x ∈ xs := by
  induction xs with
  | nil => simp [getBy] at h
  | cons y ys ih =>
    unfold getBy at h
    split at h
    · cases h; exact List.mem_cons_self
    · exact List.mem_cons_of_mem _ (ih h)

theorem getBy_none {α : Type} (key : α → Nat) (xs : List α) (k : Nat)
    (h : getBy key xs k = none) : ∀ x ∈ xs, key x ≠ k := by
  induction xs with
  | nil => intro x hx; cases hx
  | cons y ys ih =>
    unfold getBy at h
    split at h
    · cases h
    · intro x hx
      cases hx with
      | head => assumption
      | tail _ hm => exact ih h x hm

theorem getBy_setBy {α : Type} (key : α → Nat) (xs : List α) (v : α) (k : Nat) :
    getBy key (setBy key xs v) k = if k = key v then some v else getBy key xs k := by
  induction xs with
  | nil =>
    simp only [setBy, getBy]
    split <;> rename_i h
    · rw [if_pos h.symm]
    · rw [if_neg (fun h' => h h'.symm)]
  | cons y ys ih =>
    unfold setBy
    split <;> rename_i hy
    · -- replaced the head
      unfold getBy
      by_cases hk : k = key v
      · simp [hk]
      · have : ¬ key v = k := fun h' => hk h'.symm
        have : ¬ key y = k := by rw [hy]; exact this
        simp [*]
    · unfold getBy
      by_cases hyk : key y = k
      · have : ¬ k = key v := by rw [← hyk]; exact hy
        simp [hyk, this]
      · simp only [hyk, if_false]
        exact ih

theorem mem_setBy {α : Type} (key : α → Nat) (xs : List α) (v x : α)
    (h : x ∈ setBy key xs v) : x = v ∨ x ∈ xs := by
  induction xs with
  | nil => simp [setBy] at h; exact Or.inl h
  | cons y ys ih =>
    unfold setBy at h
    split at h
    · cases h with
      | head => exact Or.inl rfl
      | tail _ hm => exact Or.inr (List.mem_cons_of_mem _ hm)
    · cases h with
      | head => exact Or.inr List.mem_cons_self
      | tail _ hm =>
        cases ih hm with
        | inl e => exact Or.inl e
        | inr m => exact Or.inr (List.mem_cons_of_mem _ m)

/-! ### booked sum -/

/-- updating one campaign changes the booked sum by the difference of its available amounts -/
theorem booked_setC (cs : List Campaign) (c : Campaign) :
    booked (setC cs c) = booked cs - (match getC cs c.uid with | some o => o.pool.avail | none => 0) + c.pool.avail := by
  unfold setC getC
  induction cs with
  | nil => simp [setBy, getBy, booked]
  | cons y ys ih =>
    unfold setBy getBy
    by_cases hy : y.uid = c.uid
    · simp only [hy, if_true, booked]; omega
    · simp only [hy, if_false, booked]
      rw [ih]
      omega

theorem booked_setC_some (cs : List Campaign) (c o : Campaign) (h : getC cs c.uid = some o) :
    booked (setC cs c) = booked cs - o.pool.avail + c.pool.avail := by
  rw [booked_setC, h]

theorem booked_setC_same (cs : List Campaign) (c c' : Campaign) (h : getC cs c.uid = some c) (hu : c'.uid = c.uid) :
    booked (setC cs c') = booked cs - c.pool.avail + c'.pool.avail := by
  rw [booked_setC, hu, h]

theorem booked_setC_none (cs : List Campaign) (c : Campaign) (h : getC cs c.uid = none) :
    booked (setC cs c) = booked cs + c.pool.avail := by
  rw [booked_setC, h]; simp only; omega

theorem getC_setC (cs : List Campaign) (c : Campaign) (k : Nat) :
    getC (setC cs c) k = if k = c.uid then some c else getC cs k := by
  unfold getC setC; exact getBy_setBy _ _ _ _

theorem mem_setC (cs : List Campaign) (c x : Campaign) (h : x ∈ setC cs c) : x = c ∨ x ∈ cs := by
  unfold setC at h; exact mem_setBy _ _ _ _ h

theorem getC_uid (cs : List Campaign) (k : Nat) (c : Campaign) (h : getC cs k = some c) : c.uid = k := by
  unfold getC at h; exact getBy_key _ _ _ _ h

theorem getC_mem (cs : List Campaign) (k : Nat) (c : Campaign) (h : getC cs k = some c) : c ∈ cs := by
  unfold getC at h; exact getBy_mem _ _ _ _ h

/-! ### counters -/

theorem getStat_setStat (xs : List Stat) (c a n c' a' : Nat) :
    getStat (setStat xs c a n) c' a' = if c' = c ∧ a' = a then n else getStat xs c' a' := by
  induction xs with
  | nil =>
    simp only [setStat, getStat]
    by_cases h : c' = c ∧ a' = a
    · obtain ⟨h1, h2⟩ := h; subst h1; subst h2; simp
    · have : ¬ (c = c' ∧ a = a') := fun ⟨h1, h2⟩ => h ⟨h1.symm, h2.symm⟩
      simp [h, this]
  | cons y ys ih =>
    unfold setStat
    split <;> rename_i hy
    · obtain ⟨h1, h2⟩ := hy
      unfold getStat
      by_cases h : c' = c ∧ a' = a
      · obtain ⟨e1, e2⟩ := h; subst e1; subst e2; simp
      · have h3 : ¬ (c = c' ∧ a = a') := fun ⟨e1, e2⟩ => h ⟨e1.symm, e2.symm⟩
        have h4 : ¬ (y.campaign = c' ∧ y.addr = a') := by rw [h1, h2]; exact h3
        simp [h, h3, h4]
    · unfold getStat
      by_cases hy' : y.campaign = c' ∧ y.addr = a'
      · have : ¬ (c' = c ∧ a' = a) := by
          intro ⟨e1, e2⟩; apply hy; rw [← e1, ← e2]; exact hy'
        simp [hy', this]
      · simp only [hy', if_false]
        exact ih

theorem countR_append (rs : List Reward) (r : Reward) (c a : Nat) :
    countR (rs ++ [r]) c a = countR rs c a + (if r.campaign = c ∧ r.receiver = a then 1 else 0) := by
  unfold countR
  rw [List.filter_append, List.length_append]
  congr 1
  by_cases h : r.campaign = c ∧ r.receiver = a
  · simp [List.filter, h]
  · simp [List.filter, h]

theorem countCat_append (xs : List CatIdx) (x : CatIdx) (p a cat : Nat) :
    countCat (xs ++ [x]) p a cat = countCat xs p a cat + (if x.promoter = p ∧ x.addr = a ∧ x.category = cat then 1 else 0) := by
  unfold countCat
  rw [List.filter_append, List.length_append]
  congr 1
  by_cases h : x.promoter = p ∧ x.addr = a ∧ x.category = cat
  · simp [List.filter, h]
  · simp [List.filter, h]

/-! ### bank -/

theorem send_ok {b b' : Bank} {frm to : Nat} {amt : Int} (h : send b frm to amt = .ok b') :
    0 ≤ amt ∧ amt ≤ b frm ∧ b' = (b.upd frm (b frm - amt)).upd to ((b.upd frm (b frm - amt)) to + amt) := by
  unfold send at h
  split at h
  · cases h
  · split at h
    · cases h
    · simp only [Except.ok.injEq] at h
      exact ⟨by omega, by omega, h.symm⟩

/-- coins sent into the pool from another account -/
theorem send_to_pool {b b' : Bank} {frm : Nat} {amt : Int} (h : send b frm POOL amt = .ok b') (hf : frm ≠ POOL) :
    b' POOL = b POOL + amt := by
  obtain ⟨_, _, rfl⟩ := send_ok h
  simp [Bank.upd, hf.symm]

/-- coins sent out of the pool to another account -/
theorem send_from_pool {b b' : Bank} {to : Nat} {amt : Int} (h : send b POOL to amt = .ok b') (ht : to ≠ POOL) :
    b' POOL = b POOL - amt := by
  obtain ⟨_, _, rfl⟩ := send_ok h
  simp [Bank.upd, ht.symm]

/-- a transfer between two other accounts does not touch the pool -/
theorem send_other {b b' : Bank} {frm to : Nat} {amt : Int} (h : send b frm to amt = .ok b')
    (hf : frm ≠ POOL) (ht : to ≠ POOL) : b' POOL = b POOL := by
  obtain ⟨_, _, rfl⟩ := send_ok h
  simp [Bank.upd, hf.symm, ht.symm]

end Sge.Reward
