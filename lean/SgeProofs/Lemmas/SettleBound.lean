/-
  C05 bounded progress, part 6: tracking a set `T` of resolved markets through the settlement pipeline
  (market queue → order-book queue → completely settled) and the block potential that drops by one with every
  successful end-block and is never raised by a message.
-/
import SgeProofs.Lemmas.SettleBoundReach
import SgeProofs.Lemmas.CoreParams
namespace Sge.Core
open Sge Sge.Genesis

/-- the book of market `u` is completely settled: status SETTLED and every participation paid -/
def Done (s : State) (u : Nat) : Prop := statusOf s u = some OB_SETTLED ∧ unpaidOf s u = 0

/-- The tracked markets `T` sit at the FRONT of the pipeline: the market queue is `A ++ B` and the order-book queue
    `OA ++ OB` with `A`, `OA` tracked and `B`, `OB` not; untracked books can only be in the order-book queue once no
    tracked market is left in the market queue (both queues are FIFO and feed one another in order); and every
    tracked market is in `A`, in `OA`, or completely settled. -/
structure Track (s : State) (T A B OA OB : List Nat) : Prop where
  mq : s.mqueue = A ++ B
  oq : s.obqueue = OA ++ OB
  aT : ∀ a ∈ A, a ∈ T
  bT : ∀ b ∈ B, b ∉ T
  oaT : ∀ a ∈ OA, a ∈ T
  obT : ∀ b ∈ OB, b ∉ T
  fifo : A ≠ [] → OB = []
  all : ∀ u ∈ T, u ∈ A ∨ u ∈ OA ∨ Done s u

/-- the number of successful end-blocks after which the tracked markets are guaranteed to be completely settled,
    for batch sizes at least `N` (bets) and `M` (participations):
      ⌊pending bets of A / N⌋ + ⌊unpaid participations of OA and A / M⌋ + 1
    while tracked markets wait for bet settlement, ⌊unpaid participations of OA / M⌋ + 1 while only tracked books
    wait, and 0 when nothing tracked is queued -/
def blocks (N M : Nat) (s : State) (A OA : List Nat) : Nat :=
  if A ≠ [] then wsum (pendCount s) A / N + 1 + wsum (unpaidOf s) (OA ++ A) / M
  else if OA ≠ [] then wsum (unpaidOf s) OA / M + 1
  else 0

theorem statusOf_some {s : State} {u st : Nat} (h : statusOf s u = some st) : ∃ b, getBook s u = some b ∧ b.status = st := by
  unfold statusOf at h
  cases hb : getBook s u with
  | none => rw [hb] at h; cases h
  | some b => rw [hb] at h; exact ⟨b, rfl, by simpa using h⟩

/-- the market of a book that left the ACTIVE state is resolved -/
theorem resolved_of_status {s : State} (hS : SettleInv s) {u st : Nat} (h : statusOf s u = some st) (hst : st ≠ OB_ACTIVE) :
    ∃ m, getMarket s u = some m ∧ m.resolved := by
  obtain ⟨b, hb, e⟩ := statusOf_some h
  obtain ⟨hbm, hbu⟩ := getBook_mem hb
  have := hS.closedResolved b hbm (by rw [e]; exact hst)
  rw [hbu] at this
  exact this

/-- every tracked market is resolved -/
theorem Track.resolved {s : State} {T A B OA OB : List Nat} (hR : Reach s) (hT : Track s T A B OA OB) :
    ∀ u ∈ T, ∃ m, getMarket s u = some m ∧ m.resolved := by
  intro u hu
  rcases hT.all u hu with h | h | h
  · exact hR.inv.queueResolved u (by rw [hT.mq]; exact List.mem_append_left _ h)
  · exact resolved_of_status hR.inv (hR.q.oResolved u (by rw [hT.oq]; exact List.mem_append_left _ h)) (by decide)
  · exact resolved_of_status hR.inv h.1 (by decide)

/-- a book that left the ACTIVE state has no pending bet (K3 + the pending index lists only unsettled bets) -/
theorem pendCount_zero_of_status {s : State} (hI : BetIdx s) (hS : SettleInv s) {u st : Nat} (h : statusOf s u = some st)
    (hst : st ≠ OB_ACTIVE) : pendCount s u = 0 := by
  obtain ⟨b, hb, e⟩ := statusOf_some h
  obtain ⟨hbm, hbu⟩ := getBook_mem hb
  unfold pendCount
  rw [List.length_eq_zero_iff, List.filter_eq_nil_iff]
  intro x hx hxu
  obtain ⟨bet, hbet, hns, rfl⟩ := hI.ofPend x hx
  have hm : bet.market = b.uid := by rw [hbu]; simpa using hxu
  have := hS.closedNoOpen b hbm (by rw [e]; exact hst) bet hbet hm
  unfold Bet.isOpen at this
  simp at this
  exact hns this

-- ---------------------------------------------------------------------------------------------
-- messages

/-- a message keeps the tracked markets where they are (it can only append an untracked market to the market queue)
    and does not change the block potential -/
theorem Track.msg {s s' : State} {T A B OA OB : List Nat} (N M : Nat) (hR : Reach s) (hT : Track s T A B OA OB)
    (hF : MsgFrame s s') : ∃ B', Track s' T A B' OA OB ∧ blocks N M s' A OA = blocks N M s A OA := by
  have hres := hT.resolved hR
  have hB' : ∃ B', s'.mqueue = A ++ B' ∧ ∀ b ∈ B', b ∉ T := by
    rcases hF.mq with e | ⟨u, m, e, hm, ho⟩
    · exact ⟨B, by rw [e, hT.mq], hT.bT⟩
    · refine ⟨B ++ [u], by rw [e, hT.mq, List.append_assoc], ?_⟩
      intro b hb hbT
      rcases List.mem_append.mp hb with hb | hb
      · exact hT.bT b hb hbT
      · have : b = u := List.mem_singleton.mp hb
        subst this
        obtain ⟨m', hm', hr⟩ := hres b hbT
        rw [hm] at hm'; cases hm'
        exact open_not_resolved ho hr
  obtain ⟨B', hmq, hbT⟩ := hB'
  refine ⟨B', ⟨hmq, by rw [hF.obq]; exact hT.oq, hT.aT, hbT, hT.oaT, hT.obT, hT.fifo, ?_⟩, ?_⟩
  · intro u hu
    rcases hT.all u hu with h | h | h
    · exact Or.inl h
    · exact Or.inr (Or.inl h)
    · right; right
      obtain ⟨m, hm, hr⟩ := hres u hu
      exact ⟨by rw [hF.status u (by rw [h.1]; exact fun e => nomatch e)]; exact h.1, by rw [hF.unpaid u m hm hr]; exact h.2⟩
  · have hp : wsum (pendCount s') A = wsum (pendCount s) A := by
      apply wsum_congr
      intro v hv
      obtain ⟨m, hm, hr⟩ := hres v (hT.aT v hv)
      exact hF.pend v m hm hr
    have hu1 : wsum (unpaidOf s') (OA ++ A) = wsum (unpaidOf s) (OA ++ A) := by
      apply wsum_congr
      intro v hv
      have hvT : v ∈ T := by
        rcases List.mem_append.mp hv with h | h
        · exact hT.oaT v h
        · exact hT.aT v h
      obtain ⟨m, hm, hr⟩ := hres v hvT
      exact hF.unpaid v m hm hr
    have hu2 : wsum (unpaidOf s') OA = wsum (unpaidOf s) OA := by
      apply wsum_congr
      intro v hv
      obtain ⟨m, hm, hr⟩ := hres v (hT.oaT v hv)
      exact hF.unpaid v m hm hr
    unfold blocks
    rw [hp, hu1, hu2]

-- ---------------------------------------------------------------------------------------------
-- one successful end-block

theorem div_drop {W W' N : Nat} (hN : 0 < N) (hW : N ≤ W) (h : W' ≤ W - N) : W' / N + 1 ≤ W / N := by
  have h1 : W / N = (W - N) / N + 1 := Nat.div_eq_sub_div hN hW
  have h2 : W' / N ≤ (W - N) / N := Nat.div_le_div_right h
  omega

/-- C05: one successful end-block lowers the block potential of the tracked markets by at least one (it stays 0 once
    it is 0), and keeps them at the front of the pipeline -/
theorem Track.endBlock {s s' : State} {T A B OA OB : List Nat} {N M : Nat} (hR : Reach s) (hT : Track s T A B OA OB)
    (h : endBlockO s = some s') (hN : 0 < N) (hNb : N ≤ s.params.betBatch) (hM : 0 < M) (hMb : M ≤ s.params.obBatch) :
    ∃ A' B' OA' OB', Track s' T A' B' OA' OB' ∧ blocks N M s' A' OA' ≤ blocks N M s A OA - 1 := by
  obtain ⟨s1, D1, D2, hP⟩ := endBlockO_phases hR.idx hR.inv hR.q h
  -- bet phase on the prefix A
  obtain ⟨DA, A', DB, B', hA, hB, hD1, hmq1, hfifo1, hW1, hdr1⟩ := hP.bet.prefix hR.q.nodupM A B hT.mq
  -- the order-book queue after the bet phase, tracked part first
  have hOBDA : OB = [] ∨ DA = [] := by
    by_cases e : A = []
    · right
      rw [e] at hA
      have := congrArg List.length hA
      simp at this
      exact List.eq_nil_of_length_eq_zero (by omega)
    · exact Or.inl (hT.fifo e)
  have hoq1 : s1.obqueue = (OA ++ DA) ++ (OB ++ DB) := by
    rw [hP.obq1, hT.oq, hD1]
    rcases hOBDA with e | e <;> simp [e]
  have hDAT : ∀ a ∈ DA, a ∈ T := fun a ha => hT.aT a (by rw [hA]; exact List.mem_append_left _ ha)
  have hA'T : ∀ a ∈ A', a ∈ T := fun a ha => hT.aT a (by rw [hA]; exact List.mem_append_right _ ha)
  have hDBT : ∀ b ∈ DB, b ∉ T := fun b hb => hT.bT b (by rw [hB]; exact List.mem_append_left _ hb)
  have hB'T : ∀ b ∈ B', b ∉ T := fun b hb => hT.bT b (by rw [hB]; exact List.mem_append_right _ hb)
  -- order-book phase on the prefix OA ++ DA
  obtain ⟨DA2, OA', DB2, OB', hOA, hOB, hD2, hoq2, hfifo2, hP2, hdr2⟩ :=
    hP.ob.prefix hP.q1.nodupO (OA ++ DA) (OB ++ DB) hoq1
  have hOA1T : ∀ a ∈ OA ++ DA, a ∈ T := by
    intro a ha
    rcases List.mem_append.mp ha with h | h
    · exact hT.oaT a h
    · exact hDAT a h
  have hOB1T : ∀ b ∈ OB ++ DB, b ∉ T := by
    intro b hb
    rcases List.mem_append.mp hb with h | h
    · exact hT.obT b h
    · exact hDBT b h
  have hOA'T : ∀ a ∈ OA', a ∈ T := fun a ha => hOA1T a (by rw [hOA]; exact List.mem_append_right _ ha)
  have hOB'T : ∀ b ∈ OB', b ∉ T := fun b hb => hOB1T b (by rw [hOB]; exact List.mem_append_right _ hb)
  -- a completely settled book stays so
  have hdone1 : ∀ u, Done s u → Done s1 u := by
    intro u hd
    have hnD : u ∉ D1 := by
      intro hin
      have := (hP.books1.resolved u hin).1
      rw [hd.1] at this; cases this
    exact ⟨by rw [hP.books1.status u hnD]; exact hd.1, by rw [hP.books1.unpaid u]; exact hd.2⟩
  have hdone2 : ∀ u, Done s1 u → Done s' u := by
    intro u hd
    have hnD : u ∉ D2 := by
      intro hin
      have := (hP.books2.settled u hin).1
      rw [hd.1] at this; cases this
    refine ⟨by rw [hP.books2.status u hnD]; exact hd.1, ?_⟩
    have := hP.books2.mono u
    rw [hd.2] at this
    omega
  have hTr : Track s' T A' B' OA' OB' := by
    refine ⟨by rw [hP.mq2, hmq1], hoq2, hA'T, hB'T, hOA'T, hOB'T, ?_, ?_⟩
    · intro hne
      have hAne : A ≠ [] := by
        intro e
        rw [e] at hA
        have := congrArg List.length hA
        simp at this
        exact hne (List.eq_nil_of_length_eq_zero (by omega))
      have e1 : OB = [] := hT.fifo hAne
      have e2 : DB = [] := hfifo1 hne
      rw [e1, e2] at hOB
      have := congrArg List.length hOB
      simp at this
      exact List.eq_nil_of_length_eq_zero (by omega)
    · intro u hu
      have hmem : ∀ v, v ∈ OA ++ DA → v ∈ OA' ∨ Done s' v := by
        intro v hv
        rw [hOA] at hv
        rcases List.mem_append.mp hv with h | h
        · right
          have hin : v ∈ D2 := by rw [hD2]; exact List.mem_append_left _ h
          obtain ⟨_, c2, c3⟩ := hP.books2.settled v hin
          exact ⟨c2, c3⟩
        · exact Or.inl h
      rcases hT.all u hu with h | h | h
      · rw [hA] at h
        rcases List.mem_append.mp h with h | h
        · rcases hmem u (List.mem_append_right _ h) with h | h
          · exact Or.inr (Or.inl h)
          · exact Or.inr (Or.inr h)
        · exact Or.inl h
      · rcases hmem u (List.mem_append_left _ h) with h | h
        · exact Or.inr (Or.inl h)
        · exact Or.inr (Or.inr h)
      · exact Or.inr (Or.inr (hdone2 u (hdone1 u h)))
  refine ⟨A', B', OA', OB', hTr, ?_⟩
  -- the arithmetic
  have hpend : wsum (pendCount s') A' = wsum (pendCount s1) A' := by
    apply wsum_congr
    intro v _
    unfold pendCount
    rw [hP.pend2]
  have hun1 : ∀ l, wsum (unpaidOf s1) l = wsum (unpaidOf s) l := fun l => wsum_congr (fun v _ => hP.books1.unpaid v)
  have hunle : ∀ l, wsum (unpaidOf s') l ≤ wsum (unpaidOf s1) l := fun l => wsum_le_of_le (fun v _ => hP.books2.mono v)
  have hPtot : wsum (unpaidOf s) (OA ++ A) = wsum (unpaidOf s) (OA ++ DA) + wsum (unpaidOf s) A' := by
    rw [hA]; simp only [wsum_append]; omega
  have hNb' : N ≤ s.params.betBatch := hNb
  have hMb' : M ≤ s.params.obBatch := hMb
  rw [hun1] at hP2 hdr2
  -- the tracked work after the block
  have hP' : wsum (unpaidOf s') (OA' ++ A') ≤ wsum (unpaidOf s) (OA ++ A) := by
    rw [wsum_append, hPtot]
    have := hunle A'
    rw [hun1] at this
    omega
  unfold blocks
  by_cases hA'e : A' = []
  · -- no tracked market is left in the market queue
    subst hA'e
    simp only [ne_eq, not_true_eq_false, if_false]
    have hPall : wsum (unpaidOf s) (OA ++ A) = wsum (unpaidOf s) (OA ++ DA) := by
      rw [hPtot, wsum_nil]; omega
    by_cases hOA'e : OA' = []
    · subst hOA'e
      simp
    · simp only [ne_eq, hOA'e, not_false_eq_true, if_true]
      have hge : s.params.obBatch ≤ wsum (unpaidOf s) (OA ++ DA) := by
        by_cases hlt : wsum (unpaidOf s) (OA ++ DA) < s.params.obBatch
        · exact absurd (hdr2 hlt) hOA'e
        · omega
      have hdiv : wsum (unpaidOf s') OA' / M + 1 ≤ wsum (unpaidOf s) (OA ++ DA) / M :=
        div_drop hM (by omega) (by rw [hP2, Nat.min_eq_left hge]; omega)
      by_cases hAe : A = []
      · subst hAe
        have hDAe : DA = [] := by
          have := congrArg List.length hA
          simp at this
          exact List.eq_nil_of_length_eq_zero (by omega)
        subst hDAe
        have hOAne : OA ≠ [] := by
          intro e
          subst e
          have := congrArg List.length hOA
          simp at this
          exact hOA'e (List.eq_nil_of_length_eq_zero (by omega))
        simp only [ne_eq, not_true_eq_false, if_false, hOAne, not_false_eq_true, if_true]
        simp only [List.append_nil] at hdiv
        omega
      · simp only [ne_eq, hAe, not_false_eq_true, if_true]
        rw [hPall]
        have : ∀ a b c : Nat, c + 1 ≤ b → c + 1 ≤ a + 1 + b - 1 := by omega
        exact this _ _ _ hdiv
  · -- tracked markets are still waiting for bet settlement: the bet budget was used up on them
    have hAe : A ≠ [] := by
      intro e
      subst e
      have := congrArg List.length hA
      simp at this
      exact hA'e (List.eq_nil_of_length_eq_zero (by omega))
    simp only [ne_eq, hA'e, not_false_eq_true, if_true, hAe]
    have hge : s.params.betBatch ≤ wsum (pendCount s) A := by
      by_cases hlt : wsum (pendCount s) A < s.params.betBatch
      · exact absurd (hdr1 hlt) hA'e
      · omega
    have hdiv : wsum (pendCount s') A' / N + 1 ≤ wsum (pendCount s) A / N :=
      div_drop hN (by omega) (by rw [hpend, hW1, Nat.min_eq_left hge]; omega)
    have hdivP : wsum (unpaidOf s') (OA' ++ A') / M ≤ wsum (unpaidOf s) (OA ++ A) / M := Nat.div_le_div_right hP'
    omega

-- ---------------------------------------------------------------------------------------------
-- histories

/-- is the operation an end-block? -/
def Op.isEnd : Op → Bool
  | .endBlock => true
  | _ => false

/-- number of end-blocks of a history -/
def endBlocks (ops : List Op) : Nat := ops.countP Op.isEnd

/-- no end-block of the history halts -/
def noHalt : State → List Op → Bool
  | _, [] => true
  | s, op :: rest => (step s op).2 != .halt && noHalt (step s op).1 rest

/-- every parameter update of the history keeps the batch sizes at least `N` (bets) and `M` (participations) -/
def batchAtLeast (N M : Nat) : List Op → Bool
  | [] => true
  | .setParams p :: rest => decide (N ≤ p.betBatch) && decide (M ≤ p.obBatch) && batchAtLeast N M rest
  | _ :: rest => batchAtLeast N M rest

/-- every message of the history is signed by a user account (Boolean form of `Op.userSigned'`) -/
def signedOk : List Op → Bool
  | [] => true
  | .marketAdd c _ _ _ _ _ _ :: rest => !isModuleAcc c && signedOk rest
  | .deposit c _ _ _ pd :: rest => !isModuleAcc (depositFor c pd) && signedOk rest
  | .wager c _ _ _ _ :: rest => !isModuleAcc c && signedOk rest
  | _ :: rest => signedOk rest

theorem signedOk_spec : ∀ (ops : List Op), signedOk ops = true → ∀ op ∈ ops, op.userSigned' := by
  intro ops
  induction ops with
  | nil => intro _ op hop; cases hop
  | cons o rest ih =>
    intro h op hop
    cases o <;> simp only [signedOk, Bool.and_eq_true, Bool.not_eq_true'] at h <;>
      rcases List.mem_cons.mp hop with rfl | hop <;>
      first
        | exact ih h.2 op hop
        | exact ih h op hop
        | exact h.1
        | trivial

theorem signedOk_of {ops : List Op} (h : ∀ op ∈ ops, op.userSigned') : signedOk ops = true := by
  induction ops with
  | nil => rfl
  | cons o rest ih =>
    have h1 := h o (List.mem_cons_self ..)
    have h2 := ih (fun op hop => h op (List.mem_cons_of_mem _ hop))
    cases o <;> simp only [signedOk, Bool.and_eq_true, Bool.not_eq_true'] <;>
      first
        | exact ⟨h1, h2⟩
        | exact h2

theorem blocks_zero {N M : Nat} {s : State} {A OA : List Nat} (h : blocks N M s A OA = 0) : A = [] ∧ OA = [] := by
  unfold blocks at h
  by_cases hA : A = []
  · refine ⟨hA, ?_⟩
    by_cases hO : OA = []
    · exact hO
    · simp [hA, hO] at h
  · simp [hA] at h

/-- C05, the induction over a history: through any operations signed by user accounts in which no end-block halts and
    the batch sizes stay at least `N`, `M`, the tracked markets stay at the front of the pipeline and the block
    potential drops by at least the number of end-blocks -/
theorem Track.run {T : List Nat} {N M : Nat} (hN : 0 < N) (hM : 0 < M) : ∀ (ops : List Op) (s : State) (A B OA OB : List Nat),
    Reach s → Track s T A B OA OB → signedOk ops = true → noHalt s ops = true → batchAtLeast N M ops = true →
    N ≤ s.params.betBatch → M ≤ s.params.obBatch →
    ∃ A' B' OA' OB', Track (Core.run s ops) T A' B' OA' OB' ∧
      blocks N M (Core.run s ops) A' OA' ≤ blocks N M s A OA - endBlocks ops := by
  intro ops
  induction ops with
  | nil =>
    intro s A B OA OB _ hT _ _ _ _ _
    exact ⟨A, B, OA, OB, hT, by show blocks N M s A OA ≤ blocks N M s A OA - endBlocks []; simp [endBlocks]⟩
  | cons op rest ih =>
    intro s A B OA OB hR hT hwf hnh hba hNb hMb
    have hwf1 : op.userSigned' := signedOk_spec _ hwf op (List.mem_cons_self ..)
    have hwf2 : signedOk rest = true := signedOk_of (fun o ho => signedOk_spec _ hwf o (List.mem_cons_of_mem _ ho))
    have hR' := step_reach s op hR hwf1
    simp only [noHalt, Bool.and_eq_true, bne_iff_ne, ne_eq] at hnh
    -- the batch sizes after the operation
    have hpar : N ≤ (step s op).1.params.betBatch ∧ M ≤ (step s op).1.params.obBatch ∧ batchAtLeast N M rest = true := by
      rcases step_params s op with e | ⟨p, rfl, _, e⟩
      · rw [e]
        refine ⟨hNb, hMb, ?_⟩
        cases op <;> first | exact hba | (simp only [batchAtLeast, Bool.and_eq_true] at hba; exact hba.2)
      · rw [e]
        simp only [batchAtLeast, Bool.and_eq_true, decide_eq_true_eq] at hba
        exact ⟨hba.1.1, hba.1.2, hba.2⟩
    show ∃ A' B' OA' OB', Track (Core.run (step s op).1 rest) T A' B' OA' OB' ∧
      blocks N M (Core.run (step s op).1 rest) A' OA' ≤ _
    by_cases hend : op = .endBlock
    · subst hend
      have hstep : ∀ s', endBlockO s = some s' → step s .endBlock = (s', .ok) := by
        intro s' he
        show Core.endBlock s = _
        unfold Core.endBlock
        rw [he]
      cases he : endBlockO s with
      | none =>
        have : (step s .endBlock).2 = .halt := by
          show (Core.endBlock s).2 = _
          unfold Core.endBlock
          rw [he]
        exact absurd this hnh.1
      | some s' =>
        rw [hstep s' he] at hnh hpar hR' ⊢
        obtain ⟨A1, B1, OA1, OB1, hT1, hb1⟩ := Track.endBlock hR hT he hN hNb hM hMb
        obtain ⟨A2, B2, OA2, OB2, hT2, hb2⟩ := ih s' A1 B1 OA1 OB1 hR' hT1 hwf2 hnh.2 hpar.2.2 hpar.1 hpar.2.1
        refine ⟨A2, B2, OA2, OB2, hT2, ?_⟩
        have : endBlocks (Op.endBlock :: rest) = endBlocks rest + 1 := by
          unfold endBlocks
          rw [List.countP_cons]
          rfl
        rw [this]
        show blocks N M (Core.run s' rest) A2 OA2 ≤ _
        omega
    · have hF := step_msgFrame s op hR.inv.sortedParts hend
      obtain ⟨B1, hT1, hb1⟩ := Track.msg N M hR hT hF
      obtain ⟨A2, B2, OA2, OB2, hT2, hb2⟩ := ih (step s op).1 A B1 OA OB hR' hT1 hwf2 hnh.2 hpar.2.2 hpar.1 hpar.2.1
      refine ⟨A2, B2, OA2, OB2, hT2, ?_⟩
      have : endBlocks (op :: rest) = endBlocks rest := by
        unfold endBlocks
        rw [List.countP_cons]
        have : op.isEnd = false := by cases op <;> first | rfl | exact absurd rfl hend
        simp [this]
      rw [this, ← hb1]
      exact hb2

-- ---------------------------------------------------------------------------------------------
-- what "completely settled" means on the stores

/-- Market `u` is completely settled: its book is marked SETTLED and every participation is paid, every bet on it is
    settled, the pending index lists no bet of it, and it waits in neither work queue. -/
def FullySettled (s : State) (u : Nat) : Prop :=
  (∃ b, getBook s u = some b ∧ b.status = OB_SETTLED ∧ ∀ p ∈ b.parts, p.isSettled = true) ∧
  (∀ x ∈ s.bets, x.market = u → x.status = BS_SETTLED) ∧
  (∀ x ∈ s.pending, x.1 ≠ u) ∧ u ∉ s.mqueue ∧ u ∉ s.obqueue

theorem Done.fully {s : State} {u : Nat} (hR : Reach s) (hd : Done s u) : FullySettled s u := by
  obtain ⟨b, hb, hst⟩ := statusOf_some hd.1
  obtain ⟨hbm, hbu⟩ := getBook_mem hb
  have hna : b.status ≠ OB_ACTIVE := by rw [hst]; decide
  refine ⟨⟨b, hb, hst, ?_⟩, ?_, ?_, ?_, ?_⟩
  · have h0 := hd.2
    unfold unpaidOf at h0
    rw [hb] at h0
    unfold Book.unpaid at h0
    rw [List.countP_eq_zero] at h0
    intro p hp
    have := h0 p hp
    simpa using this
  · intro x hx hm
    have := hR.inv.closedNoOpen b hbm hna x hx (by rw [hm, hbu])
    unfold Bet.isOpen at this
    simpa using this
  · intro x hx hxu
    have h0 := pendCount_zero_of_status hR.idx hR.inv hd.1 (by decide)
    unfold pendCount at h0
    rw [List.length_eq_zero_iff, List.filter_eq_nil_iff] at h0
    exact h0 x hx (by simpa using hxu)
  · intro hin
    have := hR.q.mActive u hin
    rw [hd.1] at this; cases this
  · intro hin
    have := hR.q.oResolved u hin
    rw [hd.1] at this; cases this

/-- everything that is queued in state `s`, up to position `k` of the market queue, as a tracked set -/
theorem track_init {s : State} (hR : Reach s) (k : Nat) :
    Track s (s.obqueue ++ s.mqueue.take k) (s.mqueue.take k) (s.mqueue.drop k) s.obqueue [] := by
  refine ⟨(List.take_append_drop k s.mqueue).symm, by simp, fun a ha => List.mem_append_right _ ha, ?_,
    fun a ha => List.mem_append_left _ ha, (fun _ hb => nomatch hb), fun _ => rfl, ?_⟩
  · intro b hb hbT
    rcases List.mem_append.mp hbT with h | h
    · have h1 := hR.q.oResolved b h
      have h2 := hR.q.mActive b (List.mem_of_mem_drop hb)
      rw [h1] at h2; cases h2
    · have hnd := hR.q.nodupM
      rw [← List.take_append_drop k s.mqueue] at hnd
      exact (List.nodup_append.mp hnd).2.2 b h b hb rfl
  · intro u hu
    rcases List.mem_append.mp hu with h | h
    · exact Or.inr (Or.inl h)
    · exact Or.inl h

-- ---------------------------------------------------------------------------------------------
-- the explicit bounds

/-- The explicit bound, in successful end-blocks, for the order-book queue and the first `k` markets of the market
    queue of `s`, for batch sizes at least `N` (bets per block) and `M` (participations per block):
        ⌊W/N⌋ + ⌊P/M⌋ + 1,   W = pending bets of the k markets,
                              P = unpaid participations of the queued books + of the books of the k markets
    (⌊P/M⌋ + 1 when k = 0 or the market queue is empty; 0 when nothing is queued at all). -/
def settleBound (N M : Nat) (s : State) (k : Nat) : Nat :=
  if s.mqueue.take k ≠ [] then
    wsum (pendCount s) (s.mqueue.take k) / N + (partWork s + wsum (unpaidOf s) (s.mqueue.take k)) / M + 1
  else if s.obqueue ≠ [] then partWork s / M + 1
  else 0

theorem settleBound_eq (N M : Nat) (s : State) (k : Nat) :
    settleBound N M s k = blocks N M s (s.mqueue.take k) s.obqueue := by
  unfold settleBound blocks partWork
  rw [wsum_append]
  split
  · omega
  · rfl

theorem wsum_take_le (w : Nat → Nat) (l : List Nat) (k : Nat) : wsum w (l.take k) ≤ wsum w l := by
  have : wsum w l = wsum w (l.take k) + wsum w (l.drop k) := by rw [← wsum_append, List.take_append_drop]
  omega

/-- the bound for everything that is queued: ⌊pendingWork/N⌋ + ⌊(partWork + participations of the queued markets)/M⌋ + 1 -/
def settleBoundAll (N M : Nat) (s : State) : Nat :=
  pendingWork s / N + (partWork s + wsum (unpaidOf s) s.mqueue) / M + 1

theorem settleBound_le_all (N M : Nat) (s : State) (k : Nat) : settleBound N M s k ≤ settleBoundAll N M s := by
  unfold settleBound settleBoundAll pendingWork
  have h1 : wsum (pendCount s) (s.mqueue.take k) / N ≤ wsum (pendCount s) s.mqueue / N :=
    Nat.div_le_div_right (wsum_take_le _ _ _)
  have h2 : (partWork s + wsum (unpaidOf s) (s.mqueue.take k)) / M ≤ (partWork s + wsum (unpaidOf s) s.mqueue) / M :=
    Nat.div_le_div_right (by have := wsum_take_le (unpaidOf s) s.mqueue k; omega)
  have h3 : partWork s / M ≤ (partWork s + wsum (unpaidOf s) s.mqueue) / M := Nat.div_le_div_right (by omega)
  split
  · exact Nat.add_le_add (Nat.add_le_add h1 h2) (Nat.le_refl 1)
  · split
    · exact Nat.add_le_add_right (Nat.le_trans h3 (Nat.le_add_left _ _)) 1
    · exact Nat.zero_le _

/-- the bound in the ⌈·⌉ form of the property statement: ⌊W/N⌋ + ⌊P/M⌋ + 1 ≤ ⌈W/N⌉ + ⌈P/M⌉ + 1 -/
theorem settleBoundAll_le_ceil (N M : Nat) (hN : 0 < N) (hM : 0 < M) (s : State) :
    settleBoundAll N M s ≤ (pendingWork s + N - 1) / N + (partWork s + wsum (unpaidOf s) s.mqueue + M - 1) / M + 1 := by
  unfold settleBoundAll
  have h1 : pendingWork s / N ≤ (pendingWork s + N - 1) / N := Nat.div_le_div_right (by omega)
  have h2 : (partWork s + wsum (unpaidOf s) s.mqueue) / M ≤ (partWork s + wsum (unpaidOf s) s.mqueue + M - 1) / M :=
    Nat.div_le_div_right (by omega)
  exact Nat.add_le_add (Nat.add_le_add h1 h2) (Nat.le_refl 1)

theorem filter_contains_cons (u : Nat) (q : List Nat) (hu : u ∉ q) : ∀ (l : List (Nat × Nat × Nat × Nat)),
    (l.filter (fun x => (u :: q).contains x.1)).length =
      (l.filter (fun x => x.1 == u)).length + (l.filter (fun x => q.contains x.1)).length := by
  intro l
  induction l with
  | nil => rfl
  | cons x xs ih =>
    simp only [List.filter_cons, List.contains_cons]
    by_cases h1 : x.1 = u
    · have h2 : q.contains x.1 = false := by rw [h1]; simpa using hu
      simp only [h1, beq_self_eq_true, Bool.true_or, if_true, List.length_cons]
      rw [h1] at h2
      simp only [h2, Bool.false_eq_true, if_false]
      have := ih
      simp only [List.contains_cons] at this
      omega
    · have h1' : (x.1 == u) = false := by simpa using h1
      simp only [h1', Bool.false_or, Bool.false_eq_true, if_false]
      have := ih
      simp only [List.contains_cons] at this
      split
      · simp only [List.length_cons]; omega
      · exact this


end Sge.Core
