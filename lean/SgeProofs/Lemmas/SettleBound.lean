/-
  C05 bounded progress, part 6: tracking a set `T` of resolved markets through the settlement pipeline
  (market queue → order-book queue → completely settled) and the block potential that drops by one with every
  successful end-block and is never raised by a message.
-/
import SgeProofs.Lemmas.SettleBoundReach
import SgeProofs.Lemmas.CoreParams
namespace Sge.Core
open Sge Sge.Genesis

/-- the book of market `u` is completely settled: status SETTLED and every participation paid -/
def Done (s : State) (u : Nat) : Prop := statusOf s u = some OB_SETTLED ∧ unpaidOf s u = 0

/-- The tracked markets `T` sit at the FRONT of the pipeline: the market queue is `A ++ B` and the order-book queue
    `OA ++ OB` with `A`, `OA` tracked and `B`, `OB` not; untracked books can only be in the order-book queue once no
    tracked market is left in the market queue (both queues are FIFO and feed one another in order); and every
    tracked market is in `A`, in `OA`, or completely settled. -/
structure Track (s : State) (T A B OA OB : List Nat) : Prop where
  mq : s.mqueue = A ++ B
  oq : s.obqueue = OA ++ OB
  aT : ∀ a ∈ A, a ∈ T
  bT : ∀ b ∈ B, b ∉ T
  oaT : ∀ a ∈ OA, a ∈ T
  obT : ∀ b ∈ OB, b ∉ T
  fifo : A ≠ [] → OB = []
  all : ∀ u ∈ T, u ∈ A ∨ u ∈ OA ∨ Done s u

/-- the number of successful end-blocks after which the tracked markets are guaranteed to be completely settled,
    for batch sizes at least `N` (bets) and `M` (participations):
      ⌊pending bets of A / N⌋ + ⌊unpaid participations of OA and A / M⌋ + 1
    while tracked markets wait for bet settlement, ⌊unpaid participations of OA / M⌋ + 1 while only tracked books
    wait, and 0 when nothing tracked is queued -/
def blocks (N M : Nat) (s : State) (A OA : List Nat) : Nat :=
  if A ≠ [] then wsum (pendCount s) A / N + 1 + wsum (unpaidOf s) (OA ++ A) / M
  else if OA ≠ [] then wsum (unpaidOf s) OA / M + 1
  else 0

theorem statusOf_some {s : State} {u st : Nat} (h : statusOf s u = some st) : ∃ b, getBook s u = some b ∧ b.status = st := by
  unfold statusOf at h
  cases hb : getBook s u with
  | none => rw [hb] at h; cases h
  | some b => rw [hb] at h; exact ⟨b, rfl, by simpa using h⟩

/-- the market of a book that left the ACTIVE state is resolved -/
theorem resolved_of_status {s : State} (hS : SettleInv s) {u st : Nat} (h : statusOf s u = some st) (hst : st ≠ OB_ACTIVE) :
    ∃ m, getMarket s u = some m ∧ m.resolved := by
  obtain ⟨b, hb, e⟩ := statusOf_some h
  obtain ⟨hbm, hbu⟩ := getBook_mem hb
  have := hS.closedResolved b hbm (by rw [e]; exact hst)
  rw [hbu] at this
  exact this

/-- every tracked market is resolved -/
theorem Track.resolved {s : State} {T A B OA OB : List Nat} (hR : Reach s) (hT : Track s T A B OA OB) :
    ∀ u ∈ T, ∃ m, getMarket s u = some m ∧ m.resolved := by
  intro u hu
  rcases hT.all u hu with h | h | h
  · exact hR.inv.queueResolved u (by rw [hT.mq]; exact List.mem_append_left _ h)
  · exact resolved_of_status hR.inv (hR.q.oResolved u (by rw [hT.oq]; exact List.mem_append_left _ h)) (by decide)
  · exact resolved_of_status hR.inv h.1 (by decide)

/-- a book that left the ACTIVE state has no pending bet (K3 + the pending index lists only unsettled bets) -/
theorem pendCount_zero_of_status {s : State} (hI : BetIdx s) (hS : SettleInv s) {u st : Nat} (h : statusOf s u = some st)
    (hst : st ≠ OB_ACTIVE) : pendCount s u = 0 := by
  obtain ⟨b, hb, e⟩ := statusOf_some h
  obtain ⟨hbm, hbu⟩ := getBook_mem hb
  unfold pendCount
  rw [List.length_eq_zero_iff, List.filter_eq_nil_iff]
  intro x hx hxu
  obtain ⟨bet, hbet, hns, rfl⟩ := hI.ofPend x hx
  have hm : bet.market = b.uid := by rw [hbu]; simpa using hxu
  have := hS.closedNoOpen b hbm (by rw [e]; exact hst) bet hbet hm
  unfold Bet.isOpen at this
  simp at this
  exact hns this

-- ---------------------------------------------------------------------------------------------
-- messages

/-- a message keeps the tracked markets where they are (it can only append an untracked market to the market queue)
    and does not change the block potential -/
theorem Track.msg {s s' : State} {T A B OA OB : List Nat} (N M : Nat) (hR : Reach s) (hT : Track s T A B OA OB)
    (hF : MsgFrame s s') : ∃ B', Track s' T A B' OA OB ∧ blocks N M s' A OA = blocks N M s A OA := by
  have hres := hT.resolved hR
  have hB' : ∃ B', s'.mqueue = A ++ B' ∧ ∀ b ∈ B', b ∉ T := by
    rcases hF.mq with e | ⟨u, m, e, hm, ho⟩
    · exact ⟨B, by rw [e, hT.mq], hT.bT⟩
    · refine ⟨B ++ [u], by rw [e, hT.mq, List.append_assoc], ?_⟩
      intro b hb hbT
      rcases List.mem_append.mp hb with hb | hb
      · exact hT.bT b hb hbT
      · have : b = u := List.mem_singleton.mp hb
        subst this
        obtain ⟨m', hm', hr⟩ := hres b hbT
        rw [hm] at hm'; cases hm'
        exact open_not_resolved ho hr
  obtain ⟨B', hmq, hbT⟩ := hB'
  refine ⟨B', ⟨hmq, by rw [hF.obq]; exact hT.oq, hT.aT, hbT, hT.oaT, hT.obT, hT.fifo, ?_⟩, ?_⟩
  · intro u hu
    rcases hT.all u hu with h | h | h
    · exact Or.inl h
    · exact Or.inr (Or.inl h)
    · right; right
      obtain ⟨m, hm, hr⟩ := hres u hu
      exact ⟨by rw [hF.status u (by rw [h.1]; exact fun e => nomatch e)]; exact h.1, by rw [hF.unpaid u m hm hr]; exact h.2⟩
  · have hp : wsum (pendCount s') A = wsum (pendCount s) A := by
      apply wsum_congr
      intro v hv
      obtain ⟨m, hm, hr⟩ := hres v (hT.aT v hv)
      exact hF.pend v m hm hr
    have hu1 : wsum (unpaidOf s') (OA ++ A) = wsum (unpaidOf s) (OA ++ A) := by
      apply wsum_congr
      intro v hv
      have hvT : v ∈ T := by
        rcases List.mem_append.mp hv with h | h
        · exact hT.oaT v h
        · exact hT.aT v h
      obtain ⟨m, hm, hr⟩ := hres v hvT
      exact hF.unpaid v m hm hr
    have hu2 : wsum (unpaidOf s') OA = wsum (unpaidOf s) OA := by
      apply wsum_congr
      intro v hv
      obtain ⟨m, hm, hr⟩ := hres v (hT.oaT v hv)
      exact hF.unpaid v m hm hr
    unfold blocks
    rw [hp, hu1, hu2]

-- ---------------------------------------------------------------------------------------------
-- one successful end-block

theorem div_drop {W W' N : Nat} (hN : 0 < N) (hW : N ≤ W) (h : W' ≤ W - N) : W' / N + 1 ≤ W / N := by
  have h1 : W / N = (W - N) / N + 1 := Nat.div_eq_sub_div hN hW
  have h2 : W' / N ≤ (W - N) / N := Nat.div_le_div_right h
  omega

/-- C05: one successful end-block lowers the block potential of the tracked markets by at least one (it stays 0 once
    it is 0), and keeps them at the front of the pipeline -/
theorem Track.endBlock {s s' : State} {T A B OA OB : List Nat} {N M : Nat} (hR : Reach s) (hT : Track s T A B OA OB)
    (h : endBlockO s = some s') (hN : 0 < N) (hNb : N ≤ s.params.betBatch) (hM : 0 < M) (hMb : M ≤ s.params.obBatch) :
    ∃ A' B' OA' OB', Track s' T A' B' OA' OB' ∧ blocks N M s' A' OA' ≤ blocks N M s A OA - 1 := by
  obtain ⟨s1, D1, D2, hP⟩ := endBlockO_phases hR.idx hR.inv hR.q h
  -- bet phase on the prefix A
  obtain ⟨DA, A', DB, B', hA, hB, hD1, hmq1, hfifo1, hW1, hdr1⟩ := hP.bet.prefix hR.q.nodupM A B hT.mq
  -- the order-book queue after the bet phase, tracked part first
  have hOBDA : OB = [] ∨ DA = [] := by
    by_cases e : A = []
    · right
      rw [e] at hA
      have := congrArg List.length hA
      simp at this
      exact List.eq_nil_of_length_eq_zero (by omega)
    · exact Or.inl (hT.fifo e)
  have hoq1 : s1.obqueue = (OA ++ DA) ++ (OB ++ DB) := by
    rw [hP.obq1, hT.oq, hD1]
    rcases hOBDA with e | e <;> simp [e]
  have hDAT : ∀ a ∈ DA, a ∈ T := fun a ha => hT.aT a (by rw [hA]; exact List.mem_append_left _ ha)
  have hA'T : ∀ a ∈ A', a ∈ T := fun a ha => hT.aT a (by rw [hA]; exact List.mem_append_right _ ha)
  have hDBT : ∀ b ∈ DB, b ∉ T := fun b hb => hT.bT b (by rw [hB]; exact List.mem_append_left _ hb)
  have hB'T : ∀ b ∈ B', b ∉ T := fun b hb => hT.bT b (by rw [hB]; exact List.mem_append_right _ hb)
  -- order-book phase on the prefix OA ++ DA
  obtain ⟨DA2, OA', DB2, OB', hOA, hOB, hD2, hoq2, hfifo2, hP2, hdr2⟩ :=
    hP.ob.prefix hP.q1.nodupO (OA ++ DA) (OB ++ DB) hoq1
  have hOA1T : ∀ a ∈ OA ++ DA, a ∈ T := by
    intro a ha
    rcases List.mem_append.mp ha with h | h
    · exact hT.oaT a h
    · exact hDAT a h
  have hOB1T : ∀ b ∈ OB ++ DB, b ∉ T := by
    intro b hb
    rcases List.mem_append.mp hb with h | h
    · exact hT.obT b h
    · exact hDBT b h
  have hOA'T : ∀ a ∈ OA', a ∈ T := fun a ha => hOA1T a (by rw [hOA]; exact List.mem_append_right _ ha)
  have hOB'T : ∀ b ∈ OB', b ∉ T := fun b hb => hOB1T b (by rw [hOB]; exact List.mem_append_right _ hb)
  -- a completely settled book stays so
  have hdone1 : ∀ u, Done s u → Done s1 u := by
    intro u hd
    have hnD : u ∉ D1 := by
      intro hin
      have := (hP.books1.resolved u hin).1
      rw [hd.1] at this; cases this
    exact ⟨by rw [hP.books1.status u hnD]; exact hd.1, by rw [hP.books1.unpaid u]; exact hd.2⟩
  have hdone2 : ∀ u, Done s1 u → Done s' u := by
    intro u hd
    have hnD : u ∉ D2 := by
      intro hin
      have := (hP.books2.settled u hin).1
      rw [hd.1] at this; cases this
    refine ⟨by rw [hP.books2.status u hnD]; exact hd.1, ?_⟩
    have := hP.books2.mono u
    rw [hd.2] at this
    omega
  have hTr : Track s' T A' B' OA' OB' := by
    refine ⟨by rw [hP.mq2, hmq1], hoq2, hA'T, hB'T, hOA'T, hOB'T, ?_, ?_⟩
    · intro hne
      have hAne : A ≠ [] := by
        intro e
        rw [e] at hA
        have := congrArg List.length hA
        simp at this
        exact hne (List.eq_nil_of_length_eq_zero (by omega))
      have e1 : OB = [] := hT.fifo hAne
      have e2 : DB = [] := hfifo1 hne
      rw [e1, e2] at hOB
      have := congrArg List.length hOB
      simp at this
      exact List.eq_nil_of_length_eq_zero (by omega)
    · intro u hu
      have hmem : ∀ v, v ∈ OA ++ DA → v ∈ OA' ∨ Done s' v := by
        intro v hv
        rw [hOA] at hv
        rcases List.mem_append.mp hv with h | h
        · right
          have hin : v ∈ D2 := by rw [hD2]; exact List.mem_append_left _ h
          obtain ⟨_, c2, c3⟩ := hP.books2.settled v hin
          exact ⟨c2, c3⟩
        · exact Or.inl h
      rcases hT.all u hu with h | h | h
      · rw [hA] at h
        rcases List.mem_append.mp h with h | h
        · rcases hmem u (List.mem_append_right _ h) with h | h
          · exact Or.inr (Or.inl h)
          · exact Or.inr (Or.inr h)
        · exact Or.inl h
      · rcases hmem u (List.mem_append_left _ h) with h | h
        · exact Or.inr (Or.inl h)
        · exact Or.inr (Or.inr h)
      · exact Or.inr (Or.inr (hdone2 u (hdone1 u h)))
  refine ⟨A', B', OA', OB', hTr, ?_⟩
  -- the arithmetic
  have hpend : wsum (pendCount s') A' = wsum (pendCount s1) A' := by
    apply wsum_congr
    intro v _
    unfold pendCount
    rw [hP.pend2]
  have hun1 : ∀ l, wsum (unpaidOf s1) l = wsum (unpaidOf s) l := fun l => wsum_congr (fun v _ => hP.books1.unpaid v)
  have hunle : ∀ l, wsum (unpaidOf s') l ≤ wsum (unpaidOf s1) l := fun l => wsum_le_of_le (fun v _ => hP.books2.mono v)
  have hPtot : wsum (unpaidOf s) (OA ++ A) = wsum (unpaidOf s) (OA ++ DA) + wsum (unpaidOf s) A' := by
    rw [hA]; simp only [wsum_append]; omega
  have hNb' : N ≤ s.params.betBatch := hNb
  have hMb' : M ≤ s.params.obBatch := hMb
  rw [hun1] at hP2 hdr2
  -- the tracked work after the block
  have hP' : wsum (unpaidOf s') (OA' ++ A') ≤ wsum (unpaidOf s) (OA ++ A) := by
    rw [wsum_append, hPtot]
    have := hunle A'
    rw [hun1] at this
    omega
  unfold blocks
  by_cases hA'e : A' = []
  · -- no tracked market is left in the market queue
    subst hA'e
    simp only [ne_eq, not_true_eq_false, if_false]
    have hPall : wsum (unpaidOf s) (OA ++ A) = wsum (unpaidOf s) (OA ++ DA) := by
      rw [hPtot, wsum_nil]; omega
    by_cases hOA'e : OA' = []
    · subst hOA'e
      simp
    · simp only [ne_eq, hOA'e, not_false_eq_true, if_true]
      have hge : s.params.obBatch ≤ wsum (unpaidOf s) (OA ++ DA) := by
        by_cases hlt : wsum (unpaidOf s) (OA ++ DA) < s.params.obBatch
        · exact absurd (hdr2 hlt) hOA'e
        · omega
      have hdiv : wsum (unpaidOf s') OA' / M + 1 ≤ wsum (unpaidOf s) (OA ++ DA) / M :=
        div_drop hM (by omega) (by rw [hP2, Nat.min_eq_left hge]; omega)
      by_cases hAe : A = []
      · subst hAe
        have hDAe : DA = [] := by
          have := congrArg List.length hA
          simp at this
          exact List.eq_nil_of_length_eq_zero (by omega)
        subst hDAe
        have hOAne : OA ≠ [] := by
          intro e
          subst e
          have := congrArg List.length hOA
          simp at this
          exact hOA'e (List.eq_nil_of_length_eq_zero (by omega))
        simp only [ne_eq, not_true_eq_false, if_false, hOAne, not_false_eq_true, if_true]
        simp only [List.append_nil] at hdiv
        omega
      · simp only [ne_eq, hAe, not_false_eq_true, if_true]
        rw [hPall]
        have : ∀ a b c : Nat, c + 1 ≤ b → c + 1 ≤ a + 1 + b - 1 := by omega
        exact this _ _ _ hdiv
  · -- tracked markets are still waiting for bet settlement: the bet budget was used up on them
    have hAe : A ≠ [] := by
      intro e
      subst e
      have := congrArg List.length hA
      simp at this
      exact hA'e (List.eq_nil_of_length_eq_zero (by omega))
    simp only [ne_eq, hA'e, not_false_eq_true, if_true, hAe]
    have hge : s.params.betBatch ≤ wsum (pendCount s) A := by
      by_cases hlt : wsum (pendCount s) A < s.params.betBatch
      · exact absurd (hdr1 hlt) hA'e
      · omega
    have hdiv : wsum (pendCount s') A' / N + 1 ≤ wsum (pendCount s) A / N :=
      div_drop hN (by omega) (by rw [hpend, hW1, Nat.min_eq_left hge]; omega)
    have hdivP : wsum (unpaidOf s') (OA' ++ A') / M ≤ wsum (unpaidOf s) (OA ++ A) / M := Nat.div_le_div_right hP'
    omega

end Sge.Core
