/-
  What a successful subaccount wager does to the owner's free balance (used by C11.g).
-/
import SgeProofs.Lemmas.SubaccountBank
namespace Sge.Subaccount

theorem withdrawLockedAt_ok_bank {s s1 : State} {a owner : Nat} {d : Int}
    (h : withdrawLockedAt s a owner d = (s1, .ok)) (hne : owner ≠ a) : s1.bank owner = s.bank owner + d := by
  unfold withdrawLockedAt at h
  split at h
  · simp at h
  · dsimp only at h
    split at h
    · simp at h
    · split at h
      · simp at h
      · split at h
        · simp at h
        · rename_i bank' hsend
          split at h
          · simp at h
          · simp only [Prod.mk.injEq, and_true] at h
            subst h
            have hb := send_apply hsend owner
            simp only [hb, if_neg hne, if_true]
            omega

theorem wagerBet_ok_bank {s0 s1 : State} {owner a : Nat} {x : WagerExt}
    (h : (wagerBet s0 s1 owner a x).2 = .ok) (hne : owner ≠ extAcct) :
    (wagerBet s0 s1 owner a x).1.bank owner = s1.bank owner - x.charged := by
  unfold wagerBet at h ⊢
  by_cases c0 : (!x.wagerOk) = true
  · rw [if_pos c0] at h; simp at h
  · rw [if_neg c0] at h ⊢
    cases hsend : send s1.bank owner extAcct x.charged with
    | none => simp [hsend] at h
    | some bank' =>
      simp only [hsend] at h ⊢
      cases hs : s1.subs a with
      | none => simp [hs] at h
      | some sub =>
        have hb := send_apply hsend owner
        simp only [hb, if_true, if_neg hne]
        omega

theorem withdrawLockedAt_fixedRet (s : State) (a owner : Nat) (d : Int) : (withdrawLockedAt s a owner d).1.fixedRet = s.fixedRet := by
  unfold withdrawLockedAt
  split
  · rfl
  · dsimp only
    repeat' split
    all_goals rfl

theorem wagerBet_fixedRet (s0 s1 : State) (owner a : Nat) (x : WagerExt) (h : s1.fixedRet = s0.fixedRet) :
    (wagerBet s0 s1 owner a x).1.fixedRet = s0.fixedRet := by
  unfold wagerBet
  repeat' split
  all_goals first | rfl | exact h

/-- what the patched wager sends back to the subaccount -/
def returned (fixedRet : Bool) (main sub charged : Int) : Int :=
  if fixedRet then max 0 (min (main + sub - charged) sub) else 0

theorem wagerReturn_ok_bank {s0 s2 : State} {owner a : Nat} {main sub : Int}
    (h : (wagerReturn s0 s2 owner a main sub).2 = .ok) (hne : owner ≠ a) :
    (wagerReturn s0 s2 owner a main sub).1.bank owner =
      s2.bank owner - (if s2.fixedRet then max 0 (min (s2.bank owner - (s0.bank owner - main)) sub) else 0) := by
  unfold wagerReturn at h ⊢
  cases hf : s2.fixedRet with
  | false => simp
  | true =>
    simp only [hf, Bool.not_true, Bool.false_eq_true, if_false, if_true] at h ⊢
    by_cases c : min (s2.bank owner - (s0.bank owner - main)) sub ≤ 0
    · rw [if_pos c]
      simp only
      omega
    · rw [if_neg c] at h ⊢
      cases hs : s2.subs a with
      | none => simp [hs] at h
      | some sb =>
        simp only [hs] at h ⊢
        by_cases c2 : min (s2.bank owner - (s0.bank owner - main)) sub > sb.sum.withdrawn
        · rw [if_pos c2] at h; simp at h
        · rw [if_neg c2] at h ⊢
          cases hsend : send s2.bank owner a (min (s2.bank owner - (s0.bank owner - main)) sub) with
          | none => simp [hsend] at h
          | some bank' =>
            simp only
            have hb := send_apply hsend owner
            simp only [hb, if_true, if_neg hne]
            omega

theorem wagerTail_ok_spec {s : State} {owner a : Nat} {main sub : Int} {x : WagerExt}
    (hok : (wagerTail s owner a main sub x).2 = .ok) :
    ∃ s1 s2, withdrawLockedAt s a owner sub = (s1, .ok) ∧ wagerBet s s1 owner a x = (s2, .ok) ∧
      wagerTail s owner a main sub x = wagerReturn s s2 owner a main sub := by
  unfold wagerTail at hok ⊢
  cases h1 : withdrawLockedAt s a owner sub with
  | mk s1 r1 =>
    simp only [h1] at hok ⊢
    cases r1 with
    | ok =>
      simp only at hok ⊢
      cases h2 : wagerBet s s1 owner a x with
      | mk s2 r2 =>
        simp only [h2] at hok ⊢
        cases r2 with
        | ok => exact ⟨s1, s2, rfl, h2, rfl⟩
        | err e => simp at hok
        | panic => simp at hok
    | err e => simp at hok
    | panic => simp at hok

theorem wager_ok_spec {s : State} {owner : Nat} {main sub : Int} {x : WagerExt}
    (hok : (wager s owner main sub x).2 = .ok) :
    ∃ a, s.ownerMap owner = some a ∧ wager s owner main sub x = wagerTail s owner a main sub x ∧
      main + sub = x.betAmount ∧ (s.fixedNeg = true → 0 ≤ main ∧ 0 ≤ sub) := by
  unfold wager at hok ⊢
  by_cases c0 : (!s.wagerEnabled) = true
  · rw [if_pos c0] at hok; simp at hok
  · rw [if_neg c0] at hok ⊢
    cases hown : s.ownerMap owner with
    | none => simp [hown] at hok
    | some a =>
      simp only [hown] at hok ⊢
      by_cases c1 : x.pre = 1
      · rw [if_pos c1] at hok; simp at hok
      · rw [if_neg c1] at hok ⊢
        by_cases c2 : x.pre = 2
        · rw [if_pos c2] at hok; simp at hok
        · rw [if_neg c2] at hok ⊢
          by_cases c3 : x.pre = 3
          · rw [if_pos c3] at hok; simp at hok
          · rw [if_neg c3] at hok ⊢
            by_cases cn : (s.fixedNeg && (decide (main < 0) || decide (sub < 0))) = true
            · rw [if_pos cn] at hok; simp at hok
            · rw [if_neg cn] at hok ⊢
              by_cases c4 : main + sub ≠ x.betAmount
              · rw [if_pos c4] at hok; simp at hok
              · rw [if_neg c4] at hok ⊢
                by_cases c5 : x.pre = 5
                · rw [if_pos c5] at hok; simp at hok
                · rw [if_neg c5] at hok ⊢
                  by_cases c6 : s.bank owner < main
                  · rw [if_pos c6] at hok; simp at hok
                  · rw [if_neg c6] at hok ⊢
                    refine ⟨a, rfl, rfl, by omega, ?_⟩
                    intro hf
                    simp only [hf, Bool.true_and, Bool.or_eq_true, decide_eq_true_eq, not_or] at cn
                    omega

/-- the owner's free balance after a successful subaccount wager -/
theorem wager_owner_balance {s : State} (hinv : Inv s) (hop : OwnersPlain s) {owner : Nat} {main sub : Int} {x : WagerExt}
    (hne : owner ≠ extAcct) (hok : (wager s owner main sub x).2 = .ok) :
    (wager s owner main sub x).1.bank owner = s.bank owner + sub - x.charged - returned s.fixedRet main sub x.charged := by
  obtain ⟨a, hown, heq, _, _⟩ := wager_ok_spec hok
  obtain ⟨ho, ha, _⟩ := owner_plain hinv hop hown
  rw [heq] at hok ⊢
  obtain ⟨s1, s2, h1, h2, heq2⟩ := wagerTail_ok_spec hok
  rw [heq2] at hok ⊢
  have hne2 : owner ≠ a := by omega
  have hb1 := withdrawLockedAt_ok_bank h1 hne2
  have hb2 : s2.bank owner = s1.bank owner - x.charged := by
    have h := wagerBet_ok_bank (s0 := s) (s1 := s1) (owner := owner) (a := a) (x := x) (by rw [h2]) hne
    rw [h2] at h; exact h
  have hf1 : s1.fixedRet = s.fixedRet := by
    have := withdrawLockedAt_fixedRet s a owner sub
    rw [h1] at this; exact this
  have hf2 : s2.fixedRet = s.fixedRet := by
    have := wagerBet_fixedRet s s1 owner a x hf1
    rw [h2] at this; exact this
  rw [wagerReturn_ok_bank hok hne2, hf2, hb2, hb1]
  unfold returned
  cases s.fixedRet <;> simp <;> omega

end Sge.Subaccount
