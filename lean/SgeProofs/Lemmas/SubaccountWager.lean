/-
  What a successful subaccount wager does to the owner's free balance (used by C11.g).
-/
import SgeProofs.Lemmas.SubaccountBank
namespace Sge.Subaccount

theorem withdrawLockedAt_ok_bank {s s1 : State} {a owner : Nat} {d : Int}
    (h : withdrawLockedAt s a owner d = (s1, .ok)) (hne : owner ≠ a) : s1.bank owner = s.bank owner + d := by
  unfold withdrawLockedAt at h
  split at h
  · simp at h
  · dsimp only at h
    split at h
    · simp at h
    · split at h
      · simp at h
      · split at h
        · simp at h
        · rename_i bank' hsend
          split at h
          · simp at h
          · simp only [Prod.mk.injEq, and_true] at h
            subst h
            have hb := send_apply hsend owner
            simp only [hb, if_neg hne, if_true]
            omega

theorem wagerBet_ok_bank {s0 s1 : State} {owner a : Nat} {x : WagerExt}
    (h : (wagerBet s0 s1 owner a x).2 = .ok) (hne : owner ≠ extAcct) :
    (wagerBet s0 s1 owner a x).1.bank owner = s1.bank owner - x.charged := by
  unfold wagerBet at h ⊢
  by_cases c0 : (!x.wagerOk) = true
  · rw [if_pos c0] at h; simp at h
  · rw [if_neg c0] at h ⊢
    cases hsend : send s1.bank owner extAcct x.charged with
    | none => simp [hsend] at h
    | some bank' =>
      simp only [hsend] at h ⊢
      cases hs : s1.subs a with
      | none => simp [hs] at h
      | some sub =>
        have hb := send_apply hsend owner
        simp only [hb, if_true, if_neg hne]
        omega

theorem wager_ok_spec {s : State} {owner : Nat} {main sub : Int} {x : WagerExt}
    (hok : (wager s owner main sub x).2 = .ok) :
    ∃ a s1, s.ownerMap owner = some a ∧ withdrawLockedAt s a owner sub = (s1, .ok) ∧
      wager s owner main sub x = wagerBet s s1 owner a x ∧ main + sub = x.betAmount ∧
      (s.fixedNeg = true → 0 ≤ main ∧ 0 ≤ sub) := by
  unfold wager at hok ⊢
  by_cases c0 : (!s.wagerEnabled) = true
  · rw [if_pos c0] at hok; simp at hok
  · rw [if_neg c0] at hok ⊢
    cases hown : s.ownerMap owner with
    | none => simp [hown] at hok
    | some a =>
      simp only [hown] at hok ⊢
      by_cases c1 : x.pre = 1
      · rw [if_pos c1] at hok; simp at hok
      · rw [if_neg c1] at hok ⊢
        by_cases c2 : x.pre = 2
        · rw [if_pos c2] at hok; simp at hok
        · rw [if_neg c2] at hok ⊢
          by_cases c3 : x.pre = 3
          · rw [if_pos c3] at hok; simp at hok
          · rw [if_neg c3] at hok ⊢
            by_cases cn : (s.fixedNeg && (decide (main < 0) || decide (sub < 0))) = true
            · rw [if_pos cn] at hok; simp at hok
            · rw [if_neg cn] at hok ⊢
              by_cases c4 : main + sub ≠ x.betAmount
              · rw [if_pos c4] at hok; simp at hok
              · rw [if_neg c4] at hok ⊢
                by_cases c5 : x.pre = 5
                · rw [if_pos c5] at hok; simp at hok
                · rw [if_neg c5] at hok ⊢
                  by_cases c6 : s.bank owner < main
                  · rw [if_pos c6] at hok; simp at hok
                  · rw [if_neg c6] at hok ⊢
                    cases hw : withdrawLockedAt s a owner sub with
                    | mk s1 r =>
                      simp only [hw] at hok ⊢
                      cases r with
                      | ok =>
                        refine ⟨a, s1, rfl, hw, rfl, by omega, ?_⟩
                        intro hf
                        simp only [hf, Bool.true_and, Bool.or_eq_true, decide_eq_true_eq, not_or] at cn
                        omega
                      | err e => simp at hok
                      | panic => simp at hok

end Sge.Subaccount
