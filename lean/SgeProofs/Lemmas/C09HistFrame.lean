/-
  C09 over histories, part 1: frame lemmas. The house stores (deposits, withdrawal records), the authz grants, the
  parameters and the block time are changed by no handler other than MsgDeposit / MsgWithdraw (house stores, grants),
  the authz operations (grants), `setParams` and `newBlock`: in particular not by a wager and not by the end-blockers.
-/
import SgeProofs.Lemmas.CoreParams
namespace Sge.Core
open Sge

/-- deposits, withdrawal records, grants, parameters and the clock are the same -/
def c9h_HK (s s' : State) : Prop :=
  s'.deposits = s.deposits ∧ s'.withdrawals = s.withdrawals ∧ s'.grants = s.grants ∧ s'.params = s.params ∧
  s'.time = s.time

theorem c9h_HK.refl (s : State) : c9h_HK s s := ⟨rfl, rfl, rfl, rfl, rfl⟩

theorem c9h_HK.trans {a b c : State} (h1 : c9h_HK a b) (h2 : c9h_HK b c) : c9h_HK a c :=
  ⟨h2.1.trans h1.1, h2.2.1.trans h1.2.1, h2.2.2.1.trans h1.2.2.1, h2.2.2.2.1.trans h1.2.2.2.1,
    h2.2.2.2.2.trans h1.2.2.2.2⟩

theorem c9h_bankSend_hk {s s' : State} {a b : Nat} {x : Int} (h : bankSend s a b x = some s') : c9h_HK s s' := by
  obtain ⟨_, _, rfl⟩ := bankSend_shape h
  exact c9h_HK.refl _

theorem c9h_marketAddO_hk {s s' : State} {c : Nat} {tk : Tk} {u st en : Nat} {o : List Nat} {stt : Nat}
    (h : marketAddO s c tk u st en o stt = some s') : c9h_HK s s' := by
  unfold marketAddO at h
  simp only [bind, Option.bind_eq_some_iff, pure, Option.some.injEq] at h
  obtain ⟨_, _, _, _, _, _, _, _, _, _, _, _, _, _, rfl⟩ := h
  exact ⟨rfl, rfl, rfl, rfl, rfl⟩

theorem c9h_marketUpdateO_hk {s s' : State} {tk : Tk} {u st en stt : Nat}
    (h : marketUpdateO s tk u st en stt = some s') : c9h_HK s s' := by
  unfold marketUpdateO at h
  simp only [bind, Option.bind_eq_some_iff, pure, Option.some.injEq] at h
  obtain ⟨_, _, _, _, _, _, _, _, _, _, rfl⟩ := h
  exact ⟨rfl, rfl, rfl, rfl, rfl⟩

theorem c9h_marketResolveO_hk {s s' : State} {tk : Tk} {u ts stt : Nat} {w : List Nat}
    (h : marketResolveO s tk u ts stt w = some s') : c9h_HK s s' := by
  unfold marketResolveO at h
  simp only [bind, Option.bind_eq_some_iff, pure, Option.some.injEq] at h
  obtain ⟨_, _, _, _, _, _, _, _, _, _, rfl⟩ := h
  exact ⟨rfl, rfl, rfl, rfl, rfl⟩

theorem c9h_wagerO_hk {s s' : State} {c : Nat} {tk : Tk} {u : Nat} {a : Int} {pl : WagerPayload}
    (h : wagerO s c tk u a pl = some s') : c9h_HK s s' := by
  unfold wagerO at h
  simp only [bind, Option.bind_eq_some_iff, pure, Option.some.injEq] at h
  obtain ⟨_, _, _, _, _, _, _, _, _, _, _, _, _, _, m, _, _, _, _, _, _, _, _, _, _, _, _, _, ov, _, _, _, b, _, r, _, s1, h1, s2, h2, rfl⟩ := h
  obtain ⟨_, _, rfl⟩ := bankSend_shape h1
  obtain ⟨_, _, rfl⟩ := bankSend_shape h2
  exact ⟨rfl, rfl, rfl, rfl, rfl⟩

theorem c9h_settleBet_hk {s s' : State} {c u : Nat} (h : settleBet s c u = some s') : c9h_HK s s' := by
  unfold settleBet at h
  simp only [bind, Option.bind_eq_some_iff] at h
  obtain ⟨_, _, bet, _, _, _, m, _, h⟩ := h
  split at h
  · unfold settleRefund at h
    simp only [bind, Option.bind_eq_some_iff, pure, Option.some.injEq] at h
    obtain ⟨s1, h1, s2, h2, rfl⟩ := h
    obtain ⟨_, _, rfl⟩ := bankSend_shape h1
    obtain ⟨_, _, rfl⟩ := bankSend_shape h2
    exact ⟨rfl, rfl, rfl, rfl, rfl⟩
  · simp only [bind, Option.bind_eq_some_iff] at h
    obtain ⟨_, _, h⟩ := h
    unfold settleDeclared at h
    simp only [bind, Option.bind_eq_some_iff, pure, Option.some.injEq] at h
    obtain ⟨bk, _, r, hr, s2, h2, rfl⟩ := h
    obtain ⟨_, _, rfl⟩ := bankSend_shape h2
    exact ⟨rfl, rfl, rfl, rfl, rfl⟩

theorem c9h_settlePage_hk : ∀ (page : List (Nat × Nat × Nat × Nat)) (s : State) (r : State × Nat),
    settlePage s page = some r → c9h_HK s r.1 := by
  intro page
  induction page with
  | nil => intro s r h; simp [settlePage] at h; rw [← h]; exact c9h_HK.refl _
  | cons pb rest ih =>
    intro s r h
    unfold settlePage at h
    simp only [bind, Option.bind_eq_some_iff, pure, Option.some.injEq] at h
    obtain ⟨s1, h1, r1, hr, rfl⟩ := h
    exact (c9h_settleBet_hk h1).trans (ih _ r1 hr)

theorem c9h_betEndBlockStep_hk {s : State} {mk n : Nat} {r : State × Nat} (h : betEndBlockStep s mk n = some r) :
    c9h_HK s r.1 := by
  unfold betEndBlockStep at h
  simp only [bind, Option.bind_eq_some_iff] at h
  obtain ⟨r0, h0, h⟩ := h
  have e0 := c9h_settlePage_hk _ _ _ h0
  split at h
  · simp only [pure, Option.some.injEq] at h; rw [← h]; exact e0
  · simp only [bind, Option.bind_eq_some_iff, pure, Option.some.injEq] at h
    obtain ⟨q, _, s2, h2, rfl⟩ := h
    unfold bookResolved at h2
    simp only [bind, Option.bind_eq_some_iff, pure, Option.some.injEq] at h2
    obtain ⟨_, _, _, _, rfl⟩ := h2
    exact e0

theorem c9h_betEndBlock_hk : ∀ (fuel : Nat) (s : State) (n : Nat) (s' : State),
    betEndBlock fuel s n = some s' → c9h_HK s s' := by
  intro fuel
  induction fuel with
  | zero => intro s n s' h; simp [betEndBlock] at h; rw [← h]; exact c9h_HK.refl _
  | succ fuel ih =>
    intro s n s' h
    unfold betEndBlock at h
    split at h
    · simp at h; rw [← h]; exact c9h_HK.refl _
    · split at h
      · simp at h; rw [← h]; exact c9h_HK.refl _
      · simp only [bind, Option.bind_eq_some_iff] at h
        obtain ⟨r, hr, h⟩ := h
        exact (c9h_betEndBlockStep_hk hr).trans (ih _ _ _ h)

theorem c9h_settlePart_hk {s : State} {b : Book} {p : Part} {m : Market} {r : State × Book}
    (h : settlePart s b p m = some r) : c9h_HK s r.1 := by
  unfold settlePart at h
  simp only [bind, Option.bind_eq_some_iff] at h
  obtain ⟨_, _, _, _, s1, h1, h⟩ := h
  obtain ⟨_, _, rfl⟩ := bankSend_shape h1
  split at h
  · simp only [bind, Option.bind_eq_some_iff, pure, Option.some.injEq] at h
    obtain ⟨s2, h2, rfl⟩ := h
    obtain ⟨_, _, rfl⟩ := bankSend_shape h2
    exact ⟨rfl, rfl, rfl, rfl, rfl⟩
  · simp only [bind, Option.bind_eq_some_iff, pure, Option.some.injEq] at h
    obtain ⟨s2, h2, rfl⟩ := h
    obtain ⟨_, _, rfl⟩ := bankSend_shape h2
    exact ⟨rfl, rfl, rfl, rfl, rfl⟩

theorem c9h_settleParts_hk (m : Market) (count : Nat) : ∀ (ps : List Part) (s : State) (b : Book) (sc pr : Nat)
    (r : State × Book × Nat × Nat), settleParts m count ps s b sc pr = some r → c9h_HK s r.1 := by
  intro ps
  induction ps with
  | nil => intro s b sc pr r h; simp [settleParts] at h; rw [← h]; exact c9h_HK.refl _
  | cons p rest ih =>
    intro s b sc pr r h
    unfold settleParts at h
    simp only [bind, Option.bind_eq_some_iff] at h
    obtain ⟨r1, h1, h⟩ := h
    have e1 : c9h_HK s r1.1 := by
      unfold settleOne at h1
      split at h1
      · simp only [Option.map_eq_some_iff] at h1
        obtain ⟨x, hx, rfl⟩ := h1
        exact c9h_settlePart_hk hx
      · cases h1; exact c9h_HK.refl _
    split at h
    · simp only [pure, Option.some.injEq] at h; rw [← h]; exact e1
    · exact e1.trans (ih _ _ _ _ _ h)

theorem c9h_obEndBlock_hk : ∀ (fuel : Nat) (s : State) (n i : Nat) (s' : State),
    obEndBlock fuel s n i = some s' → c9h_HK s s' := by
  intro fuel
  induction fuel with
  | zero => intro s n i s' h; simp [obEndBlock] at h; rw [← h]; exact c9h_HK.refl _
  | succ fuel ih =>
    intro s n i s' h
    unfold obEndBlock at h
    split at h
    · simp at h; rw [← h]; exact c9h_HK.refl _
    · split at h
      · simp at h; rw [← h]; exact c9h_HK.refl _
      · simp only [bind, Option.bind_eq_some_iff] at h
        obtain ⟨b, _, m, _, _, _, r, hr, h⟩ := h
        have e := c9h_settleParts_hk _ _ _ _ _ _ _ _ hr
        split at h
        · simp only [bind, Option.bind_eq_some_iff] at h
          obtain ⟨q, _, h⟩ := h
          have e2 := ih _ _ _ _ h
          exact e.trans (c9h_HK.trans ⟨rfl, rfl, rfl, rfl, rfl⟩ e2)
        · have e2 := ih _ _ _ _ h
          exact e.trans (c9h_HK.trans ⟨rfl, rfl, rfl, rfl, rfl⟩ e2)

theorem c9h_endBlockO_hk {s s' : State} (h : endBlockO s = some s') : c9h_HK s s' := by
  unfold endBlockO at h
  simp only [bind, Option.bind_eq_some_iff] at h
  obtain ⟨s1, h1, h2⟩ := h
  exact (c9h_betEndBlock_hk _ _ _ _ h1).trans (c9h_obEndBlock_hk _ _ _ _ _ h2)

theorem c9h_commit_hk (s : State) (r : Option State) (h : ∀ s', r = some s' → c9h_HK s s') : c9h_HK s (commit s r).1 := by
  unfold commit
  cases r with
  | none => exact c9h_HK.refl _
  | some s' => exact h s' rfl

/-- deposits, withdrawal records and the clock, for an operation that is neither a house message nor authz / parameter /
    clock traffic -/
theorem c9h_step_hk (s : State) (op : Op)
    (h1 : ∀ c tk m a pd, op ≠ .deposit c tk m a pd) (h2 : ∀ c tk m i md a pd, op ≠ .withdraw c tk m i md a pd)
    (h3 : ∀ g e k l x, op ≠ .grant g e k l x) (h4 : ∀ g e k, op ≠ .revoke g e k) (h5 : ∀ p, op ≠ .setParams p)
    (h6 : ∀ h t, op ≠ .newBlock h t) : c9h_HK s (step s op).1 := by
  cases op with
  | marketAdd c tk u st en o stt => exact c9h_commit_hk _ _ (fun _ h => c9h_marketAddO_hk h)
  | marketUpdate tk u st en stt => exact c9h_commit_hk _ _ (fun _ h => c9h_marketUpdateO_hk h)
  | marketResolve tk u ts stt w => exact c9h_commit_hk _ _ (fun _ h => c9h_marketResolveO_hk h)
  | deposit c tk m a pd => exact absurd rfl (h1 c tk m a pd)
  | withdraw c tk m i md a pd => exact absurd rfl (h2 c tk m i md a pd)
  | wager c tk u a pl => exact c9h_commit_hk _ _ (fun _ h => c9h_wagerO_hk h)
  | grant g e k l x => exact absurd rfl (h3 g e k l x)
  | revoke g e k => exact absurd rfl (h4 g e k)
  | send a b x =>
    simp only [step]
    split
    · exact c9h_HK.refl _
    · exact c9h_commit_hk _ _ (fun _ h => c9h_bankSend_hk h)
  | setParams p => exact absurd rfl (h5 p)
  | endBlock =>
    simp only [step, endBlock]
    cases h : endBlockO s with
    | none => exact c9h_HK.refl _
    | some s' => exact c9h_endBlockO_hk h
  | newBlock h t => exact absurd rfl (h6 h t)

end Sge.Core
