/-
  The bet store and its two indexes as an invariant of every history (C08 whole-history part, C03 "settles once").

  `BetIdx s`  : the bet count equals the number of bets, the ids are exactly 1..betCount, ids and uids identify a
                bet, the three stores are sorted by their keys, and every bet is listed in exactly one index:
                pending under (market, id) while it is not settled, settled under (settleHeight, id) afterwards.
  `Settles s s'` : what an end-blocker may do to the bet store: a settled bet is kept as it is, and every other
                record of s' is either a record of s or a not yet settled record of s with status := settled,
                a result, and settleHeight := the height of the block.
-/
import SgeProofs.Lemmas.Genesis
import SgeProofs.Lemmas.CoreFrame

-- ---------------------------------------------------------------------------------------------
-- more about sorted keyed lists

namespace Sge.Genesis
open Sge Sge.Core

/-- writing under a new key adds one record -/
theorem upsert_length_new {α : Type} (key : α → List Nat) (x : α) (l : List α)
    (h : ∀ y ∈ l, (key y == key x) = false) : (upsert key x l).length = l.length + 1 := by
  induction l with
  | nil => rfl
  | cons y ys ih =>
    unfold upsert
    rw [h y (List.mem_cons_self ..)]
    simp only [Bool.false_eq_true, ↓reduceIte]
    split
    · rfl
    · simp only [List.length_cons]
      rw [ih (fun z hz => h z (List.mem_cons_of_mem _ hz))]

/-- writing under a stored key keeps the number of records -/
theorem upsert_length_old {α : Type} (key : α → List Nat) (x : α) (l : List α) (hs : Sorted key l)
    (hex : ∃ b ∈ l, key b = key x) : (upsert key x l).length = l.length := by
  rw [upsert_replace key x l hs hex, List.length_map]

theorem mem_remove_iff {α : Type} (key : α → List Nat) (k : List Nat) (z : α) (l : List α) :
    z ∈ remove key k l ↔ z ∈ l ∧ (key z == k) = false := by
  unfold remove
  rw [List.mem_filter]
  simp

theorem remove_sorted {α : Type} (key : α → List Nat) (k : List Nat) (l : List α) (hs : Sorted key l) :
    Sorted key (remove key k l) := by
  unfold Sorted remove at *
  exact hs.filter _

/-- deleting the key of a stored record removes exactly one record -/
theorem remove_length {α : Type} (key : α → List Nat) (x : α) (l : List α) (hs : Sorted key l) (hx : x ∈ l) :
    (remove key (key x) l).length + 1 = l.length := by
  induction l with
  | nil => cases hx
  | cons y ys ih =>
    unfold Sorted at hs
    rw [List.pairwise_cons] at hs
    unfold remove at ih ⊢
    rcases List.mem_cons.mp hx with e | hin
    · rw [← e] at hs ⊢
      have hall : ys.filter (fun z => !(key z == key x)) = ys := by
        rw [List.filter_eq_self]
        intro z hz
        have h1 := ltL_ne _ _ (hs.1 z hz)
        have h2 : (key z == key x) = false := by
          cases hc : key z == key x
          · rfl
          · have e2 : key z = key x := by simpa using hc
            rw [e2] at h1; simp at h1
        simp [h2]
      simp [hall]
    · have hlt := hs.1 x hin
      have h1 : (key y == key x) = false := ltL_ne _ _ hlt
      simp only [List.filter_cons, h1, Bool.not_false, ↓reduceIte, List.length_cons]
      have := ih hs.2 hin
      omega

/-- a predicate that singles out one record of a sorted store selects exactly that record, once -/
theorem filter_unique {α : Type} (key : α → List Nat) (p : α → Bool) (x : α) (l : List α) (hs : Sorted key l)
    (hx : x ∈ l) (hp : p x = true) (hu : ∀ y ∈ l, p y = true → y = x) : l.filter p = [x] := by
  induction l with
  | nil => cases hx
  | cons y ys ih =>
    unfold Sorted at hs
    rw [List.pairwise_cons] at hs
    rcases List.mem_cons.mp hx with e | hin
    · rw [← e] at hs ⊢
      have hnil : ys.filter p = [] := by
        rw [List.filter_eq_nil_iff]
        intro z hz hpz
        have e2 := hu z (List.mem_cons_of_mem _ hz) hpz
        rw [e2] at hz
        have := hs.1 x hz
        rw [ltL_irrefl] at this
        cases this
      rw [List.filter_cons, hp, hnil]
      rfl
    · have hy : p y = false := by
        cases hpy : p y
        · rfl
        · have e2 := hu y (List.mem_cons_self ..) hpy
          have := hs.1 x hin
          rw [e2, ltL_irrefl] at this
          cases this
      rw [List.filter_cons, hy]
      simp only [Bool.false_eq_true, ↓reduceIte]
      exact ih hs.2 hin (fun z hz => hu z (List.mem_cons_of_mem _ hz))

theorem key2_ne {a b c d : Nat} (h : b ≠ d) : (([a, b] : List Nat) == [c, d]) = false := by simp [h]

end Sge.Genesis

-- ---------------------------------------------------------------------------------------------
-- the invariant

namespace Sge.Core
open Sge Sge.Genesis

/-- the key of a pending-index entry (market, id, uid, creator) and of a settled-index entry (height, id, uid, creator) -/
abbrev ikey (x : Nat × Nat × Nat × Nat) : List Nat := [x.1, x.2.1]

structure BetIdx (s : State) : Prop where
  /-- the bet count is the number of bets -/
  count : s.bets.length = s.betCount
  /-- ids are sequence numbers 1..betCount … -/
  idLo : ∀ b ∈ s.bets, 1 ≤ b.id ∧ b.id ≤ s.betCount
  /-- … every one of them is taken … -/
  idSurj : ∀ k, 1 ≤ k → k ≤ s.betCount → ∃ b ∈ s.bets, b.id = k
  /-- … by one bet -/
  idInj : ∀ b ∈ s.bets, ∀ b' ∈ s.bets, b.id = b'.id → b = b'
  uidInj : ∀ b ∈ s.bets, ∀ b' ∈ s.bets, b.uid = b'.uid → b = b'
  sBets : Sorted Bet.key s.bets
  sPend : Sorted ikey s.pending
  sSett : Sorted ikey s.settled
  /-- a bet that is not settled is listed as pending under its market -/
  pendOf : ∀ b ∈ s.bets, b.status ≠ BS_SETTLED → (b.market, b.id, b.uid, b.creator) ∈ s.pending
  /-- a settled bet is listed as settled under its settlement height -/
  settOf : ∀ b ∈ s.bets, b.status = BS_SETTLED → (b.settleHeight, b.id, b.uid, b.creator) ∈ s.settled
  /-- the pending index lists nothing else -/
  ofPend : ∀ x ∈ s.pending, ∃ b ∈ s.bets, b.status ≠ BS_SETTLED ∧ x = (b.market, b.id, b.uid, b.creator)
  /-- the settled index lists nothing else -/
  ofSett : ∀ x ∈ s.settled, ∃ b ∈ s.bets, b.status = BS_SETTLED ∧ x = (b.settleHeight, b.id, b.uid, b.creator)
  /-- so the two indexes partition the bets -/
  lens : s.pending.length + s.settled.length = s.bets.length

theorem BetIdx.of_eq {s s' : State} (h : BetIdx s) (e1 : s'.bets = s.bets) (e2 : s'.pending = s.pending)
    (e3 : s'.settled = s.settled) (e4 : s'.betCount = s.betCount) : BetIdx s' := by
  obtain ⟨a1, a2, a3, a4, a5, a6, a7, a8, a9, a10, a11, a12, a13⟩ := h
  exact ⟨by rw [e1, e4]; exact a1, by rw [e1, e4]; exact a2, by rw [e1, e4]; exact a3, by rw [e1]; exact a4,
    by rw [e1]; exact a5, by rw [e1]; exact a6, by rw [e2]; exact a7, by rw [e3]; exact a8,
    by rw [e1, e2]; exact a9, by rw [e1, e3]; exact a10, by rw [e1, e2]; exact a11, by rw [e1, e3]; exact a12,
    by rw [e1, e2, e3]; exact a13⟩

/-- the bet stores, the counter and the height are the same -/
def SameBets (s s' : State) : Prop :=
  s'.bets = s.bets ∧ s'.pending = s.pending ∧ s'.settled = s.settled ∧ s'.betCount = s.betCount ∧ s'.height = s.height

theorem SameBets.refl (s : State) : SameBets s s := ⟨rfl, rfl, rfl, rfl, rfl⟩

theorem SameBets.trans {a b c : State} (h1 : SameBets a b) (h2 : SameBets b c) : SameBets a c := by
  obtain ⟨a1, a2, a3, a4, a5⟩ := h1
  obtain ⟨b1, b2, b3, b4, b5⟩ := h2
  exact ⟨b1.trans a1, b2.trans a2, b3.trans a3, b4.trans a4, b5.trans a5⟩

theorem BetIdx.of_same {s s' : State} (h : BetIdx s) (e : SameBets s s') : BetIdx s' :=
  h.of_eq e.1 e.2.1 e.2.2.1 e.2.2.2.1

/-- what settlement does to the bet store between two states of one block -/
structure Settles (s s' : State) : Prop where
  height : s'.height = s.height
  count : s'.betCount = s.betCount
  /-- a settled bet is never touched again -/
  keeps : ∀ b ∈ s.bets, b.status = BS_SETTLED → b ∈ s'.bets
  /-- every record is an old record, or an unsettled old record that was settled at this height -/
  origin : ∀ b' ∈ s'.bets, b' ∈ s.bets ∨ ∃ b0 ∈ s.bets, b0.status ≠ BS_SETTLED ∧
    ∃ res, b' = { b0 with status := BS_SETTLED, result := res, settleHeight := s.height }

theorem Settles.of_same {s s' : State} (e : SameBets s s') : Settles s s' :=
  ⟨e.2.2.2.2, e.2.2.2.1, fun b hb _ => by rw [e.1]; exact hb, fun b hb => Or.inl (by rw [← e.1]; exact hb)⟩

theorem Settles.refl (s : State) : Settles s s := Settles.of_same (SameBets.refl s)

theorem Settles.trans {a b c : State} (h1 : Settles a b) (h2 : Settles b c) : Settles a c := by
  refine ⟨h2.height.trans h1.height, h2.count.trans h1.count, fun x hx hst => h2.keeps x (h1.keeps x hx hst) hst, ?_⟩
  intro b' hb'
  rcases h2.origin b' hb' with h | ⟨b0, hb0, hns, res, e⟩
  · exact h1.origin b' h
  · rcases h1.origin b0 hb0 with h | ⟨b00, _, _, res0, e0⟩
    · exact Or.inr ⟨b0, h, hns, res, by rw [e, h1.height]⟩
    · rw [e0] at hns
      exact absurd rfl hns

-- ---------------------------------------------------------------------------------------------
-- the two writes: updateSettlementState and the wager's bet record

/-- `markSettled` on a stored unsettled bet: replace the record under its key, delete the pending entry, add the
    settled entry -/
theorem settle_good {s s' : State} (hI : BetIdx s) (b0 : Bet) (hb0 : b0 ∈ s.bets) (hns : b0.status ≠ BS_SETTLED) (res : Nat)
    (e1 : s'.bets = upsert Bet.key { b0 with status := BS_SETTLED, result := res, settleHeight := s.height } s.bets)
    (e2 : s'.pending = remove ikey [b0.market, b0.id] s.pending)
    (e3 : s'.settled = upsert ikey (s.height, b0.id, b0.uid, b0.creator) s.settled)
    (e4 : s'.betCount = s.betCount) (e5 : s'.height = s.height) : BetIdx s' ∧ Settles s s' := by
  generalize hnb : ({ b0 with status := BS_SETTLED, result := res, settleHeight := s.height } : Bet) = nb at e1
  have n1 : nb.id = b0.id := by rw [← hnb]
  have n2 : nb.creator = b0.creator := by rw [← hnb]
  have n3 : nb.uid = b0.uid := by rw [← hnb]
  have n5 : nb.status = BS_SETTLED := by rw [← hnb]
  have n6 : nb.settleHeight = s.height := by rw [← hnb]
  have hk0 : Bet.key nb = Bet.key b0 := by simp [Bet.key, n1, n2]
  have hsame : ∀ z ∈ s.bets, z.id = b0.id → z = b0 := fun z hz e => hI.idInj z hz b0 hb0 e
  have hkey : ∀ z ∈ s.bets, ((Bet.key z == Bet.key nb) = false ↔ z.id ≠ b0.id) := by
    intro z hz
    rw [hk0]
    constructor
    · intro h e
      rw [hsame z hz e] at h
      simp at h
    · intro h
      exact key2_ne h
  have hmem : ∀ z, z ∈ s'.bets ↔ z = nb ∨ (z ∈ s.bets ∧ z.id ≠ b0.id) := by
    intro z
    rw [e1, mem_upsert_iff _ _ _ _ hI.sBets]
    constructor
    · rintro (h | ⟨h1, h2⟩)
      · exact Or.inl h
      · exact Or.inr ⟨h1, (hkey z h1).mp h2⟩
    · rintro (h | ⟨h1, h2⟩)
      · exact Or.inl h
      · exact Or.inr ⟨h1, (hkey z h1).mpr h2⟩
  have hpm : ∀ x, x ∈ s'.pending ↔ x ∈ s.pending ∧ (ikey x == [b0.market, b0.id]) = false := by
    intro x
    rw [e2]
    exact mem_remove_iff ..
  have hsm : ∀ x, x ∈ s'.settled ↔ x = (s.height, b0.id, b0.uid, b0.creator) ∨
      (x ∈ s.settled ∧ (ikey x == [s.height, b0.id]) = false) := by
    intro x
    rw [e3]
    exact mem_upsert_iff _ _ _ _ hI.sSett
  have hpe : (b0.market, b0.id, b0.uid, b0.creator) ∈ s.pending := hI.pendOf b0 hb0 hns
  have hfs : ∀ y ∈ s.settled, (ikey y == ikey (s.height, b0.id, b0.uid, b0.creator)) = false := by
    intro y hy
    obtain ⟨b, hb, hst, rfl⟩ := hI.ofSett y hy
    refine key2_ne (fun e => ?_)
    rw [hsame b hb e] at hst
    exact hns hst
  have hnbin : nb ∈ s'.bets := (hmem nb).mpr (Or.inl rfl)
  refine ⟨⟨?_, ?_, ?_, ?_, ?_, ?_, ?_, ?_, ?_, ?_, ?_, ?_, ?_⟩, ⟨e5, e4, ?_, ?_⟩⟩
  · rw [e1, e4, upsert_length_old _ _ _ hI.sBets ⟨b0, hb0, hk0.symm⟩]
    exact hI.count
  · intro z hz
    rw [e4]
    rcases (hmem z).mp hz with h | ⟨h1, _⟩
    · rw [h, n1]; exact hI.idLo b0 hb0
    · exact hI.idLo z h1
  · intro k h1 h2
    rw [e4] at h2
    obtain ⟨b, hb, hk⟩ := hI.idSurj k h1 h2
    by_cases e : b.id = b0.id
    · exact ⟨nb, hnbin, by rw [n1, ← e, hk]⟩
    · exact ⟨b, (hmem b).mpr (Or.inr ⟨hb, e⟩), hk⟩
  · intro z hz z' hz' e
    rcases (hmem z).mp hz with h | ⟨h1, h2⟩ <;> rcases (hmem z').mp hz' with h' | ⟨h1', h2'⟩
    · rw [h, h']
    · exfalso; rw [h, n1] at e; exact h2' e.symm
    · exfalso; rw [h', n1] at e; exact h2 e
    · exact hI.idInj z h1 z' h1' e
  · intro z hz z' hz' e
    rcases (hmem z).mp hz with h | ⟨h1, h2⟩ <;> rcases (hmem z').mp hz' with h' | ⟨h1', h2'⟩
    · rw [h, h']
    · exfalso; rw [h, n3] at e
      rw [hI.uidInj z' h1' b0 hb0 e.symm] at h2'
      exact h2' rfl
    · exfalso; rw [h', n3] at e
      rw [hI.uidInj z h1 b0 hb0 e] at h2
      exact h2 rfl
    · exact hI.uidInj z h1 z' h1' e
  · rw [e1]; exact upsert_sorted _ _ _ hI.sBets
  · rw [e2]; exact remove_sorted _ _ _ hI.sPend
  · rw [e3]; exact upsert_sorted _ _ _ hI.sSett
  · intro z hz hst
    rcases (hmem z).mp hz with h | ⟨h1, h2⟩
    · rw [h] at hst; exact absurd n5 hst
    · exact (hpm _).mpr ⟨hI.pendOf z h1 hst, key2_ne h2⟩
  · intro z hz hst
    rcases (hmem z).mp hz with h | ⟨h1, h2⟩
    · rw [h, n6, n1, n3, n2]
      exact (hsm _).mpr (Or.inl rfl)
    · exact (hsm _).mpr (Or.inr ⟨hI.settOf z h1 hst, key2_ne h2⟩)
  · intro x hx
    obtain ⟨hx1, hx2⟩ := (hpm x).mp hx
    obtain ⟨b, hb, hst, rfl⟩ := hI.ofPend x hx1
    refine ⟨b, (hmem b).mpr (Or.inr ⟨hb, fun e => ?_⟩), hst, rfl⟩
    rw [hsame b hb e] at hx2
    simp [ikey] at hx2
  · intro x hx
    rcases (hsm x).mp hx with h | ⟨hx1, _⟩
    · exact ⟨nb, hnbin, n5, by rw [h, n6, n1, n3, n2]⟩
    · obtain ⟨b, hb, hst, rfl⟩ := hI.ofSett x hx1
      refine ⟨b, (hmem b).mpr (Or.inr ⟨hb, fun e => ?_⟩), hst, rfl⟩
      rw [hsame b hb e] at hst
      exact hns hst
  · rw [e1, e2, e3, upsert_length_old _ _ _ hI.sBets ⟨b0, hb0, hk0.symm⟩, upsert_length_new _ _ _ hfs]
    have hr : (remove ikey [b0.market, b0.id] s.pending).length + 1 = s.pending.length :=
      remove_length ikey (b0.market, b0.id, b0.uid, b0.creator) s.pending hI.sPend hpe
    have := hI.lens
    omega
  · intro b hb hst
    refine (hmem b).mpr (Or.inr ⟨hb, fun e => ?_⟩)
    rw [hsame b hb e] at hst
    exact hns hst
  · intro b' hb'
    rcases (hmem b').mp hb' with h | ⟨h1, _⟩
    · exact Or.inr ⟨b0, hb0, hns, res, by rw [h, hnb]⟩
    · exact Or.inl h1

/-- the wager's writes: a record with the next id and a new uid, and its pending entry -/
theorem wager_good {s s' : State} (hI : BetIdx s) (nb : Bet) (hid : nb.id = s.betCount + 1) (hst : nb.status ≠ BS_SETTLED)
    (hu : ∀ b ∈ s.bets, b.uid ≠ nb.uid)
    (e1 : s'.bets = upsert Bet.key nb s.bets)
    (e2 : s'.pending = upsert ikey (nb.market, nb.id, nb.uid, nb.creator) s.pending)
    (e3 : s'.settled = s.settled) (e4 : s'.betCount = s.betCount + 1) :
    BetIdx s' ∧ (∀ z, z ∈ s'.bets ↔ z = nb ∨ z ∈ s.bets) := by
  have hfresh : ∀ y ∈ s.bets, (Bet.key y == Bet.key nb) = false := by
    intro y hy
    have := (hI.idLo y hy).2
    exact key2_ne (by omega)
  have hmem : ∀ z, z ∈ s'.bets ↔ z = nb ∨ z ∈ s.bets := by
    intro z
    rw [e1, mem_upsert_iff _ _ _ _ hI.sBets]
    constructor
    · rintro (h | ⟨h1, _⟩)
      · exact Or.inl h
      · exact Or.inr h1
    · rintro (h | h1)
      · exact Or.inl h
      · exact Or.inr ⟨h1, hfresh z h1⟩
  have hpfresh : ∀ y ∈ s.pending, (ikey y == ikey (nb.market, nb.id, nb.uid, nb.creator)) = false := by
    intro y hy
    obtain ⟨b, hb, _, rfl⟩ := hI.ofPend y hy
    have := (hI.idLo b hb).2
    refine key2_ne (?_ : b.id ≠ nb.id)
    omega
  have hpm : ∀ x, x ∈ s'.pending ↔ x = (nb.market, nb.id, nb.uid, nb.creator) ∨ x ∈ s.pending := by
    intro x
    rw [e2, mem_upsert_iff _ _ _ _ hI.sPend]
    constructor
    · rintro (h | ⟨h1, _⟩)
      · exact Or.inl h
      · exact Or.inr h1
    · rintro (h | h1)
      · exact Or.inl h
      · exact Or.inr ⟨h1, hpfresh x h1⟩
  have hnbin : nb ∈ s'.bets := (hmem nb).mpr (Or.inl rfl)
  refine ⟨⟨?_, ?_, ?_, ?_, ?_, ?_, ?_, ?_, ?_, ?_, ?_, ?_, ?_⟩, hmem⟩
  · rw [e1, e4, upsert_length_new _ _ _ hfresh, hI.count]
  · intro z hz
    rw [e4]
    rcases (hmem z).mp hz with h | h1
    · rw [h, hid]; omega
    · have := hI.idLo z h1; omega
  · intro k h1 h2
    rw [e4] at h2
    by_cases e : k = s.betCount + 1
    · exact ⟨nb, hnbin, by rw [hid, e]⟩
    · obtain ⟨b, hb, hk⟩ := hI.idSurj k h1 (by omega)
      exact ⟨b, (hmem b).mpr (Or.inr hb), hk⟩
  · intro z hz z' hz' e
    rcases (hmem z).mp hz with h | h1 <;> rcases (hmem z').mp hz' with h' | h1'
    · rw [h, h']
    · exfalso; rw [h, hid] at e; have := (hI.idLo z' h1').2; omega
    · exfalso; rw [h', hid] at e; have := (hI.idLo z h1).2; omega
    · exact hI.idInj z h1 z' h1' e
  · intro z hz z' hz' e
    rcases (hmem z).mp hz with h | h1 <;> rcases (hmem z').mp hz' with h' | h1'
    · rw [h, h']
    · exfalso; rw [h] at e; exact hu z' h1' e.symm
    · exfalso; rw [h'] at e; exact hu z h1 e
    · exact hI.uidInj z h1 z' h1' e
  · rw [e1]; exact upsert_sorted _ _ _ hI.sBets
  · rw [e2]; exact upsert_sorted _ _ _ hI.sPend
  · rw [e3]; exact hI.sSett
  · intro z hz hs
    rcases (hmem z).mp hz with h | h1
    · rw [h]; exact (hpm _).mpr (Or.inl rfl)
    · exact (hpm _).mpr (Or.inr (hI.pendOf z h1 hs))
  · intro z hz hs
    rw [e3]
    rcases (hmem z).mp hz with h | h1
    · rw [h] at hs; exact absurd hs hst
    · exact hI.settOf z h1 hs
  · intro x hx
    rcases (hpm x).mp hx with h | h1
    · exact ⟨nb, hnbin, hst, h⟩
    · obtain ⟨b, hb, hs, e⟩ := hI.ofPend x h1
      exact ⟨b, (hmem b).mpr (Or.inr hb), hs, e⟩
  · intro x hx
    rw [e3] at hx
    obtain ⟨b, hb, hs, e⟩ := hI.ofSett x hx
    exact ⟨b, (hmem b).mpr (Or.inr hb), hs, e⟩
  · rw [e1, e2, e3, upsert_length_new _ _ _ hfresh, upsert_length_new _ _ _ hpfresh]
    have := hI.lens
    omega

-- ---------------------------------------------------------------------------------------------
-- frames: everything but the wager and the bet settlement leaves the bet stores alone

theorem bankSend_same {s s' : State} {a b : Nat} {x : Int} (h : bankSend s a b x = some s') : SameBets s s' := by
  obtain ⟨_, _, rfl⟩ := bankSend_shape h
  exact ⟨rfl, rfl, rfl, rfl, rfl⟩

theorem grantStep_same {s s' : State} {d : Bool} {g e k : Nat} {x : Int} (h : grantStep s d g e k x = some s') :
    SameBets s s' := by
  obtain ⟨_, rfl⟩ := grantStep_shape h
  exact ⟨rfl, rfl, rfl, rfl, rfl⟩

theorem marketAddO_same {s s' : State} {c : Nat} {tk : Tk} {u st en : Nat} {o : List Nat} {stt : Nat}
    (h : marketAddO s c tk u st en o stt = some s') : SameBets s s' := by
  unfold marketAddO at h
  simp only [bind, Option.bind_eq_some_iff, pure, Option.some.injEq] at h
  obtain ⟨_, _, _, _, _, _, _, _, _, _, _, _, _, _, rfl⟩ := h
  exact ⟨rfl, rfl, rfl, rfl, rfl⟩

theorem marketUpdateO_same {s s' : State} {tk : Tk} {u st en stt : Nat}
    (h : marketUpdateO s tk u st en stt = some s') : SameBets s s' := by
  unfold marketUpdateO at h
  simp only [bind, Option.bind_eq_some_iff, pure, Option.some.injEq] at h
  obtain ⟨_, _, _, _, _, _, _, _, _, _, rfl⟩ := h
  exact ⟨rfl, rfl, rfl, rfl, rfl⟩

theorem marketResolveO_same {s s' : State} {tk : Tk} {u ts stt : Nat} {w : List Nat}
    (h : marketResolveO s tk u ts stt w = some s') : SameBets s s' := by
  unfold marketResolveO at h
  simp only [bind, Option.bind_eq_some_iff, pure, Option.some.injEq] at h
  obtain ⟨_, _, _, _, _, _, _, _, _, _, rfl⟩ := h
  exact ⟨rfl, rfl, rfl, rfl, rfl⟩

theorem houseDepositO_same {s : State} {r : State × Nat} {c : Nat} {tk : Tk} {m : Nat} {a : Int} {pd : Nat}
    (h : houseDepositO s c tk m a pd = some r) : SameBets s r.1 := by
  unfold houseDepositO at h
  simp only [bind, Option.bind_eq_some_iff, pure, Option.some.injEq] at h
  obtain ⟨_, _, _, _, _, _, s1, h1, _, _, mk, _, b, _, _, _, _, _, _, _, _, _, s2, h2, s3, h3, rfl⟩ := h
  obtain ⟨_, rfl⟩ := grantStep_shape h1
  obtain ⟨_, _, rfl⟩ := bankSend_shape h2
  obtain ⟨_, _, rfl⟩ := bankSend_shape h3
  exact ⟨rfl, rfl, rfl, rfl, rfl⟩

theorem houseWithdrawO_same {s s' : State} {c : Nat} {tk : Tk} {m i md : Nat} {a : Int} {pd : Nat}
    (h : houseWithdrawO s c tk m i md a pd = some s') : SameBets s s' := by
  unfold houseWithdrawO at h
  simp only [bind, Option.bind_eq_some_iff, pure, Option.some.injEq] at h
  obtain ⟨_, _, _, _, _, _, _, _, _, _, d, _, b, _, _, _, w, _, s1, h1, p, _, s2, h2, b', _, rfl⟩ := h
  obtain ⟨_, rfl⟩ := grantStep_shape h1
  obtain ⟨_, _, rfl⟩ := bankSend_shape h2
  exact ⟨rfl, rfl, rfl, rfl, rfl⟩

theorem bookResolved_same {s s' : State} {u : Nat} (h : bookResolved s u = some s') : SameBets s s' := by
  unfold bookResolved at h
  simp only [bind, Option.bind_eq_some_iff, pure, Option.some.injEq] at h
  obtain ⟨_, _, _, _, rfl⟩ := h
  exact ⟨rfl, rfl, rfl, rfl, rfl⟩

theorem settlePart_same {s : State} {b : Book} {p : Part} {m : Market} {r : State × Book}
    (h : settlePart s b p m = some r) : SameBets s r.1 := by
  unfold settlePart at h
  simp only [bind, Option.bind_eq_some_iff] at h
  obtain ⟨_, _, _, _, s1, h1, h⟩ := h
  have e1 := bankSend_same h1
  split at h
  · simp only [Option.bind_eq_some_iff, pure, Option.some.injEq] at h
    obtain ⟨s2, h2, rfl⟩ := h
    exact e1.trans (bankSend_same h2)
  · simp only [Option.bind_eq_some_iff, pure, Option.some.injEq] at h
    obtain ⟨s2, h2, rfl⟩ := h
    exact e1.trans (bankSend_same h2)

theorem settleParts_same (m : Market) (count : Nat) : ∀ (ps : List Part) (s : State) (b : Book) (sc pr : Nat)
    (r : State × Book × Nat × Nat), settleParts m count ps s b sc pr = some r → SameBets s r.1 := by
  intro ps
  induction ps with
  | nil => intro s b sc pr r h; simp [settleParts] at h; rw [← h]; exact SameBets.refl s
  | cons p rest ih =>
    intro s b sc pr r h
    unfold settleParts at h
    simp only [bind, Option.bind_eq_some_iff] at h
    obtain ⟨r1, h1, h⟩ := h
    have e1 : SameBets s r1.1 := by
      unfold settleOne at h1
      split at h1
      · simp only [Option.map_eq_some_iff] at h1
        obtain ⟨x, hx, rfl⟩ := h1
        exact settlePart_same hx
      · cases h1; exact SameBets.refl s
    split at h
    · simp only [pure, Option.some.injEq] at h; rw [← h]; exact e1
    · exact e1.trans (ih _ _ _ _ _ h)

/-- the order-book end-blocker does not touch bets, indexes, counter or height -/
theorem obEndBlock_same : ∀ (fuel : Nat) (s : State) (n i : Nat) (s' : State),
    obEndBlock fuel s n i = some s' → SameBets s s' := by
  intro fuel
  induction fuel with
  | zero => intro s n i s' h; simp [obEndBlock] at h; rw [← h]; exact SameBets.refl s
  | succ fuel ih =>
    intro s n i s' h
    unfold obEndBlock at h
    split at h
    · simp at h; rw [← h]; exact SameBets.refl s
    · split at h
      · simp at h; rw [← h]; exact SameBets.refl s
      · simp only [bind, Option.bind_eq_some_iff] at h
        obtain ⟨b, _, m, _, _, _, r, hr, h⟩ := h
        have e := settleParts_same _ _ _ _ _ _ _ _ hr
        split at h
        · simp only [Option.bind_eq_some_iff] at h
          obtain ⟨q, _, h⟩ := h
          refine e.trans (SameBets.trans ?_ (ih _ _ _ _ h))
          exact ⟨rfl, rfl, rfl, rfl, rfl⟩
        · refine e.trans (SameBets.trans ?_ (ih _ _ _ _ h))
          exact ⟨rfl, rfl, rfl, rfl, rfl⟩

-- ---------------------------------------------------------------------------------------------
-- the bet end-blocker

/-- `Settle` finds a stored unsettled bet (whatever uid / creator it is called with) and hands it, marked as
    settled with a result, to `markSettled`; on the way only balances and the book change -/
theorem settleBet_shape {s s' : State} {c u : Nat} (h : settleBet s c u = some s') :
    ∃ (b0 : Bet) (s2 : State) (res : Nat), b0 ∈ s.bets ∧ b0.status ≠ BS_SETTLED ∧ SameBets s s2 ∧
      s' = markSettled s2 { b0 with status := BS_SETTLED, result := res } ∧
      b0.creator = c ∧ ∃ bet0 ∈ s.bets, bet0.uid = u ∧ bet0.id = b0.id := by
  unfold settleBet at h
  simp only [bind, Option.bind_eq_some_iff] at h
  obtain ⟨bet0, hf, bet, hb, _, hst, m, hm, h⟩ := h
  have hst := chk_some hst
  have hns : bet.status ≠ BS_SETTLED := by
    intro e; simp [e] at hst
  have hin : bet ∈ s.bets := by
    unfold lookup at hb
    exact List.mem_of_find?_eq_some hb
  have hk : bet.creator = c ∧ bet.id = bet0.id := by
    unfold lookup at hb
    have := List.find?_some hb
    simpa [Bet.key] using this
  have h0 : ∃ bet0 ∈ s.bets, bet0.uid = u ∧ bet0.id = bet.id :=
    ⟨bet0, List.mem_of_find?_eq_some hf, by simpa using List.find?_some hf, hk.2.symm⟩
  split at h
  · unfold settleRefund at h
    simp only [bind, Option.bind_eq_some_iff, pure, Option.some.injEq] at h
    obtain ⟨s1, h1, s2, h2, rfl⟩ := h
    exact ⟨bet, s2, BR_REFUNDED, hin, hns, (bankSend_same h1).trans (bankSend_same h2), rfl, hk.1, h0⟩
  · simp only [Option.bind_eq_some_iff] at h
    obtain ⟨_, _, h⟩ := h
    unfold settleDeclared at h
    simp only [bind, Option.bind_eq_some_iff, pure, Option.some.injEq] at h
    obtain ⟨bk, _, r, hr, s2, h2, rfl⟩ := h
    refine ⟨bet, s2, _, hin, hns, ?_, rfl, hk.1, h0⟩
    refine SameBets.trans ?_ (bankSend_same h2)
    exact ⟨rfl, rfl, rfl, rfl, rfl⟩

/-- under the invariant the two look-ups of `Settle` (by uid, then by (creator, id)) land on the same bet: the bet
    that is settled is the stored bet with the uid AND the creator `Settle` was called with -/
theorem settleBet_target {s s' : State} {c u : Nat} (hI : BetIdx s) (h : settleBet s c u = some s') :
    ∃ b0 ∈ s.bets, b0.uid = u ∧ b0.creator = c ∧ b0.status ≠ BS_SETTLED ∧ ∃ (s2 : State) (res : Nat), SameBets s s2 ∧
      s' = markSettled s2 { b0 with status := BS_SETTLED, result := res } := by
  obtain ⟨b0, s2, res, hb0, hns, e, hs', hc, bet0, hbet0, hu, hid⟩ := settleBet_shape h
  rw [hI.idInj bet0 hbet0 b0 hb0 hid] at hu
  exact ⟨b0, hb0, hu, hc, hns, s2, res, e, hs'⟩

theorem settleBet_good {s s' : State} {c u : Nat} (hI : BetIdx s) (h : settleBet s c u = some s') :
    BetIdx s' ∧ Settles s s' := by
  obtain ⟨b0, s2, res, hb0, hns, e, rfl, _⟩ := settleBet_shape h
  have g := settle_good (s' := markSettled s2 { b0 with status := BS_SETTLED, result := res }) (hI.of_same e) b0
    (by rw [e.1]; exact hb0) hns res rfl rfl rfl rfl rfl
  exact ⟨g.1, (Settles.of_same e).trans g.2⟩

theorem settlePage_good : ∀ (page : List (Nat × Nat × Nat × Nat)) (s : State) (r : State × Nat),
    BetIdx s → settlePage s page = some r → BetIdx r.1 ∧ Settles s r.1 := by
  intro page
  induction page with
  | nil => intro s r hI h; simp [settlePage] at h; rw [← h]; exact ⟨hI, Settles.refl s⟩
  | cons pb rest ih =>
    intro s r hI h
    unfold settlePage at h
    simp only [bind, Option.bind_eq_some_iff, pure, Option.some.injEq] at h
    obtain ⟨s1, h1, r1, hr, rfl⟩ := h
    have g1 := settleBet_good hI h1
    have g2 := ih _ _ g1.1 hr
    exact ⟨g2.1, g1.2.trans g2.2⟩

theorem betEndBlockStep_good {s : State} {mk n : Nat} {r : State × Nat} (hI : BetIdx s)
    (h : betEndBlockStep s mk n = some r) : BetIdx r.1 ∧ Settles s r.1 := by
  unfold betEndBlockStep at h
  simp only [bind, Option.bind_eq_some_iff] at h
  obtain ⟨r0, h0, h⟩ := h
  have g0 := settlePage_good _ _ _ hI h0
  split at h
  · simp only [pure, Option.some.injEq] at h; rw [← h]; exact g0
  · simp only [Option.bind_eq_some_iff, pure, Option.some.injEq] at h
    obtain ⟨q, _, s2, h2, rfl⟩ := h
    have e : SameBets r0.1 s2 := by
      refine SameBets.trans ?_ (bookResolved_same h2)
      exact ⟨rfl, rfl, rfl, rfl, rfl⟩
    exact ⟨g0.1.of_same e, g0.2.trans (Settles.of_same e)⟩

theorem betEndBlock_good : ∀ (fuel : Nat) (s : State) (n : Nat) (s' : State),
    BetIdx s → betEndBlock fuel s n = some s' → BetIdx s' ∧ Settles s s' := by
  intro fuel
  induction fuel with
  | zero => intro s n s' hI h; simp [betEndBlock] at h; rw [← h]; exact ⟨hI, Settles.refl s⟩
  | succ fuel ih =>
    intro s n s' hI h
    unfold betEndBlock at h
    split at h
    · simp at h; rw [← h]; exact ⟨hI, Settles.refl s⟩
    · split at h
      · simp at h; rw [← h]; exact ⟨hI, Settles.refl s⟩
      · simp only [bind, Option.bind_eq_some_iff] at h
        obtain ⟨r, hr, h⟩ := h
        have g1 := betEndBlockStep_good hI hr
        have g2 := ih _ _ _ g1.1 h
        exact ⟨g2.1, g1.2.trans g2.2⟩

theorem endBlockO_good {s s' : State} (hI : BetIdx s) (h : endBlockO s = some s') : BetIdx s' ∧ Settles s s' := by
  unfold endBlockO at h
  simp only [bind, Option.bind_eq_some_iff] at h
  obtain ⟨s1, h1, h2⟩ := h
  have g1 := betEndBlock_good _ _ _ _ hI h1
  have e := obEndBlock_same _ _ _ _ _ h2
  exact ⟨g1.1.of_same e, g1.2.trans (Settles.of_same e)⟩

-- ---------------------------------------------------------------------------------------------
-- the wager

theorem wagerO_good {s s' : State} {c : Nat} {tk : Tk} {u : Nat} {a : Int} {pl : WagerPayload} (hI : BetIdx s)
    (h : wagerO s c tk u a pl = some s') :
    BetIdx s' ∧ ∃ nb : Bet, nb.status = BS_PLACED ∧ nb.id = s.betCount + 1 ∧ nb.uid = u ∧ nb.creator = c ∧
      nb.market = pl.market ∧ ∀ z, z ∈ s'.bets ↔ z = nb ∨ z ∈ s.bets := by
  unfold wagerO at h
  simp only [bind, Option.bind_eq_some_iff, pure, Option.some.injEq] at h
  obtain ⟨_, _, _, h2, _, _, _, _, _, _, _, _, _, _, m, _, _, _, _, _, _, _, _, _, _, _, _, _, ov, _, _, _, b, _, r, _, s1, hs1, s2, hs2, hfin⟩ := h
  have h2 := chk_some h2
  obtain ⟨_, _, rfl⟩ := bankSend_shape hs1
  obtain ⟨_, _, rfl⟩ := bankSend_shape hs2
  have hu : ∀ b ∈ s.bets, b.uid ≠ (newBet s c u pl ov r.2.1).uid := by
    intro b hb hu
    simp only [Bool.not_eq_true', List.any_eq_false, beq_iff_eq] at h2
    exact h2 b hb hu
  have hne : (newBet s c u pl ov r.2.1).status ≠ BS_SETTLED := by
    show BS_PLACED ≠ BS_SETTLED
    decide
  have W := wager_good (s' := s') hI (newBet s c u pl ov r.2.1) rfl hne hu (by subst hfin; rfl) (by subst hfin; rfl)
    (by subst hfin; rfl) (by subst hfin; rfl)
  exact ⟨W.1, newBet s c u pl ov r.2.1, rfl, rfl, rfl, rfl, rfl, W.2⟩

-- ---------------------------------------------------------------------------------------------
-- every operation, every history

/-- how one operation may change the bet records: a settled record stays as it is; a settled record of the new
    state is an old record, or — only in an end-block — an unsettled old record settled at the block's height -/
def StepRel (s : State) (op : Op) (s' : State) : Prop :=
  (∀ b ∈ s.bets, b.status = BS_SETTLED → b ∈ s'.bets) ∧
  (∀ b' ∈ s'.bets, b'.status = BS_SETTLED → b' ∈ s.bets ∨ (op = .endBlock ∧ ∃ b0 ∈ s.bets, b0.status ≠ BS_SETTLED ∧
    ∃ res, b' = { b0 with status := BS_SETTLED, result := res, settleHeight := s.height }))

theorem StepRel.of_eq {s s' : State} {op : Op} (e : s'.bets = s.bets) : StepRel s op s' :=
  ⟨fun b hb _ => by rw [e]; exact hb, fun b hb _ => Or.inl (by rw [← e]; exact hb)⟩

theorem commit_good {s : State} {r : Option State} (op : Op) (hI : BetIdx s) (h : ∀ s', r = some s' → SameBets s s') :
    BetIdx (commit s r).1 ∧ StepRel s op (commit s r).1 := by
  unfold commit
  cases r with
  | none => exact ⟨hI, StepRel.of_eq rfl⟩
  | some s' => exact ⟨hI.of_same (h s' rfl), StepRel.of_eq (h s' rfl).1⟩

theorem step_good (s : State) (op : Op) (hI : BetIdx s) : BetIdx (step s op).1 ∧ StepRel s op (step s op).1 := by
  cases op with
  | marketAdd c tk u st en o stt => exact commit_good _ hI (fun _ h => marketAddO_same h)
  | marketUpdate tk u st en stt => exact commit_good _ hI (fun _ h => marketUpdateO_same h)
  | marketResolve tk u ts stt w => exact commit_good _ hI (fun _ h => marketResolveO_same h)
  | deposit c tk m a pd =>
    simp only [step, houseDeposit]
    cases h : houseDepositO s c tk m a pd with
    | none => exact ⟨hI, StepRel.of_eq rfl⟩
    | some r => exact ⟨hI.of_same (houseDepositO_same h), StepRel.of_eq (houseDepositO_same h).1⟩
  | withdraw c tk m i md a pd => exact commit_good _ hI (fun _ h => houseWithdrawO_same h)
  | wager c tk u a pl =>
    simp only [step, wager, commit]
    cases h : wagerO s c tk u a pl with
    | none => exact ⟨hI, StepRel.of_eq rfl⟩
    | some s' =>
      obtain ⟨hI', nb, hst, _, _, _, _, hmem⟩ := wagerO_good hI h
      refine ⟨hI', fun b hb _ => (hmem b).mpr (Or.inr hb), fun b' hb' hs => ?_⟩
      rcases (hmem b').mp hb' with e | hin
      · rw [e, hst] at hs; cases hs
      · exact Or.inl hin
  | grant g e k l x => exact ⟨hI.of_eq rfl rfl rfl rfl, StepRel.of_eq rfl⟩
  | revoke g e k => exact ⟨hI.of_eq rfl rfl rfl rfl, StepRel.of_eq rfl⟩
  | send a b x =>
    simp only [step]
    split
    · exact ⟨hI, StepRel.of_eq rfl⟩
    · exact commit_good _ hI (fun _ h => bankSend_same h)
  | setParams p =>
    simp only [step]
    split
    · exact ⟨hI.of_eq rfl rfl rfl rfl, StepRel.of_eq rfl⟩
    · exact ⟨hI, StepRel.of_eq rfl⟩
  | endBlock =>
    simp only [step, endBlock]
    cases h : endBlockO s with
    | none => exact ⟨hI, StepRel.of_eq rfl⟩
    | some s' =>
      obtain ⟨hI', g⟩ := endBlockO_good hI h
      refine ⟨hI', g.keeps, fun b' hb' _ => ?_⟩
      rcases g.origin b' hb' with hin | hx
      · exact Or.inl hin
      · exact Or.inr ⟨rfl, hx⟩
  | newBlock h t => exact ⟨hI.of_eq rfl rfl rfl rfl, StepRel.of_eq rfl⟩

theorem betIdx_init (p : Params) (bal : List (Nat × Int)) (h t : Nat) :
    BetIdx { bal := bal, params := p, height := h, time := t } := by
  refine ⟨rfl, ?_, ?_, ?_, ?_, ?_, ?_, ?_, ?_, ?_, ?_, ?_, rfl⟩
  · intro b hb; cases hb
  · intro k h1 h2
    have : k ≤ 0 := h2
    omega
  · intro b hb; cases hb
  · intro b hb; cases hb
  · exact List.Pairwise.nil
  · exact List.Pairwise.nil
  · exact List.Pairwise.nil
  · intro b hb; cases hb
  · intro b hb; cases hb
  · intro b hb; cases hb
  · intro b hb; cases hb

theorem step_betIdx (s : State) (op : Op) (hI : BetIdx s) : BetIdx (step s op).1 := (step_good s op hI).1

/-- (same statement as `run_append` of C15.lean, which this file does not import) -/
theorem run_split (s : State) (ops1 ops2 : List Op) : run s (ops1 ++ ops2) = run (run s ops1) ops2 := by
  unfold run
  rw [List.foldl_append]

theorem run_betIdx (s : State) (ops : List Op) (hI : BetIdx s) : BetIdx (run s ops) := by
  induction ops generalizing s with
  | nil => exact hI
  | cons op rest ih => exact ih _ (step_betIdx s op hI)

/-- a settled bet record is in every later state, unchanged -/
theorem run_keeps (s : State) (ops : List Op) (hI : BetIdx s) (b : Bet) (hb : b ∈ s.bets) (hst : b.status = BS_SETTLED) :
    b ∈ (run s ops).bets := by
  induction ops generalizing s with
  | nil => exact hb
  | cons op rest ih =>
    have g := step_good s op hI
    exact ih _ g.1 (g.2.1 b hb hst)

end Sge.Core
