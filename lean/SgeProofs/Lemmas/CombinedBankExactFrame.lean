/-
  bank = available on the combined slice, part 4: who is named by the core stores. `cmb2_CFrame s s'`: every bettor and
  every market creator of `s'` is one of `s` or a key-holding account; every participation of `s'` belongs to the
  depositor of the participation under the same key in `s`, to a key-holding account, or to an address with an account
  summary. Kept by every combined operation whose signers are key-holding accounts; consequences: no address of the
  subaccount range is ever a bettor or a market creator (`cmb2_Keys`), and every participation of such an address
  belongs to an existing subaccount (`cmb2_Owned`).
-/
import SgeProofs.Lemmas.CombinedBankExactSteps
namespace Sge.Combined
open Sge Sge.Core Sge.Genesis
open Sge.Subaccount (Summary SumNonneg spend_some unspend_some addLoss_some withdraw_some)

/-- bettors and market creators are key-holding accounts -/
def cmb2_Keys (c : Core.State) : Prop := (∀ b ∈ c.bets, b.creator < SUB_BASE) ∧ (∀ m ∈ c.markets, m.creator < SUB_BASE)

theorem cmb2_Keys.noPay {c : Core.State} (h : cmb2_Keys c) (x : Nat) (hx : SUB_BASE ≤ x) : cmb2_NoPay x c :=
  ⟨fun b hb e => by have := h.1 b hb; omega, fun m hm e => by have := h.2 m hm; omega⟩

structure cmb2_CFrame (s s' : State) : Prop where
  bets : ∀ b' ∈ s'.core.bets, b'.creator < SUB_BASE ∨ ∃ b ∈ s.core.bets, b'.creator = b.creator
  mks : ∀ m' ∈ s'.core.markets, m'.creator < SUB_BASE ∨ ∃ m ∈ s.core.markets, m'.creator = m.creator
  parts : ∀ u b' i p', getBook s'.core u = some b' → b'.getPart i = some p' →
    p'.addr < SUB_BASE ∨ (aget s'.subs p'.addr).isSome ∨ ∃ b p, getBook s.core u = some b ∧ b.getPart i = some p ∧ p'.addr = p.addr
  dom : ∀ a, (aget s.subs a).isSome → (aget s'.subs a).isSome

theorem cmb2_CFrame.of_same {s s' : State} (e1 : s'.core.bets = s.core.bets) (e2 : s'.core.markets = s.core.markets)
    (e3 : s'.core.books = s.core.books) (hd : ∀ a, (aget s.subs a).isSome → (aget s'.subs a).isSome) : cmb2_CFrame s s' := by
  refine ⟨?_, ?_, ?_, hd⟩
  · intro b hb; rw [e1] at hb; exact Or.inr ⟨b, hb, rfl⟩
  · intro m hm; rw [e2] at hm; exact Or.inr ⟨m, hm, rfl⟩
  · intro u b i p hb hp
    rw [getBook_congr e3 u] at hb
    exact Or.inr (Or.inr ⟨b, p, hb, hp, rfl⟩)

theorem cmb2_CFrame.refl (s : State) : cmb2_CFrame s s := cmb2_CFrame.of_same rfl rfl rfl (fun _ h => h)

/-- the same core component, more account summaries -/
theorem cmb2_CFrame.mono_subs {s s1 s2 : State} (k : cmb2_CFrame s s1) (hc : s2.core = s1.core)
    (hd : ∀ a, (aget s1.subs a).isSome → (aget s2.subs a).isSome) : cmb2_CFrame s s2 := by
  refine ⟨by rw [hc]; exact k.bets, by rw [hc]; exact k.mks, ?_, fun a h => hd a (k.dom a h)⟩
  intro u b' i p' hb' hp'
  rw [hc] at hb'
  rcases k.parts u b' i p' hb' hp' with h | h | h
  · exact Or.inl h
  · exact Or.inr (Or.inl (hd _ h))
  · exact Or.inr (Or.inr h)

theorem cmb2_CFrame.trans {s1 s2 s3 : State} (h1 : cmb2_CFrame s1 s2) (h2 : cmb2_CFrame s2 s3) : cmb2_CFrame s1 s3 := by
  refine ⟨?_, ?_, ?_, fun a h => h2.dom a (h1.dom a h)⟩
  · intro b3 hb3
    rcases h2.bets b3 hb3 with h | ⟨b2, hb2, e⟩
    · exact Or.inl h
    · rcases h1.bets b2 hb2 with h | ⟨b1, hb1, e1⟩
      · exact Or.inl (by rw [e]; exact h)
      · exact Or.inr ⟨b1, hb1, e.trans e1⟩
  · intro m3 hm3
    rcases h2.mks m3 hm3 with h | ⟨m2, hm2, e⟩
    · exact Or.inl h
    · rcases h1.mks m2 hm2 with h | ⟨m1, hm1, e1⟩
      · exact Or.inl (by rw [e]; exact h)
      · exact Or.inr ⟨m1, hm1, e.trans e1⟩
  · intro u b3 i p3 hb3 hp3
    rcases h2.parts u b3 i p3 hb3 hp3 with h | h | ⟨b2, p2, hb2, hp2, e⟩
    · exact Or.inl h
    · exact Or.inr (Or.inl h)
    · rcases h1.parts u b2 i p2 hb2 hp2 with h | h | ⟨b1, p1, hb1, hp1, e1⟩
      · exact Or.inl (by rw [e]; exact h)
      · exact Or.inr (Or.inl (by rw [e]; exact h2.dom _ h))
      · exact Or.inr (Or.inr ⟨b1, p1, hb1, hp1, e.trans e1⟩)

theorem cmb2_CFrame.keys {s s' : State} (h : cmb2_CFrame s s') (hK : cmb2_Keys s.core) : cmb2_Keys s'.core := by
  constructor
  · intro b hb
    rcases h.bets b hb with h1 | ⟨b0, hb0, e⟩
    · exact h1
    · rw [e]; exact hK.1 b0 hb0
  · intro m hm
    rcases h.mks m hm with h1 | ⟨m0, hm0, e⟩
    · exact h1
    · rw [e]; exact hK.2 m0 hm0

theorem cmb2_CFrame.owned {s s' : State} (h : cmb2_CFrame s s') (hO : cmb2_Owned s) : cmb2_Owned s' := by
  intro u b' i p' hb' hp' hge
  rcases h.parts u b' i p' hb' hp' with h1 | h1 | ⟨b, p, hb, hp, e⟩
  · omega
  · exact h1
  · rw [e]
    exact h.dom _ (hO u b i p hb hp (by rw [← e]; exact hge))

-- ---------------------------------------------------------------------------------------------
-- building blocks

theorem cmb2_send_core {s s' : State} {a b : Nat} {v : Int} (h : send s a b v = some s') :
    s'.core.bets = s.core.bets ∧ s'.core.markets = s.core.markets ∧ s'.core.books = s.core.books ∧ s'.subs = s.subs := by
  unfold send at h
  cases hc : bankSend s.core a b v with
  | none => simp [hc] at h
  | some c =>
    simp only [hc, Option.map_some, Option.some.injEq] at h
    subst h
    obtain ⟨bal', _, rfl⟩ := bankSend_shape hc
    exact ⟨rfl, rfl, rfl, rfl⟩

theorem cmb2_dom_setSub (s : State) (a : Nat) (r : SubRec) (x : Nat) (h : (aget s.subs x).isSome) :
    (aget (s.setSub a r).subs x).isSome := by
  unfold State.setSub
  simp only [cmb_aget_aset]
  split
  · rfl
  · exact h

/-- a bank send followed by a rewrite of one record -/
theorem cmb2_cframe_send_setSub {s s1 : State} {src dst : Nat} {v : Int} (h : send s src dst v = some s1) (a : Nat) (r : SubRec) :
    cmb2_CFrame s (s1.setSub a r) := by
  obtain ⟨e1, e2, e3, e4⟩ := cmb2_send_core h
  have k : cmb2_CFrame s s1 := cmb2_CFrame.of_same e1 e2 e3 (by intro x hx; rw [e4]; exact hx)
  refine cmb2_CFrame.mono_subs k ?_ ?_
  · rfl
  · exact fun x hx => cmb2_dom_setSub _ _ _ _ hx

theorem cmb2_topUp_cframe {s s' : State} {creator owner : Nat} {ls : List Sge.Subaccount.Lock}
    (h : topUpO s creator owner ls = some s') : cmb2_CFrame s s' := by
  unfold topUpO at h
  simp only [bind, Option.bind_eq_some_iff, pure, Option.some.injEq] at h
  obtain ⟨_, _, total, _, a, ha, r, hr, _, _, s1, hs1, rfl⟩ := h
  exact cmb2_cframe_send_setSub hs1 _ _

theorem cmb2_withdrawUnlocked_cframe {s s' : State} {owner : Nat} (h : withdrawUnlockedO s owner = some s') : cmb2_CFrame s s' := by
  unfold withdrawUnlockedO at h
  simp only [bind, Option.bind_eq_some_iff, pure, Option.some.injEq] at h
  obtain ⟨a, ha, r, hr, _, _, sum', hw, s1, hs1, rfl⟩ := h
  exact cmb2_cframe_send_setSub hs1 _ _

theorem cmb2_withdrawLocked_cframe {s s' : State} {a owner : Nat} {d : Int} (h : withdrawLockedO s a owner d = some s') :
    cmb2_CFrame s s' := by
  unfold withdrawLockedO at h
  simp only [bind, Option.bind_eq_some_iff, pure, Option.some.injEq] at h
  obtain ⟨r, hr, _, _, s1, hs1, sum', hw, rfl⟩ := h
  exact cmb2_cframe_send_setSub hs1 _ _

theorem cmb2_returnToSub_cframe {s s' : State} {a owner : Nat} {v : Int} (h : returnToSubO s a owner v = some s') :
    cmb2_CFrame s s' := by
  unfold returnToSubO at h
  split at h
  · cases h; exact cmb2_CFrame.refl _
  · simp only [bind, Option.bind_eq_some_iff, pure, Option.some.injEq] at h
    obtain ⟨r, hr, _, _, s1, hs1, rfl⟩ := h
    exact cmb2_cframe_send_setSub hs1 _ _

theorem cmb2_create_cframe {s s' : State} {creator owner : Nat} {ls : List Sge.Subaccount.Lock}
    (h : createO s creator owner ls = some s') : cmb2_CFrame s s' := by
  unfold createO at h
  simp only [bind, Option.bind_eq_some_iff, pure, Option.some.injEq] at h
  obtain ⟨_, _, total, _, _, _, s1, hs1, rfl⟩ := h
  obtain ⟨e1, e2, e3, e4⟩ := cmb2_send_core hs1
  have k : cmb2_CFrame s s1 := cmb2_CFrame.of_same e1 e2 e3 (by intro x hx; rw [e4]; exact hx)
  refine cmb2_CFrame.mono_subs k ?_ ?_
  · rfl
  intro x hx
  show (aget (aset s.subs _ _) x).isSome
  simp only [cmb_aget_aset]
  split
  · rfl
  · rw [e4] at hx; exact hx

/-- a wager of a key-holding bettor on the core component -/
theorem cmb2_wagerO_cframe {s : State} {c : Core.State} {cr : Nat} {tk : Tk} {uid : Nat} {amount : Int} {pl : WagerPayload}
    (hB : BetIdx s.core) (hs : cmb2_Srt s.core) (hP : cmb2_PartsOK s.core) (hcr : cr < SUB_BASE)
    (h : wagerO s.core cr tk uid amount pl = some c) : cmb2_CFrame s { s with core := c } := by
  obtain ⟨_, nb, _, _, _, hnc, _, hmem⟩ := wagerO_good hB h
  have hq := cmb2_wagerO_quiet hs hP h
  refine ⟨?_, ?_, ?_, fun _ h => h⟩
  · intro b hb
    rcases (hmem b).mp hb with e | e
    · left; rw [e, hnc]; exact hcr
    · exact Or.inr ⟨b, e, rfl⟩
  · intro m hm
    have : c.markets = s.core.markets := (wagerO_markets h).1
    have hm' : m ∈ c.markets := hm
    rw [this] at hm'
    exact Or.inr ⟨m, hm', rfl⟩
  · intro u b' i p' hb' hp'
    obtain ⟨_, b, p, hb, hp, _, _, e, _⟩ := hq u b' i p' hb' hp'
    exact Or.inr (Or.inr ⟨b, p, hb, hp, e⟩)

theorem cmb2_subWager_cframe {s s' : State} {owner : Nat} {outerOk : Bool} {ic : Nat} {main sub : Int} {tk : Tk} {uid : Nat}
    {amount : Int} {pl : WagerPayload} (hB : BetIdx s.core) (hs : cmb2_Srt s.core) (hP : cmb2_PartsOK s.core)
    (hU : ∀ o a, aget s.owners o = some a → isUser o)
    (h : subWagerO s owner outerOk ic main sub tk uid amount pl = some s') : cmb2_CFrame s s' := by
  unfold subWagerO at h
  simp only [bind, Option.bind_eq_some_iff, pure, Option.some.injEq] at h
  obtain ⟨_, _, a, ha, _, _, _, _, _, _, _, _, _, _, s1, hs1, s2, hs2, h3⟩ := h
  have ho := hU owner a ha
  have k1 := cmb2_withdrawLocked_cframe hs1
  have hb1 := cmb2_withdrawLocked_books hs1
  have k3 := cmb2_returnToSub_cframe h3
  have k2 : cmb2_CFrame s1 s2 := by
    unfold subWagerBet at hs2
    cases hc : wagerO s1.core owner tk uid amount pl with
    | none => simp [hc] at hs2
    | some c =>
      simp only [hc, Option.map_some, Option.some.injEq] at hs2
      subst hs2
      have hB1 : BetIdx s1.core := by
        unfold withdrawLockedO at hs1
        simp only [bind, Option.bind_eq_some_iff, pure, Option.some.injEq] at hs1
        obtain ⟨r, hr, _, _, t1, ht1, sum', hw, rfl⟩ := hs1
        unfold send at ht1
        cases hcc : bankSend s.core a owner sub with
        | none => simp [hcc] at ht1
        | some cc =>
          simp only [hcc, Option.map_some, Option.some.injEq] at ht1
          subst ht1
          exact hB.of_same (bankSend_same hcc)
      exact cmb2_wagerO_cframe hB1 (cmb2_srt_congr hb1 hs) (cmb2_partsOK_congr hb1 hP) ho.1 hc
  exact (k1.trans k2).trans k3

theorem cmb2_subDeposit_cframe {s s' : State} {owner : Nat} {tk : Tk} {market : Nat} {amount : Int} {pd : Nat}
    (hR : InRange s) (hU : ∀ o a, aget s.owners o = some a → isUser o)
    (h : subDepositO s owner tk market amount pd = some s') : cmb2_CFrame s s' := by
  unfold subDepositO at h
  simp only [bind, Option.bind_eq_some_iff, pure, Option.some.injEq] at h
  obtain ⟨_, _, a, ha, r, hr, _, _, sum', hsp, c, hc, rfl⟩ := h
  have ho := hU owner a ha
  have hra := hR.of hr
  unfold subDepositCore at hc
  cases hd : houseDepositO (putGrant s.core a owner 0 amount) owner (tkWith tk (tk.kycOk owner)) market amount a with
  | none => simp [hd] at hc
  | some res =>
    simp only [hd, Option.map_some, Option.some.injEq] at hc
    obtain ⟨k0, hf⟩ := cmb2_houseDepositO_frame hd
    rw [cmb2_subAddr_ne hra ho.1, hc] at hf
    have hsame := houseDepositO_same hd
    have hmk := (houseDepositO_markets hd).1
    rw [hc] at hsame hmk
    refine ⟨?_, ?_, ?_, fun x hx => cmb2_dom_setSub _ _ _ _ hx⟩
    · intro b hb
      have hb' : b ∈ c.bets := hb
      rw [hsame.1] at hb'
      exact Or.inr ⟨b, hb', rfl⟩
    · intro m hm
      have hm' : m ∈ c.markets := hm
      rw [hmk] at hm'
      exact Or.inr ⟨m, hm', rfl⟩
    · intro u b' i p' hb' hp'
      have hb'' : getBook c u = some b' := hb'
      rcases hf.2.2 u b' i p' hb'' hp' with ⟨b, hb, hp⟩ | ⟨_, e, _⟩
      · exact Or.inr (Or.inr ⟨b, p', hb, hp, rfl⟩)
      · right; left
        rw [e]
        show (aget (aset s.subs a _) a).isSome
        simp [cmb_aget_aset]

theorem cmb2_subWithdraw_cframe {s s' : State} {owner : Nat} {tk : Tk} {market idx mode : Nat} {amount : Int} {pd : Nat}
    (h : subWithdrawO s owner tk market idx mode amount pd = some s') : cmb2_CFrame s s' := by
  unfold subWithdrawO at h
  simp only [bind, Option.bind_eq_some_iff, pure, Option.some.injEq] at h
  obtain ⟨a, ha, r, hr, w, hw, c, hc, sum', hus, rfl⟩ := h
  unfold subWithdrawCore at hc
  obtain ⟨w', p0, _, hf⟩ := cmb2_houseWithdrawO_frame hc
  have hsame := houseWithdrawO_same hc
  have hmk := (houseWithdrawO_markets hc).1
  obtain ⟨⟨b0, hb0, hp0⟩, _, _, _, _, hall⟩ := hf
  refine ⟨?_, ?_, ?_, fun x hx => cmb2_dom_setSub _ _ _ _ hx⟩
  · intro b hb
    have hb' : b ∈ c.bets := hb
    rw [hsame.1] at hb'
    exact Or.inr ⟨b, hb', rfl⟩
  · intro m hm
    have hm' : m ∈ c.markets := hm
    rw [hmk] at hm'
    exact Or.inr ⟨m, hm', rfl⟩
  · intro u b' i p' hb' hp'
    have hb'' : getBook c u = some b' := hb'
    rcases hall u b' i p' hb'' hp' with ⟨_, b, hb, hp⟩ | ⟨ek, e⟩
    · exact Or.inr (Or.inr ⟨b, p', hb, hp, rfl⟩)
    · simp only [Prod.mk.injEq] at ek
      refine Or.inr (Or.inr ⟨b0, p0, by rw [ek.1]; exact hb0, by rw [ek.2]; exact hp0, by rw [e]⟩)

-- ---------------------------------------------------------------------------------------------
-- hooks

theorem cmb2_applyHook_cframe {s s' : State} {hc : HookCall} (h : applyHook s hc = some s') : cmb2_CFrame s s' := by
  cases hc with
  | win hs orig profit =>
    simp only [applyHook] at h
    split at h
    · cases h; exact cmb2_CFrame.refl _
    · simp only [bind, Option.bind_eq_some_iff, pure, Option.some.injEq] at h
      obtain ⟨sum', _, owner, ho, s1, hs1, rfl⟩ := h
      exact cmb2_cframe_send_setSub hs1 _ _
  | loss hs orig lost =>
    simp only [applyHook] at h
    split at h
    · cases h; exact cmb2_CFrame.refl _
    · simp only [bind, Option.bind_eq_some_iff, pure, Option.some.injEq] at h
      obtain ⟨sum1, _, sum', _, rfl⟩ := h
      exact cmb2_CFrame.of_same rfl rfl rfl (fun x hx => cmb2_dom_setSub _ _ _ _ hx)
  | refund hs orig =>
    simp only [applyHook] at h
    split at h
    · cases h; exact cmb2_CFrame.refl _
    · simp only [bind, Option.bind_eq_some_iff, pure, Option.some.injEq] at h
      obtain ⟨sum', _, rfl⟩ := h
      exact cmb2_CFrame.of_same rfl rfl rfl (fun x hx => cmb2_dom_setSub _ _ _ _ hx)

theorem cmb2_applyHooks_cframe : ∀ (l : List HookCall) {s s' : State}, applyHooks s l = some s' → cmb2_CFrame s s' := by
  intro l
  induction l with
  | nil => intro s s' h; simp only [applyHooks, Option.some.injEq] at h; subst h; exact cmb2_CFrame.refl _
  | cons x xs ih =>
    intro s s' h
    simp only [applyHooks, bind, Option.bind_eq_some_iff] at h
    obtain ⟨s1, h1, h2⟩ := h
    exact (cmb2_applyHook_cframe h1).trans (ih h2)

-- ---------------------------------------------------------------------------------------------
-- core operations

theorem cmb2_mem_setMarket {s : Core.State} {m x : Market} (h : x ∈ (setMarket s m).markets) : x = m ∨ x ∈ s.markets :=
  mem_upsert_or Market.key m x s.markets h

/-- a core end-block on the core component -/
theorem cmb2_endBlockO_cframe {s : State} {c : Core.State} (hB : BetIdx s.core) (hA : RetAll s.core) (hP : cmb2_PartsOK s.core)
    (h : Core.endBlockO s.core = some c) : cmb2_CFrame s { s with core := c } := by
  obtain ⟨_, hS⟩ := endBlockO_good hB h
  have hq := cmb2_endBlockO_quiet hA hP h
  refine ⟨?_, ?_, ?_, fun _ h => h⟩
  · intro b hb
    rcases hS.origin b hb with e | ⟨b0, hb0, _, res, e⟩
    · exact Or.inr ⟨b, e, rfl⟩
    · exact Or.inr ⟨b0, hb0, by rw [e]⟩
  · intro m hm
    have hm' : m ∈ c.markets := hm
    rw [endBlockO_markets h] at hm'
    exact Or.inr ⟨m, hm', rfl⟩
  · intro u b' i p' hb' hp'
    obtain ⟨_, b, p, hb, hp, _, _, e, _⟩ := hq u b' i p' hb' hp'
    exact Or.inr (Or.inr ⟨b, p, hb, hp, e⟩)

theorem cmb2_coreStep_cframe (s : State) (op : Core.Op) (hne : op ≠ .endBlock) (hwf : (Op.core op).wfU)
    (hcl : (Op.core op).clean = true) (hB : BetIdx s.core) (hA : RetAll s.core) (hP : cmb2_PartsOK s.core) :
    cmb2_CFrame s (coreStep s op).1 := by
  have same : ∀ c : Core.State, c.bets = s.core.bets → c.markets = s.core.markets → c.books = s.core.books →
      cmb2_CFrame s { s with core := c } := fun c e1 e2 e3 => cmb2_CFrame.of_same e1 e2 e3 (fun _ h => h)
  cases op with
  | marketAdd cr tk u st en o stt =>
    show cmb2_CFrame s { s with core := (Core.step s.core (.marketAdd cr tk u st en o stt)).1 }
    simp only [Core.step, Core.marketAdd, Core.commit]
    cases h : marketAddO s.core cr tk u st en o stt with
    | none => exact cmb2_CFrame.refl _
    | some c' =>
      have hq := cmb2_marketAddO_quiet hP h
      have hsame := marketAddO_same h
      have hcr : cr < SUB_BASE := of_decide_eq_true hcl
      unfold marketAddO at h
      simp only [bind, Option.bind_eq_some_iff, pure, Option.some.injEq] at h
      obtain ⟨_, _, _, _, _, _, _, _, _, _, _, _, _, _, rfl⟩ := h
      refine ⟨?_, ?_, ?_, fun _ h => h⟩
      · intro b hb
        exact Or.inr ⟨b, by rw [← hsame.1]; exact hb, rfl⟩
      · intro m hm
        rcases cmb2_mem_setMarket hm with e | e
        · left; rw [e]; exact hcr
        · exact Or.inr ⟨m, e, rfl⟩
      · intro v b' i p' hb' hp'
        obtain ⟨_, b, p, hb, hp, _, _, e, _⟩ := hq v b' i p' hb' hp'
        exact Or.inr (Or.inr ⟨b, p, hb, hp, e⟩)
  | marketUpdate tk u st en stt =>
    show cmb2_CFrame s { s with core := (Core.step s.core (.marketUpdate tk u st en stt)).1 }
    simp only [Core.step, Core.marketUpdate, Core.commit]
    cases h : marketUpdateO s.core tk u st en stt with
    | none => exact cmb2_CFrame.refl _
    | some c' =>
      unfold marketUpdateO at h
      simp only [bind, Option.bind_eq_some_iff, pure, Option.some.injEq] at h
      obtain ⟨_, _, m0, hm0, _, _, _, _, _, _, rfl⟩ := h
      refine ⟨fun b hb => Or.inr ⟨b, hb, rfl⟩, ?_, ?_, fun _ h => h⟩
      · intro m hm
        rcases cmb2_mem_setMarket hm with e | e
        · exact Or.inr ⟨m0, getMarket_mem hm0, by rw [e]⟩
        · exact Or.inr ⟨m, e, rfl⟩
      · intro v b i p hb hp
        exact Or.inr (Or.inr ⟨b, p, hb, hp, rfl⟩)
  | marketResolve tk u ts stt w =>
    show cmb2_CFrame s { s with core := (Core.step s.core (.marketResolve tk u ts stt w)).1 }
    simp only [Core.step, Core.marketResolve, Core.commit]
    cases h : marketResolveO s.core tk u ts stt w with
    | none => exact cmb2_CFrame.refl _
    | some c' =>
      unfold marketResolveO at h
      simp only [bind, Option.bind_eq_some_iff, pure, Option.some.injEq] at h
      obtain ⟨_, _, _, _, m0, hm0, _, _, _, _, rfl⟩ := h
      refine ⟨fun b hb => Or.inr ⟨b, hb, rfl⟩, ?_, ?_, fun _ h => h⟩
      · intro m hm
        rcases cmb2_mem_setMarket hm with e | e
        · exact Or.inr ⟨m0, getMarket_mem hm0, by rw [e]⟩
        · exact Or.inr ⟨m, e, rfl⟩
      · intro v b i p hb hp
        exact Or.inr (Or.inr ⟨b, p, hb, hp, rfl⟩)
  | deposit cr tk m a pd =>
    show cmb2_CFrame s { s with core := (Core.step s.core (.deposit cr tk m a pd)).1 }
    simp only [Core.step, Core.houseDeposit]
    cases h : houseDepositO s.core cr tk m a pd with
    | none => exact cmb2_CFrame.refl _
    | some r =>
      have hu : isUser (depositFor cr pd) := hwf
      obtain ⟨k0, hf⟩ := cmb2_houseDepositO_frame h
      have hsame := houseDepositO_same h
      have hmk := (houseDepositO_markets h).1
      refine ⟨?_, ?_, ?_, fun _ h => h⟩
      · intro b hb
        have hb' : b ∈ r.1.bets := hb
        rw [hsame.1] at hb'
        exact Or.inr ⟨b, hb', rfl⟩
      · intro mm hm
        have hm' : mm ∈ r.1.markets := hm
        rw [hmk] at hm'
        exact Or.inr ⟨mm, hm', rfl⟩
      · intro v b' i p' hb' hp'
        have hb'' : getBook r.1 v = some b' := hb'
        rcases hf.2.2 v b' i p' hb'' hp' with ⟨b, hb, hp⟩ | ⟨_, e, _⟩
        · exact Or.inr (Or.inr ⟨b, p', hb, hp, rfl⟩)
        · left; rw [e]; exact hu.1
  | withdraw cr tk m i md a pd =>
    show cmb2_CFrame s { s with core := (Core.step s.core (.withdraw cr tk m i md a pd)).1 }
    simp only [Core.step, Core.houseWithdraw, Core.commit]
    cases h : houseWithdrawO s.core cr tk m i md a pd with
    | none => exact cmb2_CFrame.refl _
    | some c' =>
      obtain ⟨w', p0, _, hf⟩ := cmb2_houseWithdrawO_frame h
      have hsame := houseWithdrawO_same h
      have hmk := (houseWithdrawO_markets h).1
      obtain ⟨⟨b0, hb0, hp0⟩, _, _, _, _, hall⟩ := hf
      refine ⟨?_, ?_, ?_, fun _ h => h⟩
      · intro b hb
        have hb' : b ∈ c'.bets := hb
        rw [hsame.1] at hb'
        exact Or.inr ⟨b, hb', rfl⟩
      · intro mm hm
        have hm' : mm ∈ c'.markets := hm
        rw [hmk] at hm'
        exact Or.inr ⟨mm, hm', rfl⟩
      · intro v b' j p' hb' hp'
        have hb'' : getBook c' v = some b' := hb'
        rcases hall v b' j p' hb'' hp' with ⟨_, b, hb, hp⟩ | ⟨ek, e⟩
        · exact Or.inr (Or.inr ⟨b, p', hb, hp, rfl⟩)
        · simp only [Prod.mk.injEq] at ek
          refine Or.inr (Or.inr ⟨b0, p0, by rw [ek.1]; exact hb0, by rw [ek.2]; exact hp0, by rw [e]⟩)
  | wager cr tk u a pl =>
    show cmb2_CFrame s { s with core := (Core.step s.core (.wager cr tk u a pl)).1 }
    simp only [Core.step, Core.wager, Core.commit]
    cases h : wagerO s.core cr tk u a pl with
    | none => exact cmb2_CFrame.refl _
    | some c' =>
      have hu : isUser cr := hwf
      exact cmb2_wagerO_cframe hB hA.sett.cmb2_srt hP hu.1 h
  | grant g e k l ex => exact same _ rfl rfl rfl
  | revoke g e k => exact same _ rfl rfl rfl
  | send a b v =>
    show cmb2_CFrame s { s with core := (Core.step s.core (.send a b v)).1 }
    simp only [Core.step]
    split
    · exact cmb2_CFrame.refl _
    · simp only [Core.commit]
      cases h : bankSend s.core a b v with
      | none => exact cmb2_CFrame.refl _
      | some c' =>
        obtain ⟨bal', _, rfl⟩ := bankSend_shape h
        exact same _ rfl rfl rfl
  | setParams p =>
    show cmb2_CFrame s { s with core := (Core.step s.core (.setParams p)).1 }
    simp only [Core.step]
    split
    · exact same _ rfl rfl rfl
    · exact cmb2_CFrame.refl _
  | endBlock => exact absurd rfl hne
  | newBlock h t => exact same _ rfl rfl rfl

end Sge.Combined
