/- every message (everything except the end-block) preserves `RetInv`: no message realises profit or settles a bet -/
import SgeProofs.Lemmas.ReturnsDefs
namespace Sge.Core
open Sge Sge.Genesis

theorem ret_marketAddO {s s' : State} {c : Nat} {tk : Tk} {u st en : Nat} {o : List Nat} {stt : Nat}
    (hO : ObInv s) (hR : RetInv s) (h : marketAddO s c tk u st en o stt = some s') : RetInv s' := by
  unfold marketAddO at h
  simp only [bind, Option.bind_eq_some_iff, pure, Option.some.injEq] at h
  obtain ⟨_, _, _, _, _, _, _, _, _, _, _, _, _, _, rfl⟩ := h
  exact (hR.addBook hO (newBook u o) rfl).of_eq (by rfl) (by rfl)

theorem ret_marketUpdateO {s s' : State} {tk : Tk} {u st en stt : Nat}
    (hR : RetInv s) (h : marketUpdateO s tk u st en stt = some s') : RetInv s' := by
  unfold marketUpdateO at h
  simp only [bind, Option.bind_eq_some_iff, pure, Option.some.injEq] at h
  obtain ⟨_, _, m, _, _, _, _, _, _, _, rfl⟩ := h
  exact hR.of_eq (by rfl) (by rfl)

theorem ret_marketResolveO {s s' : State} {tk : Tk} {u ts stt : Nat} {w : List Nat}
    (hR : RetInv s) (h : marketResolveO s tk u ts stt w = some s') : RetInv s' := by
  unfold marketResolveO at h
  simp only [bind, Option.bind_eq_some_iff, pure, Option.some.injEq] at h
  obtain ⟨_, _, _, _, m, _, _, _, _, _, rfl⟩ := h
  exact hR.of_eq (by rfl) (by rfl)

theorem ret_houseDepositO {s : State} {r : State × Nat} {c : Nat} {tk : Tk} {m : Nat} {a : Int} {pd : Nat}
    (hO : ObInv s) (hR : RetInv s) (h : houseDepositO s c tk m a pd = some r) : RetInv r.1 := by
  unfold houseDepositO at h
  simp only [bind, Option.bind_eq_some_iff, pure, Option.some.injEq] at h
  obtain ⟨_, _, _, _, _, _, s1, hs1, _, _, mk, _, b, hb, _, _, _, _, _, _, _, hfresh, s2, hs2, s3, hs3, rfl⟩ := h
  obtain ⟨gs, rfl⟩ := grantStep_shape hs1
  obtain ⟨bal2, _, rfl⟩ := bankSend_shape hs2
  obtain ⟨bal3, _, rfl⟩ := bankSend_shape hs3
  have hb' : getBook s m = some b := hb
  obtain ⟨hbm, hbu⟩ := getBook_mem hb'
  have hnone : b.getPart (b.partCount + 1) = none := by simpa using chk_some hfresh
  obtain ⟨e1, _, e3⟩ := addParticipation_shape b (depositFor c pd) (a - (s.params.houseFee.mulInt a).roundInt)
    (s.params.houseFee.mulInt a).roundInt
  have hx : PExt b (b.addParticipation (depositFor c pd) (a - (s.params.houseFee.mulInt a).roundInt)
      (s.params.houseFee.mulInt a).roundInt).1 :=
    PExt.upsert _ e1 e3 (Or.inr ⟨hnone, rfl⟩)
  have h1 := hR.setBook hO b _ (by rw [hx.uid, hbu]; exact hb') hx
  exact h1.of_eq (by rfl) (by rfl)

theorem ret_houseWithdrawO {s s' : State} {c : Nat} {tk : Tk} {m i md : Nat} {a : Int} {pd : Nat}
    (hO : ObInv s) (hR : RetInv s) (h : houseWithdrawO s c tk m i md a pd = some s') : RetInv s' := by
  unfold houseWithdrawO at h
  simp only [bind, Option.bind_eq_some_iff, pure, Option.some.injEq] at h
  obtain ⟨_, _, _, _, _, _, _, _, _, _, d, _, b, hb, _, _, w, _, s1, hs1, p, hpp, s2, hs2, b', hb', rfl⟩ := h
  obtain ⟨gs, rfl⟩ := grantStep_shape hs1
  obtain ⟨bal2, _, rfl⟩ := bankSend_shape hs2
  obtain ⟨hbm, hbu⟩ := getBook_mem hb
  obtain ⟨e1, _, e3⟩ := withdraw_shape hpp hb'
  have hpi := Book.getPart_idx hpp
  have hx : PExt b b' :=
    PExt.upsert { p with crl := p.crl - w, liq := p.liq - w } e1 e3
      (Or.inl ⟨p, by show b.getPart p.idx = some p; rw [hpi]; exact hpp, rfl⟩)
  have h1 := hR.setBook hO b b' (by rw [hx.uid, hbu]; exact hb) hx
  exact h1.of_eq (by rfl) (by rfl)

theorem ret_wagerO {s s' : State} {c : Nat} {tk : Tk} {u : Nat} {a : Int} {pl : WagerPayload}
    (hO : ObInv s) (hR : RetInv s) (h : wagerO s c tk u a pl = some s') : RetInv s' := by
  unfold wagerO at h
  simp only [bind, Option.bind_eq_some_iff, pure, Option.some.injEq] at h
  obtain ⟨_, _, _, _, _, _, _, _, _, _, _, _, _, _, m, hm, _, _, _, _, _, _, _, _, _, _, _, _, ov, _, _, _, b, hb, r, hr, s1, hs1, s2, hs2, rfl⟩ := h
  obtain ⟨b', fulfs, taken⟩ := r
  obtain ⟨bal1, _, rfl⟩ := bankSend_shape hs1
  obtain ⟨bal2, _, rfl⟩ := bankSend_shape hs2
  obtain ⟨hbm, hbu⟩ := getBook_mem hb
  have hsP := (hO.qinv b hbm).s.sP
  obtain ⟨_, _, _, hbu', hfrom⟩ := processWager_custody _ _ _ _ _ _ _ _ _ _ _ _ _ hsP hr
  have hx : PExt b b' := PExt.of_sameCust hbu' hsP hfrom
  have h1 := hR.setBook hO b b' (by rw [hx.uid, hbu]; exact hb) hx
  refine RetInv.setOpenBet (s := Sge.Core.setBook s b') hO.sT h1 (newBet s c u pl ov fulfs) (by rfl) (by rfl)
    (by show BS_PLACED ≠ BS_SETTLED; decide) ?_
  intro t ht
  exfalso
  obtain ⟨htm, hk⟩ := lookup_memQ ht
  have := hO.ids t htm
  simp only [Bet.key, newBet, List.cons.injEq, and_true] at hk
  omega

end Sge.Core
