/-
  C05 bounded progress, part 1: the arithmetic of a FIFO work queue that is served with a per-block budget.
  Nothing here mentions the chain state: `w` / `w'` are the work of each queue entry before / after a block,
  `n` the budget, `D` the entries that were finished (and dropped from the head of the queue).
-/
import SgeProofs.Lemmas.CustodySettleStep
import SgeProofs.Lemmas.BetIndex
namespace Sge.Core
open Sge Sge.Genesis

/-- total work of the queue entries `l` -/
def wsum (w : Nat → Nat) (l : List Nat) : Nat := (l.map w).sum

theorem wsum_nil (w : Nat → Nat) : wsum w [] = 0 := rfl
theorem wsum_cons (w : Nat → Nat) (x : Nat) (l : List Nat) : wsum w (x :: l) = w x + wsum w l := by
  simp [wsum]
theorem wsum_append (w : Nat → Nat) (a b : List Nat) : wsum w (a ++ b) = wsum w a + wsum w b := by
  simp [wsum]

theorem wsum_congr {w w' : Nat → Nat} {l : List Nat} (h : ∀ v ∈ l, w' v = w v) : wsum w' l = wsum w l := by
  induction l with
  | nil => rfl
  | cons x xs ih =>
    rw [wsum_cons, wsum_cons, h x (List.mem_cons_self ..), ih (fun v hv => h v (List.mem_cons_of_mem _ hv))]

theorem wsum_le_of_le {w w' : Nat → Nat} {l : List Nat} (h : ∀ v ∈ l, w' v ≤ w v) : wsum w' l ≤ wsum w l := by
  induction l with
  | nil => exact Nat.le_refl _
  | cons x xs ih =>
    rw [wsum_cons, wsum_cons]
    have := h x (List.mem_cons_self ..)
    have := ih (fun v hv => h v (List.mem_cons_of_mem _ hv))
    omega

theorem wsum_zero {w : Nat → Nat} {l : List Nat} (h : ∀ v ∈ l, w v = 0) : wsum w l = 0 := by
  induction l with
  | nil => rfl
  | cons x xs ih =>
    rw [wsum_cons, h x (List.mem_cons_self ..), ih (fun v hv => h v (List.mem_cons_of_mem _ hv))]

theorem wsum_mem_le {w : Nat → Nat} {l : List Nat} {v : Nat} (h : v ∈ l) : w v ≤ wsum w l := by
  induction l with
  | nil => cases h
  | cons x xs ih =>
    rw [wsum_cons]
    rcases List.mem_cons.mp h with rfl | h
    · omega
    · have := ih h; omega

/-- One block of FIFO batch processing of the queue `q` with budget `n`:
    the entries `D` at the head were finished and dropped (`q = D ++ q'`), their work fitted into the budget and is
    now zero; if an entry `h` is left at the head, the whole rest of the budget was spent on it; the work of every
    other entry is unchanged. -/
structure Batch (q q' : List Nat) (w w' : Nat → Nat) (n : Nat) (D : List Nat) : Prop where
  split : q = D ++ q'
  fits : wsum w D ≤ n
  doneZero : ∀ v ∈ D, w' v = 0
  head : ∀ h R, q' = h :: R → w' h + (n - wsum w D) = w h
  others : ∀ v, v ∉ D → q'.head? ≠ some v → w' v = w v

/-- with no budget nothing happens -/
theorem Batch.zero (q : List Nat) (w : Nat → Nat) : Batch q q w w 0 [] :=
  ⟨rfl, Nat.le_refl _, (fun _ h => nomatch h), fun _ _ _ => rfl, fun _ _ _ => rfl⟩

/-- an empty queue stays empty -/
theorem Batch.empty (w : Nat → Nat) (n : Nat) : Batch [] [] w w n [] :=
  ⟨rfl, Nat.zero_le _, (fun _ h => nomatch h), (fun _ _ h => nomatch h), fun _ _ _ => rfl⟩

/-- the budget runs out on the head entry: it keeps `w h - n` units of work and stays at the head -/
theorem Batch.exhaust {h : Nat} {R : List Nat} {w w' : Nat → Nat} {n : Nat} (hh : w' h + n = w h)
    (ho : ∀ v, v ≠ h → w' v = w v) : Batch (h :: R) (h :: R) w w' n [] := by
  refine ⟨rfl, Nat.zero_le _, (fun _ hv => nomatch hv), ?_, ?_⟩
  · intro h' R' e
    cases e
    simpa [wsum_nil] using hh
  · intro v _ hv
    exact ho v (fun e => hv (by rw [e]; rfl))

/-- the head entry is finished within the budget and the rest of the queue is served with what is left -/
theorem Batch.step {h : Nat} {R q' : List Nat} {w w1 w' : Nat → Nat} {n : Nat} {D : List Nat}
    (hnd : (h :: R).Nodup) (hfit : w h ≤ n) (h0 : w1 h = 0) (h1 : ∀ v, v ≠ h → w1 v = w v)
    (hB : Batch R q' w1 w' (n - w h) D) : Batch (h :: R) q' w w' n (h :: D) := by
  obtain ⟨hsplit, hfits, hzero, hhead, hoth⟩ := hB
  have hnotR : h ∉ R := (List.nodup_cons.mp hnd).1
  have hnotD : h ∉ D := fun hin => hnotR (by rw [hsplit]; exact List.mem_append_left _ hin)
  have hnotq' : h ∉ q' := fun hin => hnotR (by rw [hsplit]; exact List.mem_append_right _ hin)
  have hDsum : wsum w1 D = wsum w D := wsum_congr (fun v hv => h1 v (fun e => hnotD (e ▸ hv)))
  refine ⟨by rw [hsplit]; rfl, ?_, ?_, ?_, ?_⟩
  · rw [wsum_cons, ← hDsum]; omega
  · intro v hv
    rcases List.mem_cons.mp hv with rfl | hv
    · rw [hoth v hnotD (fun e => hnotq' (List.mem_of_mem_head? e)), h0]
    · exact hzero v hv
  · intro h' R' e
    have hne : h' ≠ h := fun e' => hnotq' (by rw [e, e']; exact List.mem_cons_self ..)
    have := hhead h' R' e
    rw [h1 h' hne] at this
    rw [wsum_cons, ← hDsum]
    omega
  · intro v hv hhd
    have hne : v ≠ h := fun e => hv (by rw [e]; exact List.mem_cons_self ..)
    rw [hoth v (fun hin => hv (List.mem_cons_of_mem _ hin)) hhd, h1 v hne]

/-- What a block does to a *prefix* `A` of the queue (`q = A ++ B`, entries distinct): the prefix that is left, `A'`,
    carries exactly `wsum w A - min n (wsum w A)` units of work, and it is empty when the work of `A` was below the
    budget; entries behind the prefix are only touched once the prefix is gone. -/
theorem Batch.prefix {q q' : List Nat} {w w' : Nat → Nat} {n : Nat} {D : List Nat} (hB : Batch q q' w w' n D)
    (hnd : q.Nodup) (A B : List Nat) (hq : q = A ++ B) :
    ∃ DA A' DB B', A = DA ++ A' ∧ B = DB ++ B' ∧ D = DA ++ DB ∧ q' = A' ++ B' ∧ (A' ≠ [] → DB = []) ∧
      wsum w' A' = wsum w A - min n (wsum w A) ∧ (wsum w A < n → A' = []) := by
  obtain ⟨hsplit, hfits, hzero, hhead, hoth⟩ := hB
  have hsp : D ++ q' = A ++ B := by rw [← hsplit, hq]
  rcases List.append_eq_append_iff.mp hsp with ⟨a', hA, hq'⟩ | ⟨c', hD, hB'⟩
  · -- the dropped entries are a prefix of `A`
    refine ⟨D, a', [], B, hA, rfl, by simp, hq', fun _ => rfl, ?_, ?_⟩
    · cases a' with
      | nil =>
        rw [wsum_nil, hA, List.append_nil]
        omega
      | cons h a'' =>
        have hhd := hhead h (a'' ++ B) (by rw [hq']; rfl)
        have hnd' : (D ++ (h :: a'' ++ B)).Nodup := by rw [← hq', ← hsplit]; exact hnd
        have hrest : wsum w' a'' = wsum w a'' := by
          apply wsum_congr
          intro v hv
          apply hoth v
          · intro hin
            have := (List.nodup_append.mp hnd').2.2 v hin v
              (List.mem_append_left _ (List.mem_cons_of_mem _ hv))
            exact this rfl
          · rw [hq']
            intro e
            have e' : h = v := by simpa using e
            have hn2 := (List.nodup_append.mp hnd').2.1
            have : (h :: (a'' ++ B)).Nodup := hn2
            exact (List.nodup_cons.mp this).1 (e' ▸ List.mem_append_left _ hv)
        rw [wsum_cons, hrest, hA, wsum_append, wsum_cons]
        omega
    · intro hlt
      cases a' with
      | nil => rfl
      | cons h a'' =>
        exfalso
        have hhd := hhead h (a'' ++ B) (by rw [hq']; rfl)
        rw [hA, wsum_append, wsum_cons] at hlt
        omega
  · -- the whole prefix `A` was dropped
    refine ⟨A, [], c', q', by simp, hB', hD, by simp, fun h => absurd rfl h, ?_, fun _ => rfl⟩
    rw [wsum_nil]
    have : wsum w A ≤ wsum w D := by rw [hD, wsum_append]; omega
    omega

/-- the whole queue: the work drops by exactly `min n work`, and a queue whose work is below the budget is drained -/
theorem Batch.total {q q' : List Nat} {w w' : Nat → Nat} {n : Nat} {D : List Nat} (hB : Batch q q' w w' n D)
    (hnd : q.Nodup) : wsum w' q' = wsum w q - min n (wsum w q) ∧ (wsum w q < n → q' = []) := by
  obtain ⟨DA, A', DB, B', hA, hB0, hD, hq', _, hsum, hdr⟩ := hB.prefix hnd q [] (by simp)
  have hB' : B' = [] := by
    have := congrArg List.length hB0
    simp at this
    exact List.eq_nil_of_length_eq_zero (by omega)
  rw [hB', List.append_nil] at hq'
  rw [hq']
  exact ⟨hsum, hdr⟩

end Sge.Core
