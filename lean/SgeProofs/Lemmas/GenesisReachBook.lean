/-
  `bookInv` (Sge/Genesis.lean) as a proposition, and its preservation by the primitive writes of x/orderbook
  (`setPart`, `setExp`, `setHist` + `delExp` + `setExp` of a round change, `setQueue`, `addPair`).

  `WB ks E oc pc n b` is the part of the invariant that the wager loop, deposits and withdrawals maintain with respect to
  fixed reference data: the outcomes `ks` that have a fulfilment queue, the outcomes `E` for which a participation
  exposure must exist, the odds and participation counters, and the bound `n` on the bet ids of participation–bet pairs.
  `BkI n b` is the whole invariant of one book.
-/
import SgeProofs.Lemmas.BetIndex
namespace Sge.Genesis
open Sge Sge.Core

/-- a `Set` never removes a key from a store -/
theorem upsert_keeps_key {α : Type} (key : α → List Nat) (x z : α) (l : List α) (hz : z ∈ l) :
    ∃ z' ∈ upsert key x l, key z' = key z := by
  cases hk : key z == key x
  · exact ⟨z, (mem_upsert key x z l).mpr (Or.inr (Or.inl ⟨hz, hk, trivial⟩)), rfl⟩
  · exact ⟨x, (mem_upsert key x x l).mpr (Or.inl rfl), (by simpa using hk : key z = key x).symm⟩

/-- overwriting a stored record keeps every projection that is determined by the key -/
theorem upsert_map_of_mem {α β : Type} (key : α → List Nat) (g : α → β) (hg : ∀ a b, key a = key b → g a = g b)
    (x : α) (l : List α) (hs : Sorted key l) (hex : ∃ b ∈ l, key b = key x) : (upsert key x l).map g = l.map g := by
  rw [upsert_replace key x l hs hex, List.map_map]
  apply List.map_congr_left
  intro y _
  simp only [Function.comp]
  split
  · rename_i h
    exact (hg y x (by simpa using h)).symm
  · rfl

theorem upsert_mem_self {α : Type} (key : α → List Nat) (x : α) (l : List α) : x ∈ upsert key x l :=
  (mem_upsert key x x l).mpr (Or.inl rfl)

theorem upsert_mem_or {α : Type} (key : α → List Nat) (x z : α) (l : List α) (h : z ∈ upsert key x l) : z = x ∨ z ∈ l := by
  rcases (mem_upsert key x z l).mp h with h | h | h
  · exact Or.inl h
  · exact Or.inr h.1
  · exact Or.inr h.1

end Sge.Genesis

namespace Sge.Core
open Sge Sge.Genesis

abbrev qkey (q : Nat × List Nat) : List Nat := [q.1]
abbrev xkey (x : Nat × Nat) : List Nat := [x.1, x.2]

theorem pexp_key_eq {a b : PExp} (h : PExp.key a = PExp.key b) : a.odds = b.odds ∧ a.idx = b.idx := by
  simpa [PExp.key] using h

structure WB (ks E : List Nat) (oc pc n : Nat) (b : Book) : Prop where
  sq : Sorted qkey b.queues
  se : Sorted PExp.key b.pexps
  sh : Sorted PExp.hkey b.hist
  sx : Sorted xkey b.pairs
  qk : b.queues.map (·.1) = ks
  hoc : b.oddsCount = oc
  hpc : b.partCount = pc
  ex : ∀ o ∈ E, ∃ e ∈ b.pexps, e.odds = o
  he : ∀ h ∈ b.hist, ∃ e ∈ b.pexps, e.odds = h.odds ∧ e.idx = h.idx
  pr : ∀ x ∈ b.pairs, 1 ≤ x.2 ∧ x.2 ≤ n

/-- a write that leaves queues, exposures, history, pairs and the two counters alone -/
theorem WB.congr {ks E : List Nat} {oc pc n : Nat} {b b' : Book} (h : WB ks E oc pc n b) (e1 : b'.queues = b.queues)
    (e2 : b'.pexps = b.pexps) (e3 : b'.hist = b.hist) (e4 : b'.pairs = b.pairs) (e5 : b'.oddsCount = b.oddsCount)
    (e6 : b'.partCount = b.partCount) : WB ks E oc pc n b' := by
  obtain ⟨a1, a2, a3, a4, a5, a6, a7, a8, a9, a10⟩ := h
  exact ⟨by rw [e1]; exact a1, by rw [e2]; exact a2, by rw [e3]; exact a3, by rw [e4]; exact a4, by rw [e1]; exact a5,
    by rw [e5]; exact a6, by rw [e6]; exact a7, by rw [e2]; exact a8, by rw [e2, e3]; exact a9, by rw [e4]; exact a10⟩

theorem WB.setPart {ks E : List Nat} {oc pc n : Nat} {b : Book} (h : WB ks E oc pc n b) (p : Part) :
    WB ks E oc pc n (b.setPart p) := h.congr rfl rfl rfl rfl rfl rfl

theorem WB.mono {ks E : List Nat} {oc pc n n' : Nat} {b : Book} (h : WB ks E oc pc n b) (hn : n ≤ n') :
    WB ks E oc pc n' b := by
  obtain ⟨a1, a2, a3, a4, a5, a6, a7, a8, a9, a10⟩ := h
  exact ⟨a1, a2, a3, a4, a5, a6, a7, a8, a9, fun x hx => ⟨(a10 x hx).1, Nat.le_trans (a10 x hx).2 hn⟩⟩

theorem setExp_keeps (b : Book) (x e : PExp) (he : e ∈ b.pexps) :
    ∃ e' ∈ (b.setExp x).pexps, e'.odds = e.odds ∧ e'.idx = e.idx := by
  obtain ⟨e', h1, h2⟩ := upsert_keeps_key PExp.key x e b.pexps he
  exact ⟨e', h1, pexp_key_eq h2⟩

theorem WB.setExp {ks E : List Nat} {oc pc n : Nat} {b : Book} (h : WB ks E oc pc n b) (x : PExp) :
    WB ks E oc pc n (b.setExp x) := by
  obtain ⟨a1, a2, a3, a4, a5, a6, a7, a8, a9, a10⟩ := h
  refine ⟨a1, upsert_sorted PExp.key x b.pexps a2, a3, a4, a5, a6, a7, ?_, ?_, a10⟩
  · intro o ho
    obtain ⟨e, he, heo⟩ := a8 o ho
    obtain ⟨e', h1, h2⟩ := setExp_keeps b x e he
    exact ⟨e', h1, h2.1.trans heo⟩
  · intro hh hhh
    obtain ⟨e, he, heo⟩ := a9 hh hhh
    obtain ⟨e', h1, h2⟩ := setExp_keeps b x e he
    exact ⟨e', h1, h2.1.trans heo.1, h2.2.trans heo.2⟩

theorem WB.addPair {ks E : List Nat} {oc pc n : Nat} {b : Book} (h : WB ks E oc pc n b) (i id : Nat) (h1 : 1 ≤ id)
    (h2 : id ≤ n) : WB ks E oc pc n (b.addPair i id) := by
  obtain ⟨a1, a2, a3, a4, a5, a6, a7, a8, a9, a10⟩ := h
  refine ⟨a1, a2, a3, upsert_sorted xkey (i, id) b.pairs a4, a5, a6, a7, a8, a9, ?_⟩
  intro x hx
  rcases upsert_mem_or xkey (i, id) x b.pairs hx with e | e
  · rw [e]; exact ⟨h1, h2⟩
  · exact a10 x e

theorem WB.setQueue {ks E : List Nat} {oc pc n : Nat} {b : Book} (h : WB ks E oc pc n b) (o : Nat) (q : List Nat)
    (ho : o ∈ ks) : WB ks E oc pc n (b.setQueue o q) := by
  obtain ⟨a1, a2, a3, a4, a5, a6, a7, a8, a9, a10⟩ := h
  refine ⟨upsert_sorted qkey (o, q) b.queues a1, a2, a3, a4, ?_, a6, a7, a8, a9, a10⟩
  show (upsert qkey (o, q) b.queues).map (·.1) = ks
  rw [← a5] at ho ⊢
  obtain ⟨q0, hq0, hq0o⟩ := List.mem_map.mp ho
  apply upsert_map_of_mem qkey (·.1) _ (o, q) b.queues a1 ⟨q0, hq0, by simp [qkey, hq0o]⟩
  intro a c hac
  simpa [qkey] using hac

/-- MoveToHistorical + NextRound of one exposure: the exposure goes to the history, and a fresh exposure takes its
    place under the same (outcome, participation) -/
theorem WB.roll {ks E : List Nat} {oc pc n : Nat} {b : Book} (h : WB ks E oc pc n b) (pe ne : PExp)
    (h1 : ne.odds = pe.odds) (h2 : ne.idx = pe.idx) :
    WB ks E oc pc n (((b.setHist pe).delExp pe.odds pe.idx).setExp ne) := by
  obtain ⟨a1, a2, a3, a4, a5, a6, a7, a8, a9, a10⟩ := h
  have hnew : ne ∈ (((b.setHist pe).delExp pe.odds pe.idx).setExp ne).pexps := upsert_mem_self PExp.key ne _
  have keep : ∀ e ∈ b.pexps, ∃ e' ∈ (((b.setHist pe).delExp pe.odds pe.idx).setExp ne).pexps,
      e'.odds = e.odds ∧ e'.idx = e.idx := by
    intro e he
    by_cases hk : e.odds = pe.odds ∧ e.idx = pe.idx
    · exact ⟨ne, hnew, h1.trans hk.1.symm, h2.trans hk.2.symm⟩
    · have hin : e ∈ ((b.setHist pe).delExp pe.odds pe.idx).pexps := by
        show e ∈ remove PExp.key [pe.odds, pe.idx] b.pexps
        rw [mem_remove_iff]
        refine ⟨he, ?_⟩
        cases hc : PExp.key e == [pe.odds, pe.idx]
        · rfl
        · exact absurd (by simpa [PExp.key] using hc) hk
      exact setExp_keeps _ ne e hin
  refine ⟨a1, ?_, upsert_sorted PExp.hkey pe b.hist a3, a4, a5, a6, a7, ?_, ?_, a10⟩
  · exact upsert_sorted PExp.key ne _ (remove_sorted PExp.key _ b.pexps a2)
  · intro o ho
    obtain ⟨e, he, heo⟩ := a8 o ho
    obtain ⟨e', h1', h2'⟩ := keep e he
    exact ⟨e', h1', h2'.1.trans heo⟩
  · intro hh hhh
    rcases upsert_mem_or PExp.hkey pe hh b.hist hhh with e | e
    · rw [e]; exact ⟨ne, hnew, h1, h2⟩
    · obtain ⟨e0, he0, heo⟩ := a9 hh e
      obtain ⟨e', h1', h2'⟩ := keep e0 he0
      exact ⟨e', h1', h2'.1.trans heo.1, h2'.2.trans heo.2⟩

theorem getQueue_some_mem {b : Book} {o : Nat} {q : List Nat} (h : b.getQueue o = some q) : o ∈ b.queues.map (·.1) := by
  unfold Book.getQueue at h
  simp only [Option.map_eq_some_iff] at h
  obtain ⟨x, hx, _⟩ := h
  have h1 := List.mem_of_find?_eq_some hx
  have h2 := List.find?_some hx
  exact List.mem_map.mpr ⟨x, h1, by simpa using h2⟩

-- ---------------------------------------------------------------------------------------------
-- the whole invariant of one book

structure BkI (n : Nat) (b : Book) : Prop where
  sq : Sorted qkey b.queues
  sp : Sorted Part.key b.parts
  se : Sorted PExp.key b.pexps
  sh : Sorted PExp.hkey b.hist
  sx : Sorted xkey b.pairs
  ql : b.queues.length = b.oddsCount
  /-- once a book has a participation, every outcome has a participation exposure -/
  qe : b.partCount = 0 ∨ ∀ q ∈ b.queues, ∃ e ∈ b.pexps, e.odds = q.1
  /-- participation indexes are 1..partCount -/
  pi : ∀ p ∈ b.parts, 1 ≤ p.idx ∧ p.idx ≤ b.partCount
  he : ∀ h ∈ b.hist, ∃ e ∈ b.pexps, e.odds = h.odds ∧ e.idx = h.idx
  /-- the bets of the participation–bet pairs have been counted by the bet counter -/
  pr : ∀ x ∈ b.pairs, 1 ≤ x.2 ∧ x.2 ≤ n

/-- the outcomes for which a book with participation counter `pc` must have exposures -/
def needExp (pc : Nat) (ks : List Nat) : List Nat := if pc = 0 then [] else ks

theorem BkI.toWB {n : Nat} {b : Book} (h : BkI n b) :
    WB (b.queues.map (·.1)) (needExp b.partCount (b.queues.map (·.1))) b.oddsCount b.partCount n b := by
  obtain ⟨a1, a2, a3, a4, a5, a6, a7, a8, a9, a10⟩ := h
  refine ⟨a1, a3, a4, a5, rfl, rfl, rfl, ?_, a9, a10⟩
  intro o ho
  unfold needExp at ho
  split at ho
  · cases ho
  · rename_i hne
    rcases a7 with h0 | hq
    · exact absurd h0 hne
    · obtain ⟨q, hq1, rfl⟩ := List.mem_map.mp ho
      exact hq q hq1

theorem BkI.ofWB {ks E : List Nat} {oc pc n : Nat} {b : Book} (h : WB ks E oc pc n b) (hl : ks.length = oc)
    (hE : pc = 0 ∨ ∀ o ∈ ks, o ∈ E) (sp : Sorted Part.key b.parts) (pi : ∀ p ∈ b.parts, 1 ≤ p.idx ∧ p.idx ≤ pc) :
    BkI n b := by
  obtain ⟨a1, a2, a3, a4, a5, a6, a7, a8, a9, a10⟩ := h
  refine ⟨a1, sp, a2, a3, a4, ?_, ?_, by rw [a7]; exact pi, a9, a10⟩
  · rw [a6, ← hl, ← a5, List.length_map]
  · rcases hE with h0 | hE
    · exact Or.inl (a7.trans h0)
    · right
      intro q hq
      exact a8 q.1 (hE q.1 (by rw [← a5]; exact List.mem_map.mpr ⟨q, hq, rfl⟩))

theorem BkI.mono {n n' : Nat} {b : Book} (h : BkI n b) (hn : n ≤ n') : BkI n' b := by
  obtain ⟨a1, a2, a3, a4, a5, a6, a7, a8, a9, a10⟩ := h
  exact ⟨a1, a2, a3, a4, a5, a6, a7, a8, a9, fun x hx => ⟨(a10 x hx).1, Nat.le_trans (a10 x hx).2 hn⟩⟩

/-- overwriting (or adding) a participation whose index is within the counter -/
theorem BkI.setPart {n : Nat} {b : Book} (h : BkI n b) (p : Part) (hp : 1 ≤ p.idx ∧ p.idx ≤ b.partCount) :
    BkI n (b.setPart p) := by
  obtain ⟨a1, a2, a3, a4, a5, a6, a7, a8, a9, a10⟩ := h
  refine ⟨a1, upsert_sorted Part.key p b.parts a2, a3, a4, a5, a6, a7, ?_, a9, a10⟩
  intro z hz
  rcases upsert_mem_or Part.key p z b.parts hz with e | e
  · rw [e]; exact hp
  · exact a8 z e

theorem BkI.setStatus {n : Nat} {b : Book} (h : BkI n b) (st : Nat) : BkI n { b with status := st } := by
  obtain ⟨a1, a2, a3, a4, a5, a6, a7, a8, a9, a10⟩ := h
  exact ⟨a1, a2, a3, a4, a5, a6, a7, a8, a9, a10⟩

theorem getPart_bound {n : Nat} {b : Book} (h : BkI n b) {i : Nat} {p : Part} (hp : b.getPart i = some p) :
    1 ≤ p.idx ∧ p.idx ≤ b.partCount := by
  unfold Book.getPart lookup at hp
  exact h.pi p (List.mem_of_find?_eq_some hp)

/-- the decidable `bookInv` of Sge/Genesis.lean follows -/
theorem bookInv_of {n : Nat} {b : Book} (h : BkI n b) : bookInv b = true := by
  obtain ⟨a1, a2, a3, a4, a5, a6, a7, a8, a9, a10⟩ := h
  unfold bookInv
  simp only [Bool.and_eq_true]
  refine ⟨⟨⟨⟨⟨⟨⟨⟨(sortedB_iff _ _).mpr a1, (sortedB_iff _ _).mpr a2⟩, (sortedB_iff _ _).mpr a3⟩, (sortedB_iff _ _).mpr a4⟩,
    (sortedB_iff _ _).mpr a5⟩, by rw [a6]; exact beq_self_eq_true _⟩, ?_⟩, ?_⟩, ?_⟩
  · rcases a7 with h0 | hq
    · rw [h0]; rfl
    · rw [Bool.or_eq_true]
      right
      rw [List.all_eq_true]
      intro q hq1
      rw [List.any_eq_true]
      obtain ⟨e, he, heo⟩ := hq q hq1
      exact ⟨e, he, by simpa using heo⟩
  · by_cases h0 : b.partCount = 0
    · rw [Bool.or_eq_true]
      right
      cases hp : b.parts with
      | nil => rfl
      | cons p ps =>
        have := a8 p (by rw [hp]; exact List.mem_cons_self ..)
        omega
    · rw [Bool.or_eq_true]
      left
      simpa using h0
  · rw [List.all_eq_true]
    intro hh hhh
    rw [List.any_eq_true]
    obtain ⟨e, he, heo⟩ := a9 hh hhh
    exact ⟨e, he, by simp [heo.1, heo.2]⟩

end Sge.Core
