/-
  Whole-history returns of house participations (property C04): the state invariant `RetInv` that ties the
  realised profit of every participation to the SETTLED bets of its market — stakes of the backing parts of lost
  bets minus promised winnings of the backing parts of won bets; refunded bets contribute nothing — and the
  generic facts about replacing a book / a bet record.
-/
import SgeProofs.Lemmas.ObSums
import SgeProofs.Lemmas.CustodySettleStep
import SgeProofs.Lemmas.BetIndex
namespace Sge.Core
open Sge Sge.Genesis

-- ---------------------------------------------------------------------------------------------
-- what the settled bets say

/-- what bet `t` has realised for participation `i` of market `u`: nothing unless it is a settled bet of that
    market; the stakes of its backing parts naming `i` if it lost; minus their promised winnings if it won;
    nothing if it was refunded -/
def betRealAt (u i : Nat) (t : Bet) : Int :=
  if t.market == u && t.status == BS_SETTLED then
    (if t.result == BR_LOST then sumBy (fbAt i) t.fulfs
     else if t.result == BR_WON then - sumBy (fpAt i) t.fulfs else 0)
  else 0

/-- the realised profit of every participation is what the settled bets of its market say -/
structure RetInv (s : State) : Prop where
  prof : ∀ b ∈ s.books, ∀ i p, b.getPart i = some p → p.actualProfit = sumBy (betRealAt b.uid i) s.bets

theorem ret_betRealAt_open (u i : Nat) (t : Bet) (h : t.status ≠ BS_SETTLED) : betRealAt u i t = 0 := by
  unfold betRealAt
  have : (t.status == BS_SETTLED) = false := by simpa using h
  simp [this]

theorem ret_betRealAt_other (u i : Nat) (t : Bet) (h : t.market ≠ u) : betRealAt u i t = 0 := by
  unfold betRealAt
  have : (t.market == u) = false := by simpa using h
  simp [this]

theorem ret_fbAt_zero (i : Nat) (fs : List Fulf) (h : ∀ fl ∈ fs, fl.idx ≠ i) : sumBy (fbAt i) fs = 0 := by
  apply sumBy_zeroQ
  intro fl hfl
  unfold fbAt
  simp [h fl hfl]

theorem ret_fpAt_zero (i : Nat) (fs : List Fulf) (h : ∀ fl ∈ fs, fl.idx ≠ i) : sumBy (fpAt i) fs = 0 := by
  apply sumBy_zeroQ
  intro fl hfl
  unfold fpAt
  simp [h fl hfl]

/-- no backing part names an index that is not a participation of the book, so nothing is realised for it -/
theorem ret_real_zero {s : State} (h : ObInv s) (b : Book) (hb : b ∈ s.books) (i : Nat) (hi : b.getPart i = none) :
    sumBy (betRealAt b.uid i) s.bets = 0 := by
  apply sumBy_zeroQ
  intro t ht
  by_cases hm : t.market = b.uid
  · obtain ⟨bk, hbk, hfl⟩ := h.wf t ht
    rw [hm, mem_getBook h.sB hb] at hbk
    cases hbk
    have hne : ∀ fl ∈ t.fulfs, fl.idx ≠ i := by
      intro fl hflm c
      obtain ⟨p, hp, _⟩ := hfl fl hflm
      rw [c, hi] at hp; cases hp
    unfold betRealAt
    rw [ret_fbAt_zero i t.fulfs hne, ret_fpAt_zero i t.fulfs hne]
    split
    · split
      · rfl
      · split <;> rfl
    · rfl
  · exact ret_betRealAt_other _ _ _ hm

/-- `b'` is `b` after an update that realises nothing: participations keep their realised profit, new ones
    start at zero -/
structure PExt (b b' : Book) : Prop where
  uid : b'.uid = b.uid
  gp : ∀ i p', b'.getPart i = some p' →
    (∃ p, b.getPart i = some p ∧ p'.actualProfit = p.actualProfit) ∨ (b.getPart i = none ∧ p'.actualProfit = 0)

theorem PExt.refl (b : Book) : PExt b b := ⟨rfl, fun _ p' h => Or.inl ⟨p', h, rfl⟩⟩

/-- the book differs from `b` only outside the participation list -/
theorem PExt.of_parts {b b' : Book} (hu : b'.uid = b.uid) (hp : b'.parts = b.parts) : PExt b b' := by
  refine ⟨hu, fun i p' h => Or.inl ⟨p', ?_, rfl⟩⟩
  unfold Book.getPart at h ⊢
  rw [← hp]; exact h

/-- one participation is written -/
theorem PExt.upsert {b b' : Book} (x : Part) (hu : b'.uid = b.uid) (hp : b'.parts = upsert Part.key x b.parts)
    (hx : (∃ p, b.getPart x.idx = some p ∧ x.actualProfit = p.actualProfit) ∨ (b.getPart x.idx = none ∧ x.actualProfit = 0)) :
    PExt b b' := by
  have e : b'.parts = (b.setPart x).parts := hp
  have hg : ∀ i, b'.getPart i = (b.setPart x).getPart i := by
    intro i; unfold Book.getPart; rw [e]
  refine ⟨hu, fun i p' h => ?_⟩
  rw [hg] at h
  by_cases hi : x.idx = i
  · rw [← hi, Book.getPart_setPart_self] at h
    cases h
    rw [← hi]; exact hx
  · rw [Book.getPart_setPart_ne _ _ _ hi] at h
    exact Or.inl ⟨p', h, rfl⟩

theorem PExt.trans {a b c : Book} (hab : PExt a b) (hbc : PExt b c)
    (hkeep : ∀ i p, a.getPart i = some p → ∃ p', b.getPart i = some p') : PExt a c := by
  refine ⟨hbc.uid.trans hab.uid, fun i p'' h => ?_⟩
  rcases hbc.gp i p'' h with ⟨p', hp', e⟩ | ⟨hn, hz⟩
  · rcases hab.gp i p' hp' with ⟨p, hp, e2⟩ | ⟨hn, hz⟩
    · exact Or.inl ⟨p, hp, e.trans e2⟩
    · exact Or.inr ⟨hn, e.trans hz⟩
  · right
    refine ⟨?_, hz⟩
    cases ha : a.getPart i with
    | none => rfl
    | some p =>
      obtain ⟨p', hp'⟩ := hkeep i p ha
      rw [hn] at hp'; cases hp'

/-- every participation of `b'` has the custody fields of a participation of `b` (the wager loop) -/
theorem PExt.of_sameCust {b b' : Book} (hu : b'.uid = b.uid) (hs : Sorted Part.key b.parts)
    (h : ∀ q ∈ b'.parts, ∃ q0 ∈ b.parts, q.sameCust q0) : PExt b b' := by
  refine ⟨hu, fun i p' hp' => Or.inl ?_⟩
  obtain ⟨hm, hi⟩ := Book.getPart_mem hp'
  obtain ⟨q0, hq0, hc⟩ := h p' hm
  refine ⟨q0, ?_, hc.2.2.1⟩
  have := Book.mem_getPart hs hq0
  rw [← hc.1, hi] at this
  exact this

/-- the invariant only reads books and bets -/
theorem RetInv.of_eq {s s' : State} (h : RetInv s) (hk : s'.books = s.books) (ht : s'.bets = s.bets) : RetInv s' :=
  ⟨by rw [hk, ht]; exact h.prof⟩

/-- replacing a stored book by one that realises nothing keeps the invariant -/
theorem RetInv.setBook {s : State} (hO : ObInv s) (h : RetInv s) (b b' : Book) (hb : getBook s b'.uid = some b)
    (hx : PExt b b') : RetInv (Sge.Core.setBook s b') := by
  obtain ⟨hbm, hbu⟩ := getBook_eq_some s _ b hb
  refine ⟨fun x hx' i p' hp' => ?_⟩
  show _ = sumBy _ s.bets
  rcases (mem_upsert_iff Book.key b' x s.books hO.sB).mp hx' with rfl | ⟨e, _⟩
  · rw [hx.uid]
    rcases hx.gp i p' hp' with ⟨p, hp, e1⟩ | ⟨hn, hz⟩
    · rw [e1]; exact h.prof b hbm i p hp
    · rw [hz, ret_real_zero hO b hbm i hn]
  · exact h.prof x e i p' hp'

/-- a new book without participations -/
theorem RetInv.addBook {s : State} (hO : ObInv s) (h : RetInv s) (nb : Book) (hn : nb.parts = []) :
    RetInv (Sge.Core.setBook s nb) := by
  refine ⟨fun x hx' i p' hp' => ?_⟩
  show _ = sumBy _ s.bets
  rcases (mem_upsert_iff Book.key nb x s.books hO.sB).mp hx' with rfl | ⟨e, _⟩
  · unfold Book.getPart lookup at hp'
    rw [hn] at hp'
    cases hp'
  · exact h.prof x e i p' hp'

/-- a bet record that is not settled is written (a new bet, or any rewrite of an unsettled bet into an unsettled
    one): nothing is realised -/
theorem RetInv.setOpenBet {s s' : State} (hsT : Sorted Bet.key s.bets) (h : RetInv s) (t' : Bet) (hk : s'.books = s.books)
    (ht : s'.bets = upsert Bet.key t' s.bets) (hst : t'.status ≠ BS_SETTLED)
    (hold : ∀ t, lookup Bet.key (Bet.key t') s.bets = some t → t.status ≠ BS_SETTLED) : RetInv s' := by
  refine ⟨fun b hb i p hp => ?_⟩
  rw [hk] at hb
  rw [ht, sumBy_upsert Bet.key _ t' s.bets hsT, ret_betRealAt_open _ _ _ hst, h.prof b hb i p hp]
  cases hl : lookup Bet.key (Bet.key t') s.bets with
  | none => simp
  | some t => simp only; rw [ret_betRealAt_open _ _ _ (hold t hl)]; omega

/-- an unsettled bet record `t` is replaced by `t'` while every participation's realised profit moves by exactly
    what `t'` realises for it -/
theorem RetInv.settle {s s' : State} (hO : ObInv s) (h : RetInv s) (t t' : Bet)
    (hl : lookup Bet.key (Bet.key t') s.bets = some t) (hst : t.status ≠ BS_SETTLED)
    (ht : s'.bets = upsert Bet.key t' s.bets)
    (hbooks : ∀ b' ∈ s'.books, ∃ b ∈ s.books, b.uid = b'.uid ∧ ∀ i p', b'.getPart i = some p' →
      ∃ p, b.getPart i = some p ∧ p'.actualProfit = p.actualProfit + betRealAt b'.uid i t') : RetInv s' := by
  refine ⟨fun b' hb' i p' hp' => ?_⟩
  obtain ⟨b, hb, hu, hparts⟩ := hbooks b' hb'
  obtain ⟨p, hp, e⟩ := hparts i p' hp'
  rw [ht, sumBy_upsert Bet.key _ t' s.bets hO.sT, hl, e, h.prof b hb i p hp, hu]
  simp only
  rw [ret_betRealAt_open _ _ _ hst]
  omega

end Sge.Core
