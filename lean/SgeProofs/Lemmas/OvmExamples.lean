/-
  Concrete histories used by the counter-example theorems and the non-vacuity examples of
  SgeProofs/Properties/C14.lean. Strings: 8*k + v is the v-th encoding of key k (v = 0 trimmed canonical,
  v = 1 with trailing newline, v = 2 another line wrapping).
-/
import Sge.Ovm
namespace Sge.Ovm

/-- a ticket with a valid EdDSA signature of key `k` -/
def tk {α : Type} (k : Key) (exp : Int) (pl : α) : Ticket α :=
  { format := true, exp := exp, alg := true, signer := some k, payload := some pl }
def opSubmit (now : Int) (k : Key) (keys : List Pem) (leader : Nat) : Int × Op :=
  (now, .submit 0 (tk k (now + 100) { keys := keys, leader := leader }))
def opVote (now : Int) (idx : Nat) (k : Key) (pid : Nat) (v : Nat) : Int × Op :=
  (now, .vote idx (tk k (now + 100) { proposalId := pid, vote := v }))
def mkP (id : Nat) (keys : List Pem) (leader : Nat) (votes : List (Pem × Vote)) (start : Int) : Proposal :=
  { id := id, creator := 0, keys := keys, leader := leader, votes := votes, startTS := start, finishTS := 0,
    result := .unspecified }

/-- vault K0 K1 K2 K3 (canonical strings 0 8 16 24). Proposal 1 keeps K0 and replaces K1 K2 K3 by K4 K5 K6;
    proposal 2 drops K0 and adds K7. K1 K2 K3 vote yes on both. -/
def cx1 : List (Int × Op) :=
  [ opSubmit 10 0 [0, 32, 40, 48] 0, opSubmit 10 1 [8, 16, 24, 56] 0,
    opVote 20 1 1 1 2, opVote 20 2 2 1 2, opVote 20 3 3 1 2,
    opVote 20 1 1 2 2, opVote 20 2 2 2 2, opVote 20 3 3 2 2 ]

/-- the same two proposals, but proposal 1 is approved one block earlier -/
def cx2a : List (Int × Op) :=
  [ opSubmit 10 0 [0, 32, 40, 48] 0, opSubmit 10 1 [8, 16, 24, 56] 0,
    opVote 20 1 1 1 2, opVote 20 2 2 1 2, opVote 20 3 3 1 2,
    opVote 20 1 1 2 2, opVote 20 2 2 2 2,
    (30, .endBlock) ]

/-- vault K0..K3. Proposal 1 adds K4 (five keys); proposal 2 replaces K3 by K5. K0 K1 K2 vote yes on both. -/
def cx3 : List (Int × Op) :=
  [ opSubmit 10 0 [0, 8, 16, 24, 32] 0, opSubmit 10 0 [0, 8, 16, 40] 0,
    opVote 20 0 0 1 2, opVote 20 1 1 1 2, opVote 20 2 2 1 2,
    opVote 20 0 0 2 2, opVote 20 1 1 2 2, opVote 20 2 2 2 2 ]

/-- genesis vault written as `pem.EncodeToMemory` writes it (strings 1 9 17 25 = K0..K3 with the trailing
    newline). Proposal 1 re-lists the same four keys (a proposal stores trimmed strings 0 8 16 24); proposal 2
    replaces K2 K3 by K4 K5. K0 votes yes on proposal 2 before and after proposal 1 is approved. -/
def cx4 : List (Int × Op) :=
  [ opSubmit 10 0 [0, 8, 16, 24] 0, opSubmit 10 0 [0, 8, 32, 40] 0,
    opVote 20 0 0 1 2, opVote 20 1 1 1 2, opVote 20 2 2 1 2,
    opVote 20 0 0 2 2,
    (30, .endBlock),
    opVote 40 0 0 2 2, opVote 40 1 1 2 2 ]

/-- proposal listing K0 twice: canonical string 0 and another encoding of the same key, string 2 -/
def cx5 : List (Int × Op) :=
  [ opSubmit 10 0 [0, 2, 8, 16] 1, opVote 20 0 0 1 2, opVote 20 1 1 1 2, opVote 20 2 2 1 2 ]

end Sge.Ovm
