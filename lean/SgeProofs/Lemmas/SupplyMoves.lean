/-
  Supply accounting for bank models whose balances are a TOTAL function `Nat → Int` (reward and stand-alone
  subaccount models).  A total function has no "sum of all balances"; instead:

    * `sup_Mv`      one bank movement: a transfer `src = some f → dst` or tokens entering from outside (`src = none`);
    * `sup_apply`   the bank after a list of movements;
    * `sup_sumOn`   the sum of the balances of a list of accounts;
    * `sup_sumOn_apply`  for EVERY duplicate-free list `l`: Σ_l after = Σ_l before + net flow into `l`;
    * `sup_Moves A b b' k`  "`b'` is `b` after finitely many movements of non-negative amounts whose end points all
                    satisfy `A`, of which `k` tokens came from outside";
    * `sup_Moves.sum`   then Σ_l b' = Σ_l b + k for every duplicate-free `l` containing all of `A`;
    * `sup_Moves.frame` and every account outside `A` keeps its balance.
-/
namespace Sge

/-- one bank movement of `amt` tokens into `dst`, out of `src` (`none`: from outside the modelled accounts) -/
structure sup_Mv where
  src : Option Nat
  dst : Nat
  amt : Int
deriving Repr

/-- function update; definitionally what `Reward.Bank.upd` and `Subaccount.upd` are -/
def sup_upd (b : Nat → Int) (a : Nat) (v : Int) : Nat → Int := fun x => if x = a then v else b x

def sup_debit (b : Nat → Int) (src : Option Nat) (amt : Int) : Nat → Int :=
  match src with
  | some f => sup_upd b f (b f - amt)
  | none => b

/-- the bank after one movement (debit first, then credit: exactly the shape of the models' `send`) -/
def sup_apply1 (b : Nat → Int) (m : sup_Mv) : Nat → Int :=
  sup_upd (sup_debit b m.src m.amt) m.dst (sup_debit b m.src m.amt m.dst + m.amt)

def sup_apply (b : Nat → Int) (ms : List sup_Mv) : Nat → Int := ms.foldl sup_apply1 b

/-- Σ_{a ∈ l} b a -/
def sup_sumOn (b : Nat → Int) (l : List Nat) : Int := (l.map b).sum

/-- `v` if `a` is one of `l`, else 0 -/
def sup_ind (l : List Nat) (a : Nat) (v : Int) : Int := if a ∈ l then v else 0

/-- net flow of one movement into the account set `l` -/
def sup_net (l : List Nat) (m : sup_Mv) : Int :=
  sup_ind l m.dst m.amt - (match m.src with | some f => sup_ind l f m.amt | none => 0)

def sup_netAll (l : List Nat) (ms : List sup_Mv) : Int := (ms.map (sup_net l)).sum

/-- tokens that entered from outside -/
def sup_mintedOf (m : sup_Mv) : Int := match m.src with | some _ => 0 | none => m.amt
def sup_minted (ms : List sup_Mv) : Int := (ms.map sup_mintedOf).sum

theorem sup_sumOn_nil (b : Nat → Int) : sup_sumOn b [] = 0 := rfl
theorem sup_sumOn_cons (b : Nat → Int) (x : Nat) (l : List Nat) : sup_sumOn b (x :: l) = b x + sup_sumOn b l := by
  simp [sup_sumOn]

theorem sup_sumOn_upd (b : Nat → Int) (a : Nat) (v : Int) :
    ∀ l : List Nat, l.Nodup → sup_sumOn (sup_upd b a v) l = sup_sumOn b l + sup_ind l a (v - b a) := by
  intro l
  induction l with
  | nil => intro _; simp [sup_sumOn, sup_ind]
  | cons x l ih =>
    intro hn
    rw [List.nodup_cons] at hn
    obtain ⟨hx, hl⟩ := hn
    rw [sup_sumOn_cons, sup_sumOn_cons, ih hl]
    by_cases hxa : x = a
    · subst hxa
      simp [sup_upd, sup_ind, hx]
      omega
    · have hax : ¬ a = x := fun e => hxa e.symm
      simp [sup_upd, sup_ind, hxa, hax]
      omega

theorem sup_sumOn_debit (b : Nat → Int) (src : Option Nat) (amt : Int) (l : List Nat) (hn : l.Nodup) :
    sup_sumOn (sup_debit b src amt) l = sup_sumOn b l - (match src with | some f => sup_ind l f amt | none => 0) := by
  cases src with
  | none => simp [sup_debit]
  | some f =>
    simp only [sup_debit]
    rw [sup_sumOn_upd b f _ l hn]
    simp only [sup_ind]
    split <;> omega

theorem sup_sumOn_apply1 (b : Nat → Int) (m : sup_Mv) (l : List Nat) (hn : l.Nodup) :
    sup_sumOn (sup_apply1 b m) l = sup_sumOn b l + sup_net l m := by
  unfold sup_apply1 sup_net
  rw [sup_sumOn_upd _ _ _ l hn, sup_sumOn_debit b m.src m.amt l hn]
  have e : sup_ind l m.dst (sup_debit b m.src m.amt m.dst + m.amt - sup_debit b m.src m.amt m.dst) = sup_ind l m.dst m.amt := by
    unfold sup_ind; split
    · omega
    · rfl
  rw [e]
  omega

/-- For EVERY duplicate-free list of accounts the sum of their balances changes by exactly the net flow across the
    boundary of the list. -/
theorem sup_sumOn_apply (ms : List sup_Mv) (l : List Nat) (hn : l.Nodup) :
    ∀ b : Nat → Int, sup_sumOn (sup_apply b ms) l = sup_sumOn b l + sup_netAll l ms := by
  induction ms with
  | nil => intro b; simp [sup_apply, sup_netAll]
  | cons m ms ih =>
    intro b
    show sup_sumOn (sup_apply (sup_apply1 b m) ms) l = _
    rw [ih, sup_sumOn_apply1 b m l hn]
    simp only [sup_netAll, List.map_cons, List.sum_cons]
    omega

theorem sup_apply_append (b : Nat → Int) (m1 m2 : List sup_Mv) :
    sup_apply b (m1 ++ m2) = sup_apply (sup_apply b m1) m2 := by
  simp [sup_apply, List.foldl_append]

theorem sup_minted_append (m1 m2 : List sup_Mv) : sup_minted (m1 ++ m2) = sup_minted m1 + sup_minted m2 := by
  simp [sup_minted, List.map_append, List.sum_append]

/-- a movement of a non-negative amount whose end points satisfy `A` -/
def sup_MvIn (A : Nat → Prop) (m : sup_Mv) : Prop := 0 ≤ m.amt ∧ A m.dst ∧ ∀ f, m.src = some f → A f

/-- `b'` is `b` after finitely many movements (non-negative amounts, end points in `A`), `k` tokens from outside -/
def sup_Moves (A : Nat → Prop) (b b' : Nat → Int) (k : Int) : Prop :=
  ∃ ms : List sup_Mv, b' = sup_apply b ms ∧ sup_minted ms = k ∧ ∀ m ∈ ms, sup_MvIn A m

theorem sup_Moves.refl (A : Nat → Prop) (b : Nat → Int) : sup_Moves A b b 0 :=
  ⟨[], rfl, rfl, fun _ h => by cases h⟩

theorem sup_Moves.trans {A : Nat → Prop} {b b1 b2 : Nat → Int} {k1 k2 : Int}
    (h1 : sup_Moves A b b1 k1) (h2 : sup_Moves A b1 b2 k2) : sup_Moves A b b2 (k1 + k2) := by
  obtain ⟨m1, e1, c1, a1⟩ := h1
  obtain ⟨m2, e2, c2, a2⟩ := h2
  refine ⟨m1 ++ m2, ?_, ?_, ?_⟩
  · rw [sup_apply_append, ← e1, e2]
  · rw [sup_minted_append, c1, c2]
  · intro m hm
    rcases List.mem_append.mp hm with h | h
    · exact a1 m h
    · exact a2 m h

/-- transitivity for the common case "no tokens from outside in the second leg" -/
theorem sup_Moves.trans0 {A : Nat → Prop} {b b1 b2 : Nat → Int} {k : Int}
    (h1 : sup_Moves A b b1 k) (h2 : sup_Moves A b1 b2 0) : sup_Moves A b b2 k := by
  have := h1.trans h2
  simpa using this

theorem sup_Moves.mono {A A' : Nat → Prop} {b b' : Nat → Int} {k : Int} (h : sup_Moves A b b' k)
    (hA : ∀ a, A a → A' a) : sup_Moves A' b b' k := by
  obtain ⟨ms, e, c, a⟩ := h
  exact ⟨ms, e, c, fun m hm => ⟨(a m hm).1, hA _ (a m hm).2.1, fun f hf => hA _ ((a m hm).2.2 f hf)⟩⟩

/-- the result of a `send` of the models -/
theorem sup_Moves.xfer {A : Nat → Prop} (b : Nat → Int) (f t : Nat) (amt : Int) (h0 : 0 ≤ amt) (hf : A f) (ht : A t) :
    sup_Moves A b (sup_upd (sup_upd b f (b f - amt)) t (sup_upd b f (b f - amt) t + amt)) 0 :=
  ⟨[{ src := some f, dst := t, amt := amt }], rfl, by simp [sup_minted, sup_mintedOf],
   fun m hm => by
     simp only [List.mem_singleton] at hm; subst hm
     exact ⟨h0, ht, fun g hg => by simp only [Option.some.injEq] at hg; subst hg; exact hf⟩⟩

/-- tokens entering one account from outside -/
theorem sup_Moves.mint {A : Nat → Prop} (b : Nat → Int) (a : Nat) (v : Int) (h0 : 0 ≤ v) (ha : A a) :
    sup_Moves A b (sup_upd b a (b a + v)) v :=
  ⟨[{ src := none, dst := a, amt := v }], rfl, by simp [sup_minted, sup_mintedOf],
   fun m hm => by
     simp only [List.mem_singleton] at hm; subst hm
     exact ⟨h0, ha, fun g hg => by cases hg⟩⟩

theorem sup_net_closed {A : Nat → Prop} {l : List Nat} (hl : ∀ a, A a → a ∈ l) {m : sup_Mv} (hm : sup_MvIn A m) :
    sup_net l m = sup_mintedOf m := by
  obtain ⟨_, hd, hs⟩ := hm
  unfold sup_net sup_mintedOf sup_ind
  rw [if_pos (hl _ hd)]
  cases e : m.src with
  | none => simp
  | some f => simp [hl _ (hs f e)]

theorem sup_netAll_closed {A : Nat → Prop} {l : List Nat} (hl : ∀ a, A a → a ∈ l) :
    ∀ ms : List sup_Mv, (∀ m ∈ ms, sup_MvIn A m) → sup_netAll l ms = sup_minted ms := by
  intro ms
  induction ms with
  | nil => intro _; rfl
  | cons m ms ih =>
    intro h
    simp only [sup_netAll, sup_minted, List.map_cons, List.sum_cons]
    rw [sup_net_closed hl (h m (List.mem_cons_self ..))]
    have := ih (fun x hx => h x (List.mem_cons_of_mem _ hx))
    simp only [sup_netAll, sup_minted] at this
    rw [this]

/-- Σ over any duplicate-free list containing every possible end point: changes by exactly what came from outside -/
theorem sup_Moves.sum {A : Nat → Prop} {b b' : Nat → Int} {k : Int} (h : sup_Moves A b b' k)
    (l : List Nat) (hn : l.Nodup) (hl : ∀ a, A a → a ∈ l) : sup_sumOn b' l = sup_sumOn b l + k := by
  obtain ⟨ms, e, c, a⟩ := h
  rw [e, sup_sumOn_apply ms l hn b, sup_netAll_closed hl ms a, c]

theorem sup_apply1_frame (b : Nat → Int) (m : sup_Mv) (a : Nat) (hd : a ≠ m.dst) (hs : ∀ f, m.src = some f → a ≠ f) :
    sup_apply1 b m a = b a := by
  unfold sup_apply1 sup_upd
  rw [if_neg hd]
  cases e : m.src with
  | none => rfl
  | some f => simp [sup_debit, sup_upd, hs f e]

theorem sup_apply_frame (a : Nat) (A : Nat → Prop) (ha : ¬ A a) :
    ∀ (ms : List sup_Mv) (b : Nat → Int), (∀ m ∈ ms, sup_MvIn A m) → sup_apply b ms a = b a := by
  intro ms
  induction ms with
  | nil => intro b _; rfl
  | cons m ms ih =>
    intro b hin
    show sup_apply (sup_apply1 b m) ms a = b a
    rw [ih (sup_apply1 b m) (fun x hx => hin x (List.mem_cons_of_mem _ hx))]
    have hm := hin m (List.mem_cons_self ..)
    apply sup_apply1_frame
    · intro e; exact ha (e ▸ hm.2.1)
    · intro f hf e; exact ha (e ▸ hm.2.2 f hf)

/-- an account that cannot be an end point keeps its balance -/
theorem sup_Moves.frame {A : Nat → Prop} {b b' : Nat → Int} {k : Int} (h : sup_Moves A b b' k)
    (a : Nat) (ha : ¬ A a) : b' a = b a := by
  obtain ⟨ms, e, _, hin⟩ := h
  rw [e]
  exact sup_apply_frame a A ha ms b hin

theorem sup_minted_nonneg (A : Nat → Prop) : ∀ ms : List sup_Mv, (∀ m ∈ ms, sup_MvIn A m) → 0 ≤ sup_minted ms := by
  intro ms
  induction ms with
  | nil => intro _; simp [sup_minted]
  | cons m ms ih =>
    intro hin
    have h1 := ih (fun x hx => hin x (List.mem_cons_of_mem _ hx))
    have hm := (hin m (List.mem_cons_self ..)).1
    have h2 : 0 ≤ sup_mintedOf m := by
      unfold sup_mintedOf; split <;> omega
    simp only [sup_minted, List.map_cons, List.sum_cons] at h1 ⊢
    omega

theorem sup_Moves.minted_nonneg {A : Nat → Prop} {b b' : Nat → Int} {k : Int} (h : sup_Moves A b b' k) : 0 ≤ k := by
  obtain ⟨ms, _, c, hin⟩ := h
  rw [← c]
  exact sup_minted_nonneg A ms hin

/-! ### a duplicate-free list with the same members -/

def sup_dedup : List Nat → List Nat
  | [] => []
  | a :: l => if a ∈ sup_dedup l then sup_dedup l else a :: sup_dedup l

theorem sup_mem_dedup (a : Nat) : ∀ l : List Nat, a ∈ sup_dedup l ↔ a ∈ l := by
  intro l
  induction l with
  | nil => simp [sup_dedup]
  | cons x l ih =>
    unfold sup_dedup
    split
    · rename_i hx
      rw [ih, List.mem_cons]
      constructor
      · intro h; exact Or.inr h
      · intro h
        rcases h with h | h
        · have hx' : a ∈ sup_dedup l := by rw [h]; exact hx
          exact ih.mp hx'
        · exact h
    · rw [List.mem_cons, List.mem_cons, ih]

theorem sup_nodup_dedup : ∀ l : List Nat, (sup_dedup l).Nodup := by
  intro l
  induction l with
  | nil => simp [sup_dedup]
  | cons x l ih =>
    unfold sup_dedup
    split
    · exact ih
    · rename_i hx
      exact List.nodup_cons.mpr ⟨hx, ih⟩

/-- touched-list form: there is a duplicate-free list with exactly the members of `L` outside which nothing changed
    and on which the sum changed by exactly what came from outside -/
theorem sup_Moves.support {L : List Nat} {b b' : Nat → Int} {k : Int} (h : sup_Moves (· ∈ L) b b' k) :
    (sup_dedup L).Nodup ∧ (∀ a, a ∈ sup_dedup L ↔ a ∈ L) ∧
    sup_sumOn b' (sup_dedup L) = sup_sumOn b (sup_dedup L) + k ∧ ∀ a, a ∉ L → b' a = b a :=
  ⟨sup_nodup_dedup L, fun a => sup_mem_dedup a L,
   h.sum _ (sup_nodup_dedup L) (fun a ha => (sup_mem_dedup a L).mpr ha), fun a ha => h.frame a ha⟩

end Sge
