/- the bet end-blocker (BatchMarketSettlements) preserves `SettleInv` -/
import SgeProofs.Lemmas.CustodySettle
namespace Sge.Core
open Sge Sge.Genesis

/-- the common end of both settlement branches: the bet found under its key is replaced by its settled copy, its
    pending entry is dropped, and balances / books have released exactly the stake and the fee of that bet -/
theorem settle_finish {s s' : State} {bet : Bet} {R H : Nat} (hI : SettleInv s)
    (hb : lookup Bet.key [bet.creator, bet.id] s.bets = some bet) (hopen : bet.isOpen = true)
    (hbets : s'.bets = upsert Bet.key { bet with status := BS_SETTLED, result := R, settleHeight := H } s.bets)
    (hpend : s'.pending = remove (fun x => [x.1, x.2.1]) [bet.market, bet.id] s.pending)
    (hmk : s'.markets = s.markets) (hq : s'.mqueue = s.mqueue) (hc : s'.betCount = s.betCount)
    (hsb : Sorted Book.key s'.books) (hsp : ∀ b ∈ s'.books, Sorted Part.key b.parts)
    (hpu : ∀ b ∈ s'.books, ∀ p ∈ b.parts, isModuleAcc p.addr = false)
    (hbk : ∀ b' ∈ s'.books, ∃ b ∈ s.books, b'.uid = b.uid ∧ b'.status = b.status ∧
       (b' = b ∨ ((∀ p ∈ b'.parts, p.isSettled = false) ∧ ∃ m, getMarket s b.uid = some m ∧ m.status = MS_DECLARED)))
    (hpool : getBal s'.bal ACC_POOL = sumBy Book.owed s'.books + sumBy Bet.owedStake s.bets - sumBet bet.fulfs)
    (hbf : getBal s'.bal ACC_BETFEE = owedBetFee s - bet.fee)
    (hhf : getBal s'.bal ACC_HOUSEFEE = sumBy Book.owedFee s'.books) : SettleInv s' := by
  obtain ⟨⟨⟨_, _, _, _, _, hsbets, _⟩, hids⟩, ⟨k1, k2, k3, k4, k5, k6, k7, k8, k9, k10⟩⟩ := hI
  have hbm : bet ∈ s.bets := (lookup_mem hb).1
  have hg : ∀ u, getMarket s' u = getMarket s u := getMarket_congr hmk
  -- the settled copy
  generalize hbet' : ({ bet with status := BS_SETTLED, result := R, settleHeight := H } : Bet) = bet' at hbets
  have hkey : Bet.key bet' = [bet.creator, bet.id] := by rw [← hbet']; rfl
  have hclosed : bet'.isOpen = false := by rw [← hbet']; rfl
  have hlk : lookup Bet.key (Bet.key bet') s.bets = some bet := by rw [hkey]; exact hb
  have hmem : ∀ x ∈ s'.bets, x = bet' ∨ (x ∈ s.bets ∧ (Bet.key x == Bet.key bet') = false) := by
    intro x hx
    rw [hbets] at hx
    exact (mem_upsert_iff Bet.key bet' x s.bets hsbets).mp hx
  refine { toCustI := ⟨⟨?_, ?_, ?_, hsb, hsp, ?_, hpu⟩, ?_⟩, toSInv := ⟨?_, ?_, ?_, ?_, ?_, ?_, ?_, ?_, ?_, ?_⟩ }
  · -- pool
    unfold owedPool
    rw [hbets, sumBy_upsert Bet.key _ _ s.bets hsbets, hlk, hpool]
    simp only [Bet.owedStake, hclosed, hopen]
    simp only [Bool.false_eq_true, if_false, if_true]
    omega
  · -- bet fee collector
    unfold owedBetFee
    rw [hbets, sumBy_upsert Bet.key _ _ s.bets hsbets, hlk, hbf]
    simp only [Bet.owedFee, hclosed, hopen]
    simp only [Bool.false_eq_true, if_false, if_true]
    unfold owedBetFee
    omega
  · exact hhf
  · rw [hbets]; exact upsert_sorted Bet.key _ s.bets hsbets
  · -- bet ids bounded by the counter
    intro x hx
    rw [hc]
    rcases hmem x hx with rfl | hx
    · have : x.id = bet.id := by rw [← hbet']
      rw [this]; exact hids bet hbm
    · exact hids x hx.1
  · -- K1
    intro x hx hxo
    rcases hmem x hx with rfl | ⟨hxm, hxk⟩
    · rw [hclosed] at hxo; cases hxo
    · rw [hpend]
      unfold remove
      rw [List.mem_filter]
      refine ⟨k1 x hxm hxo, ?_⟩
      have hne : x.id ≠ bet.id := by
        intro e
        have := k2 x hxm bet hbm e
        rw [this, hkey] at hxk
        simp [Bet.key] at hxk
      simp [hne]
  · -- ids unique
    intro x hx y hy hxy
    rcases hmem x hx with rfl | ⟨hxm, hxk⟩
    · rcases hmem y hy with rfl | ⟨hym, hyk⟩
      · rfl
      · exfalso
        have hid : y.id = bet.id := by rw [← hxy, ← hbet']
        have := k2 y hym bet hbm hid
        rw [this, hkey] at hyk
        simp [Bet.key] at hyk
    · rcases hmem y hy with rfl | ⟨hym, hyk⟩
      · exfalso
        have hid : x.id = bet.id := by rw [hxy, ← hbet']
        have := k2 x hxm bet hbm hid
        rw [this, hkey] at hxk
        simp [Bet.key] at hxk
      · exact k2 x hxm y hym hxy
  · -- K3
    intro b' hb' hst x hx hxm
    obtain ⟨b0, hb0, hu, hs0, _⟩ := hbk b' hb'
    rcases hmem x hx with rfl | ⟨hxm', _⟩
    · exact hclosed
    · exact k3 b0 hb0 (by rw [← hs0]; exact hst) x hxm' (by rw [hxm, hu])
  · -- K4
    intro b' hb' p hp hps
    obtain ⟨b0, hb0, hu, hs0, hor⟩ := hbk b' hb'
    rcases hor with rfl | ⟨hall, _⟩
    · exact k4 _ hb0 p hp hps
    · rw [hall p hp] at hps; cases hps
  · -- K5
    intro b' hb' hst
    obtain ⟨b0, hb0, hu, hs0, _⟩ := hbk b' hb'
    rw [hg, hu]
    exact k5 b0 hb0 (by rw [← hs0]; exact hst)
  · -- K9
    intro u hu
    rw [hq] at hu
    rw [hg]
    exact k6 u hu
  · -- K6
    intro x hx
    rcases hmem x hx with rfl | ⟨hxm, _⟩
    · have := k7 bet hbm
      rw [← hbet']
      exact this
    · exact k7 x hxm
  · -- bettors
    intro x hx
    rcases hmem x hx with rfl | ⟨hxm, _⟩
    · have := k8 bet hbm
      rw [← hbet']
      exact this
    · exact k8 x hxm
  · rw [hmk]; exact k9
  · -- K10
    intro b' hb' p hp hne
    obtain ⟨b0, hb0, hu, hs0, hor⟩ := hbk b' hb'
    rw [hg, hu]
    rcases hor with rfl | ⟨_, hm⟩
    · exact k10 _ hb0 p hp hne
    · exact hm

/-- Settle of one bet (refund on a cancelled / aborted market, payout or loss on a declared one) keeps the invariant -/
theorem settleBet_inv {s s' : State} {c u : Nat} (hI : SettleInv s) (h : settleBet s c u = some s') : SettleInv s' := by
  unfold settleBet at h
  simp only [bind, Option.bind_eq_some_iff] at h
  obtain ⟨bet0, _, bet, hb, _, hst, m, hm, h⟩ := h
  have hst := chk_some hst
  obtain ⟨hbm, hkey⟩ := lookup_mem hb
  have hcr : bet.creator = c ∧ bet.id = bet0.id := by simpa [Bet.key] using hkey
  have hb' : lookup Bet.key [bet.creator, bet.id] s.bets = some bet := by rw [hcr.1, hcr.2]; exact hb
  have hns : bet.status ≠ BS_SETTLED := by
    intro e; simp [e] at hst
  have hopen : bet.isOpen = true := by
    unfold Bet.isOpen
    simpa using hns
  obtain ⟨n1, n2, n3⟩ := isModuleAcc_false_ne (hI.bettorsUser bet hbm)
  split at h
  · -- refund
    unfold settleRefund at h
    simp only [bind, Option.bind_eq_some_iff, pure, Option.some.injEq] at h
    obtain ⟨s1, h1, s2, h2, rfl⟩ := h
    obtain ⟨bal1, rfl, _, p1, _, o1⟩ := bankSend_spec h1 (Ne.symm n1)
    obtain ⟨bal2, rfl, _, p2, _, o2⟩ := bankSend_spec h2 (Ne.symm n2)
    have p1 : getBal bal1 ACC_POOL = getBal s.bal ACC_POOL - bet.amount := p1
    have o1 : ∀ c', c' ≠ ACC_POOL → c' ≠ bet.creator → getBal bal1 c' = getBal s.bal c' := o1
    have p2 : getBal bal2 ACC_BETFEE = getBal bal1 ACC_BETFEE - bet.fee := p2
    have o2 : ∀ c', c' ≠ ACC_BETFEE → c' ≠ bet.creator → getBal bal2 c' = getBal bal1 c' := o2
    refine settle_finish hI hb' hopen (R := BR_REFUNDED) (H := s.height) ?_ ?_ ?_ ?_ ?_ hI.sortedBooks hI.sortedParts hI.partsUser ?_ ?_ ?_ ?_
    · rfl
    · rfl
    · rfl
    · rfl
    · rfl
    · intro b hb; exact ⟨b, hb, rfl, rfl, Or.inl rfl⟩
    · show getBal bal2 ACC_POOL = sumBy Book.owed s.books + sumBy Bet.owedStake s.bets - sumBet bet.fulfs
      rw [o2 _ (by decide) (Ne.symm n1), p1, ← hI.stake bet hbm]
      have := hI.pool
      unfold owedPool at this
      omega
    · show getBal bal2 ACC_BETFEE = owedBetFee s - bet.fee
      rw [p2, o1 _ (by decide) (Ne.symm n2)]
      have := hI.betFee
      omega
    · show getBal bal2 ACC_HOUSEFEE = sumBy Book.owedFee s.books
      rw [o2 _ (by decide) (Ne.symm n3), o1 _ (by decide) (Ne.symm n3)]
      exact hI.houseFee
  · -- declared result
    simp only [bind, Option.bind_eq_some_iff] at h
    obtain ⟨_, hd, h⟩ := h
    have hd : m.status = MS_DECLARED := by simpa using chk_some hd
    unfold settleDeclared at h
    simp only [bind, Option.bind_eq_some_iff, pure, Option.some.injEq] at h
    obtain ⟨bk, hbk, r, hr, s2, h2, rfl⟩ := h
    obtain ⟨hbkm, hbku⟩ := getBook_mem hbk
    -- the book of an open bet is still active, so none of its participations is paid yet
    have hact : bk.status = OB_ACTIVE := by
      by_cases e : bk.status = OB_ACTIVE
      · exact e
      · have := hI.closedNoOpen bk hbkm e bet hbm hbku.symm
        rw [hopen] at this; cases this
    have hunp : ∀ p ∈ bk.parts, p.isSettled = false := by
      intro p hp
      cases hps : p.isSettled
      · rfl
      · exact absurd hact (hI.settledClosed bk hbkm p hp hps)
    obtain ⟨a1, a2, a3, a4, a5, a6, a7, a8, a9⟩ :=
      settleOutcome_spec (hI.bettorsUser bet hbm) hr (hI.sortedParts bk hbkm) hunp
    have hmu := isModuleAcc_false_ne (hI.creatorsUser m (getMarket_mem hm))
    obtain ⟨bal2, rfl, _, p2, _, o2⟩ := bankSend_spec h2 (Ne.symm hmu.2.1)
    have p2 : getBal bal2 ACC_BETFEE = getBal r.1 ACC_BETFEE - bet.fee := p2
    have o2 : ∀ c', c' ≠ ACC_BETFEE → c' ≠ m.creator → getBal bal2 c' = getBal r.1 c' := o2
    have hgb : getBook s r.2.uid = some bk := by rw [a1, hbku]; exact hbk
    have hsums := setBook_sums s bk r.2 hI.sortedBooks hgb
    refine settle_finish hI hb' hopen (R := if m.winners.contains bet.odds then BR_WON else BR_LOST) (H := s.height)
      ?_ ?_ ?_ ?_ ?_ ?_ ?_ ?_ ?_ ?_ ?_ ?_
    · rfl
    · rfl
    · rfl
    · rfl
    · rfl
    · exact upsert_sorted Book.key _ s.books hI.sortedBooks
    · intro x hx
      rcases setBook_mem (s := s) (b' := r.2) hI.sortedBooks hx with rfl | hx
      · exact a3
      · exact hI.sortedParts x hx
    · intro x hx q hq
      rcases setBook_mem (s := s) (b' := r.2) hI.sortedBooks hx with rfl | hx
      · obtain ⟨q0, hq0, e⟩ := a6 q hq
        rw [e]; exact hI.partsUser bk hbkm q0 hq0
      · exact hI.partsUser x hx q hq
    · intro x hx
      rcases setBook_mem (s := s) (b' := r.2) hI.sortedBooks hx with rfl | hx
      · exact ⟨bk, hbkm, a1, a2, Or.inr ⟨a4, m, by rw [hbku]; exact hm, hd⟩⟩
      · exact ⟨x, hx, rfl, rfl, Or.inl rfl⟩
    · show getBal bal2 ACC_POOL = sumBy Book.owed (setBook s r.2).books + sumBy Bet.owedStake s.bets - sumBet bet.fulfs
      rw [hsums.1, o2 _ (by decide) (Ne.symm hmu.1)]
      have := hI.pool
      unfold owedPool at this
      omega
    · show getBal bal2 ACC_BETFEE = owedBetFee s - bet.fee
      rw [p2, a8]
      have := hI.betFee
      omega
    · show getBal bal2 ACC_HOUSEFEE = sumBy Book.owedFee (setBook s r.2).books
      rw [hsums.2, o2 _ (by decide) (Ne.symm hmu.2.2), a9, a5]
      have := hI.houseFee
      unfold owedHouseFee at this
      omega

theorem settleBet_mqueue {s s' : State} {c u : Nat} (h : settleBet s c u = some s') : s'.mqueue = s.mqueue := by
  unfold settleBet at h
  simp only [bind, Option.bind_eq_some_iff] at h
  obtain ⟨_, _, bet, _, _, _, m, _, h⟩ := h
  split at h
  · unfold settleRefund at h
    simp only [bind, Option.bind_eq_some_iff, pure, Option.some.injEq] at h
    obtain ⟨s1, h1, s2, h2, rfl⟩ := h
    obtain ⟨_, _, rfl⟩ := bankSend_shape h1
    obtain ⟨_, _, rfl⟩ := bankSend_shape h2
    rfl
  · simp only [bind, Option.bind_eq_some_iff] at h
    obtain ⟨_, _, h⟩ := h
    unfold settleDeclared at h
    simp only [bind, Option.bind_eq_some_iff, pure, Option.some.injEq] at h
    obtain ⟨bk, _, r, hr, s2, h2, rfl⟩ := h
    obtain ⟨_, _, rfl⟩ := bankSend_shape h2
    rfl

/-- a page of settlements keeps the invariant (and the market queue) -/
theorem settlePage_inv : ∀ (page : List (Nat × Nat × Nat × Nat)) (s : State) (r : State × Nat),
    SettleInv s → settlePage s page = some r → SettleInv r.1 ∧ r.1.mqueue = s.mqueue := by
  intro page
  induction page with
  | nil =>
    intro s r hI h
    simp only [settlePage, Option.some.injEq] at h
    rw [← h]; exact ⟨hI, rfl⟩
  | cons pb rest ih =>
    intro s r hI h
    unfold settlePage at h
    simp only [bind, Option.bind_eq_some_iff, pure, Option.some.injEq] at h
    obtain ⟨s1, h1, r1, hr, rfl⟩ := h
    have := ih _ _ (settleBet_inv hI h1) hr
    exact ⟨this.1, this.2.trans (settleBet_mqueue h1)⟩

/-- one iteration of BatchMarketSettlements for a queued market keeps the invariant: when the last pending bet of
    the market is gone the book leaves the active state — and by K1 no open bet is left on it -/
theorem betEndBlockStep_inv {s : State} {mk n : Nat} {r : State × Nat} (hI : SettleInv s) (hmk : mk ∈ s.mqueue)
    (h : betEndBlockStep s mk n = some r) : SettleInv r.1 := by
  unfold betEndBlockStep at h
  simp only [bind, Option.bind_eq_some_iff] at h
  obtain ⟨r0, h0, h⟩ := h
  obtain ⟨hI0, hq0⟩ := settlePage_inv _ _ _ hI h0
  split at h
  · simp only [pure, Option.some.injEq] at h; rw [← h]; exact hI0
  · rename_i hany
    simp only [bind, Option.bind_eq_some_iff, pure, Option.some.injEq] at h
    obtain ⟨q, hq, s2, h2, rfl⟩ := h
    unfold bookResolved at h2
    simp only [bind, Option.bind_eq_some_iff, pure, Option.some.injEq] at h2
    obtain ⟨b, hb, _, hact, rfl⟩ := h2
    have hb : getBook r0.1 mk = some b := hb
    obtain ⟨hbm, hbu⟩ := getBook_mem hb
    refine SettleInv.replaceBook (s := r0.1) (b := b) (B := { b with status := OB_RESOLVED }) hI0 ?_ rfl rfl rfl rfl ?_ rfl
      (hI0.sortedParts b hbm) ?_ (by show OB_RESOLVED ≠ OB_ACTIVE; decide) ?_ ?_ rfl rfl rfl
    · show getBook r0.1 b.uid = some b
      rw [hbu]; exact hb
    · intro u hu
      exact goRemove_sub hq u hu
    · intro p hp
      exact ⟨p, hp, rfl, rfl⟩
    · intro x hx hxm
      have hxm : x.market = mk := hxm.trans hbu
      cases hxo : x.isOpen
      · rfl
      · exfalso
        apply hany
        rw [List.any_eq_true]
        exact ⟨_, hI0.pendingAll x hx hxo, by simpa using hxm⟩
    · show ∃ m, getMarket r0.1 b.uid = some m ∧ m.resolved
      rw [hbu]
      exact hI0.queueResolved mk (by rw [hq0]; exact hmk)

/-- BatchMarketSettlements keeps the invariant -/
theorem betEndBlock_inv : ∀ (fuel : Nat) (s : State) (n : Nat) (s' : State),
    SettleInv s → betEndBlock fuel s n = some s' → SettleInv s' := by
  intro fuel
  induction fuel with
  | zero => intro s n s' hI h; simp [betEndBlock] at h; rw [← h]; exact hI
  | succ fuel ih =>
    intro s n s' hI h
    unfold betEndBlock at h
    split at h
    · simp at h; rw [← h]; exact hI
    · split at h
      · simp at h; rw [← h]; exact hI
      · rename_i mk rest hmq
        simp only [bind, Option.bind_eq_some_iff] at h
        obtain ⟨r, hr, h⟩ := h
        exact ih _ _ _ (betEndBlockStep_inv hI (by rw [hmq]; exact List.mem_cons_self ..) hr) h

end Sge.Core
