/- every operation of the core slice moves tokens only by bank transfers: the total never changes -/
import Sge.Core.Chain
import SgeProofs.Lemmas.Store
namespace Sge.Core
open Sge

def State.total (s : State) : Int := totalBal s.bal

theorem chk_some {c : Bool} (h : chk c = some ()) : c = true := by
  unfold chk at h; split at h <;> simp_all

theorem bankSend_total {s s' : State} {a b : Nat} {x : Int} (h : bankSend s a b x = some s') :
    s'.total = s.total := by
  unfold bankSend at h
  cases ht : transfer s.bal a b x with
  | none => simp [ht] at h
  | some bal' =>
    simp [ht] at h
    rw [← h]
    exact transfer_total _ _ _ _ _ ht

theorem useGrant_bal {s s' : State} {g e k : Nat} {x : Int} (h : useGrant s g e k x = some s') : s'.bal = s.bal := by
  unfold useGrant at h
  simp only [bind, Option.bind_eq_some_iff, pure, Option.some.injEq] at h
  obtain ⟨_, _, _, _, _, _, _, _, rfl⟩ := h
  split <;> rfl

theorem useGrant_total {s s' : State} {g e k : Nat} {x : Int} (h : useGrant s g e k x = some s') : s'.total = s.total := by
  unfold State.total; rw [useGrant_bal h]

theorem grantStep_bal {s s' : State} {d : Bool} {g e k : Nat} {x : Int} (h : grantStep s d g e k x = some s') : s'.bal = s.bal := by
  unfold grantStep at h
  split at h
  · exact useGrant_bal h
  · cases h; rfl

theorem grantStep_total {s s' : State} {d : Bool} {g e k : Nat} {x : Int} (h : grantStep s d g e k x = some s') : s'.total = s.total := by
  unfold State.total; rw [grantStep_bal h]

theorem commit_total (s : State) (r : Option State) (h : ∀ s', r = some s' → s'.total = s.total) :
    (commit s r).1.total = s.total := by
  unfold commit
  cases r with
  | none => rfl
  | some s' => exact h s' rfl

theorem marketAddO_total {s s' : State} {c : Nat} {tk : Tk} {u st en : Nat} {o : List Nat} {stt : Nat}
    (h : marketAddO s c tk u st en o stt = some s') : s'.total = s.total := by
  unfold marketAddO at h
  simp only [bind, Option.bind_eq_some_iff, pure, Option.some.injEq] at h
  obtain ⟨_, _, _, _, _, _, _, _, _, _, _, _, _, _, rfl⟩ := h
  rfl

theorem marketUpdateO_total {s s' : State} {tk : Tk} {u st en stt : Nat}
    (h : marketUpdateO s tk u st en stt = some s') : s'.total = s.total := by
  unfold marketUpdateO at h
  simp only [bind, Option.bind_eq_some_iff, pure, Option.some.injEq] at h
  obtain ⟨_, _, _, _, _, _, _, _, _, _, rfl⟩ := h
  rfl

theorem marketResolveO_total {s s' : State} {tk : Tk} {u ts stt : Nat} {w : List Nat}
    (h : marketResolveO s tk u ts stt w = some s') : s'.total = s.total := by
  unfold marketResolveO at h
  simp only [bind, Option.bind_eq_some_iff, pure, Option.some.injEq] at h
  obtain ⟨_, _, _, _, _, _, _, _, _, _, rfl⟩ := h
  rfl

theorem houseDepositO_total {s : State} {r : State × Nat} {c : Nat} {tk : Tk} {m : Nat} {a : Int} {pd : Nat}
    (h : houseDepositO s c tk m a pd = some r) : r.1.total = s.total := by
  unfold houseDepositO at h
  simp only [bind, Option.bind_eq_some_iff, pure, Option.some.injEq] at h
  obtain ⟨_, _, _, _, _, _, s1, h1, _, _, mk, _, b, _, _, _, _, _, _, _, _, _, s2, h2, s3, h3, rfl⟩ := h
  have e1 : s1.total = s.total := grantStep_total h1
  have e2 := bankSend_total h2
  have e3 := bankSend_total h3
  show totalBal s3.bal = _
  unfold State.total at *
  omega

theorem houseWithdrawO_total {s s' : State} {c : Nat} {tk : Tk} {m i md : Nat} {a : Int} {pd : Nat}
    (h : houseWithdrawO s c tk m i md a pd = some s') : s'.total = s.total := by
  unfold houseWithdrawO at h
  simp only [bind, Option.bind_eq_some_iff, pure, Option.some.injEq] at h
  obtain ⟨_, _, _, _, _, _, _, _, _, _, d, _, b, _, _, _, w, _, s1, h1, p, _, s2, h2, b', _, rfl⟩ := h
  have e1 : s1.total = s.total := grantStep_total h1
  have e2 := bankSend_total h2
  show totalBal s2.bal = _
  unfold State.total at *
  omega

theorem wagerO_total {s s' : State} {c : Nat} {tk : Tk} {u : Nat} {a : Int} {pl : WagerPayload}
    (h : wagerO s c tk u a pl = some s') : s'.total = s.total := by
  unfold wagerO at h
  simp only [bind, Option.bind_eq_some_iff, pure, Option.some.injEq] at h
  obtain ⟨_, _, _, _, _, _, _, _, _, _, _, _, _, _, m, _, _, _, _, _, _, _, _, _, _, _, _, _, ov, _, _, _, b, _, r, _, s1, h1, s2, h2, rfl⟩ := h
  have e1 := bankSend_total h1
  have e2 := bankSend_total h2
  show totalBal s2.bal = _
  unfold State.total at *
  omega

end Sge.Core

namespace Sge.Core
open Sge

theorem bettorWins_total (bettor : Nat) : ∀ (fs : List Fulf) (bal : List (Nat × Int)) (b : Book) (r : List (Nat × Int) × Book),
    bettorWins bal bettor b fs = some r → totalBal r.1 = totalBal bal := by
  intro fs
  induction fs with
  | nil => intro bal b r h; simp [bettorWins] at h; rw [← h]
  | cons f rest ih =>
    intro bal b r h
    unfold bettorWins at h
    simp only [bind, Option.bind_eq_some_iff] at h
    obtain ⟨p, _, bal', ht, hrest⟩ := h
    rw [ih _ _ _ hrest]
    exact transfer_total _ _ _ _ _ ht

theorem markSettled_total (s : State) (b : Bet) : (markSettled s b).total = s.total := rfl

theorem settleRefund_total {s s' : State} {b : Bet} (h : settleRefund s b = some s') : s'.total = s.total := by
  unfold settleRefund at h
  simp only [bind, Option.bind_eq_some_iff, pure, Option.some.injEq] at h
  obtain ⟨s1, h1, s2, h2, rfl⟩ := h
  rw [markSettled_total, bankSend_total h2, bankSend_total h1]

theorem settleDeclared_total {s s' : State} {b : Bet} {m : Market} (h : settleDeclared s b m = some s') : s'.total = s.total := by
  unfold settleDeclared at h
  simp only [bind, Option.bind_eq_some_iff, pure, Option.some.injEq] at h
  obtain ⟨bk, _, r, hr, s2, h2, rfl⟩ := h
  rw [markSettled_total, bankSend_total h2]
  show totalBal r.1 = totalBal s.bal
  unfold settleOutcome at hr
  split at hr
  · exact bettorWins_total _ _ _ _ _ hr
  · simp only [Option.map_eq_some_iff] at hr
    obtain ⟨_, _, rfl⟩ := hr
    rfl

theorem settleBet_total {s s' : State} {c u : Nat} (h : settleBet s c u = some s') : s'.total = s.total := by
  unfold settleBet at h
  simp only [bind, Option.bind_eq_some_iff] at h
  obtain ⟨_, _, bet, _, _, _, m, _, h⟩ := h
  split at h
  · exact settleRefund_total h
  · simp only [bind, Option.bind_eq_some_iff] at h
    obtain ⟨_, _, h⟩ := h
    exact settleDeclared_total h

theorem settlePage_total : ∀ (page : List (Nat × Nat × Nat × Nat)) (s : State) (r : State × Nat),
    settlePage s page = some r → r.1.total = s.total := by
  intro page
  induction page with
  | nil => intro s r h; simp [settlePage] at h; rw [← h]
  | cons pb rest ih =>
    intro s r h
    unfold settlePage at h
    simp only [bind, Option.bind_eq_some_iff, pure, Option.some.injEq] at h
    obtain ⟨s1, h1, r1, hr, rfl⟩ := h
    show r1.1.total = _
    rw [ih _ _ hr, settleBet_total h1]

theorem bookResolved_total {s s' : State} {u : Nat} (h : bookResolved s u = some s') : s'.total = s.total := by
  unfold bookResolved at h
  simp only [bind, Option.bind_eq_some_iff, pure, Option.some.injEq] at h
  obtain ⟨_, _, _, _, rfl⟩ := h
  rfl

theorem betEndBlockStep_total {s : State} {mk n : Nat} {r : State × Nat} (h : betEndBlockStep s mk n = some r) :
    r.1.total = s.total := by
  unfold betEndBlockStep at h
  simp only [bind, Option.bind_eq_some_iff] at h
  obtain ⟨r0, h0, h⟩ := h
  have e0 := settlePage_total _ _ _ h0
  split at h
  · simp only [pure, Option.some.injEq] at h; rw [← h]; exact e0
  · simp only [bind, Option.bind_eq_some_iff, pure, Option.some.injEq] at h
    obtain ⟨q, _, s2, h2, rfl⟩ := h
    show s2.total = _
    rw [bookResolved_total h2]
    exact e0

theorem betEndBlock_total : ∀ (fuel : Nat) (s : State) (n : Nat) (s' : State),
    betEndBlock fuel s n = some s' → s'.total = s.total := by
  intro fuel
  induction fuel with
  | zero => intro s n s' h; simp [betEndBlock] at h; rw [← h]
  | succ fuel ih =>
    intro s n s' h
    unfold betEndBlock at h
    split at h
    · simp at h; rw [← h]
    · split at h
      · simp at h; rw [← h]
      · simp only [bind, Option.bind_eq_some_iff] at h
        obtain ⟨r, hr, h⟩ := h
        rw [ih _ _ _ h, betEndBlockStep_total hr]

theorem settlePart_total {s : State} {b : Book} {p : Part} {m : Market} {r : State × Book}
    (h : settlePart s b p m = some r) : r.1.total = s.total := by
  unfold settlePart at h
  simp only [bind, Option.bind_eq_some_iff] at h
  obtain ⟨_, _, _, _, s1, h1, h⟩ := h
  split at h
  · simp only [bind, Option.bind_eq_some_iff, pure, Option.some.injEq] at h
    obtain ⟨s2, h2, rfl⟩ := h
    show s2.total = _
    rw [bankSend_total h2, bankSend_total h1]
  · simp only [bind, Option.bind_eq_some_iff, pure, Option.some.injEq] at h
    obtain ⟨s2, h2, rfl⟩ := h
    show s2.total = _
    rw [bankSend_total h2, bankSend_total h1]

theorem settleParts_total (m : Market) (count : Nat) : ∀ (ps : List Part) (s : State) (b : Book) (sc pr : Nat)
    (r : State × Book × Nat × Nat), settleParts m count ps s b sc pr = some r → r.1.total = s.total := by
  intro ps
  induction ps with
  | nil => intro s b sc pr r h; simp [settleParts] at h; rw [← h]
  | cons p rest ih =>
    intro s b sc pr r h
    unfold settleParts at h
    simp only [bind, Option.bind_eq_some_iff] at h
    obtain ⟨r1, h1, h⟩ := h
    have e1 : r1.1.total = s.total := by
      unfold settleOne at h1
      split at h1
      · simp only [Option.map_eq_some_iff] at h1
        obtain ⟨x, hx, rfl⟩ := h1
        exact settlePart_total hx
      · cases h1; rfl
    split at h
    · simp only [pure, Option.some.injEq] at h; rw [← h]; exact e1
    · rw [ih _ _ _ _ _ h]; exact e1

theorem obEndBlock_total : ∀ (fuel : Nat) (s : State) (n i : Nat) (s' : State),
    obEndBlock fuel s n i = some s' → s'.total = s.total := by
  intro fuel
  induction fuel with
  | zero => intro s n i s' h; simp [obEndBlock] at h; rw [← h]
  | succ fuel ih =>
    intro s n i s' h
    unfold obEndBlock at h
    split at h
    · simp at h; rw [← h]
    · split at h
      · simp at h; rw [← h]
      · simp only [bind, Option.bind_eq_some_iff] at h
        obtain ⟨b, _, m, _, _, _, r, hr, h⟩ := h
        have e := settleParts_total _ _ _ _ _ _ _ _ hr
        split at h
        · simp only [bind, Option.bind_eq_some_iff] at h
          obtain ⟨q, _, h⟩ := h
          rw [ih _ _ _ _ h]
          exact e
        · rw [ih _ _ _ _ h]
          exact e

theorem endBlockO_total {s s' : State} (h : endBlockO s = some s') : s'.total = s.total := by
  unfold endBlockO at h
  simp only [bind, Option.bind_eq_some_iff] at h
  obtain ⟨s1, h1, h2⟩ := h
  rw [obEndBlock_total _ _ _ _ _ h2, betEndBlock_total _ _ _ _ h1]

end Sge.Core
