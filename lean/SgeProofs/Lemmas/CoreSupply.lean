/- every operation of the core slice moves tokens only by bank transfers: the total never changes -/
import Sge.Core.Chain
import SgeProofs.Lemmas.Store
namespace Sge.Core
open Sge

def State.total (s : State) : Int := totalBal s.bal

theorem bankSend_total {s s' : State} {a b : Nat} {x : Int} (h : bankSend s a b x = some s') :
    s'.total = s.total := by
  unfold bankSend at h
  cases ht : transfer s.bal a b x with
  | none => simp [ht] at h
  | some bal' =>
    simp [ht] at h
    rw [← h]
    exact transfer_total _ _ _ _ _ ht

theorem useGrant_bal {s s' : State} {g e k : Nat} {x : Int} (h : useGrant s g e k x = some s') : s'.bal = s.bal := by
  unfold useGrant at h
  repeat' split at h
  all_goals (first | (cases h; rfl) | cases h)

theorem useGrant_total {s s' : State} {g e k : Nat} {x : Int} (h : useGrant s g e k x = some s') : s'.total = s.total := by
  unfold State.total; rw [useGrant_bal h]

theorem setBook_bal (s : State) (b : Book) : (setBook s b).bal = s.bal := rfl
theorem setMarket_bal (s : State) (m : Market) : (setMarket s m).bal = s.bal := rfl

theorem marketAdd_total (s : State) (c : Nat) (tk : Tk) (u st en : Nat) (o : List Nat) (stt : Nat) :
    (marketAdd s c tk u st en o stt).1.total = s.total := by
  unfold marketAdd
  repeat' split
  all_goals rfl

theorem marketUpdate_total (s : State) (tk : Tk) (u st en stt : Nat) :
    (marketUpdate s tk u st en stt).1.total = s.total := by
  unfold marketUpdate
  repeat' split
  all_goals rfl

theorem marketResolve_total (s : State) (tk : Tk) (u ts stt : Nat) (w : List Nat) :
    (marketResolve s tk u ts stt w).1.total = s.total := by
  unfold marketResolve
  repeat' split
  all_goals rfl

theorem houseDeposit_total (s : State) (c : Nat) (tk : Tk) (m : Nat) (a : Int) (pd : Nat) :
    (houseDeposit s c tk m a pd).1.total = s.total := by
  unfold houseDeposit
  repeat' split
  all_goals (try rfl)
  all_goals trace_state
  all_goals sorry

end Sge.Core
