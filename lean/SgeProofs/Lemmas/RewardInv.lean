/-
  L3: the invariant bundle of the reward slice and its preservation by every operation.
  `Inv` holds for every variant of the model; `PoolEq` (the pool equation) needs non-negative reward components
  (guaranteed by the patched validation, or assumed of the inputs for the unpatched code).
-/
import SgeProofs.Lemmas.RewardInversion
namespace Sge.Reward
open Sge

/-! ### counters vs. rewards -/

/-- per campaign and account: the grant counter equals the number of reward records and stays within the cap
    (campaigns with a cap count); unknown campaign uids have neither rewards nor counters -/
def CapInvL (cs : List Campaign) (rs : List Reward) (st : List Stat) : Prop :=
  (∀ cu a, getC cs cu = none → countR rs cu a = 0 ∧ getStat st cu a = 0) ∧
  (∀ cu a c, getC cs cu = some c → 0 < c.capCount →
      countR rs cu a = getStat st cu a ∧ getStat st cu a ≤ c.capCount)

theorem capInvL_setC_same {cs : List Campaign} {rs : List Reward} {st : List Stat} {c c' : Campaign}
    (h : CapInvL cs rs st) (hget : getC cs c.uid = some c) (hu : c'.uid = c.uid) (hc : c'.capCount = c.capCount) :
    CapInvL (setC cs c') rs st := by
  refine ⟨?_, ?_⟩
  · intro cu a hn
    rw [getC_setC] at hn
    split at hn
    · cases hn
    · exact h.1 cu a hn
  · intro cu a x hx hpos
    rw [getC_setC] at hx
    split at hx
    · rename_i hcu
      cases hx
      rw [hc] at hpos ⊢
      rw [hcu, hu]
      exact h.2 c.uid a c hget hpos
    · exact h.2 cu a x hx hpos

theorem capInvL_setC_new {cs : List Campaign} {rs : List Reward} {st : List Stat} {c' : Campaign}
    (h : CapInvL cs rs st) (hget : getC cs c'.uid = none) : CapInvL (setC cs c') rs st := by
  refine ⟨?_, ?_⟩
  · intro cu a hn
    rw [getC_setC] at hn
    split at hn
    · cases hn
    · exact h.1 cu a hn
  · intro cu a x hx hpos
    rw [getC_setC] at hx
    split at hx
    · rename_i hcu
      cases hx
      have := h.1 c'.uid a hget
      rw [hcu]
      omega
    · exact h.2 cu a x hx hpos

/-- one more reward of campaign `c` for account `a0`, counted when the campaign has a cap count -/
theorem capInvL_grant {cs : List Campaign} {rs : List Reward} {st : List Stat} {c : Campaign} {r : Reward} {k a0 : Nat}
    (h : CapInvL cs rs st) (hget : getC cs k = some c) (hr : r.campaign = k) (ha : r.receiver = a0)
    (hlt : 0 < c.capCount → getStat st k a0 < c.capCount) :
    CapInvL cs (rs ++ [r]) (if 0 < c.capCount then setStat st k a0 (getStat st k a0 + 1) else st) := by
  refine ⟨?_, ?_⟩
  · intro cu a hn
    have hne : cu ≠ k := by intro e; rw [e, hget] at hn; cases hn
    have hne' : ¬ (r.campaign = cu ∧ r.receiver = a) := by intro ⟨e, _⟩; exact hne (by rw [← e, hr])
    rw [countR_append, if_neg hne']
    have h0 := h.1 cu a hn
    refine ⟨by omega, ?_⟩
    split
    · rw [getStat_setStat, if_neg (fun ⟨e, _⟩ => hne e)]; exact h0.2
    · exact h0.2
  · intro cu a x hx hpos
    by_cases hk : cu = k
    · subst hk
      rw [hget] at hx; cases hx
      have h0 := h.2 cu a c hget hpos
      have hl := hlt hpos
      rw [countR_append, if_pos hpos, getStat_setStat]
      by_cases haa : a = a0
      · subst haa
        rw [if_pos ⟨hr, ha⟩, if_pos ⟨rfl, rfl⟩]
        omega
      · have : ¬ (r.campaign = cu ∧ r.receiver = a) := by intro ⟨_, e⟩; exact haa (by rw [← e, ha])
        rw [if_neg this, if_neg (fun ⟨_, e⟩ => haa e)]
        omega
    · have hne' : ¬ (r.campaign = cu ∧ r.receiver = a) := by intro ⟨e, _⟩; exact hk (by rw [← e, hr])
      have h0 := h.2 cu a x hx hpos
      rw [countR_append, if_neg hne']
      split
      · rw [getStat_setStat, if_neg (fun ⟨e, _⟩ => hk e)]; omega
      · omega

/-! ### the invariant bundle -/

structure Inv (s : State) : Prop where
  /-- the pool module account is no promoter address (it signs nothing) -/
  addrOk : ∀ x ∈ s.byAddr, x.1 ≠ POOL
  promOk : ∀ c ∈ s.campaigns, c.promoter ≠ POOL
  /-- no campaign's available amount is negative -/
  avail : ∀ c ∈ s.campaigns, 0 ≤ c.pool.avail
  /-- reward uids are unique -/
  once : (s.rewards.map (·.uid)).Nodup
  /-- both reward indexes list exactly the reward records -/
  idxCat : s.byCat.map (·.uid) = s.rewards.map (·.uid)
  idxCamp : s.byCamp.map (·.2) = s.rewards.map (·.uid)
  cap : CapInvL s.campaigns s.rewards s.stats

theorem inv_init (fixed : Bool) (bal : Nat → Int) : Inv (init fixed bal) := by
  refine ⟨?_, ?_, ?_, ?_, rfl, rfl, ?_⟩
  · intro x hx; cases hx
  · intro x hx; cases hx
  · intro x hx; cases hx
  · exact List.nodup_nil
  · exact ⟨fun _ _ _ => ⟨rfl, rfl⟩, fun _ _ _ h => by cases h⟩

theorem getA_some_mem {xs : List (Nat × Nat)} {a : Nat} (h : (getA xs a).isSome = true) :
    ∃ x ∈ xs, x.1 = a := by
  cases hx : getA xs a with
  | none => rw [hx] at h; cases h
  | some x => exact ⟨x, getBy_mem _ _ _ _ hx, getBy_key _ _ _ _ hx⟩

theorem inv_createPromoter {s s' : State} {m : PromoterMsg} (hI : Inv s) (h : createPromoter s m = .ok s') : Inv s' := by
  obtain ⟨hc, _, rfl⟩ := createPromoter_ok h
  refine ⟨?_, hI.promOk, hI.avail, hI.once, hI.idxCat, hI.idxCamp, hI.cap⟩
  intro x hx
  cases mem_setBy _ _ _ _ hx with
  | inl e => rw [e]; exact hc
  | inr hm => exact hI.addrOk x hm

theorem inv_setPromoterConf {s s' : State} {m : ConfMsg} (hI : Inv s) (h : setPromoterConf s m = .ok s') : Inv s' := by
  obtain ⟨p, _, _, _, rfl⟩ := setPromoterConf_ok h
  exact ⟨hI.addrOk, hI.promOk, hI.avail, hI.once, hI.idxCat, hI.idxCamp, hI.cap⟩

theorem inv_createCampaign {s s' : State} {m : CreateMsg} (hI : Inv s) (h : createCampaign s m = .ok s') : Inv s' := by
  obtain ⟨funds, gs, bank, _, hpos, hnone, _, hprom, _, _, _, rfl⟩ := createCampaign_ok h
  refine ⟨hI.addrOk, ?_, ?_, hI.once, hI.idxCat, hI.idxCamp, ?_⟩
  · intro c hc
    cases mem_setC _ _ _ hc with
    | inl e =>
      obtain ⟨x, hx, hxa⟩ := getA_some_mem hprom
      rw [e]; show m.promoter ≠ POOL
      rw [← hxa]; exact hI.addrOk x hx
    | inr hm => exact hI.promOk c hm
  · intro c hc
    cases mem_setC _ _ _ hc with
    | inl e => rw [e]; simp only [newCampaign, Pool.avail]; omega
    | inr hm => exact hI.avail c hm
  · exact capInvL_setC_new hI.cap hnone

theorem inv_updateCampaign {s s' : State} {m : UpdateMsg} (hI : Inv s) (h : updateCampaign s m = .ok s') : Inv s' := by
  obtain ⟨c, gs, hget, _, _, _, _, hcase⟩ := updateCampaign_ok h
  have hu := getC_uid _ _ _ hget
  have hmem := getC_mem _ _ _ hget
  rw [← hu] at hget
  rcases hcase with ⟨t, bank, _, htpos, _, rfl⟩ | ⟨_, rfl⟩
  · refine ⟨hI.addrOk, ?_, ?_, hI.once, hI.idxCat, hI.idxCamp, capInvL_setC_same hI.cap hget rfl rfl⟩
    · intro x hx
      cases mem_setC _ _ _ hx with
      | inl e => rw [e]; exact hI.promOk c hmem
      | inr hm => exact hI.promOk x hm
    · intro x hx
      cases mem_setC _ _ _ hx with
      | inl e => rw [e]; have := hI.avail c hmem; simp only [Pool.avail] at *; omega
      | inr hm => exact hI.avail x hm
  · refine ⟨hI.addrOk, ?_, ?_, hI.once, hI.idxCat, hI.idxCamp, capInvL_setC_same hI.cap hget rfl rfl⟩
    · intro x hx
      cases mem_setC _ _ _ hx with
      | inl e => rw [e]; exact hI.promOk c hmem
      | inr hm => exact hI.promOk x hm
    · intro x hx
      cases mem_setC _ _ _ hx with
      | inl e => rw [e]; exact hI.avail c hmem
      | inr hm => exact hI.avail x hm

theorem inv_withdrawFunds {s s' : State} {m : WithdrawMsg} (hI : Inv s) (h : withdrawFunds s m = .ok s') : Inv s' := by
  obtain ⟨c, gs, amount, bank, hget, _, _, _, _, _, hle, _, rfl⟩ := withdrawFunds_ok h
  have hu := getC_uid _ _ _ hget
  have hmem := getC_mem _ _ _ hget
  rw [← hu] at hget
  refine ⟨hI.addrOk, ?_, ?_, hI.once, hI.idxCat, hI.idxCamp, capInvL_setC_same hI.cap hget rfl rfl⟩
  · intro x hx
    cases mem_setC _ _ _ hx with
    | inl e => rw [e]; exact hI.promOk c hmem
    | inr hm => exact hI.promOk x hm
  · intro x hx
    cases mem_setC _ _ _ hx with
    | inl e => rw [e]; simp only [Pool.avail] at *; omega
    | inr hm => exact hI.avail x hm

theorem inv_grantReward {s s' : State} {m : GrantMsg} (hI : Inv s) (h : grantReward s m = .ok s') : Inv s' := by
  obtain ⟨c, r, caps, d, hnew, hget, _, _, _, _, hcaps, hle, _, rfl⟩ := grantReward_ok h
  obtain ⟨hlt, hst, _⟩ := grantCaps_ok hcaps
  have hu := getC_uid _ _ _ hget
  have hmem := getC_mem _ _ _ hget
  refine ⟨hI.addrOk, ?_, ?_, ?_, ?_, ?_, ?_⟩
  · intro x hx
    cases mem_setC _ _ _ hx with
    | inl e => rw [e]; exact hI.promOk c hmem
    | inr hm => exact hI.promOk x hm
  · intro x hx
    cases mem_setC _ _ _ hx with
    | inl e => rw [e]; simp only [Pool.avail] at *; omega
    | inr hm => exact hI.avail x hm
  · show (List.map (fun r : Reward => r.uid) (s.rewards ++ [_])).Nodup
    rw [List.map_append, List.nodup_append]
    refine ⟨hI.once, by simp, ?_⟩
    intro a ha b hb
    simp only [List.map_cons, List.map_nil, List.mem_singleton] at hb
    subst hb
    intro e
    obtain ⟨x, hx, hxu⟩ := List.mem_map.mp ha
    exact getBy_none _ _ _ hnew x hx (by rw [hxu, e])
  · show List.map (fun x : CatIdx => x.uid) (s.byCat ++ [_]) = List.map (fun r : Reward => r.uid) (s.rewards ++ [_])
    rw [List.map_append, List.map_append]
    have := hI.idxCat
    rw [this]; rfl
  · show List.map (fun x : Nat × Nat => x.2) (s.byCamp ++ [_]) = List.map (fun r : Reward => r.uid) (s.rewards ++ [_])
    rw [List.map_append, List.map_append]
    have := hI.idxCamp
    rw [this]; rfl
  · show CapInvL (setC s.campaigns _) (s.rewards ++ [_]) caps.1
    rw [hst]
    have hget' : getC s.campaigns c.uid = some c := by rw [hu]; exact hget
    have hg := capInvL_grant (r := { uid := m.uid, creator := m.creator, receiver := m.receiver, campaign := m.campaign, amt := r.2 })
      (a0 := m.receiver) hI.cap hget' hu.symm rfl hlt
    unfold capStats
    exact capInvL_setC_same hg hget' rfl rfl

end Sge.Reward
