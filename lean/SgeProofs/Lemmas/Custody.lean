/- custody ledgers of the core slice: what the pool and the two fee collectors owe, and how each building block
   of the handlers changes it -/
import Sge.Core.Run
import SgeProofs.Lemmas.Store
import SgeProofs.Lemmas.Wager
import SgeProofs.Lemmas.CoreFrame
import SgeProofs.Lemmas.Genesis
namespace Sge.Core
open Sge Sge.Genesis

def sumBy {α : Type} (f : α → Int) (l : List α) : Int := (l.map f).sum

theorem sumBy_nil {α : Type} (f : α → Int) : sumBy f [] = 0 := rfl
theorem sumBy_cons {α : Type} (f : α → Int) (x : α) (l : List α) : sumBy f (x :: l) = f x + sumBy f l := by
  simp [sumBy]

theorem lookup_none_of_lt {α : Type} (key : α → List Nat) (k : List Nat) (l : List α)
    (h : ∀ y ∈ l, ltL k (key y) = true) : lookup key k l = none := by
  unfold lookup
  rw [List.find?_eq_none]
  intro y hy
  have := ltL_ne _ _ (h y hy)
  simp only [Bool.not_eq_true]
  cases hc : key y == k
  · rfl
  · have e : key y = k := by simpa using hc
    rw [e] at this; simp at this

/-- replacing (or inserting) one keyed element of a sorted store changes a sum by `f new − f old` -/
theorem sumBy_upsert {α : Type} (key : α → List Nat) (f : α → Int) (x : α) (l : List α) (hs : Sorted key l) :
    sumBy f (upsert key x l) =
      sumBy f l - (match lookup key (key x) l with | some y => f y | none => 0) + f x := by
  induction l with
  | nil => simp [upsert, lookup, sumBy]
  | cons y ys ih =>
    have hs' := hs
    unfold Sorted at hs'
    rw [List.pairwise_cons] at hs'
    unfold upsert
    by_cases h1 : (key y == key x) = true
    · simp only [h1, if_true]
      simp only [lookup, List.find?, h1, sumBy_cons]
      omega
    · have h1' : (key y == key x) = false := by simpa using h1
      simp only [h1', Bool.false_eq_true, if_false]
      split
      · rename_i hlt
        have hnone : lookup key (key x) (y :: ys) = none := by
          apply lookup_none_of_lt
          intro z hz
          rcases List.mem_cons.mp hz with rfl | hz
          · exact hlt
          · exact ltL_trans _ _ _ hlt (hs'.1 z hz)
        rw [hnone]
        simp only [sumBy_cons]
        omega
      · have := ih hs'.2
        simp only [lookup, List.find?, h1', sumBy_cons] at this ⊢
        rw [this]; omega

-- ---------------------------------------------------------------------------------------------
-- what is owed

/-- the custody-relevant fields of a participation -/
def Part.owed (p : Part) : Int := if p.isSettled then 0 else p.liq + p.actualProfit
def Part.owedFee (p : Part) : Int := if p.isSettled then 0 else p.fee
def Book.owed (b : Book) : Int := sumBy Part.owed b.parts
def Book.owedFee (b : Book) : Int := sumBy Part.owedFee b.parts
def Bet.isOpen (b : Bet) : Bool := b.status != BS_SETTLED
def Bet.owedStake (b : Bet) : Int := if b.isOpen then sumBet b.fulfs else 0
def Bet.owedFee (b : Bet) : Int := if b.isOpen then b.fee else 0

/-- what the liquidity pool owes: unpaid participations (liquidity + realised profit) and the stakes of open bets -/
def owedPool (s : State) : Int := sumBy Book.owed s.books + sumBy Bet.owedStake s.bets
def owedBetFee (s : State) : Int := sumBy Bet.owedFee s.bets
def owedHouseFee (s : State) : Int := sumBy Book.owedFee s.books

/-- two participations with the same custody-relevant fields -/
def Part.sameCust (p q : Part) : Prop :=
  p.idx = q.idx ∧ p.liq = q.liq ∧ p.actualProfit = q.actualProfit ∧ p.fee = q.fee ∧ p.isSettled = q.isSettled ∧ p.addr = q.addr

theorem Part.sameCust.owed {p q : Part} (h : p.sameCust q) : p.owed = q.owed ∧ p.owedFee = q.owedFee := by
  obtain ⟨_, h1, h2, h3, h4, _⟩ := h
  unfold Part.owed Part.owedFee
  rw [h1, h2, h3, h4]
  exact ⟨rfl, rfl⟩

theorem Part.sameCust.refl (p : Part) : p.sameCust p := ⟨rfl, rfl, rfl, rfl, rfl, rfl⟩
theorem Part.sameCust.symm {p q : Part} (h : p.sameCust q) : q.sameCust p :=
  ⟨h.1.symm, h.2.1.symm, h.2.2.1.symm, h.2.2.2.1.symm, h.2.2.2.2.1.symm, h.2.2.2.2.2.symm⟩
theorem Part.sameCust.trans {p q r : Part} (h1 : p.sameCust q) (h2 : q.sameCust r) : p.sameCust r :=
  ⟨h1.1.trans h2.1, h1.2.1.trans h2.2.1, h1.2.2.1.trans h2.2.2.1, h1.2.2.2.1.trans h2.2.2.2.1,
   h1.2.2.2.2.1.trans h2.2.2.2.2.1, h1.2.2.2.2.2.trans h2.2.2.2.2.2⟩

/-- overwriting a participation by one with the same custody fields keeps both sums of the book -/
theorem Book.setPart_sameCust (b : Book) (p q : Part) (hs : Sorted Part.key b.parts)
    (hq : b.getPart p.idx = some q) (hc : p.sameCust q) :
    (b.setPart p).owed = b.owed ∧ (b.setPart p).owedFee = b.owedFee := by
  unfold Book.owed Book.owedFee Book.setPart
  simp only
  rw [sumBy_upsert Part.key _ p b.parts hs, sumBy_upsert Part.key _ p b.parts hs]
  have hq' : lookup Part.key (Part.key p) b.parts = some q := hq
  rw [hq']
  simp only
  have := hc.owed
  omega

end Sge.Core

namespace Sge.Core
open Sge Sge.Genesis

-- ---------------------------------------------------------------------------------------------
-- the wager loop never touches the custody-relevant fields of any participation

theorem Book.getPart_idx {b : Book} {i : Nat} {q : Part} (h : b.getPart i = some q) : q.idx = i := by
  unfold Book.getPart lookup at h
  have := List.find?_some h
  simpa [Part.key] using this

theorem Book.getPart_setPart_self (b : Book) (p : Part) : (b.setPart p).getPart p.idx = some p :=
  lookup_upsert_self Part.key p b.parts

theorem Book.getPart_setPart_ne (b : Book) (p : Part) (i : Nat) (h : p.idx ≠ i) : (b.setPart p).getPart i = b.getPart i :=
  lookup_upsert_ne Part.key p [i] b.parts (by simp [Part.key, h])

/-- loop invariant of `fulfillBetByParticipationQueue` with respect to the custody fields -/
structure WInv (b0 : Book) (f : FInfo) : Prop where
  sorted : Sorted Part.key f.book.parts
  owed : f.book.owed = b0.owed
  owedFee : f.book.owedFee = b0.owedFee
  fmapOk : ∀ x ∈ f.fmap, ∃ q, f.book.getPart x.1 = some q ∧ x.2.1.sameCust q
  uid : f.book.uid = b0.uid
  partsFrom : ∀ q ∈ f.book.parts, ∃ q0 ∈ b0.parts, q.sameCust q0

/-- a book update that leaves the participations alone keeps the invariant -/
theorem WInv.of_parts_eq {b0 : Book} {f f' : FInfo} (h : WInv b0 f) (hp : f'.book.parts = f.book.parts)
    (hm : f'.fmap = f.fmap) (hu : f'.book.uid = f.book.uid) : WInv b0 f' := by
  obtain ⟨h1, h2, h3, h4, h5, h6⟩ := h
  refine ⟨by rw [hp]; exact h1, ?_, ?_, ?_, hu.trans h5, by rw [hp]; exact h6⟩
  · unfold Book.owed at *; rw [hp]; exact h2
  · unfold Book.owedFee at *; rw [hp]; exact h3
  · intro x hx
    rw [hm] at hx
    obtain ⟨q, hq, hc⟩ := h4 x hx
    exact ⟨q, by unfold Book.getPart at *; rw [hp]; exact hq, hc⟩

/-- writing back a participation whose custody fields equal those of the stored one keeps the invariant;
    `newMap` may replace the in-memory copies of that participation by any copy with the same custody fields -/
theorem WInv.setPart {b0 : Book} {f : FInfo} (h : WInv b0 f) (p q : Part) (hq : f.book.getPart p.idx = some q)
    (hc : p.sameCust q) (bk : Book) (hbk : bk.parts = (f.book.setPart p).parts) (hbu : bk.uid = f.book.uid)
    (fm : List (Nat × Part × PExp))
    (hfm : ∀ y ∈ fm, (∃ x ∈ f.fmap, y.1 = x.1 ∧ y.2.1 = x.2.1) ∨ (y.1 = p.idx ∧ y.2.1.sameCust p)) :
    WInv b0 { f with book := bk, fmap := fm } := by
  obtain ⟨h1, h2, h3, h4, h5, h6⟩ := h
  have hsum := Book.setPart_sameCust f.book p q h1 hq hc
  have hsorted : Sorted Part.key (f.book.setPart p).parts := upsert_sorted Part.key p f.book.parts h1
  have hqm : q ∈ f.book.parts := by
    unfold Book.getPart lookup at hq
    exact List.mem_of_find?_eq_some hq
  refine ⟨by show Sorted Part.key bk.parts; rw [hbk]; exact hsorted, ?_, ?_, ?_, hbu.trans h5, ?_⟩
  rotate_right
  · intro z hz
    have hz' : z ∈ (f.book.setPart p).parts := by
      have : z ∈ bk.parts := hz
      rw [hbk] at this; exact this
    rcases (mem_upsert_iff Part.key p z f.book.parts h1).mp hz' with e | e
    · obtain ⟨q0, hq0, hc0⟩ := h6 q hqm
      exact ⟨q0, hq0, by rw [e]; exact hc.trans hc0⟩
    · exact h6 z e.1
  · show bk.owed = _
    unfold Book.owed; rw [hbk]; exact hsum.1.trans h2
  · show bk.owedFee = _
    unfold Book.owedFee; rw [hbk]; exact hsum.2.trans h3
  · intro y hy
    show ∃ q', bk.getPart y.1 = some q' ∧ _
    have hget : ∀ i, bk.getPart i = (f.book.setPart p).getPart i := by
      intro i; unfold Book.getPart; rw [hbk]
    rcases hfm y hy with ⟨x, hx, e1, e2⟩ | ⟨e1, e2⟩
    · obtain ⟨qx, hqx, hcx⟩ := h4 x hx
      by_cases hi : p.idx = x.1
      · refine ⟨p, ?_, ?_⟩
        · rw [hget, e1, ← hi]; exact Book.getPart_setPart_self _ _
        · rw [e2]
          rw [← hi, hq] at hqx
          cases hqx
          exact hcx.trans hc.symm
      · refine ⟨qx, ?_, by rw [e2]; exact hcx⟩
        rw [hget, e1, Book.getPart_setPart_ne _ _ _ hi]; exact hqx
    · exact ⟨p, by rw [hget, e1]; exact Book.getPart_setPart_self _ _, e2⟩

theorem setMaxLoss_sameCust (p : Part) (e : PExp) (o : Nat) (b : Int) : (setMaxLoss p e o b).sameCust p := by
  unfold setMaxLoss
  simp only
  split
  · exact ⟨rfl, rfl, rfl, rfl, rfl, rfl⟩
  · split <;> exact ⟨rfl, rfl, rfl, rfl, rfl, rfl⟩

theorem applyFul_sameCust (o : Nat) (p : Part) (e : PExp) (b π : Int) : (applyFul o p e b π).1.sameCust p := by
  unfold applyFul
  exact (setMaxLoss_sameCust _ _ _ _).trans ⟨rfl, rfl, rfl, rfl, rfl, rfl⟩

theorem stage1_frame (o : Nat) (ov mult : Dec) (thr : Int) (f : FInfo) (pe : Part × PExp) :
    (stage1 o ov mult thr f pe).1.sameCust pe.1 ∧
    (stage1 o ov mult thr f pe).2.2.2.book.parts = f.book.parts ∧
    (stage1 o ov mult thr f pe).2.2.2.fmap = f.fmap ∧
    (stage1 o ov mult thr f pe).2.2.2.book.uid = f.book.uid := by
  unfold stage1
  simp only
  split
  · exact ⟨applyFul_sameCust _ _ _ _ _, rfl, rfl, rfl⟩
  · exact ⟨Part.sameCust.refl _, rfl, rfl, rfl⟩

theorem secondaryOne_frame (o : Nat) (thr : Int) (allExp : List PExp) (ms : List (Nat × Dec))
    (acc : Part × Book × Bool) (x : Nat) :
    (secondaryOne o thr allExp ms acc x).1.sameCust acc.1 ∧ (secondaryOne o thr allExp ms acc x).2.1.parts = acc.2.1.parts ∧
    (secondaryOne o thr allExp ms acc x).2.1.uid = acc.2.1.uid := by
  unfold secondaryOne
  split
  · exact ⟨Part.sameCust.refl _, rfl, rfl⟩
  · split
    · exact ⟨Part.sameCust.refl _, rfl, rfl⟩
    · split
      · exact ⟨Part.sameCust.refl _, rfl, rfl⟩
      · split
        · exact ⟨Part.sameCust.refl _, rfl, rfl⟩
        · split
          · refine ⟨⟨rfl, rfl, rfl, rfl, rfl, rfl⟩, ?_, ?_⟩
            · simp only
              split <;> rfl
            · simp only
              split <;> rfl
          · exact ⟨Part.sameCust.refl _, rfl, rfl⟩

theorem secondaryFold_frame (o : Nat) (thr : Int) (allExp : List PExp) (ms : List (Nat × Dec)) :
    ∀ (l : List Nat) (acc : Part × Book × Bool),
    (l.foldl (secondaryOne o thr allExp ms) acc).1.sameCust acc.1 ∧
    (l.foldl (secondaryOne o thr allExp ms) acc).2.1.parts = acc.2.1.parts ∧
    (l.foldl (secondaryOne o thr allExp ms) acc).2.1.uid = acc.2.1.uid := by
  intro l
  induction l with
  | nil => intro acc; exact ⟨Part.sameCust.refl _, rfl, rfl⟩
  | cons x xs ih =>
    intro acc
    simp only [List.foldl_cons]
    have h1 := secondaryOne_frame o thr allExp ms acc x
    have h2 := ih (secondaryOne o thr allExp ms acc x)
    exact ⟨h2.1.trans h1.1, h2.2.1.trans h1.2.1, h2.2.2.trans h1.2.2⟩

theorem stage2_frame (o : Nat) (mo : List Nat) (ms : List (Nat × Dec)) (thr : Int) (x : Part × PExp × Bool × FInfo) :
    (stage2 o mo ms thr x).1.sameCust x.1 ∧
    (stage2 o mo ms thr x).2.2.book.parts = x.2.2.2.book.parts ∧
    (stage2 o mo ms thr x).2.2.fmap = x.2.2.2.fmap ∧
    (stage2 o mo ms thr x).2.2.book.uid = x.2.2.2.book.uid := by
  unfold stage2
  split
  · simp only
    split
    · have := secondaryFold_frame o thr x.2.2.2.allExp ms mo
        ({ x.1 with notFilled := wrapDec x.1.notFilled }, x.2.2.2.book, x.2.2.2.err)
      exact ⟨this.1.trans ⟨rfl, rfl, rfl, rfl, rfl, rfl⟩, this.2.1, rfl, this.2.2⟩
    · exact ⟨⟨rfl, rfl, rfl, rfl, rfl, rfl⟩, rfl, rfl, rfl⟩
  · exact ⟨Part.sameCust.refl _, rfl, rfl, rfl⟩

end Sge.Core

namespace Sge.Core
open Sge Sge.Genesis

theorem rollOne_frame (elig : Bool) (o idx : Nat) (acc : Book × PExp × List (Nat × Part × PExp)) (pe : PExp) :
    (rollOne elig o idx acc pe).1.parts = acc.1.parts ∧ (rollOne elig o idx acc pe).1.uid = acc.1.uid ∧
    (∀ y ∈ (rollOne elig o idx acc pe).2.2, ∃ x ∈ acc.2.2, y.1 = x.1 ∧ y.2.1 = x.2.1) := by
  unfold rollOne
  simp only
  split
  · split
    · refine ⟨rfl, rfl, ?_⟩
      intro y hy
      simp only [List.mem_map] at hy
      obtain ⟨x, hx, rfl⟩ := hy
      refine ⟨x, hx, ?_⟩
      split <;> exact ⟨rfl, rfl⟩
    · exact ⟨rfl, rfl, fun y hy => ⟨y, hy, rfl, rfl⟩⟩
  · exact ⟨rfl, rfl, fun y hy => ⟨y, hy, rfl, rfl⟩⟩

theorem rollFold_frame (elig : Bool) (o idx : Nat) : ∀ (l : List PExp) (acc : Book × PExp × List (Nat × Part × PExp)),
    (l.foldl (rollOne elig o idx) acc).1.parts = acc.1.parts ∧ (l.foldl (rollOne elig o idx) acc).1.uid = acc.1.uid ∧
    (∀ y ∈ (l.foldl (rollOne elig o idx) acc).2.2, ∃ x ∈ acc.2.2, y.1 = x.1 ∧ y.2.1 = x.2.1) := by
  intro l
  induction l with
  | nil => intro acc; exact ⟨rfl, rfl, fun y hy => ⟨y, hy, rfl, rfl⟩⟩
  | cons e es ih =>
    intro acc
    simp only [List.foldl_cons]
    have h1 := rollOne_frame elig o idx acc e
    have h2 := ih (rollOne elig o idx acc e)
    refine ⟨h2.1.trans h1.1, h2.2.1.trans h1.2.1, ?_⟩
    intro y hy
    obtain ⟨x, hx, e1, e2⟩ := h2.2.2 y hy
    obtain ⟨z, hz, e3, e4⟩ := h1.2.2 x hx
    exact ⟨z, hz, e1.trans e3, e2.trans e4⟩

theorem requeueOdds_parts (idx : Nat) (b : Book) (oq : Nat × List Nat) :
    (requeueOdds idx b oq).parts = b.parts ∧ (requeueOdds idx b oq).uid = b.uid := by
  unfold requeueOdds; exact ⟨rfl, rfl⟩

theorem requeueOddsFold_parts (idx : Nat) : ∀ (l : List (Nat × List Nat)) (b : Book),
    (l.foldl (requeueOdds idx) b).parts = b.parts ∧ (l.foldl (requeueOdds idx) b).uid = b.uid := by
  intro l
  induction l with
  | nil => intro b; exact ⟨rfl, rfl⟩
  | cons x xs ih =>
    intro b
    simp only [List.foldl_cons]
    have h1 := ih (requeueOdds idx b x)
    have h2 := requeueOdds_parts idx b x
    exact ⟨h1.1.trans h2.1, h1.2.trans h2.2⟩

/-- `refreshQueueAndState` keeps the custody invariant: it writes the participation back with only round
    bookkeeping changed -/
theorem requeue_WInv {b0 : Book} {f : FInfo} (h : WInv b0 f) (p q : Part) (e : PExp) (o : Nat)
    (hq : f.book.getPart p.idx = some q) (hc : p.sameCust q) : WInv b0 (requeue f p e o) := by
  unfold requeue
  simp only
  have hr := rollFold_frame (decide ((0 : Int) < p.crl - maxI 0 p.crMaxLoss)) o p.idx (f.book.expsOfIdx p.idx) (f.book, e, f.fmap)
  generalize hR : (f.book.expsOfIdx p.idx).foldl (rollOne (decide ((0 : Int) < p.crl - maxI 0 p.crMaxLoss)) o p.idx) (f.book, e, f.fmap) = R at hr
  -- the participation that is written back
  let p2 : Part := { p with crl := p.crl - maxI 0 p.crMaxLoss, notFilled := R.1.oddsCount, maxLoss := p.maxLoss + p.crMaxLoss, crTotalBet := 0, crMaxLoss := 0 }
  have hp2 : p2.sameCust q := Part.sameCust.trans (⟨rfl, rfl, rfl, rfl, rfl, rfl⟩ : p2.sameCust p) hc
  have hfm : ∀ y ∈ (R.2.2.map fun x => if x.1 == p2.idx then (x.1, p2, x.2.2) else x),
      (∃ x ∈ f.fmap, y.1 = x.1 ∧ y.2.1 = x.2.1) ∨ (y.1 = p2.idx ∧ y.2.1.sameCust p2) := by
    intro y hy
    simp only [List.mem_map] at hy
    obtain ⟨x, hx, rfl⟩ := hy
    split
    · rename_i hxe
      exact Or.inr ⟨by simpa using hxe, Part.sameCust.refl _⟩
    · obtain ⟨z, hz, e1, e2⟩ := hr.2.2 x hx
      exact Or.inl ⟨z, hz, e1, e2⟩
  split
  · -- eligible: queues are rewritten as well
    have := WInv.setPart h p2 q hq hp2 ((R.1.setPart p2).queues.foldl (requeueOdds p2.idx) (R.1.setPart p2))
      (by rw [(requeueOddsFold_parts _ _ _).1]; show upsert Part.key p2 R.1.parts = upsert Part.key p2 f.book.parts; rw [hr.1])
      (by rw [(requeueOddsFold_parts _ _ _).2]; exact hr.2.1)
      _ hfm
    exact WInv.of_parts_eq this rfl rfl rfl
  · have := WInv.setPart h p2 q hq hp2 (R.1.setPart p2)
      (by show upsert Part.key p2 R.1.parts = upsert Part.key p2 f.book.parts; rw [hr.1]) hr.2.1 _ hfm
    exact WInv.of_parts_eq this rfl rfl rfl

theorem stage3_WInv {b0 : Book} (o : Nat) (x : Part × PExp × FInfo) (h : WInv b0 x.2.2) (q : Part)
    (hq : x.2.2.book.getPart x.1.idx = some q) (hc : x.1.sameCust q) : WInv b0 (stage3 o x) := by
  unfold stage3
  simp only
  have h1 : WInv b0 { x.2.2 with book := (x.2.2.book.setExp x.2.1).setPart x.1 } := by
    have := WInv.setPart h x.1 q hq hc ((x.2.2.book.setExp x.2.1).setPart x.1) rfl rfl x.2.2.fmap
      (fun y hy => Or.inl ⟨y, hy, rfl, rfl⟩)
    exact this
  split
  · apply requeue_WInv h1 x.1 x.1
    · exact Book.getPart_setPart_self _ _
    · exact Part.sameCust.refl _
  · exact h1

theorem visit_WInv {b0 : Book} (o : Nat) (ov mult : Dec) (mo : List Nat) (ms : List (Nat × Dec)) (thr : Int)
    (f : FInfo) (i : Nat) (h : WInv b0 f) : WInv b0 (visit o ov mult mo ms thr f i) := by
  unfold visit
  split
  · exact WInv.of_parts_eq h rfl rfl rfl
  · rename_i pe hpe
    -- the item comes from the in-memory map
    unfold FInfo.item at hpe
    simp only [Option.map_eq_some_iff] at hpe
    obtain ⟨x, hx, rfl⟩ := hpe
    have hxm := List.mem_of_find?_eq_some hx
    obtain ⟨q, hq, hcq⟩ := h.fmapOk x hxm
    have hqi := Book.getPart_idx hq
    have s1 := stage1_frame o ov mult thr f (x.2.1, x.2.2)
    have s2 := stage2_frame o mo ms thr (stage1 o ov mult thr f (x.2.1, x.2.2))
    have hW2 : WInv b0 (stage2 o mo ms thr (stage1 o ov mult thr f (x.2.1, x.2.2))).2.2 :=
      WInv.of_parts_eq h (s2.2.1.trans s1.2.1) (s2.2.2.1.trans s1.2.2.1) (s2.2.2.2.trans s1.2.2.2)
    have hc2 : (stage2 o mo ms thr (stage1 o ov mult thr f (x.2.1, x.2.2))).1.sameCust q :=
      (s2.1.trans s1.1).trans hcq
    apply stage3_WInv o _ hW2 q
    · have : (stage2 o mo ms thr (stage1 o ov mult thr f (x.2.1, x.2.2))).1.idx = x.1 := by
        rw [hc2.1]; exact hqi
      rw [this]
      unfold Book.getPart at hq ⊢
      rw [s2.2.1, s1.2.1]; exact hq
    · exact hc2

theorem loop_WInv {b0 : Book} (o : Nat) (ov mult : Dec) (mo : List Nat) (ms : List (Nat × Dec)) (thr : Int) :
    ∀ (qs : List Nat) (f : FInfo), WInv b0 f → WInv b0 (loop o ov mult mo ms thr qs f) := by
  intro qs
  induction qs with
  | nil => intro f h; exact h
  | cons i rest ih =>
    intro f h
    unfold loop
    simp only
    have hv := visit_WInv o ov mult mo ms thr f i h
    split
    · exact hv
    · split
      · exact hv
      · exact ih _ hv

/-- ProcessWager leaves what the book owes (liquidity + realised profit of unpaid participations, their fees)
    exactly as it was, and keeps the participation list sorted -/
theorem processWager_custody (b b' : Book) (o betId : Nat) (ov mult : Dec) (mo : List Nat) (ms : List (Nat × Dec))
    (thr A : Int) (P : Dec) (fulfs : List Fulf) (taken : Int) (hs : Sorted Part.key b.parts)
    (h : processWager b o betId ov mult mo ms thr A P = some (b', fulfs, taken)) :
    b'.owed = b.owed ∧ b'.owedFee = b.owedFee ∧ Sorted Part.key b'.parts ∧ b'.uid = b.uid ∧
    (∀ q ∈ b'.parts, ∃ q0 ∈ b.parts, q.sameCust q0) := by
  unfold processWager at h
  simp only [bind, Option.bind_eq_some_iff] at h
  obtain ⟨q, _, f0, hf0, h⟩ := h
  have hW0 : WInv b f0 := by
    unfold initFInfo at hf0
    simp only [bind, Option.bind_eq_some_iff, pure, Option.some.injEq] at hf0
    obtain ⟨_, _, _, _, _, _, _, _, rfl⟩ := hf0
    refine ⟨hs, rfl, rfl, ?_, rfl, fun q hq => ⟨q, hq, Part.sameCust.refl _⟩⟩
    intro x hx
    simp only [List.mem_map] at hx
    obtain ⟨p, hp, rfl⟩ := hx
    refine ⟨p, ?_, Part.sameCust.refl _⟩
    -- a member of a sorted list is what `lookup` finds under its key
    show lookup Part.key [p.idx] b.parts = some p
    have := upsert_mem Part.key p b.parts hs hp
    have h2 := lookup_upsert_self Part.key p b.parts
    rw [this] at h2
    exact h2
  have hW := loop_WInv o ov mult mo ms thr q f0 hW0
  have huid : (loop o ov mult mo ms thr q f0).book.uid = b.uid := hW.uid
  unfold finishWager at h
  split at h
  · cases h
  · split at h
    · cases h
    · simp only [Option.some.injEq, Prod.mk.injEq] at h
      obtain ⟨h1, _, _⟩ := h
      rw [← h1]
      exact ⟨hW.owed, hW.owedFee, hW.sorted, huid, hW.partsFrom⟩

end Sge.Core

namespace Sge.Core
open Sge Sge.Genesis

-- ---------------------------------------------------------------------------------------------
-- bank facts

theorem transfer_spec {bal bal' : List (Nat × Int)} {a b : Nat} {x : Int} (h : transfer bal a b x = some bal') (hab : a ≠ b) :
    0 ≤ x ∧ getBal bal' a = getBal bal a - x ∧ getBal bal' b = getBal bal b + x ∧
    ∀ c, c ≠ a → c ≠ b → getBal bal' c = getBal bal c := by
  unfold transfer at h
  split at h
  · cases h
  · split at h
    · cases h
    · split at h
      · simp only [Option.some.injEq] at h
        subst h
        rename_i hz
        subst hz
        exact ⟨by omega, by omega, by omega, fun _ _ _ => rfl⟩
      · simp only [Option.some.injEq] at h
        subst h
        refine ⟨by omega, ?_, ?_, ?_⟩
        · rw [getBal_setBal_ne _ _ _ _ (Ne.symm hab), getBal_setBal_self]
        · rw [getBal_setBal_self, getBal_setBal_ne _ _ _ _ hab]
        · intro c hca hcb
          rw [getBal_setBal_ne _ _ _ _ (Ne.symm hcb), getBal_setBal_ne _ _ _ _ (Ne.symm hca)]

theorem bankSend_spec {s s' : State} {a b : Nat} {x : Int} (h : bankSend s a b x = some s') (hab : a ≠ b) :
    ∃ bal', s' = { s with bal := bal' } ∧ 0 ≤ x ∧ getBal bal' a = getBal s.bal a - x ∧ getBal bal' b = getBal s.bal b + x ∧
      (∀ c, c ≠ a → c ≠ b → getBal bal' c = getBal s.bal c) := by
  obtain ⟨bal', ht, rfl⟩ := bankSend_shape h
  have := transfer_spec ht hab
  exact ⟨bal', rfl, this.1, this.2.1, this.2.2.1, this.2.2.2⟩

-- ---------------------------------------------------------------------------------------------
-- the custody invariant

structure Cust (s : State) : Prop where
  pool : getBal s.bal ACC_POOL = owedPool s
  betFee : getBal s.bal ACC_BETFEE = owedBetFee s
  houseFee : getBal s.bal ACC_HOUSEFEE = owedHouseFee s
  sortedBooks : Sorted Book.key s.books
  sortedParts : ∀ b ∈ s.books, Sorted Part.key b.parts
  sortedBets : Sorted Bet.key s.bets
  partsUser : ∀ b ∈ s.books, ∀ p ∈ b.parts, isModuleAcc p.addr = false

theorem getBook_mem {s : State} {u : Nat} {b : Book} (h : getBook s u = some b) : b ∈ s.books ∧ b.uid = u :=
  getBook_eq_some s u b h

/-- replacing a stored book by one with the same uid: how the two book sums change -/
theorem setBook_sums (s : State) (b b' : Book) (hs : Sorted Book.key s.books) (hb : getBook s b'.uid = some b) :
    sumBy Book.owed (setBook s b').books = sumBy Book.owed s.books - b.owed + b'.owed ∧
    sumBy Book.owedFee (setBook s b').books = sumBy Book.owedFee s.books - b.owedFee + b'.owedFee := by
  unfold setBook
  simp only
  rw [sumBy_upsert Book.key _ b' s.books hs, sumBy_upsert Book.key _ b' s.books hs]
  have : lookup Book.key (Book.key b') s.books = some b := hb
  rw [this]
  exact ⟨rfl, rfl⟩

theorem setBook_new_sums (s : State) (b' : Book) (hs : Sorted Book.key s.books) (hb : getBook s b'.uid = none) :
    sumBy Book.owed (setBook s b').books = sumBy Book.owed s.books + b'.owed ∧
    sumBy Book.owedFee (setBook s b').books = sumBy Book.owedFee s.books + b'.owedFee := by
  unfold setBook
  simp only
  rw [sumBy_upsert Book.key _ b' s.books hs, sumBy_upsert Book.key _ b' s.books hs]
  have : lookup Book.key (Book.key b') s.books = none := hb
  rw [this]
  constructor <;> simp

theorem setBook_mem {s : State} {b' x : Book} (hs : Sorted Book.key s.books) (hx : x ∈ (setBook s b').books) :
    x = b' ∨ x ∈ s.books := by
  unfold setBook at hx
  rcases (mem_upsert_iff Book.key b' x s.books hs).mp hx with h | h
  · exact Or.inl h
  · exact Or.inr h.1

theorem isModuleAcc_false_ne {a : Nat} (h : isModuleAcc a = false) : a ≠ ACC_POOL ∧ a ≠ ACC_BETFEE ∧ a ≠ ACC_HOUSEFEE := by
  unfold isModuleAcc at h
  simp only [Bool.or_eq_false_iff, beq_eq_false_iff_ne] at h
  exact ⟨h.1.1, h.1.2, h.2⟩

end Sge.Core
