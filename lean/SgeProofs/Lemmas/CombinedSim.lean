/-
  Simulation of the combined slice by the core slice: the core projection of every combined step is `Core.run` of a
  short list of core operations (bank sends between non-custody accounts plus at most one core handler op, or the
  core end-block followed by the hook transfers), each of which is `Op.userSigned'`.
-/
import Sge.Combined
import SgeProofs.Lemmas.CustodySettleStep
namespace Sge.Combined
open Sge Sge.Core

/-- signers, creators and owners are not custody module accounts -/
def Op.wf : Op → Prop
  | .core op => op.userSigned'
  | .create c o _ => isModuleAcc c = false ∧ isModuleAcc o = false
  | .topUp c _ _ => isModuleAcc c = false
  | _ => True

/-- both x/subaccount maps relate non-custody accounts only -/
structure OwnInv (s : State) : Prop where
  own : ∀ o a, aget s.owners o = some a → isModuleAcc o = false ∧ isModuleAcc a = false
  rev : ∀ a o, aget s.subOwner a = some o → isModuleAcc a = false ∧ isModuleAcc o = false

theorem cmb_subAddr_notModule (id : Nat) : isModuleAcc (subAddr id) = false := by
  unfold isModuleAcc subAddr SUB_BASE ACC_POOL ACC_BETFEE ACC_HOUSEFEE
  have h1 : (2000000 + id == 1000001) = false := by simp; omega
  have h2 : (2000000 + id == 1000002) = false := by simp; omega
  have h3 : (2000000 + id == 1000003) = false := by simp; omega
  rw [h1, h2, h3]; rfl

theorem cmb_aget_aset {β : Type} (l : List (Nat × β)) (k k' : Nat) (v : β) :
    aget (aset l k v) k' = if k = k' then some v else aget l k' := by
  induction l with
  | nil =>
    simp only [aset, aget]
  | cons x xs ih =>
    obtain ⟨k0, v0⟩ := x
    simp only [aset]
    by_cases h0 : k0 = k
    · subst h0
      simp only [if_true, aget]
      by_cases h1 : k0 = k' <;> simp [h1]
    · simp only [h0, if_false, aget, ih]
      by_cases h1 : k0 = k'
      · subst h1
        simp only [if_true]
        rw [if_neg (fun e => h0 e.symm)]
      · simp only [h1, if_false]

theorem cmb_run_append (c : Core.State) (a b : List Core.Op) : Core.run c (a ++ b) = Core.run (Core.run c a) b := by
  unfold Core.run
  exact List.foldl_append ..

theorem cmb_run_nil (c : Core.State) : Core.run c [] = c := rfl

/-- the core projection of `s'` is reached from that of `s` by user-signed core operations -/
def Sim (s s' : State) : Prop := ∃ ops : List Core.Op, (∀ o ∈ ops, o.userSigned') ∧ s'.core = Core.run s.core ops

/-- the two x/subaccount maps are unchanged -/
def Maps (s s' : State) : Prop := s'.owners = s.owners ∧ s'.subOwner = s.subOwner

theorem Sim.refl (s : State) : Sim s s := ⟨[], fun o ho => (by cases ho), rfl⟩

theorem Sim.trans {s1 s2 s3 : State} (h1 : Sim s1 s2) (h2 : Sim s2 s3) : Sim s1 s3 := by
  obtain ⟨o1, w1, e1⟩ := h1
  obtain ⟨o2, w2, e2⟩ := h2
  refine ⟨o1 ++ o2, ?_, ?_⟩
  · intro o ho
    rcases List.mem_append.mp ho with h | h
    · exact w1 o h
    · exact w2 o h
  · rw [cmb_run_append, ← e1, e2]

theorem Sim.ofEq {s s1 s2 : State} (h : Sim s s1) (e : s2.core = s1.core) : Sim s s2 := by
  obtain ⟨o, w, e1⟩ := h
  exact ⟨o, w, e.trans e1⟩

theorem Maps.refl (s : State) : Maps s s := ⟨rfl, rfl⟩
theorem Maps.trans {s1 s2 s3 : State} (h1 : Maps s1 s2) (h2 : Maps s2 s3) : Maps s1 s3 :=
  ⟨h2.1.trans h1.1, h2.2.trans h1.2⟩

theorem OwnInv.ofMaps {s s' : State} (h : OwnInv s) (m : Maps s s') : OwnInv s' :=
  ⟨by rw [m.1]; exact h.own, by rw [m.2]; exact h.rev⟩

/-- one core op executed on the core component -/
theorem Sim.ofCore {s : State} {c : Core.State} (op : Core.Op) (hwf : op.userSigned') (h : (Core.step s.core op).1 = c) :
    Sim s { s with core := c } :=
  ⟨[op], by intro o ho; simp only [List.mem_singleton] at ho; subst ho; exact hwf, by subst h; rfl⟩

theorem cmb_send_sim {s s' : State} {a b : Nat} {x : Int} (h : send s a b x = some s')
    (ha : isModuleAcc a = false) (hb : isModuleAcc b = false) : Sim s s' := by
  unfold send at h
  cases hc : bankSend s.core a b x with
  | none => simp [hc] at h
  | some c =>
    simp only [hc, Option.map_some, Option.some.injEq] at h
    subst h
    apply Sim.ofCore (.send a b x) trivial
    simp only [Core.step, ha, hb, Bool.or_self, Bool.false_eq_true, if_false, Core.commit, hc]

theorem cmb_send_maps {s s' : State} {a b : Nat} {x : Int} (h : send s a b x = some s') :
    Maps s s' ∧ s'.subs = s.subs ∧ s'.nextId = s.nextId := by
  unfold send at h
  cases hc : bankSend s.core a b x with
  | none => simp [hc] at h
  | some c =>
    simp only [hc, Option.map_some, Option.some.injEq] at h
    subst h
    exact ⟨⟨rfl, rfl⟩, rfl, rfl⟩

-- ---------------------------------------------------------------------------------------------
-- the x/subaccount handlers

theorem cmb_create_spec {s s' : State} {creator owner : Nat} {ls : List Sge.Subaccount.Lock} (hI : OwnInv s)
    (hc : isModuleAcc creator = false) (ho : isModuleAcc owner = false) (h : createO s creator owner ls = some s') :
    Sim s s' ∧ OwnInv s' := by
  unfold createO at h
  simp only [bind, Option.bind_eq_some_iff, pure, Option.some.injEq] at h
  obtain ⟨_, _, total, _, _, _, s1, hs1, rfl⟩ := h
  have hm := cmb_send_maps hs1
  have hsa := cmb_subAddr_notModule s.nextId
  refine ⟨(cmb_send_sim hs1 hc hsa).ofEq rfl, ?_, ?_⟩
  · intro o a hoa
    simp only [cmb_aget_aset] at hoa
    split at hoa
    · rename_i e; cases hoa; subst e; exact ⟨ho, hsa⟩
    · exact hI.own o a hoa
  · intro a o hoa
    simp only [cmb_aget_aset] at hoa
    split at hoa
    · rename_i e; cases hoa; subst e; exact ⟨hsa, ho⟩
    · exact hI.rev a o hoa

theorem cmb_topUp_spec {s s' : State} {creator owner : Nat} {ls : List Sge.Subaccount.Lock} (hI : OwnInv s)
    (hc : isModuleAcc creator = false) (h : topUpO s creator owner ls = some s') : Sim s s' ∧ Maps s s' := by
  unfold topUpO at h
  simp only [bind, Option.bind_eq_some_iff, pure, Option.some.injEq] at h
  obtain ⟨_, _, total, _, a, ha, r, _, _, _, s1, hs1, rfl⟩ := h
  exact ⟨(cmb_send_sim hs1 hc (hI.own owner a ha).2).ofEq rfl, (cmb_send_maps hs1).1⟩

theorem cmb_withdrawUnlocked_spec {s s' : State} {owner : Nat} (hI : OwnInv s)
    (h : withdrawUnlockedO s owner = some s') : Sim s s' ∧ Maps s s' := by
  unfold withdrawUnlockedO at h
  simp only [bind, Option.bind_eq_some_iff, pure, Option.some.injEq] at h
  obtain ⟨a, ha, r, _, _, _, sum', _, s1, hs1, rfl⟩ := h
  have := hI.own owner a ha
  exact ⟨(cmb_send_sim hs1 this.2 this.1).ofEq rfl, (cmb_send_maps hs1).1⟩

theorem cmb_withdrawLocked_spec {s s' : State} {a owner : Nat} {d : Int} (ha : isModuleAcc a = false)
    (ho : isModuleAcc owner = false) (h : withdrawLockedO s a owner d = some s') : Sim s s' ∧ Maps s s' := by
  unfold withdrawLockedO at h
  simp only [bind, Option.bind_eq_some_iff, pure, Option.some.injEq] at h
  obtain ⟨r, _, _, _, s1, hs1, sum', _, rfl⟩ := h
  exact ⟨(cmb_send_sim hs1 ha ho).ofEq rfl, (cmb_send_maps hs1).1⟩

theorem cmb_returnToSub_spec {s s' : State} {a owner : Nat} {x : Int} (ha : isModuleAcc a = false)
    (ho : isModuleAcc owner = false) (h : returnToSubO s a owner x = some s') : Sim s s' ∧ Maps s s' := by
  unfold returnToSubO at h
  split at h
  · cases h; exact ⟨Sim.refl _, Maps.refl _⟩
  · simp only [bind, Option.bind_eq_some_iff, pure, Option.some.injEq] at h
    obtain ⟨r, _, _, _, s1, hs1, rfl⟩ := h
    exact ⟨(cmb_send_sim hs1 ho ha).ofEq rfl, (cmb_send_maps hs1).1⟩

theorem cmb_subWagerBet_spec {s s' : State} {owner : Nat} {tk : Tk} {uid : Nat} {amount : Int} {pl : WagerPayload}
    (ho : isModuleAcc owner = false) (h : subWagerBet s owner tk uid amount pl = some s') : Sim s s' ∧ Maps s s' := by
  unfold subWagerBet at h
  cases hc : wagerO s.core owner tk uid amount pl with
  | none => simp [hc] at h
  | some c =>
    simp only [hc, Option.map_some, Option.some.injEq] at h
    subst h
    refine ⟨Sim.ofCore (.wager owner tk uid amount pl) ho ?_, Maps.refl _⟩
    simp only [Core.step, Core.wager, Core.commit, hc]

theorem cmb_subWager_spec {s s' : State} {owner : Nat} {outerOk : Bool} {ic : Nat} {main sub : Int} {tk : Tk} {uid : Nat}
    {amount : Int} {pl : WagerPayload} (hI : OwnInv s)
    (h : subWagerO s owner outerOk ic main sub tk uid amount pl = some s') : Sim s s' ∧ Maps s s' := by
  unfold subWagerO at h
  simp only [bind, Option.bind_eq_some_iff, pure, Option.some.injEq] at h
  obtain ⟨_, _, a, ha, _, _, _, _, _, _, _, _, _, _, s1, hs1, s2, hs2, h3⟩ := h
  obtain ⟨ho, haa⟩ := hI.own owner a ha
  obtain ⟨x1, m1⟩ := cmb_withdrawLocked_spec haa ho hs1
  obtain ⟨x2, m2⟩ := cmb_subWagerBet_spec ho hs2
  obtain ⟨x3, m3⟩ := cmb_returnToSub_spec haa ho h3
  exact ⟨(x1.trans x2).trans x3, (m1.trans m2).trans m3⟩

theorem cmb_subDeposit_spec {s s' : State} {owner : Nat} {tk : Tk} {market : Nat} {amount : Int} {pd : Nat} (hI : OwnInv s)
    (h : subDepositO s owner tk market amount pd = some s') : Sim s s' ∧ Maps s s' := by
  unfold subDepositO at h
  simp only [bind, Option.bind_eq_some_iff, pure, Option.some.injEq] at h
  obtain ⟨_, _, a, ha, r, _, _, _, sum', _, c, hc, rfl⟩ := h
  obtain ⟨ho, haa⟩ := hI.own owner a ha
  refine ⟨?_, Maps.refl _⟩
  unfold subDepositCore putGrant at hc
  have hdep : isModuleAcc (depositFor owner a) = false := by
    unfold depositFor; split <;> assumption
  have h1 : Sim s { s with core := (Core.step s.core (.grant a owner 0 amount none)).1 } :=
    Sim.ofCore (.grant a owner 0 amount none) trivial rfl
  generalize (Core.step s.core (.grant a owner 0 amount none)).1 = cg at hc h1
  cases hd : houseDepositO cg owner (tkWith tk (tk.kycOk owner)) market amount a with
  | none => simp [hd] at hc
  | some res =>
    simp only [hd, Option.map_some, Option.some.injEq] at hc
    have h2 : Sim { s with core := cg } { s with core := c } := by
      apply Sim.ofCore (s := { s with core := cg }) (.deposit owner (tkWith tk (tk.kycOk owner)) market amount a) hdep
      simp only [Core.step, Core.houseDeposit, hd, hc]
    exact (h1.trans h2).ofEq rfl

theorem cmb_subWithdraw_spec {s s' : State} {owner : Nat} {tk : Tk} {market idx mode : Nat} {amount : Int} {pd : Nat}
    (h : subWithdrawO s owner tk market idx mode amount pd = some s') : Sim s s' ∧ Maps s s' := by
  unfold subWithdrawO at h
  simp only [bind, Option.bind_eq_some_iff, pure, Option.some.injEq] at h
  obtain ⟨a, ha, r, _, w, _, c, hc, sum', _, rfl⟩ := h
  refine ⟨?_, Maps.refl _⟩
  unfold subWithdrawCore putGrant at hc
  have h1 : Sim s { s with core := (Core.step s.core (.grant a owner 1 w none)).1 } :=
    Sim.ofCore (.grant a owner 1 w none) trivial rfl
  generalize (Core.step s.core (.grant a owner 1 w none)).1 = cg at hc h1
  have h2 : Sim { s with core := cg } { s with core := c } := by
    apply Sim.ofCore (s := { s with core := cg })
      (.withdraw owner (tkWith tk (tk.kycOk (if pd != 0 then pd else owner))) market idx mode amount a) trivial
    simp only [Core.step, Core.houseWithdraw, Core.commit, hc]
  exact (h1.trans h2).ofEq rfl

-- ---------------------------------------------------------------------------------------------
-- hooks and the end-block

theorem cmb_applyHook_spec {s s' : State} {hc : HookCall} (hI : OwnInv s) (h : applyHook s hc = some s') :
    Sim s s' ∧ Maps s s' := by
  cases hc with
  | win hs orig profit =>
    simp only [applyHook] at h
    split at h
    · cases h; exact ⟨Sim.refl _, Maps.refl _⟩
    · simp only [bind, Option.bind_eq_some_iff, pure, Option.some.injEq] at h
      obtain ⟨sum', _, owner, ho, s1, hs1, rfl⟩ := h
      obtain ⟨h1, h2⟩ := hI.rev hs owner ho
      exact ⟨(cmb_send_sim hs1 h1 h2).ofEq rfl, (cmb_send_maps hs1).1⟩
  | loss hs orig lost =>
    simp only [applyHook] at h
    split at h
    · cases h; exact ⟨Sim.refl _, Maps.refl _⟩
    · simp only [bind, Option.bind_eq_some_iff, pure, Option.some.injEq] at h
      obtain ⟨sum1, _, sum', _, rfl⟩ := h
      exact ⟨(Sim.refl s).ofEq rfl, Maps.refl _⟩
  | refund hs orig =>
    simp only [applyHook] at h
    split at h
    · cases h; exact ⟨Sim.refl _, Maps.refl _⟩
    · simp only [bind, Option.bind_eq_some_iff, pure, Option.some.injEq] at h
      obtain ⟨sum', _, rfl⟩ := h
      exact ⟨(Sim.refl s).ofEq rfl, Maps.refl _⟩

theorem cmb_applyHooks_spec : ∀ (l : List HookCall) {s s' : State}, OwnInv s → applyHooks s l = some s' →
    Sim s s' ∧ Maps s s' := by
  intro l
  induction l with
  | nil => intro s s' _ h; simp only [applyHooks, Option.some.injEq] at h; subst h; exact ⟨Sim.refl _, Maps.refl _⟩
  | cons x xs ih =>
    intro s s' hI h
    simp only [applyHooks, bind, Option.bind_eq_some_iff] at h
    obtain ⟨s1, h1, h2⟩ := h
    obtain ⟨x1, m1⟩ := cmb_applyHook_spec hI h1
    obtain ⟨x2, m2⟩ := ih (hI.ofMaps m1) h2
    exact ⟨x1.trans x2, m1.trans m2⟩

theorem cmb_endBlock_spec {s s' : State} (hI : OwnInv s) (h : endBlockO s = some s') : Sim s s' ∧ Maps s s' := by
  unfold endBlockO at h
  simp only [bind, Option.bind_eq_some_iff] at h
  obtain ⟨c, hc, h2⟩ := h
  have h1 : Sim s { s with core := c } := by
    apply Sim.ofCore .endBlock trivial
    simp only [Core.step, Core.endBlock, hc]
  obtain ⟨x2, m2⟩ := cmb_applyHooks_spec _ (s := { s with core := c }) (hI.ofMaps (Maps.refl _)) h2
  exact ⟨h1.trans x2, m2⟩

-- ---------------------------------------------------------------------------------------------
-- every step, every history

theorem cmb_commit_spec {s : State} {r : Option State} (hI : OwnInv s)
    (h : ∀ s', r = some s' → Sim s s' ∧ OwnInv s') : Sim s (commit s r).1 ∧ OwnInv (commit s r).1 := by
  cases r with
  | none => exact ⟨Sim.refl _, hI⟩
  | some s' => exact h s' rfl

/-- (a) SIMULATION: the core projection of a combined step is `Core.run` of user-signed core operations, and the
    maps keep relating non-custody accounts -/
theorem cmb_step_sim (s : State) (op : Op) (hI : OwnInv s) (hwf : op.wf) : Sim s (step s op).1 ∧ OwnInv (step s op).1 := by
  have lift : ∀ {r : Option State}, (∀ s', r = some s' → Sim s s' ∧ Maps s s') →
      Sim s (commit s r).1 ∧ OwnInv (commit s r).1 :=
    fun h => cmb_commit_spec hI (fun s' e => ⟨(h s' e).1, hI.ofMaps (h s' e).2⟩)
  cases op with
  | core cop =>
    by_cases he : cop = .endBlock
    · subst he
      show Sim s (endBlock s).1 ∧ OwnInv (endBlock s).1
      unfold endBlock
      cases h : endBlockO s with
      | none => exact ⟨Sim.refl _, hI⟩
      | some s' =>
        obtain ⟨x, m⟩ := cmb_endBlock_spec hI h
        exact ⟨x, hI.ofMaps m⟩
    · have e : step s (.core cop) = coreStep s cop := by
        cases cop <;> first | rfl | exact absurd rfl he
      rw [e]
      exact ⟨Sim.ofCore cop hwf rfl, hI.ofMaps (Maps.refl _)⟩
  | subParams w d => exact ⟨(Sim.refl s).ofEq rfl, hI.ofMaps (Maps.refl _)⟩
  | create c o ls =>
    exact cmb_commit_spec hI (fun s' e => cmb_create_spec hI hwf.1 hwf.2 e)
  | topUp c o ls => exact lift (fun s' e => cmb_topUp_spec hI hwf e)
  | withdrawUnlocked o => exact lift (fun s' e => cmb_withdrawUnlocked_spec hI e)
  | subWager o ok ic m sb tk u a pl => exact lift (fun s' e => cmb_subWager_spec hI e)
  | subDeposit o tk m a pd => exact lift (fun s' e => cmb_subDeposit_spec hI e)
  | subWithdraw o tk m i md a pd => exact lift (fun s' e => cmb_subWithdraw_spec e)

theorem cmb_run_sim : ∀ (ops : List Op) (s : State), OwnInv s → (∀ op ∈ ops, op.wf) →
    Sim s (run s ops) ∧ OwnInv (run s ops) := by
  intro ops
  induction ops with
  | nil => intro s hI _; exact ⟨Sim.refl _, hI⟩
  | cons op rest ih =>
    intro s hI hwf
    obtain ⟨x1, i1⟩ := cmb_step_sim s op hI (hwf op (List.mem_cons_self ..))
    obtain ⟨x2, i2⟩ := ih (step s op).1 i1 (fun o ho => hwf o (List.mem_cons_of_mem _ ho))
    exact ⟨x1.trans x2, i2⟩

end Sge.Combined
