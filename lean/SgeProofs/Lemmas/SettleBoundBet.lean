/-
  C05 bounded progress, part 2: the work measures on the chain state and the exact accounting of the bet end-blocker
  (BatchMarketSettlements): one run with budget `n` is a FIFO `Batch` on the market queue for the measure
  "pending bets of the market".
-/
import SgeProofs.Lemmas.SettleBoundQueue
import SgeProofs.Properties.C05
namespace Sge.Core
open Sge Sge.Genesis

-- ---------------------------------------------------------------------------------------------
-- the measures

/-- number of pending (not yet settled) bets of market `v` -/
def pendCount (s : State) (v : Nat) : Nat := (s.pending.filter (fun x => x.1 == v)).length

/-- number of participations of a book that are not paid yet -/
def Book.unpaid (b : Book) : Nat := b.parts.countP (fun p => !p.isSettled)

/-- number of unpaid participations of the book of market `v` (0 when there is no such book) -/
def unpaidOf (s : State) (v : Nat) : Nat :=
  match getBook s v with
  | some b => b.unpaid
  | none => 0

/-- status of the book of market `v` -/
def statusOf (s : State) (v : Nat) : Option Nat := (getBook s v).map (·.status)

/-- the pending bets of all markets waiting in the market queue -/
def pendingWork (s : State) : Nat := wsum (pendCount s) s.mqueue

/-- the unpaid participations of all books waiting in the order-book queue -/
def partWork (s : State) : Nat := wsum (unpaidOf s) s.obqueue

/-- the books as far as settlement progress is concerned: status and number of unpaid participations -/
def SameBooks (s s' : State) : Prop := ∀ u, statusOf s' u = statusOf s u ∧ unpaidOf s' u = unpaidOf s u

theorem SameBooks.refl (s : State) : SameBooks s s := fun _ => ⟨rfl, rfl⟩
theorem SameBooks.trans {a b c : State} (h1 : SameBooks a b) (h2 : SameBooks b c) : SameBooks a c :=
  fun u => ⟨(h2 u).1.trans (h1 u).1, (h2 u).2.trans (h1 u).2⟩
theorem SameBooks.of_eq {s s' : State} (h : s'.books = s.books) : SameBooks s s' := by
  intro u
  unfold statusOf unpaidOf
  rw [getBook_congr h]
  exact ⟨rfl, rfl⟩

-- ---------------------------------------------------------------------------------------------
-- counting in a sorted keyed store

theorem countP_upsert {α : Type} (key : α → List Nat) (f : α → Bool) (x y : α) (l : List α) (hs : Sorted key l)
    (hy : lookup key (key x) l = some y) :
    (upsert key x l).countP f + (if f y then 1 else 0) = l.countP f + (if f x then 1 else 0) := by
  induction l with
  | nil => simp [lookup] at hy
  | cons z zs ih =>
    have hs' := hs
    unfold Sorted at hs'
    rw [List.pairwise_cons] at hs'
    unfold upsert
    by_cases h1 : (key z == key x) = true
    · simp only [h1, if_true]
      have : z = y := by simpa [lookup, List.find?, h1] using hy
      subst this
      simp only [List.countP_cons]
      omega
    · have h1' : (key z == key x) = false := by simpa using h1
      simp only [h1', Bool.false_eq_true, if_false]
      split
      · rename_i hlt
        have hnone : lookup key (key x) (z :: zs) = none := by
          apply lookup_none_of_lt
          intro w hw
          rcases List.mem_cons.mp hw with rfl | hw
          · exact hlt
          · exact ltL_trans _ _ _ hlt (hs'.1 w hw)
        rw [hnone] at hy; cases hy
      · have hy' : lookup key (key x) zs = some y := by simpa [lookup, List.find?, h1'] using hy
        have := ih hs'.2 hy'
        simp only [List.countP_cons]
        omega

/-- rewriting a participation without touching its paid flag keeps the number of unpaid participations -/
theorem setPart_unpaid (b : Book) (p p' : Part) (hs : Sorted Part.key b.parts) (hp : b.getPart p'.idx = some p)
    (he : p'.isSettled = p.isSettled) : (b.setPart p').unpaid = b.unpaid := by
  have := countP_upsert Part.key (fun q => !q.isSettled) p' p b.parts hs hp
  unfold Book.unpaid Book.setPart
  simp only [he] at this ⊢
  omega

/-- paying a participation lowers the number of unpaid participations by one -/
theorem setPart_paid (b : Book) (p p' : Part) (hs : Sorted Part.key b.parts) (hp : b.getPart p'.idx = some p)
    (h0 : p.isSettled = false) (h1 : p'.isSettled = true) : (b.setPart p').unpaid + 1 = b.unpaid := by
  have := countP_upsert Part.key (fun q => !q.isSettled) p' p b.parts hs hp
  unfold Book.unpaid Book.setPart
  simp only [h0, h1] at this ⊢
  simpa using this

-- ---------------------------------------------------------------------------------------------
-- reading the books after a write

theorem getBook_setBook_selfSB (s : State) (b : Book) : getBook (setBook s b) b.uid = some b :=
  lookup_upsert_self Book.key b s.books

theorem getBook_setBook_neSB (s : State) (b : Book) (u : Nat) (h : b.uid ≠ u) : getBook (setBook s b) u = getBook s u :=
  lookup_upsert_ne Book.key b [u] s.books (by simp [Book.key, h])

/-- writing back a book with the same uid, status and number of unpaid participations -/
theorem SameBooks.setBook {s : State} {b b' : Book} (hb : getBook s b'.uid = some b) (hst : b'.status = b.status)
    (hun : b'.unpaid = b.unpaid) : SameBooks s (setBook s b') := by
  intro u
  unfold statusOf unpaidOf
  by_cases e : b'.uid = u
  · subst e
    rw [getBook_setBook_selfSB, hb]
    simp [hst, hun]
  · rw [getBook_setBook_neSB _ _ _ e]
    exact ⟨rfl, rfl⟩

-- ---------------------------------------------------------------------------------------------
-- the Go slice removal at the head of a queue without duplicates

theorem goRemoveAux_none (idx : Nat) : ∀ (n i : Nat) (arr : List Nat) (len : Nat),
    (∀ j, i ≤ j → j < i + n → arr.getD j 0 ≠ idx) → goRemoveAux idx n i arr len = some (arr, len) := by
  intro n
  induction n with
  | zero => intro i arr len _; rfl
  | succ n ih =>
    intro i arr len h
    unfold goRemoveAux
    have : (arr.getD i 0 == idx) = false := by
      have := h i (Nat.le_refl _) (by omega)
      simpa using this
    simp only [this, Bool.false_eq_true, if_false]
    exact ih (i + 1) arr len (fun j h1 h2 => h j (by omega) (by omega))

theorem goRemove_head (x : Nat) (rest : List Nat) (hx : x ∉ rest) : goRemove (x :: rest) x = some rest := by
  cases rest with
  | nil => simp [goRemove, goRemoveAux]
  | cons y ys =>
    unfold goRemove
    simp only [List.length_cons]
    unfold goRemoveAux
    simp only [List.getD_cons_zero, beq_self_eq_true, if_true, Nat.zero_lt_succ, List.take_zero, List.nil_append,
      Nat.zero_add, List.drop_succ_cons, List.drop_zero, Nat.add_sub_cancel, Nat.sub_zero]
    have htake : (y :: ys).take (ys.length + 1) = y :: ys := List.take_of_length_le (by simp)
    rw [htake]
    have hall : ∀ z ∈ (y :: ys) ++ (y :: ys).drop ys.length, z ≠ x := by
      intro z hz e
      rcases List.mem_append.mp hz with h | h
      · exact hx (e ▸ h)
      · exact hx (e ▸ List.mem_of_mem_drop h)
    rw [goRemoveAux_none x (ys.length + 1) 1 ((y :: ys) ++ (y :: ys).drop ys.length) (ys.length + 1)]
    · simp only [Option.map_some]
      congr 1
      exact List.take_left' (by simp)
    · intro j h1 h2
      have hlen : j < ((y :: ys) ++ (y :: ys).drop ys.length).length := by
        simp only [List.length_append, List.length_cons, List.length_drop]
        omega
      rw [List.getD_eq_getElem?_getD, List.getElem?_eq_getElem hlen, Option.getD_some]
      exact hall _ (List.getElem_mem hlen)

-- ---------------------------------------------------------------------------------------------
-- settlement of one bet: what it does to the books, the queues and the pending index

theorem bettorLoses_same : ∀ (fs : List Fulf) (b b' : Book), bettorLoses b fs = some b' → Sorted Part.key b.parts →
    b'.uid = b.uid ∧ b'.status = b.status ∧ b'.unpaid = b.unpaid ∧ Sorted Part.key b'.parts := by
  intro fs
  induction fs with
  | nil =>
    intro b b' h hs
    simp only [bettorLoses, Option.some.injEq] at h
    subst h
    exact ⟨rfl, rfl, rfl, hs⟩
  | cons f rest ih =>
    intro b b' h hs
    unfold bettorLoses at h
    simp only [bind, Option.bind_eq_some_iff] at h
    obtain ⟨p, hp, h⟩ := h
    have hpi := Book.getPart_idx hp
    obtain ⟨a1, a2, a3, a4⟩ := ih _ _ h (upsert_sorted Part.key _ b.parts hs)
    refine ⟨a1, a2, a3.trans ?_, a4⟩
    exact setPart_unpaid b p _ hs (by rw [← hpi] at hp; exact hp) rfl

theorem bettorWins_same (bettor : Nat) : ∀ (fs : List Fulf) (bal : List (Nat × Int)) (b : Book) (r : List (Nat × Int) × Book),
    bettorWins bal bettor b fs = some r → Sorted Part.key b.parts →
    r.2.uid = b.uid ∧ r.2.status = b.status ∧ r.2.unpaid = b.unpaid ∧ Sorted Part.key r.2.parts := by
  intro fs
  induction fs with
  | nil =>
    intro bal b r h hs
    simp only [bettorWins, Option.some.injEq] at h
    subst h
    exact ⟨rfl, rfl, rfl, hs⟩
  | cons f rest ih =>
    intro bal b r h hs
    unfold bettorWins at h
    simp only [bind, Option.bind_eq_some_iff] at h
    obtain ⟨p, hp, bal', _, h⟩ := h
    have hpi := Book.getPart_idx hp
    obtain ⟨a1, a2, a3, a4⟩ := ih _ _ _ h (upsert_sorted Part.key _ b.parts hs)
    refine ⟨a1, a2, a3.trans ?_, a4⟩
    exact setPart_unpaid b p _ hs (by rw [← hpi] at hp; exact hp) rfl

/-- `Settle` touches neither the queues nor the parameters, and leaves status and number of unpaid participations
    of every book as they were -/
theorem settleBet_frame {s s' : State} {c u : Nat} (hsp : ∀ b ∈ s.books, Sorted Part.key b.parts)
    (h : settleBet s c u = some s') :
    SameBooks s s' ∧ s'.mqueue = s.mqueue ∧ s'.obqueue = s.obqueue ∧ s'.params = s.params := by
  unfold settleBet at h
  simp only [bind, Option.bind_eq_some_iff] at h
  obtain ⟨_, _, bet, _, _, _, m, _, h⟩ := h
  split at h
  · unfold settleRefund at h
    simp only [bind, Option.bind_eq_some_iff, pure, Option.some.injEq] at h
    obtain ⟨s1, h1, s2, h2, rfl⟩ := h
    obtain ⟨_, _, rfl⟩ := bankSend_shape h1
    obtain ⟨_, _, rfl⟩ := bankSend_shape h2
    exact ⟨SameBooks.of_eq rfl, rfl, rfl, rfl⟩
  · simp only [Option.bind_eq_some_iff] at h
    obtain ⟨_, _, h⟩ := h
    unfold settleDeclared at h
    simp only [bind, Option.bind_eq_some_iff, pure, Option.some.injEq] at h
    obtain ⟨bk, hbk, r, hr, s2, h2, rfl⟩ := h
    obtain ⟨_, _, rfl⟩ := bankSend_shape h2
    obtain ⟨hbm, hbu⟩ := getBook_mem hbk
    have hsame : r.2.uid = bk.uid ∧ r.2.status = bk.status ∧ r.2.unpaid = bk.unpaid := by
      unfold settleOutcome at hr
      split at hr
      · obtain ⟨a1, a2, a3, _⟩ := bettorWins_same _ _ _ _ _ hr (hsp bk hbm)
        exact ⟨a1, a2, a3⟩
      · simp only [Option.map_eq_some_iff] at hr
        obtain ⟨b', hb', rfl⟩ := hr
        obtain ⟨a1, a2, a3, _⟩ := bettorLoses_same _ _ _ hb' (hsp bk hbm)
        exact ⟨a1, a2, a3⟩
    refine ⟨?_, rfl, rfl, rfl⟩
    have hb0 : getBook { s with bal := r.1 } r.2.uid = some bk := by
      rw [hsame.1, hbu]; exact hbk
    have := SameBooks.setBook (s := { s with bal := r.1 }) hb0 hsame.2.1 hsame.2.2
    exact this

/-- called for an entry of the pending index, `Settle` deletes exactly that entry -/
theorem settleBet_pending {s s' : State} (hI : BetIdx s) (x : Nat × Nat × Nat × Nat) (hx : x ∈ s.pending)
    (h : settleBet s x.2.2.2 x.2.2.1 = some s') : s'.pending = remove ikey (ikey x) s.pending := by
  obtain ⟨b0, hb0, hu, _, _, s2, res, e, rfl⟩ := settleBet_target hI h
  obtain ⟨b, hb, _, rfl⟩ := hI.ofPend x hx
  have hbb : b = b0 := hI.uidInj b hb b0 hb0 hu.symm
  subst hbb
  show remove ikey [b.market, b.id] s2.pending = _
  rw [e.2.1]

theorem filter_remove_count (v : Nat) : ∀ (l : List (Nat × Nat × Nat × Nat)) (x : Nat × Nat × Nat × Nat),
    Sorted ikey l → x ∈ l →
    ((remove ikey (ikey x) l).filter (fun y => y.1 == v)).length + (if x.1 == v then 1 else 0) =
      (l.filter (fun y => y.1 == v)).length := by
  intro l
  induction l with
  | nil => intro x _ hx; cases hx
  | cons y ys ih =>
    intro x hs hx
    unfold Sorted at hs
    rw [List.pairwise_cons] at hs
    unfold remove at ih ⊢
    rcases List.mem_cons.mp hx with e | hin
    · subst e
      have hall : ys.filter (fun z => !(ikey z == ikey x)) = ys := by
        rw [List.filter_eq_self]
        intro z hz
        have h1 := ltL_ne _ _ (hs.1 z hz)
        have h2 : (ikey z == ikey x) = false := by
          cases hc : ikey z == ikey x
          · rfl
          · have e2 : ikey z = ikey x := by simpa using hc
            rw [e2] at h1; simp at h1
        simp [h2]
      rw [List.filter_cons]
      simp only [beq_self_eq_true, Bool.not_true, Bool.false_eq_true, if_false, hall]
      rw [List.filter_cons]
      split <;> simp <;> omega
    · have hlt := hs.1 x hin
      have h1 : (ikey y == ikey x) = false := ltL_ne _ _ hlt
      rw [List.filter_cons]
      simp only [h1, Bool.not_false, if_true]
      have := ih x hs.2 hin
      rw [List.filter_cons, List.filter_cons]
      split
      · simp only [List.length_cons]; omega
      · exact this

theorem pendCount_settleBet {s s' : State} (hI : BetIdx s) (x : Nat × Nat × Nat × Nat) (hx : x ∈ s.pending)
    (h : settleBet s x.2.2.2 x.2.2.1 = some s') (v : Nat) :
    pendCount s' v + (if x.1 == v then 1 else 0) = pendCount s v := by
  unfold pendCount
  rw [settleBet_pending hI x hx h]
  exact filter_remove_count v s.pending x hI.sPend hx

/-- a page of pending entries (distinct, all listed) is settled entry by entry: the pending count of every market
    drops by the number of its entries in the page; books and queues are as `settleBet_frame` says -/
theorem settlePage_pendCount : ∀ (page : List (Nat × Nat × Nat × Nat)) (s : State) (r : State × Nat),
    BetIdx s → SettleInv s → settlePage s page = some r → (∀ x ∈ page, x ∈ s.pending) →
    page.Pairwise (fun a b => (ikey a == ikey b) = false) →
    (∀ v, pendCount r.1 v + (page.filter (fun y => y.1 == v)).length = pendCount s v) ∧
    SameBooks s r.1 ∧ r.1.mqueue = s.mqueue ∧ r.1.obqueue = s.obqueue ∧ r.1.params = s.params := by
  intro page
  induction page with
  | nil =>
    intro s r _ _ h _ _
    simp only [settlePage, Option.some.injEq] at h
    subst h
    exact ⟨fun v => rfl, SameBooks.refl s, rfl, rfl, rfl⟩
  | cons x rest ih =>
    intro s r hI hS h hin hpw
    unfold settlePage at h
    simp only [bind, Option.bind_eq_some_iff, pure, Option.some.injEq] at h
    obtain ⟨s1, h1, r1, hr, rfl⟩ := h
    rw [List.pairwise_cons] at hpw
    have hx : x ∈ s.pending := hin x (List.mem_cons_self ..)
    have hI1 := (settleBet_good hI h1).1
    have hS1 := settleBet_inv hS h1
    obtain ⟨f1, f2, f3, f4⟩ := settleBet_frame hS.sortedParts h1
    have hp1 := settleBet_pending hI x hx h1
    have hin1 : ∀ y ∈ rest, y ∈ s1.pending := by
      intro y hy
      rw [hp1]
      refine (mem_remove_iff ikey (ikey x) y s.pending).mpr ⟨hin y (List.mem_cons_of_mem _ hy), ?_⟩
      have := hpw.1 y hy
      cases hc : ikey y == ikey x
      · rfl
      · have e : ikey y = ikey x := by simpa using hc
        rw [e] at this; simp at this
    obtain ⟨g1, g2, g3, g4, g5⟩ := ih s1 r1 hI1 hS1 hr hin1 hpw.2
    refine ⟨?_, f1.trans g2, g3.trans f2, g4.trans f3, g5.trans f4⟩
    intro v
    have a := pendCount_settleBet hI x hx h1 v
    have b := g1 v
    show pendCount r1.1 v + _ = pendCount s v
    rw [List.filter_cons]
    split
    · rename_i hv
      simp only [hv, if_true] at a
      simp only [List.length_cons]
      omega
    · rename_i hv
      simp only [hv, Bool.false_eq_true, if_false] at a
      omega

-- ---------------------------------------------------------------------------------------------
-- one iteration of BatchMarketSettlements

theorem any_pending_iff (s : State) (mk : Nat) : s.pending.any (fun x => x.1 == mk) = true ↔ 0 < pendCount s mk := by
  unfold pendCount
  rw [List.any_eq_true, List.length_pos_iff_exists_mem]
  constructor
  · rintro ⟨x, hx, hp⟩
    exact ⟨x, List.mem_filter.mpr ⟨hx, hp⟩⟩
  · rintro ⟨x, hx⟩
    have := List.mem_filter.mp hx
    exact ⟨x, this.1, this.2⟩

/-- how the bet end-blocker changes the books: the number of unpaid participations of every book stays; the books of
    the markets `D` that finished go from ACTIVE to RESOLVED; every other book keeps its status -/
structure BetBooks (s s' : State) (D : List Nat) : Prop where
  unpaid : ∀ u, unpaidOf s' u = unpaidOf s u
  status : ∀ u, u ∉ D → statusOf s' u = statusOf s u
  resolved : ∀ u ∈ D, statusOf s u = some OB_ACTIVE ∧ statusOf s' u = some OB_RESOLVED

theorem BetBooks.of_same {s s' : State} (h : SameBooks s s') : BetBooks s s' [] :=
  ⟨fun u => (h u).2, fun u _ => (h u).1, fun _ hu => nomatch hu⟩

theorem BetBooks.cons {s s1 s' : State} {h : Nat} {D : List Nat} (h1 : BetBooks s s1 [h]) (h2 : BetBooks s1 s' D)
    (hn : h ∉ D) : BetBooks s s' (h :: D) := by
  refine ⟨fun u => (h2.unpaid u).trans (h1.unpaid u), ?_, ?_⟩
  · intro u hu
    rw [h2.status u (fun hin => hu (List.mem_cons_of_mem _ hin)),
      h1.status u (fun hin => hu (by rw [List.mem_singleton.mp hin]; exact List.mem_cons_self ..))]
  · intro u hu
    rcases List.mem_cons.mp hu with rfl | hu
    · exact ⟨(h1.resolved u (List.mem_singleton.mpr rfl)).1,
        (h2.status u hn).trans (h1.resolved u (List.mem_singleton.mpr rfl)).2⟩
    · have hne : u ≠ h := fun e => hn (e ▸ hu)
      exact ⟨(h1.status u (fun hin => hne (List.mem_singleton.mp hin))) ▸ (h2.resolved u hu).1, (h2.resolved u hu).2⟩

/-- C05: one iteration of the bet end-blocker on the head market `mk` with budget `n`, exactly.
    The page holds `min n (pending of mk)` bets and all of them are settled; no other market loses a pending entry.
    Either (finished) no pending bet of `mk` is left: `mk` leaves the market queue, its book goes from ACTIVE to
    RESOLVED and `mk` is appended to the order-book queue; or (budget exhausted) the whole budget was used, pending
    bets of `mk` remain and queues and books are as they were. -/
theorem betEndBlockStep_spec {s : State} {mk n : Nat} {R : List Nat} {r : State × Nat} (hI : BetIdx s) (hS : SettleInv s)
    (hq : s.mqueue = mk :: R) (hnd : mk ∉ R) (h : betEndBlockStep s mk n = some r) :
    r.2 = min n (pendCount s mk) ∧ pendCount r.1 mk + r.2 = pendCount s mk ∧
    (∀ v, v ≠ mk → pendCount r.1 v = pendCount s v) ∧ r.1.params = s.params ∧
    ((pendCount r.1 mk = 0 ∧ r.1.mqueue = R ∧ r.1.obqueue = s.obqueue ++ [mk] ∧ BetBooks s r.1 [mk]) ∨
     (0 < pendCount r.1 mk ∧ r.2 = n ∧ r.1.mqueue = s.mqueue ∧ r.1.obqueue = s.obqueue ∧ SameBooks s r.1)) := by
  unfold betEndBlockStep at h
  simp only [bind, Option.bind_eq_some_iff] at h
  obtain ⟨r0, h0, h⟩ := h
  have hsub : ((s.pending.filter (fun x => x.1 == mk)).take n).Sublist s.pending :=
    (List.take_sublist _ _).trans List.filter_sublist
  have hpw : ((s.pending.filter (fun x => x.1 == mk)).take n).Pairwise (fun a b => (ikey a == ikey b) = false) := by
    have := hI.sPend
    unfold Sorted at this
    exact (List.Pairwise.sublist hsub this).imp (fun {a b} hab => ltL_ne _ _ hab)
  obtain ⟨g1, g2, g3, g4, g5⟩ := settlePage_pendCount _ s r0 hI hS h0 (fun x hx => hsub.subset hx) hpw
  have hc := c05_page_settled_count _ _ _ h0
  have hlen : r0.2 = min n (pendCount s mk) := by rw [hc, List.length_take]; rfl
  have hall : ∀ x ∈ (s.pending.filter (fun x => x.1 == mk)).take n, (x.1 == mk) = true :=
    fun x hx => (List.mem_filter.mp (List.mem_of_mem_take hx)).2
  have hmk : pendCount r0.1 mk + r0.2 = pendCount s mk := by
    have := g1 mk
    rw [List.filter_eq_self.mpr hall, ← hc] at this
    exact this
  have hoth : ∀ v, v ≠ mk → pendCount r0.1 v = pendCount s v := by
    intro v hv
    have := g1 v
    have hnil : ((s.pending.filter (fun x => x.1 == mk)).take n).filter (fun y => y.1 == v) = [] := by
      rw [List.filter_eq_nil_iff]
      intro x hx hxv
      have e1 : x.1 = mk := by simpa using hall x hx
      have e2 : x.1 = v := by simpa using hxv
      exact hv (e2 ▸ e1)
    rw [hnil] at this
    simpa using this
  split at h
  · rename_i hany
    simp only [pure, Option.some.injEq] at h
    subst h
    have hpos := (any_pending_iff r0.1 mk).mp hany
    refine ⟨hlen, hmk, hoth, g5, Or.inr ⟨hpos, ?_, g3, g4, g2⟩⟩
    omega
  · rename_i hany
    simp only [bind, Option.bind_eq_some_iff, pure, Option.some.injEq] at h
    obtain ⟨q, hgo, s2, h2, rfl⟩ := h
    have hzero : pendCount r0.1 mk = 0 := by
      have : ¬ 0 < pendCount r0.1 mk := fun hp => hany ((any_pending_iff r0.1 mk).mpr hp)
      omega
    rw [g3, hq, goRemove_head mk R hnd] at hgo
    cases hgo
    unfold bookResolved at h2
    simp only [bind, Option.bind_eq_some_iff, pure, Option.some.injEq] at h2
    obtain ⟨b, hb, _, hact, rfl⟩ := h2
    have hb : getBook r0.1 mk = some b := hb
    have hact : b.status = OB_ACTIVE := by simpa using chk_some hact
    obtain ⟨_, hbu⟩ := getBook_mem hb
    refine ⟨hlen, hmk, hoth, g5, Or.inl ⟨hzero, rfl, by show r0.1.obqueue ++ [mk] = _; rw [g4], ?_⟩⟩
    have hsb : ∀ u, getBook (setBook { r0.1 with mqueue := R } { b with status := OB_RESOLVED }) u =
        if u = mk then some { b with status := OB_RESOLVED } else getBook r0.1 u := by
      intro u
      by_cases e : u = mk
      · subst e
        simp only [if_true]
        have := getBook_setBook_selfSB { r0.1 with mqueue := R } { b with status := OB_RESOLVED }
        rw [← hbu]; exact this
      · simp only [e, if_false]
        exact getBook_setBook_neSB _ _ u (by show b.uid ≠ u; rw [hbu]; exact Ne.symm e)
    refine ⟨?_, ?_, ?_⟩
    · intro u
      rw [← (g2 u).2]
      unfold unpaidOf
      show (match getBook (setBook { r0.1 with mqueue := R } { b with status := OB_RESOLVED }) u with
        | some b => b.unpaid | none => 0) = _
      rw [hsb u]
      by_cases e : u = mk
      · subst e; simp only [if_true, hb]; rfl
      · simp only [e, if_false]
    · intro u hu
      have e : u ≠ mk := fun e => hu (List.mem_singleton.mpr e)
      rw [← (g2 u).1]
      unfold statusOf
      show (getBook (setBook { r0.1 with mqueue := R } { b with status := OB_RESOLVED }) u).map _ = _
      rw [hsb u]
      simp only [e, if_false]
    · intro u hu
      have e : u = mk := List.mem_singleton.mp hu
      subst e
      constructor
      · rw [← (g2 u).1]
        unfold statusOf
        rw [hb]; simp [hact]
      · unfold statusOf
        show (getBook (setBook { r0.1 with mqueue := R } { b with status := OB_RESOLVED }) u).map _ = _
        rw [hsb u]
        simp

theorem betEndBlock_zero (fuel : Nat) (s : State) : betEndBlock fuel s 0 = some s := by
  cases fuel <;> simp [betEndBlock]

/-- C05: BatchMarketSettlements with budget `n` is one FIFO batch on the market queue for the measure "pending bets
    of the market"; the finished markets `D` are appended, in order, to the order-book queue, their books become
    RESOLVED, and nothing else about books or parameters changes. (`fuel` = |queue| + 1 always suffices.) -/
theorem betEndBlock_batch : ∀ (fuel : Nat) (s : State) (n : Nat) (s' : State),
    BetIdx s → SettleInv s → s.mqueue.Nodup → s.mqueue.length < fuel → betEndBlock fuel s n = some s' →
    ∃ D, Batch s.mqueue s'.mqueue (pendCount s) (pendCount s') n D ∧ s'.obqueue = s.obqueue ++ D ∧
      BetBooks s s' D ∧ s'.params = s.params := by
  intro fuel
  induction fuel with
  | zero => intro s n s' _ _ _ hf _; omega
  | succ fuel ih =>
    intro s n s' hI hS hnd hf h
    unfold betEndBlock at h
    split at h
    · rename_i hn
      simp only [Option.some.injEq] at h
      subst h; subst hn
      exact ⟨[], Batch.zero _ _, by simp, BetBooks.of_same (SameBooks.refl s), rfl⟩
    · split at h
      · rename_i hq
        simp only [Option.some.injEq] at h
        subst h
        rw [hq]
        exact ⟨[], Batch.empty _ _, by simp, BetBooks.of_same (SameBooks.refl s), rfl⟩
      · rename_i mk R hq
        simp only [bind, Option.bind_eq_some_iff] at h
        obtain ⟨r, hr, h⟩ := h
        have hnd' := hnd
        rw [hq, List.nodup_cons] at hnd'
        obtain ⟨e1, e2, e3, e4, hcase⟩ := betEndBlockStep_spec hI hS hq hnd'.1 hr
        have hI1 := (betEndBlockStep_good hI hr).1
        have hS1 := betEndBlockStep_inv hS (by rw [hq]; exact List.mem_cons_self ..) hr
        rcases hcase with ⟨c1, c2, c3, c4⟩ | ⟨c1, c2, c3, c4, c5⟩
        · -- the head market is finished
          obtain ⟨D, hB, hob, hbk, hpar⟩ := ih r.1 (n - r.2) s' hI1 hS1 (by rw [c2]; exact hnd'.2)
            (by rw [c2]; rw [hq] at hf; simp at hf; omega) h
          have hfit : pendCount s mk ≤ n := by omega
          have hr2 : r.2 = pendCount s mk := by omega
          have hnD : mk ∉ D := by
            intro hin
            have := hB.split
            rw [c2] at this
            exact hnd'.1 (by rw [this]; exact List.mem_append_left _ hin)
          refine ⟨mk :: D, ?_, ?_, BetBooks.cons c4 hbk hnD, hpar.trans e4⟩
          · rw [hq]
            rw [c2, hr2] at hB
            exact Batch.step (by rw [← hq]; exact hnd) hfit c1 e3 hB
          · rw [hob, c3]; simp
        · -- the budget is exhausted on the head market
          rw [c2, Nat.sub_self, betEndBlock_zero] at h
          cases h
          refine ⟨[], ?_, by rw [c4]; simp, BetBooks.of_same c5, e4⟩
          rw [c3, hq]
          exact Batch.exhaust (by omega) e3

end Sge.Core
