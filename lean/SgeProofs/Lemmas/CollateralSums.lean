/-
  C02, lift to reachable states — from the abstract bundle to what the monitor reads: the total stake a
  participation reports is the sum of the stakes recorded in all its exposure records (a consequence of the C10
  sum equations), hence `H o + loss o = promised winnings on o − stakes on the other outcomes`.
-/
import SgeProofs.Lemmas.CollateralStep
import SgeProofs.Properties.C10Sums
namespace Sge.Core
open Sge Sge.Genesis

theorem col_sumBy_add {α : Type} (f g : α → Int) (l : List α) : sumBy (fun x => f x + g x) l = sumBy f l + sumBy g l := by
  induction l with
  | nil => rfl
  | cons x xs ih => rw [sumBy_cons, sumBy_cons, sumBy_cons, ih]; omega

/-- duplicate-free list with the same members -/
def colDedup : List Nat → List Nat
  | [] => []
  | x :: xs => if xs.contains x then colDedup xs else x :: colDedup xs

theorem colDedup_mem (x : Nat) : ∀ l : List Nat, x ∈ colDedup l ↔ x ∈ l
  | [] => by simp [colDedup]
  | y :: ys => by
    unfold colDedup
    split
    · rename_i hc
      have hy : y ∈ ys := by simpa using hc
      rw [colDedup_mem x ys]
      constructor
      · exact fun h => List.mem_cons_of_mem _ h
      · intro h
        rcases List.mem_cons.mp h with rfl | h
        · exact hy
        · exact h
    · rw [List.mem_cons, List.mem_cons, colDedup_mem x ys]

theorem colDedup_nodup : ∀ l : List Nat, (colDedup l).Nodup
  | [] => by simp [colDedup]
  | y :: ys => by
    unfold colDedup
    split
    · exact colDedup_nodup ys
    · rename_i hc
      rw [List.nodup_cons]
      refine ⟨?_, colDedup_nodup ys⟩
      rw [colDedup_mem]
      simpa using hc

theorem col_sum_indicator (x : Nat) (c : Int) : ∀ (D : List Nat), D.Nodup →
    sumBy (fun o' => if x = o' then c else 0) D = if x ∈ D then c else 0 := by
  intro D
  induction D with
  | nil => intro _; rfl
  | cons d ds ih =>
    intro hD
    rw [List.nodup_cons] at hD
    rw [sumBy_cons, ih hD.2]
    by_cases hx : x = d
    · have : x ∉ ds := hx ▸ hD.1
      simp [hx, hD.1]
    · by_cases hm : x ∈ ds <;> simp [hx, hm]

/-- exchange of summation: a sum over records equals the sum over the classes `od x = o'`, `o'` ranging over a
    duplicate-free list that contains every class -/
theorem col_fubini {α : Type} (od : α → Nat) (v : α → Int) (D : List Nat) (hD : D.Nodup) :
    ∀ L : List α, (∀ x ∈ L, od x ∈ D) → sumBy v L = sumBy (fun o' => sumBy (fun x => if od x = o' then v x else 0) L) D := by
  intro L
  induction L with
  | nil =>
    intro _
    exact (sumBy_zeroQ (fun o' => sumBy (fun x => if od x = o' then v x else 0) []) D (fun _ _ => rfl)).symm
  | cons x xs ih =>
    intro hL
    have e : (fun o' => sumBy (fun y => if od y = o' then v y else 0) (x :: xs)) =
        (fun o' => (if od x = o' then v x else 0) + sumBy (fun y => if od y = o' then v y else 0) xs) := by
      funext o'; rw [sumBy_cons]
    rw [e, col_sumBy_add, col_sum_indicator (od x) (v x) D hD, if_pos (hL x (List.mem_cons_self ..)), sumBy_cons,
      ih (fun y hy => hL y (List.mem_cons_of_mem _ hy))]

/-- stakes recorded in all exposure records (current and closed rounds, all outcomes) of participation `i` -/
def Book.allStakes (b : Book) (i : Nat) : Int := (((b.pexps ++ b.hist).filter (fun e => e.idx == i)).map (·.bet)).sum

theorem col_stakes_split (b : Book) (i o : Nat) : b.allStakes i = b.stakeOn i o + b.otherStakes i o := by
  unfold Book.allStakes Book.stakeOn Book.otherStakes
  rw [← sumBy_filter, ← sumBy_filter, ← sumBy_filter, ← col_sumBy_add]
  apply sumBy_congr
  intro e _
  by_cases h1 : e.odds = o <;> by_cases h2 : e.idx = i <;> simp [h1, h2]

/-- C10 consequence: the total stake of a participation is the sum of the stakes in its exposure records -/
theorem col_totalBet_eq_allStakes {s : State} (hI : ObInv s) (b : Book) (hb : b ∈ s.books) (i : Nat) (p : Part)
    (hp : b.getPart i = some p) : p.totalBet = b.allStakes i := by
  have hsE := (hI.qinv b hb).s.sE
  have hD := colDedup_nodup ((b.pexps ++ b.hist).map (·.odds) ++ s.bets.map (·.odds))
  generalize hDdef : colDedup ((b.pexps ++ b.hist).map (·.odds) ++ s.bets.map (·.odds)) = D at hD
  have hDm : ∀ x, x ∈ D ↔ x ∈ (b.pexps ++ b.hist).map (·.odds) ++ s.bets.map (·.odds) := by
    intro x; rw [← hDdef]; exact colDedup_mem x _
  have h1 : b.allStakes i = sumBy (fun o' => b.totB o' i) D := by
    unfold Book.allStakes
    rw [← sumBy_filter, col_fubini (·.odds) _ D hD (b.pexps ++ b.hist) (by
      intro e he
      rw [hDm]
      exact List.mem_append_left _ (List.mem_map.mpr ⟨e, he, rfl⟩))]
    apply sumBy_congr
    intro o' _
    rw [(Book.totE_eq_filter b hsE o' i).2, ← sumBy_filter]
    apply sumBy_congr
    intro e _
    by_cases h1 : e.odds = o' <;> by_cases h2 : e.idx = i <;> simp [h1, h2]
  have h2 : p.totalBet = sumBy (fun o' => b.totB o' i) D := by
    rw [hI.tb b hb i p hp, col_fubini (·.odds) _ D hD s.bets (by
      intro t ht
      rw [hDm]
      exact List.mem_append_right _ (List.mem_map.mpr ⟨t, ht, rfl⟩))]
    apply sumBy_congr
    intro o' _
    rw [hI.tB b hb o' i]
    apply sumBy_congr
    intro t _
    unfold betStakeAt betStakeOAt
    by_cases h1 : t.odds = o' <;> by_cases h2 : t.market = b.uid <;> simp [h1, h2]
  rw [h1, h2]

theorem col_promised_eq (b : Book) (hs : Sorted PExp.key b.pexps) (i o : Nat) :
    b.promised i o = b.totE o i ∧ b.stakeOn i o = b.totB o i := by
  have := Book.totE_eq_filter b hs o i
  exact ⟨this.1.symm, this.2.symm⟩

/-- the abstract collateral inequality `H o + loss o ≤ liq`, in the records of the book -/
theorem col_item_collateral (b : Book) (p : Part) (o : Nat) :
    (b.colItem p).H o + (b.colItem p).loss o = b.totE o p.idx + b.totB o p.idx - p.totalBet := by
  show b.histLoss p.idx o - (p.totalBet - p.crTotalBet) + ((expoOf (b.curExp p.idx o)).exposure + (expoOf (b.curExp p.idx o)).bet - p.crTotalBet) = _
  rw [col_histLoss_eq_tot]
  unfold expoOf
  simp only
  omega

end Sge.Core
