/- L0: arithmetic facts about the fixed-point operations of `Sge.Dec` (core only, `omega` with literal 10^18) -/
import Sge.Dec
namespace Sge

theorem chopTrunc_nonneg {x : Int} (h : 0 ≤ x) : chopTrunc x = x / PREC := by
  unfold chopTrunc; split <;> omega

theorem chopTrunc_bounds_nonneg {x : Int} (h : 0 ≤ x) :
    chopTrunc x * PREC ≤ x ∧ x < chopTrunc x * PREC + PREC := by
  rw [chopTrunc_nonneg h]; unfold PREC; omega

theorem chopTrunc_ge_zero {x : Int} (h : 0 ≤ x) : 0 ≤ chopTrunc x := by
  rw [chopTrunc_nonneg h]; unfold PREC; omega

/-- truncation toward zero never increases the magnitude -/
theorem chopTrunc_le_of_nonneg {x : Int} (h : 0 ≤ x) : chopTrunc x * PREC ≤ x :=
  (chopTrunc_bounds_nonneg h).1

theorem chopRoundNonneg_bounds {x : Int} (h : 0 ≤ x) :
    2 * x - PREC ≤ 2 * (chopRoundNonneg x * PREC) ∧ 2 * (chopRoundNonneg x * PREC) ≤ 2 * x + PREC := by
  unfold chopRoundNonneg PREC
  simp only
  split
  · omega
  · split
    · omega
    · split <;> omega

theorem chopRoundNonneg_nonneg {x : Int} (h : 0 ≤ x) : 0 ≤ chopRoundNonneg x := by
  unfold chopRoundNonneg PREC
  simp only
  split
  · omega
  · split
    · omega
    · split <;> omega

/-- banker's rounding is within half a unit, for every sign -/
theorem chopRound_bounds (x : Int) :
    2 * x - PREC ≤ 2 * (chopRound x * PREC) ∧ 2 * (chopRound x * PREC) ≤ 2 * x + PREC := by
  unfold chopRound
  split
  · have := chopRoundNonneg_bounds (x := -x) (by omega)
    rw [Int.neg_mul]
    omega
  · exact chopRoundNonneg_bounds (by omega)

theorem chopRound_nonneg {x : Int} (h : 0 ≤ x) : 0 ≤ chopRound x := by
  unfold chopRound
  split
  · omega
  · exact chopRoundNonneg_nonneg (by omega)

/-- a value strictly above −½ rounds to a non-negative integer -/
theorem chopRound_nonneg_of_gt_neg_half {x : Int} (h : -PREC < 2 * x) : 0 ≤ chopRound x := by
  have := (chopRound_bounds x).1
  unfold PREC at *
  omega

end Sge
