/- lemmas for C17 on the core model: what a deposit stores, how far the settlement batches get -/
import Sge.Params
import SgeProofs.Lemmas.CoreParams
namespace Sge.Core
open Sge

theorem lookup_key_eq {α : Type} {key : α → List Nat} {k : List Nat} {l : List α} {x : α}
    (h : lookup key k l = some x) : key x = k := by
  unfold lookup at h
  have := List.find?_some h
  simpa using this

/-- the exposure initialisation of a new participation touches queues and exposures only -/
theorem foldl_initExposures_frame (idx : Nat) : ∀ (qs : List (Nat × List Nat)) (b : Book),
    (qs.foldl (initExposures idx) b).parts = b.parts ∧ (qs.foldl (initExposures idx) b).uid = b.uid := by
  intro qs
  induction qs with
  | nil => intro b; exact ⟨rfl, rfl⟩
  | cons q rest ih =>
    intro b
    simp only [List.foldl_cons]
    obtain ⟨h1, h2⟩ := ih (initExposures idx b q)
    exact ⟨h1, h2⟩

/-- `InitiateOrderBookParticipation` stores the participation with exactly the liquidity and fee it is given -/
theorem addParticipation_part (b : Book) (addr : Nat) (liq fee : Int) :
    (b.addParticipation addr liq fee).1.uid = b.uid ∧
    ∃ p, (b.addParticipation addr liq fee).1.getPart (b.addParticipation addr liq fee).2 = some p ∧
      p.liq = liq ∧ p.fee = fee ∧ p.crl = liq ∧ p.addr = addr := by
  let p0 : Part := { idx := b.partCount + 1, addr := addr, liq := liq, fee := fee, crl := liq, notFilled := b.oddsCount,
                     totalBet := 0, crTotalBet := 0, maxLoss := 0, crMaxLoss := 0, crMaxLossOdds := 0, actualProfit := 0 }
  obtain ⟨hp, hu⟩ := foldl_initExposures_frame (b.partCount + 1) (b.setPart p0).queues (b.setPart p0)
  refine ⟨hu, p0, ?_, rfl, rfl, rfl, rfl⟩
  show lookup Part.key [b.partCount + 1] (List.foldl (initExposures (b.partCount + 1)) (b.setPart p0) (b.setPart p0).queues).parts = some p0
  rw [hp]
  exact lookup_upsert_self Part.key p0 b.parts

/-- `Params.valid`, spelled out -/
theorem valid_iff (p : Core.Params) : p.valid = true ↔
    (0 < p.betBatch ∧ 1 < p.betMin ∧ 0 ≤ p.betFee ∧ 1 < p.houseMin ∧ 0 ≤ p.houseFee.raw ∧ 1 ≤ p.houseMaxW ∧
      0 < p.obMaxPart ∧ 0 < p.obBatch) := by
  unfold Core.Params.valid
  simp only [Bool.and_eq_true, decide_eq_true_eq]
  omega

/-- a page of bets is settled completely or the end-blocker aborts -/
theorem settlePage_count : ∀ (page : List (Nat × Nat × Nat × Nat)) (s : State) (r : State × Nat),
    settlePage s page = some r → r.2 = page.length := by
  intro page
  induction page with
  | nil => intro s r h; simp [settlePage] at h; rw [← h]; rfl
  | cons pb rest ih =>
    intro s r h
    unfold settlePage at h
    simp only [bind, Option.bind_eq_some_iff, pure, Option.some.injEq] at h
    obtain ⟨s1, _, r1, hr, rfl⟩ := h
    simp only [List.length_cons]
    rw [ih _ _ hr]

/-- the participation loop never un-processes -/
theorem settleParts_processed_ge (m : Market) (count : Nat) : ∀ (ps : List Part) (s : State) (b : Book) (sc pr : Nat)
    (r : State × Book × Nat × Nat), settleParts m count ps s b sc pr = some r → pr + ps.length ≥ r.2.2.2 ∧ pr ≤ r.2.2.2 := by
  intro ps
  induction ps with
  | nil => intro s b sc pr r h; simp [settleParts] at h; rw [← h]; simp
  | cons p rest ih =>
    intro s b sc pr r h
    unfold settleParts at h
    simp only [bind, Option.bind_eq_some_iff] at h
    obtain ⟨r1, _, h⟩ := h
    split at h
    · simp only [pure, Option.some.injEq] at h; rw [← h]; simp only [List.length_cons]; omega
    · have := ih _ _ _ _ _ h
      simp only [List.length_cons]; omega

end Sge.Core

namespace Sge.Params
open Sge Sge.Core

/-- a market with two outcomes and its (empty) order book, a bettor holding 100 tokens;
    bet parameters `MinAmount = 2`, `Fee = 3` — accepted by `validateConstraints` as the code is -/
def feeExceedsAmountState : State :=
  { bal := [(6, 100)],
    markets := [{ uid := 1, creator := 0, startTS := 1, endTS := 1000, odds := [11, 12], status := MS_ACTIVE }],
    books := [newBook 1 [11, 12]],
    params := { betMin := 2, betFee := 3 },
    time := 10 }

def feeExceedsAmountPayload : WagerPayload :=
  { market := 1, odds := 11, oddsVal := some ⟨2 * PREC⟩, mult := ⟨PREC⟩, allOdds := [(11, ⟨PREC⟩), (12, ⟨PREC⟩)] }

def tkOk : Tk := { ok := true, kycIgnore := true, kycApproved := false, kycId := 0 }

/-- a market with one depositor-to-be holding 1000 tokens; house fee 100 % -/
def fullFeeState : State :=
  { bal := [(1, 1000)],
    markets := [{ uid := 1, creator := 0, startTS := 1, endTS := 1000, odds := [11, 12], status := MS_ACTIVE }],
    books := [newBook 1 [11, 12]],
    params := { houseFee := ⟨PREC⟩, houseMin := 10 },
    time := 10 }

end Sge.Params
