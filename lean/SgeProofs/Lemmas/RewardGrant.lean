/-
  L3: what a successful grant / update / withdrawal guarantees (conditions, amounts, caps, ownership),
  and the authz-grant invariant of the unpatched variant (no withdraw authorization can exist).
-/
import SgeProofs.Lemmas.RewardStep
namespace Sge.Reward
open Sge

/-! ### where the coins of a grant go -/

theorem distribute_receiver {time : Nat} {bank : Bank} {subs : List Sub} {receiver : Nat} {a : Amt} {d : Bank × List Sub}
    (h : distribute time bank subs receiver a = .ok d) (hr : receiver ≠ POOL) :
    d.1 receiver = bank receiver + (if 0 < a.main then a.main else 0) ∧
    d.1 (SUBBASE + receiver) = bank (SUBBASE + receiver) + (if 0 < a.sub then a.sub else 0) := by
  obtain ⟨r, hs, hm, _⟩ := distribute_ok h
  have hne1 : SUBBASE + receiver ≠ POOL := by unfold SUBBASE POOL; omega
  have hne2 : SUBBASE + receiver ≠ receiver := by unfold SUBBASE; omega
  have h1 : r.1 receiver = bank receiver ∧ r.1 (SUBBASE + receiver) = bank (SUBBASE + receiver) + (if 0 < a.sub then a.sub else 0) := by
    rcases distSub_ok hs with ⟨hpos, hsend, _⟩ | ⟨hle, rfl⟩
    · obtain ⟨_, _, e⟩ := send_ok hsend
      rw [e, if_pos hpos]
      simp [Bank.upd, hne1, hne2, hne2.symm, hr]
    · rw [if_neg (by omega)]; simp
  have h2 : d.1 receiver = r.1 receiver + (if 0 < a.main then a.main else 0) ∧ d.1 (SUBBASE + receiver) = r.1 (SUBBASE + receiver) := by
    rcases distMain_ok hm with ⟨hpos, _, hsend⟩ | ⟨hle, e⟩
    · obtain ⟨_, _, e⟩ := send_ok hsend
      rw [e, if_pos hpos]
      simp [Bank.upd, hne1, hne2, hr]
    · rw [if_neg (by omega), e]; simp
  omega

/-- everything a successful `GrantReward` guarantees about its inputs and its effects -/
theorem grant_conditions {s s' : State} {m : GrantMsg} (h : grantReward s m = .ok s') :
    ∃ c a, getC s.campaigns m.campaign = some c ∧
      getR s.rewards m.uid = none ∧
      c.active = true ∧ c.startTS ≤ s.time ∧ s.time ≤ c.endTS ∧
      m.tv = true ∧ kycOk m.kyc = true ∧ isSubAddr s.subs m.receiver = false ∧
      a.main + a.sub ≤ c.pool.avail ∧
      s'.rewards = s.rewards ++ [{ uid := m.uid, creator := m.creator, receiver := m.receiver, campaign := m.campaign, amt := a }] ∧
      (c.rtype ≠ 8 → a.main = c.amt.main ∧ a.sub = c.amt.sub) ∧
      (c.rtype = 8 → ∃ b, betLookup s.bets m.bet m.receiver = some b ∧ (a.main, a.sub) = betAmounts c b.amount) ∧
      s'.bank POOL = s.bank POOL - (if 0 < a.sub then a.sub else 0) - (if 0 < a.main then a.main else 0) ∧
      (m.receiver ≠ POOL →
        s'.bank m.receiver = s.bank m.receiver + (if 0 < a.main then a.main else 0) ∧
        s'.bank (SUBBASE + m.receiver) = s.bank (SUBBASE + m.receiver) + (if 0 < a.sub then a.sub else 0)) := by
  obtain ⟨c, r, caps, d, hnew, hget, hact, hst, hen, hcalc, _, hle, hdist, rfl⟩ := grantReward_ok h
  obtain ⟨hchk, _, hcase⟩ := calculate_ok hcalc
  obtain ⟨htv, hkyc, hsub, _, _⟩ := calcChecks_none hchk
  refine ⟨c, r.2, hget, hnew, hact, hst, hen, htv, hkyc, hsub, hle, rfl, ?_, ?_, distribute_pool hdist,
    fun hr => distribute_receiver hdist hr⟩
  · intro h8
    rcases hcase with ⟨_, he⟩ | ⟨h8', _⟩
    · rw [he]; exact ⟨rfl, rfl⟩
    · exact absurd h8' h8
  · intro h8
    rcases hcase with ⟨h8', _⟩ | ⟨_, b, hb, he⟩
    · exact absurd h8 h8'
    · exact ⟨b, hb, by rw [he]; rfl⟩

/-- with non-negative components (every reachable state of the patched variant, and of the code as it is under
    `OpNonneg`) a grant pays exactly the booked amounts: the receiver's main account gets `a.main`, its subaccount
    address `a.sub`, the pool loses `a.main + a.sub` -/
theorem grant_exact {s s' : State} {m : GrantMsg} (hP : PoolEq s) (h : grantReward s m = .ok s') :
    ∃ a, s'.rewards = s.rewards ++ [{ uid := m.uid, creator := m.creator, receiver := m.receiver, campaign := m.campaign, amt := a }] ∧
      0 ≤ a.main ∧ 0 ≤ a.sub ∧
      s'.bank POOL = s.bank POOL - (a.main + a.sub) ∧
      (m.receiver ≠ POOL →
        s'.bank m.receiver = s.bank m.receiver + a.main ∧
        s'.bank (SUBBASE + m.receiver) = s.bank (SUBBASE + m.receiver) + a.sub) := by
  obtain ⟨c, r, caps, d, _, hget, _, _, _, hcalc, _, _, hdist, rfl⟩ := grantReward_ok h
  obtain ⟨h1, h2, _, _⟩ := grant_amt_nonneg hP (hP.nonneg c (getC_mem _ _ _ hget)) hcalc
  have hp := distribute_pool hdist
  refine ⟨r.2, rfl, h1, h2, ?_, ?_⟩
  · show d.1 POOL = _
    rw [hp]
    split <;> split <;> omega
  · intro hr
    obtain ⟨e1, e2⟩ := distribute_receiver hdist hr
    refine ⟨?_, ?_⟩
    · show d.1 m.receiver = _
      rw [e1]; split <;> omega
    · show d.1 (SUBBASE + m.receiver) = _
      rw [e2]; split <;> omega

/-! ### per-category cap -/

theorem catCapHit_false {byCat : List CatIdx} {p : Promoter} {category receiver : Nat}
    (h : catCapHit byCat p category receiver = false) :
    ∀ cc ∈ p.conf, cc.1 = category → (countCat byCat p.uid receiver category : Int) < cc.2 := by
  unfold catCapHit at h
  rw [List.any_eq_false] at h
  intro cc hcc hcat
  have := h cc hcc
  simp only [Bool.and_eq_true, beq_iff_eq, decide_eq_true_eq, not_and] at this
  have := this hcat
  omega

/-- after a successful grant the receiver holds, under the campaign's promoter and in the campaign's category,
    at most as many rewards as every matching cap of the promoter's configuration allows -/
theorem grant_cap_category {s s' : State} {m : GrantMsg} (h : grantReward s m = .ok s') :
    ∃ c pa p, getC s.campaigns m.campaign = some c ∧ getA s.byAddr c.promoter = some pa ∧
      getP s.promoters pa.2 = some p ∧
      ∀ cc ∈ p.conf, cc.1 = c.category → (countCat s'.byCat p.uid m.receiver c.category : Int) ≤ cc.2 := by
  obtain ⟨c, r, caps, d, _, hget, _, _, _, _, hcaps, _, _, rfl⟩ := grantReward_ok h
  obtain ⟨_, _, pa, p, hpa, hp, hpu, hhit⟩ := grantCaps_ok hcaps
  refine ⟨c, pa, p, hget, hpa, hp, ?_⟩
  intro cc hcc hcat
  have := catCapHit_false hhit cc hcc hcat
  show ((countCat (s.byCat ++ [_]) p.uid m.receiver c.category : Nat) : Int) ≤ cc.2
  rw [countCat_append, hpu]
  simp only [and_self, if_true]
  omega

/-! ### ownership -/

theorem update_authorised {s s' : State} {m : UpdateMsg} (h : updateCampaign s m = .ok s') :
    ∃ c, getC s.campaigns m.uid = some c ∧ c.active = true ∧ m.tv = true ∧
      Authorised s.time s.grants m.creator c.promoter 1 m.topup := by
  obtain ⟨c, gs, hget, htv, _, hact, hauth, _⟩ := updateCampaign_ok h
  exact ⟨c, hget, hact, htv, authStep_ok hauth⟩

theorem withdraw_authorised {s s' : State} {m : WithdrawMsg} (hI : Inv s) (h : withdrawFunds s m = .ok s') :
    ∃ c amount, getC s.campaigns m.uid = some c ∧ m.amount = some amount ∧ m.tv = true ∧
      Authorised s.time s.grants m.creator c.promoter 2 m.amount ∧
      0 ≤ amount ∧ amount ≤ c.pool.avail ∧
      s'.bank POOL = s.bank POOL - amount ∧ s'.bank c.promoter = s.bank c.promoter + amount := by
  obtain ⟨c, gs, amount, bank, hget, htv, hprom, hauth, hamt, _, hle, hsend, rfl⟩ := withdrawFunds_ok h
  have hne : c.promoter ≠ POOL := hI.promOk c (getC_mem _ _ _ hget)
  rw [hprom] at hsend
  obtain ⟨h0, _, e⟩ := send_ok hsend
  refine ⟨c, amount, hget, hamt, htv, authStep_ok hauth, h0, hle, send_from_pool hsend hne, ?_⟩
  show bank c.promoter = _
  rw [e]; simp [Bank.upd, hne]

/-- total / withdrawn / end time / active flag of an existing campaign change only through an authorised
    `UpdateCampaign` or `WithdrawFunds` of exactly that campaign -/
theorem campaign_change_authorised {s s' : State} {op : Op} {u : Nat} {c c' : Campaign}
    (h : exec s op = .ok s') (hc : getC s.campaigns u = some c) (hc' : getC s'.campaigns u = some c')
    (hd : c'.pool.total ≠ c.pool.total ∨ c'.pool.withdrawn ≠ c.pool.withdrawn ∨ c'.endTS ≠ c.endTS ∨
          c'.active ≠ c.active ∨ c'.promoter ≠ c.promoter) :
    (∃ m, op = .updateCampaign m ∧ m.uid = u ∧ Authorised s.time s.grants m.creator c.promoter 1 m.topup) ∨
    (∃ m, op = .withdraw m ∧ m.uid = u ∧ Authorised s.time s.grants m.creator c.promoter 2 m.amount) := by
  have same : s'.campaigns = s.campaigns → False := by
    intro e; rw [e, hc] at hc'; cases hc'; simp at hd
  cases op with
  | time t => simp only [exec, Except.ok.injEq] at h; subst h; exact (same rfl).elim
  | createPromoter m => obtain ⟨_, _, rfl⟩ := createPromoter_ok h; exact (same rfl).elim
  | setConf m => obtain ⟨p, _, _, _, rfl⟩ := setPromoterConf_ok h; exact (same rfl).elim
  | authzGrant a b k l e => obtain ⟨_, _, rfl⟩ := authzGrant_ok h; exact (same rfl).elim
  | authzRevoke a b k => have := authzRevoke_ok h; subst this; exact (same rfl).elim
  | putBet b => obtain ⟨_, rfl⟩ := putBet_ok h; exact (same rfl).elim
  | createSub o => have := createSub_ok h; subst this; exact (same rfl).elim
  | bankSend f t a => obtain ⟨b, _, _, _, rfl⟩ := bankSend_ok h; exact (same rfl).elim
  | createCampaign m =>
    obtain ⟨funds, gs, bank, _, _, hnone, _, _, _, _, _, rfl⟩ := createCampaign_ok h
    exfalso
    have hc2 : getC (setC s.campaigns (newCampaign m funds)) u = some c' := hc'
    rw [getC_setC] at hc2
    split at hc2
    · rename_i hu
      have : (newCampaign m funds).uid = m.uid := rfl
      rw [hu, this, hnone] at hc; cases hc
    · rw [hc] at hc2; cases hc2; simp at hd
  | grant m =>
    obtain ⟨c0, r, caps, d, _, hget, _, _, _, _, _, _, _, rfl⟩ := grantReward_ok h
    exfalso
    have hu0 := getC_uid _ _ _ hget
    have hc2 : getC (setC s.campaigns _) u = some c' := hc'
    rw [getC_setC] at hc2
    split at hc2
    · rename_i hu
      have hu' : u = c0.uid := hu
      rw [hu', hu0, hget] at hc; cases hc
      cases hc2; simp at hd
    · rw [hc] at hc2; cases hc2; simp at hd
  | updateCampaign m =>
    refine Or.inl ⟨m, rfl, ?_⟩
    obtain ⟨c0, hget, _, _, hauth⟩ := update_authorised h
    obtain ⟨c1, gs, hget1, _, _, _, _, hcase⟩ := updateCampaign_ok h
    have hu0 := getC_uid _ _ _ hget1
    by_cases hu : m.uid = u
    · subst hu; rw [hget] at hc; cases hc; exact ⟨rfl, hauth⟩
    · exfalso
      rcases hcase with ⟨_, _, _, _, _, rfl⟩ | ⟨_, rfl⟩
      all_goals
        have hc2 : getC (setC s.campaigns _) u = some c' := hc'
        rw [getC_setC] at hc2
        split at hc2
        · rename_i hu'
          have hu'' : u = c1.uid := hu'
          exact hu (by rw [hu'', hu0])
        · rw [hc] at hc2; cases hc2; simp at hd
  | withdraw m =>
    refine Or.inr ⟨m, rfl, ?_⟩
    obtain ⟨c1, gs, amount, bank, hget1, _, _, hauth, _, _, _, _, rfl⟩ := withdrawFunds_ok h
    have hu0 := getC_uid _ _ _ hget1
    by_cases hu : m.uid = u
    · subst hu; rw [hget1] at hc; cases hc; exact ⟨rfl, authStep_ok hauth⟩
    · exfalso
      have hc2 : getC (setC s.campaigns _) u = some c' := hc'
      rw [getC_setC] at hc2
      have hne : ¬ u = c1.uid := fun e => hu (by rw [e, hu0])
      simp only [hne, if_false] at hc2
      rw [hc] at hc2; cases hc2; simp at hd

/-! ### the unpatched variant never holds a withdraw authorization -/

theorem mem_setGrant {gs : List Grant} {v x : Grant} (h : x ∈ setGrant gs v) : x = v ∨ x ∈ gs := by
  induction gs with
  | nil => simp [setGrant] at h; exact Or.inl h
  | cons y ys ih =>
    unfold setGrant at h
    split at h
    · cases h with
      | head => exact Or.inl rfl
      | tail _ hm => exact Or.inr (List.mem_cons_of_mem _ hm)
    · cases h with
      | head => exact Or.inr List.mem_cons_self
      | tail _ hm =>
        cases ih hm with
        | inl e => exact Or.inl e
        | inr m => exact Or.inr (List.mem_cons_of_mem _ m)

theorem mem_delGrant {gs : List Grant} {a b k : Nat} {x : Grant} (h : x ∈ delGrant gs a b k) : x ∈ gs := by
  induction gs with
  | nil => simp [delGrant] at h
  | cons y ys ih =>
    unfold delGrant at h
    split at h
    · exact List.mem_cons_of_mem _ h
    · cases h with
      | head => exact List.mem_cons_self
      | tail _ hm => exact List.mem_cons_of_mem _ (ih hm)

theorem getGrant_spec {gs : List Grant} {a b k : Nat} {g : Grant} (h : getGrant gs a b k = some g) :
    g ∈ gs ∧ g.granter = a ∧ g.grantee = b ∧ g.kind = k := by
  induction gs with
  | nil => simp [getGrant] at h
  | cons y ys ih =>
    unfold getGrant at h
    split at h
    · rename_i hy
      cases h
      exact ⟨List.mem_cons_self, hy.1, hy.2.1, hy.2.2⟩
    · obtain ⟨hm, r⟩ := ih h
      exact ⟨List.mem_cons_of_mem _ hm, r⟩

/-- grants of kind 2 (`WithdrawCampaignAuthorization`) exist only in the patched variant -/
def NoWithdrawGrant (s : State) : Prop := ∀ g ∈ s.grants, g.kind = 2 → s.codecFixed = true

theorem authStep_kinds {time : Nat} {gs gs' : List Grant} {creator promoter kind : Nat} {amount : Option Int}
    (h : authStep time gs creator promoter kind amount = .ok gs') :
    ∀ x ∈ gs', ∃ y ∈ gs, y.kind = x.kind := by
  unfold authStep at h
  split at h
  · obtain ⟨g, a, hg, _, _, _, hcase⟩ := authorize_ok h
    obtain ⟨hgm, _, _, _⟩ := getGrant_spec hg
    intro x hx
    rcases hcase with rfl | rfl
    · exact ⟨x, mem_delGrant hx, rfl⟩
    · cases mem_setGrant hx with
      | inl e => exact ⟨g, hgm, by rw [e]⟩
      | inr hm => exact ⟨x, hm, rfl⟩
  · cases h; intro x hx; exact ⟨x, hx, rfl⟩

theorem noWithdrawGrant_exec {s s' : State} {op : Op} (hN : NoWithdrawGrant s) (h : exec s op = .ok s') :
    NoWithdrawGrant s' := by
  have keep : ∀ {t : State}, t.codecFixed = s.codecFixed → (∀ x ∈ t.grants, ∃ y ∈ s.grants, y.kind = x.kind) → NoWithdrawGrant t := by
    intro t hf hk g hg h2
    obtain ⟨y, hy, hyk⟩ := hk g hg
    rw [hf]; exact hN y hy (by rw [hyk]; exact h2)
  have idk : ∀ x ∈ s.grants, ∃ y ∈ s.grants, y.kind = x.kind := fun x hx => ⟨x, hx, rfl⟩
  cases op with
  | time t => simp only [exec, Except.ok.injEq] at h; subst h; exact keep rfl idk
  | createPromoter m => obtain ⟨_, _, rfl⟩ := createPromoter_ok h; exact keep rfl idk
  | setConf m => obtain ⟨p, _, _, _, rfl⟩ := setPromoterConf_ok h; exact keep rfl idk
  | putBet b => obtain ⟨_, rfl⟩ := putBet_ok h; exact keep rfl idk
  | createSub o => have := createSub_ok h; subst this; exact keep rfl idk
  | bankSend f t a => obtain ⟨b, _, _, _, rfl⟩ := bankSend_ok h; exact keep rfl idk
  | grant m => obtain ⟨_, _, _, _, _, _, _, _, _, _, _, _, _, rfl⟩ := grantReward_ok h; exact keep rfl idk
  | createCampaign m =>
    obtain ⟨_, _, _, _, _, _, _, _, hauth, _, _, rfl⟩ := createCampaign_ok h
    exact keep rfl (authStep_kinds hauth)
  | updateCampaign m =>
    obtain ⟨c, gs, _, _, _, _, hauth, hcase⟩ := updateCampaign_ok h
    rcases hcase with ⟨_, _, _, _, _, rfl⟩ | ⟨_, rfl⟩
    · exact keep rfl (authStep_kinds hauth)
    · exact keep rfl (authStep_kinds hauth)
  | withdraw m =>
    obtain ⟨_, _, _, _, _, _, _, hauth, _, _, _, _, rfl⟩ := withdrawFunds_ok h
    exact keep rfl (authStep_kinds hauth)
  | authzRevoke a b k =>
    have := authzRevoke_ok h; subst this
    exact keep rfl (fun x hx => ⟨x, mem_delGrant hx, rfl⟩)
  | authzGrant a b k l e =>
    obtain ⟨hk, _, rfl⟩ := authzGrant_ok h
    intro g hg h2
    cases mem_setGrant hg with
    | inl e => exact hk (by rw [e] at h2; exact h2)
    | inr hm => exact hN g hm h2

theorem noWithdrawGrant_run {s : State} (ops : List Op) (hN : NoWithdrawGrant s) : NoWithdrawGrant (run s ops) := by
  induction ops generalizing s with
  | nil => exact hN
  | cons op rest ih =>
    apply ih
    rcases step_eq s op with ⟨s', h, e⟩ | e
    · rw [e]; exact noWithdrawGrant_exec hN h
    · rw [e]; exact hN

end Sge.Reward
