/-
  Inversion lemmas of the reward slice: what a successful handler (or stage) call tells about its inputs and
  how exactly the new state is built. Every later proof about a handler starts from one of these.
-/
import SgeProofs.Lemmas.Reward
namespace Sge.Reward
open Sge

/-- split every `if` / `match` of hypothesis `h`, dropping the branches that end in an error -/
macro "invert " h:ident : tactic =>
  `(tactic| repeat' (split at $h:ident <;> try (cases $h:ident; done)))

/-! ### authorizations -/

theorem authorize_ok {time : Nat} {gs gs' : List Grant} {granter grantee kind : Nat} {amount : Option Int}
    (h : authorize time gs granter grantee kind amount = .ok gs') :
    ∃ g a, getGrant gs granter grantee kind = some g ∧ amount = some a ∧
      grantExpired time g = false ∧ authUsed kind a ≤ g.limit ∧
      (gs' = delGrant gs granter grantee kind ∨
       gs' = setGrant gs { g with limit := g.limit - authUsed kind a }) := by
  unfold authorize at h
  invert h
  · injection h with h; subst h
    exact ⟨_, _, by assumption, rfl, by simp_all, by omega, Or.inl rfl⟩
  · injection h with h; subst h
    exact ⟨_, _, by assumption, rfl, by simp_all, by omega, Or.inr rfl⟩

/-- the authorization step shared by the three campaign messages -/
def authStep (time : Nat) (gs : List Grant) (creator promoter kind : Nat) (amount : Option Int) : Except Err (List Grant) :=
  if creator ≠ promoter then authorize time gs promoter creator kind amount else .ok gs

/-- "promoter or grantee": the creator is the promoter, or holds an unexpired grant of the promoter for this
    message kind whose limit covers the amount -/
def Authorised (time : Nat) (gs : List Grant) (creator promoter kind : Nat) (amount : Option Int) : Prop :=
  creator = promoter ∨
  ∃ g a, getGrant gs promoter creator kind = some g ∧ amount = some a ∧ grantExpired time g = false ∧
    authUsed kind a ≤ g.limit

theorem authStep_ok {time : Nat} {gs gs' : List Grant} {creator promoter kind : Nat} {amount : Option Int}
    (h : authStep time gs creator promoter kind amount = .ok gs') :
    Authorised time gs creator promoter kind amount := by
  unfold authStep at h
  split at h
  · obtain ⟨g, a, h1, h2, h3, h4, _⟩ := authorize_ok h
    exact Or.inr ⟨g, a, h1, h2, h3, h4⟩
  · rename_i hc
    exact Or.inl (by simpa using hc)

theorem posI_some {x : Option Int} (h : posI x = true) : ∃ v, x = some v ∧ 0 < v := by
  unfold posI at h
  split at h
  · exact ⟨_, rfl, by simpa using h⟩
  · cases h

/-! ### promoters -/

theorem createPromoter_ok {s s' : State} {m : PromoterMsg} (h : createPromoter s m = .ok s') :
    m.creator ≠ POOL ∧ m.tv = true ∧
    s' = { s with
      promoters := setP s.promoters { uid := m.uid, creator := m.creator, addresses := [m.creator], conf := m.conf },
      byAddr := setA s.byAddr (m.creator, m.uid) } := by
  unfold createPromoter at h
  invert h
  injection h with h; subst h
  refine ⟨by assumption, by simp_all, rfl⟩

theorem setPromoterConf_ok {s s' : State} {m : ConfMsg} (h : setPromoterConf s m = .ok s') :
    ∃ p, getP s.promoters m.uid = some p ∧ p.addresses.contains m.creator = true ∧ m.tv = true ∧
      s' = { s with promoters := setP s.promoters { p with conf := m.conf } } := by
  unfold setPromoterConf at h
  invert h
  injection h with h; subst h
  exact ⟨_, by assumption, by simp_all, by simp_all, rfl⟩

/-! ### campaigns -/

/-- the campaign record written by `CreateCampaign` -/
def newCampaign (m : CreateMsg) (funds : Int) : Campaign :=
  { uid := m.uid, creator := m.creator, promoter := m.promoter, startTS := m.startTS,
    endTS := m.endTS, category := m.category, rtype := m.rtype, amtType := m.amtType,
    amt := storeAmt (m.ra.getD default), pool := { total := funds, spent := 0, withdrawn := 0 },
    active := m.active, capCount := m.capCount, maxBet := storeCons m.cons }

theorem createCampaign_ok {s s' : State} {m : CreateMsg} (h : createCampaign s m = .ok s') :
    ∃ funds gs bank, m.funds = some funds ∧ 0 < funds ∧ getC s.campaigns m.uid = none ∧ m.tv = true ∧
      (getA s.byAddr m.promoter).isSome = true ∧
      authStep s.time s.grants m.creator m.promoter 0 (some funds) = .ok gs ∧
      createChecks s.fixed s.time m funds = none ∧
      send s.bank m.promoter POOL funds = .ok bank ∧
      s' = { s with grants := gs, bank := bank, campaigns := setC s.campaigns (newCampaign m funds) } := by
  unfold createCampaign at h
  invert h
  injection h with h; subst h
  refine ⟨_, _, _, by assumption, by omega, ?_, ?_, ?_, by assumption, by assumption, by assumption, rfl⟩
  · simp_all
  · simp_all
  · cases hga : getA s.byAddr m.promoter <;> simp_all

theorem updateCampaign_ok {s s' : State} {m : UpdateMsg} (h : updateCampaign s m = .ok s') :
    ∃ c gs, getC s.campaigns m.uid = some c ∧ m.tv = true ∧ s.time ≤ m.endTS ∧ c.active = true ∧
      authStep s.time s.grants m.creator c.promoter 1 m.topup = .ok gs ∧
      ((∃ t bank, m.topup = some t ∧ 0 < t ∧ send s.bank c.promoter POOL t = .ok bank ∧
          s' = { s with grants := gs, bank := bank,
                        campaigns := setC s.campaigns
                          { c with pool := { c.pool with total := c.pool.total + t }, endTS := m.endTS, active := m.active } }) ∨
       (posI m.topup = false ∧
          s' = { s with grants := gs,
                        campaigns := setC s.campaigns { c with endTS := m.endTS, active := m.active } })) := by
  unfold updateCampaign at h
  invert h
  · -- top-up
    injection h with h; subst h
    have hp : posI m.topup = true := by assumption
    obtain ⟨t, ht, htpos⟩ := posI_some hp
    simp only [ht, Option.getD_some] at *
    exact ⟨_, _, by assumption, by simp_all, by omega, by simp_all, by assumption,
      Or.inl ⟨t, _, rfl, htpos, by assumption, rfl⟩⟩
  · injection h with h; subst h
    have hp : ¬ posI m.topup = true := by assumption
    exact ⟨_, _, by assumption, by simp_all, by omega, by simp_all, by assumption, Or.inr ⟨by simpa using hp, rfl⟩⟩

theorem withdrawFunds_ok {s s' : State} {m : WithdrawMsg} (h : withdrawFunds s m = .ok s') :
    ∃ c gs amount bank, getC s.campaigns m.uid = some c ∧ m.tv = true ∧ m.promoter = c.promoter ∧
      authStep s.time s.grants m.creator c.promoter 2 m.amount = .ok gs ∧
      m.amount = some amount ∧ 0 < c.pool.avail ∧ amount ≤ c.pool.avail ∧
      send s.bank POOL m.promoter amount = .ok bank ∧
      s' = { s with grants := gs, bank := bank,
                    campaigns := setC s.campaigns
                      { c with pool := { c.pool with withdrawn := c.pool.withdrawn + amount },
                               active := if ({ c.pool with withdrawn := c.pool.withdrawn + amount } : Pool).avail ≤ 0 then false else c.active } } := by
  unfold withdrawFunds at h
  invert h
  injection h with h; subst h
  refine ⟨_, _, _, _, by assumption, by simp_all, by simp_all, by assumption, by assumption, by omega, by omega, by assumption, rfl⟩

/-! ### grants -/

theorem calcChecks_none {s : State} {c : Campaign} {m : GrantMsg} (h : calcChecks s c m = none) :
    m.tv = true ∧ kycOk m.kyc = true ∧ isSubAddr s.subs m.receiver = false ∧
    ((c.rtype = 2 ∨ c.rtype = 3) → m.srcOk = true) ∧
    ((c.rtype = 4 ∨ c.rtype = 5) → noSignup s c.promoter m.referee = false) := by
  unfold calcChecks at h
  invert h
  refine ⟨by simp_all, by simp_all, by simp_all, ?_, ?_⟩
  · intro hr; simp_all
  · intro hr; simp_all

theorem calculate_ok {s : State} {c : Campaign} {m : GrantMsg} {r : List Sub × Amt} (h : calculate s c m = .ok r) :
    calcChecks s c m = none ∧ r.1 = ensureSub s.subs m.receiver ∧
    ((c.rtype ≠ 8 ∧ r.2 = fixedAmt c) ∨
     (c.rtype = 8 ∧ ∃ b, betLookup s.bets m.bet m.receiver = some b ∧ r.2 = betAmt c b)) := by
  unfold calculate at h
  invert h
  · injection h with h; subst h
    exact ⟨by assumption, rfl, Or.inr ⟨by assumption, _, by assumption, rfl⟩⟩
  · injection h with h; subst h
    exact ⟨by assumption, rfl, Or.inl ⟨by assumption, rfl⟩⟩

theorem grantCaps_ok {s : State} {c : Campaign} {m : GrantMsg} {r : List Stat × Nat} (h : grantCaps s c m = .ok r) :
    (0 < c.capCount → getStat s.stats c.uid m.receiver < c.capCount) ∧
    r.1 = capStats s c m.receiver ∧
    ∃ pa p, getA s.byAddr c.promoter = some pa ∧ getP s.promoters pa.2 = some p ∧ r.2 = p.uid ∧
      catCapHit s.byCat p c.category m.receiver = false := by
  unfold grantCaps at h
  invert h
  injection h with h; subst h
  refine ⟨?_, rfl, _, _, by assumption, by assumption, rfl, by simp_all⟩
  intro hc
  rename_i hcap _ _ _ _ _ _ _
  omega

theorem distSub_ok {time : Nat} {bank : Bank} {subs : List Sub} {receiver : Nat} {a : Amt} {r : Bank × List Sub}
    (h : distSub time bank subs receiver a = .ok r) :
    (0 < a.sub ∧ send bank POOL (SUBBASE + receiver) a.sub = .ok r.1 ∧
       ∃ sb, getSub subs receiver = some sb ∧ hasLock sb (time + a.unlock) = false ∧
         r.2 = setSub subs (lockedTopUp sb (time + a.unlock) a.sub)) ∨
    (a.sub ≤ 0 ∧ r = (bank, subs)) := by
  unfold distSub at h
  invert h
  · injection h with h; subst h
    exact Or.inl ⟨by assumption, by assumption, _, by assumption, by simp_all, rfl⟩
  · injection h with h; subst h
    exact Or.inr ⟨by omega, rfl⟩

theorem distMain_ok {bank bank' : Bank} {receiver : Nat} {a : Amt} (h : distMain bank receiver a = .ok bank') :
    (0 < a.main ∧ receiver ≠ POOL ∧ send bank POOL receiver a.main = .ok bank') ∨ (a.main ≤ 0 ∧ bank' = bank) := by
  unfold distMain at h
  invert h
  · injection h with h; subst h
    exact Or.inl ⟨by assumption, by assumption, by assumption⟩
  · injection h with h; subst h
    exact Or.inr ⟨by omega, rfl⟩

theorem distribute_ok {time : Nat} {bank : Bank} {subs : List Sub} {receiver : Nat} {a : Amt} {d : Bank × List Sub}
    (h : distribute time bank subs receiver a = .ok d) :
    ∃ r, distSub time bank subs receiver a = .ok r ∧ distMain r.1 receiver a = .ok d.1 ∧ d.2 = r.2 := by
  unfold distribute at h
  invert h
  injection h with h; subst h
  rename_i r _ _ _ hm
  exact ⟨r, by assumption, hm, rfl⟩

theorem grantReward_ok {s s' : State} {m : GrantMsg} (h : grantReward s m = .ok s') :
    ∃ c r caps d, getR s.rewards m.uid = none ∧ getC s.campaigns m.campaign = some c ∧
      c.active = true ∧ c.startTS ≤ s.time ∧ s.time ≤ c.endTS ∧
      calculate s c m = .ok r ∧ grantCaps s c m = .ok caps ∧
      r.2.main + r.2.sub ≤ c.pool.avail ∧
      distribute s.time s.bank r.1 m.receiver r.2 = .ok d ∧
      s' = grantBook s c m r.2 caps.1 caps.2 d.1 d.2 := by
  unfold grantReward at h
  invert h
  injection h with h; subst h
  refine ⟨_, _, _, _, ?_, by assumption, by simp_all, by omega, by omega, by assumption, by assumption, by omega,
    by assumption, rfl⟩
  cases hr : getR s.rewards m.uid <;> simp_all

end Sge.Reward
