/-
  How the messages and the bet-settlement phase of an end-block may change a book (`BkStep`, `StStep`): a paid
  participation record is never touched, no participation becomes paid, a book does not become SETTLED.
  Consequences: paid records are frozen, "SETTLED book ⇒ every participation paid" (`PaidInv`) is kept.
-/
import SgeProofs.Lemmas.ReturnsPay
namespace Sge.Core
open Sge Sge.Genesis

/-- `b'` is `b` after a message or a bet settlement: every participation of `b'` is one of `b` with the same paid
    flag — identical if paid — or a fresh unpaid one of an active book; none disappears; the status does not move
    to SETTLED nor back to ACTIVE -/
structure BkStep (b b' : Book) : Prop where
  uid : b'.uid = b.uid
  gp : ∀ i p', b'.getPart i = some p' →
    (∃ p, b.getPart i = some p ∧ p'.isSettled = p.isSettled ∧ (p.isSettled = true → p' = p)) ∨
    (b.getPart i = none ∧ p'.isSettled = false ∧ b.status = OB_ACTIVE)
  gp' : ∀ i p, b.getPart i = some p → ∃ p', b'.getPart i = some p'
  st : b'.status = OB_SETTLED → b.status = OB_SETTLED
  act : b'.status = OB_ACTIVE → b.status = OB_ACTIVE

theorem BkStep.refl (b : Book) : BkStep b b :=
  ⟨rfl, fun _ p' h => Or.inl ⟨p', h, rfl, fun _ => rfl⟩, fun _ p h => ⟨p, h⟩, id, id⟩

theorem BkStep.trans {a b c : Book} (h1 : BkStep a b) (h2 : BkStep b c) : BkStep a c := by
  refine ⟨h2.uid.trans h1.uid, ?_, ?_, fun h => h1.st (h2.st h), fun h => h1.act (h2.act h)⟩
  · intro i p'' hp''
    rcases h2.gp i p'' hp'' with ⟨p', hp', e1, e2⟩ | ⟨hn, hu, ha⟩
    · rcases h1.gp i p' hp' with ⟨p, hp, e3, e4⟩ | ⟨hn, hu, ha⟩
      · refine Or.inl ⟨p, hp, e1.trans e3, fun hs => ?_⟩
        have := e4 hs
        subst this
        exact e2 hs
      · exact Or.inr ⟨hn, e1.trans hu, ha⟩
    · right
      refine ⟨?_, hu, h1.act ha⟩
      cases hx : a.getPart i with
      | none => rfl
      | some p =>
        obtain ⟨p', hp'⟩ := h1.gp' i p hx
        rw [hn] at hp'; cases hp'
  · intro i p hp
    obtain ⟨p', hp'⟩ := h1.gp' i p hp
    exact h2.gp' i p' hp'

/-- only fields outside the participation list change, the status not backwards and not to SETTLED -/
theorem BkStep.of_parts {b b' : Book} (hu : b'.uid = b.uid) (hp : b'.parts = b.parts)
    (hst : b'.status = OB_SETTLED → b.status = OB_SETTLED) (hact : b'.status = OB_ACTIVE → b.status = OB_ACTIVE) :
    BkStep b b' := by
  have hg : ∀ i, b'.getPart i = b.getPart i := by intro i; unfold Book.getPart; rw [hp]
  exact ⟨hu, fun i p' h => Or.inl ⟨p', by rw [← hg]; exact h, rfl, fun _ => rfl⟩, fun i p h => ⟨p, by rw [hg]; exact h⟩, hst, hact⟩

/-- one unpaid participation is written (over an unpaid one, or as a new one of an active book) -/
theorem BkStep.upsert {b b' : Book} (x : Part) (hu : b'.uid = b.uid) (hs : b'.status = b.status)
    (hp : b'.parts = upsert Part.key x b.parts) (hxs : x.isSettled = false)
    (hx : (∃ p, b.getPart x.idx = some p ∧ p.isSettled = false) ∨ (b.getPart x.idx = none ∧ b.status = OB_ACTIVE)) :
    BkStep b b' := by
  have hg : ∀ i, b'.getPart i = (b.setPart x).getPart i := by
    intro i; unfold Book.getPart; rw [hp]; rfl
  refine ⟨hu, ?_, ?_, fun h => by rw [← hs]; exact h, fun h => by rw [← hs]; exact h⟩
  · intro i p' h
    rw [hg] at h
    by_cases hi : x.idx = i
    · rw [← hi, Book.getPart_setPart_self] at h
      cases h
      rw [← hi]
      rcases hx with ⟨p, hp0, hps⟩ | ⟨hn, ha⟩
      · exact Or.inl ⟨p, hp0, by rw [hxs, hps], fun hc => by rw [hps] at hc; cases hc⟩
      · exact Or.inr ⟨hn, hxs, ha⟩
    · rw [Book.getPart_setPart_ne _ _ _ hi] at h
      exact Or.inl ⟨p', h, rfl, fun _ => rfl⟩
  · intro i p hpi
    rw [hg]
    by_cases hi : x.idx = i
    · exact ⟨x, ret_getPart_setPart_at b x i hi⟩
    · exact ⟨p, by rw [Book.getPart_setPart_ne _ _ _ hi]; exact hpi⟩

/-- a book without paid participations whose participations keep their paid flag -/
theorem BkStep.of_unpaid {b b' : Book} (hu : b'.uid = b.uid) (hs : b'.status = b.status)
    (hall : ∀ p ∈ b.parts, p.isSettled = false)
    (hgp : ∀ i p', b'.getPart i = some p' → ∃ p, b.getPart i = some p ∧ p'.isSettled = p.isSettled)
    (hgp' : ∀ i p, b.getPart i = some p → ∃ p', b'.getPart i = some p') : BkStep b b' := by
  refine ⟨hu, ?_, hgp', fun h => by rw [← hs]; exact h, fun h => by rw [← hs]; exact h⟩
  intro i p' hp'
  obtain ⟨p, hp, e⟩ := hgp i p' hp'
  refine Or.inl ⟨p, hp, e, fun hc => ?_⟩
  rw [hall p (Book.getPart_mem hp).1] at hc
  cases hc

/-- a book that did not exist before: nothing paid, not SETTLED -/
def RetNewBook (b : Book) : Prop := (∀ i p, b.getPart i = some p → p.isSettled = false) ∧ b.status ≠ OB_SETTLED

/-- the books of two states related by messages / bet settlements -/
structure StStep (s s' : State) : Prop where
  fwd : ∀ b ∈ s.books, ∃ b' ∈ s'.books, BkStep b b'
  bwd : ∀ b' ∈ s'.books, RetNewBook b' ∨ ∃ b ∈ s.books, BkStep b b'

theorem StStep.of_eq {s s' : State} (h : s'.books = s.books) : StStep s s' :=
  ⟨fun b hb => ⟨b, by rw [h]; exact hb, BkStep.refl b⟩, fun b' hb' => Or.inr ⟨b', by rw [← h]; exact hb', BkStep.refl b'⟩⟩

theorem StStep.refl (s : State) : StStep s s := StStep.of_eq rfl

theorem StStep.trans {a b c : State} (h1 : StStep a b) (h2 : StStep b c) : StStep a c := by
  constructor
  · intro x hx
    obtain ⟨y, hy, e1⟩ := h1.fwd x hx
    obtain ⟨z, hz, e2⟩ := h2.fwd y hy
    exact ⟨z, hz, e1.trans e2⟩
  · intro z hz
    rcases h2.bwd z hz with hf | ⟨y, hy, e2⟩
    · exact Or.inl hf
    · rcases h1.bwd y hy with ⟨hp, ha⟩ | ⟨x, hx, e1⟩
      · left
        refine ⟨fun i p' hp' => ?_, fun hc => ha (e2.st hc)⟩
        rcases e2.gp i p' hp' with ⟨p, hp0, e, _⟩ | ⟨_, hu, _⟩
        · rw [e]; exact hp i p hp0
        · exact hu
      · exact Or.inr ⟨x, hx, e1.trans e2⟩

/-- replacing a stored book by a `BkStep` of it -/
theorem StStep.setBook {s : State} (hsB : Sorted Book.key s.books) (b b' : Book) (hb : getBook s b'.uid = some b)
    (hx : BkStep b b') : StStep s (Sge.Core.setBook s b') := by
  obtain ⟨hbm, hbu⟩ := getBook_eq_some s _ b hb
  constructor
  · intro x hxm
    by_cases hu : x.uid = b'.uid
    · have : x = b := by
        have := mem_getBook hsB hxm
        rw [hu, hb] at this
        cases this; rfl
      subst this
      exact ⟨b', mem_upsert_self Book.key b' s.books, hx⟩
    · refine ⟨x, mem_upsert_of_ne Book.key b' x s.books hxm ?_, BkStep.refl x⟩
      simpa [Book.key] using hu
  · intro x hxm
    rcases (mem_upsert_iff Book.key b' x s.books hsB).mp hxm with rfl | ⟨e, _⟩
    · exact Or.inr ⟨b, hbm, hx⟩
    · exact Or.inr ⟨x, e, BkStep.refl x⟩

/-- a new book without participations -/
theorem StStep.addBook {s : State} (hsB : Sorted Book.key s.books) (nb : Book) (hn : getBook s nb.uid = none)
    (hp : nb.parts = []) (hst : nb.status = OB_ACTIVE) : StStep s (Sge.Core.setBook s nb) := by
  constructor
  · intro x hxm
    refine ⟨x, mem_upsert_of_ne Book.key nb x s.books hxm ?_, BkStep.refl x⟩
    have : x.uid ≠ nb.uid := by
      intro e
      have := mem_getBook hsB hxm
      rw [e, hn] at this
      cases this
    simpa [Book.key] using this
  · intro x hxm
    rcases (mem_upsert_iff Book.key nb x s.books hsB).mp hxm with rfl | ⟨e, _⟩
    · left
      refine ⟨fun i p h => ?_, by rw [hst]; decide⟩
      unfold Book.getPart lookup at h
      rw [hp] at h
      cases h
    · exact Or.inr ⟨x, e, BkStep.refl x⟩

-- ---------------------------------------------------------------------------------------------
-- consequences

/-- every participation of a SETTLED book is paid -/
def PaidInv (s : State) : Prop := ∀ b ∈ s.books, b.status = OB_SETTLED → ∀ p ∈ b.parts, p.isSettled = true

/-- paid records are still there -/
def KeepsPaid (s s' : State) : Prop :=
  ∀ b ∈ s.books, ∀ p ∈ b.parts, p.isSettled = true → ∃ b' ∈ s'.books, b'.uid = b.uid ∧ p ∈ b'.parts

theorem KeepsPaid.refl (s : State) : KeepsPaid s s := fun b hb p hp _ => ⟨b, hb, rfl, hp⟩

theorem KeepsPaid.trans {a b c : State} (h1 : KeepsPaid a b) (h2 : KeepsPaid b c) : KeepsPaid a c := by
  intro x hx p hp hs
  obtain ⟨y, hy, u1, hp1⟩ := h1 x hx p hp hs
  obtain ⟨z, hz, u2, hp2⟩ := h2 y hy p hp1 hs
  exact ⟨z, hz, u2.trans u1, hp2⟩

theorem StStep.keeps {s s' : State} (h : StStep s s') (hsP : ∀ b ∈ s.books, Sorted Part.key b.parts) : KeepsPaid s s' := by
  intro b hb p hp hs
  obtain ⟨b', hb', hx⟩ := h.fwd b hb
  have hg := Book.mem_getPart (hsP b hb) hp
  obtain ⟨p', hp'⟩ := hx.gp' p.idx p hg
  rcases hx.gp p.idx p' hp' with ⟨p0, hp0, _, e⟩ | ⟨hn, _, _⟩
  · rw [hg] at hp0
    cases hp0
    rw [e hs] at hp'
    exact ⟨b', hb', hx.uid, (Book.getPart_mem hp').1⟩
  · rw [hg] at hn; cases hn

/-- no participation becomes paid: a paid record of the new state is a record of the old state -/
theorem StStep.noNew {s s' : State} (h : StStep s s') (hsP : ∀ b ∈ s'.books, Sorted Part.key b.parts) :
    ∀ b' ∈ s'.books, ∀ p' ∈ b'.parts, p'.isSettled = true → ∃ b ∈ s.books, b.uid = b'.uid ∧ p' ∈ b.parts := by
  intro b' hb' p' hp' hs
  have hg := Book.mem_getPart (hsP b' hb') hp'
  rcases h.bwd b' hb' with ⟨hn, _⟩ | ⟨b, hb, hx⟩
  · rw [hn _ _ hg] at hs; cases hs
  · rcases hx.gp p'.idx p' hg with ⟨p0, hp0, e1, e2⟩ | ⟨_, hu, _⟩
    · rw [e2 (by rw [← e1]; exact hs)]
      exact ⟨b, hb, hx.uid.symm, (Book.getPart_mem hp0).1⟩
    · rw [hu] at hs; cases hs

theorem StStep.paidInv {s s' : State} (h : StStep s s') (hP : PaidInv s) (hsP : ∀ b ∈ s'.books, Sorted Part.key b.parts) :
    PaidInv s' := by
  intro b' hb' hst p' hp'
  have hg := Book.mem_getPart (hsP b' hb') hp'
  rcases h.bwd b' hb' with ⟨_, hn⟩ | ⟨b, hb, hx⟩
  · exact absurd hst hn
  · have hbs := hx.st hst
    rcases hx.gp p'.idx p' hg with ⟨p0, hp0, e1, _⟩ | ⟨_, _, ha⟩
    · rw [e1]; exact hP b hb hbs p0 (Book.getPart_mem hp0).1
    · rw [hbs] at ha; cases ha

end Sge.Core
