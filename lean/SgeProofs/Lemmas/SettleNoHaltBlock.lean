/-
  C05 "block processing never aborts", part 2: from one bet / one participation to the whole end-block.
  `Safe s` = reachable-state invariants + well-formedness + solvency; every stage of the two end-blockers succeeds
  in a safe state and ends in a safe state.
-/
import SgeProofs.Lemmas.SettleNoHalt
namespace Sge.Core
open Sge Sge.Genesis

/-- the invariants of reachable states, well-formedness and solvency -/
structure Safe (s : State) : Prop where
  reach : Reach s
  wf : HInv s
  solv : Solvent s

/-- the queue invariant only reads the queues, the book statuses and the markets -/
theorem SbQInv.of_frame {s s' : State} (hQ : SbQInv s) (h1 : s'.mqueue = s.mqueue) (h2 : s'.obqueue = s.obqueue)
    (h3 : ∀ u, statusOf s' u = statusOf s u) (h4 : s'.markets = s.markets) : SbQInv s' :=
  ⟨by rw [h1]; exact hQ.nodupM, by rw [h2]; exact hQ.nodupO,
   fun u hu => by rw [h3]; exact hQ.mActive u (by rw [← h1]; exact hu),
   fun u hu => by rw [h3]; exact hQ.oResolved u (by rw [← h2]; exact hu),
   fun u m hm ho => by rw [h3]; exact hQ.openActive u m (by rw [← getMarket_congr h4]; exact hm) ho⟩

theorem settleBet_safe {s s' : State} {c u : Nat} (hS : Safe s) (h : settleBet s c u = some s') : Safe s' := by
  obtain ⟨f1, f2, f3, _⟩ := settleBet_frame hS.reach.inv.sortedParts h
  obtain ⟨k1, k2⟩ := settleBet_keeps hS.reach.inv hS.wf hS.solv h
  exact ⟨⟨(settleBet_good hS.reach.idx h).1, settleBet_inv hS.reach.inv h,
    hS.reach.q.of_frame f2 f3 (fun u => (f1 u).1) (settleBet_markets h)⟩, k1, k2⟩

-- ---------------------------------------------------------------------------------------------
-- the bet end-blocker

/-- a page of pending entries of queued markets is settled without error -/
theorem settlePage_ok : ∀ (page : List (Nat × Nat × Nat × Nat)) (s : State), Safe s →
    (∀ x ∈ page, x ∈ s.pending ∧ x.1 ∈ s.mqueue) → page.Pairwise (fun a b => (ikey a == ikey b) = false) →
    ∃ r, settlePage s page = some r ∧ Safe r.1 ∧ r.1.mqueue = s.mqueue := by
  intro page
  induction page with
  | nil => intro s hS _ _; exact ⟨(s, 0), rfl, hS, rfl⟩
  | cons x rest ih =>
    intro s hS hin hpw
    rw [List.pairwise_cons] at hpw
    obtain ⟨hx, hxq⟩ := hin x (List.mem_cons_self ..)
    obtain ⟨s1, h1⟩ := settleBet_succeeds hS.reach.idx hS.reach.inv hS.reach.q hS.wf hS.solv x hx hxq
    have hS1 := settleBet_safe hS h1
    have hmq := settleBet_mqueue h1
    have hp1 := settleBet_pending hS.reach.idx x hx h1
    have hin1 : ∀ y ∈ rest, y ∈ s1.pending ∧ y.1 ∈ s1.mqueue := by
      intro y hy
      obtain ⟨a, b⟩ := hin y (List.mem_cons_of_mem _ hy)
      refine ⟨?_, by rw [hmq]; exact b⟩
      rw [hp1]
      refine (mem_remove_iff ikey (ikey x) y s.pending).mpr ⟨a, ?_⟩
      have := hpw.1 y hy
      cases hc : ikey y == ikey x
      · rfl
      · have e : ikey y = ikey x := by simpa using hc
        rw [e] at this; simp at this
    obtain ⟨r1, hr1, hS2, hmq2⟩ := ih s1 hS1 hin1 hpw.2
    refine ⟨(r1.1, r1.2 + 1), ?_, hS2, hmq2.trans hmq⟩
    unfold settlePage
    simp only [bind, Option.bind_eq_some_iff, pure, Option.some.injEq]
    exact ⟨s1, h1, r1, hr1, rfl⟩

/-- replacing one book by a copy in which no participation disappears and every participation is an old one or paid
    (bets and markets untouched) keeps well-formedness and solvency -/
theorem replaceBook_keeps {s s' : State} {b B : Book} (hH : HInv s) (hV : Solvent s) (hb : getBook s B.uid = some b)
    (hbooks : s'.books = upsert Book.key B s.books) (hbets : s'.bets = s.bets) (hmk : s'.markets = s.markets)
    (hk : KeepsParts b B) (hparts : ∀ p' ∈ B.parts, p' ∈ b.parts ∨ p'.isSettled = true) : HInv s' ∧ Solvent s' := by
  obtain ⟨hbm, hbu⟩ := getBook_mem hb
  have hprom : ∀ u i, promisedW s' u i = promisedW s u i := by
    intro u i
    unfold promisedW
    rw [hbets]
    exact sumBy_congrSB _ _ _ (fun x _ => by rw [winsOn_congr hmk])
  refine ⟨⟨by rw [hbets]; exact hH.betStatus, by rw [hmk]; exact hH.marketStatus, ?_⟩, ⟨by rw [hbets]; exact hV.betNonneg, ?_⟩⟩
  · intro y hy ho f hf
    rw [hbets] at hy
    obtain ⟨b0, p, h1, h2⟩ := hH.fulfParts y hy ho f hf
    by_cases hu : B.uid = y.market
    · rw [← hu, hb] at h1; cases h1
      have := hk f.idx (by rw [h2]; rfl)
      obtain ⟨p', hp'⟩ := Option.isSome_iff_exists.mp this
      refine ⟨B, p', ?_, hp'⟩
      unfold getBook; rw [hbooks, ← hu]
      exact lookup_upsert_self Book.key B s.books
    · refine ⟨b0, p, ?_, h2⟩
      unfold getBook; rw [hbooks]
      rw [lookup_upsert_ne Book.key B [y.market] s.books (by simp [Book.key, hu])]
      exact h1
  · intro b' hb' p' hp' hun
    rw [hbooks] at hb'
    rw [hprom]
    rcases mem_upsert_or Book.key B b' s.books hb' with rfl | hin
    · rcases hparts p' hp' with h | h
      · have := hV.partCover b hbm p' h hun
        rw [hbu] at this
        exact this
      · rw [h] at hun; cases hun
    · exact hV.partCover b' hin p' hp' hun

/-- one iteration of BatchMarketSettlements on the head of the market queue succeeds -/
theorem betEndBlockStep_ok {s : State} {mk n : Nat} {R : List Nat} (hS : Safe s) (hq : s.mqueue = mk :: R) :
    ∃ r, betEndBlockStep s mk n = some r ∧ Safe r.1 := by
  have hsub : ((s.pending.filter (fun x => x.1 == mk)).take n).Sublist s.pending :=
    (List.take_sublist _ _).trans List.filter_sublist
  have hpw : ((s.pending.filter (fun x => x.1 == mk)).take n).Pairwise (fun a b => (ikey a == ikey b) = false) := by
    have := hS.reach.idx.sPend
    unfold Sorted at this
    exact (List.Pairwise.sublist hsub this).imp (fun {a b} hab => ltL_ne _ _ hab)
  have hin : ∀ x ∈ (s.pending.filter (fun x => x.1 == mk)).take n, x ∈ s.pending ∧ x.1 ∈ s.mqueue := by
    intro x hx
    have h1 := List.mem_filter.mp (List.mem_of_mem_take hx)
    have e : x.1 = mk := by simpa using h1.2
    exact ⟨h1.1, by rw [e, hq]; exact List.mem_cons_self ..⟩
  obtain ⟨r0, h0, hS0, hmq0⟩ := settlePage_ok _ s hS hin hpw
  have hnd := hS.reach.q.nodupM
  rw [hq, List.nodup_cons] at hnd
  by_cases hany : r0.1.pending.any (fun x => x.1 == mk) = true
  · refine ⟨r0, ?_, hS0⟩
    unfold betEndBlockStep
    simp only [bind, Option.bind_eq_some_iff]
    exact ⟨r0, h0, by rw [if_pos hany]; rfl⟩
  · -- the market is finished: it leaves the queue and its book is marked RESOLVED
    have hmk0 : mk ∈ r0.1.mqueue := by rw [hmq0, hq]; exact List.mem_cons_self ..
    obtain ⟨b, hb, hact⟩ := statusOf_some (hS0.reach.q.mActive mk hmk0)
    have hgo : goRemove r0.1.mqueue mk = some R := by rw [hmq0, hq]; exact goRemove_head mk R hnd.1
    have hbr : bookResolved { r0.1 with mqueue := R } mk =
        some { (setBook { r0.1 with mqueue := R } { b with status := OB_RESOLVED }) with obqueue := r0.1.obqueue ++ [mk] } := by
      unfold bookResolved
      simp only [bind, Option.bind_eq_some_iff, pure, Option.some.injEq]
      exact ⟨b, hb, (), chk_true (by rw [hact]; rfl), rfl⟩
    have hstep : betEndBlockStep s mk n =
        some ({ (setBook { r0.1 with mqueue := R } { b with status := OB_RESOLVED }) with obqueue := r0.1.obqueue ++ [mk] }, r0.2) := by
      unfold betEndBlockStep
      simp only [bind, Option.bind_eq_some_iff]
      refine ⟨r0, h0, ?_⟩
      rw [if_neg hany]
      simp only [Option.bind_eq_some_iff, pure, Option.some.injEq]
      exact ⟨R, hgo, _, hbr, rfl⟩
    refine ⟨_, hstep, ?_⟩
    obtain ⟨_, hbu⟩ := getBook_mem hb
    have hI' := (betEndBlockStep_good hS.reach.idx hstep).1
    have hS' := betEndBlockStep_inv hS.reach.inv (by rw [hq]; exact List.mem_cons_self ..) hstep
    have hst : ∀ u, statusOf ({ (setBook { r0.1 with mqueue := R } { b with status := OB_RESOLVED }) with obqueue := r0.1.obqueue ++ [mk] } : State) u =
        if u = mk then some OB_RESOLVED else statusOf r0.1 u := by
      intro u
      have := statusOf_setBook { r0.1 with mqueue := R } { b with status := OB_RESOLVED } u
      refine Eq.trans this ?_
      show (if u = b.uid then _ else _) = _
      rw [hbu]
      rfl
    have hQ' : SbQInv ({ (setBook { r0.1 with mqueue := R } { b with status := OB_RESOLVED }) with obqueue := r0.1.obqueue ++ [mk] } : State) := by
      refine qinv_after_bet (D1 := [mk]) hS0.reach.inv hS0.reach.q (by rw [hmq0, hq]; rfl) rfl ?_ ?_ rfl
      · intro u hu
        rw [hst]
        have : u ≠ mk := fun e => hu (List.mem_singleton.mpr e)
        simp [this]
      · intro u hu
        rw [hst, List.mem_singleton.mp hu]
        simp
    obtain ⟨k1, k2⟩ := replaceBook_keeps (s := r0.1)
      (s' := { (setBook { r0.1 with mqueue := R } { b with status := OB_RESOLVED }) with obqueue := r0.1.obqueue ++ [mk] })
      (B := { b with status := OB_RESOLVED }) hS0.wf hS0.solv
      (by show getBook r0.1 b.uid = some b; rw [hbu]; exact hb) rfl rfl rfl (KeepsParts.refl b) (fun p hp => Or.inl hp)
    exact ⟨⟨hI', hS', hQ'⟩, k1, k2⟩

/-- BatchMarketSettlements succeeds -/
theorem betEndBlock_ok : ∀ (fuel : Nat) (s : State) (n : Nat), Safe s → ∃ s', betEndBlock fuel s n = some s' ∧ Safe s' := by
  intro fuel
  induction fuel with
  | zero => intro s n hS; exact ⟨s, rfl, hS⟩
  | succ fuel ih =>
    intro s n hS
    unfold betEndBlock
    by_cases hn : n = 0
    · exact ⟨s, by rw [if_pos hn], hS⟩
    · rw [if_neg hn]
      cases hq : s.mqueue with
      | nil => exact ⟨s, rfl, hS⟩
      | cons mk R =>
        obtain ⟨r, hr, hSr⟩ := betEndBlockStep_ok (n := n) hS hq
        obtain ⟨s', hs', hS'⟩ := ih r.1 (n - r.2) hSr
        refine ⟨s', ?_, hS'⟩
        simp only [bind, Option.bind_eq_some_iff]
        exact ⟨r, hr, hs'⟩

-- ---------------------------------------------------------------------------------------------
-- the order-book end-blocker

/-- settleParticipation succeeds when the market has a resolved status and both pay-outs (what the participation
    is owed from the pool, its fee from the house-fee collector) are non-negative amounts the paying account holds -/
theorem settlePart_ok {s : State} {b : Book} {p : Part} {m : Market} (hun : p.isSettled = false)
    (hst : m.status = MS_CANCELED ∨ m.status = MS_ABORTED ∨ m.status = MS_DECLARED)
    (hpay : p.payout m = p.owed) (h0 : 0 ≤ p.owed) (h1 : p.owed ≤ getBal s.bal ACC_POOL)
    (hf0 : 0 ≤ p.fee) (hf1 : p.fee ≤ getBal s.bal ACC_HOUSEFEE) (hpu : isModuleAcc p.addr = false) :
    ∃ r, settlePart s b p m = some r := by
  obtain ⟨n1, _, n3⟩ := isModuleAcc_false_ne hpu
  obtain ⟨s1, hs1⟩ := bankSend_okSB s ACC_POOL p.addr (p.payout m) (by rw [hpay]; exact h0) (by rw [hpay]; exact h1)
  obtain ⟨bal1, rfl, _, _, _, o1⟩ := bankSend_spec hs1 (Ne.symm n1)
  have hfee : p.fee ≤ getBal ({ s with bal := bal1 } : State).bal ACC_HOUSEFEE := by
    show p.fee ≤ getBal bal1 ACC_HOUSEFEE
    rw [o1 ACC_HOUSEFEE (by decide) (Ne.symm n3)]; exact hf1
  have hchk : chk (m.status == MS_DECLARED || m.status == MS_CANCELED || m.status == MS_ABORTED) = some () := by
    apply chk_true
    rcases hst with h | h | h <;> rw [h] <;> rfl
  have hchk0 : chk (!p.isSettled) = some () := chk_true (by rw [hun]; rfl)
  unfold settlePart
  simp only [bind, hchk0, hchk, hs1, Option.bind_some]
  by_cases hfd : p.feeToDepositor m = true
  · obtain ⟨s2, hs2⟩ := bankSend_okSB { s with bal := bal1 } ACC_HOUSEFEE p.addr p.fee hf0 hfee
    rw [if_pos hfd]
    simp only [hs2, Option.bind_some]
    exact ⟨_, rfl⟩
  · obtain ⟨s2, hs2⟩ := bankSend_okSB { s with bal := bal1 } ACC_HOUSEFEE m.creator p.fee hf0 hfee
    rw [if_neg hfd]
    simp only [hs2, Option.bind_some]
    exact ⟨_, rfl⟩

/-- the participation loop only pays: afterwards every participation of the book is an old one or paid, and none has
    disappeared -/
theorem settleParts_parts (m : Market) (count : Nat) : ∀ (ps : List Part) (s : State) (b : Book) (sc pr : Nat)
    (r : State × Book × Nat × Nat), settleParts m count ps s b sc pr = some r →
    (∀ q' ∈ r.2.1.parts, q' ∈ b.parts ∨ q'.isSettled = true) ∧ KeepsParts b r.2.1 := by
  intro ps
  induction ps with
  | nil =>
    intro s b sc pr r h
    simp only [settleParts, Option.some.injEq] at h
    subst h
    exact ⟨fun q hq => Or.inl hq, KeepsParts.refl b⟩
  | cons p rest ih =>
    intro s b sc pr r h
    unfold settleParts at h
    simp only [bind, Option.bind_eq_some_iff] at h
    obtain ⟨r1, h1, h⟩ := h
    have hstep : (∀ q' ∈ r1.2.1.parts, q' ∈ b.parts ∨ q'.isSettled = true) ∧ KeepsParts b r1.2.1 := by
      rcases settleOne_shape h1 with ⟨_, rfl⟩ | ⟨_, bal, p', rfl, _, hpaid⟩
      · exact ⟨fun q hq => Or.inl hq, KeepsParts.refl b⟩
      · refine ⟨?_, setPart_keeps b p'⟩
        intro q hq
        rcases mem_upsert_or Part.key p' q b.parts hq with rfl | hq
        · exact Or.inr hpaid
        · exact Or.inl hq
    split at h
    · simp only [pure, Option.some.injEq] at h
      subst h
      exact hstep
    · obtain ⟨a1, a2⟩ := ih _ _ _ _ _ h
      refine ⟨?_, hstep.2.trans a2⟩
      intro q hq
      rcases a1 q hq with h' | h'
      · exact hstep.1 q h'
      · exact Or.inr h'

/-- the participation loop succeeds when what the book owes (liquidity ± realised profit, fees) is covered by the pool
    and the house-fee collector and no participation is owed a negative amount -/
theorem settleParts_ok (m : Market) (count : Nat) (hmu : isModuleAcc m.creator = false)
    (hst : m.status = MS_CANCELED ∨ m.status = MS_ABORTED ∨ m.status = MS_DECLARED) :
    ∀ (ps : List Part) (s : State) (b : Book) (sc pr : Nat),
    Sorted Part.key b.parts → Sorted Part.key ps → (∀ q ∈ ps, b.getPart q.idx = some q) →
    (∀ q ∈ ps, isModuleAcc q.addr = false) → (∀ q ∈ ps, m.status ≠ MS_DECLARED → q.actualProfit = 0) →
    (∀ q ∈ b.parts, 0 ≤ q.owed ∧ 0 ≤ q.owedFee) →
    b.owed ≤ getBal s.bal ACC_POOL → b.owedFee ≤ getBal s.bal ACC_HOUSEFEE →
    ∃ r, settleParts m count ps s b sc pr = some r := by
  intro ps
  induction ps with
  | nil => intro s b sc pr _ _ _ _ _ _ _ _; exact ⟨_, rfl⟩
  | cons p rest ih =>
    intro s b sc pr hs hps hget hpu hap hnn e1 e2
    have hps' := hps
    unfold Sorted at hps'
    rw [List.pairwise_cons] at hps'
    have hp := hget p (List.mem_cons_self ..)
    have hpm : p ∈ b.parts := getPart_mem hp
    -- one step
    have hone : ∃ r1, settleOne s b p m sc = some r1 := by
      unfold settleOne
      cases hun : p.isSettled
      · have hpay : p.payout m = p.owed := by
          unfold Part.payout Part.owed
          rw [hun]
          simp only [Bool.false_eq_true, if_false]
          split
          · rfl
          · rename_i hd
            have : m.status ≠ MS_DECLARED := by simpa using hd
            rw [hap p (List.mem_cons_self ..) this]; omega
        have ho : p.owed ≤ b.owed := sumBy_mem_le Part.owed b.parts (fun q hq => (hnn q hq).1) p hpm
        have hof : p.owedFee ≤ b.owedFee := sumBy_mem_le Part.owedFee b.parts (fun q hq => (hnn q hq).2) p hpm
        have hfee : p.owedFee = p.fee := by unfold Part.owedFee; rw [hun]; rfl
        obtain ⟨r, hr⟩ := settlePart_ok (s := s) (b := b) (m := m) hun hst hpay (hnn p hpm).1 (by omega)
          (by rw [← hfee]; exact (hnn p hpm).2) (by rw [← hfee]; omega) (hpu p (List.mem_cons_self ..))
        exact ⟨(r.1, r.2, sc + 1), by simp [hr]⟩
      · exact ⟨(s, b, sc), by simp⟩
    obtain ⟨r1, h1⟩ := hone
    obtain ⟨⟨⟨bal, hs1, c1, c2, _⟩, _, _, hsort, _⟩, hoth⟩ := settleOne_spec h1 hs hp (hpu p (List.mem_cons_self ..)) hmu
      (hap p (List.mem_cons_self ..))
    have hnn1 : ∀ q ∈ r1.2.1.parts, 0 ≤ q.owed ∧ 0 ≤ q.owedFee := by
      intro q hq
      rcases settleOne_shape h1 with ⟨_, e⟩ | ⟨_, bal', p', e, _, hpaid⟩
      · rw [e] at hq; exact hnn q hq
      · rw [e] at hq
        rcases mem_upsert_or Part.key p' q b.parts hq with rfl | hq
        · unfold Part.owed Part.owedFee; rw [hpaid]; simp
        · exact hnn q hq
    unfold settleParts
    simp only [bind, Option.bind_eq_some_iff]
    by_cases hge : r1.2.2 ≥ count
    · exact ⟨_, r1, h1, by rw [if_pos hge]; rfl⟩
    · have hrec := ih r1.1 r1.2.1 r1.2.2 (pr + 1) hsort hps'.2
        (by
          intro q hq
          rw [hoth q.idx]
          · exact hget q (List.mem_cons_of_mem _ hq)
          · intro e
            have hlt := hps'.1 q hq
            have := ltL_ne _ _ hlt
            simp [Part.key, e] at this)
        (fun q hq => hpu q (List.mem_cons_of_mem _ hq)) (fun q hq => hap q (List.mem_cons_of_mem _ hq)) hnn1
        (by rw [hs1]; show r1.2.1.owed ≤ getBal bal ACC_POOL; omega)
        (by rw [hs1]; show r1.2.1.owedFee ≤ getBal bal ACC_HOUSEFEE; omega)
      obtain ⟨r, hr⟩ := hrec
      exact ⟨r, r1, h1, by rw [if_neg hge]; exact hr⟩

/-- unfolding one iteration of BatchOrderBookSettlements in which the head book is finished -/
theorem obEndBlock_unfold_fin (fuel : Nat) {s s1 : State} {n uid sc pr : Nat} {b b1 : Book} {m : Market} {R : List Nat}
    (hn : n ≠ 0) (hq : s.obqueue[0]? = some uid) (hb : getBook s uid = some b) (hm : getMarket s uid = some m)
    (hres : b.status = OB_RESOLVED) (hr : settleParts m n b.parts s b 0 0 = some (s1, b1, sc, pr))
    (hfin : (pr == b.parts.length) = true) (hgo : goRemove s1.obqueue uid = some R) :
    obEndBlock (fuel + 1) s n 0 =
      obEndBlock fuel (setBook { s1 with obqueue := R } { b1 with status := OB_SETTLED }) (n - sc) 0 := by
  have hchk : chk (b.status == OB_RESOLVED) = some () := chk_true (by rw [hres]; rfl)
  rw [obEndBlock]
  simp only [hn, if_false, hq, bind, hb, hm, hchk, hr, Option.bind_some, hfin, if_true, hgo]

/-- unfolding one iteration in which the budget is used up inside the head book -/
theorem obEndBlock_unfold_rest (fuel : Nat) {s s1 : State} {n uid sc pr : Nat} {b b1 : Book} {m : Market}
    (hn : n ≠ 0) (hq : s.obqueue[0]? = some uid) (hb : getBook s uid = some b) (hm : getMarket s uid = some m)
    (hres : b.status = OB_RESOLVED) (hr : settleParts m n b.parts s b 0 0 = some (s1, b1, sc, pr))
    (hfin : ¬ (pr == b.parts.length) = true) :
    obEndBlock (fuel + 1) s n 0 = obEndBlock fuel (setBook s1 b1) (n - sc) (0 + 1) := by
  have hchk : chk (b.status == OB_RESOLVED) = some () := chk_true (by rw [hres]; rfl)
  rw [obEndBlock]
  simp only [hn, if_false, hq, bind, hb, hm, hchk, hr, Option.bind_some, hfin, Bool.false_eq_true]

/-- BatchOrderBookSettlements succeeds -/
theorem obEndBlock_ok : ∀ (fuel : Nat) (s : State) (n : Nat), Safe s → ∃ s', obEndBlock fuel s n 0 = some s' ∧ Safe s' := by
  intro fuel
  induction fuel with
  | zero => intro s n hS; exact ⟨s, rfl, hS⟩
  | succ fuel ih =>
    intro s n hS
    by_cases hn : n = 0
    · exact ⟨s, by rw [hn, obEndBlock_zero], hS⟩
    · cases hq : s.obqueue[0]? with
      | none => exact ⟨s, by rw [obEndBlock]; simp only [hn, if_false, hq], hS⟩
      | some uid =>
        obtain ⟨R, hqR⟩ := getElem?_zero_some hq
        have hI := hS.reach.inv
        have huq : uid ∈ s.obqueue := by rw [hqR]; exact List.mem_cons_self ..
        obtain ⟨b, hb, hres⟩ := statusOf_some (hS.reach.q.oResolved uid huq)
        obtain ⟨hbm, hbu⟩ := getBook_mem hb
        have hna : b.status ≠ OB_ACTIVE := by rw [hres]; decide
        obtain ⟨m, hm, hmr⟩ := hI.closedResolved b hbm hna
        rw [hbu] at hm
        have hst := resolved_status hS.wf hm hmr
        have hsb := hI.sortedParts b hbm
        have hnd := hS.reach.q.nodupO
        rw [hqR, List.nodup_cons] at hnd
        -- what the book owes is in the pool / the house-fee collector
        have e1 : b.owed ≤ getBal s.bal ACC_POOL := by
          rw [hI.pool]
          unfold owedPool
          have h1 := sumBy_mem_le Book.owed s.books (fun x hx => (hS.solv.book_nonneg x hx).1) b hbm
          have h2 := sumBy_nonnegSB Bet.owedStake s.bets (fun x hx => (hS.solv.stake_nonneg x hx).1)
          omega
        have e2 : b.owedFee ≤ getBal s.bal ACC_HOUSEFEE := by
          rw [hI.houseFee]
          exact sumBy_mem_le Book.owedFee s.books (fun x hx => (hS.solv.book_nonneg x hx).2) b hbm
        obtain ⟨r, hr⟩ := settleParts_ok m n (hI.creatorsUser m (getMarket_mem hm)) hst b.parts s b 0 0 hsb hsb
          (fun q hq => lookup_of_mem_sorted Part.key q b.parts hsb hq) (hI.partsUser b hbm)
          (by
            intro q hq hnd'
            by_cases e : q.actualProfit = 0
            · exact e
            · obtain ⟨m', hm', hd⟩ := hI.profitDeclared b hbm q hq e
              rw [hbu, hm] at hm'
              cases hm'
              exact absurd hd hnd')
          (fun q hq => hS.solv.owed_nonneg b hbm q hq) e1 e2
        obtain ⟨s1, b1, sc, pr⟩ := r
        have hc := settleParts_count m n b.parts s b 0 0 (s1, b1, sc, pr) hr hsb hsb
          (fun q hq => lookup_of_mem_sorted Part.key q b.parts hsb hq) (by omega)
        obtain ⟨hparts, hkeep⟩ := settleParts_parts m n b.parts s b 0 0 (s1, b1, sc, pr) hr
        dsimp only at hc hparts hkeep
        obtain ⟨⟨bal, a1⟩, a2, a3, a4, _, _, _, a8⟩ := hc
        subst a1
        by_cases hfin : (pr == b.parts.length) = true
        · -- the book is finished
          have hgo : goRemove ({ s with bal := bal } : State).obqueue uid = some R := by
            show goRemove s.obqueue uid = some R
            rw [hqR]; exact goRemove_head uid R hnd.1
          have hunf := fun f => obEndBlock_unfold_fin f hn hq hb hm hres hr hfin hgo
          generalize hS1 : setBook { ({ s with bal := bal } : State) with obqueue := R } { b1 with status := OB_SETTLED } = S1 at hunf
          have hone : obEndBlock 1 s n 0 = some S1 := by rw [hunf 0]; rfl
          have hst1 : ∀ u, statusOf S1 u = if u = uid then some OB_SETTLED else statusOf s u := by
            intro u
            rw [← hS1]
            have := statusOf_setBook { ({ s with bal := bal } : State) with obqueue := R } { b1 with status := OB_SETTLED } u
            rw [this]
            show (if u = b1.uid then _ else _) = _
            rw [a2, hbu]
            rfl
          have hSafe : Safe S1 := by
            have hIdx : BetIdx S1 := hS.reach.idx.of_eq (by rw [← hS1]; rfl) (by rw [← hS1]; rfl) (by rw [← hS1]; rfl) (by rw [← hS1]; rfl)
            have hInv : SettleInv S1 := obEndBlock_inv 1 s n 0 S1 hI hone
            have hQ : SbQInv S1 := by
              refine qinv_after_ob (D2 := [uid]) hS.reach.q (by rw [← hS1]; exact hqR) (by rw [← hS1]; rfl) ?_ ?_ (by rw [← hS1]; rfl)
              · intro u hu
                rw [hst1]
                have : u ≠ uid := fun e => hu (List.mem_singleton.mpr e)
                simp [this]
              · intro u hu
                rw [List.mem_singleton.mp hu]
                exact hS.reach.q.oResolved uid huq
            obtain ⟨k1, k2⟩ := replaceBook_keeps (s := s) (s' := S1) (B := { b1 with status := OB_SETTLED }) hS.wf hS.solv
              (by show getBook s b1.uid = some b; rw [a2, hbu]; exact hb) (by rw [← hS1]; rfl) (by rw [← hS1]; rfl)
              (by rw [← hS1]; rfl) hkeep hparts
            exact ⟨⟨hIdx, hInv, hQ⟩, k1, k2⟩
          obtain ⟨s', hs', hS'⟩ := ih S1 (n - sc) hSafe
          exact ⟨s', by rw [hunf fuel]; exact hs', hS'⟩
        · -- the budget is used up inside the book
          have hunf := fun f => obEndBlock_unfold_rest f hn hq hb hm hres hr hfin
          have hsc : sc = n := by
            rcases a8 with ⟨c, _⟩ | ⟨_, c⟩
            · exfalso; apply hfin; simp [c]
            · exact c
          generalize hS1 : setBook ({ s with bal := bal } : State) b1 = S1 at hunf
          have hone : obEndBlock 1 s n 0 = some S1 := by rw [hunf 0]; rfl
          have hSafe : Safe S1 := by
            have hIdx : BetIdx S1 := hS.reach.idx.of_eq (by rw [← hS1]; rfl) (by rw [← hS1]; rfl) (by rw [← hS1]; rfl) (by rw [← hS1]; rfl)
            have hInv : SettleInv S1 := obEndBlock_inv 1 s n 0 S1 hI hone
            have hQ : SbQInv S1 := by
              refine hS.reach.q.of_frame (by rw [← hS1]; rfl) (by rw [← hS1]; rfl) ?_ (by rw [← hS1]; rfl)
              intro u
              rw [← hS1, statusOf_setBook, a2, hbu]
              by_cases e : u = uid
              · subst e
                simp only [if_true]
                unfold statusOf
                rw [hb, a3]; rfl
              · simp only [e, if_false]; rfl
            obtain ⟨k1, k2⟩ := replaceBook_keeps (s := s) (s' := S1) (B := b1) hS.wf hS.solv
              (by rw [a2, hbu]; exact hb) (by rw [← hS1]; rfl) (by rw [← hS1]; rfl) (by rw [← hS1]; rfl) hkeep hparts
            exact ⟨⟨hIdx, hInv, hQ⟩, k1, k2⟩
          refine ⟨S1, ?_, hSafe⟩
          rw [hunf fuel, hsc, Nat.sub_self, obEndBlock_zero]

/-- C05: in a safe state — reachable, well formed, solvent — the end-block does not halt, and it ends in a safe state -/
theorem endBlockO_ok {s : State} (hS : Safe s) : ∃ s', endBlockO s = some s' ∧ Safe s' := by
  obtain ⟨s1, h1, hS1⟩ := betEndBlock_ok (s.mqueue.length + 1) s s.params.betBatch hS
  obtain ⟨s', h2, hS'⟩ := obEndBlock_ok (s1.obqueue.length + 1) s1 s.params.obBatch hS1
  refine ⟨s', ?_, hS'⟩
  unfold endBlockO
  simp only [bind, h1, Option.bind_some]
  exact h2

end Sge.Core
