/-
  C05 "block processing never aborts", part 2: from one bet / one participation to the whole end-block.
  `Safe s` = reachable-state invariants + well-formedness + solvency; every stage of the two end-blockers succeeds
  in a safe state and ends in a safe state.
-/
import SgeProofs.Lemmas.SettleNoHalt
namespace Sge.Core
open Sge Sge.Genesis

/-- the invariants of reachable states, well-formedness and solvency -/
structure Safe (s : State) : Prop where
  reach : Reach s
  wf : HInv s
  solv : Solvent s

/-- the queue invariant only reads the queues, the book statuses and the markets -/
theorem QInv.of_frame {s s' : State} (hQ : QInv s) (h1 : s'.mqueue = s.mqueue) (h2 : s'.obqueue = s.obqueue)
    (h3 : ∀ u, statusOf s' u = statusOf s u) (h4 : s'.markets = s.markets) : QInv s' :=
  ⟨by rw [h1]; exact hQ.nodupM, by rw [h2]; exact hQ.nodupO,
   fun u hu => by rw [h3]; exact hQ.mActive u (by rw [← h1]; exact hu),
   fun u hu => by rw [h3]; exact hQ.oResolved u (by rw [← h2]; exact hu),
   fun u m hm ho => by rw [h3]; exact hQ.openActive u m (by rw [← getMarket_congr h4]; exact hm) ho⟩

theorem settleBet_safe {s s' : State} {c u : Nat} (hS : Safe s) (h : settleBet s c u = some s') : Safe s' := by
  obtain ⟨f1, f2, f3, _⟩ := settleBet_frame hS.reach.inv.sortedParts h
  obtain ⟨k1, k2⟩ := settleBet_keeps hS.reach.inv hS.wf hS.solv h
  exact ⟨⟨(settleBet_good hS.reach.idx h).1, settleBet_inv hS.reach.inv h,
    hS.reach.q.of_frame f2 f3 (fun u => (f1 u).1) (settleBet_markets h)⟩, k1, k2⟩

-- ---------------------------------------------------------------------------------------------
-- the bet end-blocker

/-- a page of pending entries of queued markets is settled without error -/
theorem settlePage_ok : ∀ (page : List (Nat × Nat × Nat × Nat)) (s : State), Safe s →
    (∀ x ∈ page, x ∈ s.pending ∧ x.1 ∈ s.mqueue) → page.Pairwise (fun a b => (ikey a == ikey b) = false) →
    ∃ r, settlePage s page = some r ∧ Safe r.1 ∧ r.1.mqueue = s.mqueue := by
  intro page
  induction page with
  | nil => intro s hS _ _; exact ⟨(s, 0), rfl, hS, rfl⟩
  | cons x rest ih =>
    intro s hS hin hpw
    rw [List.pairwise_cons] at hpw
    obtain ⟨hx, hxq⟩ := hin x (List.mem_cons_self ..)
    obtain ⟨s1, h1⟩ := settleBet_succeeds hS.reach.idx hS.reach.inv hS.reach.q hS.wf hS.solv x hx hxq
    have hS1 := settleBet_safe hS h1
    have hmq := settleBet_mqueue h1
    have hp1 := settleBet_pending hS.reach.idx x hx h1
    have hin1 : ∀ y ∈ rest, y ∈ s1.pending ∧ y.1 ∈ s1.mqueue := by
      intro y hy
      obtain ⟨a, b⟩ := hin y (List.mem_cons_of_mem _ hy)
      refine ⟨?_, by rw [hmq]; exact b⟩
      rw [hp1]
      refine (mem_remove_iff ikey (ikey x) y s.pending).mpr ⟨a, ?_⟩
      have := hpw.1 y hy
      cases hc : ikey y == ikey x
      · rfl
      · have e : ikey y = ikey x := by simpa using hc
        rw [e] at this; simp at this
    obtain ⟨r1, hr1, hS2, hmq2⟩ := ih s1 hS1 hin1 hpw.2
    refine ⟨(r1.1, r1.2 + 1), ?_, hS2, hmq2.trans hmq⟩
    unfold settlePage
    simp only [bind, Option.bind_eq_some_iff, pure, Option.some.injEq]
    exact ⟨s1, h1, r1, hr1, rfl⟩

/-- replacing one book by a copy in which no participation disappears and every participation is an old one or paid
    (bets and markets untouched) keeps well-formedness and solvency -/
theorem replaceBook_keeps {s s' : State} {b B : Book} (hH : HInv s) (hV : Solvent s) (hb : getBook s B.uid = some b)
    (hbooks : s'.books = upsert Book.key B s.books) (hbets : s'.bets = s.bets) (hmk : s'.markets = s.markets)
    (hk : KeepsParts b B) (hparts : ∀ p' ∈ B.parts, p' ∈ b.parts ∨ p'.isSettled = true) : HInv s' ∧ Solvent s' := by
  obtain ⟨hbm, hbu⟩ := getBook_mem hb
  have hprom : ∀ u i, promisedW s' u i = promisedW s u i := by
    intro u i
    unfold promisedW
    rw [hbets]
    exact sumBy_congr _ _ _ (fun x _ => by rw [winsOn_congr hmk])
  refine ⟨⟨by rw [hbets]; exact hH.betStatus, by rw [hmk]; exact hH.marketStatus, ?_⟩, ⟨by rw [hbets]; exact hV.betNonneg, ?_⟩⟩
  · intro y hy ho f hf
    rw [hbets] at hy
    obtain ⟨b0, p, h1, h2⟩ := hH.fulfParts y hy ho f hf
    by_cases hu : B.uid = y.market
    · rw [← hu, hb] at h1; cases h1
      have := hk f.idx (by rw [h2]; rfl)
      obtain ⟨p', hp'⟩ := Option.isSome_iff_exists.mp this
      refine ⟨B, p', ?_, hp'⟩
      unfold getBook; rw [hbooks, ← hu]
      exact lookup_upsert_self Book.key B s.books
    · refine ⟨b0, p, ?_, h2⟩
      unfold getBook; rw [hbooks]
      rw [lookup_upsert_ne Book.key B [y.market] s.books (by simp [Book.key, hu])]
      exact h1
  · intro b' hb' p' hp' hun
    rw [hbooks] at hb'
    rw [hprom]
    rcases mem_upsert_or Book.key B b' s.books hb' with rfl | hin
    · rcases hparts p' hp' with h | h
      · have := hV.partCover b hbm p' h hun
        rw [hbu] at this
        exact this
      · rw [h] at hun; cases hun
    · exact hV.partCover b' hin p' hp' hun

/-- one iteration of BatchMarketSettlements on the head of the market queue succeeds -/
theorem betEndBlockStep_ok {s : State} {mk n : Nat} {R : List Nat} (hS : Safe s) (hq : s.mqueue = mk :: R) :
    ∃ r, betEndBlockStep s mk n = some r ∧ Safe r.1 := by
  have hsub : ((s.pending.filter (fun x => x.1 == mk)).take n).Sublist s.pending :=
    (List.take_sublist _ _).trans List.filter_sublist
  have hpw : ((s.pending.filter (fun x => x.1 == mk)).take n).Pairwise (fun a b => (ikey a == ikey b) = false) := by
    have := hS.reach.idx.sPend
    unfold Sorted at this
    exact (List.Pairwise.sublist hsub this).imp (fun {a b} hab => ltL_ne _ _ hab)
  have hin : ∀ x ∈ (s.pending.filter (fun x => x.1 == mk)).take n, x ∈ s.pending ∧ x.1 ∈ s.mqueue := by
    intro x hx
    have h1 := List.mem_filter.mp (List.mem_of_mem_take hx)
    have e : x.1 = mk := by simpa using h1.2
    exact ⟨h1.1, by rw [e, hq]; exact List.mem_cons_self ..⟩
  obtain ⟨r0, h0, hS0, hmq0⟩ := settlePage_ok _ s hS hin hpw
  have hnd := hS.reach.q.nodupM
  rw [hq, List.nodup_cons] at hnd
  by_cases hany : r0.1.pending.any (fun x => x.1 == mk) = true
  · refine ⟨r0, ?_, hS0⟩
    unfold betEndBlockStep
    simp only [bind, Option.bind_eq_some_iff]
    exact ⟨r0, h0, by rw [if_pos hany]; rfl⟩
  · -- the market is finished: it leaves the queue and its book is marked RESOLVED
    have hmk0 : mk ∈ r0.1.mqueue := by rw [hmq0, hq]; exact List.mem_cons_self ..
    obtain ⟨b, hb, hact⟩ := statusOf_some (hS0.reach.q.mActive mk hmk0)
    have hgo : goRemove r0.1.mqueue mk = some R := by rw [hmq0, hq]; exact goRemove_head mk R hnd.1
    have hbr : bookResolved { r0.1 with mqueue := R } mk =
        some { (setBook { r0.1 with mqueue := R } { b with status := OB_RESOLVED }) with obqueue := r0.1.obqueue ++ [mk] } := by
      unfold bookResolved
      simp only [bind, Option.bind_eq_some_iff, pure, Option.some.injEq]
      exact ⟨b, hb, (), chk_true (by rw [hact]; rfl), rfl⟩
    have hstep : betEndBlockStep s mk n =
        some ({ (setBook { r0.1 with mqueue := R } { b with status := OB_RESOLVED }) with obqueue := r0.1.obqueue ++ [mk] }, r0.2) := by
      unfold betEndBlockStep
      simp only [bind, Option.bind_eq_some_iff]
      refine ⟨r0, h0, ?_⟩
      rw [if_neg hany]
      simp only [Option.bind_eq_some_iff, pure, Option.some.injEq]
      exact ⟨R, hgo, _, hbr, rfl⟩
    refine ⟨_, hstep, ?_⟩
    obtain ⟨_, hbu⟩ := getBook_mem hb
    have hI' := (betEndBlockStep_good hS.reach.idx hstep).1
    have hS' := betEndBlockStep_inv hS.reach.inv (by rw [hq]; exact List.mem_cons_self ..) hstep
    have hst : ∀ u, statusOf ({ (setBook { r0.1 with mqueue := R } { b with status := OB_RESOLVED }) with obqueue := r0.1.obqueue ++ [mk] } : State) u =
        if u = mk then some OB_RESOLVED else statusOf r0.1 u := by
      intro u
      have := statusOf_setBook { r0.1 with mqueue := R } { b with status := OB_RESOLVED } u
      refine Eq.trans this ?_
      show (if u = b.uid then _ else _) = _
      rw [hbu]
      rfl
    have hQ' : QInv ({ (setBook { r0.1 with mqueue := R } { b with status := OB_RESOLVED }) with obqueue := r0.1.obqueue ++ [mk] } : State) := by
      refine qinv_after_bet (D1 := [mk]) hS0.reach.inv hS0.reach.q (by rw [hmq0, hq]; rfl) rfl ?_ ?_ rfl
      · intro u hu
        rw [hst]
        have : u ≠ mk := fun e => hu (List.mem_singleton.mpr e)
        simp [this]
      · intro u hu
        rw [hst, List.mem_singleton.mp hu]
        simp
    obtain ⟨k1, k2⟩ := replaceBook_keeps (s := r0.1)
      (s' := { (setBook { r0.1 with mqueue := R } { b with status := OB_RESOLVED }) with obqueue := r0.1.obqueue ++ [mk] })
      (B := { b with status := OB_RESOLVED }) hS0.wf hS0.solv
      (by show getBook r0.1 b.uid = some b; rw [hbu]; exact hb) rfl rfl rfl (KeepsParts.refl b) (fun p hp => Or.inl hp)
    exact ⟨⟨hI', hS', hQ'⟩, k1, k2⟩

/-- BatchMarketSettlements succeeds -/
theorem betEndBlock_ok : ∀ (fuel : Nat) (s : State) (n : Nat), Safe s → ∃ s', betEndBlock fuel s n = some s' ∧ Safe s' := by
  intro fuel
  induction fuel with
  | zero => intro s n hS; exact ⟨s, rfl, hS⟩
  | succ fuel ih =>
    intro s n hS
    unfold betEndBlock
    by_cases hn : n = 0
    · exact ⟨s, by rw [if_pos hn], hS⟩
    · rw [if_neg hn]
      cases hq : s.mqueue with
      | nil => exact ⟨s, rfl, hS⟩
      | cons mk R =>
        obtain ⟨r, hr, hSr⟩ := betEndBlockStep_ok (n := n) hS hq
        obtain ⟨s', hs', hS'⟩ := ih r.1 (n - r.2) hSr
        refine ⟨s', ?_, hS'⟩
        simp only [bind, Option.bind_eq_some_iff]
        exact ⟨r, hr, hs'⟩

end Sge.Core
