/-
  Kernel tie: `Pool.CheckBalance` (x/reward/types/pool.go) = the pool test of the model's reward distribution.
-/
import Sge.Gen.Kernels
import SgeProofs.Lemmas.KernelsTie
import Sge.Reward
namespace Sge.KernelsTie
open Sge Sge.Reward Sge.Gen.Kernels

/-- `CheckBalance` of the Go source fails exactly when the model's test `pool.avail < toSpend` holds. -/
theorem krn_tie_PoolCheckBalance (p : Pool) (toSpend : Int) :
    reward_Pool_CheckBalance p.total p.spent p.withdrawn toSpend = if p.avail < toSpend then none else some () := by
  unfold reward_Pool_CheckBalance reward_Pool_AvailableAmount Pool.avail
  krn_close

example : reward_Pool_CheckBalance 100 20 30 50 = some () ∧ reward_Pool_CheckBalance 100 20 30 51 = none := by
  decide +kernel

end Sge.KernelsTie
