/-
  Kernel tie: `Deposit.CalcHouseParticipationFeeAmount` (x/house/types/deposit.go), translated from the Go AST into
  `Sge.Gen.Kernels.house_Deposit_CalcHouseParticipationFeeAmount`, equals the fee expression of the model's
  `houseDepositO` (lean/Sge/Core/Chain.lean) for all inputs.
-/
import Sge.Gen.Kernels
import SgeProofs.Lemmas.KernelsTie
import SgeProofs.Properties.C17
namespace Sge.KernelsTie
open Sge Sge.Core Sge.Gen.Kernels

/-- The house participation fee of the Go source is the model's: fee% · amount, rounded half to even. -/
theorem krn_tie_HouseFee (fee : Dec) (amount : Int) :
    house_Deposit_CalcHouseParticipationFeeAmount amount fee = (fee.mulInt amount).roundInt := by
  first
    | rfl
    | (unfold house_Deposit_CalcHouseParticipationFeeAmount; krn_close)

/-- Handler level: the participation stored by a successful `MsgDeposit` of the model carries exactly the fee the
    translated Go kernel computes, and liquidity = amount − that fee. -/
theorem krn_tie_HouseFee_handler {s : State} {r : State × Nat} {c : Nat} {tk : Tk} {m : Nat} {a : Int} {pd : Nat}
    (hv : s.params.valid = true) (h : houseDepositO s c tk m a pd = some r) :
    ∃ b part, getBook r.1 m = some b ∧ b.getPart r.2 = some part ∧
      part.fee = house_Deposit_CalcHouseParticipationFeeAmount a s.params.houseFee ∧
      part.liq = a - house_Deposit_CalcHouseParticipationFeeAmount a s.params.houseFee := by
  obtain ⟨_, _, b, part, h1, h2, h3, h4, _⟩ := Params.c17_core_deposit_fee hv h
  exact ⟨b, part, h1, h2, by rw [krn_tie_HouseFee]; exact h4, by rw [krn_tie_HouseFee]; exact h3⟩

/-- 10 % of 1005 is 100.5 and rounds to the even 100; 10 % of 1015 is 101.5 and rounds to the even 102. -/
example : house_Deposit_CalcHouseParticipationFeeAmount 1005 ⟨100000000000000000⟩ = 100 ∧
    house_Deposit_CalcHouseParticipationFeeAmount 1015 ⟨100000000000000000⟩ = 102 := by decide +kernel

end Sge.KernelsTie
