/-
  Kernel tie: `AccountSummary.Spend` (x/subaccount/types/accsummary.go) = the model's `Summary.spend`.
-/
import Sge.Gen.Kernels
import SgeProofs.Lemmas.KernelsTie
import Sge.Subaccount
namespace Sge.KernelsTie
open Sge Sge.Subaccount Sge.Gen.Kernels

/-- `Spend` of the Go source fails exactly when the model's `Summary.spend` does, and otherwise stores the same new
    `spent` amount (the value of the translated kernel is the new amount; `none` = error). -/
theorem krn_tie_SubSpend (s : Summary) (amt : Int) :
    (subaccount_AccountSummary_Spend s.deposited s.spent s.withdrawn s.lost amt).map (fun x => { s with spent := x }) = s.spend amt := by
  unfold subaccount_AccountSummary_Spend Summary.spend
  try unfold subaccount_AccountSummary_Available Summary.available
  krn_close [Summary.mk.injEq]

example : subaccount_AccountSummary_Spend 100 20 30 5 45 = some 65 ∧ subaccount_AccountSummary_Spend 100 20 30 5 46 = none ∧ subaccount_AccountSummary_Spend 100 20 30 5 (-1) = none := by decide +kernel

end Sge.KernelsTie
