/-
  Kernel tie: `Pool.AvailableAmount` (x/reward/types/pool.go) = the model's `Pool.avail`.
-/
import Sge.Gen.Kernels
import SgeProofs.Lemmas.KernelsTie
import Sge.Reward
namespace Sge.KernelsTie
open Sge Sge.Reward Sge.Gen.Kernels

/-- The available pool of the Go source is the model's: total − withdrawn − spent. -/
theorem krn_tie_PoolAvail (p : Pool) :
    reward_Pool_AvailableAmount p.total p.spent p.withdrawn = p.avail := by
  first
    | rfl
    | (unfold reward_Pool_AvailableAmount Pool.avail; krn_close)

example : reward_Pool_AvailableAmount 100 20 30 = 50 := by decide +kernel

end Sge.KernelsTie
