/-
  Kernel tie: `OrderBookParticipation.SetLiquidityAfterWithdrawal` = the record update of the model's `Book.withdraw`.
-/
import Sge.Gen.Kernels
import SgeProofs.Lemmas.KernelsTie
import Sge.Core.Orderbook
namespace Sge.KernelsTie
open Sge Sge.Core Sge.Gen.Kernels

/-- A withdrawal lowers total and current-round liquidity by the withdrawn amount, in the Go source as in the model
    (the value of the translated kernel is (new Liquidity, new CurrentRoundLiquidity)). -/
theorem krn_tie_LiquidityAfterWithdrawal (p : Part) (w : Int) :
    { p with liq := (orderbook_OrderBookParticipation_SetLiquidityAfterWithdrawal p.liq p.crl w).1,
             crl := (orderbook_OrderBookParticipation_SetLiquidityAfterWithdrawal p.liq p.crl w).2 }
      = { p with crl := p.crl - w, liq := p.liq - w } := by
  first
    | rfl
    | (unfold orderbook_OrderBookParticipation_SetLiquidityAfterWithdrawal; krn_close [Part.mk.injEq])

example : orderbook_OrderBookParticipation_SetLiquidityAfterWithdrawal 100 60 25 = (75, 35) := by decide +kernel

end Sge.KernelsTie
