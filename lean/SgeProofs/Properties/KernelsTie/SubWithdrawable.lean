/-
  Kernel tie: `AccountSummary.WithdrawableBalance` = the model's `Summary.withdrawable`.
-/
import Sge.Gen.Kernels
import SgeProofs.Lemmas.KernelsTie
import Sge.Subaccount
namespace Sge.KernelsTie
open Sge Sge.Subaccount Sge.Gen.Kernels

/-- The withdrawable balance of the Go source is the model's: min(available, bank). -/
theorem krn_tie_SubWithdrawable (s : Summary) (bank : Int) :
    subaccount_AccountSummary_WithdrawableBalance s.deposited s.spent s.withdrawn s.lost bank = s.withdrawable bank := by
  unfold subaccount_AccountSummary_WithdrawableBalance subaccount_AccountSummary_Available
    Summary.withdrawable Summary.available
  krn_close

example : subaccount_AccountSummary_WithdrawableBalance 100 20 30 5 40 = 40 ∧
    subaccount_AccountSummary_WithdrawableBalance 100 20 30 5 50 = 45 := by decide +kernel

end Sge.KernelsTie
