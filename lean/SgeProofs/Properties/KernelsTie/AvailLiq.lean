/-
  Kernel tie: `fulfillmentItem.calcAvailableLiquidity` (x/orderbook/keeper/bet_wager.go) = the model's `availLiq`.
-/
import Sge.Gen.Kernels
import SgeProofs.Lemmas.KernelsTie
import Sge.Core.Orderbook
namespace Sge.KernelsTie
open Sge Sge.Core Sge.Gen.Kernels

/-- The available liquidity of the Go source is the model's `availLiq`: trunc(multiplier · liquidity − exposure),
    truncated toward zero. -/
theorem krn_tie_AvailLiq (mult : Dec) (p : Part) (e : PExp) :
    orderbook_fulfillmentItem_calcAvailableLiquidity p.crl e.exposure mult = availLiq mult p e := by
  first
    | rfl
    | (unfold orderbook_fulfillmentItem_calcAvailableLiquidity availLiq; krn_close)

/-- 1.5 · 101 − 100 = 51.5 truncates to 51; 1.5 · 1 − 3 = −1.5 truncates toward zero to −1. -/
example : orderbook_fulfillmentItem_calcAvailableLiquidity 101 100 ⟨1500000000000000000⟩ = 51 ∧
    orderbook_fulfillmentItem_calcAvailableLiquidity 1 3 ⟨1500000000000000000⟩ = -1 := by decide +kernel

end Sge.KernelsTie
