/-
  Kernel tie: `CalculateBetAmountInt` (x/bet/types/payout.go, through `CalculateBetAmount`, `calculateBetAmount` and
  `CalculateDecimalBetAmount` of odds_type.go) = the model's `calcBetAmountInt` on odds above 1, an error otherwise.
  The odds string enters the translated kernel as its parse result (`none` = `LegacyNewDecFromStr` fails).
-/
import Sge.Gen.Kernels
import SgeProofs.Lemmas.KernelsTie
import Sge.Core.Orderbook
namespace Sge.KernelsTie
open Sge Sge.Core Sge.Gen.Kernels

/-- For odds above 1 the bet amount of the Go source is the model's `calcBetAmountInt`: payout profit / (odds − 1)
    plus the carried residual, rounded half to even, with the new residual carried on. (The order-book keeper
    passes the available liquidity as the payout profit, `LegacyNewDecFromInt(avail)`.) -/
theorem krn_tie_BetAmountInt (ov : Dec) (avail : Int) (tr : Dec) (h : PREC < ov.raw) :
    bet_CalculateBetAmountInt (some ov) (Dec.ofInt avail) tr = some (calcBetAmountInt ov avail tr) := by
  have h1 : (0 : Int) < ov.raw := by unfold PREC at h; omega
  have h2 : ¬ ov.raw ≤ Dec.one.raw := by show ¬ ov.raw ≤ PREC; omega
  unfold bet_CalculateBetAmountInt bet_CalculateBetAmount bet_calculateBetAmount bet_CalculateDecimalBetAmount
  simp only [h1, h2, not_true_eq_false, if_false]
  first
    | rfl
    | (unfold calcBetAmountInt; krn_close)

/-- Odds that do not parse, or are not above 1, are an error in the Go source — the model's wager handler refuses
    them before the order book is visited (`chk (decide (PREC < ov.raw))` in `wagerO`). -/
theorem krn_tie_BetAmountInt_error (pp tr : Dec) :
    bet_CalculateBetAmountInt none pp tr = none ∧
    ∀ ov : Dec, ov.raw ≤ PREC → bet_CalculateBetAmountInt (some ov) pp tr = none := by
  refine ⟨rfl, fun ov h => ?_⟩
  have h2 : ov.raw ≤ Dec.one.raw := h
  unfold bet_CalculateBetAmountInt bet_CalculateBetAmount bet_calculateBetAmount bet_CalculateDecimalBetAmount
  by_cases h1 : (0 : Int) < ov.raw <;> simp only [h1, h2, not_true_eq_false, not_false_eq_true, if_true, if_false]

/-- odds 3 (divisor 2), profit 5, residual 0: 2.5 rounds to the even 2 and +0.5 is carried;
    odds 3, profit 7: 3.5 rounds to the even 4 and −0.5 is carried. -/
example : bet_CalculateBetAmountInt (some ⟨3000000000000000000⟩) (Dec.ofInt 5) ⟨0⟩ = some (2, ⟨500000000000000000⟩) ∧
    bet_CalculateBetAmountInt (some ⟨3000000000000000000⟩) (Dec.ofInt 7) ⟨0⟩ = some (4, ⟨-500000000000000000⟩) := by
  decide +kernel

end Sge.KernelsTie
