/-
  Kernel tie: `Minter.NextPhaseProvisions` (x/mint/types/minter.go) = the model's `Mint.nextPhaseProvisions` on the
  clamped inflation base (the tree carries the repair `max(0, supply − excluded)`, which `Sge.Params.beginBlock`
  expresses by running the block function on `max(supply, exclude)`).
-/
import Sge.Gen.Kernels
import SgeProofs.Lemmas.KernelsTie
import Sge.Mint
namespace Sge.KernelsTie
open Sge Sge.Mint Sge.Gen.Kernels

/-- The phase provisions of the Go source are the model's `nextPhaseProvisions` with the supply clamped from below by
    the excluded amount: inflation · max(0, supply − exclude), times the year coefficient (banker's rounding). -/
theorem krn_tie_NextPhaseProvisions (infl : Dec) (supply exclude : Int) (ph : Phase) :
    mint_Minter_NextPhaseProvisions infl supply exclude ph.yearCoef =
      nextPhaseProvisions infl (if supply < exclude then exclude else supply) exclude ph := by
  unfold mint_Minter_NextPhaseProvisions nextPhaseProvisions
  krn_close

/-- without the clamp being active the two agree literally -/
theorem krn_tie_NextPhaseProvisions_unclamped (infl : Dec) (supply exclude : Int) (ph : Phase) (h : exclude ≤ supply) :
    mint_Minter_NextPhaseProvisions infl supply exclude ph.yearCoef = nextPhaseProvisions infl supply exclude ph := by
  rw [krn_tie_NextPhaseProvisions, if_neg (by omega)]

/-- 10 % of (1000 − 400) for half a year is 30; an excluded amount above the supply gives 0 -/
example : mint_Minter_NextPhaseProvisions ⟨100000000000000000⟩ 1000 400 ⟨500000000000000000⟩ = Dec.ofInt 30 ∧
    mint_Minter_NextPhaseProvisions ⟨100000000000000000⟩ 1000 4000 ⟨500000000000000000⟩ = Dec.zero := by decide +kernel

end Sge.KernelsTie
