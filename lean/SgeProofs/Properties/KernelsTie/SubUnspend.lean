/-
  Kernel tie: `AccountSummary.Unspend` (x/subaccount/types/accsummary.go) = the model's `Summary.unspend`.
-/
import Sge.Gen.Kernels
import SgeProofs.Lemmas.KernelsTie
import Sge.Subaccount
namespace Sge.KernelsTie
open Sge Sge.Subaccount Sge.Gen.Kernels

/-- `Unspend` of the Go source fails exactly when the model's `Summary.unspend` does, and otherwise stores the same new
    `spent` amount (the value of the translated kernel is the new amount; `none` = error). -/
theorem krn_tie_SubUnspend (s : Summary) (amt : Int) :
    (subaccount_AccountSummary_Unspend s.spent amt).map (fun x => { s with spent := x }) = s.unspend amt := by
  unfold subaccount_AccountSummary_Unspend Summary.unspend
  try unfold subaccount_AccountSummary_Available Summary.available
  krn_close [Summary.mk.injEq]

example : subaccount_AccountSummary_Unspend 20 20 = some 0 ∧ subaccount_AccountSummary_Unspend 20 21 = none ∧ subaccount_AccountSummary_Unspend 20 (-1) = none := by decide +kernel

end Sge.KernelsTie
