/-
  Kernel tie: `OrderBookParticipation.TrimCurrentRoundLiquidity` = the first step of the model's `requeue`.
-/
import Sge.Gen.Kernels
import SgeProofs.Lemmas.KernelsTie
import Sge.Core.Orderbook
namespace Sge.KernelsTie
open Sge Sge.Core Sge.Gen.Kernels

/-- The trimmed liquidity of the Go source is the model's `crl − max(0, crMaxLoss)` (`requeue`). -/
theorem krn_tie_TrimLiquidity (p : Part) :
    orderbook_OrderBookParticipation_TrimCurrentRoundLiquidity p.crl p.crMaxLoss = p.crl - maxI 0 p.crMaxLoss := by
  first
    | rfl
    | (unfold orderbook_OrderBookParticipation_TrimCurrentRoundLiquidity; krn_close)

example : orderbook_OrderBookParticipation_TrimCurrentRoundLiquidity 100 30 = 70 ∧
    orderbook_OrderBookParticipation_TrimCurrentRoundLiquidity 100 (-30) = 100 := by decide +kernel

end Sge.KernelsTie
