/-
  Kernel tie: `OrderBookParticipation.setMaxLoss` (with `ParticipationExposure.CalculateMaxLoss` and
  `OrderBookParticipation.CalculateMaxLoss`) = the model's `setMaxLoss`.
-/
import Sge.Gen.Kernels
import SgeProofs.Lemmas.KernelsTie
import Sge.Core.Orderbook
namespace Sge.KernelsTie
open Sge Sge.Core Sge.Gen.Kernels

/-- The max-loss update of the Go source is the model's `setMaxLoss`, for a participation whose
    `CurrentRoundMaxLoss` is not nil (the translated kernel takes `IsNil()` as a separate flag; every stored
    participation is created with `ZeroInt()`, and the canonical dump of the differential runs shows it). The value
    of the translated kernel is (new CurrentRoundMaxLoss, new CurrentRoundMaxLossOddsUID); odds UIDs are identifiers. -/
theorem krn_tie_SetMaxLoss (p : Part) (e : PExp) (o : Nat) (bAmt : Int) :
    setMaxLoss p e o bAmt =
      { p with
        crMaxLoss := (orderbook_OrderBookParticipation_setMaxLoss p.crTotalBet p.crMaxLoss false p.crMaxLossOdds
                        e.exposure e.bet o bAmt).1,
        crMaxLossOdds := (orderbook_OrderBookParticipation_setMaxLoss p.crTotalBet p.crMaxLoss false p.crMaxLossOdds
                        e.exposure e.bet o bAmt).2 } := by
  unfold setMaxLoss orderbook_OrderBookParticipation_setMaxLoss
  try unfold orderbook_ParticipationExposure_CalculateMaxLoss
  try unfold orderbook_OrderBookParticipation_CalculateMaxLoss
  krn_close [Part.mk.injEq]

example : orderbook_OrderBookParticipation_setMaxLoss 50 10 false 1 100 50 2 20 = (100, 2) ∧
    orderbook_OrderBookParticipation_setMaxLoss 50 300 false 1 100 50 2 20 = (280, 1) := by decide +kernel

end Sge.KernelsTie
