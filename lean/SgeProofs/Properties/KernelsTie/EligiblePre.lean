/-
  Kernel tie: `OrderBookParticipation.IsEligibleForNextRoundPreLiquidityReduction` = `Part.eligiblePre`.
-/
import Sge.Gen.Kernels
import SgeProofs.Lemmas.KernelsTie
import Sge.Core.Orderbook
namespace Sge.KernelsTie
open Sge Sge.Core Sge.Gen.Kernels

/-- Eligibility before the liquidity reduction in the Go source is the model's `Part.eligiblePre`:
    liquidity − max(0, max loss) > 0. -/
theorem krn_tie_EligiblePre (p : Part) :
    orderbook_OrderBookParticipation_IsEligibleForNextRoundPreLiquidityReduction p.crl p.crMaxLoss = p.eligiblePre := by
  first
    | rfl
    | (unfold orderbook_OrderBookParticipation_IsEligibleForNextRoundPreLiquidityReduction Part.eligiblePre; krn_close)

example : orderbook_OrderBookParticipation_IsEligibleForNextRoundPreLiquidityReduction 10 10 = false ∧
    orderbook_OrderBookParticipation_IsEligibleForNextRoundPreLiquidityReduction 10 (-5) = true := by decide +kernel

end Sge.KernelsTie
