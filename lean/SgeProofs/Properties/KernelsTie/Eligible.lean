/-
  Kernel tie: `OrderBookParticipation.IsEligibleForNextRound` (x/orderbook/types/participation.go) = the `elig` flag of
  the model's `requeue` and the queue test of `Book.withdraw`: current-round liquidity > 0.
-/
import Sge.Gen.Kernels
import SgeProofs.Lemmas.KernelsTie
import Sge.Core.Orderbook
namespace Sge.KernelsTie
open Sge Sge.Core Sge.Gen.Kernels

/-- Eligibility for the next round in the Go source is `0 < CurrentRoundLiquidity`, as in the model. -/
theorem krn_tie_Eligible (crl : Int) :
    orderbook_OrderBookParticipation_IsEligibleForNextRound crl = decide ((0 : Int) < crl) := by
  first
    | rfl
    | (unfold orderbook_OrderBookParticipation_IsEligibleForNextRound; krn_close)

/-- the same test as `Book.withdraw` writes it -/
theorem krn_tie_Eligible_withdraw (crl : Int) :
    (orderbook_OrderBookParticipation_IsEligibleForNextRound crl = true) ↔ crl > 0 := by
  rw [krn_tie_Eligible]; simp only [decide_eq_true_eq, gt_iff_lt]

example : orderbook_OrderBookParticipation_IsEligibleForNextRound 1 = true ∧
    orderbook_OrderBookParticipation_IsEligibleForNextRound 0 = false := by decide +kernel

end Sge.KernelsTie
