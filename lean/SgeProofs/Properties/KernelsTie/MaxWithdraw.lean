/-
  Kernel tie: `OrderBookParticipation.maxWithdrawalAmount` (x/orderbook/types/participation.go) = `Part.maxWithdraw`.
-/
import Sge.Gen.Kernels
import SgeProofs.Lemmas.KernelsTie
import Sge.Core.Orderbook
namespace Sge.KernelsTie
open Sge Sge.Core Sge.Gen.Kernels

/-- The withdrawable maximum of the Go source is the model's `Part.maxWithdraw`: the current-round liquidity, less
    the current-round max loss when that is not negative. -/
theorem krn_tie_MaxWithdraw (p : Part) :
    orderbook_OrderBookParticipation_maxWithdrawalAmount p.crl p.crMaxLoss = p.maxWithdraw := by
  first
    | rfl
    | (unfold orderbook_OrderBookParticipation_maxWithdrawalAmount Part.maxWithdraw; krn_close)

example : orderbook_OrderBookParticipation_maxWithdrawalAmount 100 30 = 70 ∧
    orderbook_OrderBookParticipation_maxWithdrawalAmount 100 (-30) = 100 := by decide +kernel

end Sge.KernelsTie
