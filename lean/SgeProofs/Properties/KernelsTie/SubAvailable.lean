/-
  Kernel tie: `AccountSummary.Available` (x/subaccount/types/accsummary.go) = the model's `Summary.available`.
-/
import Sge.Gen.Kernels
import SgeProofs.Lemmas.KernelsTie
import Sge.Subaccount
namespace Sge.KernelsTie
open Sge Sge.Subaccount Sge.Gen.Kernels

/-- The available amount of the Go source is the model's: deposited − withdrawn − spent − lost. -/
theorem krn_tie_SubAvailable (s : Summary) :
    subaccount_AccountSummary_Available s.deposited s.spent s.withdrawn s.lost = s.available := by
  first
    | rfl
    | (unfold subaccount_AccountSummary_Available Summary.available; krn_close)

example : subaccount_AccountSummary_Available 100 20 30 5 = 45 := by decide +kernel

end Sge.KernelsTie
