/-
  Kernel tie: `OrderBookParticipation.SetCurrentRound` (which calls `setMaxLoss`) = the participation half of the model's
  `applyFul`.
-/
import Sge.Gen.Kernels
import SgeProofs.Lemmas.KernelsTie
import Sge.Core.Orderbook
namespace Sge.KernelsTie
open Sge Sge.Core Sge.Gen.Kernels

/-- A fulfilment adds the bet amount to both bet totals of the participation and then updates the max loss against
    the already updated exposure, in the Go source as in the model (`applyFul`). The value of the translated kernel is
    (new TotalBetAmount, new CurrentRoundTotalBetAmount, new CurrentRoundMaxLoss, new CurrentRoundMaxLossOddsUID);
    `CurrentRoundMaxLoss` is not nil (see `krn_tie_SetMaxLoss`). -/
theorem krn_tie_SetCurrentRound (oddsCur : Nat) (p : Part) (e : PExp) (bAmt π : Int) :
    (applyFul oddsCur p e bAmt π).1 =
      { p with
        totalBet := (orderbook_OrderBookParticipation_SetCurrentRound p.totalBet p.crTotalBet p.crMaxLoss false
          p.crMaxLossOdds (applyFul oddsCur p e bAmt π).2.exposure (applyFul oddsCur p e bAmt π).2.bet oddsCur bAmt).1,
        crTotalBet := (orderbook_OrderBookParticipation_SetCurrentRound p.totalBet p.crTotalBet p.crMaxLoss false
          p.crMaxLossOdds (applyFul oddsCur p e bAmt π).2.exposure (applyFul oddsCur p e bAmt π).2.bet oddsCur bAmt).2.1,
        crMaxLoss := (orderbook_OrderBookParticipation_SetCurrentRound p.totalBet p.crTotalBet p.crMaxLoss false
          p.crMaxLossOdds (applyFul oddsCur p e bAmt π).2.exposure (applyFul oddsCur p e bAmt π).2.bet oddsCur bAmt).2.2.1,
        crMaxLossOdds := (orderbook_OrderBookParticipation_SetCurrentRound p.totalBet p.crTotalBet p.crMaxLoss false
          p.crMaxLossOdds (applyFul oddsCur p e bAmt π).2.exposure (applyFul oddsCur p e bAmt π).2.bet oddsCur bAmt).2.2.2 } := by
  unfold applyFul setMaxLoss orderbook_OrderBookParticipation_SetCurrentRound
  try unfold orderbook_OrderBookParticipation_setMaxLoss
  try unfold orderbook_ParticipationExposure_CalculateMaxLoss
  try unfold orderbook_OrderBookParticipation_CalculateMaxLoss
  krn_close [Part.mk.injEq]

example : orderbook_OrderBookParticipation_SetCurrentRound 30 30 10 false 1 107 70 2 20 = (50, 50, 127, 2) := by
  decide +kernel

end Sge.KernelsTie
