/-
  Kernel tie: `ParticipationExposure.SetCurrentRound` (x/orderbook/types/exposure.go) = the exposure half of the model's
  `applyFul`.
-/
import Sge.Gen.Kernels
import SgeProofs.Lemmas.KernelsTie
import Sge.Core.Orderbook
namespace Sge.KernelsTie
open Sge Sge.Core Sge.Gen.Kernels

/-- A fulfilment adds the payout profit to the exposure and the bet amount to the exposure's bet amount, in the Go
    source as in the model (`applyFul`); the value of the translated kernel is (new Exposure, new BetAmount). -/
theorem krn_tie_ExposureSetCurrentRound (oddsCur : Nat) (p : Part) (e : PExp) (bAmt π : Int) :
    (applyFul oddsCur p e bAmt π).2 =
      { e with exposure := (orderbook_ParticipationExposure_SetCurrentRound e.exposure e.bet bAmt π).1,
               bet := (orderbook_ParticipationExposure_SetCurrentRound e.exposure e.bet bAmt π).2 } := by
  first
    | rfl
    | (unfold applyFul orderbook_ParticipationExposure_SetCurrentRound; krn_close [PExp.mk.injEq])

example : orderbook_ParticipationExposure_SetCurrentRound 100 50 20 7 = (107, 70) := by decide +kernel

end Sge.KernelsTie
