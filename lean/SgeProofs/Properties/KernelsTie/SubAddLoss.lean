/-
  Kernel tie: `AccountSummary.AddLoss` (x/subaccount/types/accsummary.go) = the model's `Summary.addLoss`.
-/
import Sge.Gen.Kernels
import SgeProofs.Lemmas.KernelsTie
import Sge.Subaccount
namespace Sge.KernelsTie
open Sge Sge.Subaccount Sge.Gen.Kernels

/-- `AddLoss` of the Go source fails exactly when the model's `Summary.addLoss` does, and otherwise stores the same new
    `lost` amount (the value of the translated kernel is the new amount; `none` = error). -/
theorem krn_tie_SubAddLoss (s : Summary) (amt : Int) :
    (subaccount_AccountSummary_AddLoss s.lost amt).map (fun x => { s with lost := x }) = s.addLoss amt := by
  unfold subaccount_AccountSummary_AddLoss Summary.addLoss
  try unfold subaccount_AccountSummary_Available Summary.available
  krn_close [Summary.mk.injEq]

example : subaccount_AccountSummary_AddLoss 5 7 = some 12 ∧ subaccount_AccountSummary_AddLoss 5 (-1) = none := by decide +kernel

end Sge.KernelsTie
