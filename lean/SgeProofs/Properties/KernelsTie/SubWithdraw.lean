/-
  Kernel tie: `AccountSummary.Withdraw` (x/subaccount/types/accsummary.go) = the model's `Summary.withdraw`.
-/
import Sge.Gen.Kernels
import SgeProofs.Lemmas.KernelsTie
import Sge.Subaccount
namespace Sge.KernelsTie
open Sge Sge.Subaccount Sge.Gen.Kernels

/-- `Withdraw` of the Go source fails exactly when the model's `Summary.withdraw` does, and otherwise stores the same new
    `withdrawn` amount (the value of the translated kernel is the new amount; `none` = error). -/
theorem krn_tie_SubWithdraw (s : Summary) (amt : Int) :
    (subaccount_AccountSummary_Withdraw s.deposited s.spent s.withdrawn s.lost amt).map (fun x => { s with withdrawn := x }) = s.withdraw amt := by
  unfold subaccount_AccountSummary_Withdraw Summary.withdraw
  try unfold subaccount_AccountSummary_Available Summary.available
  krn_close [Summary.mk.injEq]

example : subaccount_AccountSummary_Withdraw 100 20 30 5 45 = some 75 ∧ subaccount_AccountSummary_Withdraw 100 20 30 5 46 = none ∧ subaccount_AccountSummary_Withdraw 100 20 30 5 (-1) = none := by decide +kernel

end Sge.KernelsTie
