/-
  Kernel tie: `CalculatePayoutProfit` (x/bet/types/payout.go, through `calculatePayout` and `CalculateDecimalPayout`)
  = the payout-profit expression of the model's `wagerO` (lean/Sge/Core/Chain.lean) on odds above 1, an error otherwise.
-/
import Sge.Gen.Kernels
import Sge.Core.Chain
namespace Sge.KernelsTie
open Sge Sge.Core Sge.Gen.Kernels

/-- For odds above 1 the payout profit of the Go source is the model's: odds · amount − amount (exact, no rounding). -/
theorem krn_tie_PayoutProfit (ov : Dec) (amt : Int) (h : PREC < ov.raw) :
    bet_CalculatePayoutProfit (some ov) amt = some ((ov.mulInt amt).sub (Dec.ofInt amt)) := by
  have h1 : (0 : Int) < ov.raw := by unfold PREC at h; omega
  have h2 : ¬ ov.raw ≤ Dec.one.raw := by show ¬ ov.raw ≤ PREC; omega
  unfold bet_CalculatePayoutProfit bet_calculatePayout bet_CalculateDecimalPayout
  simp only [h1, h2, not_true_eq_false, if_false]

/-- Odds that do not parse, or are not above 1, are an error (`wagerO` checks `PREC < ov.raw` before). -/
theorem krn_tie_PayoutProfit_error (amt : Int) :
    bet_CalculatePayoutProfit none amt = none ∧
    ∀ ov : Dec, ov.raw ≤ PREC → bet_CalculatePayoutProfit (some ov) amt = none := by
  refine ⟨rfl, fun ov h => ?_⟩
  have h2 : ov.raw ≤ Dec.one.raw := h
  unfold bet_CalculatePayoutProfit bet_calculatePayout bet_CalculateDecimalPayout
  by_cases h1 : (0 : Int) < ov.raw <;> simp only [h1, h2, not_true_eq_false, not_false_eq_true, if_true, if_false]

/-- odds 1.5, amount 101: profit 50.5 -/
example : bet_CalculatePayoutProfit (some ⟨1500000000000000000⟩) 101 = some ⟨50500000000000000000⟩ := by decide +kernel

end Sge.KernelsTie
