/-
  Kernel tie: `AccountSummary.WithdrawableUnlockedBalance` = the model's `Summary.withdrawableUnlocked` of the repaired
  tree (`fixed = true`: the unlocked total is first reduced by what was already withdrawn).
-/
import Sge.Gen.Kernels
import SgeProofs.Lemmas.KernelsTie
import Sge.Subaccount
namespace Sge.KernelsTie
open Sge Sge.Subaccount Sge.Gen.Kernels

/-- The withdrawable unlocked balance of the Go source is the model's patched variant:
    min(min(available, max(0, unlocked − withdrawn)), bank). -/
theorem krn_tie_SubWithdrawableUnlocked (s : Summary) (unlocked bank : Int) :
    subaccount_AccountSummary_WithdrawableUnlockedBalance s.deposited s.spent s.withdrawn s.lost unlocked bank =
      s.withdrawableUnlocked true unlocked bank := by
  unfold subaccount_AccountSummary_WithdrawableUnlockedBalance subaccount_AccountSummary_Available
    Summary.withdrawableUnlocked Summary.available
  krn_close

example : subaccount_AccountSummary_WithdrawableUnlockedBalance 100 0 30 0 50 1000 = 20 := by decide +kernel

end Sge.KernelsTie
