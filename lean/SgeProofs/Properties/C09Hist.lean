/-
  C09 (whole-history part)  Withdrawals are safe and go to the depositor; delegated actions respect grants.

  All theorems are about EVERY history `ops` of the core slice run from an empty chain (`initState`): market add /
  update / resolve, deposit, withdraw, wager, authz grant / revoke, bank sends, parameter changes, new blocks and the
  settling end-blocks (a halting end-block returns the unchanged state), any number of markets, participations, bets.

    c09_withdrawal_ledger       every deposit record of a reachable state: total withdrawn = Σ amounts of the successful
                                withdraw steps of the history on its (market, index), count = their number,
                                0 ≤ total withdrawn ≤ amount deposited − fee, liquidity left = amount − fee − total;
                                one deposit record per (market, index), whose depositor owns the participation
    c09_withdraw_trace          every successful withdraw step of the history paid a positive amount out of a deposit
                                of the account it paid, which is still stored (same depositor) in the final state
    c09_withdraw_payee          THE STEP: whenever a step of a history is a successful MsgWithdraw — whoever signed —
                                the pool pays exactly the amount to the depositor of the one deposit record of the named
                                (market, index), which owns the participation; no other balance moves; bounds, grant
    c09_withdraw_count_bound_partial   count ≤ MaxWithdrawalCount in every reachable state of a history along which
                                MaxWithdrawalCount is never lowered (`c09_withdraw_count_bound_const`: in particular
                                when every accepted parameter change keeps it)
    c09_withdraw_count_bound_false     FINDING: without that hypothesis the bound is false (parameter lowered later)
    c09_grant_step / c09_grant_set / c09_grant_ledger / c09_delegated_needs_live_grant
                                for a fixed (granter, grantee, kind): a step other than an authz operation on that key
                                changes the stored grant iff it is a successful delegated house message using it, and
                                then lowers the limit by exactly the executed amount (deleting it at zero); over a
                                history segment: remaining = remaining before − Σ amounts of the uses, never negative,
                                same expiry; a delegated step needs a stored, unexpired grant with enough limit

  Invariants used: `RetAll` (C01 / C10 / C04), `StI` (C16), `cmb2_PartsOK` (C11), and `c9h_Led`
  (SgeProofs/Lemmas/C09HistLedger.lean), `c9h_CntOK` and the grant lemmas (SgeProofs/Lemmas/C09HistGrant.lean).
-/
import SgeProofs.Lemmas.C09HistGrant
import SgeProofs.Properties.C04Sums
namespace Sge.Core
open Sge Sge.Genesis

-- ---------------------------------------------------------------------------------------------
-- the invariants in every reachable state

theorem c9h_led_init (p : Params) (bal : List (Nat × Int)) (h t : Nat) : c9h_Led (initState p bal h t) [] :=
  ⟨fun d hd => (by cases hd), fun d hd => (by cases hd), fun e he => (by cases he), fun e he => (by cases he)⟩

theorem c9h_partsOK_init (p : Params) (bal : List (Nat × Int)) (h t : Nat) : cmb2_PartsOK (initState p bal h t) :=
  fun b hb => by cases hb

/-- the ledger invariant, the store invariant and the record facts in every reachable state -/
theorem c9h_reach (p : Params) (bal : List (Nat × Int)) (h t : Nat) (ops : List Op)
    (h0 : getBal bal ACC_POOL = 0 ∧ getBal bal ACC_BETFEE = 0 ∧ getBal bal ACC_HOUSEFEE = 0)
    (hwf : ∀ o ∈ ops, o.userSigned') :
    let s := run (initState p bal h t) ops
    c9h_Led s (c9h_wdTrace (initState p bal h t) ops) ∧ RetAll s ∧ cmb2_PartsOK s ∧ StI s := by
  intro s
  have hA := retAll_init p bal h t h0
  have hP := c9h_partsOK_init p bal h t
  have hI : StI (initState p bal h t) := stI_init p bal h t
  have hL := c9h_run_led _ ops [] hA hP hI hwf (c9h_led_init p bal h t)
  rw [List.nil_append] at hL
  exact ⟨hL, run_retAll _ ops hA hwf, cmb2_run_partsOK _ ops hA hP hwf, run_stI _ ops hI⟩

/-- C09.d  THE WITHDRAWAL LEDGER. In every reachable state, for every house deposit record `d`:
    * the recorded total withdrawn is the sum of the amounts of the successful MsgWithdraw steps of the history on the
      record's (market, participation index), and the recorded withdrawal count is the number of those steps;
    * the total withdrawn is ≥ 0 and ≤ the amount originally deposited minus the fee (the liquidity the participation
      started with), and what is left as the participation's liquidity is exactly the difference;
    * the participation record of that (market, index) exists and belongs to the record's depositor;
    * `d` is the only deposit record of its (market, index). -/
theorem c09_withdrawal_ledger (p : Params) (bal : List (Nat × Int)) (h t : Nat) (ops : List Op)
    (h0 : getBal bal ACC_POOL = 0 ∧ getBal bal ACC_BETFEE = 0 ∧ getBal bal ACC_HOUSEFEE = 0)
    (hwf : ∀ o ∈ ops, o.userSigned') :
    let s := run (initState p bal h t) ops
    let L := c9h_wdTrace (initState p bal h t) ops
    ∀ d ∈ s.deposits,
      d.wtotal = c9h_wdSum L d.market d.idx ∧ d.wcount = c9h_wdCnt L d.market d.idx ∧
      0 ≤ d.wtotal ∧
      (∃ b pt, getBook s d.market = some b ∧ b.getPart d.idx = some pt ∧ pt.addr = d.depositor ∧
        0 ≤ pt.fee ∧ 0 ≤ pt.liq ∧ pt.liq = d.amount - pt.fee - d.wtotal ∧ d.wtotal ≤ d.amount - pt.fee) ∧
      (∀ d' ∈ s.deposits, d'.market = d.market → d'.idx = d.idx → d' = d) := by
  intro s L d hd
  obtain ⟨hL, _, hP, hI⟩ := c9h_reach p bal h t ops h0 hwf
  obtain ⟨t1, t2⟩ := hL.tot d hd
  obtain ⟨b, pt, hb, hp, ha, he⟩ := hL.link d hd
  have hok := cmb2_partsOK_get hP hb hp
  refine ⟨t1, t2, ?_, ⟨b, pt, hb, hp, ha, hok.fee, hok.liq, by omega, ?_⟩, ?_⟩
  · rw [t1]; exact c9h_wdSum_nonneg _ hL.pos _ _
  · have := hok.liq; omega
  · intro d' hd' hm hi
    exact hL.unique hI.sd hd' hd hm hi

/-- C09.e  Every successful MsgWithdraw step of a history paid a positive amount, and it was made from a deposit of
    the account it paid: the deposit record of that depositor, market and index is stored in the final state. -/
theorem c09_withdraw_trace (p : Params) (bal : List (Nat × Int)) (h t : Nat) (ops : List Op)
    (h0 : getBal bal ACC_POOL = 0 ∧ getBal bal ACC_BETFEE = 0 ∧ getBal bal ACC_HOUSEFEE = 0)
    (hwf : ∀ o ∈ ops, o.userSigned') :
    let s := run (initState p bal h t) ops
    ∀ e ∈ c9h_wdTrace (initState p bal h t) ops,
      0 < e.amount ∧ ∃ d ∈ s.deposits, d.depositor = e.depositor ∧ d.market = e.market ∧ d.idx = e.idx := by
  intro s e he
  obtain ⟨hL, _, _, _⟩ := c9h_reach p bal h t ops h0 hwf
  exact ⟨hL.pos e he, hL.dep e he⟩

/-- C09.f  THE PAYEE. Take any reachable state `s` and any operation. If it is a MsgWithdraw for participation `i` of
    market `m` that succeeds — signed by ANY account `c`, with any ticket depositor `pd`, mode and amount — then with
    `d` THE deposit record of (m, i) (there is exactly one) and `w` the amount recorded for the step in the trace:
    * the participation `i` of `m` belongs to `d.depositor`; the message acts for that account;
    * `bank`: the pool pays exactly `w` to `d.depositor` and no other balance changes (for every account `acc`);
    * 0 < w ≤ liquidity of the current round not needed for its worst-case loss ≤ liquidity; count below the maximum;
    * the deposit record becomes `d` with count + 1 and total + w;
    * if the signer is not the depositor, the ticket names the depositor, who has granted the signer a withdraw
      authorization that is stored, not expired and covers `w`. -/
theorem c09_withdraw_payee (p : Params) (bal : List (Nat × Int)) (h t : Nat) (ops : List Op)
    (h0 : getBal bal ACC_POOL = 0 ∧ getBal bal ACC_BETFEE = 0 ∧ getBal bal ACC_HOUSEFEE = 0)
    (hwf : ∀ o ∈ ops, o.userSigned')
    (c : Nat) (tk : Tk) (m i md : Nat) (a : Int) (pd : Nat) :
    let s := run (initState p bal h t) ops
    let op := Op.withdraw c tk m i md a pd
    let s' := (step s op).1
    (step s op).2 = .ok →
    ∃ (d : Deposit) (b : Book) (pt : Part) (w : Int),
      d ∈ s.deposits ∧ d.market = m ∧ d.idx = i ∧ (∀ d' ∈ s.deposits, d'.market = m → d'.idx = i → d' = d) ∧
      getBook s m = some b ∧ b.getPart i = some pt ∧ pt.addr = d.depositor ∧ pt.isSettled = false ∧
      c9h_wdEvent s op = some (c9h_mkWd c pd m i w) ∧ c9h_wdDepositor c pd = d.depositor ∧
      (∀ acc, getBal s'.bal acc = getBal s.bal acc - (if acc = ACC_POOL then w else 0) + (if acc = d.depositor then w else 0)) ∧
      0 < w ∧ w ≤ pt.crl - maxI 0 pt.crMaxLoss ∧ w ≤ pt.liq ∧ d.wcount < s.params.houseMaxW ∧
      ({ d with wcount := d.wcount + 1, wtotal := d.wtotal + w } : Deposit) ∈ s'.deposits ∧
      (c ≠ d.depositor → pd = d.depositor ∧
        ∃ gr, findGrant s d.depositor c 1 = some gr ∧ gr.expired s.time = false ∧ w ≤ gr.limit) := by
  intro s op s' hok
  obtain ⟨hL, _, hP, hI⟩ := c9h_reach p bal h t ops h0 hwf
  cases hh : houseWithdrawO s c tk m i md a pd with
  | none =>
    exfalso
    have : (step s op).2 = .err := by simp [op, step, houseWithdraw, commit, hh]
    rw [this] at hok; cases hok
  | some s2 =>
    obtain ⟨e1, _, e2⟩ := c9h_wdEvent_some hh
    obtain ⟨d, w, b, pt, s1, hd, hcalc, hpos, hcnt, hb, hp, hpa, hun, hle, hgs, _, hdep, _, _, hbal⟩ := c9h_withdraw_shape hh
    obtain ⟨hdm, hdk⟩ := lookup_mem hd
    have hdk' : d.depositor = c9h_wdDepositor c pd ∧ d.market = m ∧ d.idx = i := by simpa [Deposit.key] using hdk
    have hok' := cmb2_partsOK_get hP hb hp
    have hs' : s' = s2 := e1
    rw [hcalc] at e2
    refine ⟨d, b, pt, w, hdm, hdk'.2.1, hdk'.2.2, ?_, hb, hp, hpa.trans hdk'.1.symm, hun, e2, hdk'.1.symm, ?_, hpos, hle, ?_,
      hcnt, ?_, ?_⟩
    · intro d' hd' hm' hi'
      exact hL.unique hI.sd hd' hdm (hm'.trans hdk'.2.1.symm) (hi'.trans hdk'.2.2.symm)
    · intro acc
      rw [hs', hdk'.1]
      exact hbal acc
    · have := cmb2_maxI_nonneg pt.crMaxLoss
      have := hok'.crl
      omega
    · rw [hs', hdep]
      exact mem_upsert_self Deposit.key _ s.deposits
    · intro hne
      rw [hdk'.1] at hne ⊢
      have hp0 : pd ≠ 0 := by
        intro hz
        apply hne
        unfold c9h_wdDepositor
        simp [hz]
      have hon : (pd != 0) = true := by simpa using hp0
      have hdp : c9h_wdDepositor c pd = pd := by unfold c9h_wdDepositor; simp [hon]
      rw [hon] at hgs
      simp only [grantStep, if_true] at hgs
      obtain ⟨gr, a1, a2, a3, _⟩ := c9h_useGrant_find hgs
      exact ⟨hdp.symm, gr, a1, a2, a3⟩

-- ---------------------------------------------------------------------------------------------
-- the withdrawal count

/-- C09.g  (`_partial`: see `c09_withdraw_count_bound_false`.) Along a history on which no step lowers
    MaxWithdrawalCount (`c9h_neverLowers`: the parameter after each step is ≥ the parameter before it — it may be
    raised), every deposit record of the reached state has been withdrawn from at most MaxWithdrawalCount times.
    No other hypothesis on the operations. -/
theorem c09_withdraw_count_bound_partial (p : Params) (bal : List (Nat × Int)) (h t : Nat) (ops : List Op)
    (hm : c9h_neverLowers (initState p bal h t) ops) :
    let s := run (initState p bal h t) ops
    ∀ d ∈ s.deposits, d.wcount ≤ s.params.houseMaxW :=
  c9h_run_cnt _ ops (fun d hd => by cases hd) hm

/-- C09.g'  In particular: if every accepted (valid) parameter change of the history leaves MaxWithdrawalCount at its
    initial value, the bound holds in the reached state. -/
theorem c09_withdraw_count_bound_const (p : Params) (bal : List (Nat × Int)) (h t : Nat) (ops : List Op)
    (hc : ∀ q, .setParams q ∈ ops → q.valid = true → q.houseMaxW = p.houseMaxW) :
    let s := run (initState p bal h t) ops
    ∀ d ∈ s.deposits, d.wcount ≤ s.params.houseMaxW := by
  apply c09_withdraw_count_bound_partial
  apply c9h_neverLowers_of
  intro q hq hv
  refine ⟨by rw [hc q hq hv]; exact Nat.le_refl _, fun r hr hrv => ?_⟩
  rw [hc q hq hv, hc r hr hrv]

-- ---------------------------------------------------------------------------------------------
-- the grant ledger

/-- C09.h  One step, one key. Fix (granter g, grantee e, kind k: 0 = deposit, 1 = withdraw) and any state `s`. An
    operation that is not an authz grant / revoke on that key either
    * is a successful delegated house message using that key (a MsgDeposit signed by `e` for depositor `g`, k = 0, or a
      MsgWithdraw signed by `e` whose ticket names depositor `g`, k = 1) executing amount `x`: then a grant was stored,
      not expired, 0 < x ≤ its limit, and either x uses it up or its expiry lies strictly after the block time; after
      the step the stored grant is the same with limit − x, or no grant when the limit reached 0;
    * or leaves the stored grant of the key exactly as it was (this includes failed messages, delegated messages on
      other keys, wagers, end-blocks, …). -/
theorem c09_grant_step (s : State) (op : Op) (g e k : Nat) (hnt : ¬ c9h_touches g e k op) :
    (∃ x gr, c9h_useEvent s op = some (g, e, k, x) ∧ findGrant s g e k = some gr ∧ gr.expired s.time = false ∧
        0 < x ∧ x ≤ gr.limit ∧ (gr.limit - x = 0 ∨ gr.resavable s.time = true) ∧
        findGrant (step s op).1 g e k = (if gr.limit - x = 0 then none else some { gr with limit := gr.limit - x })) ∨
    ((∀ x, c9h_useEvent s op ≠ some (g, e, k, x)) ∧ findGrant (step s op).1 g e k = findGrant s g e k) := by
  have hs := c9h_step_grant s op g e k hnt
  unfold c9h_GrantStep at hs
  simp only at hs
  cases hu : c9h_useEvent s op with
  | none =>
    rw [hu] at hs
    exact Or.inr ⟨fun x hx => (by cases hx), hs⟩
  | some u =>
    rw [hu] at hs
    simp only at hs
    obtain ⟨u1, u2, u3, u4⟩ := u
    by_cases hk : u1 = g ∧ u2 = e ∧ u3 = k
    · rw [if_pos hk] at hs
      obtain ⟨rfl, rfl, rfl⟩ := hk
      obtain ⟨gr, a1, a2, a3, a4, a5, a6⟩ := hs
      exact Or.inl ⟨u4, gr, rfl, a1, a2, a3, a4, a5, a6⟩
    · rw [if_neg hk] at hs
      refine Or.inr ⟨fun x hx => ?_, hs⟩
      simp only [Option.some.injEq, Prod.mk.injEq] at hx
      exact hk ⟨hx.1, hx.2.1, hx.2.2.1⟩

/-- C09.i  The authz operations on the key: MsgGrant stores exactly the granted limit and expiry (replacing any
    earlier grant of the key), MsgRevoke leaves no grant. -/
theorem c09_grant_set (s : State) (g e k : Nat) (l : Int) (x : Option Nat) :
    findGrant (step s (.grant g e k l x)).1 g e k = some { granter := g, grantee := e, kind := k, limit := l, expiry := x } ∧
    findGrant (step s (.revoke g e k)).1 g e k = none :=
  c9h_step_grant_set s g e k l x

/-- C09.j  THE GRANT LEDGER. Take any history `pre` (so `s` is any reachable state — e.g. the state right after the
    MsgGrant) and any continuation `seg` in which no authz grant / revoke on the key (g, e, k) occurs. Then, with
    `c9h_rem` the limit of the stored grant of the key (0 if none):
    * remaining after = remaining before − Σ amounts of the successful delegated steps of `seg` that used the key;
    * if the remaining limit was ≥ 0 it is ≥ 0 afterwards (a use never exceeds it);
    * a grant that is still stored has the expiry it had before `seg`. -/
theorem c09_grant_ledger (p : Params) (bal : List (Nat × Int)) (h t : Nat) (pre seg : List Op) (g e k : Nat)
    (hnt : ∀ op ∈ seg, ¬ c9h_touches g e k op) :
    let s := run (initState p bal h t) pre
    let s' := run (initState p bal h t) (pre ++ seg)
    c9h_rem s' g e k = c9h_rem s g e k - c9h_useSum g e k (c9h_useTrace s seg) ∧
    (0 ≤ c9h_rem s g e k → 0 ≤ c9h_rem s' g e k) ∧
    (∀ gr', findGrant s' g e k = some gr' → ∃ gr, findGrant s g e k = some gr ∧ gr'.expiry = gr.expiry) := by
  intro s s'
  have hrun : s' = run s seg := run_split _ pre seg
  rw [hrun]
  exact c9h_run_rem s seg g e k hnt

/-- C09.k  A delegated house message succeeds only while the grant exists and has not expired: in any state, if an
    operation is a successful delegated MsgDeposit / MsgWithdraw (granter `g` = the depositor, grantee `e` = the signer,
    amount `x`), then a grant of that key is stored, its expiry is not before the block time, 0 < x ≤ its limit, and
    unless `x` uses the grant up the expiry is strictly after the block time. -/
theorem c09_delegated_needs_live_grant (s : State) (op : Op) (g e k : Nat) (x : Int)
    (hu : c9h_useEvent s op = some (g, e, k, x)) :
    ∃ gr, findGrant s g e k = some gr ∧ gr.expired s.time = false ∧ 0 < x ∧ x ≤ gr.limit ∧
      (x = gr.limit ∨ gr.resavable s.time = true) := by
  have hnt : ¬ c9h_touches g e k op := by
    cases op <;> simp [c9h_useEvent] at hu <;> exact id
  rcases c09_grant_step s op g e k hnt with ⟨x', gr, h1, a1, a2, a3, a4, a5, _⟩ | ⟨hno, _⟩
  · rw [hu] at h1
    simp only [Option.some.injEq, Prod.mk.injEq, true_and] at h1
    subst h1
    refine ⟨gr, a1, a2, a3, a4, ?_⟩
    rcases a5 with h | h
    · exact Or.inl (by omega)
    · exact Or.inr h
  · exact absurd hu (hno x)

-- ---------------------------------------------------------------------------------------------
-- non-vacuity: a deposit, a delegated and an own partial withdrawal, a delegated deposit

def c9hTk : Tk := { ok := true, kycIgnore := true, kycApproved := false, kycId := 0 }
def c9hParams : Params := { betMin := 2, betFee := 1, houseMin := 2, obThreshold := 0, obMaxPart := 6, houseMaxW := 3 }
/-- account 1 deposits 1000 into market 7 (fee 100, liquidity 900), grants account 2 a withdraw authorization of 300
    and a deposit authorization of 5000; account 2 withdraws 100 for account 1, account 1 withdraws 50 itself,
    account 2 deposits 2000 for account 1 (participation 2), a bet is placed, account 2 withdraws 200 more for 1 -/
def c9hOps : List Op := [
  .marketAdd 9 c9hTk 7 1 1000 [11, 12] MS_ACTIVE,
  .deposit 1 c9hTk 7 1000 0,
  .grant 1 2 1 300 none,
  .grant 1 2 0 5000 (some 50),
  .withdraw 2 c9hTk 7 1 WM_PARTIAL 100 1,
  .withdraw 1 c9hTk 7 1 WM_PARTIAL 50 0,
  .deposit 2 c9hTk 7 2000 1,
  .wager 3 c9hTk 501 61 (c04Pl 7 11 3 11 12),
  .withdraw 2 c9hTk 7 1 WM_PARTIAL 200 1,
  .newBlock 2 10, .endBlock ]
def c9hInit : State := initState c9hParams [(1, 100000), (2, 100000), (3, 100000), (9, 0)] 1 0

/-- the hypotheses of the theorems are satisfiable on this history -/
example : (∀ o ∈ c9hOps, o.userSigned') ∧
    getBal c9hInit.bal ACC_POOL = 0 ∧ getBal c9hInit.bal ACC_BETFEE = 0 ∧ getBal c9hInit.bal ACC_HOUSEFEE = 0 ∧
    (∀ op ∈ c9hOps.drop 4, ¬ c9h_touches 1 2 1 op) := by
  refine ⟨?_, by decide, by decide, by decide, ?_⟩
  · intro o ho
    simp only [c9hOps, List.mem_cons, List.not_mem_nil, or_false] at ho
    rcases ho with rfl | rfl | rfl | rfl | rfl | rfl | rfl | rfl | rfl | rfl | rfl <;>
      first | trivial | (show isModuleAcc _ = false; decide)
  · intro o ho
    simp only [c9hOps, List.drop, List.mem_cons, List.not_mem_nil, or_false] at ho
    rcases ho with rfl | rfl | rfl | rfl | rfl | rfl | rfl <;> exact id

/-- the trace has the three withdrawals (signer, depositor, market, index, amount, delegated); the deposit records
    (depositor, market, index, amount, count, total) and participations (index, owner, liquidity, fee) add up; the
    withdraw grant 1 → 2 is used up (300 − 100 − 200) and deleted, the deposit grant has 5000 − 2000 left -/
example :
    ((c9h_wdTrace c9hInit c9hOps).map (fun e => (e.signer, e.depositor, e.market, e.idx, e.amount, e.delegated)) ==
      [(2, 1, 7, 1, 100, true), (1, 1, 7, 1, 50, false), (2, 1, 7, 1, 200, true)] &&
    (run c9hInit c9hOps).deposits.map (fun d => (d.creator, d.depositor, d.market, d.idx, d.amount, d.wcount, d.wtotal)) ==
      [(1, 1, 7, 1, 1000, 3, 350), (2, 1, 7, 2, 2000, 0, 0)] &&
    (run c9hInit c9hOps).books.map (fun b => b.parts.map fun q => (q.idx, q.addr, q.liq, q.fee)) ==
      [[(1, 1, 550, 100), (2, 1, 1800, 200)]] &&
    c9h_useTrace c9hInit c9hOps == [(1, 2, 1, 100), (1, 2, 0, 2000), (1, 2, 1, 200)] &&
    (run c9hInit c9hOps).grants.map (fun g => (g.granter, g.grantee, g.kind, g.limit, g.expiry)) ==
      [(1, 2, 0, 3000, some 50)]) = true := by
  decide +kernel

/-- FINDING (the unconditional count bound is false). Full statement, NOT a theorem of the code as it is:
      "in every reachable state every deposit's withdrawal count ≤ MaxWithdrawalCount".
    The limit is enforced only when a withdrawal is made (`count < MaxWithdrawalCount` with the parameter of that
    moment); lowering the parameter afterwards leaves records above the new maximum: two withdrawals under a maximum
    of 3, then an accepted MsgUpdateParams with maximum 1. -/
theorem c09_withdraw_count_bound_false :
    let s := run c9hInit [
      .marketAdd 9 c9hTk 7 1 1000 [11, 12] MS_ACTIVE, .deposit 1 c9hTk 7 1000 0,
      .withdraw 1 c9hTk 7 1 WM_PARTIAL 100 0, .withdraw 1 c9hTk 7 1 WM_PARTIAL 50 0,
      .setParams { c9hParams with houseMaxW := 1 } ]
    (s.deposits.map (fun d => (d.depositor, d.market, d.idx, d.wcount)) == [(1, 7, 1, 2)] && s.params.houseMaxW == 1) = true := by
  decide +kernel

end Sge.Core
