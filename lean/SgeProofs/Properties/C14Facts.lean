/-
  C14 (oracle key set): constants of x/ovm read off the source by the translator (`Sge.Gen.Consts`), and the
  majority computed the way `KeyVault.MajorityCount` (x/ovm/types/key_vault.go) computes it:
      LegacyNewDec(n).Mul(minVoteMajorityForDecisionPercentage).Ceil().TruncateInt64()
-/
import Sge.Dec
import Sge.Gen.Consts

namespace SgeProofs.C14Facts
open Sge Sge.Gen.Consts

/-- `MajorityCount` for a vault of `n` keys, with the percentage constant of the source -/
def majorityCount (n : Int) : Int :=
  Dec.truncInt (Dec.ceil (Dec.mul (Dec.ofInt n) ⟨ovm_minVoteMajorityForDecisionPercentage_dec18⟩))

/-- The vault holds 4 or 5 keys. -/
theorem vault_size_bounds : ovm_MinPubKeysCount = 4 ∧ ovm_MaxPubKeysCount = 5 := by decide

/-- 66.67 % -/
theorem majority_percentage : ovm_minVoteMajorityForDecisionPercentage_dec18 = 6667 * 10 ^ 14 := by decide

/-- For every admissible vault size the code's majority is the super-majority ⌈2n/3⌉ (3 of 4, 4 of 5). -/
theorem majority_is_two_thirds :
    ∀ n ∈ [ovm_MinPubKeysCount, ovm_MaxPubKeysCount], majorityCount n = (2 * n + 2) / 3 := by decide

theorem majority_values : majorityCount 4 = 3 ∧ majorityCount 5 = 4 := by decide

/-- A proposal may be decided up to 1800 s (30 min) after its start. -/
theorem proposal_lifetime : ovm_MaxValidProposalSeconds = 1800 := by decide

end SgeProofs.C14Facts
