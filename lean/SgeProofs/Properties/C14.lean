/-
  C14  Oracle key set changes only by super-majority vote of registered keys.

  Model: `Sge.Ovm` (lean/Sge/Ovm.lean), two variants selected by `fixed : Bool`:
    fixed = false   the code of /repo as it is,
    fixed = true    the code after repo_patches/ovm_key_governance.diff.
  Vocabulary (`SgeProofs/Lemmas/OvmDecision.lean`, independent of the variant): `SuperMajority vd p` = the
  different keys registered in the vault `vd` that voted yes on `p` are at least ceil(2n/3) of the n different
  keys registered in `vd`; `VaultShape v` = 4..5 valid pairwise different keys; `Reachable fixed s` = `s` is
  reached from a genesis with 4..5 valid different keys by any list of (block time, operation) pairs, operations
  being proposals and votes with arbitrary tickets (any signer or none, any algorithm flag, any expiry, any
  payload) and end-blocks.

  The code as it is does NOT satisfy the property (sections "code as it is" below: proved counter-examples,
  then the provable `…_partial` statements with the excluded inputs spelled out). The full-strength statements
  are proved for the patched variant. The JWT/EdDSA layer is modelled by the `Ticket` record, not verified.
-/
import SgeProofs.Lemmas.OvmDecision
import SgeProofs.Lemmas.OvmExamples
namespace Sge.Ovm

/-! ## both variants, every state -/

/-- C14.a  No message changes the key vault, whatever ticket it carries and whether it succeeds or not. -/
theorem c14_messages_keep_vault (fixed : Bool) (s : State) (now : Int) :
    (∀ c t, (submitMsg fixed s now c t).1.vault = s.vault) ∧
    (∀ i t, (voteMsg fixed s now i t).1.vault = s.vault) :=
  ⟨fun c t => submitMsg_vault fixed s now c t, fun i t => voteMsg_vault fixed s now i t⟩

/-- C14.b  A failing message leaves the whole state unchanged. -/
theorem c14_failed_message_no_effect (fixed : Bool) (s : State) (now : Int) :
    (∀ c t, (submitMsg fixed s now c t).2 = false → (submitMsg fixed s now c t).1 = s) ∧
    (∀ i t, (voteMsg fixed s now i t).2 = false → (voteMsg fixed s now i t).1 = s) :=
  ⟨fun c t => submitMsg_err fixed s now c t, fun i t => voteMsg_err fixed s now i t⟩

/-- C14.c  A proposal is accepted only with a well-formed, unexpired EdDSA ticket signed by a key that is
    registered at that moment; it enters the active store with the next id, the block time as start, and
    no votes. -/
theorem c14_proposal_by_registered_key (fixed : Bool) (s : State) (now : Int) (c : Nat)
    (t : Ticket ProposalPayload) (h : (submitMsg fixed s now c t).2 = true) :
    t.format = true ∧ t.alg = true ∧ now < t.exp ∧
    (∃ r ∈ s.vault, ∃ k, decode r = some k ∧ t.signer = some k) ∧
    ∃ pl, t.payload = some pl ∧
      (submitMsg fixed s now c t).1 =
        { s with active := setP s.active (newProposal (s.count + 1) c (dedup pl.keys) pl.leader now),
                 count := s.count + 1 } := by
  obtain ⟨pl, hv, _, hs⟩ := submitMsg_ok fixed s now c t h
  have hne : s.vault ≠ [] := by
    intro he
    rw [he] at hv
    simp [verifyWith] at hv
  obtain ⟨hf, he, _, ⟨k, hk, hver⟩, hp⟩ := verifyWith_spec s.vault now t s.vault pl hne hv
  obtain ⟨ha, key, hd, hsg⟩ := verifies_spec t k hver
  exact ⟨hf, ha, he, ⟨k, hk, key, hd, hsg⟩, pl, hp, hs⟩

/-- C14.d  A vote is accepted only with a well-formed, unexpired EdDSA ticket signed by the very key that is
    registered at the voter index; the only effect is that (that key string, yes/no) is appended to the votes
    of the active proposal named in the ticket, on which that key (string; patched code: key) had no vote. -/
theorem c14_vote_by_voting_key (fixed : Bool) (s : State) (now : Int) (i : Nat) (t : Ticket VotePayload)
    (h : (voteMsg fixed s now i t).2 = true) :
    ∃ pk k pl v p, s.vault[i]? = some pk ∧ decode pk = some k ∧ t.signer = some k ∧
      t.format = true ∧ t.alg = true ∧ now < t.exp ∧ t.payload = some pl ∧ voteOfNat pl.vote = some v ∧
      p ∈ s.active ∧ p.id = pl.proposalId ∧ alreadyVoted fixed p.votes pk = false ∧
      (voteMsg fixed s now i t).1 = { s with active := setP s.active (addVote p pk v) } := by
  obtain ⟨pk, pl, v, p, h1, h2, h3, h4, h5, hs⟩ := voteMsg_ok fixed s now i t h
  obtain ⟨hf, he, _, ⟨k', hk', hver⟩, hp⟩ := verifyWith_spec s.vault now t [pk] pl (by simp) h2
  simp only [List.mem_singleton] at hk'
  subst hk'
  obtain ⟨ha, key, hd, hsg⟩ := verifies_spec t k' hver
  obtain ⟨hm, hid⟩ := mem_of_getP _ _ _ h4
  exact ⟨k', key, pl, v, p, h1, hd, hsg, hf, ha, he, hp, h3, hm, hid, h5, hs⟩

/-- C14.e  Votes enter the record only through accepted vote messages: after any operation every active
    proposal is an unchanged active proposal, or a new one without votes, or an active proposal plus the one
    vote of C14.d. -/
theorem c14_votes_only_by_vote_messages (fixed : Bool) (s : State) (now : Int) (op : Op) :
    ∀ q ∈ (step fixed s now op).active,
      q ∈ s.active ∨ q.votes = [] ∨
      ∃ i t p pk v, op = .vote i t ∧ (voteMsg fixed s now i t).2 = true ∧ s.vault[i]? = some pk ∧
        p ∈ s.active ∧ q = addVote p pk v := by
  intro q hq
  cases op with
  | submit c t =>
    simp only [step] at hq
    cases hr : (submitMsg fixed s now c t).2 with
    | false => rw [submitMsg_err fixed s now c t hr] at hq; exact Or.inl hq
    | true =>
      obtain ⟨pl, _, _, hs⟩ := submitMsg_ok fixed s now c t hr
      rw [hs] at hq
      rcases mem_setP _ _ _ hq with rfl | hq
      · exact Or.inr (Or.inl rfl)
      · exact Or.inl hq
  | vote i t =>
    simp only [step] at hq
    cases hr : (voteMsg fixed s now i t).2 with
    | false => rw [voteMsg_err fixed s now i t hr] at hq; exact Or.inl hq
    | true =>
      obtain ⟨pk, pl, v, p, h1, _, _, h4, _, hs⟩ := voteMsg_ok fixed s now i t hr
      rw [hs] at hq
      rcases mem_setP _ _ _ hq with rfl | hq
      · exact Or.inr (Or.inr ⟨i, t, p, pk, v, rfl, hr, h1, (mem_of_getP _ _ _ h4).1, rfl⟩)
      · exact Or.inl hq
  | endBlock =>
    simp only [step, endBlock] at hq
    left
    cases hl : finishLoop fixed now s.vault s.active s with
    | cont s' => rw [hl] at hq; exact finishLoop_active fixed now s.vault s.active s s' (Or.inl hl) q hq
    | abort s' => rw [hl] at hq; exact finishLoop_active fixed now s.vault s.active s s' (Or.inr hl) q hq
    | halt => rw [hl] at hq; exact hq

/-- C14.f  (`rejected_or_expired_no_change`)  An end-block in which every active proposal is expired or not
    approved (rejected or still undecided) leaves the vault as it is. -/
theorem c14_rejected_or_expired_no_change (fixed : Bool) (s : State) (now : Int)
    (h : ∀ p ∈ s.active, isExpired p now = true ∨ decideResult fixed s.vault p ≠ .approved) :
    (endBlock fixed s now).1.vault = s.vault := by
  have hno : ∀ p ∈ s.active, ¬ ApprovedBy fixed now s.vault p := by
    intro p hp ha
    rcases h p hp with h1 | h1
    · rw [ha.1] at h1; cases h1
    · exact h1 ha.2
  unfold endBlock
  cases hl : finishLoop fixed now s.vault s.active s with
  | cont s' => exact finishLoop_no_approval fixed now s.vault s.active s s' rfl hno (Or.inl hl)
  | abort s' => exact finishLoop_no_approval fixed now s.vault s.active s s' rfl hno (Or.inr hl)
  | halt => rfl

/-- C14.g  An expired proposal is never approved: the iteration of the loop that meets a proposal older than
    1800 s keeps the vault, whatever votes it holds. -/
theorem c14_expired_never_changes_vault (fixed : Bool) (now : Int) (v0 : List Pem) (s s' : State) (p : Proposal)
    (hx : now - p.startTS > 1800) (h : processOne fixed now v0 s p = .cont s') : s'.vault = s.vault := by
  rcases processOne_spec fixed now v0 s p with h1 | h1 | ⟨s1, h1, _, hv⟩
  · rw [h1] at h; cases h
  · rw [h1] at h; cases h
  · rw [h1] at h; injection h with h; subst h
    rcases hv with hv | ⟨ha, _⟩
    · exact hv
    · have := not_expired_le p now ha.1
      omega

/-- C14.h  The implementation's 66.67 % rule (`MajorityCount`) is exactly "two thirds, rounded up" for the
    vault sizes 4 and 5, it never asks for less at any size, and the closed form of the model is the result
    of the `LegacyDec` computation. -/
theorem c14_majority_rule :
    (∀ n, n = 4 ∨ n = 5 → majority n = ceilTwoThirds n) ∧ (∀ n, ceilTwoThirds n ≤ majority n) ∧
    majority 4 = 3 ∧ majority 5 = 4 ∧
    (∀ n ∈ [0, 1, 2, 3, 4, 5, 6, 7, 8, 9, 10, 11, 12], decMajority n = (majority n : Int)) :=
  ⟨majority_eq_ceilTwoThirds, ceilTwoThirds_le_majority, majority_four, majority_five, decMajority_eq_majority⟩

/-- C14.i  In reachable states the end-blocker never panics. -/
theorem c14_endblock_never_halts (fixed : Bool) (s : State) (now : Int) (hr : Reachable fixed s) :
    (endBlock fixed s now).2 = .ok :=
  endBlock_no_halt fixed s now hr.inv

/-! ## patched code: the property at full strength, for all histories -/

/-- C14.1  (`vault_change_only_by_approval`, `removed_keys_do_not_count`)  Patched code, any reachable state,
    any operation at any block time: if the vault changes, the operation is an end-block, and the loop had
    reached a state `mid` in which it met a proposal `p` of the active store such that
    * `p` is at most 1800 s old,
    * the different keys registered in `mid.vault` (the vault at the moment of that decision, 4 to 5 different
      keys) that voted yes on `p` are at least two thirds, rounded up, of the registered keys — votes of keys
      not registered at that moment do not count, and `p` holds one vote per key,
    * the new vault is `p`'s key list with the proposed leader first, and it has 4 to 5 valid pairwise
      different keys (so `GetLeader` is total). -/
theorem c14_vault_change_only_by_approval (s : State) (now : Int) (op : Op) (hr : Reachable true s)
    (hc : (step true s now op).vault ≠ s.vault) :
    op = .endBlock ∧ ∃ pre p post mid, s.active = pre ++ p :: post ∧
      finishLoop true now s.vault pre s = .cont mid ∧
      now - p.startTS ≤ 1800 ∧
      VaultShape mid.vault ∧ SuperMajority mid.vault p ∧
      (p.votes.map (fun w => decode w.1)).Nodup ∧
      newVault p = some (step true s now op).vault ∧
      (step true s now op).vault.head? = p.keys[p.leader]? ∧ p.leader < p.keys.length ∧
      VaultShape (step true s now op).vault := by
  cases op with
  | submit c t => exact absurd (submitMsg_vault true s now c t) hc
  | vote i t => exact absurd (voteMsg_vault true s now i t) hc
  | endBlock =>
    refine ⟨rfl, ?_⟩
    have hi := hr.inv
    simp only [step, endBlock] at hc ⊢
    have key : ∀ s', (finishLoop true now s.vault s.active s = .cont s' ∨
        finishLoop true now s.vault s.active s = .abort s') → s'.vault ≠ s.vault →
        ∃ pre p post mid, s.active = pre ++ p :: post ∧ finishLoop true now s.vault pre s = .cont mid ∧
          now - p.startTS ≤ 1800 ∧ VaultShape mid.vault ∧ SuperMajority mid.vault p ∧
          (p.votes.map (fun w => decode w.1)).Nodup ∧ newVault p = some s'.vault ∧
          s'.vault.head? = p.keys[p.leader]? ∧ p.leader < p.keys.length ∧ VaultShape s'.vault := by
      intro s' hl hne
      rcases finishLoop_vault true now s.vault s.active s s' hl with h | ⟨pre, p, post, mid, hsplit, hpre, happ, hnv⟩
      · exact absurd h hne
      · have hpOK : ProposalOK true p := hi.2 p (by rw [hsplit]; simp)
        have hmid : Inv true mid :=
          finishLoop_inv true now s.vault pre s mid hi
            (fun q hq => hi.2 q (by rw [hsplit]; exact List.mem_append_left _ hq)) (Or.inl hpre)
        have hdv : decisionVault true s.vault mid = mid.vault := rfl
        rw [hdv] at happ
        obtain ⟨hk, hhead⟩ := hpOK.1.newVault hnv
        exact ⟨pre, p, post, mid, hsplit, hpre, not_expired_le p now happ.1, hmid.1.shape,
          approved_superMajority mid.vault p hmid.1 hpOK.2.2 happ.2, (hpOK.2.2.2 rfl).2, hnv, hhead,
          hpOK.2.1, hk.shape⟩
    cases hl : finishLoop true now s.vault s.active s with
    | cont s' => rw [hl] at hc; exact key s' (Or.inl hl) hc
    | abort s' => rw [hl] at hc; exact key s' (Or.inr hl) hc
    | halt => rw [hl] at hc; exact absurd rfl hc

/-- C14.2  Every key counted in C14.1 is registered and voted yes: each entry of `regYesKeys vd p` is the
    decoded key of a string of `vd` and of a yes vote recorded in `p` (whose origin is C14.d / C14.e). -/
theorem c14_counted_votes_are_registered_yes_votes (vd : List Pem) (p : Proposal)
    (hp : ∀ w ∈ p.votes, (decode w.1).isSome = true) (k : Option Key) (hk : k ∈ regYesKeys vd p) :
    ∃ r ∈ vd, decode r = k ∧ ∃ w ∈ p.votes, w.2 = Vote.yes ∧ decode w.1 = k :=
  regYesKeys_registered vd p hp k hk

/-- C14.3  (`removed_keys_do_not_count`)  Patched code: two proposals that differ only in votes of keys not
    registered in `vd` are decided alike against `vd`. -/
theorem c14_removed_keys_do_not_count (vd : List Pem) (p q : Proposal)
    (h : p.votes.filter (fun w => registered vd w.1) = q.votes.filter (fun w => registered vd w.1)) :
    decideResult true vd p = decideResult true vd q :=
  decideResult_fixed_congr vd p q h

/-- C14.4  (`vault_shape`)  Patched code: in every reachable state the vault holds 4 to 5 valid pairwise
    different keys; in particular the leader `vault[0]` exists for every ticket verification. -/
theorem c14_vault_shape (s : State) (hr : Reachable true s) : VaultShape s.vault ∧ s.vault.head?.isSome = true := by
  have h := hr.inv.1.shape
  refine ⟨h, ?_⟩
  cases hv : s.vault with
  | nil => rw [hv] at h; have := h.1; simp at this
  | cons a b => rfl

/-- C14.5  (`one_vote_per_key`)  Patched code: in every reachable state every active proposal holds at most
    one vote per key (decoded key, hence also per key string), all of keys that parse, and its key list is a
    valid vault with the leader index in range. -/
theorem c14_one_vote_per_key (s : State) (hr : Reachable true s) (p : Proposal) (hp : p ∈ s.active) :
    (p.votes.map (fun w => decode w.1)).Nodup ∧ (p.votes.map (fun w => w.1)).Nodup ∧
    (∀ w ∈ p.votes, (decode w.1).isSome = true) ∧ VaultShape p.keys ∧ p.leader < p.keys.length := by
  have h := hr.inv.2 p hp
  exact ⟨(h.2.2.2 rfl).2, h.2.2.1, (h.2.2.2 rfl).1, h.1.shape, h.2.1⟩

/-! ## code as it is: counter-examples (concrete histories evaluated by the kernel) -/

/-- C14.X1  Code as it is, votes of keys removed in the same end-block count (DESIGN §9.8): the end-block at
    t = 30 approves proposal 1 (vault becomes K0 K4 K5 K6) and then, still deciding against the vault read
    before the loop, approves proposal 2 although not one of its voters is registered any more; the vault ends
    as K1 K2 K3 K7. The patched model leaves proposal 2 undecided. -/
theorem c14_asis_counterexample_removed_keys_same_block :
    let s := run false (genesis [0, 8, 16, 24]) cx1
    let p1 := mkP 1 [0, 32, 40, 48] 0 [(8, .yes), (16, .yes), (24, .yes)] 10
    let p2 := mkP 2 [8, 16, 24, 56] 0 [(8, .yes), (16, .yes), (24, .yes)] 10
    ∃ mid, s.active = [p1, p2] ∧ finishLoop false 30 s.vault [p1] s = .cont mid ∧
      mid.vault = [0, 32, 40, 48] ∧ regYesKeys mid.vault p2 = [] ∧ ¬ SuperMajority mid.vault p2 ∧
      (step false s 30 .endBlock).vault = [8, 16, 24, 56] ∧
      (step true (run true (genesis [0, 8, 16, 24]) cx1) 30 .endBlock).vault = [0, 32, 40, 48] := by
  refine ⟨{ vault := [0, 32, 40, 48], active := [mkP 2 [8, 16, 24, 56] 0 [(8, .yes), (16, .yes), (24, .yes)] 10],
            finished := [{ mkP 1 [0, 32, 40, 48] 0 [(8, .yes), (16, .yes), (24, .yes)] 10 with
                           finishTS := 30, result := .approved }], count := 2 }, ?_⟩
  decide

/-- C14.X2  Code as it is, votes of keys removed in an earlier block count: proposal 2 holds two yes votes
    (K1, K2) when proposal 1 is approved at t = 30 and removes K1 K2 K3; at t = 40 the new key K4 adds one
    yes vote, and the end-block approves proposal 2 with the yes vote of one of the four registered keys. -/
theorem c14_asis_counterexample_removed_keys_earlier_block :
    let s := run false (genesis [0, 8, 16, 24]) (cx2a ++ [opVote 40 1 4 2 2])
    let p2 := mkP 2 [8, 16, 24, 56] 0 [(8, .yes), (16, .yes), (32, .yes)] 10
    s.vault = [0, 32, 40, 48] ∧ s.active = [p2] ∧ regYesKeys s.vault p2 = [some 4] ∧
      ¬ SuperMajority s.vault p2 ∧ (step false s 50 .endBlock).vault = [8, 16, 24, 56] ∧
      (step true (run true (genesis [0, 8, 16, 24]) (cx2a ++ [opVote 40 1 4 2 2])) 50 .endBlock).vault
        = [0, 32, 40, 48] := by
  decide

/-- C14.X3  Code as it is, majority of the vault size before the block: after proposal 1 the vault has five
    keys, so proposal 2 needs ceil(10/3) = 4 yes votes at its decision; all three voters are still
    registered, but the loop still computes the majority of the four-key vault (3) and approves. -/
theorem c14_asis_counterexample_stale_vault_size :
    let s := run false (genesis [0, 8, 16, 24]) cx3
    let p1 := mkP 1 [0, 8, 16, 24, 32] 0 [(0, .yes), (8, .yes), (16, .yes)] 10
    let p2 := mkP 2 [0, 8, 16, 40] 0 [(0, .yes), (8, .yes), (16, .yes)] 10
    ∃ mid, s.active = [p1, p2] ∧ finishLoop false 30 s.vault [p1] s = .cont mid ∧
      mid.vault = [0, 8, 16, 24, 32] ∧ regYesKeys mid.vault p2 = [some 0, some 1, some 2] ∧
      ceilTwoThirds mid.vault.length = 4 ∧ ¬ SuperMajority mid.vault p2 ∧
      (step false s 30 .endBlock).vault = [0, 8, 16, 40] ∧
      (step true (run true (genesis [0, 8, 16, 24]) cx3) 30 .endBlock).vault = [0, 8, 16, 24, 32] := by
  refine ⟨{ vault := [0, 8, 16, 24, 32], active := [mkP 2 [0, 8, 16, 40] 0 [(0, .yes), (8, .yes), (16, .yes)] 10],
            finished := [{ mkP 1 [0, 8, 16, 24, 32] 0 [(0, .yes), (8, .yes), (16, .yes)] 10 with
                           finishTS := 30, result := .approved }], count := 2 }, ?_⟩
  decide

/-- C14.X4  Code as it is, one key votes twice: the "already voted" test compares key strings, and the
    string under which K0 is registered changed when proposal 1 was approved. Proposal 2 then holds three yes
    votes of only two keys and is approved at t = 50; the patched model rejects the second vote of K0 and
    leaves proposal 2 undecided. -/
theorem c14_asis_counterexample_double_vote :
    let s := run false (genesis [1, 9, 17, 25]) cx4
    let p2 := mkP 2 [0, 8, 32, 40] 0 [(1, .yes), (0, .yes), (8, .yes)] 10
    Reachable false s ∧ s.vault = [0, 8, 16, 24] ∧ s.active = [p2] ∧
      p2.votes.map (fun w => decode w.1) = [some 0, some 0, some 1] ∧
      ¬ SuperMajority s.vault p2 ∧ (step false s 50 .endBlock).vault = [0, 8, 32, 40] ∧
      (run true (genesis [1, 9, 17, 25]) cx4).active = [mkP 2 [0, 8, 32, 40] 0 [(1, .yes), (8, .yes)] 10] ∧
      (step true (run true (genesis [1, 9, 17, 25]) cx4) 50 .endBlock).vault = [0, 8, 16, 24] := by
  refine ⟨⟨[1, 9, 17, 25], cx4, by decide, rfl⟩, ?_⟩
  decide

/-- C14.X5  Code as it is, the vault after a change may hold one key twice: duplicates are removed by
    comparing trimmed strings, and one key has many PEM encodings. The patched model rejects the proposal. -/
theorem c14_asis_counterexample_duplicate_key :
    let s' := step false (run false (genesis [0, 8, 16, 24]) cx5) 30 .endBlock
    s'.vault = [2, 0, 8, 16] ∧ s'.vault.map decode = [some 0, some 0, some 1, some 2] ∧ ¬ VaultShape s'.vault ∧
      (run true (genesis [0, 8, 16, 24]) cx5).active = [] := by
  refine ⟨by decide, by decide, ?_, by decide⟩
  intro h
  have h4 := h.2.2.2
  revert h4
  decide

/-! ## code as it is: what does hold (`…_partial`)

  Full statement (false of the code as it is, see X1–X5): `c14_vault_change_only_by_approval` with `fixed = false`.
  Excluded inputs / weakened parts, precisely:
    (1) the majority is the 66.67 % majority of the vault *as it was before the end-block loop* (`s.vault`), not
        of the vault at the moment of the decision: histories in which an earlier proposal of the same end-block
        was approved are excluded;
    (2) *all* recorded yes votes count, also those of key strings no longer in the vault: histories in which a
        voter's string left the vault between its vote and the decision are excluded;
    (3) keys are told apart as trimmed strings only: histories with one key in two encodings (in one proposal, or
        in the genesis vault and a later proposal) are excluded.
-/

/-- C14.P1  (`vault_change_only_by_approval_partial`)  Code as it is, any reachable state, any operation: if
    the vault changes, the operation is an end-block and the loop met an active proposal `p`, at most 1800 s
    old, holding at most one vote per key *string*, whose recorded yes votes reach the 66.67 % majority of the
    vault *before the loop*; the new vault is `p`'s key list, leader first: 4 to 5 parsable, pairwise
    different *strings*. -/
theorem c14_vault_change_only_by_approval_partial (s : State) (now : Int) (op : Op) (hr : Reachable false s)
    (hc : (step false s now op).vault ≠ s.vault) :
    op = .endBlock ∧ ∃ pre p post mid, s.active = pre ++ p :: post ∧
      finishLoop false now s.vault pre s = .cont mid ∧
      now - p.startTS ≤ 1800 ∧
      majority s.vault.length ≤ countVotes .yes p.votes ∧ (p.votes.map (fun w => w.1)).Nodup ∧
      newVault p = some (step false s now op).vault ∧
      (step false s now op).vault.head? = p.keys[p.leader]? ∧ p.leader < p.keys.length ∧
      KeysOK false (step false s now op).vault := by
  cases op with
  | submit c t => exact absurd (submitMsg_vault false s now c t) hc
  | vote i t => exact absurd (voteMsg_vault false s now i t) hc
  | endBlock =>
    refine ⟨rfl, ?_⟩
    have hi := hr.inv
    simp only [step, endBlock] at hc ⊢
    have key : ∀ s', (finishLoop false now s.vault s.active s = .cont s' ∨
        finishLoop false now s.vault s.active s = .abort s') → s'.vault ≠ s.vault →
        ∃ pre p post mid, s.active = pre ++ p :: post ∧ finishLoop false now s.vault pre s = .cont mid ∧
          now - p.startTS ≤ 1800 ∧ majority s.vault.length ≤ countVotes .yes p.votes ∧
          (p.votes.map (fun w => w.1)).Nodup ∧ newVault p = some s'.vault ∧
          s'.vault.head? = p.keys[p.leader]? ∧ p.leader < p.keys.length ∧ KeysOK false s'.vault := by
      intro s' hl hne
      rcases finishLoop_vault false now s.vault s.active s s' hl with h | ⟨pre, p, post, mid, hsplit, hpre, happ, hnv⟩
      · exact absurd h hne
      · have hpOK : ProposalOK false p := hi.2 p (by rw [hsplit]; simp)
        have hdv : decisionVault false s.vault mid = s.vault := rfl
        rw [hdv] at happ
        obtain ⟨hk, hhead⟩ := hpOK.1.newVault hnv
        have hm := countVotes_yes_of_approved false s.vault p happ.2
        exact ⟨pre, p, post, mid, hsplit, hpre, not_expired_le p now happ.1, hm, hpOK.2.2.1, hnv, hhead,
          hpOK.2.1, hk⟩
    cases hl : finishLoop false now s.vault s.active s with
    | cont s' => rw [hl] at hc; exact key s' (Or.inl hl) hc
    | abort s' => rw [hl] at hc; exact key s' (Or.inr hl) hc
    | halt => rw [hl] at hc; exact absurd rfl hc

/-- C14.P2  Code as it is, on the inputs outside (1)–(3): a proposal approved against a vault `vd` of pairwise
    different keys, all of whose vote strings are strings of `vd`, has the C14 super-majority. (By C14.P1 the
    decision vault is `s.vault`; it is the vault at the moment of the decision when no earlier proposal was
    approved in the same end-block.) -/
theorem c14_supermajority_partial (vd : List Pem) (p : Proposal) (hvd : (vd.map decode).Nodup)
    (hp : (p.votes.map (fun w => w.1)).Nodup) (hreg : ∀ w ∈ p.votes, w.1 ∈ vd)
    (h : decideResult false vd p = .approved) : SuperMajority vd p :=
  approved_superMajority_asis vd p hvd hp hreg h

/-- C14.P3  (`vault_shape_partial`, `one_vote_per_key_partial`)  Code as it is, every reachable state: the
    vault and every active proposal's key list are 4 to 5 parsable pairwise different strings with the leader
    index in range, and every active proposal holds at most one vote per key string. -/
theorem c14_shape_partial (s : State) (hr : Reachable false s) :
    KeysOK false s.vault ∧ s.vault.head?.isSome = true ∧
    ∀ p ∈ s.active, KeysOK false p.keys ∧ p.leader < p.keys.length ∧ (p.votes.map (fun w => w.1)).Nodup := by
  have hi := hr.inv
  refine ⟨hi.1, ?_, fun p hp => ⟨(hi.2 p hp).1, (hi.2 p hp).2.1, (hi.2 p hp).2.2.1⟩⟩
  cases hv : s.vault with
  | nil => have := hi.1.1; rw [hv] at this; simp [minKeys] at this
  | cons a b => rfl

/-! ## non-vacuity -/

/-- the hypotheses of C14.1 are satisfiable: a reachable state of the patched model whose end-block changes the
    vault (history `cx1`: proposal 1 is approved with the yes votes of three of the four registered keys) -/
example : Reachable true (run true (genesis [0, 8, 16, 24]) cx1) ∧
    (step true (run true (genesis [0, 8, 16, 24]) cx1) 30 .endBlock).vault ≠
      (run true (genesis [0, 8, 16, 24]) cx1).vault :=
  ⟨⟨[0, 8, 16, 24], cx1, by decide, rfl⟩, by decide⟩

/-- rejected, undecided and expired proposals (hypothesis of C14.f): proposal 1 holds three no votes,
    proposal 2 two yes votes; an end-block at t = 120 rejects 1 and leaves 2 active, one at t = 1811 expires 1
    (1801 s old) and leaves 2 active (1711 s old), one at t = 1901 expires both; the vault stays -/
example :
    let s := run true (genesis [0, 8, 16, 24])
      [ opSubmit 10 0 [0, 8, 16, 32] 0, opVote 20 0 0 1 1, opVote 20 1 1 1 1, opVote 20 2 2 1 1,
        opSubmit 100 0 [0, 8, 16, 40] 0, opVote 110 0 0 2 2, opVote 110 1 1 2 2 ]
    (∀ t ∈ [120, 1811, 1901], ∀ p ∈ s.active, isExpired p t = true ∨ decideResult true s.vault p ≠ .approved) ∧
    (endBlock true s 120).1.finished.map (fun p => (p.id, p.result)) = [(1, .rejected)] ∧
    (endBlock true s 1811).1.finished.map (fun p => (p.id, p.result)) = [(1, .expired)] ∧
    (endBlock true s 1901).1.finished.map (fun p => (p.id, p.result)) = [(1, .expired), (2, .expired)] ∧
    (endBlock true s 1901).1.vault = [0, 8, 16, 24] := by
  decide

end Sge.Ovm
